/-
  The S storey in Mathlib's terms.

  `mat r c A : Matrix (Fin r) (Fin c) (ZMod 2)` is the `r × c` corner of the value `A : BMat`
  (entry `if A.get i j then 1 else 0`).  This file is the dictionary between the executable specification
  functions (`BMat.mul`, `add`, `zero`, `identity`, `transpose`, `rank`, `unitLower`, `unitUpper`, `triInv`,
  `inverseSpec`, `permMat`, `IsPLUQ`, `IsPLE`, `RankCert`) and Mathlib's linear algebra over `ZMod 2`
  (`*`, `+`, `0`, `1`, `ᵀ`, `Matrix.rank`, `Matrix.BlockTriangular`, `⁻¹`, `Equiv.Perm.permMatrix`).
-/
import M4riProofs.GaussMathlib
import M4riProofs.StrassenAlg
import M4riProofs.Props.C01
import M4riProofs.Mp
import M4riProofs.Djb
import M4riProofs.Trsm
import M4riProofs.Checkers
import M4riProofs.GaussOK
import Mathlib.Data.ZMod.Basic
import Mathlib.Algebra.Field.ZMod
import Mathlib.Data.Matrix.Mul
import Mathlib.LinearAlgebra.Matrix.Rank
import Mathlib.LinearAlgebra.Matrix.NonsingularInverse
import Mathlib.LinearAlgebra.Matrix.Permutation
import Mathlib.LinearAlgebra.Matrix.Block

namespace M4ri
namespace BMat
namespace ML
open Matrix

/-! ## 0. the embedding -/

/-- the `r × c` corner of a value as a Mathlib matrix over `ZMod 2` -/
def mat (r c : Nat) (A : BMat) : Matrix (Fin r) (Fin c) (ZMod 2) :=
  Matrix.of fun i j => if A.get i j then 1 else 0

theorem mat_apply (r c : Nat) (A : BMat) (i : Fin r) (j : Fin c) :
    mat r c A i j = if A.get i j then 1 else 0 := rfl

/-- `mat` is the representation used in the Strassen proofs … -/
theorem mat_eq_toMat (r c : Nat) (A : BMat) : mat r c A = toMat r c A := rfl

/-- … and the one used for the echelon forms and the rank (`GaussMathlib.lean`) -/
theorem toMatrix_eq_mat (c : Nat) (A : BMat) : toMatrix c A = mat A.nrows c A := rfl

theorem mat_apply_eq_one {r c : Nat} {A : BMat} {i : Fin r} {j : Fin c} :
    mat r c A i j = 1 ↔ A.get i j = true := by
  rw [mat_apply]; cases A.get i j <;> decide

theorem mat_apply_eq_zero {r c : Nat} {A : BMat} {i : Fin r} {j : Fin c} :
    mat r c A i j = 0 ↔ A.get i j = false := by
  rw [mat_apply]; cases A.get i j <;> decide

theorem b2z_eq (b : Bool) : (if b then (1 : ZMod 2) else 0) = b2z b := rfl

/-! ## 1. the dictionary -/

/-- **product**: `A` has at least `m` rows and exactly `k` columns; nothing is needed of `B`
    (entries of `B` outside its shape are read as stored, exactly as `BMat.mul` does). -/
theorem mat_mul {m k n : Nat} {A : BMat} (B : BMat) (hm : m ≤ A.nrows) (hk : A.ncols = k) :
    mat m n (A.mul B) = mat m k A * mat k n B := by
  ext i j
  rw [Matrix.mul_apply, mat_apply, get_mul_S, hk, b2z_eq, b2z_and, b2z_xorN]
  have hi : decide ((i : Nat) < A.nrows) = true := by
    have := i.2; simp only [decide_eq_true_eq]; omega
  rw [hi, ← Fin.sum_univ_eq_sum_range (fun l => b2z (A.get i l && B.get l j)) k]
  simp only [b2z_and, mat_apply, b2z_eq]
  simp [b2z]

/-- product of well-formed operands of matching shapes (the form used below) -/
theorem mat_mul_shaped {m k n : Nat} {A B : BMat} (hA : Shaped A m k) (_hB : Shaped B k n) :
    mat m n (A.mul B) = mat m k A * mat k n B :=
  mat_mul B (Nat.le_of_eq hA.nr.symm) hA.nc

/-- **sum** (`A` has at least `m` rows) -/
theorem mat_add {m n : Nat} {A : BMat} (B : BMat) (hm : m ≤ A.nrows) :
    mat m n (A.add B) = mat m n A + mat m n B := by
  ext i j
  have hi : (i : Nat) < A.nrows := by have := i.2; omega
  rw [Matrix.add_apply, mat_apply, mat_apply, mat_apply, get_add _ _ _ _ hi]
  cases A.get i j <;> cases B.get i j <;> decide

/-- **zero** -/
theorem mat_zero (m n r c : Nat) : mat m n (zero r c) = 0 := by
  ext i j
  rw [mat_apply, get_zero]; rfl

/-- **identity** (any corner of it inside the `n × n` square) -/
theorem mat_identity_corner {m n : Nat} (h : m ≤ n) : mat m m (identity n) = 1 := by
  ext i j
  rw [mat_apply, get_identity, Matrix.one_apply]
  have hi : (i : Nat) < n := by have := i.2; omega
  by_cases hij : i = j
  · subst hij; simp [hi]
  · have : ¬ (i : Nat) = j := fun e => hij (Fin.ext e)
    simp [hij, this]

theorem mat_identity (n : Nat) : mat n n (identity n) = 1 := mat_identity_corner (Nat.le_refl n)

/-- **transpose** -/
theorem mat_transpose {m n : Nat} {A : BMat} (hm : m ≤ A.nrows) (hn : n ≤ A.ncols) :
    mat n m A.transpose = (mat m n A)ᵀ := by
  ext i j
  have hi : (i : Nat) < A.ncols := by have := i.2; omega
  have hj : (j : Nat) < A.nrows := by have := j.2; omega
  rw [Matrix.transpose_apply, mat_apply, mat_apply, get_transpose _ _ _ hi hj]

/-- **injectivity**: well-formed values of one shape with the same matrix are equal -/
theorem mat_inj {r c : Nat} {A B : BMat} (hA : Shaped A r c) (hB : Shaped B r c)
    (h : mat r c A = mat r c B) : A = B := by
  apply hA.ext hB
  intro i j hi hj
  have := congrFun (congrFun h ⟨i, hi⟩) ⟨j, hj⟩
  rw [mat_apply, mat_apply] at this
  revert this
  show (if A.get i j = true then (1 : ZMod 2) else 0) = (if B.get i j = true then 1 else 0) → _
  cases A.get i j <;> cases B.get i j <;> decide

theorem mat_eq_iff {r c : Nat} {A B : BMat} (hA : Shaped A r c) (hB : Shaped B r c) :
    mat r c A = mat r c B ↔ A = B :=
  ⟨mat_inj hA hB, fun e => by rw [e]⟩

/-- the same for matrices given by `WF` and equal shapes -/
theorem mat_inj_WF {A B : BMat} (hA : A.WF) (hB : B.WF) (hr : B.nrows = A.nrows) (hc : B.ncols = A.ncols)
    (h : mat A.nrows A.ncols A = mat A.nrows A.ncols B) : A = B :=
  mat_inj ⟨hA, rfl, rfl⟩ ⟨hB, hr, hc⟩ h

/-! ### the converse embedding -/

/-- the value with the entries of a Mathlib matrix -/
def ofMat {r c : Nat} (M : Matrix (Fin r) (Fin c) (ZMod 2)) : BMat :=
  ofFn r c fun i j => if h : i < r ∧ j < c then decide (M ⟨i, h.1⟩ ⟨j, h.2⟩ = 1) else false

theorem ofMat_shaped {r c : Nat} (M : Matrix (Fin r) (Fin c) (ZMod 2)) : Shaped (ofMat M) r c :=
  ⟨WF_ofFn _ _ _, rfl, rfl⟩

theorem ofMat_WF {r c : Nat} (M : Matrix (Fin r) (Fin c) (ZMod 2)) : (ofMat M).WF := (ofMat_shaped M).wf
@[simp] theorem ofMat_nrows {r c : Nat} (M : Matrix (Fin r) (Fin c) (ZMod 2)) : (ofMat M).nrows = r := rfl
@[simp] theorem ofMat_ncols {r c : Nat} (M : Matrix (Fin r) (Fin c) (ZMod 2)) : (ofMat M).ncols = c := rfl

theorem zmod2_cases (a : ZMod 2) : a = 0 ∨ a = 1 := by revert a; decide

/-- `mat ∘ ofMat = id` -/
theorem mat_ofMat {r c : Nat} (M : Matrix (Fin r) (Fin c) (ZMod 2)) : mat r c (ofMat M) = M := by
  ext i j
  rw [mat_apply, ofMat, get_ofFn _ _ _ _ _ i.2 j.2, dif_pos ⟨i.2, j.2⟩]
  rcases zmod2_cases (M i j) with h | h
  · simp only [Fin.eta]; rw [h]; decide
  · simp only [Fin.eta]; rw [h]; decide

/-- `ofMat ∘ mat = id` on well-formed values of that shape -/
theorem ofMat_mat {r c : Nat} {A : BMat} (hA : Shaped A r c) : ofMat (mat r c A) = A :=
  mat_inj (ofMat_shaped _) hA (mat_ofMat _)

/-- `mat r c` is a bijection between the well-formed values of shape `r × c` and the `r × c` matrices -/
theorem exists_unique_shaped {r c : Nat} (M : Matrix (Fin r) (Fin c) (ZMod 2)) :
    ∃ A, (Shaped A r c ∧ mat r c A = M) ∧ ∀ B, Shaped B r c ∧ mat r c B = M → B = A :=
  ⟨ofMat M, ⟨ofMat_shaped M, mat_ofMat M⟩, fun _ hB => mat_inj hB.1 (ofMat_shaped M) (hB.2.trans (mat_ofMat M).symm)⟩

/-- `Rep` of the Strassen proofs is `Shaped ∧ mat = ·` -/
theorem rep_iff {r c : Nat} {A : BMat} {M : Matrix (Fin r) (Fin c) (ZMod 2)} :
    Rep A M ↔ Shaped A r c ∧ mat r c A = M := Iff.rfl

/-! ## 2. C01 in Mathlib's terms: every multiplication route returns the Mathlib product

  `m × k` times `k × n`.  `Shaped X r c` abbreviates `X.WF ∧ X.nrows = r ∧ X.ncols = c`. -/

section C01
variable {m k n : Nat}

/-- a route that returns `A.mul B` returns the Mathlib product (only the shape of `A` matters) -/
theorem mat_of_eq_mul {R A B : BMat} (h : R = A.mul B) (hAr : A.nrows = m) (hAc : A.ncols = k) :
    mat m n R = mat m k A * mat k n B := by
  rw [h]; exact mat_mul B (Nat.le_of_eq hAr.symm) hAc

/-- a route that returns `C.add (A.mul B)` returns `C + A * B` -/
theorem mat_of_eq_add_mul {R C A B : BMat} (h : R = C.add (A.mul B)) (hCr : C.nrows = m)
    (hAr : A.nrows = m) (hAc : A.ncols = k) :
    mat m n R = mat m n C + mat m k A * mat k n B := by
  rw [h, mat_add _ (Nat.le_of_eq hCr.symm), mat_mul B (Nat.le_of_eq hAr.symm) hAc]

/-- `mzd_mul` (Strassen–Winograd incl. the squaring route), every cut-off and fuel -/
theorem mat_mulTop (fuel cutoff : Nat) {C A B : BMat} (same : Bool) (hA : Shaped A m k) (hB : Shaped B k n)
    (hC : Shaped C m n) (hs : same = true → B = A) :
    mat m n (mulTop fuel C A B cutoff same) = mat m k A * mat k n B :=
  mat_of_eq_mul (Props.C01.mul_strassen fuel cutoff C A B same hA.wf hB.wf hC.wf (hA.nc.trans hB.nr.symm)
    (hC.nr.trans hA.nr.symm) (hC.nc.trans hB.nc.symm) hs) hA.nr hA.nc

/-- `mzd_addmul` -/
theorem mat_addmulTop (fuel cutoff : Nat) {C A B : BMat} (same : Bool) (hA : Shaped A m k) (hB : Shaped B k n)
    (hC : Shaped C m n) (hs : same = true → B = A) :
    mat m n (addmulTop fuel C A B cutoff same) = mat m n C + mat m k A * mat k n B :=
  mat_of_eq_add_mul (Props.C01.addmul_strassen fuel cutoff C A B same hA.wf hB.wf hC.wf (hA.nc.trans hB.nr.symm)
    (hC.nr.trans hA.nr.symm) (hC.nc.trans hB.nc.symm) hs) hC.nr hA.nr hA.nc

/-- the recursive routines `_mzd_mul_even`, `_mzd_sqr_even`, `_mzd_addmul_even`, `_mzd_addsqr_even` -/
theorem mat_mulEven (fuel cutoff : Nat) {C A B : BMat} (hA : Shaped A m k) (hB : Shaped B k n)
    (hC : Shaped C m n) : mat m n (mulEven fuel C A B cutoff) = mat m k A * mat k n B :=
  mat_of_eq_mul (Props.C01.mul_even fuel cutoff C A B hA.wf hB.wf hC.wf (hA.nc.trans hB.nr.symm)
    (hC.nr.trans hA.nr.symm) (hC.nc.trans hB.nc.symm)) hA.nr hA.nc

theorem mat_sqrEven (fuel cutoff : Nat) {C A : BMat} (hA : Shaped A m m) (hC : Shaped C m m) :
    mat m m (sqrEven fuel C A cutoff) = mat m m A * mat m m A :=
  mat_of_eq_mul (Props.C01.sqr_even fuel cutoff C A hA.wf hC.wf (hA.nc.trans hA.nr.symm)
    (hC.nr.trans hA.nr.symm) (hC.nc.trans hA.nc.symm)) hA.nr hA.nc

theorem mat_addmulEven (fuel cutoff : Nat) {C A B : BMat} (hA : Shaped A m k) (hB : Shaped B k n)
    (hC : Shaped C m n) : mat m n (addmulEven fuel C A B cutoff) = mat m n C + mat m k A * mat k n B :=
  mat_of_eq_add_mul (Props.C01.addmul_even fuel cutoff C A B hA.wf hB.wf hC.wf (hA.nc.trans hB.nr.symm)
    (hC.nr.trans hA.nr.symm) (hC.nc.trans hB.nc.symm)) hC.nr hA.nr hA.nc

theorem mat_addsqrEven (fuel cutoff : Nat) {C A : BMat} (hA : Shaped A m m) (hC : Shaped C m m) :
    mat m m (addsqrEven fuel C A cutoff) = mat m m C + mat m m A * mat m m A :=
  mat_of_eq_add_mul (Props.C01.addsqr_even fuel cutoff C A hA.wf hC.wf (hA.nc.trans hA.nr.symm)
    (hC.nr.trans hA.nr.symm) (hC.nc.trans hA.nc.symm)) hC.nr hA.nr hA.nc

/-- Four-Russians multiplication `mzd_mul_m4rm` / `mzd_addmul_m4rm`, every table parameter `k'`, every value of
    the `k` heuristic, every heap content behind the index arrays, every table count and thin switch.
    As in C01 only `B` has to be well-formed; `C` needs its row array, `A` just its shape. -/
theorem mat_m4rm {C A B : BMat} (k' auto : Nat) (junk : Nat → Nat) (ntables thin : Nat) (clear : Bool)
    (hB : Shaped B k n) (hC : C.rows.size = C.nrows) (hCr : C.nrows = m) (hCc : C.ncols = n)
    (hAr : A.nrows = m) (hAc : A.ncols = k) :
    mat m n (m4rm C A B k' clear auto junk ntables thin) =
      (if clear then 0 else mat m n C) + mat m k A * mat k n B := by
  have h := Props.C01.mul_m4rm C A B k' auto junk ntables thin clear hB.wf hC (hCr.trans hAr.symm)
    (hCc.trans hB.nc.symm) (hAc.trans hB.nr.symm)
  cases clear
  · simp only [Bool.false_eq_true, if_false] at h ⊢
    exact mat_of_eq_add_mul h hCr hAr hAc
  · simp only [if_true] at h ⊢
    rw [zero_add]; exact mat_of_eq_mul h hAr hAc

/-- cubic route `_mzd_mul_va` -/
theorem mat_mulVa {C v A : BMat} (clear : Bool) (hA : Shaped A k n) (hC : C.rows.size = C.nrows)
    (hCr : C.nrows = m) (hCc : C.ncols = n) (hvr : v.nrows = m) (hvc : v.ncols = k) :
    mat m n (mulVa C v A clear) = (if clear then 0 else mat m n C) + mat m k v * mat k n A := by
  have h := Props.C01.mul_va C v A clear hA.wf hC (hCr.trans hvr.symm) (hCc.trans hA.nc.symm)
  cases clear
  · simp only [Bool.false_eq_true, if_false] at h ⊢
    exact mat_of_eq_add_mul h hCr hvr hvc
  · simp only [if_true] at h ⊢
    rw [zero_add]; exact mat_of_eq_mul h hvr hvc

/-- `mzd_mul_naive` / `mzd_addmul_naive`, any thin-matrix switch point -/
theorem mat_mulNaive {C A B : BMat} (clear : Bool) (thin : Nat) (hB : Shaped B k n)
    (hC : C.rows.size = C.nrows) (hCr : C.nrows = m) (hCc : C.ncols = n) (hAr : A.nrows = m) (hAc : A.ncols = k) :
    mat m n (mulNaive C A B clear thin) = (if clear then 0 else mat m n C) + mat m k A * mat k n B := by
  have h := Props.C01.mul_naive C A B clear thin hB.wf hC (hCr.trans hAr.symm) (hCc.trans hB.nc.symm)
    (hAc.trans hB.nr.symm)
  cases clear
  · simp only [Bool.false_eq_true, if_false] at h ⊢
    exact mat_of_eq_add_mul h hCr hAr hAc
  · simp only [if_true] at h ⊢
    rw [zero_add]; exact mat_of_eq_mul h hAr hAc

/-- the 4-section OpenMP front end `_mzd_mul_mp4`, every schedule of the four sections -/
theorem mat_mulMp4 (sched : List (Fin 4)) (p : sched.Perm [0, 1, 2, 3]) (fuel cutoff : Nat) {C A B : BMat}
    (hA : Shaped A m k) (hB : Shaped B k n) (hC : Shaped C m n) :
    mat m n (Mp.mulMp4 sched fuel C A B cutoff) = mat m k A * mat k n B :=
  mat_of_eq_mul (Mp.mulMp4_eq_mul sched p fuel cutoff C A B hA.wf hB.wf hC.wf (hA.nc.trans hB.nr.symm)
    (hC.nr.trans hA.nr.symm) (hC.nc.trans hB.nc.symm)) hA.nr hA.nc

theorem mat_addmulMp4 (sched : List (Fin 4)) (p : sched.Perm [0, 1, 2, 3]) (fuel cutoff : Nat) {C A B : BMat}
    (hA : Shaped A m k) (hB : Shaped B k n) (hC : Shaped C m n) :
    mat m n (Mp.addmulMp4 sched fuel C A B cutoff) = mat m n C + mat m k A * mat k n B :=
  mat_of_eq_add_mul (Mp.addmulMp4_eq_add_mul sched p fuel cutoff C A B hA.wf hB.wf hC.wf (hA.nc.trans hB.nr.symm)
    (hC.nr.trans hA.nr.symm) (hC.nc.trans hB.nc.symm)) hC.nr hA.nr hA.nc

/-- the wrappers `mzd_mul_mp(NULL | C, …)` -/
theorem mat_mulMp (sched : List (Fin 4)) (p : sched.Perm [0, 1, 2, 3]) (fuel cutoff dflt : Nat) (C : Option BMat)
    {A B : BMat} (hA : Shaped A m k) (hB : Shaped B k n) (hC : ∀ C', C = some C' → Shaped C' m n) :
    mat m n (Mp.mulMp sched fuel C A B cutoff dflt) = mat m k A * mat k n B := by
  cases C with
  | none =>
    exact mat_of_eq_mul (Mp.mulMp_fresh sched p fuel cutoff dflt A B hA.wf hB.wf (hA.nc.trans hB.nr.symm)) hA.nr hA.nc
  | some C' =>
    have h := hC C' rfl
    exact mat_of_eq_mul (Mp.mulMp_some sched p fuel cutoff dflt C' A B hA.wf hB.wf h.wf (hA.nc.trans hB.nr.symm)
      (h.nr.trans hA.nr.symm) (h.nc.trans hB.nc.symm)) hA.nr hA.nc

/-- a compiled DJB straight-line program applied to `V` is the Mathlib product (`V` arbitrary) -/
theorem mat_runDjb {A : BMat} (V : BMat) (hA : Shaped A m k) :
    mat m n (Djb.runDjb A V) = mat m k A * mat k n V :=
  mat_of_eq_mul (Djb.djb_spec A V hA.wf) hA.nr hA.nc

/-- non-vacuity: a concrete instance of `mat_mulTop` -/
example : mat 2 2 (mulTop 3 (zero 2 2) (identity 2) (identity 2) 64 false)
    = mat 2 2 (identity 2) * mat 2 2 (identity 2) :=
  mat_mulTop 3 64 false ⟨WF_identity 2, rfl, rfl⟩ ⟨WF_identity 2, rfl, rfl⟩ ⟨WF_zero 2 2, rfl, rfl⟩ (by simp)

end C01

/-! ## 3. rank, row space, echelon forms -/

/-- **`BMat.rank` is `Matrix.rank`** -/
theorem rank_mat {A : BMat} (hA : A.WF) : (mat A.nrows A.ncols A).rank = A.rank := rank_toMatrix hA

theorem rank_mat_shaped {r c : Nat} {A : BMat} (hA : Shaped A r c) : (mat r c A).rank = A.rank := by
  obtain ⟨h, rfl, rfl⟩ := hA
  exact rank_mat h

/-- the value returned by `mzd_echelonize_naive(A, full)` is `Matrix.rank` -/
theorem rank_mat_gauss {A : BMat} (hA : A.WF) (full : Bool) :
    (mat A.nrows A.ncols A).rank = (gaussDelayed A 0 full).2 := rank_toMatrix_gauss hA full

/-- a rank certificate, read in Mathlib directly (no elimination involved): `A = X·Y` through dimension `r`
    bounds `Matrix.rank` above, `X'·A·Y' = 1` bounds it below -/
theorem rank_of_rankCert {A : BMat} {r : Nat} (h : RankCert A r) : (mat A.nrows A.ncols A).rank = r := by
  obtain ⟨X, Y, X', Y', _, _, _, _, hXr, hXc, _, _, hX'r, hX'c, _, _, hXY, hI⟩ := h
  apply Nat.le_antisymm
  · have e : mat A.nrows A.ncols A = mat A.nrows r X * mat r A.ncols Y := by
      have := mat_mul (m := A.nrows) (k := r) (n := A.ncols) Y (Nat.le_of_eq hXr.symm) hXc
      rw [hXY] at this
      exact this
    rw [e]
    calc (mat A.nrows r X * mat r A.ncols Y).rank ≤ (mat A.nrows r X).rank := Matrix.rank_mul_le_left _ _
      _ ≤ Fintype.card (Fin r) := Matrix.rank_le_card_width _
      _ = r := Fintype.card_fin r
  · have e : (1 : Matrix (Fin r) (Fin r) (ZMod 2)) =
        (mat r A.nrows X' * mat A.nrows A.ncols A) * mat A.ncols r Y' := by
      rw [← mat_identity r, ← hI,
        mat_mul (A := X'.mul A) (m := r) (k := A.ncols) (n := r) Y' (Nat.le_of_eq hX'r.symm) rfl,
        mat_mul A (Nat.le_of_eq hX'r.symm) hX'c]
    have h1 : (1 : Matrix (Fin r) (Fin r) (ZMod 2)).rank = r := by
      rw [Matrix.rank_one, Fintype.card_fin]
    calc r = (1 : Matrix (Fin r) (Fin r) (ZMod 2)).rank := h1.symm
      _ = ((mat r A.nrows X' * mat A.nrows A.ncols A) * mat A.ncols r Y').rank := by rw [← e]
      _ ≤ (mat r A.nrows X' * mat A.nrows A.ncols A).rank := Matrix.rank_mul_le_left _ _
      _ ≤ (mat A.nrows A.ncols A).rank := Matrix.rank_mul_le_right _ _

/-- **`RankCert A r` says exactly that Mathlib's rank of `A` is `r`** -/
theorem rankCert_iff_rank {A : BMat} (hA : A.WF) (r : Nat) :
    RankCert A r ↔ (mat A.nrows A.ncols A).rank = r := by
  constructor
  · exact rank_of_rankCert
  · intro h
    rw [rank_mat hA] at h
    rw [← h]; exact GOK.rankCert_rank A hA

/-- accepted PLUQ / PLE certificates carry Mathlib's rank -/
theorem rank_of_checkPLUQ {A S : BMat} {P Q : Array Nat} {r : Nat} (hA : A.WF)
    (h : checkPLUQ A S P Q r = true) : (mat A.nrows A.ncols A).rank = r := by
  rw [rank_mat hA, GOK.pluq_rank hA h]

theorem rank_of_checkPLE {A S : BMat} {P Q : Array Nat} {r : Nat} (hA : A.WF)
    (h : checkPLE A S P Q r = true) : (mat A.nrows A.ncols A).rank = r := by
  rw [rank_mat hA, (GOK.ple_rank_profile hA h).1]

/-- `SameSpan` is equality of the Mathlib row spaces `span (range (mat ·).row)` -/
theorem sameSpan_iff_span_rows {A B : BMat} (hA : A.WF) (hB : B.WF) (hc : B.ncols = A.ncols) :
    SameSpan A B ↔
      Submodule.span (ZMod 2) (Set.range (mat A.nrows A.ncols A).row) =
      Submodule.span (ZMod 2) (Set.range (mat B.nrows A.ncols B).row) :=
  sameSpan_iff_rowSpace_eq hA hB hc

/-- the executable predicates `isRowEchelon` / `isRREF` imply Mathlib's -/
theorem mat_isRowEchelon {R : BMat} (hR : R.WF) (h : R.isRowEchelon = true) :
    (mat R.nrows R.ncols R).IsRowEchelon := toMatrix_isRowEchelon hR h

theorem mat_isReducedRowEchelon {R : BMat} (hR : R.WF) (h : R.isRREF = true) :
    (mat R.nrows R.ncols R).IsReducedRowEchelon := toMatrix_isReducedRowEchelon hR h

/-- `rref A` in Mathlib's terms: reduced row echelon, same row space, and `rank` counts its pivots -/
theorem mat_rref {A : BMat} (hA : A.WF) :
    (mat A.rref.nrows A.rref.ncols A.rref).IsReducedRowEchelon ∧
    Submodule.span (ZMod 2) (Set.range (mat A.nrows A.ncols A).row) =
      Submodule.span (ZMod 2) (Set.range (mat A.rref.nrows A.ncols A.rref).row) :=
  ⟨mat_isReducedRowEchelon (rref_WF hA) (rref_isRREF hA),
   (sameSpan_iff_span_rows hA (rref_WF hA) (rref_ncols hA)).mp (rref_sameSpan hA)⟩

/-! ## 4. triangular matrices, triangular solves, inverses -/

section Tri
variable {n : Nat}

/-- entries of `unitLower L`: the strictly lower part of `L`, ones on the diagonal, zeros above -/
theorem mat_unitLower_apply {L : BMat} (hn : n ≤ L.nrows) (i j : Fin n) :
    mat n n (unitLower L) i j = if j < i then mat n n L i j else if j = i then 1 else 0 := by
  have hi : (i : Nat) < L.nrows := by have := i.2; omega
  rw [mat_apply, mat_apply, unitLower_get]
  by_cases hji : j < i
  · have : (j : Nat) < i := hji
    simp [hi, hji, this]
  · have h1 : ¬ (j : Nat) < i := hji
    by_cases hji' : j = i
    · subst hji'; simp [hi]
    · have h2 : ¬ (j : Nat) = i := fun e => hji' (Fin.ext e)
      simp [hi, hji, hji', h1, h2]

/-- `mat (unitLower L)` is lower triangular in Mathlib's sense (no hypothesis on `L` at all) -/
theorem mat_unitLower_isLowerTriangular (L : BMat) : (mat n n (unitLower L)).IsLowerTriangular := by
  intro i j hij
  have hlt : (i : Nat) < j := hij
  rw [mat_apply_eq_zero, unitLower_get]
  have h1 : ¬ (j : Nat) < i := by omega
  have h2 : ¬ (j : Nat) = i := by omega
  simp [h1, h2]

theorem mat_unitLower_diag {L : BMat} (hn : n ≤ L.nrows) (i : Fin n) : mat n n (unitLower L) i i = 1 := by
  rw [mat_unitLower_apply hn]; simp

/-- hence its determinant is `1` and it is invertible -/
theorem det_mat_unitLower {L : BMat} (hn : n ≤ L.nrows) : (mat n n (unitLower L)).det = 1 := by
  rw [Matrix.det_of_isLowerTriangular _ (mat_unitLower_isLowerTriangular L)]
  exact Finset.prod_eq_one fun i _ => mat_unitLower_diag hn i

theorem isUnit_det_mat_unitLower {L : BMat} (hn : n ≤ L.nrows) : IsUnit (mat n n (unitLower L)).det := by
  rw [det_mat_unitLower hn]; exact isUnit_one

/-- entries of `unitUpper U`: ones on the diagonal, the strictly upper part of `U`, zeros below -/
theorem mat_unitUpper_apply {U : BMat} (hr : n ≤ U.nrows) (hc : n ≤ U.ncols) (i j : Fin n) :
    mat n n (unitUpper U) i j = if i < j then mat n n U i j else if j = i then 1 else 0 := by
  have hi : (i : Nat) < U.nrows := by have := i.2; omega
  have hj : (j : Nat) < U.ncols := by have := j.2; omega
  rw [mat_apply, mat_apply, unitUpper_get]
  by_cases hij : i < j
  · have : (i : Nat) < j := hij
    simp [hi, hj, hij, this]
  · have h1 : ¬ (i : Nat) < j := hij
    by_cases hji' : j = i
    · subst hji'; simp [hi]
    · have h2 : ¬ (j : Nat) = i := fun e => hji' (Fin.ext e)
      simp [hi, hij, hji', h1, h2]

/-- `mat (unitUpper U)` is upper triangular in Mathlib's sense -/
theorem mat_unitUpper_isUpperTriangular (U : BMat) : (mat n n (unitUpper U)).IsUpperTriangular := by
  intro i j hij
  have hlt : (j : Nat) < i := hij
  rw [mat_apply_eq_zero, unitUpper_get]
  have h1 : ¬ (i : Nat) < j := by omega
  have h2 : ¬ (j : Nat) = i := by omega
  simp [h1, h2]

theorem mat_unitUpper_diag {U : BMat} (hr : n ≤ U.nrows) (i : Fin n) : mat n n (unitUpper U) i i = 1 := by
  have hi : (i : Nat) < U.nrows := by have := i.2; omega
  rw [mat_apply, unitUpper_get]; simp [hi]

theorem det_mat_unitUpper {U : BMat} (hr : n ≤ U.nrows) : (mat n n (unitUpper U)).det = 1 := by
  rw [Matrix.det_of_isUpperTriangular (mat_unitUpper_isUpperTriangular U)]
  exact Finset.prod_eq_one fun i _ => mat_unitUpper_diag hr i

theorem isUnit_det_mat_unitUpper {U : BMat} (hr : n ≤ U.nrows) : IsUnit (mat n n (unitUpper U)).det := by
  rw [det_mat_unitUpper hr]; exact isUnit_one

/-! ### C04: the four triangular solves are multiplication by Mathlib's inverse -/

variable {c : Nat}

/-- `mzd_trsm_lower_left`: `X = L⁻¹ · B` -/
theorem mat_trsmLowerLeft {L B : BMat} (hLr : L.nrows = n) (hLc : L.ncols = n) (hB : Shaped B n c) :
    mat n c (trsmLowerLeft L B) = (mat n n (unitLower L))⁻¹ * mat n c B := by
  have h := trsmLowerLeft_spec (hLr.trans hB.nr.symm) (hLc.trans hB.nr.symm) hB.wf
  have e := mat_mul (A := unitLower L) (m := n) (k := n) (n := c) (trsmLowerLeft L B)
    (Nat.le_of_eq hLr.symm) hLc
  rw [h] at e
  rw [e, Matrix.nonsing_inv_mul_cancel_left _ _ (isUnit_det_mat_unitLower (Nat.le_of_eq hLr.symm))]

/-- `mzd_trsm_upper_left`: `X = U⁻¹ · B` -/
theorem mat_trsmUpperLeft {U B : BMat} (hUr : U.nrows = n) (hUc : U.ncols = n) (hB : Shaped B n c) :
    mat n c (trsmUpperLeft U B) = (mat n n (unitUpper U))⁻¹ * mat n c B := by
  have h := trsmUpperLeft_spec (hUr.trans hB.nr.symm) (hUc.trans hB.nr.symm) hB.wf
  have e := mat_mul (A := unitUpper U) (m := n) (k := n) (n := c) (trsmUpperLeft U B)
    (Nat.le_of_eq hUr.symm) hUc
  rw [h] at e
  rw [e, Matrix.nonsing_inv_mul_cancel_left _ _ (isUnit_det_mat_unitUpper (Nat.le_of_eq hUr.symm))]

/-- `mzd_trsm_upper_right`: `X = B · U⁻¹` -/
theorem mat_trsmUpperRight {U B : BMat} (hUr : U.nrows = n) (hUc : U.ncols = n) (hB : Shaped B c n) :
    mat c n (trsmUpperRight U B) = mat c n B * (mat n n (unitUpper U))⁻¹ := by
  have h := trsmUpperRight_spec (hUr.trans hB.nc.symm) (hUc.trans hB.nc.symm) hB.wf
  have e := mat_mul (A := trsmUpperRight U B) (m := c) (k := n) (n := n) (unitUpper U)
    (Nat.le_of_eq (by rw [trsmUpperRight_nrows, hB.nr])) (by rw [trsmUpperRight_ncols, hB.nc])
  rw [h] at e
  rw [e, Matrix.mul_nonsing_inv_cancel_right _ _ (isUnit_det_mat_unitUpper (Nat.le_of_eq hUr.symm))]

/-- `mzd_trsm_lower_right`: `X = B · L⁻¹` -/
theorem mat_trsmLowerRight {L B : BMat} (hLr : L.nrows = n) (hLc : L.ncols = n) (hB : Shaped B c n) :
    mat c n (trsmLowerRight L B) = mat c n B * (mat n n (unitLower L))⁻¹ := by
  have h := trsmLowerRight_spec (hLr.trans hB.nc.symm) (hLc.trans hB.nc.symm) hB.wf
  have e := mat_mul (A := trsmLowerRight L B) (m := c) (k := n) (n := n) (unitLower L)
    (Nat.le_of_eq (by rw [trsmLowerRight_nrows, hB.nr])) (by rw [trsmLowerRight_ncols, hB.nc])
  rw [h] at e
  rw [e, Matrix.mul_nonsing_inv_cancel_right _ _ (isUnit_det_mat_unitLower (Nat.le_of_eq hLr.symm))]

/-! ### C05: inverses -/

/-- **`triInv U` is Mathlib's inverse of `unitUpper U`** -/
theorem mat_triInv {U : BMat} (hUr : U.nrows = n) (hUc : U.ncols = n) :
    mat n n (triInv U) = (mat n n (unitUpper U))⁻¹ := by
  have h := triInv_mul U (hUc.trans hUr.symm)
  have e := mat_mul (A := triInv U) (m := n) (k := n) (n := n) (unitUpper U)
    (Nat.le_of_eq (by rw [triInv_nrows, hUr])) (by rw [triInv_ncols, hUr])
  rw [h, hUr, mat_identity] at e
  exact (Matrix.inv_eq_left_inv e.symm).symm

/-- … and it is again unit upper triangular -/
theorem mat_triInv_isUpperTriangular (U : BMat) : (mat n n (triInv U)).IsUpperTriangular := by
  rw [← unitUpper_triInv]; exact mat_unitUpper_isUpperTriangular _

theorem mat_triInv_diag {U : BMat} (hUr : n ≤ U.nrows) (i : Fin n) : mat n n (triInv U) i i = 1 := by
  rw [← unitUpper_triInv]; exact mat_unitUpper_diag (by simpa using hUr) i

/-- a well-formed square matrix has a well-formed right inverse iff its Mathlib determinant is a unit -/
theorem isUnit_det_iff {A : BMat} (hA : Shaped A n n) :
    IsUnit (mat n n A).det ↔ ∃ B, Shaped B n n ∧ A.mul B = identity n := by
  constructor
  · intro hdet
    refine ⟨ofMat (mat n n A)⁻¹, ofMat_shaped _, ?_⟩
    apply mat_inj (r := n) (c := n) (hA.mul (ofMat_shaped _)) ⟨WF_identity n, rfl, rfl⟩
    rw [mat_mul_shaped hA (ofMat_shaped _), mat_ofMat, mat_identity, Matrix.mul_nonsing_inv _ hdet]
  · rintro ⟨B, hB, h⟩
    apply Matrix.isUnit_det_of_right_inverse (B := mat n n B)
    rw [← mat_mul_shaped hA hB, h, mat_identity]

/-- **`inverseSpec A` (right half of the RREF of `[A | I]`, what `mzd_inv_m4ri` is judged against) is Mathlib's
    `(mat A)⁻¹`** for every well-formed square `A` whose determinant is a unit (= non-zero) -/
theorem mat_inverseSpec {A : BMat} (hA : Shaped A n n) (hdet : IsUnit (mat n n A).det) :
    mat n n (inverseSpec A) = (mat n n A)⁻¹ := by
  obtain ⟨B, hB, h⟩ := (isUnit_det_iff hA).mp hdet
  have hsq : A.ncols = A.nrows := hA.nc.trans hA.nr.symm
  have hAB : A.mul B = identity A.nrows := by rw [hA.nr]; exact h
  obtain ⟨e, _, _⟩ := GOK.inverse_spec hA.wf hsq hB.wf (hB.nr.trans hA.nr.symm) (hB.nc.trans hA.nr.symm) hAB
  rw [e]
  have : mat n n A * mat n n B = 1 := by rw [← mat_mul_shaped hA hB, h, mat_identity]
  exact (Matrix.inv_eq_right_inv this).symm

/-- `ZMod 2` is a field: "unit determinant" is "non-zero determinant" is "determinant one" -/
theorem isUnit_det_iff_ne_zero (M : Matrix (Fin n) (Fin n) (ZMod 2)) : IsUnit M.det ↔ M.det ≠ 0 :=
  isUnit_iff_ne_zero

/-- `mzd_invert_naive(INV, A, I)` returns Mathlib's inverse for an invertible `A` (`n ≥ 1`) -/
theorem mat_invertNaive {A : BMat} (hA : Shaped A n n) (hn : 1 ≤ n) (hdet : IsUnit (mat n n A).det) :
    ∃ R, invertNaive A (identity n) = some R ∧ Shaped R n n ∧ mat n n R = (mat n n A)⁻¹ := by
  obtain ⟨B, hB, h⟩ := (isUnit_det_iff hA).mp hdet
  have hsq : A.ncols = A.nrows := hA.nc.trans hA.nr.symm
  have hAB : A.mul B = identity A.nrows := by rw [hA.nr]; exact h
  have := (GOK.invert_naive_spec hA.wf hsq (by rw [hA.nr]; exact hn) hB.wf (hB.nr.trans hA.nr.symm)
    (hB.nc.trans hA.nr.symm) hAB).1
  rw [hA.nr] at this
  refine ⟨B, this, hB, ?_⟩
  have : mat n n A * mat n n B = 1 := by rw [← mat_mul_shaped hA hB, h, mat_identity]
  exact (Matrix.inv_eq_right_inv this).symm

/-- non-vacuity: `[[1,1],[0,1]]` -/
example : IsUnit (mat 2 2 ⟨2, 2, #[3, 2]⟩).det :=
  (isUnit_det_iff ⟨GOK.wf_ex2, rfl, rfl⟩).mpr ⟨⟨2, 2, #[3, 2]⟩, ⟨GOK.wf_ex2, rfl, rfl⟩, by decide +kernel⟩

end Tri

/-! ## 5. permutations and the factorisations -/

section Perm
variable {m n : Nat}

/-- the Mathlib permutation of `Fin m` of an index permutation `σ` of `[0, m)` -/
def permOf {σ σ' : Nat → Nat} (h : PermOn m σ σ') : Equiv.Perm (Fin m) where
  toFun i := ⟨σ i, (h.1 i i.2).1⟩
  invFun i := ⟨σ' i, (h.1 i i.2).2⟩
  left_inv i := Fin.ext (h.2.1 i).2
  right_inv i := Fin.ext (h.2.1 i).1

theorem permOf_apply {σ σ' : Nat → Nat} (h : PermOn m σ σ') (i : Fin m) : ((permOf h i : Fin m) : Nat) = σ i := rfl
theorem permOf_symm_apply {σ σ' : Nat → Nat} (h : PermOn m σ σ') (i : Fin m) :
    (((permOf h).symm i : Fin m) : Nat) = σ' i := rfl

/-- entries of Mathlib's permutation matrix -/
theorem permMatrix_apply (p : Equiv.Perm (Fin m)) (i j : Fin m) :
    p.permMatrix (ZMod 2) i j = if p i = j then 1 else 0 := by
  simp [Equiv.Perm.permMatrix, PEquiv.toMatrix_apply, Equiv.toPEquiv_apply, eq_comm]

/-- **`permMat m σ` is Mathlib's permutation matrix of `σ`** -/
theorem mat_permMat {σ σ' : Nat → Nat} (h : PermOn m σ σ') :
    mat m m (permMat m σ) = (permOf h).permMatrix (ZMod 2) := by
  ext i j
  rw [mat_apply, permMat_get, permMatrix_apply]
  have e : (permOf h i = j) ↔ (j : Nat) = σ i := by
    rw [Fin.ext_iff, permOf_apply]; exact eq_comm
  by_cases hj : (j : Nat) = σ i
  · rw [if_pos (e.mpr hj)]; simp [hj, i.2, (h.1 i i.2).1]
  · rw [if_neg (fun c => hj (e.mp c))]; simp [hj]

/-- **`colPermMat n τ` is Mathlib's permutation matrix of `τ⁻¹`** (the transpose of that of `τ`) -/
theorem mat_colPermMat {τ τ' : Nat → Nat} (h : PermOn n τ τ') :
    mat n n (colPermMat n τ) = ((permOf h)⁻¹).permMatrix (ZMod 2) := by
  ext i j
  rw [mat_apply, colPermMat_get, permMatrix_apply]
  have e : ((permOf h)⁻¹ i = j) ↔ (i : Nat) = τ j := by
    rw [Equiv.Perm.inv_def, Equiv.symm_apply_eq, Fin.ext_iff, permOf_apply]
  by_cases hj : (i : Nat) = τ j
  · rw [if_pos (e.mpr hj)]; simp [← hj, i.2, j.2]
  · rw [if_neg (fun c => hj (e.mp c))]; simp [hj]

theorem mat_colPermMat_transpose {τ τ' : Nat → Nat} (h : PermOn n τ τ') :
    mat n n (colPermMat n τ) = ((permOf h).permMatrix (ZMod 2))ᵀ := by
  rw [mat_colPermMat h, Matrix.transpose_permMatrix]

/-- the permutation of `Fin m` that a LAPACK-style array `P` stands for: `i ↦ rowPerm P m i`, the composition
    of the transpositions `(k P[k])`, `k < m` -/
def lapackPerm (P : Array Nat) (m : Nat) (hP : ∀ i, i < m → P.getD i 0 < m) : Equiv.Perm (Fin m) :=
  permOf (rowPerm_permOn P m m (Nat.le_refl m) hP)

theorem lapackPerm_apply (P : Array Nat) (m : Nat) (hP : ∀ i, i < m → P.getD i 0 < m) (i : Fin m) :
    ((lapackPerm P m hP i : Fin m) : Nat) = rowPerm P m i := rfl

theorem lapackPerm_symm_apply (P : Array Nat) (m : Nat) (hP : ∀ i, i < m → P.getD i 0 < m) (i : Fin m) :
    (((lapackPerm P m hP).symm i : Fin m) : Nat) = rowPermInv P m i := rfl

/-- the first `k` transpositions of a LAPACK array -/
def lapackPermUpTo (P : Array Nat) (m : Nat) (hP : ∀ i, i < m → P.getD i 0 < m) (k : Nat) (hk : k ≤ m) :
    Equiv.Perm (Fin m) :=
  permOf (rowPerm_permOn P m k hk fun t ht => hP t (Nat.lt_of_lt_of_le ht hk))

theorem lapackPermUpTo_zero (P : Array Nat) (m : Nat) (hP : ∀ i, i < m → P.getD i 0 < m) :
    lapackPermUpTo P m hP 0 (Nat.zero_le m) = 1 := by
  ext i; rfl

/-- one more Mathlib transposition `Equiv.swap k P[k]` (applied first) -/
theorem lapackPermUpTo_succ (P : Array Nat) (m : Nat) (hP : ∀ i, i < m → P.getD i 0 < m) (k : Nat) (hk : k + 1 ≤ m) :
    lapackPermUpTo P m hP (k + 1) hk =
      lapackPermUpTo P m hP k (Nat.le_of_succ_le hk) * Equiv.swap ⟨k, hk⟩ ⟨P.getD k 0, hP k hk⟩ := by
  ext i
  show rowPerm P (k + 1) i = rowPerm P k ((Equiv.swap (⟨k, hk⟩ : Fin m) ⟨P.getD k 0, hP k hk⟩ i : Fin m) : Nat)
  have e : ((Equiv.swap (⟨k, hk⟩ : Fin m) ⟨P.getD k 0, hP k hk⟩ i : Fin m) : Nat) = swapIdx k (P.getD k 0) i := by
    rw [Equiv.swap_apply_def]
    unfold swapIdx
    by_cases h1 : (i : Nat) = k
    · rw [if_pos (Fin.ext h1), if_pos h1]
    · rw [if_neg (fun c => h1 (congrArg Fin.val c)), if_neg h1]
      by_cases h2 : (i : Nat) = P.getD k 0
      · rw [if_pos (Fin.ext h2), if_pos h2]
      · rw [if_neg (fun c => h2 (congrArg Fin.val c)), if_neg h2]
  rw [e]; rfl

theorem lapackPerm_eq_upTo (P : Array Nat) (m : Nat) (hP : ∀ i, i < m → P.getD i 0 < m) :
    lapackPerm P m hP = lapackPermUpTo P m hP m (Nat.le_refl m) := rfl

/-- **the permutation of a LAPACK array is the product of the Mathlib transpositions**
    `swap 0 P[0] * swap 1 P[1] * … * swap (m-1) P[m-1]` -/
theorem lapackPerm_eq_prod (P : Array Nat) (m : Nat) (hP : ∀ i, i < m → P.getD i 0 < m) :
    lapackPerm P m hP = ((List.finRange m).map fun k => Equiv.swap k ⟨P.getD k 0, hP k k.2⟩).prod := by
  have key : ∀ k (hk : k ≤ m), lapackPermUpTo P m hP k hk =
      (((List.finRange m).take k).map fun k => Equiv.swap k ⟨P.getD k 0, hP k k.2⟩).prod := by
    intro k
    induction k with
    | zero => intro hk; rw [lapackPermUpTo_zero]; simp
    | succ k ih =>
      intro hk
      rw [lapackPermUpTo_succ, ih (Nat.le_of_succ_le hk),
        List.take_succ_eq_append_getElem (by rw [List.length_finRange]; exact hk), List.map_append,
        List.prod_append]
      simp
  rw [lapackPerm_eq_upTo, key m (Nat.le_refl m)]
  congr 2
  exact List.take_of_length_le (by rw [List.length_finRange])

/-- undoing a row and a column permutation, in Mathlib's terms -/
theorem eq_perm_mul_of_submatrix (M N : Matrix (Fin m) (Fin n) (ZMod 2)) (p : Equiv.Perm (Fin m))
    (q : Equiv.Perm (Fin n)) (h : M.submatrix p q = N) :
    M = (p⁻¹).permMatrix (ZMod 2) * N * q.permMatrix (ZMod 2) := by
  have e1 : (p⁻¹).permMatrix (ZMod 2) * N = N.submatrix p.symm id := PEquiv.toMatrix_toPEquiv_mul p.symm N
  have e2 : (N.submatrix p.symm id) * q.permMatrix (ZMod 2) = (N.submatrix p.symm id).submatrix id q.symm :=
    PEquiv.mul_toMatrix_toPEquiv _ q
  rw [e1, e2, ← h]
  ext i j
  simp

/-- a product read off entry by entry (`dotSpec_T` is the entry of `BMat.mul`) -/
theorem mat_eq_mul_of_get {k : Nat} {X L U : BMat} (hLr : m ≤ L.nrows) (hLc : L.ncols = k)
    (h : ∀ i j, i < m → j < n → X.get i j = dotSpec_T L U i j) :
    mat m n X = mat m k L * mat k n U := by
  rw [← mat_mul U hLr hLc]
  ext i j
  rw [mat_apply, mat_apply, h i j i.2 j.2, mul_get _ _ _ _ (Nat.lt_of_lt_of_le i.2 hLr)]

/-! ### the shapes of the stored factors -/

/-- `L = lowerFactor S r` (`m × r`): unit lower trapezoidal — `S` strictly below the diagonal, ones on it, zeros above -/
theorem mat_lowerFactor_apply {S : BMat} {r : Nat} (hm : m ≤ S.nrows) (i : Fin m) (j : Fin r) :
    mat m r (lowerFactor S r) i j =
      if (j : Nat) < i then (if S.get i j then 1 else 0) else if (j : Nat) = i then 1 else 0 := by
  have hi : (i : Nat) < S.nrows := Nat.lt_of_lt_of_le i.2 hm
  rw [mat_apply, lowerFactor_get]
  by_cases hji : (j : Nat) < i
  · have : ¬ (j : Nat) = i := by omega
    simp [hi, hji, j.2, this]
  · by_cases hji' : (j : Nat) = i
    · have : (i : Nat) < r := by rw [← hji']; exact j.2
      simp [hi, hji', this]
    · simp [hi, hji, hji']

/-- its top `r × r` block is lower triangular with unit diagonal, hence of determinant one -/
theorem mat_lowerFactor_isLowerTriangular (S : BMat) (r : Nat) :
    (mat r r (lowerFactor S r)).IsLowerTriangular := by
  intro i j hij
  have hlt : (i : Nat) < j := hij
  rw [mat_apply_eq_zero, lowerFactor_get]
  have h1 : ¬ (j : Nat) < i := by omega
  have h2 : ¬ (j : Nat) = i := by omega
  simp [h1, h2]

theorem det_mat_lowerFactor {S : BMat} {r : Nat} (hr : r ≤ S.nrows) : (mat r r (lowerFactor S r)).det = 1 := by
  rw [Matrix.det_of_isLowerTriangular _ (mat_lowerFactor_isLowerTriangular S r)]
  exact Finset.prod_eq_one fun i _ => by rw [mat_lowerFactor_apply hr]; simp

/-- `U = upperFactor S r` (`r × n`): upper trapezoidal — `S` on and above the diagonal, zeros below -/
theorem mat_upperFactor_apply {S : BMat} {r : Nat} (hn : n ≤ S.ncols) (i : Fin r) (j : Fin n) :
    mat r n (upperFactor S r) i j = if (i : Nat) ≤ j then (if S.get i j then 1 else 0) else 0 := by
  have hj : (j : Nat) < S.ncols := Nat.lt_of_lt_of_le j.2 hn
  rw [mat_apply, upperFactor_get]
  by_cases hij : (i : Nat) ≤ j
  · simp [hij, hj, i.2]
  · simp [hij]

theorem mat_upperFactor_isUpperTriangular (S : BMat) (r : Nat) :
    (mat r r (upperFactor S r)).IsUpperTriangular := by
  intro i j hij
  have hlt : (j : Nat) < i := hij
  rw [mat_apply_eq_zero, upperFactor_get]
  have h1 : ¬ (i : Nat) ≤ j := by omega
  simp [h1]

theorem det_mat_upperFactor {S : BMat} {r : Nat} (hr : r ≤ S.ncols) (hdiag : ∀ i, i < r → S.get i i = true) :
    (mat r r (upperFactor S r)).det = 1 := by
  rw [Matrix.det_of_isUpperTriangular (mat_upperFactor_isUpperTriangular S r)]
  exact Finset.prod_eq_one fun i _ => by rw [mat_upperFactor_apply hr]; simp [hdiag i i.2]

/-- `E = echelonFactor S Q r` (`r × n`): row `i` has zeros left of its pivot column `Q[i]`, a one in it, and `S`
    right of it -/
theorem mat_echelonFactor_apply {S : BMat} {Q : Array Nat} {r : Nat} (hn : n ≤ S.ncols) (i : Fin r) (j : Fin n) :
    mat r n (echelonFactor S Q r) i j =
      if Q.getD i 0 < j then (if S.get i j then 1 else 0) else if (j : Nat) = Q.getD i 0 then 1 else 0 := by
  have hj : (j : Nat) < S.ncols := Nat.lt_of_lt_of_le j.2 hn
  rw [mat_apply, echelonFactor_get]
  generalize Q.getD i 0 = q
  by_cases h1 : q < j
  · have : ¬ (j : Nat) = q := by omega
    simp [h1, hj, i.2, this]
  · by_cases h2 : (j : Nat) = q
    · simp [h2, i.2]
    · simp [h1, h2]

/-! ### C03: PLUQ and PLE certificates as Mathlib factorisations -/

/-- **PLUQ**: `A = P · L · U · Q` with Mathlib permutation matrices: `P` that of the inverse of the row permutation
    `lapackPerm P`, `Q` that of the column permutation `lapackPerm Q`; `L = lowerFactor S r` is `m × r` unit lower
    trapezoidal, `U = upperFactor S r` is `r × n` upper trapezoidal with unit diagonal (`mat_lowerFactor_apply`,
    `mat_upperFactor_apply`, `h.diag`). -/
theorem mat_of_isPLUQ {A S : BMat} {P Q : Array Nat} {r : Nat} (h : IsPLUQ A S P Q r) (hA : A.WF) :
    mat A.nrows A.ncols A =
      ((lapackPerm P A.nrows fun i hi => (h.P_lapack i hi).2)⁻¹).permMatrix (ZMod 2) *
        (mat A.nrows r (lowerFactor S r) * mat r A.ncols (upperFactor S r)) *
        (lapackPerm Q A.ncols fun i hi => (h.Q_lapack i hi).2).permMatrix (ZMod 2) := by
  obtain ⟨_, _, hget, _, _⟩ := applyP_eq_perm hA h.P_size (fun i hi => (h.P_lapack i hi).2)
    h.Q_size (fun i hi => (h.Q_lapack i hi).2)
  apply eq_perm_mul_of_submatrix
  rw [← mat_eq_mul_of_get (X := (A.applyPLeft P).applyPRightTrans Q) (k := r) (L := lowerFactor S r) (U := upperFactor S r)
    (Nat.le_of_eq h.nrows_eq.symm) rfl h.prod]
  ext i j
  rw [Matrix.submatrix_apply, mat_apply, mat_apply, hget i j i.2]
  rfl

/-- the same with the factors named only by their Mathlib properties -/
theorem isPLUQ_exists_factorisation {A S : BMat} {P Q : Array Nat} {r : Nat} (h : IsPLUQ A S P Q r) (hA : A.WF) :
    ∃ (p : Equiv.Perm (Fin A.nrows)) (q : Equiv.Perm (Fin A.ncols))
      (L : Matrix (Fin A.nrows) (Fin r) (ZMod 2)) (U : Matrix (Fin r) (Fin A.ncols) (ZMod 2)),
      mat A.nrows A.ncols A = p.permMatrix (ZMod 2) * (L * U) * q.permMatrix (ZMod 2) ∧
      (∀ (i : Fin A.nrows) (j : Fin r), (i : Nat) < j → L i j = 0) ∧
      (∀ (i : Fin A.nrows) (j : Fin r), (i : Nat) = j → L i j = 1) ∧
      (∀ (i : Fin r) (j : Fin A.ncols), (j : Nat) < i → U i j = 0) ∧
      (∀ (i : Fin r) (j : Fin A.ncols), (i : Nat) = j → U i j = 1) ∧
      (mat A.nrows A.ncols A).rank = r := by
  refine ⟨_, _, _, _, mat_of_isPLUQ h hA, ?_, ?_, ?_, ?_, rank_of_rankCert (h.rankCert hA)⟩
  · intro i j hij
    rw [mat_lowerFactor_apply (Nat.le_of_eq h.nrows_eq.symm)]
    have h1 : ¬ (j : Nat) < i := by omega
    have h2 : ¬ (j : Nat) = i := by omega
    simp [h1, h2]
  · intro i j hij
    rw [mat_lowerFactor_apply (Nat.le_of_eq h.nrows_eq.symm)]
    simp [hij]
  · intro i j hij
    rw [mat_upperFactor_apply (Nat.le_of_eq h.ncols_eq.symm)]
    have h1 : ¬ (i : Nat) ≤ j := by omega
    simp [h1]
  · intro i j hij
    rw [mat_upperFactor_apply (Nat.le_of_eq h.ncols_eq.symm)]
    simp [← hij, h.diag i i.2]

/-- **PLE**: `A = P · L · E` with `P` the Mathlib permutation matrix of the inverse of `lapackPerm P`,
    `L = lowerFactor S r` unit lower trapezoidal and `E = echelonFactor S Q r` in row echelon form with pivot
    columns `Q[0] < Q[1] < …` (`mat_echelonFactor_apply`, `h.pivot_mono`). -/
theorem mat_of_isPLE {A S : BMat} {P Q : Array Nat} {r : Nat} (h : IsPLE A S P Q r) (hA : A.WF) :
    mat A.nrows A.ncols A =
      ((lapackPerm P A.nrows fun i hi => (h.P_lapack i hi).2)⁻¹).permMatrix (ZMod 2) *
        (mat A.nrows r (lowerFactor S r) * mat r A.ncols (echelonFactor S Q r)) := by
  obtain ⟨_, hget, _, _⟩ := applyPLeft_eq_perm hA h.P_size (fun i hi => (h.P_lapack i hi).2)
  have key := eq_perm_mul_of_submatrix (mat A.nrows A.ncols A)
    (mat A.nrows r (lowerFactor S r) * mat r A.ncols (echelonFactor S Q r))
    (lapackPerm P A.nrows fun i hi => (h.P_lapack i hi).2) 1 (by
      rw [← mat_eq_mul_of_get (X := A.applyPLeft P) (k := r) (L := lowerFactor S r) (U := echelonFactor S Q r)
        (Nat.le_of_eq h.nrows_eq.symm) rfl h.prod]
      ext i j
      rw [Matrix.submatrix_apply, mat_apply, mat_apply, hget i j]
      rfl)
  rw [Matrix.permMatrix_one, Matrix.mul_one] at key
  exact key

theorem isPLE_exists_factorisation {A S : BMat} {P Q : Array Nat} {r : Nat} (h : IsPLE A S P Q r) (hA : A.WF) :
    ∃ (p : Equiv.Perm (Fin A.nrows))
      (L : Matrix (Fin A.nrows) (Fin r) (ZMod 2)) (E : Matrix (Fin r) (Fin A.ncols) (ZMod 2))
      (piv : Fin r → Fin A.ncols),
      mat A.nrows A.ncols A = p.permMatrix (ZMod 2) * (L * E) ∧
      (∀ (i : Fin A.nrows) (j : Fin r), (i : Nat) < j → L i j = 0) ∧
      (∀ (i : Fin A.nrows) (j : Fin r), (i : Nat) = j → L i j = 1) ∧
      StrictMono piv ∧ (∀ i j, j < piv i → E i j = 0) ∧ (∀ i, E i (piv i) = 1) ∧
      (mat A.nrows A.ncols A).rank = r := by
  refine ⟨_, _, _, fun i => ⟨Q.getD i 0, (h.pivot_range i i.2).2⟩, mat_of_isPLE h hA, ?_, ?_, ?_, ?_, ?_,
    rank_of_rankCert (h.rankCert hA)⟩
  · intro i j hij
    rw [mat_lowerFactor_apply (Nat.le_of_eq h.nrows_eq.symm)]
    have h1 : ¬ (j : Nat) < i := by omega
    have h2 : ¬ (j : Nat) = i := by omega
    simp [h1, h2]
  · intro i j hij
    rw [mat_lowerFactor_apply (Nat.le_of_eq h.nrows_eq.symm)]
    simp [hij]
  · intro i j hij
    exact h.pivot_mono i j hij j.2
  · intro i j hij
    have hlt : (j : Nat) < Q.getD i 0 := hij
    rw [mat_echelonFactor_apply (Nat.le_of_eq h.ncols_eq.symm)]
    have h1 : ¬ Q.getD i 0 < j := by omega
    have h2 : ¬ (j : Nat) = Q.getD i 0 := by omega
    rw [if_neg h1, if_neg h2]
  · intro i
    rw [mat_echelonFactor_apply (Nat.le_of_eq h.ncols_eq.symm)]
    simp

/-- what the executable checkers certify, in Mathlib's terms -/
theorem checkPLUQ_mathlib {A S : BMat} {P Q : Array Nat} {r : Nat} (hA : A.WF) (h : checkPLUQ A S P Q r = true) :
    ∃ (p : Equiv.Perm (Fin A.nrows)) (q : Equiv.Perm (Fin A.ncols))
      (L : Matrix (Fin A.nrows) (Fin r) (ZMod 2)) (U : Matrix (Fin r) (Fin A.ncols) (ZMod 2)),
      mat A.nrows A.ncols A = p.permMatrix (ZMod 2) * (L * U) * q.permMatrix (ZMod 2) ∧
      (∀ (i : Fin A.nrows) (j : Fin r), (i : Nat) < j → L i j = 0) ∧
      (∀ (i : Fin A.nrows) (j : Fin r), (i : Nat) = j → L i j = 1) ∧
      (∀ (i : Fin r) (j : Fin A.ncols), (j : Nat) < i → U i j = 0) ∧
      (∀ (i : Fin r) (j : Fin A.ncols), (i : Nat) = j → U i j = 1) ∧
      (mat A.nrows A.ncols A).rank = r :=
  isPLUQ_exists_factorisation (checkPLUQ_sound h) hA


/-- what `checkPLE` certifies, in Mathlib's terms -/
theorem checkPLE_mathlib {A S : BMat} {P Q : Array Nat} {r : Nat} (hA : A.WF) (h : checkPLE A S P Q r = true) :
    ∃ (p : Equiv.Perm (Fin A.nrows))
      (L : Matrix (Fin A.nrows) (Fin r) (ZMod 2)) (E : Matrix (Fin r) (Fin A.ncols) (ZMod 2))
      (piv : Fin r → Fin A.ncols),
      mat A.nrows A.ncols A = p.permMatrix (ZMod 2) * (L * E) ∧
      (∀ (i : Fin A.nrows) (j : Fin r), (i : Nat) < j → L i j = 0) ∧
      (∀ (i : Fin A.nrows) (j : Fin r), (i : Nat) = j → L i j = 1) ∧
      StrictMono piv ∧ (∀ i j, j < piv i → E i j = 0) ∧ (∀ i, E i (piv i) = 1) ∧
      (mat A.nrows A.ncols A).rank = r :=
  isPLE_exists_factorisation (checkPLE_sound h) hA

theorem wf_ex23 : (⟨2, 3, #[6, 3]⟩ : BMat).WF :=
  ⟨rfl, fun i => by
    match i with
    | 0 => decide
    | 1 => decide
    | k + 2 => simp [BMat.row]⟩

/-- non-vacuity: the 2×3 PLUQ certificate of `Checkers.lean` -/
example : ∃ (p : Equiv.Perm (Fin 2)) (q : Equiv.Perm (Fin 3)) (L : Matrix (Fin 2) (Fin 2) (ZMod 2))
    (U : Matrix (Fin 2) (Fin 3) (ZMod 2)),
    mat 2 3 ⟨2, 3, #[6, 3]⟩ = p.permMatrix (ZMod 2) * (L * U) * q.permMatrix (ZMod 2) ∧
    (mat 2 3 ⟨2, 3, #[6, 3]⟩).rank = 2 := by
  obtain ⟨p, q, L, U, h, _, _, _, _, hr⟩ := checkPLUQ_mathlib (A := ⟨2, 3, #[6, 3]⟩) (S := ⟨2, 3, #[3, 6]⟩)
    (P := #[1, 1]) (Q := #[0, 1, 2]) (r := 2) wf_ex23 (by decide +kernel)
  exact ⟨p, q, L, U, h, hr⟩

end Perm

/-! ## 6. C06: the solvability oracle in Mathlib's terms -/

/-- `solvable A B` (rank test on the zero-padded system) holds iff the Mathlib matrix equation
    `Apad * X = B` has a solution `X` -/
theorem solvable_iff_exists_matrix {A B : BMat} (hB : B.WF) (hBr : B.nrows = max A.nrows A.ncols) :
    solvable A B = true ↔
      ∃ X : Matrix (Fin A.ncols) (Fin B.ncols) (ZMod 2),
        mat (max A.nrows A.ncols) A.ncols (padRows A) * X = mat (max A.nrows A.ncols) B.ncols B := by
  rw [GOK.solvable_iff hB hBr]
  have sP : Shaped (padRows A) (max A.nrows A.ncols) A.ncols := ⟨padRows_WF A, rfl, rfl⟩
  have sB : Shaped B (max A.nrows A.ncols) B.ncols := ⟨hB, hBr, rfl⟩
  constructor
  · rintro ⟨X, hX, hXr, hXc, h⟩
    refine ⟨mat A.ncols B.ncols X, ?_⟩
    rw [← mat_mul_shaped sP ⟨hX, hXr, hXc⟩, h]
  · rintro ⟨X, h⟩
    refine ⟨ofMat X, ofMat_WF X, rfl, rfl, ?_⟩
    apply mat_inj (sP.mul (ofMat_shaped X)) sB
    rw [mat_mul_shaped sP (ofMat_shaped X), mat_ofMat, h]

/-! ## 7. C07: the kernel tests in Mathlib's terms -/

/-- the four tests performed on every kernel `K` returned by `mzd_kernel_left_pluq` (shape `n × (n - rank A)`,
    `A·K = 0`, `rank K = ncols K`) say, in Mathlib's terms: `A * K = 0`, every (multi-column) solution `V` of
    `A * V = 0` is `K * W`, `W` is determined by `K * W`, and the dimensions are `Matrix.rank`s -/
theorem kernel_tests_mathlib {A K : BMat} (hA : A.WF) (hK : K.WF) (h1 : K.nrows = A.ncols)
    (h2 : K.ncols = A.ncols - A.rank) (h3 : (A.mul K).eqM (zero A.nrows K.ncols) = true) (h4 : K.rank = K.ncols) :
    mat A.nrows A.ncols A * mat A.ncols K.ncols K = 0 ∧
    (∀ (c : Nat) (V : Matrix (Fin A.ncols) (Fin c) (ZMod 2)), mat A.nrows A.ncols A * V = 0 →
      ∃ W : Matrix (Fin K.ncols) (Fin c) (ZMod 2), mat A.ncols K.ncols K * W = V) ∧
    (∀ (c : Nat) (W W' : Matrix (Fin K.ncols) (Fin c) (ZMod 2)),
      mat A.ncols K.ncols K * W = mat A.ncols K.ncols K * W' → W = W') ∧
    (mat A.ncols K.ncols K).rank = K.ncols ∧ K.ncols = A.ncols - (mat A.nrows A.ncols A).rank := by
  obtain ⟨e0, hspan, hinj⟩ := GOK.kernel_checker_sound hA hK h1 h2 h3 h4
  have sA : Shaped A A.nrows A.ncols := ⟨hA, rfl, rfl⟩
  have sK : Shaped K A.ncols K.ncols := ⟨hK, h1, rfl⟩
  refine ⟨?_, ?_, ?_, ?_, ?_⟩
  · rw [← mat_mul_shaped sA sK, e0, mat_zero]
  · intro c V hV
    have sV : Shaped (ofMat V) A.ncols c := ofMat_shaped V
    have hAV : A.mul (ofMat V) = zero A.nrows (ofMat V).ncols := by
      apply mat_inj (r := A.nrows) (c := c) (sA.mul sV) ⟨WF_zero _ _, rfl, rfl⟩
      rw [mat_mul_shaped sA sV, mat_ofMat, hV, mat_zero]
    obtain ⟨W, hW, hWr, hWc, hKW⟩ := hspan (ofMat V) sV.wf rfl hAV
    refine ⟨mat K.ncols c W, ?_⟩
    rw [← mat_mul_shaped (n := c) sK ⟨hW, hWr, hWc⟩, hKW, mat_ofMat]
  · intro c W W' h
    have sW : Shaped (ofMat W) K.ncols c := ofMat_shaped W
    have sW' : Shaped (ofMat W') K.ncols c := ofMat_shaped W'
    have e : K.mul (ofMat W) = K.mul (ofMat W') := by
      apply mat_inj (sK.mul sW) (sK.mul sW')
      rw [mat_mul_shaped sK sW, mat_mul_shaped sK sW', mat_ofMat, mat_ofMat, h]
    have := hinj (ofMat W) (ofMat W') sW.wf sW'.wf rfl rfl rfl e
    rw [← mat_ofMat W, ← mat_ofMat W', this]
  · rw [rank_mat_shaped sK, h4]
  · rw [rank_mat hA, h2]

end ML
end BMat
end M4ri
