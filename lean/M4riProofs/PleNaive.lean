/-
  C03 / C02: universal theorems for the exact mirrors of the NAIVE factorisation routines
  `_mzd_ple_naive`, `_mzd_pluq_naive` (ple.c:180-271, `M4ri/Elim.lean`) and for the PLUQ-based echelon form
  `mzd_echelonize_pluq` (echelonform.c:38).  Everything lives in `M4ri.BMat.PN`.

    §0-2  helpers: the fill loops, the pivot search `search`, the elimination loop
    §3-6  `_mzd_ple_naive`: loop invariant `Inv` (`Inv.step`, `go_spec`), the `L` compression as row-wise
          column permutations (`compress_get`), and
            `pleNaive_good`    : PLEGood (= IsPLE + `P` fixes the rows from the rank on) + well-formed storage,
                                 for every WF `A` and ARBITRARY contents of `P`, `Q` of the right lengths
            `pleNaive_indep`   : the result does not depend on those contents
            `goodBase_naiveBase`, `goodBase_naive`, `pleRec_naive_good/isPLE/rank` : `GoodBase` of `TrsmRec.lean`
                                 is discharged, the recursive `_mzd_ple` is correct unconditionally on this base
    §7    completeness of the checkers: `checkPLE_iff`, `checkPLUQ_iff` (no WF needed), `checkPLE_pleNaive`,
          `pleNaive_rank_profile`
    §8    `_mzd_pluq_naive`: invariant `UInv`, `pluqNaive_good`, `pluqNaive_indep`, `checkPLUQ_pluqNaive`,
          `pluqNaive_rank`
    §9    `echelonizePluq` (value-level model of `mzd_echelonize_pluq`, defined here):
            `echelonizePluq_ple`  : IsPLE certificate  ⇒ `checkEchelon A R r false`
            `echelonizePluq_pluq` : rank-profile revealing PLUQ certificate (`IsProfilePLUQ`) ⇒ `checkEchelon A R r true`
            `echelonizePluq_generic_full_false` : with a bare `IsPLUQ` certificate the `full` statement is FALSE
            `pluqNaive_profile`, `echelonizePluq_naive_full/_ple/_full_eq` : the naive instances
-/
import M4riProofs.TrsmRec
import M4riProofs.GaussOK
import M4ri.Glue
namespace M4ri
namespace BMat
namespace PN
open Rec

/-! ### 0. small helpers -/

theorem getD_set (a : Array Nat) (i v p : Nat) :
    (a.setIfInBounds i v).getD p 0 = if i = p ∧ p < a.size then v else a.getD p 0 := by
  simp only [Array.getD_eq_getD_getElem?, Array.getElem?_setIfInBounds]
  by_cases h : i = p
  · subst h
    by_cases h2 : i < a.size <;> simp [h2]
  · simp [h]

/-- the loops `for i in [lo, lo+n): P[i] = i` -/
theorem fill_spec : ∀ (n lo : Nat) (P : Array Nat),
    ((List.range' lo n).foldl (fun P i => P.setIfInBounds i i) P).size = P.size ∧
    ∀ p, ((List.range' lo n).foldl (fun P i => P.setIfInBounds i i) P).getD p 0 =
      if lo ≤ p ∧ p < lo + n ∧ p < P.size then p else P.getD p 0 := by
  intro n
  induction n with
  | zero =>
    intro lo P
    refine ⟨rfl, fun p => ?_⟩
    have : ¬ (lo ≤ p ∧ p < lo + 0 ∧ p < P.size) := by omega
    simp only [List.range'_zero, List.foldl_nil, if_neg this]
  | succ n ih =>
    intro lo P
    rw [List.range'_succ, List.foldl_cons]
    obtain ⟨h1, h2⟩ := ih (lo + 1) (P.setIfInBounds lo lo)
    refine ⟨by rw [h1, Array.size_setIfInBounds], fun p => ?_⟩
    rw [h2 p, Array.size_setIfInBounds, getD_set]
    by_cases hp : lo = p
    · subst hp
      by_cases hs : lo < P.size
      · have c1 : ¬ (lo + 1 ≤ lo ∧ lo < lo + 1 + n ∧ lo < P.size) := by omega
        have c2 : lo ≤ lo ∧ lo < lo + (n + 1) ∧ lo < P.size := by omega
        rw [if_neg c1, if_pos ⟨rfl, hs⟩, if_pos c2]
      · have c1 : ¬ (lo + 1 ≤ lo ∧ lo < lo + 1 + n ∧ lo < P.size) := by omega
        have c2 : ¬ (lo ≤ lo ∧ lo < lo + (n + 1) ∧ lo < P.size) := by omega
        have c3 : ¬ (lo = lo ∧ lo < P.size) := by omega
        rw [if_neg c1, if_neg c3, if_neg c2]
    · have c3 : ¬ (lo = p ∧ p < P.size) := by omega
      rw [if_neg c3]
      by_cases hc : lo + 1 ≤ p ∧ p < lo + 1 + n ∧ p < P.size
      · rw [if_pos hc, if_pos (by omega)]
      · rw [if_neg hc, if_neg (by omega)]

theorem findSome_range' {β : Type} (f : Nat → Option β) : ∀ (n s : Nat),
    ((List.range' s n).findSome? f = none → ∀ j, s ≤ j → j < s + n → f j = none) ∧
    (∀ b, (List.range' s n).findSome? f = some b →
      ∃ j, s ≤ j ∧ j < s + n ∧ f j = some b ∧ ∀ j', s ≤ j' → j' < j → f j' = none) := by
  intro n
  induction n with
  | zero =>
    intro s
    simp only [List.range'_zero, List.findSome?_nil]
    exact ⟨fun _ j h1 h2 => absurd h2 (by omega), fun b hb => by cases hb⟩
  | succ n ih =>
    intro s
    rw [List.range'_succ, List.findSome?_cons]
    obtain ⟨i1, i2⟩ := ih (s + 1)
    cases hf : f s with
    | none =>
      simp only
      refine ⟨fun hn j h1 h2 => ?_, fun b hb => ?_⟩
      · by_cases e : j = s
        · rw [e]; exact hf
        · exact i1 hn j (by omega) (by omega)
      · obtain ⟨j, j1, j2, j3, j4⟩ := i2 b hb
        refine ⟨j, by omega, by omega, j3, fun j' h1 h2 => ?_⟩
        by_cases e : j' = s
        · rw [e]; exact hf
        · exact j4 j' (by omega) h2
    | some b0 =>
      simp only
      refine ⟨fun hn => (by cases hn), fun b hb => ?_⟩
      refine ⟨s, Nat.le_refl _, by omega, ?_, fun j' h1 h2 => absurd h2 (by omega)⟩
      rw [hf]; exact hb

/-! ### 1. the pivot search shared by both routines -/

/-- first column `j ≥ cp` holding a one in a row `i ≥ rp` (first such row) -/
def search (M : BMat) (rp cp : Nat) : Option (Nat × Nat) :=
  (List.range' cp (M.ncols - cp)).findSome? fun j =>
    ((List.range' rp (M.nrows - rp)).find? fun i => M.get i j).map fun i => (i, j)

theorem inner_none {M : BMat} {rp j : Nat}
    (h : (((List.range' rp (M.nrows - rp)).find? fun i => M.get i j).map fun i => (i, j)) = none) :
    ∀ i, rp ≤ i → i < M.nrows → M.get i j = false := by
  intro i h1 h2
  rw [Option.map_eq_none_iff, List.find?_eq_none] at h
  have := h i (List.mem_range'_1.mpr ⟨h1, by omega⟩)
  simpa using this

theorem search_none {M : BMat} {rp cp : Nat} (h : search M rp cp = none) :
    ∀ i j, rp ≤ i → i < M.nrows → cp ≤ j → j < M.ncols → M.get i j = false := by
  intro i j h1 h2 h3 h4
  exact inner_none ((findSome_range' _ _ _).1 h j h3 (by omega)) i h1 h2

theorem search_some {M : BMat} {rp cp i j : Nat} (h : search M rp cp = some (i, j)) :
    rp ≤ i ∧ i < M.nrows ∧ cp ≤ j ∧ j < M.ncols ∧ M.get i j = true ∧
    ∀ i' j', rp ≤ i' → i' < M.nrows → cp ≤ j' → j' < j → M.get i' j' = false := by
  obtain ⟨j1, a1, a2, a3, a4⟩ := (findSome_range' _ _ _).2 _ h
  rw [Option.map_eq_some_iff] at a3
  obtain ⟨i1, b1, b2⟩ := a3
  have e1 : i1 = i := congrArg Prod.fst b2
  have e2 : j1 = j := congrArg Prod.snd b2
  subst e1; subst e2
  have m := List.mem_range'_1.mp (List.mem_of_find?_eq_some b1)
  have g := List.find?_some b1
  refine ⟨m.1, by omega, a1, by omega, by simpa using g, fun i' j' c1 c2 c3 c4 => ?_⟩
  exact inner_none (a4 j' c3 c4) i' c1 c2

/-! ### 2. the elimination loop `for l > s: if A[l,c] then row_add_offset(A, l, s, off)` -/

theorem elim_fold (s c off : Nat) : ∀ (n a : Nat) (M : BMat), M.WF → s < a → a + n ≤ M.nrows →
    ((List.range' a n).foldl (fun A l => if A.get l c then A.addRowFrom l s off else A) M).WF ∧
    ((List.range' a n).foldl (fun A l => if A.get l c then A.addRowFrom l s off else A) M).nrows = M.nrows ∧
    ((List.range' a n).foldl (fun A l => if A.get l c then A.addRowFrom l s off else A) M).ncols = M.ncols ∧
    ∀ l k, ((List.range' a n).foldl (fun A l => if A.get l c then A.addRowFrom l s off else A) M).get l k =
      (M.get l k ^^ (decide (a ≤ l ∧ l < a + n) && (decide (off ≤ k) && (M.get l c && M.get s k)))) := by
  intro n
  induction n with
  | zero =>
    intro a M hM _ _
    refine ⟨hM, rfl, rfl, fun l k => ?_⟩
    have : ¬ (a ≤ l ∧ l < a + 0) := by omega
    rw [decide_eq_false this]; simp
  | succ n ih =>
    intro a M hM hs ha
    rw [List.range'_succ, List.foldl_cons]
    have hM1 : (if M.get a c then M.addRowFrom a s off else M).WF := by
      split
      · exact WF_addRowFrom hM _ _ _
      · exact hM
    have hr1 : (if M.get a c then M.addRowFrom a s off else M).nrows = M.nrows := by split <;> rfl
    have hc1 : (if M.get a c then M.addRowFrom a s off else M).ncols = M.ncols := by split <;> rfl
    have hg1 : ∀ l k, (if M.get a c then M.addRowFrom a s off else M).get l k =
        (M.get l k ^^ (decide (l = a) && (decide (off ≤ k) && (M.get a c && M.get s k)))) := by
      intro l k
      by_cases hac : M.get a c = true
      · rw [if_pos hac, get_addRowFrom hM _ _ _ _ _ (by omega)]
        by_cases hl : l = a
        · subst hl; simp [hac]
        · simp [hl]
      · rw [if_neg hac]
        have : M.get a c = false := by simpa using hac
        simp [this]
    obtain ⟨i1, i2, i3, i4⟩ := ih (a + 1) _ hM1 (by omega) (by rw [hr1]; omega)
    refine ⟨i1, by rw [i2, hr1], by rw [i3, hc1], fun l k => ?_⟩
    rw [i4, hg1 l k, hg1 l c, hg1 s k]
    have hsa : ¬ s = a := by omega
    by_cases hl : l = a
    · subst hl
      have c1 : ¬ (l + 1 ≤ l ∧ l < l + 1 + n) := by omega
      have c2 : l ≤ l ∧ l < l + (n + 1) := by omega
      simp [c1, c2]
    · by_cases hc : a + 1 ≤ l ∧ l < a + 1 + n
      · have c2 : a ≤ l ∧ l < a + (n + 1) := by omega
        simp [hl, hc, c2, hsa]
      · have c2 : ¬ (a ≤ l ∧ l < a + (n + 1)) := by omega
        simp [hl, hc, c2]

/-! ### 3. `_mzd_ple_naive`: one round of the main loop -/

/-- the matrix after one round with pivot `(i, j)`: row swap, then elimination below from column `j+1` on -/
def stepM (M : BMat) (rp i j : Nat) : BMat :=
  let A := M.swapRows rp i
  if j + 1 < A.ncols then
    (List.range' (rp + 1) (A.nrows - (rp + 1))).foldl
      (fun A l => if A.get l j then A.addRowFrom l rp (j + 1) else A) A
  else A

theorem go_zero (M : BMat) (P Q : Array Nat) (rp cp : Nat) :
    pleNaive.go 0 M P Q rp cp = (M, P, Q, rp) := rfl

theorem go_succ (fuel : Nat) (M : BMat) (P Q : Array Nat) (rp cp : Nat) :
    pleNaive.go (fuel + 1) M P Q rp cp =
      if ¬ (rp < M.nrows ∧ cp < M.ncols) then (M, P, Q, rp) else
      match search M rp cp with
      | none => (M, P, Q, rp)
      | some (i, j) =>
        pleNaive.go fuel (stepM M rp i j) (P.setIfInBounds rp i) (Q.setIfInBounds rp j) (rp + 1) (j + 1) := rfl

theorem stepM_spec {M : BMat} (hM : M.WF) {rp i j : Nat} (hrp : rp < M.nrows) (hi : i < M.nrows) :
    (stepM M rp i j).WF ∧ (stepM M rp i j).nrows = M.nrows ∧ (stepM M rp i j).ncols = M.ncols ∧
    ∀ l k, (stepM M rp i j).get l k =
      (M.get (swapIdx rp i l) k ^^ (decide (rp < l ∧ l < M.nrows) && (decide (j < k) &&
        (M.get (swapIdx rp i l) j && M.get i k)))) := by
  have hW := WF_swapRows hM rp i
  have hg : ∀ l k, (M.swapRows rp i).get l k = M.get (swapIdx rp i l) k :=
    fun l k => swapRows_get M rp i (by rw [hM.1]; exact hrp) (by rw [hM.1]; exact hi) l k
  have hrp' : swapIdx rp i rp = i := by unfold swapIdx; simp
  unfold stepM
  simp only []
  split
  · obtain ⟨i1, i2, i3, i4⟩ := elim_fold rp j (j + 1) ((M.swapRows rp i).nrows - (rp + 1)) (rp + 1)
      (M.swapRows rp i) hW (by omega) (by simp only [nrows_swapRows]; omega)
    refine ⟨i1, by rw [i2, nrows_swapRows], by rw [i3, ncols_swapRows], fun l k => ?_⟩
    rw [i4, hg, hg, hg, hrp', nrows_swapRows]
    have e1 : decide (rp + 1 ≤ l ∧ l < rp + 1 + (M.nrows - (rp + 1))) = decide (rp < l ∧ l < M.nrows) := by
      apply decide_eq_decide.mpr; omega
    have e2 : decide (j + 1 ≤ k) = decide (j < k) := by apply decide_eq_decide.mpr; omega
    rw [e1, e2]
  · next hj =>
    refine ⟨hW, nrows_swapRows _ _ _, ncols_swapRows _ _ _, fun l k => ?_⟩
    rw [hg]
    by_cases hjk : j < k
    · have : M.get i k = false := get_of_ge_ncols hM _ _ (by simp only [ncols_swapRows] at hj; omega)
      simp [this]
    · simp [hjk]

/-! ### 4. the loop invariant of `_mzd_ple_naive` -/

/-- entry `(i,t)` of the unit lower trapezoidal factor, read from the working matrix: the multiplier of
    round `t` for row `i` sits in the pivot column `Q[t]` -/
def ell (M : BMat) (Q : Array Nat) (i t : Nat) : Bool :=
  if t < i then M.get i (Q.getD t 0) else decide (t = i)

/-- entry `(t,j)` of the echelon factor, read from the working matrix -/
def ee (M : BMat) (Q : Array Nat) (t j : Nat) : Bool :=
  if Q.getD t 0 < j then M.get t j else decide (j = Q.getD t 0)

/-- state of the main loop after `rp` pivots, the column cursor being at `cp` -/
structure Inv (A M : BMat) (P Q : Array Nat) (rp cp : Nat) : Prop where
  wf : M.WF
  nr : M.nrows = A.nrows
  nc : M.ncols = A.ncols
  psz : P.size = A.nrows
  qsz : Q.size = A.ncols
  rp_le : rp ≤ A.nrows
  rp_cp : rp ≤ cp
  cp_le : cp ≤ A.ncols
  prange : ∀ t, t < rp → t ≤ P.getD t 0 ∧ P.getD t 0 < A.nrows
  qrange : ∀ t, t < rp → t ≤ Q.getD t 0 ∧ Q.getD t 0 < cp
  qmono : ∀ s t, s < t → t < rp → Q.getD s 0 < Q.getD t 0
  /-- the pivot ones -/
  piv : ∀ t, t < rp → M.get t (Q.getD t 0) = true
  /-- left of the cursor (left of its pivot, for a pivot row) a row is zero outside the pivot columns -/
  zeros : ∀ i c, i < A.nrows → (i < rp → c < Q.getD i 0) → c < cp → (∀ t, t < rp → Q.getD t 0 ≠ c) →
    M.get i c = false
  /-- the row-permuted input is `L·E` plus the not yet processed block -/
  prod : ∀ i j, i < A.nrows → j < A.ncols →
    A.get (rowPerm P rp i) j =
      (xsum rp (fun t => ell M Q i t && ee M Q t j) ^^ (decide (rp ≤ i) && (decide (cp ≤ j) && M.get i j)))

theorem Inv.init {A : BMat} (hA : A.WF) {P Q : Array Nat} (hP : P.size = A.nrows) (hQ : Q.size = A.ncols) :
    Inv A A P Q 0 0 :=
  ⟨hA, rfl, rfl, hP, hQ, Nat.zero_le _, Nat.le_refl _, Nat.zero_le _, fun t ht => by omega, fun t ht => by omega,
    fun s t _ ht => by omega, fun t ht => by omega, fun i c _ _ hc => by omega,
    fun i j _ _ => by simp [rowPerm]⟩

theorem Inv.step {A M : BMat} {P Q : Array Nat} {rp cp i0 j0 : Nat} (h : Inv A M P Q rp cp)
    (hs : search M rp cp = some (i0, j0)) :
    Inv A (stepM M rp i0 j0) (P.setIfInBounds rp i0) (Q.setIfInBounds rp j0) (rp + 1) (j0 + 1) := by
  obtain ⟨s1, s2, s3, s4, s5, s6⟩ := search_some hs
  rw [h.nr] at s2 s6; rw [h.nc] at s4
  have hrp : rp < A.nrows := by omega
  have hcp := h.rp_cp
  obtain ⟨w1, w2, w3, w4⟩ := stepM_spec h.wf (rp := rp) (i := i0) (j := j0) (by rw [h.nr]; exact hrp)
    (by rw [h.nr]; exact s2)
  rw [h.nr] at w2 w4; rw [h.nc] at w3
  have hPlt : ∀ t, t < rp → (P.setIfInBounds rp i0).getD t 0 = P.getD t 0 := by
    intro t ht; rw [getD_set, if_neg (by omega)]
  have hPrp : (P.setIfInBounds rp i0).getD rp 0 = i0 := by
    rw [getD_set, if_pos ⟨rfl, by rw [h.psz]; exact hrp⟩]
  have hQlt : ∀ t, t < rp → (Q.setIfInBounds rp j0).getD t 0 = Q.getD t 0 := by
    intro t ht; rw [getD_set, if_neg (by omega)]
  have hQrp : (Q.setIfInBounds rp j0).getD rp 0 = j0 := by
    rw [getD_set, if_pos ⟨rfl, by rw [h.qsz]; omega⟩]
  have σlo : ∀ l, l < rp → swapIdx rp i0 l = l := by
    intro l hl; unfold swapIdx; rw [if_neg (by omega), if_neg (by omega)]
  have σhi : ∀ l, rp ≤ l → l < A.nrows → rp ≤ swapIdx rp i0 l ∧ swapIdx rp i0 l < A.nrows := by
    intro l h1 h2; unfold swapIdx; split
    · omega
    · split <;> omega
  have σlt : ∀ l, l < A.nrows → swapIdx rp i0 l < A.nrows := by
    intro l hl
    by_cases c : l < rp
    · rw [σlo l c]; exact hl
    · exact (σhi l (by omega) hl).2
  have σrp : swapIdx rp i0 rp = i0 := by unfold swapIdx; simp
  generalize hM2 : stepM M rp i0 j0 = M2 at w1 w2 w3 w4 ⊢
  generalize hP2 : P.setIfInBounds rp i0 = P2 at hPlt hPrp ⊢
  generalize hQ2 : Q.setIfInBounds rp j0 = Q2 at hQlt hQrp ⊢
  have g1 : ∀ l k, l < rp → M2.get l k = M.get l k := by
    intro l k hl
    rw [w4, σlo l hl, decide_eq_false (by omega : ¬ (rp < l ∧ l < A.nrows))]; simp
  have g2 : ∀ k, M2.get rp k = M.get i0 k := by
    intro k
    rw [w4, σrp, decide_eq_false (by omega : ¬ (rp < rp ∧ rp < A.nrows))]; simp
  have g3 : ∀ l k, rp < l → l < A.nrows → M2.get l k =
      (M.get (swapIdx rp i0 l) k ^^ (decide (j0 < k) && (M.get (swapIdx rp i0 l) j0 && M.get i0 k))) := by
    intro l k h1 h2
    rw [w4, decide_eq_true (⟨h1, h2⟩ : rp < l ∧ l < A.nrows)]; simp
  have g4 : ∀ l k, k ≤ j0 → M2.get l k = M.get (swapIdx rp i0 l) k := by
    intro l k hk
    rw [w4, decide_eq_false (by omega : ¬ j0 < k)]; simp
  have qlt : ∀ t, t < rp → Q.getD t 0 < cp := fun t ht => (h.qrange t ht).2
  refine ⟨w1, w2, w3, by rw [← hP2, Array.size_setIfInBounds]; exact h.psz,
    by rw [← hQ2, Array.size_setIfInBounds]; exact h.qsz, by omega, by omega, by omega, ?_, ?_, ?_, ?_, ?_, ?_⟩
  · intro t ht
    by_cases c : t < rp
    · rw [hPlt t c]; exact h.prange t c
    · have : t = rp := by omega
      subst this; rw [hPrp]; omega
  · intro t ht
    by_cases c : t < rp
    · rw [hQlt t c]; have := h.qrange t c; omega
    · have : t = rp := by omega
      subst this; rw [hQrp]; omega
  · intro s t hst ht
    by_cases c : t < rp
    · rw [hQlt t c, hQlt s (by omega)]; exact h.qmono s t hst c
    · have : t = rp := by omega
      subst this; rw [hQrp, hQlt s hst]; have := qlt s hst; omega
  · intro t ht
    by_cases c : t < rp
    · rw [hQlt t c, g1 t _ c]; exact h.piv t c
    · have : t = rp := by omega
      subst this; rw [hQrp, g2]; exact s5
  · intro i c hi hc1 hc2 hc3
    have hcj : c ≠ j0 := fun e => hc3 rp (by omega) (by rw [hQrp]; exact e.symm)
    rw [g4 i c (by omega)]
    have hne : ∀ t, t < rp → Q.getD t 0 ≠ c := fun t ht => by rw [← hQlt t ht]; exact hc3 t (by omega)
    by_cases hi' : i < rp
    · rw [σlo i hi']
      have := hc1 (by omega); rw [hQlt i hi'] at this
      exact h.zeros i c hi (fun _ => this) (by have := qlt i hi'; omega) hne
    · obtain ⟨a1, a2⟩ := σhi i (by omega) hi
      by_cases hcc : c < cp
      · exact h.zeros _ c a2 (fun hh => by omega) hcc hne
      · exact s6 _ c a1 a2 (by omega) (by omega)
  · intro i j hi hj
    show A.get (rowPerm P2 rp (swapIdx rp (P2.getD rp 0) i)) j = _
    rw [hPrp, rowPerm_congr P2 P rp hPlt, h.prod _ j (σlt i hi) hj, xsum_succ]
    have hx : ∀ t, t < rp → (ell M2 Q2 i t && ee M2 Q2 t j) = (ell M Q (swapIdx rp i0 i) t && ee M Q t j) := by
      intro t ht
      have e1 : ee M2 Q2 t j = ee M Q t j := by
        unfold ee; rw [hQlt t ht, g1 t j ht]
      have e2 : ell M2 Q2 i t = ell M Q (swapIdx rp i0 i) t := by
        unfold ell
        rw [hQlt t ht, g4 i _ (by have := qlt t ht; omega)]
        by_cases c : i < rp
        · rw [σlo i c]
        · obtain ⟨a1, a2⟩ := σhi i (by omega) hi
          rw [if_pos (by omega), if_pos (by omega)]
      rw [e1, e2]
    rw [xsum_congr hx, Bool.xor_assoc]
    congr 1
    unfold ell ee
    rw [hQrp, g2]
    by_cases c1 : i < rp
    · rw [σlo i c1, decide_eq_false (by omega : ¬ rp ≤ i), if_neg (by omega), decide_eq_false (by omega : ¬ rp = i),
        decide_eq_false (by omega : ¬ rp + 1 ≤ i)]
      simp
    · by_cases c2 : i = rp
      · subst c2
        rw [σrp, decide_eq_true s1, if_neg (by omega), decide_eq_false (by omega : ¬ i + 1 ≤ i)]
        by_cases d1 : j0 < j
        · rw [if_pos d1, decide_eq_true (by omega : cp ≤ j)]; simp
        · rw [if_neg d1]
          by_cases d2 : j = j0
          · subst d2; rw [s5, decide_eq_true s3]; simp
          · by_cases d3 : cp ≤ j
            · rw [s6 i0 j s1 s2 d3 (by omega)]; simp [d2]
            · simp [d2, d3]
      · obtain ⟨a1, a2⟩ := σhi i (by omega) hi
        rw [decide_eq_true a1, if_pos (by omega), decide_eq_true (by omega : rp + 1 ≤ i), g4 i j0 (Nat.le_refl _)]
        by_cases d1 : j0 < j
        · rw [if_pos d1, decide_eq_true (by omega : cp ≤ j), decide_eq_true (by omega : j0 + 1 ≤ j),
            g3 i j (by omega) hi, decide_eq_true d1]
          cases M.get (swapIdx rp i0 i) j <;> cases M.get (swapIdx rp i0 i) j0 <;> cases M.get i0 j <;> rfl
        · rw [if_neg d1, decide_eq_false (by omega : ¬ j0 + 1 ≤ j)]
          by_cases d2 : j = j0
          · subst d2; rw [decide_eq_true s3]; simp
          · by_cases d3 : cp ≤ j
            · rw [s6 _ j a1 a2 d3 (by omega)]; simp [d2]
            · simp [d2, d3]

/-- the main loop terminates within its fuel, keeps the invariant, and leaves no one below row `r` from the
    final cursor on -/
theorem go_spec (A : BMat) : ∀ (fuel : Nat) (M : BMat) (P Q : Array Nat) (rp cp : Nat), Inv A M P Q rp cp →
    min A.nrows A.ncols + 1 ≤ fuel + rp →
    ∃ (M' : BMat) (P' Q' : Array Nat) (r cp' : Nat), pleNaive.go fuel M P Q rp cp = (M', P', Q', r) ∧
      Inv A M' P' Q' r cp' ∧ ∀ i j, r ≤ i → i < A.nrows → cp' ≤ j → M'.get i j = false := by
  intro fuel
  induction fuel with
  | zero =>
    intro M P Q rp cp h hf
    have := h.rp_le; have := h.rp_cp; have := h.cp_le
    omega
  | succ fuel ih =>
    intro M P Q rp cp h hf
    rw [go_succ]
    by_cases hc : rp < M.nrows ∧ cp < M.ncols
    · rw [if_neg (by simpa using hc)]
      cases hs : search M rp cp with
      | none =>
        refine ⟨M, P, Q, rp, cp, rfl, h, fun i j h1 h2 h3 => ?_⟩
        by_cases hj : j < M.ncols
        · exact search_none hs i j h1 (by rw [h.nr]; exact h2) h3 hj
        · exact get_of_ge_ncols h.wf _ _ (by omega)
      | some p =>
        obtain ⟨i0, j0⟩ := p
        have := (search_some hs).2.1
        exact ih _ _ _ _ _ (h.step hs) (by omega)
    · rw [if_pos (by simpa using hc)]
      refine ⟨M, P, Q, rp, cp, rfl, h, fun i j h1 h2 h3 => ?_⟩
      rw [h.nr, h.nc] at hc
      exact get_of_ge_ncols h.wf _ _ (by rw [h.nc]; omega)

/-- the result of the main loop does not depend on what `P` and `Q` contain -/
theorem go_indep (A : BMat) : ∀ (fuel : Nat) (M : BMat) (P1 Q1 P2 Q2 : Array Nat) (rp cp : Nat),
    Inv A M P1 Q1 rp cp → Inv A M P2 Q2 rp cp →
    (∀ t, t < rp → P1.getD t 0 = P2.getD t 0) → (∀ t, t < rp → Q1.getD t 0 = Q2.getD t 0) →
    (pleNaive.go fuel M P1 Q1 rp cp).1 = (pleNaive.go fuel M P2 Q2 rp cp).1 ∧
    (pleNaive.go fuel M P1 Q1 rp cp).2.2.2 = (pleNaive.go fuel M P2 Q2 rp cp).2.2.2 ∧
    (∀ t, t < (pleNaive.go fuel M P1 Q1 rp cp).2.2.2 →
      (pleNaive.go fuel M P1 Q1 rp cp).2.1.getD t 0 = (pleNaive.go fuel M P2 Q2 rp cp).2.1.getD t 0) ∧
    (∀ t, t < (pleNaive.go fuel M P1 Q1 rp cp).2.2.2 →
      (pleNaive.go fuel M P1 Q1 rp cp).2.2.1.getD t 0 = (pleNaive.go fuel M P2 Q2 rp cp).2.2.1.getD t 0) := by
  intro fuel
  induction fuel with
  | zero => intro M P1 Q1 P2 Q2 rp cp _ _ hp hq; exact ⟨rfl, rfl, hp, hq⟩
  | succ fuel ih =>
    intro M P1 Q1 P2 Q2 rp cp h1 h2 hp hq
    rw [go_succ, go_succ]
    by_cases hc : rp < M.nrows ∧ cp < M.ncols
    · rw [if_neg (by simpa using hc), if_neg (by simpa using hc)]
      cases hs : search M rp cp with
      | none => exact ⟨rfl, rfl, hp, hq⟩
      | some p =>
        obtain ⟨i0, j0⟩ := p
        obtain ⟨s1, s2, s3, s4, _, _⟩ := search_some hs
        refine ih _ _ _ _ _ _ _ (h1.step hs) (h2.step hs) (fun t ht => ?_) (fun t ht => ?_)
        · rw [getD_set, getD_set, h1.psz, h2.psz]
          by_cases c : rp = t
          · subst c; simp only [true_and]
            rw [if_pos (by rw [← h1.nr]; omega), if_pos (by rw [← h1.nr]; omega)]
          · rw [if_neg (fun hh => c hh.1), if_neg (fun hh => c hh.1)]; exact hp t (by omega)
        · rw [getD_set, getD_set, h1.qsz, h2.qsz]
          by_cases c : rp = t
          · subst c; simp only [true_and]
            have := h1.rp_cp
            rw [if_pos (by rw [← h1.nc]; omega), if_pos (by rw [← h1.nc]; omega)]
          · rw [if_neg (fun hh => c hh.1), if_neg (fun hh => c hh.1)]; exact hq t (by omega)
    · rw [if_pos (by simpa using hc), if_pos (by simpa using hc)]
      exact ⟨rfl, rfl, hp, hq⟩

/-! ### 5. the permutation of a strictly increasing LAPACK vector, and the `L` compression -/

theorem swapIdx_comm (a b i : Nat) : swapIdx a b i = swapIdx b a i := by
  unfold swapIdx; split_ifs <;> omega

section mono
variable {Q : Array Nat} {k : Nat} (hge : ∀ t, t < k → t ≤ Q.getD t 0)
  (hm : ∀ s t, s < t → t < k → Q.getD s 0 < Q.getD t 0)
include hge

/-- columns right of all the pivots stay -/
theorem rowPerm_fix_above : ∀ c, (∀ t, t < k → Q.getD t 0 < c) → rowPerm Q k c = c := by
  induction k with
  | zero => intro c _; rfl
  | succ k ih =>
    intro c hc
    show rowPerm Q k (swapIdx k (Q.getD k 0) c) = c
    have h1 := hc k (by omega)
    have h2 := hge k (by omega)
    have : swapIdx k (Q.getD k 0) c = c := by unfold swapIdx; rw [if_neg (by omega), if_neg (by omega)]
    rw [this]
    exact ih (fun t ht => hge t (by omega)) c (fun t ht => hc t (by omega))

include hm

/-- position `t < k` receives the pivot column `Q[t]` -/
theorem rowPerm_lt : ∀ t, t < k → rowPerm Q k t = Q.getD t 0 := by
  induction k with
  | zero => intro t ht; omega
  | succ k ih =>
    intro t ht
    show rowPerm Q k (swapIdx k (Q.getD k 0) t) = Q.getD t 0
    by_cases c : t < k
    · have h2 := hge k (by omega)
      have : swapIdx k (Q.getD k 0) t = t := by unfold swapIdx; rw [if_neg (by omega), if_neg (by omega)]
      rw [this]
      exact ih (fun t ht => hge t (by omega)) (fun s t h1 h2 => hm s t h1 (by omega)) t c
    · have : t = k := by omega
      subst this
      have : swapIdx t (Q.getD t 0) t = Q.getD t 0 := by unfold swapIdx; simp
      rw [this]
      exact rowPerm_fix_above (fun s hs => hge s (by omega)) _ (fun s hs => hm s t hs (by omega))

/-- the other positions receive non-pivot columns -/
theorem rowPerm_ne {n : Nat} (hkn : k ≤ n) (hlt : ∀ t, t < k → Q.getD t 0 < n) :
    ∀ c, k ≤ c → ∀ t, t < k → rowPerm Q k c ≠ Q.getD t 0 := by
  intro c hc t ht e
  rw [← rowPerm_lt hge hm t ht] at e
  have p := rowPerm_permOn Q n k hkn hlt
  have := congrArg (rowPermInv Q k) e
  rw [(p.2.1 c).2, (p.2.1 t).2] at this
  omega

/-- the columns up to the last pivot are permuted among themselves -/
theorem rowPerm_le_last (hk : 0 < k) : ∀ c, c ≤ Q.getD (k - 1) 0 → rowPerm Q k c ≤ Q.getD (k - 1) 0 := by
  intro c hc
  have p := rowPerm_permOn Q (Q.getD (k - 1) 0 + 1) k (by have := hge (k - 1) (by omega); omega)
    (fun t ht => by
      by_cases e : t = k - 1
      · rw [e]; omega
      · have := hm t (k - 1) (by omega) (by omega); omega)
  have := (p.1 c (by omega)).1
  omega

end mono

/-- the loop `for j < r: if Q[j] > j then col_swap_in_rows(A, Q[j], j, j, nrows)` -/
def compress (M : BMat) (Q : Array Nat) (r : Nat) : BMat :=
  (List.range r).foldl (fun A j =>
    if Q.getD j 0 > j then A.swapColsInRows (Q.getD j 0) j j A.nrows else A) M

/-- row `i` undergoes the first `min (i+1) r` column transpositions -/
theorem compress_get (M : BMat) (Q : Array Nat) : ∀ (r : Nat), (∀ t, t < r → t ≤ Q.getD t 0) →
    SameShape M (compress M Q r) ∧
    ∀ i c, i < M.nrows → (compress M Q r).get i c = M.get i (rowPerm Q (min (i + 1) r) c) := by
  intro r
  induction r with
  | zero => intro _; exact ⟨SameShape.refl M, fun i c _ => rfl⟩
  | succ k ih =>
    intro hQ
    obtain ⟨sh, hg⟩ := ih (fun t ht => hQ t (by omega))
    unfold compress at sh hg ⊢
    rw [List.range_succ, List.foldl_append]
    simp only [List.foldl_cons, List.foldl_nil]
    generalize (List.range k).foldl (fun A j =>
      if Q.getD j 0 > j then A.swapColsInRows (Q.getD j 0) j j A.nrows else A) M = C at sh hg
    by_cases hq : Q.getD k 0 > k
    · rw [if_pos hq]
      refine ⟨sh.trans (swapColsInRows_shape _ _ _ _ _), fun i c hi => ?_⟩
      rw [swapColsInRows_get, sh.1]
      by_cases hki : k ≤ i
      · rw [if_pos ⟨hki, hi⟩, hg i _ hi, swapIdx_comm]
        have e1 : min (i + 1) (k + 1) = k + 1 := by omega
        have e2 : min (i + 1) k = k := by omega
        rw [e1, e2]; rfl
      · rw [if_neg (fun hh => hki hh.1), hg i _ hi]
        have e1 : min (i + 1) (k + 1) = min (i + 1) k := by omega
        rw [e1]
    · rw [if_neg hq]
      refine ⟨sh, fun i c hi => ?_⟩
      rw [hg i c hi]
      by_cases hki : k ≤ i
      · have e1 : min (i + 1) (k + 1) = k + 1 := by omega
        have e2 : min (i + 1) k = k := by omega
        have e3 : Q.getD k 0 = k := by have := hQ k (by omega); omega
        rw [e1, e2]
        show _ = M.get i (rowPerm Q k (swapIdx k (Q.getD k 0) c))
        rw [e3, swapIdx_self]
      · have e1 : min (i + 1) (k + 1) = min (i + 1) k := by omega
        rw [e1]

/-- `pleNaive` in terms of its three phases -/
theorem pleNaive_unfold (A : BMat) (P Q : Array Nat) {M' : BMat} {P' Q' : Array Nat} {r : Nat}
    (h : pleNaive.go (min A.nrows A.ncols + 1) A P Q 0 0 = (M', P', Q', r)) :
    pleNaive A P Q =
      (compress M' ((List.range' r (M'.ncols - r)).foldl (fun Q i => Q.setIfInBounds i i) Q') r,
        (List.range' r (M'.nrows - r)).foldl (fun P i => P.setIfInBounds i i) P',
        (List.range' r (M'.ncols - r)).foldl (fun Q i => Q.setIfInBounds i i) Q', r) := by
  unfold pleNaive
  rw [h]
  rfl

/-! ### 6. `_mzd_ple_naive` is correct -/

/-- from the final state of the main loop to the certificate: the last two loops over `P`, `Q` and the
    compression of `L` -/
theorem finish {A W : BMat} {P' Q' : Array Nat} {r cp : Nat} (hA : A.WF) (h : Inv A W P' Q' r cp)
    (hdone : ∀ i j, r ≤ i → i < A.nrows → cp ≤ j → W.get i j = false) :
    let Qf := (List.range' r (W.ncols - r)).foldl (fun Q i => Q.setIfInBounds i i) Q'
    let Pf := (List.range' r (W.nrows - r)).foldl (fun P i => P.setIfInBounds i i) P'
    PLEGood A (compress W Qf r) Pf Qf r ∧ (compress W Qf r).WF := by
  intro Qf Pf
  obtain ⟨qs, qg⟩ := fill_spec (W.ncols - r) r Q'
  obtain ⟨ps, pg⟩ := fill_spec (W.nrows - r) r P'
  have hrn : r ≤ A.ncols := Nat.le_trans h.rp_cp h.cp_le
  have hQf : ∀ t, t < r → Qf.getD t 0 = Q'.getD t 0 := fun t ht => by
    show ((List.range' r (W.ncols - r)).foldl (fun Q i => Q.setIfInBounds i i) Q').getD t 0 = _
    rw [qg, if_neg (by omega)]
  have hPf : ∀ t, t < r → Pf.getD t 0 = P'.getD t 0 := fun t ht => by
    show ((List.range' r (W.nrows - r)).foldl (fun P i => P.setIfInBounds i i) P').getD t 0 = _
    rw [pg, if_neg (by omega)]
  have hPt : ∀ t, r ≤ t → t < A.nrows → Pf.getD t 0 = t := fun t h1 h2 => by
    show ((List.range' r (W.nrows - r)).foldl (fun P i => P.setIfInBounds i i) P').getD t 0 = _
    rw [pg, if_pos ⟨h1, by rw [h.nr]; omega, by rw [h.psz]; exact h2⟩]
  have hPs : Pf.size = A.nrows := ps.trans h.psz
  have hQs : Qf.size = A.ncols := qs.trans h.qsz
  have qge : ∀ t, t < r → t ≤ Qf.getD t 0 := fun t ht => by rw [hQf t ht]; exact (h.qrange t ht).1
  have qlt : ∀ t, t < r → Qf.getD t 0 < cp := fun t ht => by rw [hQf t ht]; exact (h.qrange t ht).2
  have qmono : ∀ s t, s < t → t < r → Qf.getD s 0 < Qf.getD t 0 := fun s t h1 h2 => by
    rw [hQf t h2, hQf s (by omega)]; exact h.qmono s t h1 h2
  have qmono' : ∀ s t, s ≤ t → t < r → Qf.getD s 0 ≤ Qf.getD t 0 := fun s t h1 h2 => by
    by_cases e : s = t
    · rw [e]
    · exact Nat.le_of_lt (qmono s t (by omega) h2)
  obtain ⟨sh, hg⟩ := compress_get W Qf r qge
  rw [h.nr] at hg
  generalize compress W Qf r = S at sh hg ⊢
  -- sub-vectors of `Q`
  have sge : ∀ k, k ≤ r → ∀ t, t < k → t ≤ Qf.getD t 0 := fun k hk t ht => qge t (by omega)
  have smono : ∀ k, k ≤ r → ∀ s t, s < t → t < k → Qf.getD s 0 < Qf.getD t 0 :=
    fun k hk s t h1 h2 => qmono s t h1 (by omega)
  have slt : ∀ k, k ≤ r → ∀ t, t < k → Qf.getD t 0 < A.ncols := fun k hk t ht => by
    have := qlt t (by omega); have := h.cp_le; omega
  -- zero outside the pivot columns
  have wzero : ∀ i x, i < A.nrows → (i < r → x < Qf.getD i 0) → (∀ t, t < r → Qf.getD t 0 ≠ x) →
      W.get i x = false := by
    intro i x hi h1 h2
    have h2' : ∀ t, t < r → Q'.getD t 0 ≠ x := fun t ht => by rw [← hQf t ht]; exact h2 t ht
    by_cases hx : x < cp
    · exact h.zeros i x hi (fun hh => by rw [← hQf i hh]; exact h1 hh) hx h2'
    · by_cases hir : i < r
      · have := h1 hir; have := qlt i hir; omega
      · exact hdone i x (by omega) hi (by omega)
  -- (a) the L entries
  have fa : ∀ i t, i < A.nrows → t < r → t ≤ i → S.get i t = W.get i (Q'.getD t 0) := by
    intro i t hi ht hti
    rw [hg i t hi, rowPerm_lt (sge _ (Nat.min_le_right _ _)) (smono _ (Nat.min_le_right _ _)) t (by omega),
      hQf t ht]
  -- (b) the E entries
  have fb : ∀ t j, t < r → Qf.getD t 0 < j → S.get t j = W.get t j := by
    intro t j ht hj
    have e : min (t + 1) r = t + 1 := by omega
    rw [hg t j (by have := h.rp_le; omega), e,
      rowPerm_fix_above (sge (t + 1) (by omega)) j (fun s hs => by have := qmono' s t (by omega) ht; omega)]
  -- (c) the gap
  have fc : ∀ i j, i < r → i < j → j ≤ Qf.getD i 0 → S.get i j = false := by
    intro i j hi hij hjq
    have e : min (i + 1) r = i + 1 := by omega
    rw [hg i j (by have := h.rp_le; omega), e]
    have k1 := rowPerm_le_last (k := i + 1) (sge _ (by omega)) (smono _ (by omega)) (by omega) j hjq
    have k2 := rowPerm_ne (k := i + 1) (sge _ (by omega)) (smono _ (by omega)) (n := A.ncols) (by omega)
      (slt _ (by omega)) j (by omega)
    simp only [Nat.add_sub_cancel] at k1
    apply wzero i _ (by have := h.rp_le; omega)
    · intro _
      have := k2 i (by omega); omega
    · intro t ht
      by_cases c : t < i + 1
      · exact fun e => k2 t c e.symm
      · have := qmono i t (by omega) ht; omega
  -- (d) below the pivot rows
  have fd : ∀ i j, r ≤ i → i < A.nrows → r ≤ j → S.get i j = false := by
    intro i j h1 h2 h3
    have e : min (i + 1) r = r := by omega
    rw [hg i j h2, e]
    have k2 := rowPerm_ne (k := r) (sge _ (Nat.le_refl _)) (smono _ (Nat.le_refl _)) (n := A.ncols) hrn
      (slt _ (Nat.le_refl _)) j h3
    exact wzero i _ h2 (fun hh => by omega) (fun t ht e => k2 t ht e.symm)
  have hSr : S.nrows = A.nrows := sh.1.trans h.nr
  have hSc : S.ncols = A.ncols := sh.2.1.trans h.nc
  have hPl : ∀ i, i < A.nrows → i ≤ Pf.getD i 0 ∧ Pf.getD i 0 < A.nrows := by
    intro i hi
    by_cases c : i < r
    · rw [hPf i c]; exact h.prange i c
    · rw [hPt i (by omega) hi]; omega
  refine ⟨⟨⟨hSr, hSc, h.rp_le, hrn, hPs, hPl, hQs, fun i hi => ⟨qge i hi, slt r (Nat.le_refl _) i hi⟩,
    fun i j hij hj => qmono i j hij hj, ?_, fc, fun i j h1 h2 h3 _ => fd i j h1 h2 h3, ?_⟩, hPt⟩, ?_⟩
  · intro i hi
    rw [fa i i (by have := h.rp_le; omega) hi (Nat.le_refl _)]
    exact h.piv i hi
  · intro i j hi hj
    rw [applyPLeft_get A Pf hA.1 (fun t ht => (hPl t (by omega)).2), hPs, Nat.min_self,
      rowPerm_tail Pf r A.nrows h.rp_le (fun t h1 h2 => hPt t h1 h2), rowPerm_congr Pf P' r hPf,
      h.prod i j hi hj, dotSpec_T, lowerFactor_ncols]
    have hz : (decide (r ≤ i) && (decide (cp ≤ j) && W.get i j)) = false := by
      by_cases c1 : r ≤ i
      · by_cases c2 : cp ≤ j
        · rw [hdone i j c1 hi c2]; simp
        · simp [c2]
      · simp [c1]
    rw [hz, Bool.xor_false]
    apply xsum_congr
    intro t ht
    rw [lowerFactor_get, echelonFactor_get, hSr, hSc, decide_eq_true hi, decide_eq_true ht, decide_eq_true hj]
    simp only [Bool.true_and]
    unfold ell ee
    rw [hQf t ht]
    congr 1
    · by_cases c : t < i
      · rw [if_pos c, fa i t hi ht (by omega)]
        have : ¬ t = i := by omega
        simp [c, this]
      · rw [if_neg c]
        by_cases c2 : t = i
        · subst c2; simp [ht]
        · simp [c, c2]
    · by_cases c : Q'.getD t 0 < j
      · rw [if_pos c, fb t j ht (by rw [hQf t ht]; exact c)]
        have : ¬ j = Q'.getD t 0 := by omega
        rw [decide_eq_true c, decide_eq_false this]; simp
      · rw [if_neg c, decide_eq_false c]; simp
  · apply WF_of_get
    · rw [sh.2.2, h.wf.1, hSr, h.nr]
    · intro i j hj
      rw [hSc] at hj
      by_cases hi : i < A.nrows
      · rw [hg i j hi]
        have p := rowPerm_permOn Qf A.ncols (min (i + 1) r) (by omega) (slt _ (Nat.min_le_right _ _))
        rw [(p.2.2 j hj).1]
        exact get_of_ge_ncols h.wf _ _ (by rw [h.nc]; exact hj)
      · unfold get; rw [row_of_ge _ _ (by rw [sh.2.2, h.wf.1, h.nr]; omega)]; simp

/-- **C03, `_mzd_ple_naive`**: for every well-formed `A` and whatever `P` (length `nrows`) and `Q` (length
    `ncols`) contain on entry, the routine returns a PLE certificate of `A` — what `checkPLE` tests
    (`IsPLE`) — whose `P` fixes the rows from the rank on; the storage it leaves is well formed. -/
theorem pleNaive_good {A : BMat} (hA : A.WF) {P Q : Array Nat} (hP : P.size = A.nrows) (hQ : Q.size = A.ncols) :
    PLEGood A (pleNaive A P Q).1 (pleNaive A P Q).2.1 (pleNaive A P Q).2.2.1 (pleNaive A P Q).2.2.2 ∧
    (pleNaive A P Q).1.WF := by
  obtain ⟨M', P', Q', r, cp', e, hI, hd⟩ :=
    go_spec A (min A.nrows A.ncols + 1) A P Q 0 0 (Inv.init hA hP hQ) (by omega)
  rw [pleNaive_unfold A P Q e]
  exact finish hA hI hd

theorem pleNaive_isPLE {A : BMat} (hA : A.WF) {P Q : Array Nat} (hP : P.size = A.nrows) (hQ : Q.size = A.ncols) :
    IsPLE A (pleNaive A P Q).1 (pleNaive A P Q).2.1 (pleNaive A P Q).2.2.1 (pleNaive A P Q).2.2.2 :=
  (pleNaive_good hA hP hQ).1.ple

theorem pleNaive_tail {A : BMat} (hA : A.WF) {P Q : Array Nat} (hP : P.size = A.nrows) (hQ : Q.size = A.ncols) :
    ∀ i, (pleNaive A P Q).2.2.2 ≤ i → i < A.nrows → (pleNaive A P Q).2.1.getD i 0 = i :=
  (pleNaive_good hA hP hQ).1.tail

theorem pleNaive_WF {A : BMat} (hA : A.WF) {P Q : Array Nat} (hP : P.size = A.nrows) (hQ : Q.size = A.ncols) :
    (pleNaive A P Q).1.WF := (pleNaive_good hA hP hQ).2

theorem ext_getD (a b : Array Nat) (hs : a.size = b.size) (h : ∀ i, i < a.size → a.getD i 0 = b.getD i 0) :
    a = b := by
  apply Array.ext hs
  intro i h1 h2
  have := h i h1
  simpa [Array.getD, h1, h2] using this

/-- two fills of arrays that agree below `r` -/
theorem fill_congr {P1 P2 : Array Nat} {r n : Nat} (hs1 : P1.size = n) (hs2 : P2.size = n)
    (h : ∀ t, t < r → P1.getD t 0 = P2.getD t 0) :
    (List.range' r (n - r)).foldl (fun P i => P.setIfInBounds i i) P1 =
      (List.range' r (n - r)).foldl (fun P i => P.setIfInBounds i i) P2 := by
  obtain ⟨a1, a2⟩ := fill_spec (n - r) r P1
  obtain ⟨b1, b2⟩ := fill_spec (n - r) r P2
  apply ext_getD _ _ (by rw [a1, b1, hs1, hs2])
  intro p hp
  rw [a1, hs1] at hp
  rw [a2, b2, hs1, hs2]
  by_cases c : p < r
  · rw [if_neg (by omega), if_neg (by omega)]; exact h p c
  · rw [if_pos (by omega), if_pos (by omega)]

/-- **the result does not depend on what `P` and `Q` contain on entry** -/
theorem pleNaive_indep {A : BMat} (hA : A.WF) {P1 Q1 P2 Q2 : Array Nat}
    (hP1 : P1.size = A.nrows) (hQ1 : Q1.size = A.ncols) (hP2 : P2.size = A.nrows) (hQ2 : Q2.size = A.ncols) :
    pleNaive A P1 Q1 = pleNaive A P2 Q2 := by
  obtain ⟨M1, P1', Q1', r1, c1, e1, I1, _⟩ :=
    go_spec A (min A.nrows A.ncols + 1) A P1 Q1 0 0 (Inv.init hA hP1 hQ1) (by omega)
  obtain ⟨M2, P2', Q2', r2, c2, e2, I2, _⟩ :=
    go_spec A (min A.nrows A.ncols + 1) A P2 Q2 0 0 (Inv.init hA hP2 hQ2) (by omega)
  have k := go_indep A (min A.nrows A.ncols + 1) A P1 Q1 P2 Q2 0 0 (Inv.init hA hP1 hQ1) (Inv.init hA hP2 hQ2)
    (fun t ht => by omega) (fun t ht => by omega)
  rw [e1, e2] at k
  obtain ⟨k1, k2, k3, k4⟩ := k
  simp only [] at k1 k2 k3 k4
  subst k1; subst k2
  rw [pleNaive_unfold A P1 Q1 e1, pleNaive_unfold A P2 Q2 e2]
  have eP := fill_congr (r := r1) (n := M1.nrows) (by rw [I1.psz, I1.nr]) (by rw [I2.psz, I1.nr]) k3
  have eQ := fill_congr (r := r1) (n := M1.ncols) (by rw [I1.qsz, I1.nc]) (by rw [I2.qsz, I1.nc]) k4
  rw [eP, eQ]

/-- `GoodBase` for the naive routine started on junk-filled permutations (the base case used in the
    executable tests of `TrsmRec.lean`) … -/
theorem goodBase_naiveBase : GoodBase naiveBase := fun A hA =>
  (pleNaive_good hA (P := Array.replicate A.nrows 0) (Q := Array.replicate A.ncols 0) (by simp) (by simp)).1

/-- … and for any other initial contents -/
theorem goodBase_naive (p q : BMat → Array Nat) (hp : ∀ A, (p A).size = A.nrows) (hq : ∀ A, (q A).size = A.ncols) :
    GoodBase (fun A => pleNaive A (p A) (q A)) := fun A hA => (pleNaive_good hA (hp A) (hq A)).1

theorem goodBase_naive_range : GoodBase (fun A => pleNaive A (Array.range A.nrows) (Array.range A.ncols)) :=
  goodBase_naive _ _ (fun _ => by simp) (fun _ => by simp)

/-- **C03, recursive PLE on the naive base case, unconditionally**: for every fuel and all regime parameters
    the block-recursive `_mzd_ple` with `_mzd_ple_naive` as its base case returns a PLE certificate whose `P`
    fixes the rows from the rank on. -/
theorem pleRec_naive_good (baseCols cutoff baseRows fuel : Nat) {A : BMat} (hA : A.WF) :
    GoodOut A (pleRec naiveBase baseCols cutoff baseRows fuel A) :=
  pleRec_spec goodBase_naiveBase baseCols cutoff baseRows fuel hA

theorem pleRec_naive_isPLE (baseCols cutoff baseRows fuel : Nat) {A : BMat} (hA : A.WF) :
    IsPLE A (pleRec naiveBase baseCols cutoff baseRows fuel A).1 (pleRec naiveBase baseCols cutoff baseRows fuel A).2.1
      (pleRec naiveBase baseCols cutoff baseRows fuel A).2.2.1 (pleRec naiveBase baseCols cutoff baseRows fuel A).2.2.2 :=
  pleRec_isPLE goodBase_naiveBase baseCols cutoff baseRows fuel hA

theorem pleRec_naive_rank (baseCols cutoff baseRows fuel : Nat) {A : BMat} (hA : A.WF) :
    RankCert A (pleRec naiveBase baseCols cutoff baseRows fuel A).2.2.2 :=
  pleRec_rank goodBase_naiveBase baseCols cutoff baseRows fuel hA

/-- non-vacuity: a 3 × 4 matrix of rank 2 with pivot columns 1, 3 -/
example : (⟨3, 4, #[10, 2, 8]⟩ : BMat).WF ∧
    pleNaive ⟨3, 4, #[10, 2, 8]⟩ #[7, 7, 7] #[9, 9, 9, 9] = (⟨3, 4, #[9, 3, 2]⟩, #[0, 1, 2], #[1, 3, 2, 3], 2) := by
  refine ⟨⟨rfl, fun i => ?_⟩, by decide⟩
  by_cases h : i < 3
  · have : i = 0 ∨ i = 1 ∨ i = 2 := by omega
    rcases this with rfl | rfl | rfl <;> decide
  · rw [row_of_ge _ _ (by simpa using h)]; exact Nat.two_pow_pos _

/-! ### 7. completeness of the certificate checkers -/

theorem eqM_complete {A B : BMat} (hr : A.nrows = B.nrows) (hc : A.ncols = B.ncols)
    (h : ∀ i j, i < A.nrows → j < A.ncols → A.get i j = B.get i j) : A.eqM B = true := by
  unfold eqM
  simp only [decide_eq_true_eq, List.all_eq_true, List.mem_range]
  refine ⟨hr, hc, fun i hi => ?_⟩
  apply Nat.eq_of_testBit_eq
  intro j
  rw [Nat.testBit_mod_two_pow, Nat.testBit_mod_two_pow, ← hc]
  by_cases hj : j < A.ncols
  · have := h i j hi hj
    unfold get at this
    rw [this]
  · simp [hj]

theorem lapackOK_complete {P : Array Nat} {n : Nat} (hs : P.size = n)
    (h : ∀ i, i < n → i ≤ P.getD i 0 ∧ P.getD i 0 < n) : lapackOK P n = true := by
  unfold lapackOK
  simp only [Bool.and_eq_true, decide_eq_true_eq, List.all_eq_true, List.mem_range]
  exact ⟨hs, fun i hi => h i hi⟩

theorem shiftRight_eq_zero_of_testBit {x n r : Nat} (h : ∀ j, r ≤ j → j < n → x.testBit j = false) :
    (x % 2 ^ n) >>> r = 0 := by
  apply Nat.eq_of_testBit_eq
  intro k
  rw [Nat.testBit_shiftRight, Nat.testBit_mod_two_pow, Nat.zero_testBit]
  by_cases c : r + k < n
  · rw [h (r + k) (by omega) c]; simp
  · simp [c]

/-- **completeness of `checkPLE`**: every certificate with the meaning `IsPLE` is accepted -/
theorem checkPLE_complete {A S : BMat} {P Q : Array Nat} {r : Nat} (h : IsPLE A S P Q r) :
    checkPLE A S P Q r = true := by
  unfold checkPLE
  simp only [Bool.and_eq_true, decide_eq_true_eq, List.all_eq_true, List.mem_range, Bool.or_eq_true,
    Bool.not_eq_true']
  have sh := applyPLeft_shape A P
  refine ⟨⟨⟨⟨⟨⟨⟨⟨⟨h.nrows_eq, h.ncols_eq⟩, by have := h.r_le_nrows; have := h.r_le_ncols; omega⟩,
    lapackOK_complete h.P_size h.P_lapack⟩, h.Q_size⟩, ?_⟩, h.diag⟩, ?_⟩, ?_⟩, ?_⟩
  · intro i hi
    refine ⟨⟨(h.pivot_range i hi).2, (h.pivot_range i hi).1⟩, ?_⟩
    by_cases c : i = 0
    · exact Or.inl c
    · exact Or.inr (h.pivot_mono (i - 1) i (by omega) hi)
  · intro i hi j hj
    have := List.mem_range'_1.mp hj
    exact h.gap i j hi (by omega) (by omega)
  · intro i hi
    have := List.mem_range'_1.mp hi
    exact shiftRight_eq_zero_of_testBit (fun j h1 h2 => h.outside i j (by omega) (by omega) h1 h2)
  · apply eqM_complete (by rw [sh.1]; simp [h.nrows_eq]) (by rw [sh.2.1]; simp [h.ncols_eq])
    intro i j hi hj
    rw [sh.1] at hi; rw [sh.2.1] at hj
    rw [h.prod i j hi hj, mul_get _ _ _ _ (by simpa [h.nrows_eq] using hi)]

/-- `checkPLE` decides `IsPLE` -/
theorem checkPLE_iff {A S : BMat} {P Q : Array Nat} {r : Nat} :
    checkPLE A S P Q r = true ↔ IsPLE A S P Q r := ⟨checkPLE_sound, checkPLE_complete⟩

/-- **completeness of `checkPLUQ`** -/
theorem checkPLUQ_complete {A S : BMat} {P Q : Array Nat} {r : Nat} (h : IsPLUQ A S P Q r) :
    checkPLUQ A S P Q r = true := by
  unfold checkPLUQ
  simp only [Bool.and_eq_true, decide_eq_true_eq, List.all_eq_true, List.mem_range]
  have sh := (applyPLeft_shape A P).trans (applyPRightTrans_shape _ Q)
  refine ⟨⟨⟨⟨⟨⟨⟨h.nrows_eq, h.ncols_eq⟩, by have := h.r_le_nrows; have := h.r_le_ncols; omega⟩,
    lapackOK_complete h.P_size h.P_lapack⟩, lapackOK_complete h.Q_size h.Q_lapack⟩, h.diag⟩, ?_⟩, ?_⟩
  · intro i hi
    have := List.mem_range'_1.mp hi
    exact shiftRight_eq_zero_of_testBit (fun j h1 h2 => h.outside i j (by omega) (by omega) h1 h2)
  · apply eqM_complete (by rw [sh.1]; simp [h.nrows_eq]) (by rw [sh.2.1]; simp [h.ncols_eq])
    intro i j hi hj
    rw [sh.1] at hi; rw [sh.2.1] at hj
    rw [h.prod i j hi hj, mul_get _ _ _ _ (by simpa [h.nrows_eq] using hi)]

/-- `checkPLUQ` decides `IsPLUQ` -/
theorem checkPLUQ_iff {A S : BMat} {P Q : Array Nat} {r : Nat} :
    checkPLUQ A S P Q r = true ↔ IsPLUQ A S P Q r := ⟨checkPLUQ_sound, checkPLUQ_complete⟩

/-- **the checker accepts every output of `_mzd_ple_naive`** -/
theorem checkPLE_pleNaive {A : BMat} (hA : A.WF) {P Q : Array Nat} (hP : P.size = A.nrows) (hQ : Q.size = A.ncols) :
    checkPLE A (pleNaive A P Q).1 (pleNaive A P Q).2.1 (pleNaive A P Q).2.2.1 (pleNaive A P Q).2.2.2 = true :=
  checkPLE_complete (pleNaive_isPLE hA hP hQ)

/-- hence the returned `r` is the rank and `Q[0..r)` the column rank profile -/
theorem pleNaive_rank_profile {A : BMat} (hA : A.WF) {P Q : Array Nat} (hP : P.size = A.nrows)
    (hQ : Q.size = A.ncols) :
    (pleNaive A P Q).2.2.2 = A.rank ∧
    (List.range (pleNaive A P Q).2.2.2).map (fun i => (pleNaive A P Q).2.2.1.getD i 0) = A.rankProfile :=
  GOK.ple_rank_profile hA (checkPLE_pleNaive hA hP hQ)

/-! ### 8. `_mzd_pluq_naive` -/

theorem WF_swapColsInRows {M : BMat} (hM : M.WF) {a b : Nat} (ha : a < M.ncols) (hb : b < M.ncols) (lo hi : Nat) :
    (M.swapColsInRows a b lo hi).WF := by
  have sh := swapColsInRows_shape M a b lo hi
  apply WF_of_get
  · rw [sh.2.2, sh.1]; exact hM.1
  · intro i j hj
    rw [sh.2.1] at hj
    rw [swapColsInRows_get, swapIdx_of_ge ha hb hj]
    split <;> exact get_of_ge_ncols hM _ _ hj

/-- the matrix after one round with pivot `(i, j)`: row swap, column swap, elimination below -/
def stepU (M : BMat) (pos i j : Nat) : BMat :=
  let A := M.swapRows pos i
  let A := A.swapColsInRows pos j 0 A.nrows
  if pos + 1 < A.ncols then
    (List.range' (pos + 1) (A.nrows - (pos + 1))).foldl
      (fun A l => if A.get l pos then A.addRowFrom l pos (pos + 1) else A) A
  else A

theorem ugo_zero (M : BMat) (P Q : Array Nat) (pos : Nat) : pluqNaive.go 0 M P Q pos = (M, P, Q, pos) := rfl

theorem ugo_succ (fuel : Nat) (M : BMat) (P Q : Array Nat) (pos : Nat) :
    pluqNaive.go (fuel + 1) M P Q pos =
      if pos ≥ M.ncols then (M, P, Q, pos) else
      match search M pos pos with
      | none => (M, P, Q, pos)
      | some (i, j) =>
        pluqNaive.go fuel (stepU M pos i j) (P.setIfInBounds pos i) (Q.setIfInBounds pos j) (pos + 1) := rfl

theorem stepU_spec {M : BMat} (hM : M.WF) {p i j : Nat} (hp : p < M.nrows) (hi : i < M.nrows)
    (hpc : p < M.ncols) (hj : j < M.ncols) :
    (stepU M p i j).WF ∧ (stepU M p i j).nrows = M.nrows ∧ (stepU M p i j).ncols = M.ncols ∧
    ∀ l k, (stepU M p i j).get l k =
      (M.get (swapIdx p i l) (swapIdx p j k) ^^ (decide (p < l ∧ l < M.nrows) && (decide (p < k) &&
        (M.get (swapIdx p i l) j && M.get i (swapIdx p j k))))) := by
  have hW1 := WF_swapRows hM p i
  have hg1 : ∀ l k, (M.swapRows p i).get l k = M.get (swapIdx p i l) k :=
    fun l k => swapRows_get M p i (by rw [hM.1]; exact hp) (by rw [hM.1]; exact hi) l k
  have hW := WF_swapColsInRows hW1 (a := p) (b := j) (by simpa using hpc) (by simpa using hj) 0
    (M.swapRows p i).nrows
  have sh := swapColsInRows_shape (M.swapRows p i) p j 0 (M.swapRows p i).nrows
  have hr : ((M.swapRows p i).swapColsInRows p j 0 (M.swapRows p i).nrows).nrows = M.nrows := by
    rw [sh.1, nrows_swapRows]
  have hc : ((M.swapRows p i).swapColsInRows p j 0 (M.swapRows p i).nrows).ncols = M.ncols := by
    rw [sh.2.1, ncols_swapRows]
  have hg : ∀ l k, ((M.swapRows p i).swapColsInRows p j 0 (M.swapRows p i).nrows).get l k =
      M.get (swapIdx p i l) (swapIdx p j k) := by
    intro l k
    rw [swapColsInRows_get, nrows_swapRows]
    by_cases hl : l < M.nrows
    · rw [if_pos ⟨Nat.zero_le _, hl⟩, hg1]
    · rw [if_neg (fun hh => hl hh.2), hg1, swapIdx_of_ge hp hi (by omega)]
      unfold get; rw [row_of_ge _ _ (by rw [hM.1]; omega)]; simp
  have σp : swapIdx p i p = i := by unfold swapIdx; simp
  have τp : swapIdx p j p = j := by unfold swapIdx; simp
  unfold stepU
  simp only []
  generalize (M.swapRows p i).swapColsInRows p j 0 (M.swapRows p i).nrows = M1 at hW hr hc hg
  split
  · obtain ⟨i1, i2, i3, i4⟩ := elim_fold p p (p + 1) (M1.nrows - (p + 1)) (p + 1) M1 hW (by omega) (by omega)
    refine ⟨i1, by rw [i2, hr], by rw [i3, hc], fun l k => ?_⟩
    rw [i4, hg, hg, hg, σp, τp, hr]
    have e1 : decide (p + 1 ≤ l ∧ l < p + 1 + (M.nrows - (p + 1))) = decide (p < l ∧ l < M.nrows) := by
      apply decide_eq_decide.mpr; omega
    have e2 : decide (p + 1 ≤ k) = decide (p < k) := by apply decide_eq_decide.mpr; omega
    rw [e1, e2]
  · next hj' =>
    refine ⟨hW, hr, hc, fun l k => ?_⟩
    rw [hg]
    by_cases hjk : p < k
    · have : swapIdx p j k = k ∨ swapIdx p j k = p := by unfold swapIdx; split_ifs <;> omega
      have hk : M.ncols ≤ k := by rw [hc] at hj'; omega
      have : M.get i (swapIdx p j k) = false := by
        rw [swapIdx_of_ge hpc hj hk]; exact get_of_ge_ncols hM _ _ hk
      simp [this]
    · simp [hjk]

/-- entry `(i,t)` of the unit lower trapezoidal factor, read from the working matrix -/
def ul (M : BMat) (i t : Nat) : Bool := if t < i then M.get i t else decide (t = i)
/-- entry `(t,j)` of the upper trapezoidal factor -/
def uu (M : BMat) (t j : Nat) : Bool := decide (t ≤ j) && M.get t j

/-- state of the main loop of `_mzd_pluq_naive` after `p` pivots -/
structure UInv (A M : BMat) (P Q : Array Nat) (p : Nat) : Prop where
  wf : M.WF
  nr : M.nrows = A.nrows
  nc : M.ncols = A.ncols
  psz : P.size = A.nrows
  qsz : Q.size = A.ncols
  p_le_r : p ≤ A.nrows
  p_le_c : p ≤ A.ncols
  prange : ∀ t, t < p → t ≤ P.getD t 0 ∧ P.getD t 0 < A.nrows
  qrange : ∀ t, t < p → t ≤ Q.getD t 0 ∧ Q.getD t 0 < A.ncols
  diag : ∀ t, t < p → M.get t t = true
  /-- the row- and column-permuted input is `L·U` plus the not yet processed block -/
  prod : ∀ i j, i < A.nrows → j < A.ncols →
    A.get (rowPerm P p i) (rowPerm Q p j) =
      (xsum p (fun t => ul M i t && uu M t j) ^^ (decide (p ≤ i) && (decide (p ≤ j) && M.get i j)))

theorem UInv.init {A : BMat} (hA : A.WF) {P Q : Array Nat} (hP : P.size = A.nrows) (hQ : Q.size = A.ncols) :
    UInv A A P Q 0 :=
  ⟨hA, rfl, rfl, hP, hQ, Nat.zero_le _, Nat.zero_le _, fun t ht => by omega, fun t ht => by omega,
    fun t ht => by omega, fun i j _ _ => by simp [rowPerm]⟩

theorem swapIdx_facts {p i0 m : Nat} (h1 : p ≤ i0) (h2 : i0 < m) :
    (∀ l, l < p → swapIdx p i0 l = l) ∧
    (∀ l, p ≤ l → l < m → p ≤ swapIdx p i0 l ∧ swapIdx p i0 l < m) ∧
    (∀ l, l < m → swapIdx p i0 l < m) ∧ swapIdx p i0 p = i0 := by
  refine ⟨fun l hl => ?_, fun l h1 h2 => ?_, fun l hl => ?_, ?_⟩
  · unfold swapIdx; rw [if_neg (by omega), if_neg (by omega)]
  · unfold swapIdx; split
    · omega
    · split <;> omega
  · unfold swapIdx; split
    · omega
    · split <;> omega
  · unfold swapIdx; simp

theorem UInv.step {A M : BMat} {P Q : Array Nat} {p i0 j0 : Nat} (h : UInv A M P Q p)
    (hs : search M p p = some (i0, j0)) :
    UInv A (stepU M p i0 j0) (P.setIfInBounds p i0) (Q.setIfInBounds p j0) (p + 1) := by
  obtain ⟨s1, s2, s3, s4, s5, _⟩ := search_some hs
  rw [h.nr] at s2; rw [h.nc] at s4
  have hp : p < A.nrows := by omega
  have hpc : p < A.ncols := by omega
  obtain ⟨w1, w2, w3, w4⟩ := stepU_spec h.wf (p := p) (i := i0) (j := j0) (by rw [h.nr]; exact hp)
    (by rw [h.nr]; exact s2) (by rw [h.nc]; exact hpc) (by rw [h.nc]; exact s4)
  rw [h.nr] at w2 w4; rw [h.nc] at w3
  have hPlt : ∀ t, t < p → (P.setIfInBounds p i0).getD t 0 = P.getD t 0 := by
    intro t ht; rw [getD_set, if_neg (by omega)]
  have hPp : (P.setIfInBounds p i0).getD p 0 = i0 := by
    rw [getD_set, if_pos ⟨rfl, by rw [h.psz]; exact hp⟩]
  have hQlt : ∀ t, t < p → (Q.setIfInBounds p j0).getD t 0 = Q.getD t 0 := by
    intro t ht; rw [getD_set, if_neg (by omega)]
  have hQp : (Q.setIfInBounds p j0).getD p 0 = j0 := by
    rw [getD_set, if_pos ⟨rfl, by rw [h.qsz]; omega⟩]
  obtain ⟨σlo, σhi, σlt, σp⟩ := swapIdx_facts s1 s2
  obtain ⟨τlo, τhi, τlt, τp⟩ := swapIdx_facts s3 s4
  generalize hM2 : stepU M p i0 j0 = M2 at w1 w2 w3 w4 ⊢
  generalize hP2 : P.setIfInBounds p i0 = P2 at hPlt hPp ⊢
  generalize hQ2 : Q.setIfInBounds p j0 = Q2 at hQlt hQp ⊢
  -- the matrix after the two swaps
  have g0 : ∀ l k, ¬ (p < l ∧ l < A.nrows ∧ p < k) → M2.get l k = M.get (swapIdx p i0 l) (swapIdx p j0 k) := by
    intro l k hh
    rw [w4]
    by_cases c : p < l ∧ l < A.nrows
    · rw [decide_eq_false (by omega : ¬ p < k)]; simp
    · rw [decide_eq_false c]; simp
  have g3 : ∀ l k, p < l → l < A.nrows → p < k → M2.get l k =
      (M.get (swapIdx p i0 l) (swapIdx p j0 k) ^^ (M.get (swapIdx p i0 l) j0 && M.get i0 (swapIdx p j0 k))) := by
    intro l k h1 h2 h3
    rw [w4, decide_eq_true (⟨h1, h2⟩ : p < l ∧ l < A.nrows), decide_eq_true h3]; simp
  refine ⟨w1, w2, w3, by rw [← hP2, Array.size_setIfInBounds]; exact h.psz,
    by rw [← hQ2, Array.size_setIfInBounds]; exact h.qsz, by omega, by omega, ?_, ?_, ?_, ?_⟩
  · intro t ht
    by_cases c : t < p
    · rw [hPlt t c]; exact h.prange t c
    · have : t = p := by omega
      subst this; rw [hPp]; omega
  · intro t ht
    by_cases c : t < p
    · rw [hQlt t c]; exact h.qrange t c
    · have : t = p := by omega
      subst this; rw [hQp]; omega
  · intro t ht
    by_cases c : t < p
    · rw [g0 t t (by omega), σlo t c, τlo t c]; exact h.diag t c
    · have : t = p := by omega
      subst this; rw [g0 t t (by omega), σp, τp]; exact s5
  · intro i j hi hj
    show A.get (rowPerm P2 p (swapIdx p (P2.getD p 0) i)) (rowPerm Q2 p (swapIdx p (Q2.getD p 0) j)) = _
    rw [hPp, hQp, rowPerm_congr P2 P p hPlt, rowPerm_congr Q2 Q p hQlt, h.prod _ _ (σlt i hi) (τlt j hj), xsum_succ]
    have hx : ∀ t, t < p → (ul M2 i t && uu M2 t j) =
        (ul M (swapIdx p i0 i) t && uu M t (swapIdx p j0 j)) := by
      intro t ht
      have e1 : uu M2 t j = uu M t (swapIdx p j0 j) := by
        unfold uu
        rw [g0 t j (by omega), σlo t ht]
        congr 1
        apply decide_eq_decide.mpr
        by_cases c : j < p
        · rw [τlo j c]
        · have := (τhi j (by omega) hj).1; omega
      have e2 : ul M2 i t = ul M (swapIdx p i0 i) t := by
        unfold ul
        rw [g0 i t (by omega), τlo t ht]
        by_cases c : i < p
        · rw [σlo i c]
        · obtain ⟨a1, a2⟩ := σhi i (by omega) hi
          rw [if_pos (by omega), if_pos (by omega)]
      rw [e1, e2]
    rw [xsum_congr hx, Bool.xor_assoc]
    congr 1
    have ei : decide (p ≤ swapIdx p i0 i) = decide (p ≤ i) := by
      apply decide_eq_decide.mpr
      by_cases c : i < p
      · rw [σlo i c]
      · have := (σhi i (by omega) hi).1; omega
    have ej : decide (p ≤ swapIdx p j0 j) = decide (p ≤ j) := by
      apply decide_eq_decide.mpr
      by_cases c : j < p
      · rw [τlo j c]
      · have := (τhi j (by omega) hj).1; omega
    rw [ei, ej]
    unfold ul uu
    rw [g0 p j (by omega), g0 i p (by omega), σp, τp]
    have hpp : M.get i0 j0 = true := s5
    by_cases c1 : i < p
    · rw [decide_eq_false (by omega : ¬ p ≤ i), if_neg (by omega), decide_eq_false (by omega : ¬ p = i),
        decide_eq_false (by omega : ¬ p + 1 ≤ i)]
      simp
    · by_cases c2 : i = p
      · subst c2
        rw [σp, decide_eq_true (Nat.le_refl _), if_neg (by omega), decide_eq_false (by omega : ¬ i + 1 ≤ i)]
        simp
      · rw [decide_eq_true (by omega : p ≤ i), if_pos (by omega), decide_eq_true (by omega : p + 1 ≤ i)]
        by_cases d1 : p < j
        · rw [decide_eq_true (by omega : p ≤ j), decide_eq_true (by omega : p + 1 ≤ j), g3 i j (by omega) hi d1]
          cases M.get (swapIdx p i0 i) (swapIdx p j0 j) <;> cases M.get (swapIdx p i0 i) j0 <;>
            cases M.get i0 (swapIdx p j0 j) <;> rfl
        · rw [decide_eq_false (by omega : ¬ p + 1 ≤ j)]
          by_cases d2 : j = p
          · subst d2; rw [τp, hpp]; simp
          · rw [decide_eq_false (by omega : ¬ p ≤ j)]; simp

theorem ugo_spec (A : BMat) : ∀ (fuel : Nat) (M : BMat) (P Q : Array Nat) (p : Nat), UInv A M P Q p →
    A.ncols ≤ fuel + p →
    ∃ (M' : BMat) (P' Q' : Array Nat) (r : Nat), pluqNaive.go fuel M P Q p = (M', P', Q', r) ∧
      UInv A M' P' Q' r ∧ ∀ i j, r ≤ i → i < A.nrows → r ≤ j → M'.get i j = false := by
  intro fuel
  induction fuel with
  | zero =>
    intro M P Q p h hf
    refine ⟨M, P, Q, p, rfl, h, fun i j h1 h2 h3 => ?_⟩
    exact get_of_ge_ncols h.wf _ _ (by rw [h.nc]; omega)
  | succ fuel ih =>
    intro M P Q p h hf
    rw [ugo_succ]
    by_cases hc : p ≥ M.ncols
    · rw [if_pos hc]
      refine ⟨M, P, Q, p, rfl, h, fun i j h1 h2 h3 => ?_⟩
      exact get_of_ge_ncols h.wf _ _ (by omega)
    · rw [if_neg hc]
      cases hs : search M p p with
      | none =>
        refine ⟨M, P, Q, p, rfl, h, fun i j h1 h2 h3 => ?_⟩
        by_cases hj : j < M.ncols
        · exact search_none hs i j h1 (by rw [h.nr]; exact h2) h3 hj
        · exact get_of_ge_ncols h.wf _ _ (by omega)
      | some q =>
        obtain ⟨i0, j0⟩ := q
        exact ih _ _ _ _ (h.step hs) (by omega)

theorem ugo_indep (A : BMat) : ∀ (fuel : Nat) (M : BMat) (P1 Q1 P2 Q2 : Array Nat) (p : Nat),
    UInv A M P1 Q1 p → UInv A M P2 Q2 p →
    (∀ t, t < p → P1.getD t 0 = P2.getD t 0) → (∀ t, t < p → Q1.getD t 0 = Q2.getD t 0) →
    (pluqNaive.go fuel M P1 Q1 p).1 = (pluqNaive.go fuel M P2 Q2 p).1 ∧
    (pluqNaive.go fuel M P1 Q1 p).2.2.2 = (pluqNaive.go fuel M P2 Q2 p).2.2.2 ∧
    (∀ t, t < (pluqNaive.go fuel M P1 Q1 p).2.2.2 →
      (pluqNaive.go fuel M P1 Q1 p).2.1.getD t 0 = (pluqNaive.go fuel M P2 Q2 p).2.1.getD t 0) ∧
    (∀ t, t < (pluqNaive.go fuel M P1 Q1 p).2.2.2 →
      (pluqNaive.go fuel M P1 Q1 p).2.2.1.getD t 0 = (pluqNaive.go fuel M P2 Q2 p).2.2.1.getD t 0) := by
  intro fuel
  induction fuel with
  | zero => intro M P1 Q1 P2 Q2 p _ _ hp hq; exact ⟨rfl, rfl, hp, hq⟩
  | succ fuel ih =>
    intro M P1 Q1 P2 Q2 p h1 h2 hp hq
    rw [ugo_succ, ugo_succ]
    by_cases hc : p ≥ M.ncols
    · rw [if_pos hc, if_pos hc]; exact ⟨rfl, rfl, hp, hq⟩
    · rw [if_neg hc, if_neg hc]
      cases hs : search M p p with
      | none => exact ⟨rfl, rfl, hp, hq⟩
      | some q =>
        obtain ⟨i0, j0⟩ := q
        obtain ⟨s1, s2, s3, s4, _, _⟩ := search_some hs
        refine ih _ _ _ _ _ _ (h1.step hs) (h2.step hs) (fun t ht => ?_) (fun t ht => ?_)
        · rw [getD_set, getD_set, h1.psz, h2.psz]
          by_cases c : p = t
          · subst c; simp only [true_and]
            rw [if_pos (by rw [← h1.nr]; omega), if_pos (by rw [← h1.nr]; omega)]
          · rw [if_neg (fun hh => c hh.1), if_neg (fun hh => c hh.1)]; exact hp t (by omega)
        · rw [getD_set, getD_set, h1.qsz, h2.qsz]
          by_cases c : p = t
          · subst c; simp only [true_and]
            rw [if_pos (by rw [← h1.nc]; omega), if_pos (by rw [← h1.nc]; omega)]
          · rw [if_neg (fun hh => c hh.1), if_neg (fun hh => c hh.1)]; exact hq t (by omega)

theorem pluqNaive_unfold (A : BMat) (P Q : Array Nat) {M' : BMat} {P' Q' : Array Nat} {r : Nat}
    (h : pluqNaive.go A.ncols A P Q 0 = (M', P', Q', r)) :
    pluqNaive A P Q =
      (M', (List.range' r (M'.nrows - r)).foldl (fun P i => P.setIfInBounds i i) P',
        (List.range' r (M'.ncols - r)).foldl (fun Q i => Q.setIfInBounds i i) Q', r) := by
  unfold pluqNaive
  rw [h]

theorem ufinish {A W : BMat} {P' Q' : Array Nat} {r : Nat} (hA : A.WF) (h : UInv A W P' Q' r)
    (hdone : ∀ i j, r ≤ i → i < A.nrows → r ≤ j → W.get i j = false) :
    let Pf := (List.range' r (W.nrows - r)).foldl (fun P i => P.setIfInBounds i i) P'
    let Qf := (List.range' r (W.ncols - r)).foldl (fun Q i => Q.setIfInBounds i i) Q'
    IsPLUQ A W Pf Qf r ∧ (∀ i, r ≤ i → i < A.nrows → Pf.getD i 0 = i) ∧
      (∀ i, r ≤ i → i < A.ncols → Qf.getD i 0 = i) := by
  intro Pf Qf
  obtain ⟨qs, qg⟩ := fill_spec (W.ncols - r) r Q'
  obtain ⟨ps, pg⟩ := fill_spec (W.nrows - r) r P'
  have hQf : ∀ t, t < r → Qf.getD t 0 = Q'.getD t 0 := fun t ht => by
    show ((List.range' r (W.ncols - r)).foldl (fun Q i => Q.setIfInBounds i i) Q').getD t 0 = _
    rw [qg, if_neg (by omega)]
  have hPf : ∀ t, t < r → Pf.getD t 0 = P'.getD t 0 := fun t ht => by
    show ((List.range' r (W.nrows - r)).foldl (fun P i => P.setIfInBounds i i) P').getD t 0 = _
    rw [pg, if_neg (by omega)]
  have hPt : ∀ t, r ≤ t → t < A.nrows → Pf.getD t 0 = t := fun t h1 h2 => by
    show ((List.range' r (W.nrows - r)).foldl (fun P i => P.setIfInBounds i i) P').getD t 0 = _
    rw [pg, if_pos ⟨h1, by rw [h.nr]; omega, by rw [h.psz]; exact h2⟩]
  have hQt : ∀ t, r ≤ t → t < A.ncols → Qf.getD t 0 = t := fun t h1 h2 => by
    show ((List.range' r (W.ncols - r)).foldl (fun Q i => Q.setIfInBounds i i) Q').getD t 0 = _
    rw [qg, if_pos ⟨h1, by rw [h.nc]; omega, by rw [h.qsz]; exact h2⟩]
  have hPs : Pf.size = A.nrows := ps.trans h.psz
  have hQs : Qf.size = A.ncols := qs.trans h.qsz
  have hPl : ∀ i, i < A.nrows → i ≤ Pf.getD i 0 ∧ Pf.getD i 0 < A.nrows := by
    intro i hi
    by_cases c : i < r
    · rw [hPf i c]; exact h.prange i c
    · rw [hPt i (by omega) hi]; omega
  have hQl : ∀ i, i < A.ncols → i ≤ Qf.getD i 0 ∧ Qf.getD i 0 < A.ncols := by
    intro i hi
    by_cases c : i < r
    · rw [hQf i c]; exact h.qrange i c
    · rw [hQt i (by omega) hi]; omega
  refine ⟨⟨h.nr, h.nc, h.p_le_r, h.p_le_c, hPs, hPl, hQs, hQl, h.diag,
    fun i j h1 h2 h3 _ => hdone i j h1 h2 h3, ?_⟩, hPt, hQt⟩
  intro i j hi hj
  obtain ⟨_, _, hget, _, _⟩ := applyP_eq_perm hA hPs (fun i hi => (hPl i hi).2) hQs (fun i hi => (hQl i hi).2)
  rw [hget i j hi, rowPerm_tail Pf r A.nrows h.p_le_r (fun t h1 h2 => hPt t h1 h2), rowPerm_congr Pf P' r hPf,
    rowPerm_tail Qf r A.ncols h.p_le_c (fun t h1 h2 => hQt t h1 h2), rowPerm_congr Qf Q' r hQf,
    h.prod i j hi hj, dotSpec_T, lowerFactor_ncols]
  have hz : (decide (r ≤ i) && (decide (r ≤ j) && W.get i j)) = false := by
    by_cases c1 : r ≤ i
    · by_cases c2 : r ≤ j
      · rw [hdone i j c1 hi c2]; simp
      · simp [c2]
    · simp [c1]
  rw [hz, Bool.xor_false]
  apply xsum_congr
  intro t ht
  rw [lowerFactor_get, upperFactor_get, h.nr, h.nc, decide_eq_true hi, decide_eq_true ht, decide_eq_true hj]
  simp only [Bool.true_and]
  unfold ul uu
  congr 1
  by_cases c : t < i
  · rw [if_pos c, decide_eq_true c, decide_eq_false (by omega : ¬ t = i)]; simp
  · rw [if_neg c, decide_eq_false c]
    by_cases c2 : t = i
    · subst c2; simp [ht]
    · simp [c2]

/-- **C03, `_mzd_pluq_naive`**: for every well-formed `A` and whatever `P` (length `nrows`) and `Q` (length
    `ncols`) contain on entry, the routine returns a PLUQ certificate of `A` (what `checkPLUQ` tests), both
    permutations fix the indices from the rank on, and the storage it leaves is well formed. -/
theorem pluqNaive_good {A : BMat} (hA : A.WF) {P Q : Array Nat} (hP : P.size = A.nrows) (hQ : Q.size = A.ncols) :
    IsPLUQ A (pluqNaive A P Q).1 (pluqNaive A P Q).2.1 (pluqNaive A P Q).2.2.1 (pluqNaive A P Q).2.2.2 ∧
    (∀ i, (pluqNaive A P Q).2.2.2 ≤ i → i < A.nrows → (pluqNaive A P Q).2.1.getD i 0 = i) ∧
    (∀ i, (pluqNaive A P Q).2.2.2 ≤ i → i < A.ncols → (pluqNaive A P Q).2.2.1.getD i 0 = i) ∧
    (pluqNaive A P Q).1.WF := by
  obtain ⟨M', P', Q', r, e, hI, hd⟩ := ugo_spec A A.ncols A P Q 0 (UInv.init hA hP hQ) (by omega)
  rw [pluqNaive_unfold A P Q e]
  obtain ⟨a, b, c⟩ := ufinish hA hI hd
  exact ⟨a, b, c, hI.wf⟩

theorem pluqNaive_isPLUQ {A : BMat} (hA : A.WF) {P Q : Array Nat} (hP : P.size = A.nrows) (hQ : Q.size = A.ncols) :
    IsPLUQ A (pluqNaive A P Q).1 (pluqNaive A P Q).2.1 (pluqNaive A P Q).2.2.1 (pluqNaive A P Q).2.2.2 :=
  (pluqNaive_good hA hP hQ).1

/-- the result does not depend on what `P` and `Q` contain on entry -/
theorem pluqNaive_indep {A : BMat} (hA : A.WF) {P1 Q1 P2 Q2 : Array Nat}
    (hP1 : P1.size = A.nrows) (hQ1 : Q1.size = A.ncols) (hP2 : P2.size = A.nrows) (hQ2 : Q2.size = A.ncols) :
    pluqNaive A P1 Q1 = pluqNaive A P2 Q2 := by
  obtain ⟨M1, P1', Q1', r1, e1, I1, _⟩ := ugo_spec A A.ncols A P1 Q1 0 (UInv.init hA hP1 hQ1) (by omega)
  obtain ⟨M2, P2', Q2', r2, e2, I2, _⟩ := ugo_spec A A.ncols A P2 Q2 0 (UInv.init hA hP2 hQ2) (by omega)
  have k := ugo_indep A A.ncols A P1 Q1 P2 Q2 0 (UInv.init hA hP1 hQ1) (UInv.init hA hP2 hQ2)
    (fun t ht => by omega) (fun t ht => by omega)
  rw [e1, e2] at k
  obtain ⟨k1, k2, k3, k4⟩ := k
  simp only [] at k1 k2 k3 k4
  subst k1; subst k2
  rw [pluqNaive_unfold A P1 Q1 e1, pluqNaive_unfold A P2 Q2 e2]
  have eP := fill_congr (r := r1) (n := M1.nrows) (by rw [I1.psz, I1.nr]) (by rw [I2.psz, I1.nr]) k3
  have eQ := fill_congr (r := r1) (n := M1.ncols) (by rw [I1.qsz, I1.nc]) (by rw [I2.qsz, I1.nc]) k4
  rw [eP, eQ]

/-- **the checker accepts every output of `_mzd_pluq_naive`** -/
theorem checkPLUQ_pluqNaive {A : BMat} (hA : A.WF) {P Q : Array Nat} (hP : P.size = A.nrows)
    (hQ : Q.size = A.ncols) :
    checkPLUQ A (pluqNaive A P Q).1 (pluqNaive A P Q).2.1 (pluqNaive A P Q).2.2.1 (pluqNaive A P Q).2.2.2 = true :=
  checkPLUQ_complete (pluqNaive_isPLUQ hA hP hQ)

/-- hence the returned `r` is the rank -/
theorem pluqNaive_rank {A : BMat} (hA : A.WF) {P Q : Array Nat} (hP : P.size = A.nrows) (hQ : Q.size = A.ncols) :
    (pluqNaive A P Q).2.2.2 = A.rank := GOK.pluq_rank hA (checkPLUQ_pluqNaive hA hP hQ)

example : pluqNaive ⟨3, 4, #[10, 2, 8]⟩ #[7, 7, 7] #[9, 9, 9, 9] =
    (⟨3, 4, #[3, 3, 2]⟩, #[0, 1, 2], #[1, 3, 2, 3], 2) := by decide

/-! ### 9. C02: `mzd_echelonize_pluq` on top of a factorisation -/

theorem get_mk_range (m n : Nat) (f : Nat → Nat) (i j : Nat) :
    (⟨m, n, (Array.range m).map f⟩ : BMat).get i j = (decide (i < m) && (f i).testBit j) := by
  unfold get
  by_cases hi : i < m
  · rw [row_mk_range _ _ _ _ hi]; simp [hi]
  · rw [row_mk_range_ge _ _ _ _ (by omega)]; simp [hi]

theorem row_eq_of_get {A B : BMat} (hA : A.WF) (hB : B.WF) (hc : A.ncols = B.ncols) (i k : Nat)
    (h : ∀ j, j < A.ncols → A.get i j = B.get k j) : A.row i = B.row k := by
  apply Nat.eq_of_testBit_eq
  intro j
  by_cases hj : j < A.ncols
  · exact h j hj
  · have h1 := get_of_ge_ncols hA i j (by omega)
    have h2 := get_of_ge_ncols hB k j (by omega)
    unfold get at h1 h2
    rw [h1, h2]

/-- the rows of a product lie in the row space of the right factor -/
theorem mul_row_inSpan (X : BMat) {Y : BMat} (hY : Y.WF) (i : Nat) : InSpan Y.rowList ((X.mul Y).row i) := by
  have key : ∀ (a n : Nat), InSpan Y.rowList (comb a Y.rows n) := by
    intro a n
    induction n with
    | zero => exact InSpan.zero
    | succ n ih =>
      unfold comb at ih ⊢
      rw [List.range_succ, List.foldl_append]
      simp only [List.foldl_cons, List.foldl_nil]
      split
      · apply ih.xor
        by_cases hn : n < Y.nrows
        · exact row_inSpan Y n hn
        · have : Y.rows.getD n 0 = 0 := row_of_ge Y n (by rw [hY.1]; omega)
          rw [this]; exact InSpan.zero
      · exact ih
  unfold mul
  by_cases hi : i < X.nrows
  · rw [row_mk_range _ _ _ _ hi]; exact key _ _
  · rw [row_mk_range_ge _ _ _ _ (by omega)]; exact InSpan.zero

theorem sameSpan_of_mul {X Y G H : BMat} (hX : X.WF) (hY : Y.WF) (h1 : X = G.mul Y) (h2 : Y = H.mul X) :
    SameSpan X Y := by
  apply sameSpan_of_rows
  · intro i _; rw [h1]; exact mul_row_inSpan G hY i
  · intro i _; rw [h2]; exact mul_row_inSpan H hX i

/-- a row permutation does not change the row space -/
theorem sameSpan_applyPLeft {A : BMat} {P : Array Nat} (hA : A.WF) (hPs : P.size = A.nrows)
    (hP : ∀ i, i < A.nrows → P.getD i 0 < A.nrows) : SameSpan A (A.applyPLeft P) := by
  obtain ⟨pσ, hget, hWF, _⟩ := applyPLeft_eq_perm hA hPs hP
  have sh := applyPLeft_shape A P
  apply sameSpan_of_rows
  · intro i hi
    have e : A.row i = (A.applyPLeft P).row (rowPermInv P A.nrows i) :=
      row_eq_of_get hA hWF sh.2.1.symm _ _ (fun j _ => by rw [hget, (pσ.2.1 i).1])
    rw [e]
    exact row_inSpan _ _ (by rw [sh.1]; exact (pσ.1 i hi).2)
  · intro i hi
    rw [sh.1] at hi
    have e : (A.applyPLeft P).row i = A.row (rowPerm P A.nrows i) :=
      row_eq_of_get hWF hA sh.2.1 _ _ (fun j _ => hget i j)
    rw [e]
    exact row_inSpan _ _ (pσ.1 i hi).1

/-- `T` (`r` rows) and `R` (the same rows followed by zero rows) span the same space -/
theorem sameSpan_pad {T R : BMat} {r : Nat} (hT : T.nrows = r) (hr : r ≤ R.nrows)
    (h1 : ∀ i, i < r → R.row i = T.row i) (h2 : ∀ i, r ≤ i → R.row i = 0) : SameSpan T R := by
  apply sameSpan_of_rows
  · intro i hi
    rw [← h1 i (by omega)]
    exact row_inSpan R i (by omega)
  · intro i hi
    by_cases c : i < r
    · rw [h1 i c]; exact row_inSpan T i (by omega)
    · rw [h2 i (by omega)]; exact InSpan.zero

/-- `Pᵀ A = L·E` with `L` left-invertible: `A` and `E` have the same row space -/
theorem sameSpan_of_LE {A L E Lp : BMat} {P : Array Nat} (hA : A.WF) (hPs : P.size = A.nrows)
    (hP : ∀ i, i < A.nrows → P.getD i 0 < A.nrows) (hL : L.WF) (hE : E.WF)
    (hinv : Lp.mul L = identity E.nrows) (h : A.applyPLeft P = L.mul E) : SameSpan A E := by
  obtain ⟨_, _, hWF, _⟩ := applyPLeft_eq_perm hA hPs hP
  refine (sameSpan_applyPLeft hA hPs hP).trans (sameSpan_of_mul (G := L) (H := Lp) hWF hE h ?_)
  rw [h, ← mul_assoc Lp hL hE, hinv, identity_mul hE]

/-- what `checkEchelon` needs -/
theorem checkEchelon_complete {A R : BMat} (hA : A.WF) (hR : R.WF) {r : Nat} {full : Bool}
    (hr : R.nrows = A.nrows) (hc : R.ncols = A.ncols) (hrank : r = A.rank) (hz : ∀ i, r ≤ i → R.row i = 0)
    (hs : SameSpan A R) (hech : if full then R.isRREF = true else R.isRowEchelon = true) :
    checkEchelon A R r full = true := by
  unfold checkEchelon
  simp only [Bool.and_eq_true, decide_eq_true_iff, beq_iff_eq, List.all_eq_true]
  refine ⟨⟨⟨⟨hr, hc⟩, hrank⟩, ?_⟩, fun i hi => by rw [hz i (List.mem_range'_1.mp hi).1]; exact Nat.zero_mod _⟩
  cases full with
  | true =>
    simp only [if_true] at hech ⊢
    rw [eq_rref_of_isRREF hA hR hr hc hech hs]
    exact (eqM_iff (rref_WF hA) (rref_WF hA)).mpr rfl
  | false =>
    simp only [Bool.false_eq_true, if_false, Bool.and_eq_true] at hech ⊢
    exact ⟨hech, (sameRowSpace_iff hA hR hc.symm).mpr hs⟩

/-- rows `t < r` with leading ones, each later row zero up to the lead of an earlier one, zero rows after:
    row echelon form -/
theorem isRowEchelon_of_leads {R : BMat} (hR : R.WF) {r : Nat} (q : Nat → Nat)
    (hlead : ∀ t, t < r → IsLead (R.row t) (q t))
    (hlow : ∀ s t c, s < t → t < r → c ≤ q s → R.get t c = false)
    (hz : ∀ i, r ≤ i → R.row i = 0) : R.isRowEchelon = true := by
  rw [isRowEchelon_iff_rows hR]
  intro i j hij hj
  by_cases hi : i < r
  · refine ⟨fun h0 => absurd h0 (hlead i hi).ne_zero, fun c hc k hk => ?_⟩
    have : c = q i := hc.unique (hlead i hi)
    subst this
    by_cases hjr : j < r
    · exact hlow i j k hij hjr hk
    · rw [hz j (by omega)]; exact Nat.zero_testBit _
  · rw [hz i (by omega), hz j (by omega)]
    exact ⟨fun _ => rfl, fun c hc => absurd hc (not_isLead_zero c)⟩

/-- **C02, `mzd_echelonize_pluq(A, 0)`**: if the factorisation routine returns a PLE certificate (`IsPLE`, what
    `checkPLE` accepts) with well-formed storage, the result passes `checkEchelon A · · false`: a row echelon
    form of `A` with the same row space, `r = rank A`, zero rows from `r` on. -/
theorem echelonizePluq_ple {fact : BMat → BMat × Array Nat × Array Nat × Nat} {A : BMat} (hA : A.WF)
    (hS : (fact A).1.WF) (h : IsPLE A (fact A).1 (fact A).2.1 (fact A).2.2.1 (fact A).2.2.2) :
    (echelonizePluq fact A false).1.WF ∧
    checkEchelon A (echelonizePluq fact A false).1 (echelonizePluq fact A false).2 false = true := by
  unfold echelonizePluq
  simp only [Bool.false_eq_true, if_false]
  generalize fact A = o at hS h
  obtain ⟨S, P, Q, r⟩ := o
  simp only [] at hS h ⊢
  have hrm : r ≤ S.nrows := by rw [h.nrows_eq]; exact h.r_le_nrows
  -- entries of the result
  have hg : ∀ i j, (zeroFrom (topPle S Q r) r).get i j =
      (decide (i < r) && ((decide (i + 1 ≤ j) && S.get i j) || decide (j = Q.getD i 0))) := by
    intro i j
    unfold zeroFrom topPle
    rw [get_mk_range]
    by_cases hi : i < r
    · rw [if_pos hi, row_mk_range _ _ _ _ (by omega), if_pos hi, Nat.testBit_or, testBit_shift_back,
        Nat.one_shiftLeft, Nat.testBit_two_pow, decide_eq_true (by omega : i < S.nrows), decide_eq_true hi]
      have : decide (Q.getD i 0 = j) = decide (j = Q.getD i 0) := decide_eq_decide.mpr ⟨Eq.symm, Eq.symm⟩
      rw [this]; rfl
    · rw [if_neg hi, decide_eq_false hi]; simp
  generalize hRdef : zeroFrom (topPle S Q r) r = R at hg
  have hRr : R.nrows = S.nrows := by rw [← hRdef]; rfl
  have hRc : R.ncols = S.ncols := by rw [← hRdef]; rfl
  have hRs : R.rows.size = R.nrows := by rw [← hRdef]; simp [zeroFrom]
  have hQ : ∀ i, i < r → Q.getD i 0 < S.ncols := fun i hi => by rw [h.ncols_eq]; exact (h.pivot_range i hi).2
  -- the result in terms of the echelon factor
  have hgE : ∀ i j, j < S.ncols → R.get i j = (echelonFactor S Q r).get i j := by
    intro i j hj
    rw [hg, echelonFactor_get]
    by_cases hi : i < r
    · rw [decide_eq_true hi, decide_eq_true hj]
      simp only [Bool.true_and]
      by_cases c1 : Q.getD i 0 < j
      · rw [decide_eq_true c1, decide_eq_true (by have := (h.pivot_range i hi).1; omega : i + 1 ≤ j)]
      · rw [decide_eq_false c1]
        by_cases c2 : i + 1 ≤ j
        · rw [h.gap i j hi (by omega) (by omega)]; simp
        · rw [decide_eq_false c2]
    · rw [decide_eq_false hi]; simp
  have hRWF : R.WF := by
    apply WF_of_get hRs
    intro i j hj
    rw [hRc] at hj
    rw [hg]
    by_cases hi : i < r
    · have := hQ i hi
      rw [get_of_ge_ncols hS i j hj, decide_eq_false (by omega : ¬ j = Q.getD i 0)]; simp
    · rw [decide_eq_false hi]; simp
  have hEWF := echelonFactor_WF S Q r hQ
  have hrow : ∀ i, i < r → R.row i = (echelonFactor S Q r).row i := fun i _ =>
    row_eq_of_get hRWF hEWF (by rw [hRc]; rfl) i i (fun j hj => hgE i j (by rw [← hRc]; exact hj))
  have hz : ∀ i, r ≤ i → R.row i = 0 := by
    intro i hi
    apply Nat.eq_of_testBit_eq
    intro j
    have := hg i j
    unfold get at this
    rw [this, decide_eq_false (by omega : ¬ i < r)]; simp
  refine ⟨hRWF, ?_⟩
  apply checkEchelon_complete hA hRWF (hRr.trans h.nrows_eq) (hRc.trans h.ncols_eq)
    (GOK.ple_rank_profile hA (checkPLE_complete h)).1 hz
  · -- same row space
    obtain ⟨Lp, hLp, _, _, hinv⟩ := lowerFactor_leftInv S r hrm
    obtain ⟨_, hget, hWF, _⟩ := applyPLeft_eq_perm hA h.P_size (fun i hi => (h.P_lapack i hi).2)
    have sh := applyPLeft_shape A P
    have hprod : A.applyPLeft P = (lowerFactor S r).mul (echelonFactor S Q r) := by
      apply ext_get hWF (mul_WF _ hEWF) (by rw [sh.1]; simp [h.nrows_eq]) (by rw [sh.2.1]; simp [h.ncols_eq])
      intro i j hi hj
      rw [sh.1] at hi; rw [sh.2.1] at hj
      rw [h.prod i j hi hj, mul_get _ _ _ _ (by simpa [h.nrows_eq] using hi)]
    exact (sameSpan_of_LE hA h.P_size (fun i hi => (h.P_lapack i hi).2) (lowerFactor_WF S r) hEWF
      (by simpa using hinv) hprod).trans
      (sameSpan_pad (by simp) (by rw [hRr]; exact hrm) hrow hz)
  · -- echelon form
    simp only [Bool.false_eq_true, if_false]
    apply isRowEchelon_of_leads hRWF (fun t => Q.getD t 0) ?_ ?_ hz
    · intro t ht
      have e : ∀ j, (R.row t).testBit j = R.get t j := fun j => rfl
      refine ⟨?_, fun j hj => ?_⟩
      · rw [e, hg, decide_eq_true ht]; simp
      · rw [e, hg, decide_eq_true ht, decide_eq_false (by omega : ¬ j = Q.getD t 0)]
        by_cases c : t + 1 ≤ j
        · rw [h.gap t j ht (by omega) (by omega)]; simp
        · rw [decide_eq_false c]; simp
    · intro s t c hst ht hc
      have := h.pivot_mono s t hst ht
      rw [hg, decide_eq_true ht, decide_eq_false (by omega : ¬ c = Q.getD t 0)]
      by_cases c2 : t + 1 ≤ c
      · rw [h.gap t c ht (by omega) (by omega)]; simp
      · rw [decide_eq_false c2]; simp

/-! #### the `full` branch -/

/-- rows `< r` are not touched by the transpositions `(k, Q[k])`, `r ≤ k ≤ Q[k]` -/
theorem rowPerm_low (Q : Array Nat) (r : Nat) : ∀ n, r ≤ n → (∀ k, r ≤ k → k < n → k ≤ Q.getD k 0) →
    ∀ t, t < r → rowPerm Q n t = rowPerm Q r t := by
  intro n
  induction n with
  | zero => intro h _ t ht; omega
  | succ n ih =>
    intro hrn hge t ht
    by_cases e : r = n + 1
    · rw [e]
    · show rowPerm Q n (swapIdx n (Q.getD n 0) t) = _
      have := hge n (by omega) (by omega)
      have e2 : swapIdx n (Q.getD n 0) t = t := by unfold swapIdx; rw [if_neg (by omega), if_neg (by omega)]
      rw [e2]
      exact ih (by omega) (fun k h1 h2 => hge k h1 (by omega)) t ht

/-- the column swaps `(i, Q[i])`, `i = k-1, …, 0`, in the rows `< r` -/
theorem applyPRightRows_fold (Q : Array Nat) (r : Nat) : ∀ (k : Nat) (T : BMat),
    SameShape T ((List.range k).reverse.foldl (fun M i => M.swapColsInRows i (Q.getD i 0) 0 r) T) ∧
    ∀ i c, ((List.range k).reverse.foldl (fun M i => M.swapColsInRows i (Q.getD i 0) 0 r) T).get i c =
      if i < r then T.get i (rowPermInv Q k c) else T.get i c := by
  intro k
  induction k with
  | zero => intro T; exact ⟨SameShape.refl T, fun i c => by simp [rowPermInv]⟩
  | succ k ih =>
    intro T
    rw [List.range_succ, List.reverse_append]
    simp only [List.reverse_cons, List.reverse_nil, List.nil_append, List.singleton_append, List.foldl_cons]
    obtain ⟨sh, hg⟩ := ih (T.swapColsInRows k (Q.getD k 0) 0 r)
    refine ⟨(swapColsInRows_shape _ _ _ _ _).trans sh, fun i c => ?_⟩
    rw [hg, swapColsInRows_get, swapColsInRows_get]
    by_cases hi : i < r
    · rw [if_pos hi, if_pos ⟨Nat.zero_le _, hi⟩, if_pos hi]; rfl
    · rw [if_neg hi, if_neg (fun hh => hi hh.2), if_neg hi]

theorem applyPRightRows_get (T : BMat) (Q : Array Nat) (r : Nat) (hQ : Q.size = T.ncols) :
    SameShape T (applyPRightRows T Q r) ∧
    ∀ i c, (applyPRightRows T Q r).get i c = if i < r then T.get i (rowPermInv Q T.ncols c) else T.get i c := by
  unfold applyPRightRows
  rw [hQ, Nat.min_self]
  exact applyPRightRows_fold Q r T.ncols T

/-- a PLUQ certificate that reveals the column rank profile: the pivot columns `Q[0..r)` increase and `U`,
    with its columns moved back to where they were in `A`, is in row echelon form.  `_mzd_pluq_naive` returns
    such certificates (`pluqNaive_profile`); `mzd_pluq` derives its certificate from a PLE decomposition by
    moving the pivot columns to the front, which is where the property comes from (not proved here). -/
structure IsProfilePLUQ (A S : BMat) (P Q : Array Nat) (r : Nat) : Prop where
  pluq : IsPLUQ A S P Q r
  mono : ∀ s t, s < t → t < r → Q.getD s 0 < Q.getD t 0
  ech : ∀ t c, t < r → c < Q.getD t 0 → (upperFactor S r).get t (rowPermInv Q A.ncols c) = false

section full
variable {A S R U1 : BMat} {P Q : Array Nat} {r : Nat} {g : Nat → Nat → Bool}
  (hA : A.WF) (h : IsPLUQ A S P Q r) (hR : R.WF) (hRr : R.nrows = A.nrows) (hRc : R.ncols = A.ncols)
  (hU1 : U1.WF) (hU1r : U1.nrows = r) (hU1c : U1.ncols = r)
  (hfac : ∀ t k, t < r → k < A.ncols → xsum r (fun s => U1.get t s && g s k) = (upperFactor S r).get t k)
  (hRg : ∀ t c, t < r → c < A.ncols → R.get t c = g t (rowPermInv Q A.ncols c))
  (hRz : ∀ i, r ≤ i → R.row i = 0)
include hA h hR hRr hRc hU1 hU1r hU1c hfac hRg hRz

/-- `A` and `R = ([g]·Qᵀ ; 0)` have the same row space when `U = U1·[g]` for an invertible `U1` -/
theorem full_sameSpan (hY : ∃ Y : BMat, Y.WF ∧ Y.mul U1 = identity r) : SameSpan A R := by
  obtain ⟨Y, hYw, hYU⟩ := hY
  obtain ⟨pσ, pτ, hget, hApWF, _⟩ := applyP_eq_perm hA h.P_size (fun i hi => (h.P_lapack i hi).2) h.Q_size
    (fun i hi => (h.Q_lapack i hi).2)
  obtain ⟨_, hgetL, hWF, _⟩ := applyPLeft_eq_perm hA h.P_size (fun i hi => (h.P_lapack i hi).2)
  have sh := applyPLeft_shape A P
  obtain ⟨Uq, hUq⟩ : ∃ Uq : BMat, Uq = ofFn r A.ncols (fun t c => (upperFactor S r).get t (rowPermInv Q A.ncols c)) :=
    ⟨_, rfl⟩
  obtain ⟨Tq, hTq⟩ : ∃ Tq : BMat, Tq = ofFn r A.ncols (fun t c => g t (rowPermInv Q A.ncols c)) := ⟨_, rfl⟩
  have hUqW : Uq.WF := by rw [hUq]; exact WF_ofFn _ _ _
  have hTqW : Tq.WF := by rw [hTq]; exact WF_ofFn _ _ _
  have hUqr : Uq.nrows = r := by rw [hUq]; rfl
  have hTqr : Tq.nrows = r := by rw [hTq]; rfl
  have e1 : Uq = U1.mul Tq := by
    apply ext_get hUqW (mul_WF _ hTqW) (by rw [hUqr, mul_nrows, hU1r]) (by rw [hUq, hTq]; rfl)
    intro i j hi hj
    rw [hUqr] at hi
    have hj' : j < A.ncols := by rw [hUq] at hj; exact hj
    rw [mul_get _ _ _ _ (by omega), dotSpec_T, hU1c, hUq, get_ofFn _ _ _ _ _ hi hj',
      ← hfac i _ hi (pτ.1 j hj').2]
    apply xsum_congr
    intro s hs
    rw [hTq, get_ofFn _ _ _ _ _ hs hj']
  have e2 : Tq = Y.mul Uq := by
    rw [e1, ← mul_assoc Y hU1 hTqW, hYU, ← hTqr, identity_mul hTqW]
  have e3 : A.applyPLeft P = (lowerFactor S r).mul Uq := by
    apply ext_get hWF (mul_WF _ hUqW) (by rw [sh.1]; simp [h.nrows_eq]) (by rw [sh.2.1, hUq]; rfl)
    intro i j hi hj
    rw [sh.1] at hi; rw [sh.2.1] at hj
    have h1 := h.prod i _ hi (pτ.1 j hj).2
    rw [hget i _ hi, (pτ.2.1 j).1] at h1
    rw [hgetL, h1, mul_get _ _ _ _ (by simpa [h.nrows_eq] using hi), dotSpec_T, dotSpec_T]
    apply xsum_congr
    intro t ht
    simp only [lowerFactor_ncols] at ht
    rw [hUq, get_ofFn _ _ _ _ _ ht hj]
  obtain ⟨Lp, hLp, _, _, hinv⟩ := lowerFactor_leftInv S r (by rw [h.nrows_eq]; exact h.r_le_nrows)
  refine ((sameSpan_of_LE hA h.P_size (fun i hi => (h.P_lapack i hi).2) (lowerFactor_WF S r) hUqW
    (by rw [hUqr]; exact hinv) e3).trans (sameSpan_of_mul hUqW hTqW e1 e2)).trans
    (sameSpan_pad hTqr (by rw [hRr]; exact h.r_le_nrows) ?_ hRz)
  intro i hi
  apply row_eq_of_get hR hTqW (by rw [hRc, hTq]; rfl) i i
  intro j hj
  rw [hRc] at hj
  rw [hRg i j hi hj, hTq, get_ofFn _ _ _ _ _ hi hj]

omit hA hRr hRc hU1 hU1r hU1c in
/-- … and `R` is in reduced row echelon form when moreover `[g]` starts with the identity, `U1` is unit upper
    triangular and the certificate reveals the rank profile -/
theorem full_isRREF (hU1low : ∀ t s, s < t → U1.get t s = false) (hU1d : ∀ t, t < r → U1.get t t = true)
    (hgI : ∀ t k, t < r → k < r → g t k = decide (k = t))
    (hmono : ∀ s t, s < t → t < r → Q.getD s 0 < Q.getD t 0)
    (hech : ∀ t c, t < r → c < Q.getD t 0 → (upperFactor S r).get t (rowPermInv Q A.ncols c) = false) :
    R.isRREF = true := by
  have pτ := rowPerm_permOn Q A.ncols A.ncols (Nat.le_refl _) (fun i hi => (h.Q_lapack i hi).2)
  have hQlt : ∀ t, t < r → Q.getD t 0 < A.ncols := fun t ht => (h.Q_lapack t (by have := h.r_le_ncols; omega)).2
  have hQge : ∀ t, t < r → t ≤ Q.getD t 0 := fun t ht => (h.Q_lapack t (by have := h.r_le_ncols; omega)).1
  -- the pivot column `Q[t]` comes from position `t`
  have hτQ : ∀ t, t < r → rowPermInv Q A.ncols (Q.getD t 0) = t := by
    intro t ht
    have e : rowPerm Q A.ncols t = Q.getD t 0 := by
      rw [rowPerm_low Q r A.ncols h.r_le_ncols (fun k _ hk => (h.Q_lapack k hk).1) t ht]
      exact rowPerm_lt hQge hmono t ht
    rw [← e]; exact (pτ.2.1 t).2
  -- zeros left of the pivot
  have hzero : ∀ d t, t < r → r - t ≤ d → ∀ c, c < Q.getD t 0 → g t (rowPermInv Q A.ncols c) = false := by
    intro d
    induction d with
    | zero => intro t ht hd; omega
    | succ d ih =>
      intro t ht hd c hc
      have hk : rowPermInv Q A.ncols c < A.ncols := (pτ.1 c (by have := hQlt t ht; omega)).2
      have e := hfac t _ ht hk
      rw [hech t c ht hc, xsum_split3 r _ t ht] at e
      have z1 : xsum t (fun s => U1.get t s && g s (rowPermInv Q A.ncols c)) = false :=
        xsum_false (fun s hs => by rw [hU1low t s hs]; rfl)
      have z3 : xsum r (fun s => decide (t < s) && (U1.get t s && g s (rowPermInv Q A.ncols c))) = false := by
        apply xsum_false
        intro s hs
        by_cases c1 : t < s
        · rw [ih s hs (by omega) c (by have := hmono t s c1 hs; omega)]; simp
        · rw [decide_eq_false c1]; rfl
      rw [z1, z3, hU1d t ht] at e
      simpa using e
  have f1 : ∀ t, t < r → R.get t (Q.getD t 0) = true := by
    intro t ht
    rw [hRg t _ ht (hQlt t ht), hτQ t ht, hgI t t ht ht]; simp
  have f2 : ∀ t c, t < r → c < Q.getD t 0 → R.get t c = false := by
    intro t c ht hc
    rw [hRg t c ht (by have := hQlt t ht; omega)]
    exact hzero r t ht (by omega) c hc
  have f3 : ∀ i j, i < r → j < r → i ≠ j → R.get i (Q.getD j 0) = false := by
    intro i j hi hj hij
    rw [hRg i _ hi (hQlt j hj), hτQ j hj, hgI i j hi hj]
    simp; omega
  have hlead : ∀ t, t < r → IsLead (R.row t) (Q.getD t 0) := fun t ht => ⟨f1 t ht, fun j hj => f2 t j ht hj⟩
  rw [isRREF_iff_rows hR]
  intro i j hij hj
  by_cases hi : i < r
  · by_cases hjr : j < r
    · refine ⟨⟨fun h0 => absurd h0 (hlead i hi).ne_zero, fun c hc k hk => ?_⟩, fun c hc => ?_⟩
      · have : c = Q.getD i 0 := hc.unique (hlead i hi)
        subst this
        exact f2 j k hjr (by have := hmono i j hij hjr; omega)
      · have : c = Q.getD j 0 := hc.unique (hlead j hjr)
        subst this
        exact f3 i j hi hjr (by omega)
    · rw [hRz j (by omega)]
      exact ⟨⟨fun h0 => absurd h0 (hlead i hi).ne_zero, fun c _ k _ => Nat.zero_testBit _⟩,
        fun c hc => absurd hc (not_isLead_zero c)⟩
  · rw [hRz i (by omega), hRz j (by omega)]
    exact ⟨⟨fun _ => rfl, fun c hc => absurd hc (not_isLead_zero c)⟩, fun c hc => absurd hc (not_isLead_zero c)⟩

end full

/-- **C02, `mzd_echelonize_pluq(A, 1)`**: if the factorisation routine returns a PLUQ certificate that reveals
    the column rank profile (`IsProfilePLUQ`) with well-formed storage, the result passes
    `checkEchelon A · · true`: it is THE reduced row echelon form of `A` and `r = rank A`. -/
theorem echelonizePluq_pluq {fact : BMat → BMat × Array Nat × Array Nat × Nat} {A : BMat} (hA : A.WF)
    (hS : (fact A).1.WF) (h : IsProfilePLUQ A (fact A).1 (fact A).2.1 (fact A).2.2.1 (fact A).2.2.2) :
    (echelonizePluq fact A true).1.WF ∧
    checkEchelon A (echelonizePluq fact A true).1 (echelonizePluq fact A true).2 true = true := by
  unfold echelonizePluq
  simp only [if_true]
  generalize fact A = o at hS h
  obtain ⟨S, P, Q, r⟩ := o
  simp only [] at hS h ⊢
  have hp := h.pluq
  have hrm : r ≤ S.nrows := by rw [hp.nrows_eq]; exact hp.r_le_nrows
  have hrn : r ≤ S.ncols := by rw [hp.ncols_eq]; exact hp.r_le_ncols
  -- the solved right block
  obtain ⟨X, hX⟩ : ∃ X : BMat, X = if r ≠ S.ncols then trsmUpperLeft (S.sub 0 0 r r) (S.sub 0 r r S.ncols)
    else S.sub 0 r r S.ncols := ⟨_, rfl⟩
  have hBW : (S.sub 0 r r S.ncols).WF := sub_WF _ _ _ _ _
  have hBr : (S.sub 0 r r S.ncols).nrows = r := by simp only [sub]; omega
  have hUr : (S.sub 0 0 r r).nrows = r := by simp only [sub]; omega
  have hUc : (S.sub 0 0 r r).ncols = r := by simp only [sub]; omega
  have hXW : X.WF := by
    rw [hX]; split
    · exact trsmUpperLeft_WF _ hBW
    · exact hBW
  have hXc : X.ncols = S.ncols - r := by
    rw [hX]; split
    · rw [trsmUpperLeft_ncols]; rfl
    · rfl
  obtain ⟨g, hg⟩ : ∃ g : Nat → Nat → Bool, g = fun t k => decide (k = t) || (decide (r ≤ k) && X.get t (k - r)) :=
    ⟨_, rfl⟩
  have hT0 : ∀ t k, t < r → (topFullPre S r).get t k = g t k := by
    intro t k ht
    unfold topFullPre
    simp only []
    rw [← hX, get_mk_range, decide_eq_true (by omega : t < S.nrows), if_pos ht, Nat.testBit_or, Nat.one_shiftLeft,
      Nat.testBit_two_pow, Nat.testBit_shiftLeft, hg]
    have : decide (t = k) = decide (k = t) := decide_eq_decide.mpr ⟨Eq.symm, Eq.symm⟩
    rw [this]; rfl
  obtain ⟨sh, htop⟩ := applyPRightRows_get (topFullPre S r) Q r (by rw [hp.Q_size, ← hp.ncols_eq]; rfl)
  have hT0c : (topFullPre S r).ncols = A.ncols := hp.ncols_eq
  rw [hT0c] at htop
  have hRget : ∀ i c, (zeroFrom (applyPRightRows (topFullPre S r) Q r) r).get i c =
      (decide (i < r) && g i (rowPermInv Q A.ncols c)) := by
    intro i c
    unfold zeroFrom
    rw [get_mk_range, sh.1]
    by_cases hi : i < r
    · rw [if_pos hi, decide_eq_true hi, decide_eq_true (show i < (topFullPre S r).nrows from Nat.lt_of_lt_of_le hi hrm)]
      show (true && (applyPRightRows (topFullPre S r) Q r).get i c) = _
      rw [htop, if_pos hi, hT0 _ _ hi]
    · rw [if_neg hi, decide_eq_false hi]; simp
  generalize hRdef : zeroFrom (applyPRightRows (topFullPre S r) Q r) r = R at hRget
  have hRr : R.nrows = A.nrows := by rw [← hRdef]; exact sh.1.trans hp.nrows_eq
  have hRc : R.ncols = A.ncols := by rw [← hRdef]; exact sh.2.1.trans hp.ncols_eq
  have hRs : R.rows.size = R.nrows := by rw [← hRdef]; simp [zeroFrom]
  have pτ := rowPerm_permOn Q A.ncols A.ncols (Nat.le_refl _) (fun i hi => (hp.Q_lapack i hi).2)
  have hRWF : R.WF := by
    apply WF_of_get hRs
    intro i j hj
    rw [hRc] at hj
    rw [hRget, (pτ.2.2 j hj).2]
    by_cases hi : i < r
    · rw [hg]
      simp only []
      rw [decide_eq_false (by have := hp.r_le_ncols; omega : ¬ j = i),
        get_of_ge_ncols hXW i (j - r) (by rw [hXc, hp.ncols_eq]; omega)]
      simp
    · rw [decide_eq_false hi]; simp
  have hRz : ∀ i, r ≤ i → R.row i = 0 := by
    intro i hi
    apply Nat.eq_of_testBit_eq
    intro j
    have := hRget i j
    unfold get at this
    rw [this, decide_eq_false (by omega : ¬ i < r)]; simp
  have hRg : ∀ t c, t < r → c < A.ncols → R.get t c = g t (rowPermInv Q A.ncols c) := by
    intro t c ht _
    rw [hRget, decide_eq_true ht]; rfl
  -- the unit upper triangular block and its inverse
  have hU1W : (unitUpper (S.sub 0 0 r r)).WF := unitUpper_WF _ (by rw [hUr, hUc])
  have hU1get : ∀ t s, t < r → (unitUpper (S.sub 0 0 r r)).get t s =
      (if t < s then decide (s < r) && S.get t s else decide (s = t)) := by
    intro t s ht
    rw [unitUpper_get, hUr, hUc, decide_eq_true ht, sub_get]
    simp only [Bool.true_and, Nat.sub_zero, Nat.zero_add]
    by_cases c : t < s
    · rw [if_pos c, if_pos c, decide_eq_true (by omega : t < min r S.nrows)]
      cases decide (s < r) <;> simp
    · rw [if_neg c, if_neg c]
  have hfac : ∀ t k, t < r → k < A.ncols →
      xsum r (fun s => (unitUpper (S.sub 0 0 r r)).get t s && g s k) = (upperFactor S r).get t k := by
    intro t k ht hk
    rw [upperFactor_get, decide_eq_true ht, hp.ncols_eq, decide_eq_true hk]
    simp only [Bool.true_and]
    by_cases hkr : k < r
    · rw [xsum_single k hkr (fun s hs hne => by
        rw [hg]; simp only []
        rw [decide_eq_false (by omega : ¬ k = s), decide_eq_false (by omega : ¬ r ≤ k)]; simp)]
      rw [hg]; simp only [decide_true, Bool.true_or, Bool.and_true]
      rw [hU1get t k ht]
      by_cases c : t < k
      · rw [if_pos c, decide_eq_true hkr, decide_eq_true (by omega : t ≤ k)]
      · rw [if_neg c]
        by_cases c2 : k = t
        · subst c2; rw [hp.diag k ht]; simp
        · rw [decide_eq_false c2, decide_eq_false (by omega : ¬ t ≤ k)]; rfl
    · have hne : r ≠ S.ncols := by rw [hp.ncols_eq]; omega
      rw [if_pos hne] at hX
      have e := trsmUpperLeft_spec_get (S.sub 0 0 r r) (S.sub 0 r r S.ncols) (by rw [hUr, hBr]) (by rw [hUc, hBr])
        hBW.1 t (k - r) (by rw [hBr]; exact ht)
      rw [dotSpec_T, unitUpper_ncols, hUc, ← hX, sub_get] at e
      have e' : xsum r (fun s => (unitUpper (S.sub 0 0 r r)).get t s && g s k) =
          xsum r (fun s => (unitUpper (S.sub 0 0 r r)).get t s && X.get s (k - r)) := by
        apply xsum_congr
        intro s hs
        rw [hg]; simp only []
        rw [decide_eq_false (by omega : ¬ k = s), decide_eq_true (by omega : r ≤ k)]; simp
      rw [e', e, decide_eq_true (by omega : t < min (r - 0) (S.nrows - 0)),
        decide_eq_true (by rw [hp.ncols_eq]; omega : k - r < S.ncols - r), decide_eq_true (by omega : t ≤ k)]
      simp only [Bool.true_and, Nat.zero_add]
      rw [show r + (k - r) = k by omega]
  have hY : ∃ Y : BMat, Y.WF ∧ Y.mul (unitUpper (S.sub 0 0 r r)) = identity r := by
    refine ⟨trsmUpperLeft (S.sub 0 0 r r) (identity r), trsmUpperLeft_WF _ (identity_WF r), ?_⟩
    have e := trsmUpperLeft_spec (U := S.sub 0 0 r r) (B := identity r) (by rw [hUr]; rfl) (by rw [hUc]; rfl)
      (identity_WF r)
    exact square_inv_comm hU1W (trsmUpperLeft_WF _ (identity_WF r)) (by rw [unitUpper_ncols, hUc])
      (by rw [trsmUpperLeft_nrows]; rfl) (by rw [trsmUpperLeft_ncols]; rfl) e
  refine ⟨hRWF, ?_⟩
  apply checkEchelon_complete hA hRWF hRr hRc (GOK.pluq_rank hA (checkPLUQ_complete hp)) hRz
  · exact full_sameSpan hA hp hRWF hRr hRc hU1W (by rw [unitUpper_nrows, hUr]) (by rw [unitUpper_ncols, hUc])
      hfac hRg hRz hY
  · simp only [if_true]
    apply full_isRREF hp hRWF hfac hRg hRz ?_ ?_ ?_ h.mono h.ech
    · intro t s hst
      by_cases ht : t < r
      · rw [hU1get t s ht, if_neg (by omega), decide_eq_false (by omega : ¬ s = t)]
      · rw [unitUpper_get, hUr, decide_eq_false ht]; rfl
    · intro t ht
      rw [hU1get t t ht, if_neg (by omega)]; simp
    · intro t k ht hk
      rw [hg]; simp only []
      rw [decide_eq_false (by omega : ¬ r ≤ k)]; simp

/-- the statement of the `full` branch with the bare PLUQ certificate (`IsPLUQ`, what `checkPLUQ` tests) as its
    hypothesis.  It is FALSE (`echelonizePluq_generic_full_false`): `checkPLUQ` does not ask the pivot columns to
    be the column rank profile, and `[I | U⁻¹B]·Q` is an echelon form only if they are.  The true statement is
    `echelonizePluq_pluq` (hypothesis `IsProfilePLUQ`). -/
def echelonizePluq_generic_full : Prop :=
  ∀ (fact : BMat → BMat × Array Nat × Array Nat × Nat) (A : BMat), A.WF → (fact A).1.WF →
    IsPLUQ A (fact A).1 (fact A).2.1 (fact A).2.2.1 (fact A).2.2.2 →
    checkEchelon A (echelonizePluq fact A true).1 (echelonizePluq fact A true).2 true = true

theorem wf22 (a b : Nat) (ha : a < 4) (hb : b < 4) : (⟨2, 2, #[a, b]⟩ : BMat).WF := by
  refine ⟨rfl, fun i => ?_⟩
  by_cases h : i < 2
  · have : i = 0 ∨ i = 1 := by omega
    rcases this with rfl | rfl
    · exact ha
    · exact hb
  · rw [row_of_ge _ _ (by simpa using h)]; exact Nat.two_pow_pos _

/-- counterexample: `A = (0 1; 1 0)` with the certificate `S = I`, `P = [0,1]`, `Q = [1,1]`, `r = 2`, which
    `checkPLUQ` accepts; `mzd_echelonize_pluq` would return `A` itself, which is not in echelon form -/
theorem echelonizePluq_generic_full_false : ¬ echelonizePluq_generic_full := by
  intro h
  have := h (fun _ => (⟨2, 2, #[1, 2]⟩, #[0, 1], #[1, 1], 2)) ⟨2, 2, #[2, 1]⟩ (wf22 2 1 (by omega) (by omega))
    (wf22 1 2 (by omega) (by omega)) (checkPLUQ_sound (by decide +kernel))
  revert this
  decide +kernel

/-! #### `_mzd_pluq_naive` reveals the column rank profile -/

theorem rowPermInv_congr (P P' : Array Nat) (k : Nat) (h : ∀ t, t < k → P.getD t 0 = P'.getD t 0) (i : Nat) :
    rowPermInv P k i = rowPermInv P' k i := by
  induction k with
  | zero => rfl
  | succ k ih =>
    show swapIdx k (P.getD k 0) (rowPermInv P k i) = swapIdx k (P'.getD k 0) (rowPermInv P' k i)
    rw [h k (by omega), ih (fun t ht => h t (by omega))]

theorem rowPermInv_tail (P : Array Nat) (r k : Nat) (hrk : r ≤ k) (h : ∀ t, r ≤ t → t < k → P.getD t 0 = t)
    (i : Nat) : rowPermInv P k i = rowPermInv P r i := by
  induction k with
  | zero => have : r = 0 := by omega
            subst this; rfl
  | succ k ih =>
    by_cases hr : r = k + 1
    · subst hr; rfl
    · show swapIdx k (P.getD k 0) (rowPermInv P k i) = rowPermInv P r i
      rw [h k (by omega) (by omega), swapIdx_self, ih (by omega) (fun t h1 h2 => h t h1 (by omega))]

/-- second part of the loop invariant of `_mzd_pluq_naive`: the pivot columns increase, the positions up to
    the last pivot column hold zero columns in the active rows, and every pivot row is zero in the positions
    that hold original columns left of its pivot (other than earlier pivot columns) -/
structure UInv2 (M : BMat) (Q : Array Nat) (p m : Nat) : Prop where
  qmono : ∀ s t, s < t → t < p → Q.getD s 0 < Q.getD t 0
  zcols : ∀ i k t, p ≤ i → i < m → p ≤ k → t < p → k ≤ Q.getD t 0 → M.get i k = false
  prof : ∀ t c, t < p → c < Q.getD t 0 → (∀ s, s < t → Q.getD s 0 ≠ c) → M.get t (rowPermInv Q p c) = false

theorem UInv2.init (M : BMat) (Q : Array Nat) (m : Nat) : UInv2 M Q 0 m :=
  ⟨fun s t _ ht => by omega, fun i k t _ _ _ ht => by omega, fun t c ht => by omega⟩

theorem UInv2.step {A M : BMat} {P Q : Array Nat} {p i0 j0 : Nat} (h : UInv A M P Q p) (h2 : UInv2 M Q p A.nrows)
    (hs : search M p p = some (i0, j0)) :
    UInv2 (stepU M p i0 j0) (Q.setIfInBounds p j0) (p + 1) A.nrows := by
  obtain ⟨s1, s2, s3, s4, s5, s6⟩ := search_some hs
  rw [h.nr] at s2 s6; rw [h.nc] at s4
  have hp : p < A.nrows := by omega
  have hpc : p < A.ncols := by omega
  obtain ⟨w1, w2, w3, w4⟩ := stepU_spec h.wf (p := p) (i := i0) (j := j0) (by rw [h.nr]; exact hp)
    (by rw [h.nr]; exact s2) (by rw [h.nc]; exact hpc) (by rw [h.nc]; exact s4)
  rw [h.nr] at w4
  have hQlt : ∀ t, t < p → (Q.setIfInBounds p j0).getD t 0 = Q.getD t 0 := by
    intro t ht; rw [getD_set, if_neg (by omega)]
  have hQp : (Q.setIfInBounds p j0).getD p 0 = j0 := by
    rw [getD_set, if_pos ⟨rfl, by rw [h.qsz]; omega⟩]
  obtain ⟨σlo, σhi, σlt, σp⟩ := swapIdx_facts s1 s2
  obtain ⟨τlo, τhi, τlt, τp⟩ := swapIdx_facts s3 s4
  generalize stepU M p i0 j0 = M2 at w1 w2 w3 w4 ⊢
  generalize Q.setIfInBounds p j0 = Q2 at hQlt hQp ⊢
  have g0 : ∀ l k, ¬ (p < l ∧ l < A.nrows ∧ p < k) → M2.get l k = M.get (swapIdx p i0 l) (swapIdx p j0 k) := by
    intro l k hh
    rw [w4]
    by_cases c : p < l ∧ l < A.nrows
    · rw [decide_eq_false (by omega : ¬ p < k)]; simp
    · rw [decide_eq_false c]; simp
  -- the new pivot column lies right of the old ones
  have hj0 : ∀ t, t < p → Q.getD t 0 < j0 := by
    intro t ht
    by_cases c : j0 ≤ Q.getD t 0
    · have := h2.zcols i0 j0 t s1 s2 s3 ht c
      rw [s5] at this; cases this
    · omega
  have hQ2le : ∀ t, t < p + 1 → Q2.getD t 0 ≤ j0 := by
    intro t ht
    by_cases c : t < p
    · rw [hQlt t c]; have := hj0 t c; omega
    · have : t = p := by omega
      subst this; rw [hQp]
  have qge : ∀ t, t < p → t ≤ Q.getD t 0 := fun t ht => (h.qrange t ht).1
  refine ⟨?_, ?_, ?_⟩
  · intro s t hst ht
    by_cases c : t < p
    · rw [hQlt t c, hQlt s (by omega)]; exact h2.qmono s t hst c
    · have : t = p := by omega
      subst this; rw [hQp, hQlt s hst]; exact hj0 s hst
  · intro i k t hi hi2 hk ht hkq
    have hkj : k ≤ j0 := Nat.le_trans hkq (hQ2le t ht)
    have hτk : p ≤ swapIdx p j0 k ∧ swapIdx p j0 k < j0 := by
      unfold swapIdx
      rw [if_neg (by omega)]
      split <;> omega
    have z1 := s6 (swapIdx p i0 i) (swapIdx p j0 k) (σhi i (by omega) hi2).1 (σhi i (by omega) hi2).2 hτk.1 hτk.2
    have z2 := s6 i0 (swapIdx p j0 k) s1 s2 hτk.1 hτk.2
    rw [w4, z1, z2]; simp
  · intro t c ht hc hne
    show M2.get t (swapIdx p (Q2.getD p 0) (rowPermInv Q2 p c)) = false
    rw [hQp, rowPermInv_congr Q2 Q p hQlt, g0 _ _ (by omega), swapIdx_invol]
    by_cases c1 : t < p
    · rw [σlo t c1]
      rw [hQlt t c1] at hc
      exact h2.prof t c c1 hc (fun s hs => by rw [← hQlt s (by omega)]; exact hne s hs)
    · have : t = p := by omega
      subst this
      rw [σp]
      rw [hQp] at hc
      have hne' : ∀ s, s < t → Q.getD s 0 ≠ c := fun s hs => by rw [← hQlt s hs]; exact hne s hs
      have pp := rowPerm_permOn Q A.ncols t h.p_le_c (fun s hs => (h.qrange s hs).2)
      have hk : t ≤ rowPermInv Q t c := by
        by_cases c2 : rowPermInv Q t c < t
        · have e := rowPerm_lt qge h2.qmono _ c2
          rw [(pp.2.1 c).1] at e
          exact absurd e.symm (hne' _ c2)
        · omega
      by_cases c3 : ∃ s, s < t ∧ rowPermInv Q t c ≤ Q.getD s 0
      · obtain ⟨s, hs, hle⟩ := c3
        exact h2.zcols i0 _ s s1 s2 hk hs hle
      · have e := rowPerm_fix_above qge (rowPermInv Q t c) (fun s hs => by
          by_cases c4 : rowPermInv Q t c ≤ Q.getD s 0
          · exact absurd ⟨s, hs, c4⟩ c3
          · omega)
        rw [(pp.2.1 c).1] at e
        exact s6 i0 _ s1 s2 hk (by omega)

theorem ugo_spec2 (A : BMat) : ∀ (fuel : Nat) (M : BMat) (P Q : Array Nat) (p : Nat), UInv A M P Q p →
    UInv2 M Q p A.nrows → A.ncols ≤ fuel + p →
    ∃ (M' : BMat) (P' Q' : Array Nat) (r : Nat), pluqNaive.go fuel M P Q p = (M', P', Q', r) ∧
      UInv A M' P' Q' r ∧ UInv2 M' Q' r A.nrows ∧ ∀ i j, r ≤ i → i < A.nrows → r ≤ j → M'.get i j = false := by
  intro fuel
  induction fuel with
  | zero =>
    intro M P Q p h h2 hf
    refine ⟨M, P, Q, p, rfl, h, h2, fun i j h1 h2 h3 => ?_⟩
    exact get_of_ge_ncols h.wf _ _ (by rw [h.nc]; omega)
  | succ fuel ih =>
    intro M P Q p h h2 hf
    rw [ugo_succ]
    by_cases hc : p ≥ M.ncols
    · rw [if_pos hc]
      refine ⟨M, P, Q, p, rfl, h, h2, fun i j h1 h2 h3 => ?_⟩
      exact get_of_ge_ncols h.wf _ _ (by omega)
    · rw [if_neg hc]
      cases hs : search M p p with
      | none =>
        refine ⟨M, P, Q, p, rfl, h, h2, fun i j h1 h2 h3 => ?_⟩
        by_cases hj : j < M.ncols
        · exact search_none hs i j h1 (by rw [h.nr]; exact h2) h3 hj
        · exact get_of_ge_ncols h.wf _ _ (by omega)
      | some q =>
        obtain ⟨i0, j0⟩ := q
        exact ih _ _ _ _ (h.step hs) (h2.step h hs) (by omega)

/-- **`_mzd_pluq_naive` returns a rank-profile revealing certificate** -/
theorem pluqNaive_profile {A : BMat} (hA : A.WF) {P Q : Array Nat} (hP : P.size = A.nrows) (hQ : Q.size = A.ncols) :
    IsProfilePLUQ A (pluqNaive A P Q).1 (pluqNaive A P Q).2.1 (pluqNaive A P Q).2.2.1 (pluqNaive A P Q).2.2.2 := by
  obtain ⟨W, P', Q', r, e, hI, hI2, hd⟩ :=
    ugo_spec2 A A.ncols A P Q 0 (UInv.init hA hP hQ) (UInv2.init _ _ _) (by omega)
  rw [pluqNaive_unfold A P Q e]
  obtain ⟨a, _, hQt⟩ := ufinish hA hI hd
  simp only [] at a hQt ⊢
  obtain ⟨qs, qg⟩ := fill_spec (W.ncols - r) r Q'
  have hQf : ∀ t, t < r → ((List.range' r (W.ncols - r)).foldl (fun Q i => Q.setIfInBounds i i) Q').getD t 0 =
      Q'.getD t 0 := fun t ht => by rw [qg, if_neg (by omega)]
  generalize (List.range' r (W.ncols - r)).foldl (fun Q i => Q.setIfInBounds i i) Q' = Qf at a hQt hQf ⊢
  refine ⟨a, fun s t hst ht => by rw [hQf t ht, hQf s (by omega)]; exact hI2.qmono s t hst ht, ?_⟩
  intro t c ht hc
  rw [hQf t ht] at hc
  rw [rowPermInv_tail Qf r A.ncols hI.p_le_c (fun k h1 h2 => hQt k h1 h2), rowPermInv_congr Qf Q' r hQf,
    upperFactor_get]
  have qge : ∀ t, t < r → t ≤ Q'.getD t 0 := fun t ht => (hI.qrange t ht).1
  have pp := rowPerm_permOn Q' A.ncols r hI.p_le_c (fun s hs => (hI.qrange s hs).2)
  by_cases c1 : ∃ s, s < t ∧ Q'.getD s 0 = c
  · obtain ⟨s, hs, e⟩ := c1
    have e2 : rowPermInv Q' r c = s := by
      rw [← e, ← rowPerm_lt qge hI2.qmono s (by omega)]; exact (pp.2.1 s).2
    rw [e2, decide_eq_false (by omega : ¬ t ≤ s)]; simp
  · rw [hI2.prof t c ht hc (fun s hs e => c1 ⟨s, hs, e⟩)]; simp

/-- **C02 on the naive factorisations**: `mzd_echelonize_pluq` built on `_mzd_pluq_naive` (`full`) resp.
    `_mzd_ple_naive` returns a well-formed matrix that `checkEchelon` accepts, for every well-formed `A` and
    whatever the permutations contain on entry. -/
theorem echelonizePluq_naive_full {A : BMat} (hA : A.WF) (p q : BMat → Array Nat)
    (hp : ∀ A, (p A).size = A.nrows) (hq : ∀ A, (q A).size = A.ncols) :
    (echelonizePluq (fun A => pluqNaive A (p A) (q A)) A true).1.WF ∧
    checkEchelon A (echelonizePluq (fun A => pluqNaive A (p A) (q A)) A true).1
      (echelonizePluq (fun A => pluqNaive A (p A) (q A)) A true).2 true = true :=
  echelonizePluq_pluq (fact := fun A => pluqNaive A (p A) (q A)) hA (pluqNaive_good hA (hp A) (hq A)).2.2.2
    (pluqNaive_profile hA (hp A) (hq A))

theorem echelonizePluq_naive_ple {A : BMat} (hA : A.WF) (p q : BMat → Array Nat)
    (hp : ∀ A, (p A).size = A.nrows) (hq : ∀ A, (q A).size = A.ncols) :
    (echelonizePluq (fun A => pleNaive A (p A) (q A)) A false).1.WF ∧
    checkEchelon A (echelonizePluq (fun A => pleNaive A (p A) (q A)) A false).1
      (echelonizePluq (fun A => pleNaive A (p A) (q A)) A false).2 false = true :=
  echelonizePluq_ple (fact := fun A => pleNaive A (p A) (q A)) hA (pleNaive_WF hA (hp A) (hq A))
    (pleNaive_isPLE hA (hp A) (hq A))

/-- what acceptance means (`checkEchelon_sound`): the `full` result IS `rref A`, and `r = rank A` -/
theorem echelonizePluq_naive_full_eq {A : BMat} (hA : A.WF) (p q : BMat → Array Nat)
    (hp : ∀ A, (p A).size = A.nrows) (hq : ∀ A, (q A).size = A.ncols) :
    echelonizePluq (fun A => pluqNaive A (p A) (q A)) A true = (A.rref, A.rank) := by
  obtain ⟨w, c⟩ := echelonizePluq_naive_full hA p q hp hq
  obtain ⟨_, _, e1, _, _, _, _, e2⟩ := checkEchelon_sound hA w _ true c
  exact Prod.ext (e2 rfl).2.1 e1

example : echelonizePluq (fun A => pluqNaive A (Array.replicate A.nrows 0) (Array.replicate A.ncols 0))
    ⟨3, 4, #[10, 2, 8]⟩ true = (⟨3, 4, #[2, 8, 0]⟩, 2) := by decide +kernel
example : echelonizePluq (fun A => pleNaive A (Array.replicate A.nrows 0) (Array.replicate A.ncols 0))
    ⟨3, 4, #[10, 2, 8]⟩ false = (⟨3, 4, #[10, 8, 0]⟩, 2) := by decide +kernel

end PN
end BMat
end M4ri
