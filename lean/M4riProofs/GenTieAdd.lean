/-
  Tie between the generated `Gen.C.mzdAdd` (m4ri/mzd.c `_mzd_add`, scalar configuration) / `Gen.C.mzdAddTop`
  (`mzd_add` for a supplied destination) and the hand-written model `Mzd.addInto`.

  The C function allows `C == A` and/or `C == B`.  The translator renders a read through an operand that is the same
  object as `C` as a read in the CURRENT memory of `C` (flags `v_C__same__A`, `v_C__same__B`), and `if (C == B) swap(A, B)`
  as an exchange of all components under `v__swap := v_C__same__B`.  The model takes three VALUES; for an aliased call
  the caller passes the same value twice.

  Main theorems
    `mzdAdd_eq`      all widths (`case 0`, the unrolled `case 1 .. 8`, `default:` through `mzd_combine_even`), all four
                     aliasing patterns; hypotheses `C.WF`, `A.width ≤ C.width`, and `A.width = B.width` when `C == B`
                     (the exchange makes the C code use `B->width`).  `A`, `B` need not be well-formed, the row counts
                     are unconstrained (both sides work on `min(min(A.nrows, B.nrows), C.nrows)` rows).  The memory
                     passed for an operand flagged "same as `C`" is arbitrary.
    `mzdAdd_eq_dims` the same under equal column counts (what the C callers guarantee)
    `mzdAddTop_eq`   `mzd_add(ret, left, right)`
    `mzdAdd_spec`, `mzdAdd_readBit`   entries of the resulting memory = GF(2) sum, excess bits and the memory outside
                     the matrix unchanged

  Proof structure.  `addCore` is a mirror of the generated text after the exchange, with the ten row loops named
  (`rowLoop`, `ceLoop`) and the unrolled bodies written as `lS (rowWords …)`; `mzdAdd_noswap` / `mzdAdd_swap` (generated
  text = mirror) hold by `rfl`.  `addRows_loop` is the one loop rule: with the invariant "rows `< k` are final, rows
  `≥ k` are original", a body that rewrites row `k` from row `k` of (current `C` | `A`) and (current `C` | `B`) gives
  the closed form `addRows`, which is `memOf (addIntoK C A B n)` (`addRows_memOf`).  For `default:` the current memory
  is `memOf` of the partial result, so `mzdCombineEven_eq` applies with the partial result in the place of an aliased
  operand (`ce_eq`).
-/
import M4ri.Gen.CFuns
import M4ri.Mzd
import M4riProofs.Basic
import M4riProofs.GenTieMem
import M4riProofs.GenTieDuff
import M4riProofs.GenTieMove
import M4riProofs.W.DataMove
namespace M4ri.GenTieAdd
open M4ri M4ri.Gen M4ri.GenTieMem M4ri.GenTieDuff M4ri.GenTieMove

/-! ### 0. mirror of the generated text -/

/-- `rowc[j] = rowa[j] ^ rowb[j]` on row `k` -/
def wS (mA mB : Mem) (sA sB : Bool) (k j : Int) (m : Mem) : Mem :=
  CLoop.upd2 m k (0 + j) ((if sA then m else mA) k (0 + j) ^^^ (if sB then m else mB) k (0 + j))

/-- `rowc[j] ^= (rowa[j] ^ rowb[j] ^ rowc[j]) & mask` on row `k` -/
def lS (mA mB : Mem) (sA sB : Bool) (mask : BitVec 64) (k j : Int) (m : Mem) : Mem :=
  CLoop.upd2 m k (0 + j) (m k (0 + j) ^^^
    ((((if sA then m else mA) k (0 + j) ^^^ (if sB then m else mB) k (0 + j)) ^^^ m k (0 + j)) &&& mask))

/-- the first `j` whole-word statements of an unrolled row body -/
def rowWords (mA mB : Mem) (sA sB : Bool) (k : Int) : Nat → Mem → Mem
  | 0, m => m
  | j + 1, m => wS mA mB sA sB k (j : Int) (rowWords mA mB sA sB k j m)

/-- the row loop of `case w' + 1:` -/
def rowLoop (nr : Int) (mA mB : Mem) (sA sB : Bool) (mask : BitVec 64) (w' : Nat) (m : Mem) : Mem :=
  (CLoop.loop nr.toNat (fun st : Mem × Int => decide (st.2 < nr))
    (fun st => (lS mA mB sA sB mask st.2 (w' : Int) (rowWords mA mB sA sB st.2 w' st.1), st.2 + 1)) (m, 0)).1

/-- the row loop of `default:` -/
def ceLoop (nr aw : Int) (mA mB : Mem) (sA sB : Bool) (mask : BitVec 64) (m : Mem) : Mem :=
  (CLoop.loop nr.toNat (fun st : Mem × Int => decide (st.2 < nr))
    (fun st => (Gen.C.mzdCombineEven st.2 0 st.2 0 st.2 0 st.1 aw (if sA then st.1 else mA)
      (if sB then st.1 else mB) mask, st.2 + 1)) (m, 0)).1

def sel9 (w : Int) : Int :=
  if w = 0 then 0 else if w = 1 then 1 else if w = 2 then 2 else if w = 3 then 3 else if w = 4 then 4 else
  if w = 5 then 5 else if w = 6 then 6 else if w = 7 then 7 else if w = 8 then 8 else 9

def nrI (an bn cn : Int) : Int :=
  if decide ((if decide (an < bn) then an else bn) < cn) then (if decide (an < bn) then an else bn) else cn

/-- `_mzd_add` after the exchange of `A` and `B` -/
def addCore (mC : Mem) (nr aw : Int) (mA mB : Mem) (sA sB : Bool) (mask : BitVec 64) : Mem :=
  let p := sel9 aw
  if decide (p ≤ 0) then mC else
  let m := if (decide (p ≤ 1) && decide (1 ≤ p)) then rowLoop nr mA mB sA sB mask 0 mC else mC
  let m := if (decide (p ≤ 2) && decide (2 ≤ p)) then rowLoop nr mA mB sA sB mask 1 m else m
  let m := if (decide (p ≤ 3) && decide (3 ≤ p)) then rowLoop nr mA mB sA sB mask 2 m else m
  let m := if (decide (p ≤ 4) && decide (4 ≤ p)) then rowLoop nr mA mB sA sB mask 3 m else m
  let m := if (decide (p ≤ 5) && decide (5 ≤ p)) then rowLoop nr mA mB sA sB mask 4 m else m
  let m := if (decide (p ≤ 6) && decide (6 ≤ p)) then rowLoop nr mA mB sA sB mask 5 m else m
  let m := if (decide (p ≤ 7) && decide (7 ≤ p)) then rowLoop nr mA mB sA sB mask 6 m else m
  let m := if (decide (p ≤ 8) && decide (8 ≤ p)) then rowLoop nr mA mB sA sB mask 7 m else m
  let m := if (decide (p ≤ 9) && decide (9 ≤ p)) then ceLoop nr aw mA mB sA sB mask m else m
  m

theorem mzdAdd_noswap (mC mA mB : Mem) (an bn cn aw bw : Int) (sA : Bool) (hb : BitVec 64) :
    Gen.C.mzdAdd mC an bn cn false aw bw mA mB sA hb = addCore mC (nrI an bn cn) aw mA mB sA false hb := rfl

theorem mzdAdd_swap (mC mA mB : Mem) (an bn cn aw bw : Int) (sA : Bool) (hb : BitVec 64) :
    Gen.C.mzdAdd mC an bn cn true aw bw mA mB sA hb = addCore mC (nrI an bn cn) bw mB mA true sA hb := rfl


/-! ### 1. closed forms at the memory level -/

/-- the word stored at position `z ≥ 0` of a row by `_mzd_add` of width `w` (old word `c`) -/
def addWord (c a b mask : Word) (w z : Int) : Word :=
  if z + 1 < w then a ^^^ b else if z + 1 = w then merge c (a ^^^ b) mask else c

/-- memory `m` with row `k` rewritten from row `k` of `a`, `b` -/
def rowAdd (m a b : Mem) (mask : BitVec 64) (w k : Int) : Mem :=
  fun r z => if r = k ∧ 0 ≤ z then addWord (m r z) (a r z) (b r z) mask w z else m r z

/-- memory `m` with the rows `0 .. n-1` rewritten from the same rows of `a`, `b` -/
def addRows (m a b : Mem) (mask : BitVec 64) (w : Int) (n : Nat) : Mem :=
  fun r z => if 0 ≤ r ∧ r < (n : Int) ∧ 0 ≤ z then addWord (m r z) (a r z) (b r z) mask w z else m r z

theorem addRows_zero (m a b : Mem) (mask : BitVec 64) (w : Int) : addRows m a b mask w 0 = m := by
  funext r z
  unfold addRows
  rw [if_neg (by omega)]

/-- row `k` is rewritten from row `k` of operands that agree on that row with `a`, `b` -/
theorem addRows_succ (m a b a' b' : Mem) (mask : BitVec 64) (w : Int) (k : Nat)
    (ha : ∀ z, a' (k : Int) z = a (k : Int) z) (hb : ∀ z, b' (k : Int) z = b (k : Int) z) :
    rowAdd (addRows m a b mask w k) a' b' mask w (k : Int) = addRows m a b mask w (k + 1) := by
  funext r z
  by_cases hr : r = (k : Int)
  · subst hr
    have hX : addRows m a b mask w k (k : Int) z = m (k : Int) z := by
      unfold addRows; rw [if_neg (by omega)]
    simp only [rowAdd]
    rw [hX, ha, hb]
    simp only [addRows, true_and]
    by_cases hz : 0 ≤ z
    · rw [if_pos (by omega), if_pos (by omega)]
    · rw [if_neg (by omega), if_neg (by omega)]
  · simp only [rowAdd]
    rw [if_neg (by omega)]
    simp only [addRows]
    by_cases h : 0 ≤ r ∧ r < (k : Int) ∧ 0 ≤ z
    · rw [if_pos h, if_pos (by omega)]
    · rw [if_neg h, if_neg (by omega)]

/-- the whole-word statements of an unrolled body -/
theorem rowWords_eq (mA mB : Mem) (sA sB : Bool) (k : Int) (j : Nat) (m : Mem) :
    rowWords mA mB sA sB k j m =
      setMem m (fun z => (if sA then m else mA) k z ^^^ (if sB then m else mB) k z) k 0 j := by
  induction j with
  | zero => exact (setMem_zero _ _ _ _).symm
  | succ n ih =>
    show wS mA mB sA sB k (n : Int) (rowWords mA mB sA sB k n m) = _
    rw [ih]
    unfold wS
    refine setMem_succ _ _ _ _ _ _ ?_
    have hS : ∀ src, setMem m src k 0 n k (0 + (n : Int)) = m k (0 + (n : Int)) := by
      intro src; unfold setMem; rw [if_neg (by omega)]
    cases sA <;> cases sB <;> simp only [Bool.false_eq_true, reduceIte, hS]

/-- an unrolled row body (`w' ` whole words and the masked last word) in closed form -/
theorem rowBody_eq (mA mB : Mem) (sA sB : Bool) (mask : BitVec 64) (k : Int) (w' : Nat) (m : Mem) :
    lS mA mB sA sB mask k (w' : Int) (rowWords mA mB sA sB k w' m) =
      rowAdd m (if sA then m else mA) (if sB then m else mB) mask ((w' : Int) + 1) k := by
  rw [rowWords_eq]
  have hS : ∀ src, setMem m src k 0 w' k (0 + (w' : Int)) = m k (0 + (w' : Int)) := by
    intro src; unfold setMem; rw [if_neg (by omega)]
  have hA : (if sA then setMem m (fun z => (if sA then m else mA) k z ^^^ (if sB then m else mB) k z) k 0 w'
      else mA) k (0 + (w' : Int)) = (if sA then m else mA) k (0 + (w' : Int)) := by
    cases sA <;> simp only [Bool.false_eq_true, reduceIte, hS]
  have hB : (if sB then setMem m (fun z => (if sA then m else mA) k z ^^^ (if sB then m else mB) k z) k 0 w'
      else mB) k (0 + (w' : Int)) = (if sB then m else mB) k (0 + (w' : Int)) := by
    cases sB <;> simp only [Bool.false_eq_true, reduceIte, hS]
  unfold lS
  rw [hS, hA, hB, xor_merge_r']
  generalize (if sA then m else mA) = a
  generalize (if sB then m else mB) = b
  funext r z
  simp only [upd2_apply, rowAdd, addWord, setMem]
  by_cases hr : r = k
  · subst hr
    by_cases hz : z = 0 + (w' : Int)
    · subst hz
      ifs_omega
    · repeat' split
      all_goals first | rfl | (exfalso; omega)
  · ifs_omega

/-- the row-loop rule of `_mzd_add`: every iteration rewrites row `k` of the current memory of `C` from row `k`
    of the operands, each of which is either a separate memory or the CURRENT memory of `C` -/
theorem addRows_loop (mC mA mB : Mem) (sA sB : Bool) (mask : BitVec 64) (w : Int) (n : Nat)
    {cond : Mem × Int → Bool} {body : Mem × Int → Mem × Int} {fuel : Nat} {res : Mem × Int}
    (hres : CLoop.loop fuel cond body (mC, 0) = res) (hf : n ≤ fuel)
    (hcond : ∀ st, cond st = decide (st.2 < (n : Int)))
    (hbody : ∀ k : Nat, k < n →
      body (addRows mC (if sA then mC else mA) (if sB then mC else mB) mask w k, (k : Int)) =
        (rowAdd (addRows mC (if sA then mC else mA) (if sB then mC else mB) mask w k)
          (if sA then addRows mC (if sA then mC else mA) (if sB then mC else mB) mask w k else mA)
          (if sB then addRows mC (if sA then mC else mA) (if sB then mC else mB) mask w k else mB)
          mask w (k : Int), (k : Int) + 1)) :
    res.1 = addRows mC (if sA then mC else mA) (if sB then mC else mB) mask w n := by
  have key := for_loop_eq hres n
    (fun k st => st.2 = (k : Int) ∧
      st.1 = addRows mC (if sA then mC else mA) (if sB then mC else mB) mask w k) hf
    ⟨rfl, (addRows_zero _ _ _ _ _).symm⟩ ?_ ?_
  · exact key.2
  · intro k st hk hP
    rw [hcond, hP.1]
    congr 1
    apply propext
    omega
  · intro k st hk hP
    obtain ⟨L, kk⟩ := st
    obtain ⟨k1, k2⟩ := hP
    dsimp only at k1 k2
    subst k1 k2
    rw [hbody k hk]
    refine ⟨by dsimp only; omega, ?_⟩
    dsimp only
    apply addRows_succ
    · intro z
      cases sA
      · simp only [Bool.false_eq_true, reduceIte]
      · simp only [reduceIte]
        unfold addRows; rw [if_neg (by omega)]
    · intro z
      cases sB
      · simp only [Bool.false_eq_true, reduceIte]
      · simp only [reduceIte]
        unfold addRows; rw [if_neg (by omega)]

theorem rowLoop_eq (n : Nat) (mA mB : Mem) (sA sB : Bool) (mask : BitVec 64) (w' : Nat) (mC : Mem) :
    rowLoop (n : Int) mA mB sA sB mask w' mC =
      addRows mC (if sA then mC else mA) (if sB then mC else mB) mask ((w' : Int) + 1) n := by
  unfold rowLoop
  generalize hres : CLoop.loop _ _ _ _ = res
  exact addRows_loop mC mA mB sA sB mask _ n hres (by omega) (fun _ => rfl)
    (fun k _ => by dsimp only; rw [rowBody_eq])


/-! ### 2. the closed form is the model -/

/-- `Mzd.addInto` on the first `n` rows (`Mzd.addInto C A B = addIntoK C A B (min (min A.nrows B.nrows) C.nrows)`) -/
def addIntoK (C A B : Mzd) (n : Nat) : Mzd :=
  C.withRows (C.rows.mapIdx fun i c =>
      if i < n then
        c.mapIdx fun j w =>
          if j + 1 < A.width then (A.row i).w j ^^^ (B.row i).w j
          else if j + 1 = A.width then merge w ((A.row i).w j ^^^ (B.row i).w j) C.hb else w
      else c)

theorem addInto_eq_K (C A B : Mzd) :
    Mzd.addInto C A B = addIntoK C A B (min (min A.nrows B.nrows) C.nrows) := rfl

theorem addIntoK_WF (C A B : Mzd) (n : Nat) (h : C.WF) : (addIntoK C A B n).WF := by
  unfold addIntoK
  apply Mzd.WF_withRows_mapIdx _ _ h
  intro i r; split <;> simp

theorem addIntoK_comm (C A B : Mzd) (n : Nat) (h : A.width = B.width) : addIntoK C A B n = addIntoK C B A n := by
  unfold addIntoK
  simp only [h, BitVec.xor_comm]

theorem addRows_memOf (C A B : Mzd) (hC : C.WF) (hw : A.width ≤ C.width) (n : Nat) (hn : n ≤ C.nrows) :
    addRows (memOf C) (memOf A) (memOf B) C.hb (A.width : Int) n = memOf (addIntoK C A B n) := by
  unfold addIntoK
  apply eq_memOf_mapIdx
  · intro i j hi
    rw [hC.1] at hi
    unfold addRows
    rw [memOf_nat, memOf_nat, memOf_nat]
    by_cases hin : i < n
    · rw [if_pos (by omega), if_pos hin, w_mapIdx_wf _ _ j C.width (hC.2 i hi)]
      · unfold addWord
        by_cases h1 : j + 1 < A.width
        · rw [if_pos (by omega), if_pos h1]
        · by_cases h2 : j + 1 = A.width
          · rw [if_neg (by omega), if_pos (by omega), if_neg h1, if_pos h2]
          · rw [if_neg (by omega), if_neg (by omega), if_neg h1, if_neg h2]
      · intro hj; rw [if_neg (by omega), if_neg (by omega)]
    · rw [if_neg (by omega), if_neg hin]
  · intro r z h
    rw [hC.1] at h
    unfold addRows
    rw [if_neg (by omega)]

/-- `mzd_combine_even(C, k, 0, A, k, 0, B, k, 0)` rewrites row `k` -/
theorem ce_eq (C A B : Mzd) (k : Nat) (hC : C.WF) (hk : k < C.nrows) (h1 : 1 ≤ A.width)
    (hw : A.width ≤ C.width) :
    Gen.C.mzdCombineEven (k : Int) 0 (k : Int) 0 (k : Int) 0 (memOf C) (A.width : Int) (memOf A) (memOf B) C.hb =
      rowAdd (memOf C) (memOf A) (memOf B) C.hb (A.width : Int) (k : Int) := by
  have h := mzdCombineEven_eq C A B k 0 k 0 k 0 hC hk (by omega) (by omega)
  refine Eq.trans h ?_
  funext r z
  rw [memOf_setRow _ _ _ (by rw [hC.1]; exact hk)]
  unfold rowAdd
  by_cases hr : r = (k : Int)
  · subst hr
    rw [if_pos rfl]
    by_cases hz : z < 0
    · rw [if_pos hz, if_neg (by omega), memOf_neg _ _ _ hz]
    · rw [if_neg hz, if_pos (by omega)]
      obtain ⟨j, ez⟩ : ∃ j : Nat, z = (j : Int) := ⟨z.toNat, by omega⟩
      subst ez
      rw [memOf_nat, memOf_nat, memOf_nat, Int.toNat_natCast]
      unfold Mzd.combineEvenWords
      rw [w_mapIdx_wf _ _ j C.width (hC.2 k hk)]
      · simp only [addWord, Nat.sub_zero, Nat.add_zero]
        by_cases h1 : j + 1 < A.width
        · rw [if_neg (by omega), if_neg (by omega), if_pos (by omega)]
        · by_cases h2 : j + 1 = A.width
          · rw [if_neg (by omega), if_pos (by omega), if_neg (by omega), if_pos (by omega)]
          · rw [if_pos (by omega), if_neg (by omega), if_neg (by omega)]
      · intro hj
        simp only [Nat.sub_zero, Nat.add_zero]
        rw [if_pos (by omega)]
  · rw [if_neg hr, if_neg (by omega)]


/-! ### 3. the switch -/

theorem nrI_nat (a b c : Nat) : nrI (a : Int) (b : Int) (c : Int) = ((min (min a b) c : Nat) : Int) := by
  unfold nrI
  simp only [decide_eq_true_eq]
  split <;> split <;> omega

set_option hygiene false in
/-- one of the eight unrolled cases: `hI : (A.width : Int) = w`, closed by `hrow` -/
macro "add_case" w':num : tactic =>
  `(tactic| (
    simp only [addCore, sel9, hI, Int.reduceEq, Int.reduceLE, reduceIte, decide_true, decide_false, Bool.and_true,
      Bool.and_false, Bool.false_and, Bool.true_and, Bool.false_eq_true, Bool.and_self]
    exact hrow $w' (by omega)))

/-- `_mzd_add` after the exchange: all widths, all aliasing patterns.  An operand flagged as "same as `C`" is read
    in the current memory of `C`; its own memory argument is irrelevant. -/
theorem addCore_eq (C A B : Mzd) (sA sB : Bool) (mA mB : Mem) (n : Nat) (hC : C.WF) (hn : n ≤ C.nrows)
    (hw : A.width ≤ C.width) (hsA : sA = true → A = C) (hsB : sB = true → B = C)
    (hmA : sA = false → mA = memOf A) (hmB : sB = false → mB = memOf B) :
    addCore (memOf C) (n : Int) (A.width : Int) mA mB sA sB C.hb = memOf (addIntoK C A B n) := by
  have hA : (if sA then memOf C else mA) = memOf A := by
    cases sA
    · simp only [Bool.false_eq_true, reduceIte]; exact hmA rfl
    · simp only [reduceIte]; rw [hsA rfl]
  have hB : (if sB then memOf C else mB) = memOf B := by
    cases sB
    · simp only [Bool.false_eq_true, reduceIte]; exact hmB rfl
    · simp only [reduceIte]; rw [hsB rfl]
  -- the unrolled loops
  have hrow : ∀ w' : Nat, w' + 1 = A.width →
      rowLoop (n : Int) mA mB sA sB C.hb w' (memOf C) = memOf (addIntoK C A B n) := by
    intro w' hw'
    rw [rowLoop_eq, hA, hB]
    have e : (w' : Int) + 1 = (A.width : Int) := by omega
    rw [e]
    exact addRows_memOf C A B hC hw n hn
  -- the `mzd_combine_even` loop
  have hce : 1 ≤ A.width →
      ceLoop (n : Int) (A.width : Int) mA mB sA sB C.hb (memOf C) = memOf (addIntoK C A B n) := by
    intro h1
    unfold ceLoop
    generalize hres : CLoop.loop _ _ _ _ = res
    have key := addRows_loop (memOf C) mA mB sA sB C.hb (A.width : Int) n hres (by omega) (fun _ => rfl) ?_
    · rw [key, hA, hB]
      exact addRows_memOf C A B hC hw n hn
    · intro k hk
      rw [hA, hB, addRows_memOf C A B hC hw k (by omega)]
      dsimp only
      have hK := addIntoK_WF C A B k hC
      congr 1
      cases sA <;> cases sB
      · simp only [Bool.false_eq_true, reduceIte]
        rw [hmA rfl, hmB rfl]
        exact ce_eq (addIntoK C A B k) A B k hK (show k < C.nrows by omega) h1 hw
      · simp only [Bool.false_eq_true, reduceIte]
        rw [hmA rfl]
        have e := hsB rfl
        subst e
        exact ce_eq (addIntoK B A B k) A (addIntoK B A B k) k hK (show k < B.nrows by omega) h1 hw
      · simp only [Bool.false_eq_true, reduceIte]
        rw [hmB rfl]
        have e := hsA rfl
        subst e
        exact ce_eq (addIntoK A A B k) (addIntoK A A B k) B k hK (show k < A.nrows by omega) h1 hw
      · simp only [reduceIte]
        have e := hsA rfl
        subst e
        have e := hsB rfl
        subst e
        exact ce_eq (addIntoK B B B k) (addIntoK B B B k) (addIntoK B B B k) k hK (show k < B.nrows by omega) h1 hw
  rcases Nat.lt_or_ge A.width 9 with h9 | h9
  · have hc : A.width = 0 ∨ A.width = 1 ∨ A.width = 2 ∨ A.width = 3 ∨ A.width = 4 ∨ A.width = 5 ∨ A.width = 6 ∨
        A.width = 7 ∨ A.width = 8 := by omega
    rcases hc with h | h | h | h | h | h | h | h | h
    · -- `case 0: return`
      have hI : (A.width : Int) = 0 := by omega
      simp only [addCore, sel9, hI, Int.reduceLE, reduceIte, decide_true]
      rw [← addRows_memOf C A B hC hw n hn, hI]
      funext r z
      unfold addRows addWord
      by_cases hc : 0 ≤ r ∧ r < (n : Int) ∧ 0 ≤ z
      · rw [if_pos hc, if_neg (by omega), if_neg (by omega)]
      · rw [if_neg hc]
    · have hI : (A.width : Int) = 1 := by omega
      add_case 0
    · have hI : (A.width : Int) = 2 := by omega
      add_case 1
    · have hI : (A.width : Int) = 3 := by omega
      add_case 2
    · have hI : (A.width : Int) = 4 := by omega
      add_case 3
    · have hI : (A.width : Int) = 5 := by omega
      add_case 4
    · have hI : (A.width : Int) = 6 := by omega
      add_case 5
    · have hI : (A.width : Int) = 7 := by omega
      add_case 6
    · have hI : (A.width : Int) = 8 := by omega
      add_case 7
  · -- `default:`
    have h0 : ¬ (A.width : Int) = 0 := by omega
    have h1 : ¬ (A.width : Int) = 1 := by omega
    have h2 : ¬ (A.width : Int) = 2 := by omega
    have h3 : ¬ (A.width : Int) = 3 := by omega
    have h4 : ¬ (A.width : Int) = 4 := by omega
    have h5 : ¬ (A.width : Int) = 5 := by omega
    have h6 : ¬ (A.width : Int) = 6 := by omega
    have h7 : ¬ (A.width : Int) = 7 := by omega
    have h8 : ¬ (A.width : Int) = 8 := by omega
    simp only [addCore, sel9, h0, h1, h2, h3, h4, h5, h6, h7, h8, Int.reduceLE, reduceIte, decide_true,
      decide_false, Bool.and_true, Bool.false_eq_true, Bool.and_self]
    exact hce (by omega)

/-! ### 4. main theorems -/

/-- **`_mzd_add(C, A, B)`**, all widths, with `C == A` and/or `C == B` allowed.  `sA`, `sB` are the translator's
    "same object as `C`" flags; `mA`, `mB` the memories of the operands as supplied by the caller, which matter only
    for an operand that is NOT the same object as `C`.  `A`, `B` need not be well-formed (they are only read, through
    total accessors on both sides); the row counts are unconstrained (both sides work on the minimum).
    `hwB`: when `C == B` the C code exchanges the operands and uses `B->width`, the model uses `A.width`. -/
theorem mzdAdd_eq (C A B : Mzd) (sA sB : Bool) (mA mB : Mem) (hC : C.WF)
    (hw : A.width ≤ C.width) (hwB : sB = true → A.width = B.width)
    (hsA : sA = true → A = C) (hsB : sB = true → B = C)
    (hmA : sA = false → mA = memOf A) (hmB : sB = false → mB = memOf B) :
    Gen.C.mzdAdd (memOf C) A.nrows B.nrows C.nrows sB A.width B.width mA mB sA C.hb =
      memOf (Mzd.addInto C A B) := by
  rw [addInto_eq_K]
  cases sB
  · rw [mzdAdd_noswap, nrI_nat]
    exact addCore_eq C A B sA false mA mB _ hC (by omega) hw hsA hsB hmA hmB
  · have e := hsB rfl
    subst e
    rw [mzdAdd_swap, nrI_nat, addIntoK_comm _ A B _ (hwB rfl)]
    exact addCore_eq B B A true sA mB mA _ hC (by omega) (Nat.le_refl _) (fun _ => rfl) hsA
      (fun h => nomatch h) hmA

/-- `_mzd_add` as its callers use it: equal dimensions -/
theorem mzdAdd_eq_dims (C A B : Mzd) (sA sB : Bool) (mA mB : Mem) (hC : C.WF)
    (hcA : A.ncols = C.ncols) (hcB : B.ncols = C.ncols)
    (hsA : sA = true → A = C) (hsB : sB = true → B = C)
    (hmA : sA = false → mA = memOf A) (hmB : sB = false → mB = memOf B) :
    Gen.C.mzdAdd (memOf C) A.nrows B.nrows C.nrows sB A.width B.width mA mB sA C.hb =
      memOf (Mzd.addInto C A B) :=
  mzdAdd_eq C A B sA sB mA mB hC (by unfold Mzd.width; rw [hcA]; exact Nat.le_refl _)
    (fun _ => by unfold Mzd.width; rw [hcA, hcB]) hsA hsB hmA hmB

/-- **`mzd_add(ret, left, right)`** for a supplied destination (the dimension checks of the C function — equal
    `nrows`, equal `ncols` of the three — are its domain; only the column counts are used) -/
theorem mzdAddTop_eq (ret left right : Mzd) (sL sR : Bool) (mL mR : Mem) (hC : ret.WF)
    (hcL : left.ncols = ret.ncols) (hcR : right.ncols = ret.ncols)
    (hsL : sL = true → left = ret) (hsR : sR = true → right = ret)
    (hmL : sL = false → mL = memOf left) (hmR : sR = false → mR = memOf right) :
    Gen.C.mzdAddTop (memOf ret) left.nrows right.nrows left.ncols right.ncols ret.nrows sR left.width right.width
        mL sL mR ret.hb =
      memOf (Mzd.addInto ret left right) := by
  unfold Gen.C.mzdAddTop
  exact mzdAdd_eq_dims ret left right sL sR _ _ hC hcL hcR hsL hsR
    (fun h => by subst h; simp only [Bool.false_eq_true, reduceIte]; exact hmL rfl)
    (fun h => by subst h; simp only [Bool.false_eq_true, reduceIte]; exact hmR rfl)


/-! ### 5. the abstract statement -/

/-- outside the matrix the memory image of a well-formed matrix reads 0 -/
theorem memOf_out (M : Mzd) (hM : M.WF) (r z : Int)
    (h : r < 0 ∨ (M.nrows : Int) ≤ r ∨ z < 0 ∨ (M.width : Int) ≤ z) : memOf M r z = 0 := by
  unfold memOf
  by_cases h0 : r < 0 ∨ z < 0
  · rw [if_pos h0]
  · rw [if_neg h0]
    by_cases hr : r.toNat < M.nrows
    · rw [Row.w_of_ge _ _ (by rw [hM.2 _ hr]; omega)]
    · rw [Mzd.row_of_ge _ _ (by rw [hM.1]; omega)]
      rfl

/-- **`_mzd_add` / `mzd_add`, abstractly** (equal dimensions, any aliasing pattern): in the memory left by the
    generated function, every entry `(i, j)` of the matrix is the GF(2) sum of the entries of `A` and `B` (for an aliased
    operand: of its value BEFORE the call); the excess bits of the last word of each row are those of `C` before the
    call; and the memory image outside the `nrows × width` block is unchanged. -/
theorem mzdAdd_spec (C A B : Mzd) (sA sB : Bool) (mA mB : Mem) (hC : C.WF)
    (hrA : A.nrows = C.nrows) (hrB : B.nrows = C.nrows) (hcA : A.ncols = C.ncols) (hcB : B.ncols = C.ncols)
    (hsA : sA = true → A = C) (hsB : sB = true → B = C)
    (hmA : sA = false → mA = memOf A) (hmB : sB = false → mB = memOf B) :
    (∀ i j : Nat, i < C.nrows → j < 64 * C.width →
      ((Gen.C.mzdAdd (memOf C) A.nrows B.nrows C.nrows sB A.width B.width mA mB sA C.hb)
          (i : Int) ((j / 64 : Nat) : Int)).getLsbD (j % 64) =
        if j < C.ncols then (A.bit i j != B.bit i j) else C.bit i j) ∧
    (∀ r z : Int, (r < 0 ∨ (C.nrows : Int) ≤ r ∨ z < 0 ∨ (C.width : Int) ≤ z) →
      (Gen.C.mzdAdd (memOf C) A.nrows B.nrows C.nrows sB A.width B.width mA mB sA C.hb) r z = memOf C r z) := by
  rw [mzdAdd_eq_dims C A B sA sB mA mB hC hcA hcB hsA hsB hmA hmB]
  refine ⟨?_, ?_⟩
  · intro i j hi hj
    rw [memOf_nat, ← Mzd.addInto_bit C A B hC hrA hrB hcA i j hi hj]
    rfl
  · intro r z h
    rw [memOf_out _ (Mzd.addInto_WF C A B hC) r z h, memOf_out C hC r z h]

/-- the same through the generated reader `mzd_read_bit` -/
theorem mzdAdd_readBit (C A B : Mzd) (sA sB : Bool) (mA mB : Mem) (hC : C.WF)
    (hrA : A.nrows = C.nrows) (hrB : B.nrows = C.nrows) (hcA : A.ncols = C.ncols) (hcB : B.ncols = C.ncols)
    (hsA : sA = true → A = C) (hsB : sB = true → B = C)
    (hmA : sA = false → mA = memOf A) (hmB : sB = false → mB = memOf B)
    (i j : Nat) (hi : i < C.nrows) (hj : j < C.ncols) :
    Gen.C.mzdReadBit i j (Gen.C.mzdAdd (memOf C) A.nrows B.nrows C.nrows sB A.width B.width mA mB sA C.hb) =
      if (A.bit i j != B.bit i j) then 1 else 0 := by
  rw [mzdAdd_eq_dims C A B sA sB mA mB hC hcA hcB hsA hsB hmA hmB, mzdReadBit_eq]
  have hj' : j < 64 * C.width := by unfold Mzd.width widthOf; omega
  unfold Mzd.readBit
  rw [Mzd.addInto_bit C A B hC hrA hrB hcA i j hi hj', if_pos hj]

#print axioms mzdAdd_noswap
#print axioms mzdAdd_swap
#print axioms mzdAdd_eq
#print axioms mzdAdd_eq_dims
#print axioms mzdAddTop_eq
#print axioms mzdAdd_spec
#print axioms mzdAdd_readBit

end M4ri.GenTieAdd
