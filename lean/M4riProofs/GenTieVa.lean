/-
  Tie of the generated `mzd_combine` (dispatch between `mzd_combine_even_in_place` and `mzd_combine_even`)
  and `_mzd_mul_va` (`M4ri/Gen/CFuns.lean`) with the word-level model (`Mzd.W.mulVaW`, `M4ri/MulW.lean`).

    `mzdCombine_inplace_eq`     C == A, same row, same block: the in-place kernel
    `mzdCombine_even_eq`        C != A: `mzd_combine_even` with the three operands
    `mzdCombine_even_alias_eq`  C == A but another row or block: `mzd_combine_even`, the operand `A` is `C`
    `mzdMulVa_eq`               generated `_mzd_mul_va` on `memOf C` = `memOf (mulVaW C v A clear)`
    `mzdMulVa_spec`             entries of the result memory: `(clear ? 0 : C[i,j]) ⊕ ⊕_t v[i,t] ∧ A[t,j]`
-/
import M4ri.Gen.CFuns
import M4ri.Mzd
import M4ri.MulW
import M4riProofs.Basic
import M4riProofs.GenTieMem
import M4riProofs.GenTieDuff
import M4riProofs.GenTieSolve
import M4riProofs.MulW
namespace M4ri.GenTieVa
open M4ri M4ri.Gen M4ri.GenTieMem M4ri.GenTieDuff M4ri.Mzd.W

abbrev Mem := Int → Int → BitVec 64

/-! ### 1. `mzd_combine` -/

/-- the C test `(C == A) & (a_row == c_row) & (a_startblock == c_startblock)` -/
theorem iand_test (f : Bool) (p q : Prop) [Decidable p] [Decidable q] :
    decide (CLoop.iand (CLoop.iand (if f then (1 : Int) else 0) (if decide p then (1 : Int) else 0))
      (if decide q then (1 : Int) else 0) ≠ (0 : Int)) = (f && decide p && decide q) := by
  cases f <;> by_cases hp : p <;> by_cases hq : q <;> simp [hp, hq] <;> decide

/-- **`mzd_combine`, `C == A`, same row and block**: `mzd_combine_even_in_place` -/
theorem mzdCombine_inplace_eq (C B : Mzd) (c_row c_startblock b_row b_startblock : Nat)
    (hwf : C.WF) (hc : c_row < C.nrows) (hsb : c_startblock < C.width) (aw : Int) (mA : Mem) :
    Gen.C.mzdCombine c_row c_startblock c_row c_startblock b_row b_startblock (memOf C) true C.width (memOf B)
        C.hb aw mA =
      memOf (C.setRow c_row (Mzd.combineEvenInPlaceWords (C.row c_row) (B.row b_row) c_startblock b_startblock
        C.width C.hb)) := by
  unfold Gen.C.mzdCombine
  rw [iand_test]
  dsimp (config := {etaStruct := .none}) only
  rw [if_pos (by simp)]
  exact mzdCombineEvenInPlace_eq C B c_row c_startblock b_row b_startblock hwf hc hsb

/-- **`mzd_combine`, `C != A`**: `mzd_combine_even` -/
theorem mzdCombine_even_eq (C A B : Mzd) (c_row c_startblock a_row a_startblock b_row b_startblock : Nat)
    (hwf : C.WF) (hc : c_row < C.nrows) (hsb : a_startblock < A.width)
    (hfit : c_startblock + (A.width - a_startblock) ≤ C.width) (cw : Int) :
    Gen.C.mzdCombine c_row c_startblock a_row a_startblock b_row b_startblock (memOf C) false cw (memOf B)
        C.hb A.width (memOf A) =
      memOf (C.setRow c_row (Mzd.combineEvenWords (C.row c_row) (A.row a_row) (B.row b_row) c_startblock
        a_startblock b_startblock A.width C.hb)) := by
  unfold Gen.C.mzdCombine
  rw [iand_test]
  dsimp (config := {etaStruct := .none}) only
  rw [if_neg (by simp)]
  exact mzdCombineEven_eq C A B c_row c_startblock a_row a_startblock b_row b_startblock hwf hc hsb hfit

/-- **`mzd_combine`, `C == A`, another row or block**: `mzd_combine_even` whose operand `A` is `C` itself -/
theorem mzdCombine_even_alias_eq (C B : Mzd) (c_row c_startblock a_row a_startblock b_row b_startblock : Nat)
    (hwf : C.WF) (hc : c_row < C.nrows) (hsb : a_startblock < C.width)
    (hfit : c_startblock + (C.width - a_startblock) ≤ C.width)
    (hne : a_row ≠ c_row ∨ a_startblock ≠ c_startblock) (cw : Int) (mA : Mem) :
    Gen.C.mzdCombine c_row c_startblock a_row a_startblock b_row b_startblock (memOf C) true cw (memOf B)
        C.hb C.width mA =
      memOf (C.setRow c_row (Mzd.combineEvenWords (C.row c_row) (C.row a_row) (B.row b_row) c_startblock
        a_startblock b_startblock C.width C.hb)) := by
  unfold Gen.C.mzdCombine
  rw [iand_test]
  dsimp (config := {etaStruct := .none}) only
  have h : ((true && decide ((a_row : Int) = (c_row : Int))) && decide ((a_startblock : Int) = (c_startblock : Int)))
      = false := by
    rcases hne with h | h
    · have : ¬ ((a_row : Int) = (c_row : Int)) := by omega
      simp [this]
    · have : ¬ ((a_startblock : Int) = (c_startblock : Int)) := by omega
      simp [this]
  rw [h, if_neg (by simp)]
  exact mzdCombineEven_eq C C B c_row c_startblock a_row a_startblock b_row b_startblock hwf hc hsb hfit

/-! ### 2. `_mzd_mul_va` -/

theorem setRow_setRow (M : Mzd) (i : Nat) (r r' : Row) : (M.setRow i r).setRow i r' = M.setRow i r' := by
  unfold Mzd.setRow Mzd.withRows
  simp

theorem setRow_row_self (M : Mzd) (i : Nat) : M.setRow i (M.row i) = M := by
  by_cases hi : i < M.rows.size
  · obtain ⟨nr, nc, rows⟩ := M
    unfold Mzd.setRow Mzd.withRows Mzd.row
    simp only [Mzd.mk.injEq, true_and]
    apply Array.ext_getElem?
    intro k
    rw [Array.getElem?_setIfInBounds]
    by_cases h : i = k
    · subst h
      have hi' : i < rows.size := hi
      simp [hi']
    · rw [if_neg h]
  · exact Mzd.setRow_of_ge _ _ _ hi

/-- the inner loop of `_mzd_mul_va` on the words of one destination row: the first `n` columns of `v` -/
def rowFold (v A : Mzd) (W : Nat) (mask : Word) (i : Nat) (c : Row) (n : Nat) : Row :=
  (List.range n).foldl (fun c j =>
    if v.readBit i j then Mzd.combineEvenInPlaceWords c (A.row j) 0 0 W mask else c) c

theorem rowFold_succ (v A : Mzd) (W : Nat) (mask : Word) (i : Nat) (c : Row) (n : Nat) :
    rowFold v A W mask i c (n + 1) =
      if v.readBit i n then Mzd.combineEvenInPlaceWords (rowFold v A W mask i c n) (A.row n) 0 0 W mask
      else rowFold v A W mask i c n := by
  unfold rowFold
  rw [List.range_succ, List.foldl_append]
  rfl

theorem rowFold_size (v A : Mzd) (W : Nat) (mask : Word) (i : Nat) (c : Row) (n : Nat) :
    (rowFold v A W mask i c n).size = c.size := by
  induction n with
  | zero => rfl
  | succ n ih =>
    rw [rowFold_succ]
    split
    · rw [Mzd.combineEvenInPlaceWords_size]; exact ih
    · exact ih

/-- the first `k` rows of the destination are done -/
def rowsDone (C v A : Mzd) (k : Nat) : Mzd :=
  C.withRows (C.rows.mapIdx fun i c => if i < k then rowFold v A C.width C.hb i c v.ncols else c)

theorem mulVaW_noclear_eq (C v A : Mzd) : mulVaW C v A false = rowsDone C v A v.nrows := rfl

theorem rowsDone_zero (C v A : Mzd) : rowsDone C v A 0 = C := by
  obtain ⟨nr, nc, rows⟩ := C
  unfold rowsDone Mzd.withRows
  simp only [Mzd.mk.injEq, true_and]
  apply Array.ext_getElem?
  intro k
  simp

theorem rowsDone_WF (C v A : Mzd) (k : Nat) (hC : C.WF) : (rowsDone C v A k).WF := by
  apply Mzd.WF_withRows_mapIdx _ _ hC
  intro i r
  split
  · exact rowFold_size _ _ _ _ _ _ _
  · rfl

theorem rowsDone_row (C v A : Mzd) (k i : Nat) (hi : i < C.rows.size) (hk : k ≤ i) :
    (rowsDone C v A k).row i = C.row i := by
  unfold rowsDone
  rw [Mzd.row_withRows_mapIdx_D _ _ _ hi, if_neg (by omega)]

theorem rowsDone_succ (C v A : Mzd) (k : Nat) (hk : k < C.rows.size) :
    (rowsDone C v A k).setRow k (rowFold v A C.width C.hb k (C.row k) v.ncols) = rowsDone C v A (k + 1) := by
  unfold rowsDone Mzd.setRow Mzd.withRows
  simp only [Mzd.mk.injEq, true_and]
  apply Array.ext_getElem?
  intro j
  rw [Array.getElem?_setIfInBounds, Array.getElem?_mapIdx, Array.getElem?_mapIdx, Array.size_mapIdx]
  by_cases hjk : k = j
  · subst hjk
    rw [if_pos rfl, if_pos hk, Mzd.row_eq_getElem _ _ hk]
    simp [hk]
  · rw [if_neg hjk]
    by_cases hj : j < C.rows.size
    · simp only [hj, getElem?_pos, Option.map_some]
      by_cases h3 : j < k
      · rw [if_pos h3, if_pos (by omega)]
      · rw [if_neg h3, if_neg (by omega)]
    · simp [hj]

/-- the inner loop: `for j < v->ncols: if (mzd_read_bit(v, i, j)) mzd_combine(C, i, 0, C, i, 0, A, j, 0)` -/
def innerStep (mv mA : Mem) (W : Int) (mask : BitVec 64) (n : Int) (fuelI : Nat) (i : Int) (m : Mem) : Mem :=
  (CLoop.loop fuelI (fun st : Mem × Int => decide (st.2 < n))
    (fun st : Mem × Int =>
      (if decide (Gen.C.mzdReadBit i st.2 mv ≠ (0 : Int)) then
          Gen.C.mzdCombine i (0 : Int) i (0 : Int) st.2 (0 : Int) st.1 true W mA mask W st.1
        else st.1, st.2 + 1)) (m, 0)).1

theorem innerStep_eq (X v A : Mzd) (i : Nat) (hX : X.WF) (hi : i < X.nrows) (hw : 0 < X.width)
    (fuelI : Nat) (hf : v.ncols ≤ fuelI) :
    innerStep (memOf v) (memOf A) X.width X.hb v.ncols fuelI i (memOf X) =
      memOf (X.setRow i (rowFold v A X.width X.hb i (X.row i) v.ncols)) := by
  unfold innerStep
  generalize hres : CLoop.loop _ _ _ _ = res
  have key := for_loop_eq hres v.ncols
    (fun k st => st = (memOf (X.setRow i (rowFold v A X.width X.hb i (X.row i) k)), (k : Int))) hf
    (by
      show (memOf X, (0 : Int)) = _
      unfold rowFold
      rw [List.range_zero, List.foldl_nil, setRow_row_self]
      rfl) ?_ ?_
  · rw [key]
  · intro k st hk hP
    subst hP
    dsimp only
    congr 1
    apply propext
    omega
  · intro k st hk hP
    subst hP
    dsimp only
    have hi' : i < X.rows.size := by rw [hX.1]; exact hi
    have hsz : (rowFold v A X.width X.hb i (X.row i) k).size = X.width := by
      rw [rowFold_size]; exact hX.2 i hi
    rw [mzdReadBit_eq, rowFold_succ]
    by_cases hb : v.readBit i k = true
    · rw [if_pos hb, if_pos hb, if_pos (by decide)]
      have h := mzdCombine_inplace_eq (X.setRow i (rowFold v A X.width X.hb i (X.row i) k)) A i 0 k 0
        (hX.setRow i _ hsz) hi hw (X.width : Int)
        (memOf (X.setRow i (rowFold v A X.width X.hb i (X.row i) k)))
      rw [Mzd.row_setRow _ _ _ _ hi', if_pos rfl, setRow_setRow] at h
      refine Prod.ext ?_ (by simp)
      exact h
    · rw [if_neg hb, if_neg hb, if_neg (by decide)]
      refine Prod.ext rfl (by simp)

/-- the two loops of `_mzd_mul_va` -/
theorem mulVa_loop (C v A : Mzd) (hC : C.WF) (h1 : 1 ≤ C.ncols) (hr : v.nrows ≤ C.nrows)
    {cond : Mem × Int → Bool} {body : Mem × Int → Mem × Int} {fuel : Nat} {res : Mem × Int} (fuelI : Nat)
    (hres : CLoop.loop fuel cond body (memOf C, 0) = res) (hf : v.nrows ≤ fuel) (hfI : v.ncols ≤ fuelI)
    (hcond : ∀ st, cond st = decide (st.2 < (v.nrows : Int)))
    (hbody : ∀ st, body st =
      (innerStep (memOf v) (memOf A) C.width C.hb v.ncols fuelI st.2 st.1, st.2 + 1)) :
    res.1 = memOf (mulVaW C v A false) := by
  have hw : 0 < C.width := by unfold Mzd.width widthOf; omega
  have key := for_loop_eq hres v.nrows
    (fun k st => st = (memOf (rowsDone C v A k), (k : Int))) hf
    (by rw [rowsDone_zero]; rfl) ?_ ?_
  · rw [key, mulVaW_noclear_eq]
  · intro k st hk hP
    subst hP
    rw [hcond]
    dsimp only
    congr 1
    apply propext
    omega
  · intro k st hk hP
    subst hP
    rw [hbody]
    dsimp only
    have hk' : k < C.rows.size := by rw [hC.1]; omega
    have h := innerStep_eq (rowsDone C v A k) v A k (rowsDone_WF C v A k hC) (by show k < C.nrows; omega) hw
      fuelI hfI
    rw [rowsDone_row C v A k k hk' (Nat.le_refl k)] at h
    have h2 := rowsDone_succ C v A k hk'
    refine Prod.ext ?_ (by simp)
    show innerStep (memOf v) (memOf A) C.width C.hb v.ncols fuelI k (memOf (rowsDone C v A k)) = _
    rw [← h2]
    exact h

theorem mzdMulVa_clear (m : Mem) (hb : BitVec 64) (nr w nc vn vc : Int) (mv mA : Mem) :
    Gen.C.mzdMulVa 1 m hb nr w nc vn vc mv mA =
      Gen.C.mzdMulVa 0 (Gen.C.mzdSetUi (0#32) m hb nr w nc) hb nr w nc vn vc mv mA := by
  unfold Gen.C.mzdMulVa
  rw [if_pos (by decide), if_neg (by decide)]

theorem mzdMulVa_noclear_eq (C v A : Mzd) (hC : C.WF) (h1 : 1 ≤ C.ncols) (hr : v.nrows ≤ C.nrows) :
    Gen.C.mzdMulVa 0 (memOf C) C.hb C.nrows C.width C.ncols v.nrows v.ncols (memOf v) (memOf A) =
      memOf (mulVaW C v A false) := by
  unfold Gen.C.mzdMulVa
  rw [if_neg (by decide)]
  dsimp (config := {etaStruct := .none}) only
  generalize hres : CLoop.loop _ _ _ _ = res
  have key := mulVa_loop C v A hC h1 hr ((v.ncols : Int)).toNat hres (by simp) (by simp)
    (fun _ => rfl) (fun _ => rfl)
  obtain ⟨L, i⟩ := res
  exact key

/-- **`_mzd_mul_va(C, v, A, clear)`**: the generated function is the word-level model `mulVaW`.
    `v` and `A` are only read (no hypothesis on them); `v->nrows ≤ C->nrows` keeps the row writes inside `C`. -/
theorem mzdMulVa_eq (C v A : Mzd) (clear : Bool) (hC : C.WF) (h1 : 1 ≤ C.ncols) (hr : v.nrows ≤ C.nrows) :
    Gen.C.mzdMulVa (if clear then 1 else 0) (memOf C) C.hb C.nrows C.width C.ncols v.nrows v.ncols
        (memOf v) (memOf A) = memOf (mulVaW C v A clear) := by
  cases clear
  · exact mzdMulVa_noclear_eq C v A hC h1 hr
  · have hn := Mzd.nrows_setUi C 0 hC
    have hcc := Mzd.ncols_setUi C 0 hC
    have hw : (C.setUi 0).width = C.width := by unfold Mzd.width; rw [hcc]
    have hhb : (C.setUi 0).hb = C.hb := by unfold Mzd.hb; rw [hcc]
    have h := mzdMulVa_noclear_eq (C.setUi 0) v A (Mzd.setUi_WF C 0 hC) (by rw [hcc]; exact h1)
      (by rw [hn]; exact hr)
    rw [hn, hcc, hw, hhb] at h
    rw [mulVaW_clear]
    show Gen.C.mzdMulVa 1 _ _ _ _ _ _ _ _ _ = _
    rw [mzdMulVa_clear, GenTieSolve.mzdSetUi_zero_eq C hC h1]
    exact h

/-! ### 3. entries of the result -/

/-- **`_mzd_mul_va`, entry by entry**: reading position `(i, j)` of the memory the generated function leaves
    (any stored position of `C`, excess bits of the last word included): inside the matrix
    `(clear ? 0 : C[i,j]) ⊕ ⊕_{t < v->ncols} v[i,t] ∧ A[t,j]`, beyond column `ncols` the old bit of `C`.
    `C`, `v`, `A` may be views with arbitrary excess bits. -/
theorem mzdMulVa_spec (C v A : Mzd) (clear : Bool) (hC : C.WF) (h1 : 1 ≤ C.ncols) (hr : C.nrows = v.nrows)
    (i j : Nat) (hi : i < C.nrows) (hj : j < 64 * C.width) :
    Gen.C.mzdReadBit i j (Gen.C.mzdMulVa (if clear then 1 else 0) (memOf C) C.hb C.nrows C.width C.ncols
        v.nrows v.ncols (memOf v) (memOf A)) =
      if (if j < C.ncols then
            ((!clear && C.bit i j) != MulR.xorRange v.ncols (fun t => v.bit i t && A.bit t j))
          else C.bit i j) then 1 else 0 := by
  rw [mzdMulVa_eq C v A clear hC h1 (by omega), mzdReadBit_eq]
  show (if (mulVaW C v A clear).bit i j = true then (1 : Int) else 0) = _
  rw [mulVaW_bit C v A clear hC hr i j hi hj]

/-- **`_mzd_mul_va` against the entry-level product**: the result memory is `C` with its entries replaced by
    those of `BMat.mulVa` (`C + v·A`, resp. `v·A` for `clear`), excess bits of `C` unchanged. -/
theorem mzdMulVa_eq_putB (C v A : Mzd) (clear : Bool) (hC : C.WF) (hA : A.WF) (h1 : 1 ≤ C.ncols)
    (hr : C.nrows = v.nrows) (hc : C.ncols = A.ncols) :
    Gen.C.mzdMulVa (if clear then 1 else 0) (memOf C) C.hb C.nrows C.width C.ncols v.nrows v.ncols
        (memOf v) (memOf A) = memOf (C.putB (BMat.mulVa C.toB v.toB A.toB clear)) := by
  rw [mzdMulVa_eq C v A clear hC h1 (by omega), mulVaW_spec C v A clear hC hA hr hc]

#print axioms mzdCombine_inplace_eq
#print axioms mzdCombine_even_eq
#print axioms mzdCombine_even_alias_eq
#print axioms mzdMulVa_eq
#print axioms mzdMulVa_spec
#print axioms mzdMulVa_eq_putB

end M4ri.GenTieVa
