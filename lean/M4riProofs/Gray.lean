/-
  Property C19: Gray-code tables and word-level bit kernels are exactly right.
  graycode.c (`m4ri_gray_code`, `m4ri_build_code`), brilliantrussian.c (`mzd_make_table`),
  parity.h (`m4ri_parity64`), misc.h (`__M4RI_MIDDLE_BITMASK`, `m4ri_swap_bits`,
  `m4ri_spread_bits`, `m4ri_shrink_bits`, `m4ri_lesser_LSB`).

  Main theorems (all GENERAL proofs — every `l`/`k`, not only `≤ 16`; no table enumeration):
    1. `grayCode_eq`            m4ri_gray_code(i, l) = i ^ (i >> 1)
    2. `buildOrd_bijective`     ord is a bijection of [0, 2^l): size, range, injective, surjective
    3. `buildInc_char`, `buildInc_val`, `buildInc_last`, `buildInc_spec`
                                inc[i] = 2-adic valuation of i+1 (capped at l-1: inc[2^l-1] = l-1);
                                ord[i] ^ ord[i+1] = 2^inc[i], inc[i] < l
    4. `makeTable_lookup`, `makeTable_fresh`   (with the reusable `combRows`, `combRows_xor`,
                                `combRows_two_pow`, `combRows_eq_foldl`, `combRows_testBit`, `colMask_testBit`)
    5. `parity64_getLsbD`       bit i of m4ri_parity64(buf) = parity of buf[i]
    6. `middleMask_getLsbD` (+ `middleMask_zero_getLsbD`), `swapBits_getLsbD`
    7. `spreadBits_getLsbD_iff`, `spreadBits_getLsbD_at`, `shrinkBits_getLsbD`, `shrinkBits_spreadBits`
    extra: `lesserLSB_iff_Gray`
  `decide` is only used for facts about the fixed 64-bit mask constants and closed index arithmetic
  over `[0, 64)`.  Generic helper lemmas live under the prefix `Gray.` to avoid name clashes.
-/
import M4ri.Gray
import M4riProofs.WordLemmas
namespace M4ri

/-! ## 1. `m4ri_gray_code` -/
theorem Gray.testBit_ge_of_lt {n l p : Nat} (h : n < 2 ^ l) (hp : l ≤ p) : n.testBit p = false :=
  Nat.testBit_lt_two_pow (Nat.lt_of_lt_of_le h (Nat.pow_le_pow_right (by omega) hp))

/-- loop invariant of the bit loop of `m4ri_gray_code`, generalised over the accumulators -/
theorem grayCode_go_testBit (n : Nat) : ∀ (i lastbit res p : Nat),
    (∀ q, lastbit.testBit q = (decide (q = i) && n.testBit i)) →
    (grayCode.go n i lastbit res).testBit p =
      (res.testBit p || (decide (p < i) && (n.testBit p ^^ n.testBit (p + 1)))) := by
  intro i
  induction i with
  | zero => intro lastbit res p _; simp [grayCode.go]
  | succ i ih =>
    intro lastbit res p hl
    rw [grayCode.go]

    rw [ih]
    · simp only [Nat.testBit_or, Nat.testBit_xor, Nat.testBit_shiftRight, Nat.testBit_and, hl,
        Nat.one_shiftLeft, Nat.testBit_two_pow]
      by_cases h1 : p = i
      · subst h1; simp [Nat.add_comm 1 p, Bool.xor_comm]
      · have h2 : ¬ (1 + p = i + 1) := by omega
        have h3 : ¬ (i = p) := fun e => h1 e.symm
        by_cases h4 : p < i
        · have : p < i + 1 := by omega
          simp [h2, h3, h4, this]
        · have : ¬ p < i + 1 := by omega
          simp [h2, h3, h4, this]
    · intro q
      simp only [Nat.testBit_and, Nat.one_shiftLeft, Nat.testBit_two_pow]
      by_cases h : q = i
      · subst h; simp
      · have h3 : ¬ (i = q) := fun e => h e.symm
        simp [h, h3]

theorem grayCode_testBit (i l p : Nat) (h : i < 2 ^ l) :
    (grayCode i l).testBit p = (i.testBit p ^^ i.testBit (p + 1)) := by
  unfold grayCode
  rw [grayCode_go_testBit]
  · by_cases hp : p < l
    · simp [hp]
    · simp [hp, Gray.testBit_ge_of_lt h (Nat.le_of_not_lt hp), Gray.testBit_ge_of_lt h (by omega : l ≤ p + 1)]
  · intro q; simp [Gray.testBit_ge_of_lt h (Nat.le_refl l)]

/-- **C19.1** `m4ri_gray_code(i, l) = i ^ (i >> 1)` for every `l` and every `i < 2^l`. -/
theorem grayCode_eq (i l : Nat) (h : i < 2 ^ l) : grayCode i l = i ^^^ (i >>> 1) := by
  apply Nat.eq_of_testBit_eq
  intro p
  rw [grayCode_testBit i l p h, Nat.testBit_xor, Nat.testBit_shiftRight, Nat.add_comm 1 p]

example : grayCode 5 3 = 5 ^^^ (5 >>> 1) := grayCode_eq 5 3 (by decide)


/-! ## 2. `ord` is a bijection on `[0, 2^l)` -/

theorem size_buildOrd (l : Nat) : (buildOrd l).size = 2 ^ l := by simp [buildOrd]

theorem getElem_buildOrd (l i : Nat) (h : i < (buildOrd l).size) :
    (buildOrd l)[i] = i ^^^ (i >>> 1) := by
  have h' : i < 2 ^ l := by simpa [buildOrd] using h
  simp [buildOrd, grayCode_eq i l h']

theorem getD_buildOrd (l i : Nat) (h : i < 2 ^ l) : (buildOrd l).getD i 0 = i ^^^ (i >>> 1) := by
  have h' : i < (buildOrd l).size := by rw [size_buildOrd]; exact h
  simp [Array.getD, h', getElem_buildOrd]

theorem gray_lt (i l : Nat) (h : i < 2 ^ l) : i ^^^ (i >>> 1) < 2 ^ l := by
  apply Nat.xor_lt_two_pow h
  rw [Nat.shiftRight_eq_div_pow]
  exact Nat.lt_of_le_of_lt (Nat.div_le_self _ _) h

/-- the Gray map `x ↦ x ^ (x >> 1)` is injective on all of `Nat` -/
theorem gray_injective (x y : Nat) (h : x ^^^ (x >>> 1) = y ^^^ (y >>> 1)) : x = y := by
  have hz : (x ^^^ y) = (x ^^^ y) >>> 1 := by
    rw [Nat.shiftRight_xor_distrib]
    apply Nat.eq_of_testBit_eq
    intro p
    have := congrArg (fun v => v.testBit p) h
    simp only [Nat.testBit_xor] at this ⊢
    revert this
    cases x.testBit p <;> cases y.testBit p <;> cases (x >>> 1).testBit p <;>
      cases (y >>> 1).testBit p <;> simp
  have hz0 : x ^^^ y = 0 := by
    rw [Nat.shiftRight_eq_div_pow] at hz
    omega
  apply Nat.eq_of_testBit_eq
  intro p
  have := congrArg (fun v => v.testBit p) hz0
  simp only [Nat.testBit_xor, Nat.zero_testBit] at this
  revert this
  cases x.testBit p <;> cases y.testBit p <;> simp

/-- inverse of the Gray map: `x = g ^ (g>>1) ^ (g>>2) ^ …` -/
def grayInv (g : Nat) : Nat := if _h : g = 0 then 0 else g ^^^ grayInv (g / 2)
decreasing_by omega

theorem grayInv_shift (g : Nat) : grayInv g >>> 1 = grayInv (g / 2) ∧
    grayInv g ^^^ (grayInv g >>> 1) = g := by
  induction g using Nat.strongRecOn with
  | _ g ih =>
    by_cases h : g = 0
    · subst h; simp [grayInv]
    · have ih' := ih (g / 2) (by omega)
      have e : grayInv g = g ^^^ grayInv (g / 2) := by rw [grayInv]; simp [h]
      have s1 : grayInv g >>> 1 = grayInv (g / 2) := by
        rw [e, Nat.shiftRight_xor_distrib, ih'.1]
        conv => lhs; lhs; rw [Nat.shiftRight_eq_div_pow, Nat.pow_one, ← ih'.2]
        rw [ih'.1, Nat.xor_assoc, Nat.xor_self, Nat.xor_zero]
      refine ⟨s1, ?_⟩
      rw [s1, e, Nat.xor_assoc, Nat.xor_self, Nat.xor_zero]

theorem grayInv_lt (l : Nat) : ∀ g, g < 2 ^ l → grayInv g < 2 ^ l := by
  induction l with
  | zero => intro g hg; have : g = 0 := by omega
            subst this; simp [grayInv]
  | succ l ih =>
    intro g hg
    by_cases h : g = 0
    · subst h; rw [grayInv]; simp; exact Nat.two_pow_pos _
    · rw [grayInv]; simp only [h, dite_false]
      apply Nat.xor_lt_two_pow hg
      have : grayInv (g / 2) < 2 ^ l := ih _ (by rw [Nat.pow_succ] at hg; omega)
      rw [Nat.pow_succ]; omega

/-- **C19.2** for every `l`, `ord` (`m4ri_build_code`) has `2^l` entries, all `< 2^l`, pairwise
    distinct, and every `l`-bit value occurs: `ord` is a bijection of `[0, 2^l)`.
    (`l = 0` included; the C code uses `1 ≤ l ≤ 16`.) -/
theorem buildOrd_bijective (l : Nat) :
    (buildOrd l).size = 2 ^ l ∧
    (∀ i, i < 2 ^ l → (buildOrd l).getD i 0 < 2 ^ l) ∧
    (∀ i j, i < 2 ^ l → j < 2 ^ l → (buildOrd l).getD i 0 = (buildOrd l).getD j 0 → i = j) ∧
    (∀ v, v < 2 ^ l → ∃ i, i < 2 ^ l ∧ (buildOrd l).getD i 0 = v) := by
  refine ⟨size_buildOrd l, ?_, ?_, ?_⟩
  · intro i hi; rw [getD_buildOrd l i hi]; exact gray_lt i l hi
  · intro i j hi hj h
    rw [getD_buildOrd l i hi, getD_buildOrd l j hj] at h
    exact gray_injective i j h
  · intro v hv
    refine ⟨grayInv v, grayInv_lt l v hv, ?_⟩
    rw [getD_buildOrd l _ (grayInv_lt l v hv)]
    exact (grayInv_shift v).2

example : (buildOrd 3).getD 5 0 = 7 := by decide +kernel


/-! ## 3. the increment table `inc` -/

theorem Gray.getD_setIfInBounds (a : Array Nat) (i v p : Nat) :
    (a.setIfInBounds i v).getD p 0 = if i = p ∧ p < a.size then v else a.getD p 0 := by
  simp only [Array.getD_eq_getD_getElem?, Array.getElem?_setIfInBounds]
  by_cases h : i = p
  · subst h
    by_cases h2 : i < a.size <;> simp [h2]
  · simp [h]

/-- a loop `for j < n: a[f j] = v` on an array -/
theorem Gray.foldl_set_range (f : Nat → Nat) (v : Nat) (n : Nat) (a : Array Nat) :
    ((List.range n).foldl (fun a j => a.setIfInBounds (f j) v) a).size = a.size ∧
    ∀ p, ((List.range n).foldl (fun a j => a.setIfInBounds (f j) v) a).getD p 0 =
      if (∃ j, j < n ∧ f j = p) ∧ p < a.size then v else a.getD p 0 := by
  induction n with
  | zero => simp
  | succ n ih =>
    rw [List.range_succ, List.foldl_append]
    simp only [List.foldl_cons, List.foldl_nil, Array.size_setIfInBounds]
    refine ⟨ih.1, ?_⟩
    intro p
    rw [Gray.getD_setIfInBounds, ih.1, ih.2 p]
    by_cases hp : p < a.size
    · by_cases h1 : f n = p
      · have : ∃ j, j < n + 1 ∧ f j = p := ⟨n, by omega, h1⟩
        simp [h1, hp, this]
      · by_cases h2 : ∃ j, j < n ∧ f j = p
        · obtain ⟨j, hj, hfj⟩ := h2
          have a1 : ∃ j, j < n + 1 ∧ f j = p := ⟨j, by omega, hfj⟩
          have a2 : ∃ j, j < n ∧ f j = p := ⟨j, hj, hfj⟩
          simp [h1, hp, a1, a2]
        · have a1 : ¬ ∃ j, j < n + 1 ∧ f j = p := by
            rintro ⟨j, hj, hfj⟩
            by_cases e : j = n
            · subst e; exact h1 hfj
            · exact h2 ⟨j, by omega, hfj⟩
          simp [h1, hp, a1, h2]
    · simp [hp]

/-- the largest `t < T` with `2^t ∣ n` (0 for `T = 0`): the value of `inc[n-1]` after `T` rounds of the
    outer loop of `m4ri_build_code` -/
def Gray.capv : Nat → Nat → Nat
  | 0, _ => 0
  | T + 1, n => if 2 ^ T ∣ n then T else Gray.capv T n

theorem Gray.capv_spec (n : Nat) : ∀ T, Gray.capv (T + 1) n < T + 1 ∧ 2 ^ Gray.capv (T + 1) n ∣ n ∧
    ∀ t, t < T + 1 → 2 ^ t ∣ n → t ≤ Gray.capv (T + 1) n := by
  intro T
  induction T with
  | zero => simp [Gray.capv]
  | succ T ih =>
    rw [Gray.capv]
    by_cases h : 2 ^ (T + 1) ∣ n
    · rw [if_pos h]
      exact ⟨by omega, h, fun t ht _ => by omega⟩
    · rw [if_neg h]
      refine ⟨by omega, ih.2.1, ?_⟩
      intro t ht hd
      by_cases e : t = T + 1
      · subst e; exact absurd hd h
      · exact ih.2.2 t (by omega) hd

theorem Gray.exists_mul_pow_sub_one (l T p : Nat) (hT : T ≤ l) (hp : p < 2 ^ l) :
    (∃ j, j < 2 ^ (l - T) ∧ (j + 1) * 2 ^ T - 1 = p) ↔ 2 ^ T ∣ p + 1 := by
  have hpos : 0 < 2 ^ T := Nat.two_pow_pos T
  constructor
  · rintro ⟨j, _, hj⟩
    have : 0 < (j + 1) * 2 ^ T := Nat.mul_pos (by omega) hpos
    exact ⟨j + 1, by rw [Nat.mul_comm]; omega⟩
  · rintro ⟨c, hc⟩
    have hl : 2 ^ l = 2 ^ T * 2 ^ (l - T) := by rw [← Nat.pow_add]; congr 1; omega
    have hc0 : 0 < c := by
      rcases Nat.eq_zero_or_pos c with h | h
      · subst h; omega
      · exact h
    have hc1 : c ≤ 2 ^ (l - T) := by
      apply Nat.le_of_mul_le_mul_left _ hpos
      rw [← hl, ← hc]; omega
    refine ⟨c - 1, by omega, ?_⟩
    have : c - 1 + 1 = c := by omega
    rw [this, Nat.mul_comm, ← hc]; omega

/-- `inc` after the first `T` rounds (`i = l, l-1, …, l-T+1`) of the outer loop -/
theorem buildInc_prefix (l : Nat) : ∀ T, T ≤ l →
    ((List.range T).foldl (fun inc t =>
      (List.range (2 ^ (l - t))).foldl (fun inc j0 =>
        inc.setIfInBounds ((j0 + 1) * 2 ^ (l - (l - t)) - 1) (l - (l - t))) inc)
      (Array.replicate (2 ^ l) 0)).size = 2 ^ l ∧
    ∀ p, p < 2 ^ l → ((List.range T).foldl (fun inc t =>
      (List.range (2 ^ (l - t))).foldl (fun inc j0 =>
        inc.setIfInBounds ((j0 + 1) * 2 ^ (l - (l - t)) - 1) (l - (l - t))) inc)
      (Array.replicate (2 ^ l) 0)).getD p 0 = Gray.capv T (p + 1) := by
  intro T
  induction T with
  | zero => intro _; simp [Gray.capv, Array.getD]
  | succ T ih =>
    intro hT
    have ih' := ih (by omega)
    rw [List.range_succ, List.foldl_append]
    simp only [List.foldl_cons, List.foldl_nil]
    have e : l - (l - T) = T := by omega
    rw [e]
    have key := Gray.foldl_set_range (fun j0 => (j0 + 1) * 2 ^ T - 1) T (2 ^ (l - T))
      ((List.range T).foldl (fun inc t =>
      (List.range (2 ^ (l - t))).foldl (fun inc j0 =>
        inc.setIfInBounds ((j0 + 1) * 2 ^ (l - (l - t)) - 1) (l - (l - t))) inc)
      (Array.replicate (2 ^ l) 0))
    refine ⟨key.1.trans ih'.1, ?_⟩
    intro p hp
    rw [key.2 p, ih'.1, ih'.2 p hp, Gray.capv]
    simp only [Gray.exists_mul_pow_sub_one l T p (by omega) hp, hp, and_true]

/-- **C19.3a** characterisation of `inc` (`m4ri_build_code`), `l ≥ 1`: `inc` has `2^l` entries and
    `inc[p]` is the largest `t < l` with `2^t ∣ p + 1`. -/
theorem buildInc_char (l : Nat) (hl : 1 ≤ l) :
    (buildInc l).size = 2 ^ l ∧
    ∀ p, p < 2 ^ l → (buildInc l).getD p 0 < l ∧ 2 ^ (buildInc l).getD p 0 ∣ p + 1 ∧
      ∀ t, t < l → 2 ^ t ∣ p + 1 → t ≤ (buildInc l).getD p 0 := by
  have h := buildInc_prefix l l (Nat.le_refl l)
  refine ⟨h.1, ?_⟩
  intro p hp
  have e : (buildInc l).getD p 0 = Gray.capv l (p + 1) := h.2 p hp
  rw [e]
  obtain ⟨T, rfl⟩ : ∃ T, l = T + 1 := ⟨l - 1, by omega⟩
  exact Gray.capv_spec (p + 1) T

/-- for `p + 1 < 2^l`, `inc[p]` is exactly the 2-adic valuation of `p + 1`
    (= the number of trailing one bits of `p`) -/
theorem buildInc_val (l : Nat) (hl : 1 ≤ l) (p : Nat) (hp : p + 1 < 2 ^ l) :
    (buildInc l).getD p 0 < l ∧ 2 ^ (buildInc l).getD p 0 ∣ p + 1 ∧
      ¬ 2 ^ ((buildInc l).getD p 0 + 1) ∣ p + 1 := by
  obtain ⟨h1, h2, h3⟩ := (buildInc_char l hl).2 p (by omega)
  refine ⟨h1, h2, ?_⟩
  intro hd
  by_cases hlt : (buildInc l).getD p 0 + 1 < l
  · have := h3 _ hlt hd; omega
  · have e : (buildInc l).getD p 0 + 1 = l := by omega
    rw [e] at hd
    have := Nat.le_of_dvd (by omega) hd
    omega

/-- the last entry `inc[2^l - 1]` (never read by `mzd_make_table`) is `l - 1` -/
theorem buildInc_last (l : Nat) (hl : 1 ≤ l) : (buildInc l).getD (2 ^ l - 1) 0 = l - 1 := by
  have hpos : 0 < 2 ^ l := Nat.two_pow_pos l
  obtain ⟨h1, _, h3⟩ := (buildInc_char l hl).2 (2 ^ l - 1) (by omega)
  have e : 2 ^ l - 1 + 1 = 2 ^ l := by omega
  rw [e] at h3
  have := h3 (l - 1) (by omega) (Nat.pow_dvd_pow 2 (by omega))
  omega


/-- `i` and `i + 1` differ exactly in the bits `0 … e`, `e` = 2-adic valuation of `i + 1` -/
theorem Gray.xor_succ_testBit (i e : Nat) (h1 : 2 ^ e ∣ i + 1) (h2 : ¬ 2 ^ (e + 1) ∣ i + 1) (p : Nat) :
    (i ^^^ (i + 1)).testBit p = decide (p ≤ e) := by
  obtain ⟨c, hc⟩ := h1
  have hpos : 0 < 2 ^ e := Nat.two_pow_pos e
  have hodd : c % 2 = 1 := by
    rcases Nat.mod_two_eq_zero_or_one c with h | h
    · exfalso; apply h2
      refine ⟨c / 2, ?_⟩
      rw [Nat.pow_succ, Nat.mul_assoc, hc]; congr 1; omega
    · exact h
  have hp2 : 2 ^ (e + 1) = 2 ^ e * 2 := Nat.pow_succ ..
  have hcm : 2 ^ e * c = 2 ^ (e + 1) * (c / 2) + 2 ^ e := by
    rw [hp2, Nat.mul_assoc, ← Nat.mul_add_one]; congr 1; omega
  have e1 : i + 1 = 2 ^ (e + 1) * (c / 2) + 2 ^ e := by omega
  have e0 : i = 2 ^ (e + 1) * (c / 2) + (2 ^ e - 1) := by omega
  rw [Nat.testBit_xor, e1]
  conv => lhs; lhs; rw [e0]
  rw [Nat.testBit_two_pow_mul_add _ (by omega), Nat.testBit_two_pow_mul_add _ (by omega)]
  by_cases hp : p < e + 1
  · simp only [hp, if_true, Nat.testBit_two_pow_sub_one, Nat.testBit_two_pow]
    by_cases hpe : p < e
    · have : ¬ e = p := by omega
      have : p ≤ e := by omega
      simp [*]
    · have : e = p := by omega
      have : p ≤ e := by omega
      simp [*]
  · have : ¬ p ≤ e := by omega
    simp [*]

/-- consecutive Gray codes differ in the single bit `e` = 2-adic valuation of `i + 1` -/
theorem gray_xor_succ (i e : Nat) (h1 : 2 ^ e ∣ i + 1) (h2 : ¬ 2 ^ (e + 1) ∣ i + 1) :
    (i ^^^ (i >>> 1)) ^^^ ((i + 1) ^^^ ((i + 1) >>> 1)) = 2 ^ e := by
  have key : (i ^^^ (i >>> 1)) ^^^ ((i + 1) ^^^ ((i + 1) >>> 1)) =
      (i ^^^ (i + 1)) ^^^ ((i ^^^ (i + 1)) >>> 1) := by
    rw [Nat.shiftRight_xor_distrib]
    apply Nat.eq_of_testBit_eq
    intro p
    simp only [Nat.testBit_xor]
    cases i.testBit p <;> cases (i + 1).testBit p <;> cases (i >>> 1).testBit p <;>
      cases ((i + 1) >>> 1).testBit p <;> rfl
  rw [key]
  apply Nat.eq_of_testBit_eq
  intro p
  rw [Nat.testBit_xor, Nat.testBit_shiftRight, Gray.xor_succ_testBit i e h1 h2,
    Gray.xor_succ_testBit i e h1 h2, Nat.testBit_two_pow]
  by_cases a : p ≤ e <;> by_cases b : 1 + p ≤ e <;> by_cases c : e = p <;> simp [a, b, c] <;> omega

/-- **C19.3** for every `l ≥ 1` and `0 ≤ i < 2^l - 1`: `inc[i] < l` and `ord[i]`, `ord[i+1]` differ in
    exactly the bit `inc[i]`. -/
theorem buildInc_spec (l : Nat) (hl : 1 ≤ l) (i : Nat) (hi : i + 1 < 2 ^ l) :
    (buildInc l).getD i 0 < l ∧
    (buildOrd l).getD i 0 ^^^ (buildOrd l).getD (i + 1) 0 = 2 ^ (buildInc l).getD i 0 := by
  obtain ⟨h1, h2, h3⟩ := buildInc_val l hl i hi
  refine ⟨h1, ?_⟩
  rw [getD_buildOrd l i (by omega), getD_buildOrd l (i + 1) hi]
  exact gray_xor_succ i _ h2 h3

/-- the same with `[·]` indexing -/
theorem buildInc_spec' (l : Nat) (hl : 1 ≤ l) (i : Nat) (hi : i + 1 < 2 ^ l) :
    ∃ (h0 : i < (buildInc l).size) (h1 : i < (buildOrd l).size) (h2 : i + 1 < (buildOrd l).size),
      (buildInc l)[i] < l ∧ (buildOrd l)[i] ^^^ (buildOrd l)[i + 1] = 2 ^ (buildInc l)[i] := by
  have s1 := (buildInc_char l hl).1
  have s2 := size_buildOrd l
  have h0 : i < (buildInc l).size := by omega
  have h1 : i < (buildOrd l).size := by omega
  have h2 : i + 1 < (buildOrd l).size := by omega
  refine ⟨h0, h1, h2, ?_⟩
  have := buildInc_spec l hl i hi
  simpa [Array.getD, h0, h1, h2] using this

example : (1 : Nat) ≤ 16 ∧ 6 + 1 < 2 ^ 16 := by decide


/-! ## 4. the Gray-code lookup table (`mzd_make_table`) -/

/-- XOR of the rows `r + j` (`j < k`, masked) selected by the bits of `x`:
    `combRows rows r mask k x = ⊕_{j < k, x.testBit j} (rows[r + j] &&& mask)`. -/
def combRows (rows : Array Nat) (r mask : Nat) : Nat → Nat → Nat
  | 0, _ => 0
  | k + 1, x => combRows rows r mask k x ^^^ (if x.testBit k then rows.getD (r + k) 0 &&& mask else 0)

theorem combRows_zero (rows : Array Nat) (r mask k : Nat) : combRows rows r mask k 0 = 0 := by
  induction k with
  | zero => rfl
  | succ k ih => simp [combRows, ih]

/-- `combRows` is GF(2)-linear in the selector -/
theorem combRows_xor (rows : Array Nat) (r mask k x y : Nat) :
    combRows rows r mask k (x ^^^ y) = combRows rows r mask k x ^^^ combRows rows r mask k y := by
  induction k with
  | zero => simp [combRows]
  | succ k ih =>
    simp only [combRows, ih, Nat.testBit_xor]
    apply Nat.eq_of_testBit_eq
    intro p
    cases x.testBit k <;> cases y.testBit k <;>
      simp only [Bool.xor_false, Bool.xor_true, Bool.not_false, Bool.not_true, if_true, if_false,
        Bool.false_eq_true, Nat.testBit_xor, Nat.zero_testBit] <;>
      generalize (combRows rows r mask k x).testBit p = a <;>
      generalize (combRows rows r mask k y).testBit p = b <;>
      generalize (rows.getD (r + k) 0 &&& mask).testBit p = d <;>
      cases a <;> cases b <;> cases d <;> rfl

theorem combRows_two_pow (rows : Array Nat) (r mask k j : Nat) (hj : j < k) :
    combRows rows r mask k (2 ^ j) = rows.getD (r + j) 0 &&& mask := by
  induction k with
  | zero => omega
  | succ k ih =>
    rw [combRows, Nat.testBit_two_pow]
    by_cases h : j = k
    · subst h
      have : ∀ k', k' ≤ j → combRows rows r mask k' (2 ^ j) = 0 := by
        intro k' hk'
        induction k' with
        | zero => rfl
        | succ k' ih' =>
          rw [combRows, ih' (by omega), Nat.testBit_two_pow]
          have : ¬ j = k' := by omega
          simp [this]
      simp [this j (Nat.le_refl j)]
    · rw [ih (by omega)]; simp [h]

/-- `combRows` as the `List.foldl` of the loop "for j < k: if bit j of x then acc ^= row (r+j) & mask" -/
theorem combRows_eq_foldl (rows : Array Nat) (r mask k x : Nat) :
    combRows rows r mask k x =
      (List.range k).foldl (fun acc j => if x.testBit j then acc ^^^ (rows.getD (r + j) 0 &&& mask) else acc) 0 := by
  induction k with
  | zero => rfl
  | succ k ih =>
    rw [List.range_succ, List.foldl_append, ← ih, combRows]
    simp only [List.foldl_cons, List.foldl_nil]
    split <;> simp

/-- entry-wise: bit `p` of `combRows` is the GF(2) sum `Σ_{j<k} x_j · rows[r+j]_p`, masked -/
theorem combRows_testBit (rows : Array Nat) (r mask k x p : Nat) :
    (combRows rows r mask k x).testBit p =
      (mask.testBit p && (List.range k).foldl
        (fun acc j => acc ^^ (x.testBit j && (rows.getD (r + j) 0).testBit p)) false) := by
  induction k with
  | zero => simp [combRows]
  | succ k ih =>
    rw [List.range_succ, List.foldl_append, combRows, Nat.testBit_xor, ih]
    simp only [List.foldl_cons, List.foldl_nil]
    generalize (List.range k).foldl
        (fun acc j => acc ^^ (x.testBit j && (rows.getD (r + j) 0).testBit p)) false = a
    cases x.testBit k <;>
      simp only [if_true, if_false, Bool.false_eq_true, Nat.testBit_and, Nat.zero_testBit] <;>
      generalize (rows.getD (r + k) 0).testBit p = b <;>
      cases mask.testBit p <;> cases a <;> cases b <;> rfl

/-- `colMask c ncols` selects exactly the columns `c ≤ p < ncols` -/
theorem colMask_testBit (c ncols p : Nat) :
    (colMask c ncols).testBit p = (decide (c ≤ p) && decide (p < ncols)) := by
  unfold colMask
  rw [Nat.testBit_shiftLeft, Nat.testBit_shiftRight, Nat.testBit_two_pow_sub_one]
  by_cases h : c ≤ p
  · have : c + (p - c) = p := by omega
    simp [h, this]
  · simp [h]

/-- one iteration `i = i0 + 1` of the loop of `mzd_make_table` -/
def makeTableStep (rows : Array Nat) (nrows ncols r c k : Nat) (TL : Array Nat × Array Nat) (i0 : Nat) :
    Array Nat × Array Nat :=
  let i := i0 + 1
  let rowneeded := r + (buildInc k).getD (i - 1) 0
  let L := TL.2.setIfInBounds ((buildOrd k).getD i 0) i
  if rowneeded ≥ nrows then (TL.1, L) else
    (TL.1.setIfInBounds i (TL.1.getD (i - 1) 0 ^^^ (rows.getD rowneeded 0 &&& colMask c ncols)), L)

theorem makeTable_eq_foldl (rows : Array Nat) (nrows ncols r c k : Nat) (T0 L0 : Array Nat) :
    makeTable rows nrows ncols r c k T0 L0 =
      (List.range (2 ^ k - 1)).foldl (makeTableStep rows nrows ncols r c k) (T0, L0.setIfInBounds 0 0) := rfl

/-- loop invariant of `mzd_make_table` after `m` iterations -/
theorem makeTable_prefix (rows : Array Nat) (nrows ncols r c k : Nat) (T0 L0 : Array Nat)
    (hr : r + k ≤ nrows) (hT : T0.size = 2 ^ k) (hL : L0.size = 2 ^ k) (hT0 : T0.getD 0 0 = 0) :
    ∀ m, m ≤ 2 ^ k - 1 →
      ((List.range m).foldl (makeTableStep rows nrows ncols r c k) (T0, L0.setIfInBounds 0 0)).1.size = 2 ^ k ∧
      ((List.range m).foldl (makeTableStep rows nrows ncols r c k) (T0, L0.setIfInBounds 0 0)).2.size = 2 ^ k ∧
      (∀ i, i ≤ m →
        ((List.range m).foldl (makeTableStep rows nrows ncols r c k) (T0, L0.setIfInBounds 0 0)).1.getD i 0 =
          combRows rows r (colMask c ncols) k ((buildOrd k).getD i 0)) ∧
      (∀ i, i ≤ m →
        ((List.range m).foldl (makeTableStep rows nrows ncols r c k) (T0, L0.setIfInBounds 0 0)).2.getD
          ((buildOrd k).getD i 0) 0 = i) := by
  have hpos : 0 < 2 ^ k := Nat.two_pow_pos k
  have ord0 : (buildOrd k).getD 0 0 = 0 := by rw [getD_buildOrd k 0 hpos]; rfl
  intro m
  induction m with
  | zero =>
    intro _
    simp only [List.range_zero, List.foldl_nil, Array.size_setIfInBounds]
    refine ⟨hT, hL, ?_, ?_⟩
    · intro i hi
      have : i = 0 := by omega
      subst this
      rw [ord0, combRows_zero, hT0]
    · intro i hi
      have : i = 0 := by omega
      subst this
      rw [ord0, Gray.getD_setIfInBounds]; simp [hL, hpos]
  | succ m ih =>
    intro hm
    obtain ⟨s1, s2, iT, iL⟩ := ih (by omega)
    rw [List.range_succ, List.foldl_append]
    simp only [List.foldl_cons, List.foldl_nil]
    generalize (List.range m).foldl (makeTableStep rows nrows ncols r c k) (T0, L0.setIfInBounds 0 0) = TL
      at s1 s2 iT iL ⊢
    have hk : 1 ≤ k := by
      rcases Nat.eq_zero_or_pos k with h | h
      · subst h; simp at hm
      · exact h
    have hm1 : m + 1 < 2 ^ k := by omega
    obtain ⟨hinc, hxor⟩ := buildInc_spec k hk m hm1
    have hrow : ¬ (r + (buildInc k).getD m 0 ≥ nrows) := by omega
    have hstep : makeTableStep rows nrows ncols r c k TL m =
        (TL.1.setIfInBounds (m + 1) (TL.1.getD m 0 ^^^
            (rows.getD (r + (buildInc k).getD m 0) 0 &&& colMask c ncols)),
          TL.2.setIfInBounds ((buildOrd k).getD (m + 1) 0) (m + 1)) := by
      simp only [makeTableStep, Nat.add_sub_cancel, if_neg hrow]
    rw [hstep]
    simp only [Array.size_setIfInBounds]
    refine ⟨s1, s2, ?_, ?_⟩
    · intro i hi
      rw [Gray.getD_setIfInBounds]
      by_cases e : m + 1 = i
      · subst e
        have hordlt : (buildOrd k).getD m 0 ^^^ 2 ^ (buildInc k).getD m 0 = (buildOrd k).getD (m + 1) 0 := by
          rw [← hxor, ← Nat.xor_assoc, Nat.xor_self, Nat.zero_xor]
        simp only [s1, hm1, and_self, if_true]
        rw [iT m (by omega), ← hordlt, combRows_xor, combRows_two_pow _ _ _ _ _ hinc]
      · have : ¬ (m + 1 = i ∧ i < TL.1.size) := fun h => e h.1
        rw [if_neg this]
        exact iT i (by omega)
    · intro i hi
      rw [Gray.getD_setIfInBounds]
      by_cases e : m + 1 = i
      · subst e
        have hlt : (buildOrd k).getD (m + 1) 0 < 2 ^ k := (buildOrd_bijective k).2.1 _ hm1
        rw [if_pos ⟨rfl, by rw [s2]; exact hlt⟩]
      · have hne : ¬ (buildOrd k).getD (m + 1) 0 = (buildOrd k).getD i 0 := by
          intro h
          exact e ((buildOrd_bijective k).2.2.1 _ _ hm1 (by omega) h)
        have : ¬ ((buildOrd k).getD (m + 1) 0 = (buildOrd k).getD i 0 ∧
            (buildOrd k).getD i 0 < TL.2.size) := fun h => hne h.1
        rw [if_neg this]
        exact iL i (by omega)

/-- **C19.4** (the table-lookup lemma — why Four Russians works).  After
    `mzd_make_table(M, r, c, k, T, L)` with all `k` source rows present (`r + k ≤ nrows`) and the first
    table row zero, for every `k`-bit pattern `x`:  `L[x]` is a valid table index with `ord[L[x]] = x`, and `T[L[x]]` is the XOR
    of the rows `r + j` with bit `j` of `x` set, restricted to the columns `[c, ncols)`.
    Nothing is assumed about the prior contents of `L` (and only `T[0] = 0` about `T`): every entry
    that is read was written.  Holds for every `k` (the library uses `1 ≤ k ≤ 16`). -/
theorem makeTable_lookup (rows : Array Nat) (nrows ncols r c k : Nat) (T0 L0 : Array Nat)
    (hr : r + k ≤ nrows) (hT : T0.size = 2 ^ k) (hL : L0.size = 2 ^ k) (hT0 : T0.getD 0 0 = 0)
    (x : Nat) (hx : x < 2 ^ k) :
    (makeTable rows nrows ncols r c k T0 L0).1.size = 2 ^ k ∧
    (makeTable rows nrows ncols r c k T0 L0).2.size = 2 ^ k ∧
    (makeTable rows nrows ncols r c k T0 L0).2.getD x 0 < 2 ^ k ∧
    (buildOrd k).getD ((makeTable rows nrows ncols r c k T0 L0).2.getD x 0) 0 = x ∧
    (makeTable rows nrows ncols r c k T0 L0).1.getD ((makeTable rows nrows ncols r c k T0 L0).2.getD x 0) 0 =
      combRows rows r (colMask c ncols) k x := by
  have hpos : 0 < 2 ^ k := Nat.two_pow_pos k
  rw [makeTable_eq_foldl]
  obtain ⟨s1, s2, iT, iL⟩ := makeTable_prefix rows nrows ncols r c k T0 L0 hr hT hL hT0 (2 ^ k - 1) (Nat.le_refl _)
  obtain ⟨i, hi, hix⟩ := (buildOrd_bijective k).2.2.2 x hx
  have h1 := iL i (by omega)
  rw [hix] at h1
  refine ⟨s1, s2, by rw [h1]; exact hi, by rw [h1]; exact hix, ?_⟩
  rw [h1, iT i (by omega), hix]

/-- specialisation to freshly allocated table storage (`mzd_init` ⇒ zero rows; `L` uninitialised):
    the looked-up row does not depend on the junk in `L` -/
theorem makeTable_fresh (rows : Array Nat) (nrows ncols r c k : Nat) (junk : Nat → Nat)
    (hr : r + k ≤ nrows) (x : Nat) (hx : x < 2 ^ k) :
    (makeTable rows nrows ncols r c k (freshTable k junk).1 (freshTable k junk).2).2.getD x 0 < 2 ^ k ∧
    (makeTable rows nrows ncols r c k (freshTable k junk).1 (freshTable k junk).2).1.getD
      ((makeTable rows nrows ncols r c k (freshTable k junk).1 (freshTable k junk).2).2.getD x 0) 0 =
      combRows rows r (colMask c ncols) k x := by
  have h := makeTable_lookup rows nrows ncols r c k (freshTable k junk).1 (freshTable k junk).2 hr
    (by simp [freshTable]) (by simp [freshTable])
    (by simp [freshTable, Array.getD, Nat.two_pow_pos]) x hx
  exact ⟨h.2.2.1, h.2.2.2.2⟩

/-- non-vacuity: a 3-row matrix, `k = 2`, junk in `L` -/
example : (makeTable #[1, 2, 3] 3 2 1 0 2 #[0, 0, 0, 0] #[9, 9, 9, 9]).1.getD
      ((makeTable #[1, 2, 3] 3 2 1 0 2 #[0, 0, 0, 0] #[9, 9, 9, 9]).2.getD 3 0) 0 =
      combRows #[1, 2, 3] 1 (colMask 0 2) 2 3 :=
  (makeTable_lookup #[1, 2, 3] 3 2 1 0 2 #[0, 0, 0, 0] #[9, 9, 9, 9] (by decide) (by decide) (by decide)
    (by decide) 3 (by decide)).2.2.2.2


/-! ## 5. `m4ri_parity64` -/

/-- XOR of the `2^n` bits `p, p + s, p + 2s, …` of `v` (as a balanced tree) -/
def parN : Nat → Nat → Word → Nat → Bool
  | 0, _, v, p => v.getLsbD p
  | n + 1, s, v, p => parN n (2 * s) v p ^^ parN n (2 * s) v (p + s)

/-- the behaviour shared by all `__M4RI_MIXs(a, b)`: odd `s`-blocks come from `a`, even ones from `b`,
    each XOR-folded with its neighbour block -/
def IsMix (s : Nat) (m a b : Word) : Prop :=
  ∀ x, x < 64 → m.getLsbD x =
    if (x / s) % 2 = 1 then (a.getLsbD (x - s) ^^ a.getLsbD x) else (b.getLsbD (x + s) ^^ b.getLsbD x)

theorem mix32_isMix (a b : Word) : IsMix 32 (mix32 a b) a b := by
  intro x hx
  unfold mix32
  simp only [BitVec.getLsbD_or, BitVec.getLsbD_shiftLeft, BitVec.getLsbD_ushiftRight, BitVec.getLsbD_xor]
  by_cases h : x < 32
  · have h1 : ¬ (x / 32 % 2 = 1) := by omega
    have h2 : x + 32 < 64 := by omega
    have h3 : ¬ (x + 32 < 32) := by omega
    have h5 : 32 + x = x + 32 := by omega
    simp [h, h1, h2, h3, h5, hx, Bool.xor_comm]
  · have h1 : x / 32 % 2 = 1 := by omega
    have h2 : 32 + (x - 32) = x := by omega
    have h3 : b.getLsbD (32 + x) = false := by
      apply BitVec.getLsbD_of_ge; omega
    have h4 : ¬ (32 + x < 64) := by omega
    simp [h, h1, h2, h3, h4, hx, Bool.xor_comm]

theorem mask_isMix (s : Nat) (hi lo a b : Word) 
    (hhi : ∀ x, x < 64 → hi.getLsbD x = decide ((x / s) % 2 = 1))
    (hlo : ∀ x, x < 64 → lo.getLsbD x = decide (¬ (x / s) % 2 = 1)) :
    IsMix s ((((a <<< s) ^^^ a) &&& hi) ||| (((b >>> s) ^^^ b) &&& lo)) a b := by
  intro x hx
  simp only [BitVec.getLsbD_or, BitVec.getLsbD_and, BitVec.getLsbD_shiftLeft,
    BitVec.getLsbD_ushiftRight, BitVec.getLsbD_xor, hhi x hx, hlo x hx]
  by_cases h : (x / s) % 2 = 1
  · have h1 : ¬ x < s := by
      intro hlt; rw [Nat.div_eq_of_lt hlt] at h; omega
    simp [h, h1, hx]
  · simp [h, Nat.add_comm s x]

theorem mix16_isMix (a b : Word) : IsMix 16 (mix16 a b) a b :=
  mask_isMix 16 _ _ a b (by decide) (by decide)
theorem mix8_isMix (a b : Word) : IsMix 8 (mix8 a b) a b :=
  mask_isMix 8 _ _ a b (by decide) (by decide)
theorem mix4_isMix (a b : Word) : IsMix 4 (mix4 a b) a b :=
  mask_isMix 4 _ _ a b (by decide) (by decide)
theorem mix2_isMix (a b : Word) : IsMix 2 (mix2 a b) a b :=
  mask_isMix 2 _ _ a b (by decide) (by decide)
theorem mix1_isMix (a b : Word) : IsMix 1 (mix1 a b) a b :=
  mask_isMix 1 _ _ a b (by decide) (by decide)

/-- `w` consists of `2^n` segments of `s` bits; segment `q` holds the `s`-bit partial parities
    (`parN n s`) of the word `buf (g q)` -/
def Seg (n s : Nat) (w : Word) (buf : Nat → Word) (g : Nat → Nat) : Prop :=
  ∀ q p, q < 2 ^ n → p < s → w.getLsbD (q * s + p) = parN n s (buf (g q)) p

theorem seg_zero (buf : Nat → Word) (j : Nat) : Seg 0 64 (buf j) buf (fun _ => j) := by
  intro q p hq _
  have : q = 0 := by omega
  subst this
  simp [parN]

theorem seg_shift (n s : Nat) (w : Word) (buf : Nat → Word) (g : Nat → Nat) (d : Nat)
    (h : Seg n s w (fun i => buf (i + d)) g) : Seg n s w buf (fun q => g q + d) := h

/-- one level of the parity network: mixing halves the segment size -/
theorem seg_step (n s : Nat) (m a b : Word) (buf : Nat → Word) (ga gb : Nat → Nat)
    (h64 : 2 ^ (n + 1) * s = 64) (hm : IsMix s m a b)
    (ha : Seg n (2 * s) a buf ga) (hb : Seg n (2 * s) b buf gb) :
    Seg (n + 1) s m buf (fun q => if q % 2 = 1 then ga (q / 2) else gb (q / 2)) := by
  intro q p hq hp
  have hs : 0 < s := by omega
  have hx : q * s + p < 64 := by
    have : (q + 1) * s ≤ 2 ^ (n + 1) * s := Nat.mul_le_mul_right s (by omega)
    rw [Nat.add_mul, Nat.one_mul] at this
    omega
  have hdiv : (q * s + p) / s = q := by
    rw [Nat.mul_comm, Nat.mul_add_div hs, Nat.div_eq_of_lt hp, Nat.add_zero]
  have hh : q / 2 < 2 ^ n := by rw [Nat.pow_succ] at hq; omega
  have e2 : q / 2 * (2 * s) = 2 * (q / 2 * s) := Nat.mul_left_comm _ _ _
  rw [hm _ hx, hdiv, parN]
  by_cases hodd : q % 2 = 1
  · have hq2 : q = 2 * (q / 2) + 1 := by omega
    have e1 : q * s = 2 * (q / 2 * s) + s := by
      conv => lhs; rw [hq2]
      rw [Nat.add_mul, Nat.mul_assoc, Nat.one_mul]
    have x1 : q * s + p - s = q / 2 * (2 * s) + p := by omega
    have x2 : q * s + p = q / 2 * (2 * s) + (p + s) := by omega
    simp only [hodd, if_true]
    rw [x1, ha _ _ hh (by omega), x2, ha _ _ hh (by omega)]
  · have hq2 : q = 2 * (q / 2) := by omega
    have e1 : q * s = 2 * (q / 2 * s) := by
      conv => lhs; rw [hq2]
      rw [Nat.mul_assoc]
    have x1 : q * s + p + s = q / 2 * (2 * s) + (p + s) := by omega
    have x2 : q * s + p = q / 2 * (2 * s) + p := by omega
    simp only [hodd, if_false]
    rw [x1, hb _ _ hh (by omega), x2, hb _ _ hh (by omega), Bool.xor_comm]

theorem seg_congr (n s : Nat) (w : Word) (buf : Nat → Word) (g g' : Nat → Nat)
    (h : Seg n s w buf g) (hg : ∀ q, q < 2 ^ n → g q = g' q) : Seg n s w buf g' := by
  intro q p hq hp
  rw [← hg q hq]; exact h q p hq hp

theorem seg_mix32 (buf : Nat → Word) (i j : Nat) :
    Seg 1 32 (mix32 (buf i) (buf j)) buf (fun q => if q % 2 = 1 then i else j) :=
  seg_step 0 32 (mix32 (buf i) (buf j)) (buf i) (buf j) buf (fun _ => i) (fun _ => j) (by decide)
    (mix32_isMix _ _) (seg_zero buf i) (seg_zero buf j)

/-- `m4ri_parity64_helper(buf)`: 16 nibbles; nibble `q` holds the 4 partial parities of `buf[4q]` -/
theorem seg_parity64Helper (buf : Nat → Word) :
    Seg 4 4 (parity64Helper buf) buf (fun q => 4 * q) := by
  unfold parity64Helper
  refine seg_congr _ _ _ _ _ _
    (seg_step 3 4 _ _ _ buf _ _ rfl (mix4_isMix _ _)
      (seg_step 2 8 _ _ _ buf _ _ rfl (mix8_isMix _ _)
        (seg_step 1 16 _ _ _ buf _ _ rfl (mix16_isMix _ _) (seg_mix32 buf 0x3C 0x1C) (seg_mix32 buf 0x2C 0x0C))
        (seg_step 1 16 _ _ _ buf _ _ rfl (mix16_isMix _ _) (seg_mix32 buf 0x34 0x14) (seg_mix32 buf 0x24 0x04)))
      (seg_step 2 8 _ _ _ buf _ _ rfl (mix8_isMix _ _)
        (seg_step 1 16 _ _ _ buf _ _ rfl (mix16_isMix _ _) (seg_mix32 buf 0x38 0x18) (seg_mix32 buf 0x28 0x08))
        (seg_step 1 16 _ _ _ buf _ _ rfl (mix16_isMix _ _) (seg_mix32 buf 0x30 0x10) (seg_mix32 buf 0x20 0x00))))
    (by decide)

theorem seg_parity64 (buf : Nat → Word) : Seg 6 1 (parity64 buf) buf (fun q => q) := by
  unfold parity64
  refine seg_congr _ _ _ _ _ _
    (seg_step 5 1 _ _ _ buf _ _ rfl (mix1_isMix _ _)
      (seg_step 4 2 _ _ _ buf _ _ rfl (mix2_isMix _ _)
        (seg_shift _ _ _ buf _ 3 (seg_parity64Helper fun i => buf (i + 3)))
        (seg_shift _ _ _ buf _ 1 (seg_parity64Helper fun i => buf (i + 1))))
      (seg_step 4 2 _ _ _ buf _ _ rfl (mix2_isMix _ _)
        (seg_shift _ _ _ buf _ 2 (seg_parity64Helper fun i => buf (i + 2)))
        (seg_shift _ _ _ buf _ 0 (seg_parity64Helper buf))))
    (by decide)

local instance : Std.Commutative Bool.xor := ⟨Bool.xor_comm⟩
local instance : Std.Associative Bool.xor := ⟨Bool.xor_assoc⟩

/-- the parity (XOR of all 64 bits) of a word -/
def parityBit (v : Word) : Bool := (List.range 64).foldl (fun acc j => acc ^^ v.getLsbD j) false

theorem parN_six (v : Word) : parN 6 1 v 0 = parityBit v := by
  simp only [parN, parityBit, List.range, List.range.loop, List.foldl_cons, List.foldl_nil]
  simp only [Nat.reduceMul, Nat.reduceAdd, Bool.false_xor]
  ac_rfl

/-- **C19.5** bit `i` of `m4ri_parity64(buf)` is the parity of `buf[i]`, for every `i < 64`. -/
theorem parity64_getLsbD (buf : Nat → Word) (i : Nat) (hi : i < 64) :
    (parity64 buf).getLsbD i = parityBit (buf i) := by
  have := seg_parity64 buf i 0 hi (by decide)
  rw [Nat.mul_one, Nat.add_zero] at this
  rw [this, parN_six]

example : (parity64 fun j => BitVec.ofNat 64 j).getLsbD 7 = true := by
  rw [parity64_getLsbD _ 7 (by decide)]; decide +kernel


/-! ## 6. masks and `m4ri_swap_bits` -/

/-- **C19.6a** `__M4RI_MIDDLE_BITMASK(n, off)` (`1 ≤ n`, `n + off ≤ 64`): exactly the bits `off ≤ p < off + n` -/
theorem middleMask_getLsbD (n off p : Nat) (hn : 1 ≤ n) (h : n + off ≤ 64) :
    (middleMask n off).getLsbD p = decide (off ≤ p ∧ p < off + n) := by
  unfold middleMask
  rw [BitVec.getLsbD_shiftLeft, leftMask_getLsbD n _ hn (by omega)]
  by_cases h1 : p < off
  · have : ¬ (off ≤ p ∧ p < off + n) := by omega
    simp [h1, this]
  · by_cases h2 : p < off + n
    · have h3 : p < 64 := by omega
      have h4 : p - off < n := by omega
      have : off ≤ p ∧ p < off + n := by omega
      simp [h1, h3, h4, this]
    · have h4 : ¬ p - off < n := by omega
      have : ¬ (off ≤ p ∧ p < off + n) := by omega
      simp [h4, this]

example : (1 : Nat) ≤ 5 ∧ 5 + 59 ≤ 64 := by decide

/-- where bit `x` comes from in one round of `m4ri_swap_bits` with shift `s` and mask `m` -/
def swapSrc (s : Nat) (m : Word) (x : Nat) : Nat := if m.getLsbD x then x + s else x - s

/-- one round `((v >> s) & m) | ((v & m) << s)` of `m4ri_swap_bits` permutes the bit positions -/
theorem swapRound_getLsbD (s : Nat) (m v : Word)
    (hB : ∀ x, x < 64 → m.getLsbD x = false → s ≤ x ∧ m.getLsbD (x - s) = true)
    (hC : ∀ x, x < 64 → m.getLsbD x = true → s ≤ x → m.getLsbD (x - s) = false)
    (p : Nat) (hp : p < 64) :
    (((v >>> s) &&& m) ||| ((v &&& m) <<< s)).getLsbD p = v.getLsbD (swapSrc s m p) := by
  simp only [BitVec.getLsbD_or, BitVec.getLsbD_and, BitVec.getLsbD_shiftLeft,
    BitVec.getLsbD_ushiftRight, swapSrc]
  cases hm : m.getLsbD p
  · obtain ⟨h1, h2⟩ := hB p hp hm
    have : ¬ p < s := by omega
    simp [hp, this, h2]
  · by_cases h1 : p < s
    · simp [h1, Nat.add_comm]
    · have := hC p hp hm (by omega)
      simp [this, Nat.add_comm]

theorem swapLast_getLsbD (v : Word) (p : Nat) (hp : p < 64) :
    ((v >>> 32) ||| (v <<< 32)).getLsbD p = v.getLsbD (if p < 32 then p + 32 else p - 32) := by
  simp only [BitVec.getLsbD_or, BitVec.getLsbD_shiftLeft, BitVec.getLsbD_ushiftRight]
  by_cases h : p < 32
  · simp [h, Nat.add_comm]
  · have : v.getLsbD (32 + p) = false := by apply BitVec.getLsbD_of_ge; omega
    simp [h, hp, this]

/-- **C19.6b** `m4ri_swap_bits(v)` reverses the word: bit `p` of the result is bit `63 - p` of `v`. -/
theorem swapBits_getLsbD (v : Word) (p : Nat) (hp : p < 64) :
    (swapBits v).getLsbD p = v.getLsbD (63 - p) := by
  have h32 : (if p < 32 then p + 32 else p - 32) < 64 := by split <;> omega
  have b16 : ∀ x, x < 64 → swapSrc 16 0x0000FFFF0000FFFF#64 x < 64 := by decide
  have b8 : ∀ x, x < 64 → swapSrc 8 0x00FF00FF00FF00FF#64 x < 64 := by decide
  have b4 : ∀ x, x < 64 → swapSrc 4 0x0F0F0F0F0F0F0F0F#64 x < 64 := by decide
  have b2 : ∀ x, x < 64 → swapSrc 2 0x3333333333333333#64 x < 64 := by decide
  have fin : ∀ x, x < 64 →
      swapSrc 1 0x5555555555555555#64 (swapSrc 2 0x3333333333333333#64 (swapSrc 4 0x0F0F0F0F0F0F0F0F#64
        (swapSrc 8 0x00FF00FF00FF00FF#64 (swapSrc 16 0x0000FFFF0000FFFF#64
          (if x < 32 then x + 32 else x - 32))))) = 63 - x := by decide
  unfold swapBits
  simp only []
  rw [swapLast_getLsbD _ _ hp,
    swapRound_getLsbD 16 _ _ (by decide) (by decide) _ h32,
    swapRound_getLsbD 8 _ _ (by decide) (by decide) _ (b16 _ h32),
    swapRound_getLsbD 4 _ _ (by decide) (by decide) _ (b8 _ (b16 _ h32)),
    swapRound_getLsbD 2 _ _ (by decide) (by decide) _ (b4 _ (b8 _ (b16 _ h32))),
    swapRound_getLsbD 1 _ _ (by decide) (by decide) _ (b2 _ (b4 _ (b8 _ (b16 _ h32)))),
    fin p hp]


/-! ## 7. `m4ri_spread_bits` / `m4ri_shrink_bits` -/

theorem Gray.foldl_or_getLsbD (f : Nat → Word) (n p : Nat) :
    ((List.range n).foldl (fun to i => to ||| f i) 0).getLsbD p = true ↔
      ∃ i, i < n ∧ (f i).getLsbD p = true := by
  induction n with
  | zero => simp
  | succ n ih =>
    rw [List.range_succ, List.foldl_append]
    simp only [List.foldl_cons, List.foldl_nil, BitVec.getLsbD_or, Bool.or_eq_true, ih]
    constructor
    · rintro (⟨i, hi, h⟩ | h)
      · exact ⟨i, by omega, h⟩
      · exact ⟨n, by omega, h⟩
    · rintro ⟨i, hi, h⟩
      by_cases e : i = n
      · subst e; exact Or.inr h
      · exact Or.inl ⟨i, by omega, h⟩

theorem Gray.oneHot_getLsbD (i p : Nat) : ((1#64) <<< i).getLsbD p = decide (p = i ∧ p < 64) := by
  rw [BitVec.getLsbD_shiftLeft, BitVec.getLsbD_one]
  by_cases h : p < 64 <;> by_cases h2 : p < i <;> by_cases h3 : p = i <;> simp [h, h2, h3] <;> omega

/-- the documented precondition on the position array: `Q[0] < Q[1] < … < Q[length-1]`, all in the
    64-bit window starting at `base` -/
structure SpreadPre (Q : List Nat) (length base : Nat) : Prop where
  mono : ∀ i j, i < j → j < length → Q.getD i 0 < Q.getD j 0
  base_le : base ≤ Q.getD 0 0
  last_lt : Q.getD (length - 1) 0 - base < 64

theorem SpreadPre.ge {Q : List Nat} {length base : Nat} (h : SpreadPre Q length base) :
    ∀ i, i < length → base + i ≤ Q.getD i 0 := by
  intro i
  induction i with
  | zero => intro _; have := h.base_le; omega
  | succ i ih =>
    intro hi
    have := ih (by omega)
    have := h.mono i (i + 1) (by omega) hi
    omega

theorem SpreadPre.lt {Q : List Nat} {length base : Nat} (h : SpreadPre Q length base)
    (i : Nat) (hi : i < length) : Q.getD i 0 - base < 64 := by
  have hl := h.last_lt
  by_cases e : i = length - 1
  · rw [e]; exact hl
  · have := h.mono i (length - 1) (by omega) (by omega)
    omega

theorem SpreadPre.inj {Q : List Nat} {length base : Nat} (h : SpreadPre Q length base)
    (i j : Nat) (hi : i < length) (hj : j < length) (e : Q.getD i 0 = Q.getD j 0) : i = j := by
  rcases Nat.lt_trichotomy i j with h1 | h1 | h1
  · have := h.mono i j h1 hj; omega
  · exact h1
  · have := h.mono j i h1 hi; omega

/-- **C19.7a** `m4ri_spread_bits`: bit `p` of the result is set iff `p = Q[i] - base` for some `i < length`
    with bit `i` of the source set -/
theorem spreadBits_getLsbD_iff (w : Word) (Q : List Nat) (length base : Nat) (h : SpreadPre Q length base)
    (p : Nat) : (spreadBits w Q length base).getLsbD p = true ↔
      ∃ i, i < length ∧ p = Q.getD i 0 - base ∧ w.getLsbD i = true := by
  unfold spreadBits
  rw [Gray.foldl_or_getLsbD]
  constructor
  · rintro ⟨i, hi, hb⟩
    refine ⟨i, hi, ?_⟩
    have h1 := h.ge i hi
    rw [BitVec.getLsbD_shiftLeft, BitVec.getLsbD_and, Gray.oneHot_getLsbD] at hb
    simp only [Bool.and_eq_true, decide_eq_true_eq, Bool.not_eq_true', decide_eq_false_iff_not] at hb
    obtain ⟨⟨_, h3⟩, h4, h5, _⟩ := hb
    rw [h5] at h4
    exact ⟨by omega, h4⟩
  · rintro ⟨i, hi, hp, hb⟩
    refine ⟨i, hi, ?_⟩
    have h1 := h.ge i hi
    have h2 := h.lt i hi
    have e : p - (Q.getD i 0 - i - base) = i := by omega
    rw [BitVec.getLsbD_shiftLeft, BitVec.getLsbD_and, Gray.oneHot_getLsbD, e, hb]
    have a1 : decide (p < 64) = true := decide_eq_true (by omega)
    have a2 : decide (p < Q.getD i 0 - i - base) = false := decide_eq_false (by omega)
    have a3 : decide (i = i ∧ i < 64) = true := decide_eq_true ⟨rfl, by omega⟩
    rw [a1, a2, a3]; rfl

/-- bit `i` of the source lands at position `Q[i] - base` -/
theorem spreadBits_getLsbD_at (w : Word) (Q : List Nat) (length base : Nat) (h : SpreadPre Q length base)
    (i : Nat) (hi : i < length) :
    (spreadBits w Q length base).getLsbD (Q.getD i 0 - base) = w.getLsbD i := by
  rw [Bool.eq_iff_iff, spreadBits_getLsbD_iff w Q length base h]
  constructor
  · rintro ⟨j, hj, e, hb⟩
    have h1 := h.ge i hi
    have h2 := h.ge j hj
    have : i = j := h.inj i j hi hj (by omega)
    subst this; exact hb
  · intro hb; exact ⟨i, hi, rfl, hb⟩

/-- **C19.7b** `m4ri_shrink_bits`: bit `p` of the result is bit `Q[p] - base` of the source (`p < length`),
    and zero above -/
theorem shrinkBits_getLsbD (v : Word) (Q : List Nat) (length base : Nat) (h : SpreadPre Q length base)
    (p : Nat) : (shrinkBits v Q length base).getLsbD p =
      (decide (p < length) && v.getLsbD (Q.getD p 0 - base)) := by
  rw [Bool.eq_iff_iff]
  unfold shrinkBits
  rw [Gray.foldl_or_getLsbD]
  simp only [BitVec.getLsbD_ushiftRight, BitVec.getLsbD_and, Gray.oneHot_getLsbD, Bool.and_eq_true,
    decide_eq_true_eq]
  constructor
  · rintro ⟨i, hi, hb, h5, _⟩
    have h1 := h.ge i hi
    have : p = i := by omega
    subst this
    have e : Q.getD p 0 - p - base + p = Q.getD p 0 - base := by omega
    rw [e] at hb
    exact ⟨hi, hb⟩
  · rintro ⟨hp, hb⟩
    have h1 := h.ge p hp
    have h2 := h.lt p hp
    have e : Q.getD p 0 - p - base + p = Q.getD p 0 - base := by omega
    exact ⟨p, hp, by rw [e]; exact hb, e, by omega⟩

/-- **C19.7c** `shrink ∘ spread = id` on `length`-bit values -/
theorem shrinkBits_spreadBits (w : Word) (Q : List Nat) (length base : Nat) (h : SpreadPre Q length base)
    (hw : w.toNat < 2 ^ length) :
    shrinkBits (spreadBits w Q length base) Q length base = w := by
  apply BitVec.eq_of_getLsbD_eq
  intro p _
  rw [shrinkBits_getLsbD _ Q length base h]
  by_cases hp : p < length
  · rw [spreadBits_getLsbD_at w Q length base h p hp]; simp [hp]
  · have : w.getLsbD p = false := by
      rw [BitVec.getLsbD]
      exact Gray.testBit_ge_of_lt hw (by omega)
    simp [hp, this]

/-- non-vacuity: `Q = [10, 12, 70]`, `base = 8`, `length = 3` (C requires `1 ≤ length ≤ 16`) -/
example : SpreadPre [10, 12, 70] 3 8 ∧ (3 : Nat) ≤ 16 ∧ (5#64).toNat < 2 ^ 3 := by
  have hm : ∀ j, j < 3 → ∀ i, i < j → [10, 12, 70].getD i 0 < [10, 12, 70].getD j 0 := by decide
  exact ⟨⟨fun i j hij hj => hm j hj i hij, by decide, by decide⟩, by decide, by decide⟩


/-! ## extras: `__M4RI_MIDDLE_BITMASK(0, off)` and `m4ri_lesser_LSB` -/

/-- `__M4RI_MIDDLE_BITMASK(0, off) = m4ri_ffff << off` (the `n = 0` corner: `LEFT_BITMASK(0)` is all ones) -/
theorem middleMask_zero_getLsbD (off p : Nat) :
    (middleMask 0 off).getLsbD p = decide (off ≤ p ∧ p < 64) := by
  unfold middleMask
  rw [leftMask_zero, BitVec.getLsbD_shiftLeft]
  simp only [ffff, BitVec.getLsbD_allOnes]
  by_cases h1 : p < 64 <;> by_cases h2 : p < off <;> simp [h1, h2] <;> omega

/-- every non-zero number has a lowest set bit `e`; `2^e` exactly divides it -/
theorem Gray.exists_lowest_bit (n : Nat) (hn : n ≠ 0) :
    ∃ e, n.testBit e = true ∧ (∀ p, p < e → n.testBit p = false) ∧ 2 ^ e ∣ n ∧ ¬ 2 ^ (e + 1) ∣ n := by
  induction n using Nat.strongRecOn with
  | _ n ih =>
    by_cases hodd : n % 2 = 1
    · refine ⟨0, ?_, fun p hp => by omega, ⟨n, by omega⟩, ?_⟩
      · rw [Nat.testBit_zero]; simp [hodd]
      · rintro ⟨c, hc⟩; omega
    · obtain ⟨e, h1, h2, ⟨c, hc⟩, h4⟩ := ih (n / 2) (by omega) (by omega)
      refine ⟨e + 1, ?_, ?_, ⟨c, ?_⟩, ?_⟩
      · rw [Nat.testBit_succ]; exact h1
      · intro p hp
        cases p with
        | zero => rw [Nat.testBit_zero]; simp; omega
        | succ p => rw [Nat.testBit_succ]; exact h2 p (by omega)
      · rw [Nat.pow_succ, Nat.mul_right_comm, ← hc]; omega
      · rintro ⟨d, hd⟩
        apply h4
        refine ⟨d, ?_⟩
        rw [Nat.pow_succ, Nat.mul_right_comm] at hd
        omega

/-- `(a - 1) ^ a` is the mask of the bits up to and including the lowest set bit of `a` -/
theorem sub_one_xor_getLsbD_Gray (a : Word) (e : Nat) (h1 : 2 ^ e ∣ a.toNat) (h2 : ¬ 2 ^ (e + 1) ∣ a.toNat)
    (ha : a ≠ 0) (p : Nat) : ((a - 1) ^^^ a).getLsbD p = decide (p ≤ e) := by
  have hpos : 0 < a.toNat := by
    rcases Nat.eq_zero_or_pos a.toNat with h | h
    · exfalso; apply ha; apply BitVec.eq_of_toNat_eq; simpa using h
    · exact h
  have hlt : a.toNat < 2 ^ 64 := a.isLt
  have e1 : (a - 1).toNat = a.toNat - 1 := by
    have one : (1 : Word).toNat = 1 := rfl
    rw [BitVec.toNat_sub, one]
    simp only [Nat.reducePow] at hlt ⊢
    omega
  have e2 : a.toNat - 1 + 1 = a.toNat := by omega
  rw [BitVec.getLsbD, BitVec.toNat_xor, e1]
  have := Gray.xor_succ_testBit (a.toNat - 1) e (by rw [e2]; exact h1) (by rw [e2]; exact h2) p
  rw [e2] at this
  exact this

/-- **`m4ri_lesser_LSB(a, b)`** is true iff `a` has a lowest set bit `e` and `b` has no set bit at or
    below `e` — i.e. `LSBI(a) < LSBI(b)` with `LSBI(0) = 64`. -/
theorem lesserLSB_iff_Gray (a b : Word) :
    lesserLSB a b = true ↔
      ∃ e, e < 64 ∧ a.getLsbD e = true ∧ (∀ p, p < e → a.getLsbD p = false) ∧
        (∀ p, p ≤ e → b.getLsbD p = false) := by
  by_cases ha : a = 0
  · subst ha
    have : lesserLSB 0 b = false := by
      unfold lesserLSB
      by_cases hb : b = 0
      · rw [if_neg (by simpa using hb)]; simp
      · have e : (((0 : Word) - 1) ^^^ 0) = BitVec.allOnes 64 := by decide
        rw [if_pos hb, e, BitVec.allOnes_and, decide_eq_true hb]; rfl
    rw [this]
    simp
  · have hn : a.toNat ≠ 0 := by
      intro h; apply ha; apply BitVec.eq_of_toNat_eq; simpa using h
    obtain ⟨e, h1, h2, h3, h4⟩ := Gray.exists_lowest_bit a.toNat hn
    have he : e < 64 := by
      rcases Nat.lt_or_ge e 64 with h | h
      · exact h
      · have := Gray.testBit_ge_of_lt a.isLt h; rw [this] at h1; cases h1
    have hmask := sub_one_xor_getLsbD_Gray a e h3 h4 ha
    have key : lesserLSB a b = true ↔ ∀ p, p ≤ e → b.getLsbD p = false := by
      unfold lesserLSB
      by_cases hb : b = 0
      · rw [if_neg (by simpa using hb), decide_eq_false ha]
        subst hb; simp
      · rw [if_pos hb]
        simp only [ne_eq, Bool.not_eq_true', decide_eq_false_iff_not, Decidable.not_not]
        constructor
        · intro h p hp
          have := congrArg (fun w => w.getLsbD p) h
          rw [BitVec.getLsbD_and, hmask, decide_eq_true hp] at this
          simpa using this
        · intro h
          apply BitVec.eq_of_getLsbD_eq
          intro p _
          rw [BitVec.getLsbD_and, hmask]
          by_cases hp : p ≤ e
          · simp [h p hp]
          · simp [hp]
    rw [key]
    constructor
    · intro h; exact ⟨e, he, h1, h2, h⟩
    · rintro ⟨e', _, g1, g2, g3⟩
      have : e' = e := by
        rcases Nat.lt_trichotomy e' e with h | h | h
        · have := h2 e' h; rw [BitVec.getLsbD] at g1; rw [g1] at this; cases this
        · exact h
        · have := g2 e h; rw [BitVec.getLsbD] at this; rw [h1] at this; cases this
      subst this; exact g3

example : lesserLSB 0x4#64 0x18#64 = true ∧ lesserLSB 0x8#64 0x18#64 = false ∧
    lesserLSB 0#64 0x18#64 = false ∧ lesserLSB 0x4#64 0#64 = true := by decide

end M4ri
