/-
  Property C11 (memory safety), part 2: safety theorems for the access-trace model `M4ri/Safety2.lean`
  (same three predicates and the same conventions as `M4riProofs/Safety.lean`).
  Core Lean only.
-/
import M4ri.Safety2
import M4riProofs.Safety
namespace M4ri.Safety
set_option linter.unusedSimpArgs false
set_option linter.unusedVariables false
/-! ## 1. `mzd_process_rows2..6`
    Operand 0 = `M`, operand `j+1` = `T_j`.
    Preconditions: `stoprow ≤ M->nrows`, `1 ≤ k ≤ 64` (`assert(k <= m4ri_radix)`), `startcol + k ≤ M->ncols`,
    every index delivered by `L_j` is a row of `T_j`, every `T_j` is at least as wide as `M`
    (the callers allocate the tables as `2^k × M->ncols`).
    For alignment: every table has the phase of `M` (the `assert`s of `_mzd_combine_N`). -/

theorem accProcessRowsN_inBounds (hs : Nat → Hdr) (N startrow stoprow startcol k : Nat) (x : Nat → Nat → Nat)
    (hstop : stoprow ≤ (hs 0).nrows) (hk1 : 1 ≤ k) (hk : k ≤ 64) (hcol : startcol + k ≤ (hs 0).ncols)
    (hx : ∀ r j, j < N → x r j < (hs (j + 1)).nrows)
    (hTw : ∀ j, j < N → (hs 0).width ≤ (hs (j + 1)).width) :
    InBounds hs (accProcessRowsN (hs 0) N startrow stoprow startcol k x) := by
  have hw0 := width_eq (hs 0)
  unfold accProcessRowsN
  extract_lets block wide
  trace_simp [accReadBits]
  intro r hr0 hr1
  refine ⟨?_, ?_⟩
  · apply accReadBitsOp_all hs <;> omega
  · refine ⟨fun _ => trivial, fun _ => ?_⟩
    have hwide : 1 ≤ wide := by clear_lets; omega
    apply (inBounds_def _ _).mp
    apply accCombineN_inBounds hs N
    · omega
    · show r.toNat < _; omega
    · show 0 ≤ block; clear_lets; omega
    · show block + (wide.toNat : Int) ≤ _; clear_lets; omega
    · intro j hj
      have h1 := hx r.toNat j hj
      have h2 := hTw j hj
      refine ⟨h1, ?_, ?_⟩
      · show 0 ≤ block; clear_lets; omega
      · show block + (wide.toNat : Int) ≤ _; clear_lets; omega

theorem accProcessRowsN_aligned (hs : Nat → Hdr) (N startrow stoprow startcol k : Nat) (x : Nat → Nat → Nat)
    (hph : ∀ j, j < N → (hs (j + 1)).phase = (hs 0).phase) :
    Aligned hs (accProcessRowsN (hs 0) N startrow stoprow startcol k x) := by
  unfold accProcessRowsN
  extract_lets block wide
  trace_simp [accReadBits]
  intro r hr0 hr1
  refine ⟨accReadBitsOp_aligned hs _ _ _ _, fun _ => trivial, fun _ => ?_⟩
  apply (aligned_def _ _).mp
  apply accCombineN_aligned hs N
  intro j hj
  show (block + ((hs (j + 1)).phase : Int)) % 2 = (block + ((hs 0).phase : Int)) % 2
  rw [hph j hj]

/-- equal phases are NECESSARY: `M` a window starting at an odd word (phase 1), tables fresh from `mzd_init`
    (phase 0) — every other precondition holds — gives misaligned `__m128i` loads from the tables
    (and trips the `assert`s of `_mzd_combine_2` in a debug build) -/
theorem accProcessRowsN_phase_witness :
    ¬ Aligned (fun o => if o = 0 then ⟨2, 256, 6, 1⟩ else ⟨4, 256, 4, 0⟩)
        (accProcessRowsN ⟨2, 256, 6, 1⟩ 2 0 1 0 4 (fun _ _ => 1)) := by decide

theorem kSplit_le (N k : Nat) (hN : 2 ≤ N) : ∀ kj ∈ kSplit N k, kj ≤ k / 2 + 1 := by
  intro kj hkj
  unfold kSplit at hkj
  split at hkj
  · simp only [List.mem_cons, List.not_mem_nil, or_false] at hkj
    rcases hkj with rfl | rfl <;> omega
  · simp only [List.mem_map, List.mem_range] at hkj
    obtain ⟨j, hj, rfl⟩ := hkj
    have h3 : 3 ≤ N := by omega
    have : k / N ≤ k / 3 := Nat.div_le_div_left h3 (by omega)
    split <;> omega

theorem shProcessRowsN_ok (N startcol k : Nat) (hN : 2 ≤ N) (hk1 : 1 ≤ k) (hk : k ≤ 64) :
    ShiftsOK (shProcessRowsN N startcol k) := by
  unfold shProcessRowsN
  rw [shiftsOK_def, all_append, all_append]
  refine ⟨⟨shReadBits_all _ _ hk1 hk, ?_⟩, ?_⟩
  · intro s hs
    simp only [List.mem_map] at hs
    obtain ⟨kj, hkj, rfl⟩ := hs
    have := kSplit_le N k hN kj hkj
    omega
  · intro s hs
    simp only [List.mem_map] at hs
    obtain ⟨kj, hkj, rfl⟩ := hs
    have := kSplit_le N k hN kj (List.mem_of_mem_take hkj)
    omega

-- non-vacuity: M = 4 x 640 window at an odd word, three tables 8 x 640 with the same phase, k = 7 bits from column 60
example : InBounds (fun o => if o = 0 then ⟨4, 640, 12, 1⟩ else ⟨8, 640, 12, 1⟩)
    (accProcessRowsN ⟨4, 640, 12, 1⟩ 3 0 4 60 7 (fun r j => (r + j) % 8)) :=
  accProcessRowsN_inBounds (fun o => if o = 0 then ⟨4, 640, 12, 1⟩ else ⟨8, 640, 12, 1⟩) 3 0 4 60 7 _
    (by decide) (by decide) (by decide) (by decide) (by intro r j _; show (r + j) % 8 < 8; omega)
    (by intro j _; simp [Hdr.width])
example : Aligned (fun o => if o = 0 then ⟨4, 640, 12, 1⟩ else ⟨8, 640, 12, 1⟩)
    (accProcessRowsN ⟨4, 640, 12, 1⟩ 3 0 4 60 7 (fun r j => (r + j) % 8)) :=
  accProcessRowsN_aligned (fun o => if o = 0 then ⟨4, 640, 12, 1⟩ else ⟨8, 640, 12, 1⟩) 3 0 4 60 7 _
    (by intro j _; rfl)
example : vrd 0 1 1 ∈ accProcessRowsN ⟨4, 640, 12, 1⟩ 3 0 4 60 7 (fun r j => (r + j) % 8) := by decide

/-! ## 2. mzp.c -/

/-! ### `mzd_apply_p_left`, `mzd_apply_p_left_trans`.  Operand 0 = `A`.
    Precondition: `P->values[i] < A->nrows` for `i < MIN(P->length, A->nrows)`. -/

theorem accRowSwap_all (h : Hdr) (rowa rowb sb : Nat) (ha : rowa < h.nrows) (hb : rowb < h.nrows) :
    All (fun a => a.inBounds ((fun _ => h) a.op)) (accRowSwap h rowa rowb sb) :=
  accRowSwap_inBounds h rowa rowb sb ha hb

theorem accApplyPLeft_inBounds (h : Hdr) (plen : Nat) (P : Nat → Nat)
    (hP : ∀ i, i < plen → i < h.nrows → P i < h.nrows) :
    InBounds (fun _ => h) (accApplyPLeft h plen P) := by
  unfold accApplyPLeft
  extract_lets length
  trace_simp []
  refine ⟨fun _ => trivial, fun _ => ?_⟩
  intro i hi0 hi1
  apply accRowSwap_all
  · clear_lets; omega
  · apply hP <;> (clear_lets; omega)

theorem accApplyPLeftTrans_inBounds (h : Hdr) (plen : Nat) (P : Nat → Nat)
    (hP : ∀ i, i < plen → i < h.nrows → P i < h.nrows) :
    InBounds (fun _ => h) (accApplyPLeftTrans h plen P) := by
  unfold accApplyPLeftTrans
  extract_lets length
  trace_simp []
  refine ⟨fun _ => trivial, fun _ => ?_⟩
  intro i hi0 hi1
  apply accRowSwap_all
  · clear_lets; omega
  · apply hP <;> (clear_lets; omega)

/-- the bound on the entries of `P` is necessary -/
theorem accApplyPLeft_values_witness :
    ¬ InBounds (fun _ => ⟨2, 64, 2, 0⟩) (accApplyPLeft ⟨2, 64, 2, 0⟩ 2 (fun i => i + 1)) := by decide

example : InBounds (fun _ => ⟨4, 200, 6, 1⟩) (accApplyPLeft ⟨4, 200, 6, 1⟩ 3 (fun i => 3)) :=
  accApplyPLeft_inBounds _ _ _ (by intro i _ _; decide)
example : InBounds (fun _ => ⟨4, 200, 6, 1⟩) (accApplyPLeftTrans ⟨4, 200, 6, 1⟩ 9 (fun i => 3)) :=
  accApplyPLeftTrans_inBounds _ _ _ (by intro i _ _; decide)

theorem accApplyPLeft_aligned (hs : Nat → Hdr) (h : Hdr) (plen : Nat) (P : Nat → Nat) :
    Aligned hs (accApplyPLeft h plen P) := by
  have key := fun a b c => (aligned_def _ _).mp (accRowSwap_aligned hs h a b c)
  unfold accApplyPLeft; trace_simp []; fin_tail key
theorem accApplyPLeftTrans_aligned (hs : Nat → Hdr) (h : Hdr) (plen : Nat) (P : Nat → Nat) :
    Aligned hs (accApplyPLeftTrans h plen P) := by
  have key := fun a b c => (aligned_def _ _).mp (accRowSwap_aligned hs h a b c)
  unfold accApplyPLeftTrans; trace_simp []; fin_tail key

/-! ### `mzd_col_swap(M, cola, colb)`: `cola, colb < M->ncols` -/
theorem accColSwap_inBounds (h : Hdr) (cola colb : Nat) (ha : cola < h.ncols) (hb : colb < h.ncols) :
    InBounds (fun _ => h) (accColSwap h cola colb) :=
  accColSwapInRows_inBounds h cola colb 0 h.nrows ha hb (Nat.le_refl _)
theorem accColSwap_aligned (hs : Nat → Hdr) (h : Hdr) (cola colb : Nat) : Aligned hs (accColSwap h cola colb) :=
  accColSwapInRows_aligned hs cola colb 0 h.nrows
theorem shColSwap_ok (cola colb : Nat) : ShiftsOK (shColSwap cola colb) := shColSwapInRows_ok cola colb
example : InBounds (fun _ => ⟨5, 200, 6, 1⟩) (accColSwap ⟨5, 200, 6, 1⟩ 3 199) :=
  accColSwap_inBounds _ _ _ (by decide) (by decide)

/-! ### the mathematical permutation of `_mzd_apply_p_right_even` -/

theorem swapAt_lt (p : Nat → Nat) (a b n : Nat) (hp : ∀ c, c < n → p c < n) (ha : a < n) (hb : b < n) :
    ∀ c, c < n → swapAt p a b c < n := by
  intro c hc
  unfold swapAt
  split
  · exact hp a ha
  · split
    · exact hp b hb
    · exact hp c hc

/-- if `P->values[i] < ncols` for all `i < length ≤ ncols`, every entry of `permutation[0..ncols)` stays
    `< ncols` (so `permutation[P->values[i]]` is inside the `ncols`-element array, and the words
    `permutation[c] / 64` gathered from are words of the rows of `B`) -/
theorem mathPerm_lt (n length start_col : Nat) (P : Nat → Nat) (notrans : Bool) (hlen : length ≤ n)
    (hP : ∀ i, i < length → P i < n) : ∀ c, c < n → mathPerm length start_col P notrans c < n := by
  unfold mathPerm
  generalize hl : List.range (length - start_col) = l
  have hmem : ∀ m ∈ l, m < length - start_col := by
    intro m hm; rw [← hl] at hm; exact List.mem_range.mp hm
  clear hl
  have gen : ∀ (l : List Nat) (p0 : Nat → Nat), (∀ m ∈ l, m < length - start_col) → (∀ c, c < n → p0 c < n) →
      ∀ c, c < n → (l.foldl (fun p m => let i := if notrans then length - (start_col + m) - 1 else start_col + m
                                        swapAt p i (P i)) p0) c < n := by
    intro l
    induction l with
    | nil => intro p0 _ h0; simpa using h0
    | cons m l ih =>
      intro p0 hm h0
      rw [List.foldl_cons]
      apply ih
      · intro m' hm'; exact hm m' (List.mem_cons_of_mem _ hm')
      · have hm0 := hm m (List.mem_cons_self ..)
        have hi : (if notrans then length - (start_col + m) - 1 else start_col + m) < length := by
          split <;> omega
        exact swapAt_lt p0 _ _ n h0 (by omega) (hP _ hi)
  exact gen l _ hmem (fun c hc => hc)

/-! ### `mzd_write_col_to_rows_blockd(A, B, permutation, write_mask, start_row, stop_row, length)`
    Operand 0 = `A`, 1 = `B`.  Preconditions: `0 ≤ start_row`, `stop_row ≤ A->nrows`,
    `stop_row - start_row ≤ B->nrows`, `length ≤ 64 * A->width`, `permutation[c] < B->ncols` for `c < length`. -/
theorem accWriteColToRowsBlockd_all (hs : Nat → Hdr) (perm : Nat → Nat) (skip : Nat → Bool)
    (start_row stop_row length : Int) (h0 : 0 ≤ start_row) (hstop : stop_row ≤ (hs 0).nrows)
    (hB : stop_row - start_row ≤ (hs 1).nrows) (hlen : length ≤ 64 * ((hs 0).width : Int))
    (hperm : ∀ c : Nat, (c : Int) < length → perm c < (hs 1).ncols) :
    All (fun a => a.inBounds (hs a.op)) (accWriteColToRowsBlockd perm skip start_row stop_row length) := by
  have hw1 := width_eq (hs 1)
  unfold accWriteColToRowsBlockd
  trace_simp []
  intro blk hb0 hb1
  refine ⟨fun _ => trivial, fun _ => ?_⟩
  intro r hr0 hr1
  refine ⟨?_, ?_, ?_, trivial⟩
  · intro kk hk0 hk1
    have hc := hperm (64 * blk + (min 64 (length - 64 * blk) - 1 - kk)).toNat (by omega)
    refine ⟨⟨?_, ?_, ?_⟩, trivial⟩ <;> omega
  · omega
  · omega

theorem accWriteColToRowsBlockd_inBounds (hs : Nat → Hdr) (perm : Nat → Nat) (skip : Nat → Bool)
    (start_row stop_row length : Int) (h0 : 0 ≤ start_row) (hstop : stop_row ≤ (hs 0).nrows)
    (hB : stop_row - start_row ≤ (hs 1).nrows) (hlen : length ≤ 64 * ((hs 0).width : Int))
    (hperm : ∀ c : Nat, (c : Int) < length → perm c < (hs 1).ncols) :
    InBounds hs (accWriteColToRowsBlockd perm skip start_row stop_row length) :=
  accWriteColToRowsBlockd_all hs perm skip start_row stop_row length h0 hstop hB hlen hperm

theorem accWriteColToRowsBlockd_aligned (hs : Nat → Hdr) (perm : Nat → Nat) (skip : Nat → Bool)
    (start_row stop_row length : Int) :
    All (fun a => a.aligned (hs a.op)) (accWriteColToRowsBlockd perm skip start_row stop_row length) := by
  unfold accWriteColToRowsBlockd; trace_simp []; fin_omega

/-! ### `_mzd_apply_p_right_even(A, P, start_row, start_col, notrans)`
    Operand 0 = `A`, operand 1 = `B`, the temporary the routine allocates itself as
    `mzd_init(step_size, A->ncols)` (hypotheses `hBc`, `hBr` say exactly that).
    Preconditions: `start_row ≤ A->nrows`, `A->ncols ≥ 1`, `P->values[i] < A->ncols` for `i < MIN(P->length, A->ncols)`.
    No condition on `start_col`.
    `A->ncols ≥ 1` is needed by the REAL code for a second reason that this model cannot show (Lean's `x / 0 = 0`):
    with `A->ncols = 0` and `A->nrows > 0` the computation of `step_size` divides by `A->width = 0` (mzp.c:197, and
    mzp.c:281 in `mzd_apply_p_right_trans_tri`).  Confirmed on the real code under UBSan:
    `mzd_apply_p_right_trans(mzd_init(3, 0), mzp_init(0))` → `mzp.c:197:24: runtime error: division by zero`. -/

theorem stepSize_pos (h : Hdr) (L1 start_row : Nat) (hr : start_row < h.nrows) : 1 ≤ stepSize h L1 start_row := by
  unfold stepSize; omega

theorem accApplyPRightEvenPerm_inBounds (hs : Nat → Hdr) (L1 : Nat) (perm : Nat → Nat) (start_row : Nat)
    (hsr : start_row ≤ (hs 0).nrows) (hc1 : 1 ≤ (hs 0).ncols)
    (hBc : (hs 1).ncols = (hs 0).ncols) (hBr : stepSize (hs 0) L1 start_row ≤ (hs 1).nrows)
    (hperm : ∀ c, c < (hs 0).ncols → perm c < (hs 0).ncols) :
    InBounds hs (accApplyPRightEvenPerm (hs 0) L1 perm start_row) := by
  have hw0 := width_eq (hs 0)
  have hw1 := width_eq (hs 1)
  unfold accApplyPRightEvenPerm
  extract_lets nrows width step0 nstrips
  have hstep0 : nrows - start_row ≠ 0 → 1 ≤ step0 := fun hne =>
    stepSize_pos (hs 0) L1 start_row (by clear_lets; omega)
  have hBr' : step0 ≤ (hs 1).nrows := hBr
  clear_value step0
  trace_simp []
  refine ⟨fun _ => trivial, fun hne => ?_⟩
  have hstep0 := hstep0 hne
  intro s hs0 hs1
  have hmul : 0 ≤ s * step0 := Int.mul_nonneg hs0 (by omega)
  generalize s * step0 = m at *
  rw [hBc] at hw1
  refine ⟨?_, ?_⟩
  · intro k hk0 hk1 j hj0 hj1
    clear_lets
    refine ⟨?_, ?_, ?_, ?_, trivial⟩ <;> refine ⟨?_, ?_, ?_⟩ <;> omega
  · apply accWriteColToRowsBlockd_all hs
    · omega
    · clear_lets; omega
    · clear_lets; omega
    · clear_lets; omega
    · intro c hc
      rw [hBc]; exact hperm c (by omega)

theorem accApplyPRightEvenPerm_aligned (hs : Nat → Hdr) (h : Hdr) (L1 : Nat) (perm : Nat → Nat) (start_row : Nat) :
    Aligned hs (accApplyPRightEvenPerm h L1 perm start_row) := by
  unfold accApplyPRightEvenPerm
  trace_simp []
  fin_tail (accWriteColToRowsBlockd_aligned hs)

theorem accApplyPRightEven_inBounds (hs : Nat → Hdr) (L1 plen : Nat) (P : Nat → Nat) (start_row start_col : Nat)
    (notrans : Bool) (hsr : start_row ≤ (hs 0).nrows) (hc1 : 1 ≤ (hs 0).ncols)
    (hBc : (hs 1).ncols = (hs 0).ncols) (hBr : stepSize (hs 0) L1 start_row ≤ (hs 1).nrows)
    (hP : ∀ i, i < plen → i < (hs 0).ncols → P i < (hs 0).ncols) :
    InBounds hs (accApplyPRightEven (hs 0) L1 plen P start_row start_col notrans) := by
  unfold accApplyPRightEven
  apply accApplyPRightEvenPerm_inBounds hs L1 _ start_row hsr hc1 hBc hBr
  apply mathPerm_lt
  · omega
  · intro i hi; exact hP i (by omega) (by omega)

theorem accApplyPRightEven_aligned (hs : Nat → Hdr) (h : Hdr) (L1 plen : Nat) (P : Nat → Nat)
    (start_row start_col : Nat) (notrans : Bool) :
    Aligned hs (accApplyPRightEven h L1 plen P start_row start_col notrans) :=
  accApplyPRightEvenPerm_aligned hs h L1 _ start_row

/-- the bound on the entries of `P` is necessary: `P->values[0] = 64` on a 1 x 64 matrix makes the gather read
    word 1 of the one-word row of `B` (and, before that, index `permutation[64]` of a 64-element array) -/
theorem accApplyPRightEven_values_witness :
    ¬ InBounds (fun _ => ⟨1, 64, 2, 0⟩) (accApplyPRightEven ⟨1, 64, 2, 0⟩ 32768 1 (fun _ => 64) 0 0 false) := by
  decide

theorem shApplyPRightEvenPerm_ok (h : Hdr) (perm : Nat → Nat) : ShiftsOK (shApplyPRightEvenPerm h perm) := by
  unfold shApplyPRightEvenPerm
  trace_simp []
  fin_omega

-- non-vacuity: a 5 x 200 window at an odd word, strips of 2 rows (L1 = 64 bytes: 8 words / 4 words per row)
example : InBounds (fun o => if o = 0 then ⟨5, 200, 6, 1⟩ else ⟨2, 200, 4, 0⟩)
    (accApplyPRightEven ⟨5, 200, 6, 1⟩ 64 200 (fun i => if i < 100 then i + 100 else i) 0 0 false) :=
  accApplyPRightEven_inBounds (fun o => if o = 0 then ⟨5, 200, 6, 1⟩ else ⟨2, 200, 4, 0⟩) 64 200 _ 0 0 false
    (by decide) (by decide) (by decide) (by decide)
    (by intro i _ hi; have : i < 200 := hi; show (if i < 100 then i + 100 else i) < 200; split <;> omega)

/-! ### `mzd_apply_p_right_trans_tri(A, P)`: `P->length == A->ncols` (`assert`), `P->values[i] < A->ncols` -/
theorem accColSwapInRows_all (h : Hdr) (cola colb start_row stop_row : Nat)
    (ha : cola < h.ncols) (hb : colb < h.ncols) (hstop : stop_row ≤ h.nrows) :
    All (fun a => a.inBounds ((fun _ => h) a.op)) (accColSwapInRows cola colb start_row stop_row) :=
  accColSwapInRows_inBounds h cola colb start_row stop_row ha hb hstop

theorem accApplyPRightTransTri_inBounds (h : Hdr) (L1 : Nat) (P : Nat → Nat)
    (hP : ∀ i, i < h.ncols → P i < h.ncols) :
    InBounds (fun _ => h) (accApplyPRightTransTri h L1 P) := by
  unfold accApplyPRightTransTri
  extract_lets nrows step
  trace_simp []
  intro s hs0 hs1 i hi0 hi1
  apply accColSwapInRows_all
  · omega
  · apply hP; omega
  · generalize s * step = r
    clear_lets; omega

theorem accApplyPRightTransTri_aligned (hs : Nat → Hdr) (h : Hdr) (L1 : Nat) (P : Nat → Nat) :
    Aligned hs (accApplyPRightTransTri h L1 P) := by
  have key := fun a b c d => (aligned_def _ _).mp (accColSwapInRows_aligned hs a b c d)
  unfold accApplyPRightTransTri; trace_simp []; fin_tail key

theorem shColSwapInRows_all (cola colb : Nat) : All (fun s => 0 ≤ s ∧ s ≤ 63) (shColSwapInRows cola colb) :=
  shColSwapInRows_ok cola colb
theorem shApplyPRightTransTri_ok (h : Hdr) (P : Nat → Nat) : ShiftsOK (shApplyPRightTransTri h P) := by
  unfold shApplyPRightTransTri; trace_simp []; fin_tail shColSwapInRows_all

example : InBounds (fun _ => ⟨5, 200, 6, 1⟩) (accApplyPRightTransTri ⟨5, 200, 6, 1⟩ 64 (fun i => if i < 100 then i + 100 else i)) :=
  accApplyPRightTransTri_inBounds _ _ _ (by intro i hi; have : i < 200 := hi; show (if i < 100 then i + 100 else i) < 200; split <;> omega)

/-! ### `_mzd_compress_l(A, r1, n1, r2)`.  Operand 0 = `A`.
    Preconditions (the situation of its only caller, ple.c:93-160): `r1 ≤ n1`, `n1` = the column cut, a MULTIPLE
    OF 64, `n1 < A->ncols` (the right part is not empty), `n1 + r2 ≤ A->ncols`, `r1 + r2 ≤ A->nrows`. -/

theorem accXorBits_all (h : Hdr) (x y n : Nat) (hx : x < h.nrows) (hn1 : 1 ≤ n) (hn : n ≤ 64)
    (hy : y + n ≤ h.ncols) : All (fun a => a.inBounds ((fun _ => h) a.op)) (accXorBits x y n) :=
  accXorBits_inBounds h x y n hx hn1 hn hy
theorem accClearBits_all (h : Hdr) (x y n : Nat) (hx : x < h.nrows) (hn1 : 1 ≤ n) (hn : n ≤ 64)
    (hy : y + n ≤ h.ncols) : All (fun a => a.inBounds ((fun _ => h) a.op)) (accClearBits x y n) :=
  accXorBits_inBounds h x y n hx hn1 hn hy

/-- `mzd_clear_bits` / `mzd_xor_bits` "to the end of the word" (`n = 64 - y % 64`) touch only word `y / 64`, even
    when the word is the ragged last one (`y + n > ncols`) -/
theorem accXorBits_to_word_end (h : Hdr) (x y : Nat) (hx : x < h.nrows) (hy : y < h.ncols) :
    All (fun a => a.inBounds ((fun _ => h) a.op)) (accXorBits x y (64 - y % 64)) := by
  have hw := width_eq h
  trace_simp [accXorBits]
  fin_omega

/-- `mzd_read_bits` stays in the row when the span does, or when it starts at a word boundary inside the row -/
theorem accReadBits_all' (h : Hdr) (x y n : Nat) (hx : x < h.nrows) (hn1 : 1 ≤ n) (hn : n ≤ 64)
    (hy : y + n ≤ h.ncols ∨ (y % 64 = 0 ∧ y < h.ncols)) :
    All (fun a => a.inBounds ((fun _ => h) a.op)) (accReadBits x y n) := by
  have hw := width_eq h
  trace_simp [accReadBits, accReadBitsOp]
  fin_omega

theorem accCompressL_inBounds (h : Hdr) (r1 n1 r2 : Nat) (hr : r1 ≤ n1) (hn1 : n1 % 64 = 0) (hn1c : n1 < h.ncols)
    (hc : n1 + r2 ≤ h.ncols) (hrows : r1 + r2 ≤ h.nrows) :
    InBounds (fun _ => h) (accCompressL h r1 n1 r2) := by
  have hw := width_eq h
  unfold accCompressL
  trace_simp []
  refine ⟨fun _ => trivial, fun hne => ?_⟩
  have hlt : r1 < n1 := by omega
  refine ⟨?_, ?_⟩
  · intro t ht0 ht1
    apply accColSwapInRows_all <;> omega
  · intro ii hi0 hi1
    have hi : ii.toNat < h.nrows := by omega
    (repeat' (first | (refine And.intro ?_ ?_) | (apply accXorBits_to_word_end h) | (apply accReadBits_all' h) | (intro _))) <;>
      (first | trivial | omega)

/-- `n1 % 64 = 0` is NECESSARY (it is not in the documentation of the function, mzp.h:212-222): for a cut inside
    a word the first `mzd_read_bits(A, i, n1, 64 - r1 % 64)` runs over the end of the row -/
def accCompressL_full : Prop :=
  ∀ (h : Hdr) (r1 n1 r2 : Nat), r1 ≤ n1 → n1 + r2 ≤ h.ncols → r1 + r2 ≤ h.nrows →
    InBounds (fun _ => h) (accCompressL h r1 n1 r2)
theorem accCompressL_full_false : ¬ accCompressL_full := by
  intro hf
  have := hf ⟨2, 20, 2, 0⟩ 0 10 1 (by decide) (by decide) (by decide)
  revert this; decide

theorem accCompressL_aligned (hs : Nat → Hdr) (h : Hdr) (r1 n1 r2 : Nat) : Aligned hs (accCompressL h r1 n1 r2) := by
  have k1 := fun a b c d => (aligned_def _ _).mp (accColSwapInRows_aligned hs a b c d)
  have k2 := fun a b c => (aligned_def _ _).mp (accReadBits_aligned hs a b c)
  have k3 := fun a b c => (aligned_def _ _).mp (accXorBits_aligned hs a b c)
  unfold accCompressL
  trace_simp [accClearBits]
  (repeat' (first | (refine And.intro ?_ ?_) | (apply k1) | (apply k2) | (apply k3) | (intro _))) <;> trivial

theorem shXorBits_all (y n : Nat) (hn : n ≤ 64) : All (fun s => 0 ≤ s ∧ s ≤ 63) (shXorBits y n) := shXorBits_ok y n hn
theorem shClearBits_all (y n : Nat) (hn1 : 1 ≤ n) (hn : n ≤ 64) : All (fun s => 0 ≤ s ∧ s ≤ 63) (shClearBits y n) :=
  shClearBits_ok y n hn1 hn

theorem shCompressL_ok (r1 n1 r2 : Nat) (hr : r1 ≤ n1) : ShiftsOK (shCompressL r1 n1 r2) := by
  unfold shCompressL
  trace_simp []
  refine ⟨fun _ => trivial, fun hne => ?_⟩
  (repeat' (first | (refine And.intro ?_ ?_) | (exact shColSwapInRows_all _ _) | (apply shReadBits_all) |
    (apply shClearBits_all) | (apply shXorBits_all) | (intro _))) <;> (first | trivial | omega)

/-- `n1 < ncols` is necessary as well (`r2 = 0`, `n1 = ncols = 64`, one row below the pivots: word 1 of a one-word row
    is read) -/
theorem accCompressL_cut_witness : ¬ InBounds (fun _ => ⟨1, 64, 2, 0⟩) (accCompressL ⟨1, 64, 2, 0⟩ 0 64 0) := by decide

example : InBounds (fun _ => ⟨9, 200, 6, 1⟩) (accCompressL ⟨9, 200, 6, 1⟩ 3 128 5) :=
  accCompressL_inBounds _ _ _ _ (by decide) (by decide) (by decide) (by decide) (by decide)

/-!
  ################################################################################################

  Property C11 (memory safety), part 3a: safety theorems for the access-trace model `M4ri/Safety3a.lean`
  (the PLE kernels of ple_russian.c / ple_russian_template.h); same three predicates and the same conventions
  as `M4riProofs/Safety.lean`.  Core Lean only.
-/
/-! ### helpers -/

theorem accXorBitsOp_all (hs : Nat → Hdr) (op x y n : Nat) (hx : x < (hs op).nrows) (hn1 : 1 ≤ n) (hn : n ≤ 64)
    (hy : y + n ≤ (hs op).ncols) : All (fun a => a.inBounds (hs a.op)) (accXorBitsOp op x y n) := by
  have hw := width_eq (hs op)
  trace_simp [accXorBitsOp]
  fin_omega
theorem accXorBitsOp_aligned (hs : Nat → Hdr) (op x y n : Nat) :
    All (fun a => a.aligned (hs a.op)) (accXorBitsOp op x y n) := by
  trace_simp [accXorBitsOp]
  fin_omega
theorem accXorBitsOp_zero (x y n : Nat) : accXorBitsOp 0 x y n = accXorBits x y n := rfl

/-- a strict prefix of a list of positive numbers sums to less than the whole list -/
theorem take_sum_lt : ∀ (ks : List Nat), (∀ kj ∈ ks, 1 ≤ kj) → ∀ j, j < ks.length → (ks.take j).sum + 1 ≤ ks.sum
  | [], _, j, hj => by simp at hj
  | a :: t, hpos, 0, _ => by
      have := hpos a (by simp)
      simp only [List.take_zero, List.sum_nil, List.sum_cons]; omega
  | a :: t, hpos, j + 1, hj => by
      have ih := take_sum_lt t (fun kj hk => hpos kj (by simp [hk])) j (by simpa using hj)
      simp only [List.take_succ_cons, List.sum_cons]; omega

theorem sum_pos_of_pos (ks : List Nat) (hpos : ∀ kj ∈ ks, 1 ≤ kj) (hne : 1 ≤ ks.length) : 1 ≤ ks.sum := by
  have := take_sum_lt ks hpos 0 (by omega)
  omega

theorem shPleMasks_all (ks : List Nat) : All (fun s => 0 ≤ s ∧ s ≤ 63) (shPleMasks ks) := by
  intro s hs
  simp only [shPleMasks, List.mem_map] at hs
  obtain ⟨kj, _, rfl⟩ := hs
  omega

theorem shPleIdx_all (ks : List Nat) (hpos : ∀ kj ∈ ks, 1 ≤ kj) (hk : ks.sum ≤ 64) :
    All (fun s => 0 ≤ s ∧ s ≤ 63) (shPleIdx ks) := by
  intro s hs
  simp only [shPleIdx, List.mem_map, List.mem_range] at hs
  obtain ⟨j, hj, rfl⟩ := hs
  have := take_sum_lt ks hpos j hj
  omega

/-! ## (a) `_mzd_process_rows_ple_N`
    Operand 0 = `M`, operand `j+1` = `table[j]->T`; `N = ks.length`.
    Preconditions: `stoprow ≤ M->nrows`; the bits read lie in the matrix: `1 ≤ Σ k[j] ≤ 64`,
    `startcol + Σ k[j] ≤ M->ncols`; every index delivered by `E_j` is a row of `T_j`; every `T_j` is at least as
    wide as `M` (`_mzd_ple_russian` allocates the tables as `2^k × A->ncols`, ple_russian.c:414;
    `mzd_trtri_upper_russian` likewise, triangular_russian.c).
    For alignment: every table has the phase of `M` (the `assert`s of `_mzd_combine_N`). -/

theorem accProcessRowsPle_inBounds (hs : Nat → Hdr) (ks : List Nat) (startrow stoprow startcol : Nat)
    (x : Nat → Nat → Nat)
    (hstop : stoprow ≤ (hs 0).nrows) (hk1 : 1 ≤ ks.sum) (hk : ks.sum ≤ 64) (hcol : startcol + ks.sum ≤ (hs 0).ncols)
    (hx : ∀ r j, startrow ≤ r → r < stoprow → j < ks.length → x r j < (hs (j + 1)).nrows)
    (hTw : ∀ j, j < ks.length → (hs 0).width ≤ (hs (j + 1)).width) :
    InBounds hs (accProcessRowsPle (hs 0) ks startrow stoprow startcol x) := by
  have hw0 := width_eq (hs 0)
  unfold accProcessRowsPle
  extract_lets block wide
  trace_simp [accReadBits]
  intro r hr0 hr1
  refine ⟨?_, ?_⟩
  · apply accReadBitsOp_all hs <;> omega
  · have hwide : 1 ≤ wide := by clear_lets; omega
    apply (inBounds_def _ _).mp
    apply accCombineN_inBounds hs ks.length
    · omega
    · show r.toNat < _; omega
    · show 0 ≤ block; clear_lets; omega
    · show block + (wide.toNat : Int) ≤ _; clear_lets; omega
    · intro j hj
      have h1 := hx r.toNat j (by omega) (by omega) hj
      have h2 := hTw j hj
      refine ⟨h1, ?_, ?_⟩
      · show 0 ≤ block; clear_lets; omega
      · show block + (wide.toNat : Int) ≤ _; clear_lets; omega

theorem accProcessRowsPle_aligned (hs : Nat → Hdr) (ks : List Nat) (startrow stoprow startcol : Nat)
    (x : Nat → Nat → Nat)
    (hph : ∀ j, j < ks.length → (hs (j + 1)).phase = (hs 0).phase) :
    Aligned hs (accProcessRowsPle (hs 0) ks startrow stoprow startcol x) := by
  unfold accProcessRowsPle
  extract_lets block wide
  trace_simp [accReadBits]
  intro r hr0 hr1
  refine ⟨accReadBitsOp_aligned hs _ _ _ _, ?_⟩
  apply (aligned_def _ _).mp
  apply accCombineN_aligned hs ks.length
  intro j hj
  show (block + ((hs (j + 1)).phase : Int)) % 2 = (block + ((hs 0).phase : Int)) % 2
  rw [hph j hj]

/-- equal phases are NECESSARY: `M` a window starting at an odd word (phase 1), tables fresh from
    `ple_table_init` → `mzd_init` (phase 0), every other precondition holds: misaligned `__m128i` loads from the
    tables (and the `assert`s of `_mzd_combine_2` fail in a debug build).  The callers establish equal phases:
    `_mzd_ple` runs `_mzd_ple_russian` on a fresh copy (ple.c:76-77), `mzd_trtri_upper_russian` copies a window
    that starts at an odd word (triangular_russian.c:388-396). -/
theorem accProcessRowsPle_phase_witness :
    ¬ Aligned (fun o => if o = 0 then ⟨2, 256, 6, 1⟩ else ⟨4, 256, 4, 0⟩)
        (accProcessRowsPle ⟨2, 256, 6, 1⟩ [2, 2] 0 1 0 (fun _ _ => 1)) := by decide

/-- shift counts: every `k[j] ≥ 1` (`assert(k_[…] > 0)` in `_kk_setup`, ple_russian.c:75-103), at least one table,
    `Σ k[j] ≤ 64` (`assert(kk <= m4ri_radix)`, ple_russian.c:404) -/
theorem shProcessRowsPle_ok (ks : List Nat) (startrow stoprow startcol : Nat)
    (hpos : ∀ kj ∈ ks, 1 ≤ kj) (hN : 1 ≤ ks.length) (hk : ks.sum ≤ 64) :
    ShiftsOK (shProcessRowsPle ks startrow stoprow startcol) := by
  unfold shProcessRowsPle
  rw [shiftsOK_def, all_append, all_ite, all_append]
  exact ⟨shPleMasks_all ks,
    fun _ => ⟨shReadBits_all _ _ (sum_pos_of_pos ks hpos hN) hk, shPleIdx_all ks hpos hk⟩, fun _ => (all_nil _).mpr trivial⟩

/-- `k[j] ≥ 1` is necessary: with `k = {64, 0}` the index shift of the second table is `bits >> 64` -/
theorem shProcessRowsPle_k0_witness : ¬ ShiftsOK (shProcessRowsPle [64, 0] 0 1 0) := by decide

-- non-vacuity: M = 4 x 640 window with phase 1, three tables 4 x 640 with phase 1, k = {2,2,1}, rows 1..3 from column 70
section NonVacuityA
private def hsA : Nat → Hdr := fun o => if o = 0 then ⟨4, 640, 12, 1⟩ else ⟨4, 640, 12, 1⟩
example : InBounds hsA (accProcessRowsPle (hsA 0) [2, 2, 1] 1 4 70 (fun r j => (r + j) % 4)) :=
  accProcessRowsPle_inBounds hsA [2, 2, 1] 1 4 70 _ (by decide) (by decide) (by decide) (by decide)
    (by intro r j _ _ hj; show (r + j) % 4 < 4; omega) (by intro j hj; exact Nat.le_refl _)
example : Aligned hsA (accProcessRowsPle (hsA 0) [2, 2, 1] 1 4 70 (fun r j => (r + j) % 4)) :=
  accProcessRowsPle_aligned hsA [2, 2, 1] 1 4 70 _ (by intro j hj; rfl)
example : ShiftsOK (shProcessRowsPle [2, 2, 1] 1 4 70) :=
  shProcessRowsPle_ok [2, 2, 1] 1 4 70 (by decide) (by decide) (by decide)
example : vrd 2 2 1 ∈ accProcessRowsPle (hsA 0) [2, 2, 1] 1 4 70 (fun r j => (r + j) % 4) := by decide
end NonVacuityA

/-! ## (b) `_mzd_ple_a11_N`, `_mzd_ple_a11_1`
    Preconditions as for (a) (rows `stop_row ≤ A->nrows`, bits inside the matrix, table indices delivered by `M_j`
    are rows of `T_j`, tables at least as wide as `A`, equal phases).  NO condition on `block`/`addblock`:
    the code returns when `A->width - block ≤ 0`. -/

theorem accPleA11N_inBounds (hs : Nat → Hdr) (ks : List Nat) (start_row stop_row start_col block : Nat)
    (x : Nat → Nat → Nat)
    (hstop : stop_row ≤ (hs 0).nrows) (hk1 : 1 ≤ ks.sum) (hk : ks.sum ≤ 64) (hcol : start_col + ks.sum ≤ (hs 0).ncols)
    (hx : ∀ r j, start_row ≤ r → r < stop_row → j < ks.length → x r j < (hs (j + 1)).nrows)
    (hTw : ∀ j, j < ks.length → (hs 0).width ≤ (hs (j + 1)).width) :
    InBounds hs (accPleA11N (hs 0) ks start_row stop_row start_col block x) := by
  unfold accPleA11N
  extract_lets wide
  trace_simp [accReadBits]
  refine ⟨fun _ => trivial, fun hwide i hi0 hi1 => ⟨?_, ?_⟩⟩
  · apply accReadBitsOp_all hs <;> omega
  · apply (inBounds_def _ _).mp
    apply accCombineN_inBounds hs ks.length
    · omega
    · show i.toNat < _; omega
    · show (0 : Int) ≤ (block : Int); omega
    · show (block : Int) + (wide.toNat : Int) ≤ _; clear_lets; omega
    · intro j hj
      have h1 := hx i.toNat j (by omega) (by omega) hj
      have h2 := hTw j hj
      refine ⟨h1, ?_, ?_⟩
      · show (0 : Int) ≤ (block : Int); omega
      · show (block : Int) + (wide.toNat : Int) ≤ _; clear_lets; omega

theorem accPleA11N_aligned (hs : Nat → Hdr) (ks : List Nat) (start_row stop_row start_col block : Nat)
    (x : Nat → Nat → Nat)
    (hph : ∀ j, j < ks.length → (hs (j + 1)).phase = (hs 0).phase) :
    Aligned hs (accPleA11N (hs 0) ks start_row stop_row start_col block x) := by
  unfold accPleA11N
  extract_lets wide
  trace_simp [accReadBits]
  refine ⟨fun _ => trivial, fun hwide i hi0 hi1 => ⟨accReadBitsOp_aligned hs _ _ _ _, ?_⟩⟩
  apply (aligned_def _ _).mp
  apply accCombineN_aligned hs ks.length
  intro j hj
  show ((block : Int) + ((hs (j + 1)).phase : Int)) % 2 = ((block : Int) + ((hs 0).phase : Int)) % 2
  rw [hph j hj]

theorem accPleA11N_phase_witness :
    ¬ Aligned (fun o => if o = 0 then ⟨2, 256, 6, 1⟩ else ⟨4, 256, 4, 0⟩)
        (accPleA11N ⟨2, 256, 6, 1⟩ [2, 2] 0 1 0 1 (fun _ _ => 1)) := by decide

theorem shPleA11N_ok (hA : Hdr) (ks : List Nat) (start_row stop_row start_col block : Nat)
    (hpos : ∀ kj ∈ ks, 1 ≤ kj) (hN : 1 ≤ ks.length) (hk : ks.sum ≤ 64) :
    ShiftsOK (shPleA11N hA ks start_row stop_row start_col block) := by
  unfold shPleA11N
  extract_lets wide
  rw [shiftsOK_def, all_ite, all_append, all_ite, all_append]
  exact ⟨fun _ => (all_nil _).mpr trivial, fun _ => ⟨shPleMasks_all ks,
    fun _ => ⟨shReadBits_all _ _ (sum_pos_of_pos ks hpos hN) hk, shPleIdx_all ks hpos hk⟩,
    fun _ => (all_nil _).mpr trivial⟩⟩

/-- `_mzd_ple_a11_1`: operand 0 = `A`, operand 1 = `T0->T` -/
theorem accPleA11_1_inBounds (hs : Nat → Hdr) (start_row stop_row start_col addblock k : Nat) (x : Nat → Nat)
    (hstop : stop_row ≤ (hs 0).nrows) (hk1 : 1 ≤ k) (hk : k ≤ 64) (hcol : start_col + k ≤ (hs 0).ncols)
    (hx : ∀ r, start_row ≤ r → r < stop_row → x r < (hs 1).nrows) (hTw : (hs 0).width ≤ (hs 1).width) :
    InBounds hs (accPleA11_1 (hs 0) start_row stop_row start_col addblock k x) := by
  unfold accPleA11_1
  extract_lets wide
  trace_simp [accReadBits]
  refine ⟨fun _ => trivial, fun hwide i hi0 hi1 => ⟨?_, ?_⟩⟩
  · apply accReadBitsOp_all hs <;> omega
  · apply (inBounds_def _ _).mp
    apply accCombine_inBounds hs
    · show i.toNat < _; omega
    · exact hx _ (by omega) (by omega)
    · show (0 : Int) ≤ (addblock : Int); omega
    · show (addblock : Int) + (wide.toNat : Int) ≤ _; clear_lets; omega
    · show (0 : Int) ≤ (addblock : Int); omega
    · show (addblock : Int) + (wide.toNat : Int) ≤ _; clear_lets; omega

theorem accPleA11_1_aligned (hs : Nat → Hdr) (start_row stop_row start_col addblock k : Nat) (x : Nat → Nat)
    (hph : (hs 1).phase = (hs 0).phase) :
    Aligned hs (accPleA11_1 (hs 0) start_row stop_row start_col addblock k x) := by
  unfold accPleA11_1
  extract_lets wide
  trace_simp [accReadBits]
  refine ⟨fun _ => trivial, fun hwide i hi0 hi1 => ⟨accReadBitsOp_aligned hs _ _ _ _, ?_⟩⟩
  apply (aligned_def _ _).mp
  apply accCombine_aligned hs
  show ((addblock : Int) + ((hs 0).phase : Int)) % 2 = ((addblock : Int) + ((hs 1).phase : Int)) % 2
  rw [hph]

/-- equal phases are necessary for `_mzd_ple_a11_1` too (`_mzd_combine` tests the alignment of `c` only) -/
theorem accPleA11_1_phase_witness :
    ¬ Aligned (fun o => if o = 0 then ⟨2, 256, 6, 1⟩ else ⟨4, 256, 4, 0⟩)
        (accPleA11_1 ⟨2, 256, 6, 1⟩ 0 1 0 1 2 (fun _ => 1)) := by decide

theorem shPleA11_1_ok (hA : Hdr) (start_row stop_row start_col addblock k : Nat) (hk1 : 1 ≤ k) (hk : k ≤ 64) :
    ShiftsOK (shPleA11_1 hA start_row stop_row start_col addblock k) := by
  unfold shPleA11_1
  extract_lets wide
  rw [shiftsOK_def, all_ite, all_ite]
  exact ⟨fun _ => (all_nil _).mpr trivial, fun _ => ⟨fun _ => shReadBits_all _ _ hk1 hk, fun _ => (all_nil _).mpr trivial⟩⟩

/-- the early return is what makes `block ≥ width` harmless: nothing at all is touched -/
theorem accPleA11N_block_ge_width (hA : Hdr) (ks : List Nat) (start_row stop_row start_col block : Nat)
    (x : Nat → Nat → Nat) (h : hA.width ≤ block) : accPleA11N hA ks start_row stop_row start_col block x = [] := by
  unfold accPleA11N
  extract_lets wide
  have : wide ≤ 0 := by clear_lets; omega
  simp [this]

section NonVacuityB
private def hsB : Nat → Hdr := fun o => if o = 0 then ⟨4, 640, 12, 1⟩ else ⟨4, 700, 12, 1⟩
example : InBounds hsB (accPleA11N (hsB 0) [2, 2, 1] 1 4 70 3 (fun r j => (r + j) % 4)) :=
  accPleA11N_inBounds hsB [2, 2, 1] 1 4 70 3 _ (by decide) (by decide) (by decide) (by decide)
    (by intro r j _ _ hj; show (r + j) % 4 < 4; omega)
    (by intro j hj; show (10 : Nat) ≤ (if j + 1 = 0 then (⟨4, 640, 12, 1⟩ : Hdr) else ⟨4, 700, 12, 1⟩).width
        rw [if_neg (by omega)]; decide)
example : Aligned hsB (accPleA11N (hsB 0) [2, 2, 1] 1 4 70 3 (fun r j => (r + j) % 4)) :=
  accPleA11N_aligned hsB [2, 2, 1] 1 4 70 3 _ (by intro j hj; show (if j + 1 = 0 then _ else _ : Hdr).phase = 1
                                                  rw [if_neg (by omega)])
example : ShiftsOK (shPleA11N (hsB 0) [2, 2, 1] 1 4 70 3) :=
  shPleA11N_ok _ [2, 2, 1] 1 4 70 3 (by decide) (by decide) (by decide)
example : vrd 2 2 3 ∈ accPleA11N (hsB 0) [2, 2, 1] 1 4 70 3 (fun r j => (r + j) % 4) := by decide
example : InBounds hsB (accPleA11_1 (hsB 0) 1 4 70 3 5 (fun r => r % 4)) :=
  accPleA11_1_inBounds hsB 1 4 70 3 5 _ (by decide) (by decide) (by decide) (by decide)
    (by intro r _ _; show r % 4 < 4; omega) (by decide)
example : Aligned hsB (accPleA11_1 (hsB 0) 1 4 70 3 5 (fun r => r % 4)) :=
  accPleA11_1_aligned hsB 1 4 70 3 5 _ rfl
example : ShiftsOK (shPleA11_1 (hsB 0) 1 4 70 3 5) := shPleA11_1_ok _ 1 4 70 3 5 (by decide) (by decide)
example : vrd 1 1 3 ∈ accPleA11_1 (hsB 0) 1 4 70 3 5 (fun r => r % 4) := by decide
end NonVacuityB

/-! ## (c) `_mzd_ple_a10(A, P, start_row, start_col, addblock, k, pivots)`.  Operand 0 = `A`.
    Preconditions: the `k` rows exist (`start_row + k ≤ A->nrows`), `P->values[i] < A->nrows` for those rows,
    and for `1 ≤ i < k` the `pivots[i]` bits read from `start_col` lie in the matrix
    (`1 ≤ pivots[i] ≤ 64`, `start_col + pivots[i] ≤ A->ncols`).  No condition on `addblock`.
    Purely scalar: `Aligned` holds for every phase. -/

theorem accPleA10_inBounds (h : Hdr) (start_row start_col addblock k : Nat) (p piv : Nat → Nat) (b : Nat → Nat → Bool)
    (hrows : start_row + k ≤ h.nrows)
    (hp : ∀ i, start_row ≤ i → i < start_row + k → p i < h.nrows)
    (hpiv : ∀ i, 1 ≤ i → i < k → 1 ≤ piv i ∧ piv i ≤ 64 ∧ start_col + piv i ≤ h.ncols) :
    InBounds (fun _ => h) (accPleA10 h start_row start_col addblock k p piv b) := by
  unfold accPleA10
  trace_simp []
  refine ⟨fun _ => trivial, fun hab => ⟨?_, ?_⟩⟩
  · intro i hi0 hi1
    exact accRowSwap_inBounds h _ _ _ (by omega) (by apply hp <;> omega)
  · intro i hi0 hi1
    obtain ⟨h1, h2, h3⟩ := hpiv i.toNat (by omega) (by omega)
    refine ⟨?_, ?_⟩
    · apply accReadBits_all h <;> omega
    · intro j hj0 hj1
      refine ⟨fun _ => ?_, fun _ => trivial⟩
      intro w hw0 hw1
      fin_omega

theorem accPleA10_aligned (hs : Nat → Hdr) (h : Hdr) (start_row start_col addblock k : Nat) (p piv : Nat → Nat)
    (b : Nat → Nat → Bool) : Aligned hs (accPleA10 h start_row start_col addblock k p piv b) := by
  unfold accPleA10
  trace_simp [accReadBits]
  refine ⟨fun _ => trivial, fun hab => ⟨?_, ?_⟩⟩
  · intro i hi0 hi1
    exact (aligned_def _ _).mp (accRowSwap_aligned hs h _ _ _)
  · intro i hi0 hi1
    refine ⟨accReadBitsOp_aligned hs _ _ _ _, ?_⟩
    intro j hj0 hj1
    refine ⟨fun _ => ?_, fun _ => trivial⟩
    intro w hw0 hw1
    fin_omega

/-- shift counts: pivot offsets are `< 64` and, from the second on, `≥ 1` (they are strictly increasing column
    offsets `< kk ≤ 64` found by `_mzd_ple_submatrix`) -/
theorem shPleA10_ok (hA : Hdr) (start_col addblock k : Nat) (piv : Nat → Nat)
    (hlt : ∀ i, i < k → piv i ≤ 63) (hpos : ∀ i, 1 ≤ i → i < k → 1 ≤ piv i) :
    ShiftsOK (shPleA10 hA start_col addblock k piv) := by
  unfold shPleA10
  trace_simp []
  refine ⟨fun _ => trivial, fun hab i hi0 hi1 => ⟨?_, ?_⟩⟩
  · have h1 := hpos i.toNat (by omega) (by omega)
    have h2 := hlt i.toNat (by omega)
    apply shReadBits_all <;> omega
  · intro j hj0 hj1
    have := hlt j.toNat (by omega)
    exact ⟨by omega, trivial⟩

/-- `pivots[i] ≥ 1` for `i ≥ 1` is necessary: `mzd_read_bits(…, 0)` shifts by 64 -/
theorem shPleA10_piv0_witness : ¬ ShiftsOK (shPleA10 ⟨2, 64, 2, 0⟩ 0 0 2 (fun _ => 0)) := by decide

/-- with `addblock == width` nothing is touched; with `addblock > width` only the `mzd_read_bits` remain -/
theorem accPleA10_addblock_eq_width (h : Hdr) (start_row start_col k : Nat) (p piv : Nat → Nat) (b : Nat → Nat → Bool) :
    accPleA10 h start_row start_col h.width k p piv b = [] := by
  simp [accPleA10]

section NonVacuityC
private def hC : Hdr := ⟨6, 640, 12, 1⟩
example : InBounds (fun _ => hC) (accPleA10 hC 1 70 2 3 (fun i => 5 - (i - 1)) (fun i => 2 * i) (fun _ _ => true)) :=
  accPleA10_inBounds hC 1 70 2 3 _ _ _ (by decide) (by intro i h1 h2; show 5 - (i - 1) < 6; omega)
    (by intro i h1 h2; show 1 ≤ 2 * i ∧ 2 * i ≤ 64 ∧ 70 + 2 * i ≤ 640; omega)
example : ShiftsOK (shPleA10 hC 70 2 3 (fun i => 2 * i)) :=
  shPleA10_ok hC 70 2 3 _ (by intro i hi; show 2 * i ≤ 63; omega) (by intro i h1 h2; show 1 ≤ 2 * i; omega)
example : wr 0 3 9 ∈ accPleA10 hC 1 70 2 3 (fun i => 5 - (i - 1)) (fun i => 2 * i) (fun _ _ => true) := by decide
end NonVacuityC

/-! ## (d) `mzd_make_table_ple(A, r, writecol, k, knar, table, offsets, base, readcol, fullrank)`
    Operand 0 = `A`, operand 1 = `table->T`.
    Preconditions: `writecol < T->ncols` (at least one word of work: the Duff's device is unguarded) and
    `readcol < T->ncols`; `T` has at least `2^knar` rows; `A` is at least as wide as `T` (the trip count comes from
    `T->width`; `_mzd_ple_russian` allocates both with `A->ncols` columns, ple_russian.c:414-416); the rows
    `r + inc[i-1]` of `A` exist; if `fullrank`: `1 ≤ k ≤ 64`, `writecol + k ≤ T->ncols`.
    Purely scalar: `Aligned` holds for every phase of `A` and `T`. -/

theorem accMakeTablePle_inBounds (hs : Nat → Hdr) (r writecol k knar readcol : Nat) (fullrank : Bool) (inc : Nat → Nat)
    (hwc : writecol < (hs 1).ncols) (hrc : readcol < (hs 1).ncols)
    (hT : 2 ^ knar ≤ (hs 1).nrows) (hAw : (hs 1).width ≤ (hs 0).width)
    (hinc : ∀ i, i + 1 < 2 ^ knar → r + inc i < (hs 0).nrows)
    (hfr : fullrank = true → 1 ≤ k ∧ k ≤ 64 ∧ writecol + k ≤ (hs 1).ncols) :
    InBounds hs (accMakeTablePle (hs 1) r writecol k knar readcol fullrank inc) := by
  have hw1 := width_eq (hs 1)
  unfold accMakeTablePle
  generalize 2 ^ knar = K at *
  extract_lets wb rb wide n drift twokay btr
  have hwide : 1 ≤ wide := by clear_lets; omega
  have hn : n = wide := duff_pos wide hwide
  have hdrift : drift = 0 := by clear_lets; omega
  trace_simp []
  refine ⟨fun i hi0 hi1 => ?_, fun hf => ?_, fun _ => trivial⟩
  · have hi : i.toNat - 1 + 1 < K := by clear_lets; omega
    have hA := hinc (i.toNat - 1) hi
    refine ⟨⟨⟨?_, trivial⟩, ?_⟩, fun hf => ?_, fun _ => trivial⟩
    · clear_lets; omega
    · intro u hu0 hu1
      rw [hdrift, Int.mul_zero]
      clear_lets
      refine ⟨⟨hA, ?_, ?_⟩, ⟨?_, ?_, ?_⟩, ⟨?_, ?_, ?_⟩, trivial⟩ <;> omega
    · obtain ⟨h1, h2, h3⟩ := hfr hf
      apply accReadBitsOp_all hs <;> first | assumption | (clear_lets; omega)
  · obtain ⟨h1, h2, h3⟩ := hfr hf
    intro i hi0 hi1
    refine ⟨?_, ?_⟩
    · apply accXorBitsOp_all hs <;> first | assumption | (clear_lets; omega)
    · apply accReadBitsOp_all hs <;> (clear_lets; omega)

theorem accMakeTablePle_aligned (hs : Nat → Hdr) (hT : Hdr) (r writecol k knar readcol : Nat) (fullrank : Bool)
    (inc : Nat → Nat) : Aligned hs (accMakeTablePle hT r writecol k knar readcol fullrank inc) := by
  unfold accMakeTablePle
  trace_simp []
  exact ⟨fun i _ _ => ⟨⟨⟨trivial, trivial⟩, fun _ _ _ => ⟨trivial, trivial, trivial, trivial⟩⟩,
      fun _ => accReadBitsOp_aligned hs _ _ _ _, fun _ => trivial⟩,
    fun _ i _ _ => ⟨accXorBitsOp_aligned hs _ _ _ _, accReadBitsOp_aligned hs _ _ _ _⟩, fun _ => trivial⟩

/-- shift counts.  `knar ≤ 63` (`1 << knar`; in fact `knar ≤ k ≤ 8`); if `fullrank`: `1 ≤ k ≤ 64` and
    `readcol < T->ncols` (so that `bits_to_read ≥ 1`); otherwise the pivot offsets handed to `m4ri_spread_bits`
    satisfy `j + base ≤ offsets[j] ≤ 63 + j + base` (they are strictly increasing columns of the table's own
    `k`-bit slice, which starts at `base`). -/
theorem shMakeTablePle_ok (hT : Hdr) (writecol k knar readcol : Nat) (fullrank : Bool) (base : Nat) (offs : Nat → Nat)
    (hknar : knar ≤ 63)
    (hfr : fullrank = true → 1 ≤ k ∧ k ≤ 64 ∧ readcol < hT.ncols)
    (hnf : fullrank = false → ∀ j, j < knar → j + base ≤ offs j ∧ offs j ≤ 63 + j + base) :
    ShiftsOK (shMakeTablePle hT writecol k knar readcol fullrank base offs) := by
  unfold shMakeTablePle
  extract_lets btr
  trace_simp []
  refine ⟨⟨⟨by omega, by omega⟩, trivial⟩, fun _ => ⟨fun hf => ?_, fun hf => ?_⟩, fun _ => trivial⟩
  · obtain ⟨h1, h2, h3⟩ := hfr hf
    refine ⟨⟨shReadBits_all _ _ h1 h2, (shiftsOK_def _).mp (shXorBits_ok _ _ h2)⟩, ?_⟩
    apply shReadBits_all <;> (clear_lets; omega)
  · intro j hj
    have := hnf (by simpa using hf) j hj
    omega

/-- `writecol < T->ncols` is necessary: with `writecol = 64 * T->width` the unguarded Duff's device runs 8 steps
    (`duff 0 = 8`) past the end of the rows -/
theorem accMakeTablePle_writecol_witness :
    ¬ InBounds (fun _ => ⟨2, 64, 2, 0⟩) (accMakeTablePle ⟨2, 64, 2, 0⟩ 0 64 1 1 0 false (fun _ => 0)) := by decide
/-- `A` at least as wide as `T` is necessary: `A` = 1 x 64, `T` = 2 x 128 reads word 1 of a one-word row of `A` -/
theorem accMakeTablePle_width_witness :
    ¬ InBounds (fun o => if o = 0 then ⟨1, 64, 2, 0⟩ else ⟨2, 128, 2, 0⟩)
        (accMakeTablePle ⟨2, 128, 2, 0⟩ 0 0 1 1 0 false (fun _ => 0)) := by decide

section NonVacuityD
private def hsD : Nat → Hdr := fun o => if o = 0 then ⟨5, 700, 12, 0⟩ else ⟨8, 640, 12, 1⟩
example : InBounds hsD (accMakeTablePle (hsD 1) 1 60 6 3 10 true (fun i => i % 3)) :=
  accMakeTablePle_inBounds hsD 1 60 6 3 10 true _ (by decide) (by decide) (by decide) (by decide)
    (by intro i hi; show 1 + i % 3 < 5; omega) (by intro _; decide)
example : InBounds hsD (accMakeTablePle (hsD 1) 1 60 6 3 10 false (fun i => i % 3)) :=
  accMakeTablePle_inBounds hsD 1 60 6 3 10 false _ (by decide) (by decide) (by decide) (by decide)
    (by intro i hi; show 1 + i % 3 < 5; omega) (by intro h; cases h)
example : ShiftsOK (shMakeTablePle (hsD 1) 60 6 3 10 true 0 (fun j => j)) :=
  shMakeTablePle_ok _ 60 6 3 10 true 0 _ (by decide) (by intro _; decide) (by intro h; cases h)
example : ShiftsOK (shMakeTablePle (hsD 1) 60 6 3 10 false 2 (fun j => 2 * j + 2)) :=
  shMakeTablePle_ok _ 60 6 3 10 false 2 _ (by decide) (by intro h; cases h)
    (by intro _ j hj; show j + 2 ≤ 2 * j + 2 ∧ 2 * j + 2 ≤ 63 + j + 2; omega)
example : wr 1 7 1 ∈ accMakeTablePle (hsD 1) 1 60 6 3 10 true (fun i => i % 3) := by decide
end NonVacuityD

/-!
  ################################################################################################

  Property C11 (memory safety), part 3b: safety theorems for the access-trace model `M4ri/Safety3b.lean`
  (kernels of `triangular_russian.c`; same three predicates and conventions as `M4riProofs/Safety.lean`).
  Core Lean only.
-/
/-! ## (a) `_mzd_trsm_upper_left_submatrix`, `_mzd_trsm_lower_left_submatrix`
    Operand 0 = `U` (resp. `L`), operand 1 = `B`.
    Preconditions (what the callers `_mzd_trsm_*_left_russian` provide): the `k × k` diagonal block at
    `(start_row, start_row)` lies inside `U`, and the rows `start_row .. start_row + k - 1` exist in `B`:
    `start_row + k ≤ U->nrows`, `start_row + k ≤ U->ncols`, `start_row + k ≤ B->nrows`.
    No condition on `B->ncols` (a matrix with 0 columns gives an empty row addition), none on the phases:
    the row addition is hand-written scalar code. -/

theorem trsmRowAdd_inBounds (hs : Nat → Hdr) (a b : Nat) (ha : a < (hs 1).nrows) (hb : b < (hs 1).nrows) :
    All (fun x => x.inBounds (hs x.op)) (trsmRowAdd (hs 1) a b) := by
  unfold trsmRowAdd
  extract_lets width n8 rest step
  trace_simp [step]
  fin_omega

theorem trsmRowAdd_aligned (hs : Nat → Hdr) (hB : Hdr) (a b : Nat) :
    All (fun x => x.aligned (hs x.op)) (trsmRowAdd hB a b) := by
  unfold trsmRowAdd
  trace_simp []
  fin_omega

/-- the row addition touches every word `0 .. width-1` of both rows exactly once: `3 * width` accesses
    (the 8-fold unrolled loop and the `switch` together cover the row; nothing is skipped for `width = 8m + 1`) -/
theorem sum_map_const (m c : Nat) : (List.map (fun _ => c) (List.range m)).sum = m * c := by
  induction m with
  | zero => simp
  | succ m ih => rw [List.range_succ, List.map_append, List.sum_append, ih]; simp [Nat.succ_mul]

theorem trsmRowAdd_length (hB : Hdr) (a b : Nat) : (trsmRowAdd hB a b).length = 3 * hB.width := by
  have hlen : ∀ (n : Int) (f : Int → List Access) (c : Nat), (∀ i, (f i).length = c) →
      (forI 0 n f).length = n.toNat * c := by
    intro n f c hf
    unfold forI
    simp only [Int.sub_zero, List.length_flatMap, hf]
    exact sum_map_const _ _
  unfold trsmRowAdd
  extract_lets width n8 rest step
  have hstep : ∀ o, (step o).length = 3 := fun _ => rfl
  rw [List.length_append, hlen _ _ 24 (fun g => by rw [hlen _ _ 3 (fun u => hstep _)]; rfl)]
  split
  · rw [hlen _ _ 3 (fun u => hstep _)]
    clear_lets; omega
  · simp only [List.length_nil]
    clear_lets; omega

theorem accTrsmUpperLeftSubmatrix_inBounds (hs : Nat → Hdr) (start_row k : Nat) (u : Nat → Nat → Bool)
    (hUr : start_row + k ≤ (hs 0).nrows) (hUc : start_row + k ≤ (hs 0).ncols)
    (hB : start_row + k ≤ (hs 1).nrows) :
    InBounds hs (accTrsmUpperLeftSubmatrix (hs 1) start_row k u) := by
  have hw := width_eq (hs 0)
  unfold accTrsmUpperLeftSubmatrix
  trace_simp [accReadBit]
  fin_tail (trsmRowAdd_inBounds hs)

theorem accTrsmLowerLeftSubmatrix_inBounds (hs : Nat → Hdr) (start_row k : Nat) (u : Nat → Nat → Bool)
    (hUr : start_row + k ≤ (hs 0).nrows) (hUc : start_row + k ≤ (hs 0).ncols)
    (hB : start_row + k ≤ (hs 1).nrows) :
    InBounds hs (accTrsmLowerLeftSubmatrix (hs 1) start_row k u) := by
  have hw := width_eq (hs 0)
  unfold accTrsmLowerLeftSubmatrix
  trace_simp [accReadBit]
  fin_tail (trsmRowAdd_inBounds hs)

/-- purely scalar: `Aligned` holds for every phase of `U` and of `B` -/
theorem accTrsmUpperLeftSubmatrix_aligned (hs : Nat → Hdr) (hB : Hdr) (start_row k : Nat) (u : Nat → Nat → Bool) :
    Aligned hs (accTrsmUpperLeftSubmatrix hB start_row k u) := by
  unfold accTrsmUpperLeftSubmatrix
  trace_simp [accReadBit]
  fin_tail (trsmRowAdd_aligned hs)
theorem accTrsmLowerLeftSubmatrix_aligned (hs : Nat → Hdr) (hB : Hdr) (start_row k : Nat) (u : Nat → Nat → Bool) :
    Aligned hs (accTrsmLowerLeftSubmatrix hB start_row k u) := by
  unfold accTrsmLowerLeftSubmatrix
  trace_simp [accReadBit]
  fin_tail (trsmRowAdd_aligned hs)

theorem shTrsmUpperLeftSubmatrix_ok (start_row k : Nat) : ShiftsOK (shTrsmUpperLeftSubmatrix start_row k) := by
  unfold shTrsmUpperLeftSubmatrix
  trace_simp [shReadBit]
  fin_omega
theorem shTrsmLowerLeftSubmatrix_ok (start_row k : Nat) : ShiftsOK (shTrsmLowerLeftSubmatrix start_row k) := by
  unfold shTrsmLowerLeftSubmatrix
  trace_simp [shReadBit]
  fin_omega

/-- `start_row + k ≤ B->nrows` is necessary: `U` 4 × 4 all ones, `B` with 3 rows only, block of size 4 at row 0:
    the lower kernel adds into row 3 of `B` -/
theorem accTrsmLowerLeftSubmatrix_rows_witness :
    ¬ InBounds (fun o => if o = 0 then ⟨4, 4, 2, 0⟩ else ⟨3, 100, 2, 0⟩)
        (accTrsmLowerLeftSubmatrix ⟨3, 100, 2, 0⟩ 0 4 (fun _ _ => true)) := by decide
theorem accTrsmUpperLeftSubmatrix_rows_witness :
    ¬ InBounds (fun o => if o = 0 then ⟨4, 4, 2, 0⟩ else ⟨3, 100, 2, 0⟩)
        (accTrsmUpperLeftSubmatrix ⟨3, 100, 2, 0⟩ 0 4 (fun _ _ => true)) := by decide

-- non-vacuity: U 70 x 70 (phase 1), B 70 x 1100 (18 words, phase 1), the 6 x 6 block at row 62 (bits of U in words 0 and 1)
example : InBounds (fun o => if o = 0 then ⟨70, 70, 2, 1⟩ else ⟨70, 1100, 18, 1⟩)
    (accTrsmUpperLeftSubmatrix ⟨70, 1100, 18, 1⟩ 62 6 (fun r c => (r + c) % 3 = 0)) :=
  accTrsmUpperLeftSubmatrix_inBounds (fun o => if o = 0 then ⟨70, 70, 2, 1⟩ else ⟨70, 1100, 18, 1⟩) 62 6 _
    (by decide) (by decide) (by decide)
example : InBounds (fun o => if o = 0 then ⟨70, 70, 2, 1⟩ else ⟨70, 1100, 18, 1⟩)
    (accTrsmLowerLeftSubmatrix ⟨70, 1100, 18, 1⟩ 62 6 (fun r c => (r + c) % 3 = 0)) :=
  accTrsmLowerLeftSubmatrix_inBounds (fun o => if o = 0 then ⟨70, 70, 2, 1⟩ else ⟨70, 1100, 18, 1⟩) 62 6 _
    (by decide) (by decide) (by decide)
example : wr 1 63 17 ∈ accTrsmLowerLeftSubmatrix ⟨70, 1100, 18, 1⟩ 62 2 (fun _ _ => true) := by decide

/-! ## (b) `mzd_make_table_trtri(M, r, c, k, Tb, startcol)`
    Operand 0 = `M`, operand 1 = `Tb->T`.
    Preconditions: `c + k ≤ T->ncols` (the `k` pivot columns lie in the table), `startcol < T->ncols`,
    `T` has at least `2^k` rows, every row `r + inc[i-1]` (`1 ≤ i < 2^k`) of `M` exists (the code book gives
    `inc[·] < k`, so `r + k ≤ M->nrows` suffices; the function does NOT test it), and `M` is at least as wide as `T`
    (the caller allocates both with `A->ncols` columns).  Purely scalar: no condition on the phases. -/


theorem accXorBitsOp_all' (hs : Nat → Hdr) (op x y n : Nat) (hx : x < (hs op).nrows) (hn1 : 1 ≤ n)
    (hy : y + n ≤ (hs op).ncols) : All (fun a => a.inBounds (hs a.op)) (accXorBitsOp op x y n) := by
  have hw := width_eq (hs op)
  trace_simp [accXorBitsOp]
  fin_omega
theorem accMakeTableTrtri_inBounds (hs : Nat → Hdr) (r c k startcol : Nat) (inc : Nat → Nat)
    (hc : c + k ≤ (hs 1).ncols) (hsc : startcol < (hs 1).ncols) (hT : 2 ^ k ≤ (hs 1).nrows)
    (hinc : ∀ i, i + 1 < 2 ^ k → r + inc i < (hs 0).nrows) (hMw : (hs 1).width ≤ (hs 0).width) :
    InBounds hs (accMakeTableTrtri (hs 1) r c k startcol inc) := by
  have hw1 := width_eq (hs 1)
  by_cases hk : k = 0
  · subst hk
    unfold accMakeTableTrtri
    trace_simp []
    fin_omega
  · have hk1 : 1 ≤ k := by omega
    unfold accMakeTableTrtri
    extract_lets bo bo0 wide n toread
    have hwide : 1 ≤ wide := by clear_lets; omega
    have hn : n = wide := duff_pos wide hwide
    clear_value n
    subst hn
    generalize 2 ^ k = K at *
    trace_simp [Int.sub_self, Int.mul_zero, Int.add_zero]
    clear_lets
    refine ⟨?_, ?_⟩
    · intro i hi0 hi1
      have hr := hinc (i.toNat - 1) (by omega)
      (repeat' (first | (refine And.intro ?_ ?_) | (intro _))) <;> (first | trivial | omega)
    · intro i hi0 hi1
      refine ⟨?_, ?_⟩
      · apply accXorBitsOp_all' hs <;> omega
      · apply accReadBitsOp_all hs <;> omega

theorem accMakeTableTrtri_aligned (hs : Nat → Hdr) (hT : Hdr) (r c k startcol : Nat) (inc : Nat → Nat) :
    Aligned hs (accMakeTableTrtri hT r c k startcol inc) := by
  unfold accMakeTableTrtri
  trace_simp []
  (repeat' (first | (refine And.intro ?_ ?_) | (apply accXorBitsOp_aligned hs) | (apply accReadBitsOp_aligned hs) |
      (intro _))) <;> trivial

theorem shMakeTableTrtri_ok (hT : Hdr) (c k startcol : Nat) (hk : k ≤ 63) (hsc : startcol < hT.ncols) :
    ShiftsOK (shMakeTableTrtri hT c k startcol) := by
  unfold shMakeTableTrtri
  extract_lets toread
  trace_simp []
  refine ⟨⟨by omega, trivial⟩, fun i _ _ => ⟨shXorBits_ok c k (by omega), ?_⟩⟩
  apply shReadBits_all <;> (clear_lets; omega)

/-- `c < T->ncols` (i.e. `wide ≥ 1`) is necessary: the Duff's device is not guarded; with `c / 64 = T->width`
    it runs 8 steps starting one word past the row -/
theorem accMakeTableTrtri_wide0_witness :
    ¬ InBounds (fun o => if o = 0 then ⟨1, 128, 2, 0⟩ else ⟨2, 64, 2, 0⟩)
        (accMakeTableTrtri ⟨2, 64, 2, 0⟩ 0 64 1 0 (fun _ => 0)) := by decide
/-- the rows `r + inc[i-1]` of `M` are NOT range-checked (`mzd_make_table` has `if (rowneeded >= M->nrows) continue;`,
    this function has not): `M` with 1 row, `k = 2` (code book `inc = 0,1,0`) reads row 1 of `M` -/
theorem accMakeTableTrtri_rows_witness :
    ¬ InBounds (fun o => if o = 0 then ⟨1, 64, 2, 0⟩ else ⟨4, 64, 2, 0⟩)
        (accMakeTableTrtri ⟨4, 64, 2, 0⟩ 0 0 2 0 (fun i => i % 2)) := by decide
/-- `M` at least as wide as `T` is necessary (the loop length is taken from `T`, the reads go to `M`) -/
theorem accMakeTableTrtri_width_witness :
    ¬ InBounds (fun o => if o = 0 then ⟨1, 64, 2, 0⟩ else ⟨2, 128, 2, 0⟩)
        (accMakeTableTrtri ⟨2, 128, 2, 0⟩ 0 0 1 0 (fun _ => 0)) := by decide

-- non-vacuity: M 3 x 200 (phase 1), T 8 x 200 window (phase 1), k = 3 at column 62 (the xor spills into word 1), startcol 10
example : InBounds (fun o => if o = 0 then ⟨3, 200, 4, 1⟩ else ⟨8, 200, 6, 1⟩)
    (accMakeTableTrtri ⟨8, 200, 6, 1⟩ 0 62 3 10 (fun i => i % 3)) :=
  accMakeTableTrtri_inBounds (fun o => if o = 0 then ⟨3, 200, 4, 1⟩ else ⟨8, 200, 6, 1⟩) 0 62 3 10 _
    (by decide) (by decide) (by decide) (by intro i hi; show 0 + i % 3 < 3; omega) (by decide)
example : wr 1 7 1 ∈ accMakeTableTrtri ⟨8, 200, 6, 1⟩ 0 62 3 10 (fun i => i % 3) := by decide

/-! ## (c) `_mzd_trsm_upper_left_russian`, `_mzd_trsm_lower_left_russian`, `_mzd_trtri_upper_submatrix`
    Operand 0 = `U`/`L`, 1 = `B`, `t + 2` = `T[t]` (`t < 8`).
    Preconditions: `U` (resp. `L`) has at least `n = B->nrows` rows and columns (the public entry points check
    `U->nrows == U->ncols == B->nrows`, triangular.c:458-462 / 394-398), `B->ncols ≥ 1`, `1 ≤ k`, `8 k ≤ 64`
    (`assert(kk <= m4ri_radix)`), every table has at least `2^k` rows and at least the width of `B`, and the looked-up
    indices are table rows: `x k' col j < 2^k'` (`L[t]` is filled by `mzd_make_table` with values `< 2^k'`).
    For `Aligned`: every table has the phase of `B` — established by the routine itself through the `b_align` window
    (triangular_russian.c:76-84, 230-237); see `trsmTableHdr` and the `…_safe` corollaries. -/

theorem all_reop_inBounds (hs : Nat → Hdr) (f : Nat → Nat) (l : List Access) :
    All (fun a => a.inBounds (hs a.op)) (reop f l) ↔ All (fun a => a.inBounds (hs (f a.op))) l := by
  unfold reop All
  simp only [List.mem_map]
  constructor
  · intro h a ha; exact h _ ⟨a, ha, rfl⟩
  · rintro h _ ⟨a, ha, rfl⟩; exact h a ha
theorem all_reop_aligned (hs : Nat → Hdr) (f : Nat → Nat) (l : List Access) :
    All (fun a => a.aligned (hs a.op)) (reop f l) ↔ All (fun a => a.aligned (hs (f a.op))) l := by
  unfold reop All
  simp only [List.mem_map]
  constructor
  · intro h a ha; exact h _ ⟨a, ha, rfl⟩
  · rintro h _ ⟨a, ha, rfl⟩; exact h a ha
theorem all_down8 {α : Type} (P : α → Prop) (f : Nat → List α) : All P (down8 f) ↔ ∀ t, t < 8 → All P (f t) := by
  unfold down8
  simp only [all_append]
  constructor
  · rintro ⟨⟨⟨⟨⟨⟨⟨h7, h6⟩, h5⟩, h4⟩, h3⟩, h2⟩, h1⟩, h0⟩ t ht
    have : t = 0 ∨ t = 1 ∨ t = 2 ∨ t = 3 ∨ t = 4 ∨ t = 5 ∨ t = 6 ∨ t = 7 := by omega
    rcases this with rfl | rfl | rfl | rfl | rfl | rfl | rfl | rfl <;> assumption
  · intro h
    exact ⟨⟨⟨⟨⟨⟨⟨h 7 (by omega), h 6 (by omega)⟩, h 5 (by omega)⟩, h 4 (by omega)⟩, h 3 (by omega)⟩, h 2 (by omega)⟩,
      h 1 (by omega)⟩, h 0 (by omega)⟩

/-- `(t + 1) * k` for `t < 8` lies between `k` and `8 k` (keeps the multiplication out of `omega`) -/
theorem mul_bounds (t k : Nat) (ht : t < 8) : k ≤ (t + 1) * k ∧ (t + 1) * k ≤ 8 * k ∧ t * k ≤ 7 * k :=
  ⟨Nat.le_mul_of_pos_left k (by omega), Nat.mul_le_mul_right k (by omega), Nat.mul_le_mul_right k (by omega)⟩

theorem trsmTailAdd_inBounds (hs : Nat → Hdr) (j xr : Nat) (hj : j < (hs 1).nrows) (hx : xr < (hs 2).nrows)
    (hw : (hs 1).width ≤ (hs 2).width) : All (fun a => a.inBounds (hs a.op)) (trsmTailAdd (hs 1) j xr) := by
  unfold trsmTailAdd
  trace_simp []
  fin_omega
theorem trsmTailAdd_aligned (hs : Nat → Hdr) (hB : Hdr) (j xr : Nat) :
    All (fun a => a.aligned (hs a.op)) (trsmTailAdd hB j xr) := by
  unfold trsmTailAdd
  trace_simp []
  fin_omega

/-- the table hypotheses, for one table -/
def TableOK (hs : Nat → Hdr) (k t : Nat) : Prop := 2 ^ k ≤ (hs (t + 2)).nrows ∧ (hs 1).width ≤ (hs (t + 2)).width

theorem makeTable_reop_inBounds (hs : Nat → Hdr) (t r k' : Nat) (inc : Nat → Nat) (hBc : 1 ≤ (hs 1).ncols)
    (hT : 2 ^ k' ≤ (hs (t + 2)).nrows) (hTw : (hs 1).width ≤ (hs (t + 2)).width) :
    All (fun a => a.inBounds (hs a.op)) (reop (trsmTableOp t) (accMakeTable (hs 1) r 0 k' inc)) := by
  rw [all_reop_inBounds]
  exact accMakeTable_inBounds (fun o => hs (trsmTableOp t o)) r 0 k' inc hBc hT hTw
theorem makeTable_reop_aligned (hs : Nat → Hdr) (hB : Hdr) (t r k' : Nat) (inc : Nat → Nat) :
    All (fun a => a.aligned (hs a.op)) (reop (trsmTableOp t) (accMakeTable hB r 0 k' inc)) := by
  rw [all_reop_aligned]
  exact accMakeTable_aligned (fun o => hs (trsmTableOp t o)) hB r 0 k' inc

theorem combine8_reop_inBounds (hs : Nat → Hdr) (j : Nat) (xr : Nat → Nat) (hBc : 1 ≤ (hs 1).ncols)
    (hj : j < (hs 1).nrows) (hx : ∀ t, t < 8 → xr t < (hs (t + 2)).nrows)
    (hTw : ∀ t, t < 8 → (hs 1).width ≤ (hs (t + 2)).width) :
    All (fun a => a.inBounds (hs a.op))
      (reop (· + 1) (accCombineN (hs 1).phase 8 ⟨j, 0⟩ (fun t => ⟨xr t, 0⟩) (hs 1).width)) := by
  have hw := width_eq (hs 1)
  rw [all_reop_inBounds]
  apply accCombineN_inBounds (fun o => hs (o + 1)) 8 ⟨j, 0⟩ (fun t => ⟨xr t, 0⟩) (hs 1).width
  · omega
  · exact hj
  · show (0 : Int) ≤ 0; omega
  · show (0 : Int) + ((hs 1).width : Int) ≤ ((hs 1).width : Int); omega
  · intro t ht
    have h1 := hx t ht
    have h2 := hTw t ht
    refine ⟨h1, ?_, ?_⟩
    · show (0 : Int) ≤ 0; omega
    · show (0 : Int) + ((hs 1).width : Int) ≤ ((hs (t + 2)).width : Int); omega
theorem combine8_reop_aligned (hs : Nat → Hdr) (j : Nat) (xr : Nat → Nat) (wide : Nat)
    (hph : ∀ t, t < 8 → (hs (t + 2)).phase = (hs 1).phase) :
    All (fun a => a.aligned (hs a.op))
      (reop (· + 1) (accCombineN (hs 1).phase 8 ⟨j, 0⟩ (fun t => ⟨xr t, 0⟩) wide)) := by
  rw [all_reop_aligned]
  apply accCombineN_aligned (fun o => hs (o + 1)) 8 ⟨j, 0⟩ (fun t => ⟨xr t, 0⟩) wide
  intro t ht
  have h := hph t ht
  show ((0 : Int) + ((hs (t + 2)).phase : Int)) % 2 = ((0 : Int) + ((hs 1).phase : Int)) % 2
  rw [h]

/-! ### upper -/

theorem accTrsmUpperMainBlock_inBounds (hs : Nat → Hdr) (k : Nat) (i : Int) (u : Nat → Nat → Bool)
    (inc : Nat → Nat → Nat) (x : Nat → Nat → Nat → Nat)
    (hk1 : 1 ≤ k) (hkk : 8 * k ≤ 64) (hi0 : 0 ≤ i) (hi1 : i < ((hs 1).nrows : Int) - 8 * (k : Int))
    (hUr : (hs 1).nrows ≤ (hs 0).nrows) (hUc : (hs 1).nrows ≤ (hs 0).ncols) (hBc : 1 ≤ (hs 1).ncols)
    (hT : ∀ t, t < 8 → TableOK hs k t) (hx : ∀ k' c j, x k' c j < 2 ^ k') :
    All (fun a => a.inBounds (hs a.op)) (accTrsmUpperMainBlock (hs 1) k i u inc x) := by
  unfold accTrsmUpperMainBlock
  extract_lets n kk col
  rw [all_append, all_append]
  refine ⟨⟨?_, ?_⟩, ?_⟩
  · apply (inBounds_def _ _).mp
    apply accTrsmUpperLeftSubmatrix_inBounds hs <;> (clear_lets; omega)
  · rw [all_down8]
    intro t ht
    exact makeTable_reop_inBounds hs t _ k _ hBc (hT t ht).1 (hT t ht).2
  · rw [all_forI]
    intro j hj0 hj1
    rw [all_append]
    refine ⟨?_, ?_⟩
    · rw [all_down8]
      intro t ht
      have hm := mul_bounds t k ht
      apply accReadBitsOp_all hs 0 <;> ((try simp only [col]); clear_lets; generalize (t + 1) * k = m at *; omega)
    · apply combine8_reop_inBounds hs j.toNat (fun t => x k (col t) j.toNat) hBc
      · clear_lets; omega
      · intro t ht; exact Nat.lt_of_lt_of_le (hx _ _ _) (hT t ht).1
      · intro t ht; exact (hT t ht).2

theorem accTrsmUpperTailBlock_inBounds (hs : Nat → Hdr) (k' : Nat) (i : Int) (u : Nat → Nat → Bool)
    (inc : Nat → Nat → Nat) (x : Nat → Nat → Nat → Nat)
    (hk1 : 1 ≤ k') (hk : k' ≤ 64) (hi0 : 0 ≤ i) (hi1 : i + (k' : Int) ≤ ((hs 1).nrows : Int))
    (hUr : (hs 1).nrows ≤ (hs 0).nrows) (hUc : (hs 1).nrows ≤ (hs 0).ncols) (hBc : 1 ≤ (hs 1).ncols)
    (hT : 2 ^ k' ≤ (hs 2).nrows) (hTw : (hs 1).width ≤ (hs 2).width) (hx : ∀ k' c j, x k' c j < 2 ^ k') :
    All (fun a => a.inBounds (hs a.op)) (accTrsmUpperTailBlock (hs 1) k' i u inc x) := by
  unfold accTrsmUpperTailBlock
  extract_lets n r0
  rw [all_append, all_append]
  refine ⟨⟨?_, ?_⟩, ?_⟩
  · apply (inBounds_def _ _).mp
    apply accTrsmUpperLeftSubmatrix_inBounds hs <;> (clear_lets; omega)
  · exact makeTable_reop_inBounds hs 0 _ k' _ hBc hT hTw
  · rw [all_forI]
    intro j hj0 hj1
    rw [all_append]
    refine ⟨?_, ?_⟩
    · apply accReadBitsOp_all hs 0 <;> (clear_lets; omega)
    · apply trsmTailAdd_inBounds hs
      · clear_lets; omega
      · exact Nat.lt_of_lt_of_le (hx _ _ _) hT
      · exact hTw

theorem i0_nonneg (kk n : Int) (hkk : 0 ≤ kk) : 0 ≤ kk * max 0 ((n - 1) / kk) :=
  Int.mul_nonneg hkk (by omega)

theorem accTrsmUpperLeftRussian_inBounds (hs : Nat → Hdr) (k : Nat) (u : Nat → Nat → Bool)
    (inc : Nat → Nat → Nat) (x : Nat → Nat → Nat → Nat)
    (hk1 : 1 ≤ k) (hkk : 8 * k ≤ 64)
    (hUr : (hs 1).nrows ≤ (hs 0).nrows) (hUc : (hs 1).nrows ≤ (hs 0).ncols) (hBc : 1 ≤ (hs 1).ncols)
    (hT : ∀ t, t < 8 → TableOK hs k t) (hx : ∀ k' c j, x k' c j < 2 ^ k') :
    InBounds hs (accTrsmUpperLeftRussian (hs 1) k u inc x) := by
  unfold accTrsmUpperLeftRussian
  extract_lets n kk i0
  have hi0 : 0 ≤ i0 := i0_nonneg kk n (by clear_lets; omega)
  rw [inBounds_def, all_append, all_forI, all_forI]
  refine ⟨?_, ?_⟩
  · intro i h0 h1
    rw [all_ite]
    refine ⟨fun _ => ?_, fun _ => (all_nil _).mpr trivial⟩
    exact accTrsmUpperMainBlock_inBounds hs k i u inc x hk1 hkk h0 (by clear_lets; omega) hUr hUc hBc hT hx
  · intro i h0 h1
    rw [all_ite]
    refine ⟨fun _ => ?_, fun _ => (all_nil _).mpr trivial⟩
    have hpow : 2 ^ (min (k : Int) (n - i)).toNat ≤ 2 ^ k := Nat.pow_le_pow_right (by omega) (by omega)
    apply accTrsmUpperTailBlock_inBounds hs _ i u inc x _ _ _ _ hUr hUc hBc _ (hT 0 (by omega)).2 hx
    · clear_lets; omega
    · clear_lets; omega
    · clear_lets; omega
    · clear_lets; omega
    · exact Nat.le_trans hpow (hT 0 (by omega)).1

theorem accTrsmUpperLeftRussian_aligned (hs : Nat → Hdr) (k : Nat) (u : Nat → Nat → Bool)
    (inc : Nat → Nat → Nat) (x : Nat → Nat → Nat → Nat)
    (hph : ∀ t, t < 8 → (hs (t + 2)).phase = (hs 1).phase) :
    Aligned hs (accTrsmUpperLeftRussian (hs 1) k u inc x) := by
  unfold accTrsmUpperLeftRussian accTrsmUpperMainBlock accTrsmUpperTailBlock
  rw [aligned_def]
  simp only [all_append, all_forI, all_ite, all_nil, all_down8]
  refine ⟨fun i _ _ => ⟨fun _ => ⟨⟨?_, ?_⟩, ?_⟩, fun _ => trivial⟩, fun i _ _ => ⟨fun _ => ⟨⟨?_, ?_⟩, ?_⟩, fun _ => trivial⟩⟩
  · exact (aligned_def _ _).mp (accTrsmUpperLeftSubmatrix_aligned hs _ _ _ _)
  · intro t _; exact makeTable_reop_aligned hs _ t _ _ _
  · intro j _ _
    exact ⟨fun t _ => accReadBitsOp_aligned hs _ _ _ _, combine8_reop_aligned hs _ _ _ hph⟩
  · exact (aligned_def _ _).mp (accTrsmUpperLeftSubmatrix_aligned hs _ _ _ _)
  · exact makeTable_reop_aligned hs _ 0 _ _ _
  · intro j _ _
    exact ⟨accReadBitsOp_aligned hs _ _ _ _, trsmTailAdd_aligned hs _ _ _⟩

/-! ### lower -/

theorem accTrsmLowerMainBlock_inBounds (hs : Nat → Hdr) (k : Nat) (i : Int) (u : Nat → Nat → Bool)
    (inc : Nat → Nat → Nat) (x : Nat → Nat → Nat → Nat)
    (hk1 : 1 ≤ k) (hkk : 8 * k ≤ 64) (hi0 : 0 ≤ i) (hi1 : i < ((hs 1).nrows : Int) - 8 * (k : Int))
    (hUr : (hs 1).nrows ≤ (hs 0).nrows) (hUc : (hs 1).nrows ≤ (hs 0).ncols) (hBc : 1 ≤ (hs 1).ncols)
    (hT : ∀ t, t < 8 → TableOK hs k t) (hx : ∀ k' c j, x k' c j < 2 ^ k') :
    All (fun a => a.inBounds (hs a.op)) (accTrsmLowerMainBlock (hs 1) k i u inc x) := by
  unfold accTrsmLowerMainBlock
  extract_lets n kk col
  rw [all_append, all_append]
  refine ⟨⟨?_, ?_⟩, ?_⟩
  · apply (inBounds_def _ _).mp
    apply accTrsmLowerLeftSubmatrix_inBounds hs <;> (clear_lets; omega)
  · rw [all_down8]
    intro t ht
    exact makeTable_reop_inBounds hs t _ k _ hBc (hT t ht).1 (hT t ht).2
  · rw [all_forI]
    intro j hj0 hj1
    rw [all_append]
    refine ⟨?_, ?_⟩
    · apply accReadBitsOp_all hs 0 <;> (clear_lets; omega)
    · apply combine8_reop_inBounds hs j.toNat (fun t => x k (col t) j.toNat) hBc
      · clear_lets; omega
      · intro t ht; exact Nat.lt_of_lt_of_le (hx _ _ _) (hT t ht).1
      · intro t ht; exact (hT t ht).2

theorem accTrsmLowerTailBlock_inBounds (hs : Nat → Hdr) (nL k' : Nat) (i : Int) (u : Nat → Nat → Bool)
    (inc : Nat → Nat → Nat) (x : Nat → Nat → Nat → Nat)
    (hk1 : 1 ≤ k') (hk : k' ≤ 64) (hi0 : 0 ≤ i) (hi1 : i + (k' : Int) ≤ ((hs 1).nrows : Int))
    (hnL : nL ≤ (hs 1).nrows)
    (hUr : (hs 1).nrows ≤ (hs 0).nrows) (hUc : (hs 1).nrows ≤ (hs 0).ncols) (hBc : 1 ≤ (hs 1).ncols)
    (hT : 2 ^ k' ≤ (hs 2).nrows) (hTw : (hs 1).width ≤ (hs 2).width) (hx : ∀ k' c j, x k' c j < 2 ^ k') :
    All (fun a => a.inBounds (hs a.op)) (accTrsmLowerTailBlock (hs 1) nL k' i u inc x) := by
  unfold accTrsmLowerTailBlock
  rw [all_append, all_append]
  refine ⟨⟨?_, ?_⟩, ?_⟩
  · apply (inBounds_def _ _).mp
    apply accTrsmLowerLeftSubmatrix_inBounds hs <;> omega
  · exact makeTable_reop_inBounds hs 0 _ k' _ hBc hT hTw
  · rw [all_forI]
    intro j hj0 hj1
    rw [all_append]
    refine ⟨?_, ?_⟩
    · apply accReadBitsOp_all hs 0 <;> omega
    · apply trsmTailAdd_inBounds hs
      · omega
      · exact Nat.lt_of_lt_of_le (hx _ _ _) hT
      · exact hTw

/-- `nL = L->nrows ≤ B->nrows` (the entry point checks `L->nrows == L->ncols == B->nrows`) -/
theorem accTrsmLowerLeftRussian_inBounds (hs : Nat → Hdr) (nL k : Nat) (u : Nat → Nat → Bool)
    (inc : Nat → Nat → Nat) (x : Nat → Nat → Nat → Nat)
    (hk1 : 1 ≤ k) (hkk : 8 * k ≤ 64) (hnL : nL ≤ (hs 1).nrows)
    (hUr : (hs 1).nrows ≤ (hs 0).nrows) (hUc : (hs 1).nrows ≤ (hs 0).ncols) (hBc : 1 ≤ (hs 1).ncols)
    (hT : ∀ t, t < 8 → TableOK hs k t) (hx : ∀ k' c j, x k' c j < 2 ^ k') :
    InBounds hs (accTrsmLowerLeftRussian (hs 1) nL k u inc x) := by
  unfold accTrsmLowerLeftRussian
  extract_lets n kk i0
  have hi0 : 0 ≤ i0 := i0_nonneg kk n (by clear_lets; omega)
  rw [inBounds_def, all_append, all_forI, all_forI]
  refine ⟨?_, ?_⟩
  · intro i h0 h1
    rw [all_ite]
    refine ⟨fun _ => ?_, fun _ => (all_nil _).mpr trivial⟩
    exact accTrsmLowerMainBlock_inBounds hs k i u inc x hk1 hkk h0 (by clear_lets; omega) hUr hUc hBc hT hx
  · intro i h0 h1
    rw [all_ite]
    refine ⟨fun _ => ?_, fun _ => (all_nil _).mpr trivial⟩
    have hpow : 2 ^ (min (k : Int) (n - i)).toNat ≤ 2 ^ k := Nat.pow_le_pow_right (by omega) (by omega)
    apply accTrsmLowerTailBlock_inBounds hs nL _ i u inc x _ _ _ _ hnL hUr hUc hBc _ (hT 0 (by omega)).2 hx
    · clear_lets; omega
    · clear_lets; omega
    · clear_lets; omega
    · clear_lets; omega
    · exact Nat.le_trans hpow (hT 0 (by omega)).1

theorem accTrsmLowerLeftRussian_aligned (hs : Nat → Hdr) (nL k : Nat) (u : Nat → Nat → Bool)
    (inc : Nat → Nat → Nat) (x : Nat → Nat → Nat → Nat)
    (hph : ∀ t, t < 8 → (hs (t + 2)).phase = (hs 1).phase) :
    Aligned hs (accTrsmLowerLeftRussian (hs 1) nL k u inc x) := by
  unfold accTrsmLowerLeftRussian accTrsmLowerMainBlock accTrsmLowerTailBlock
  rw [aligned_def]
  simp only [all_append, all_forI, all_ite, all_nil, all_down8]
  refine ⟨fun i _ _ => ⟨fun _ => ⟨⟨?_, ?_⟩, ?_⟩, fun _ => trivial⟩, fun i _ _ => ⟨fun _ => ⟨⟨?_, ?_⟩, ?_⟩, fun _ => trivial⟩⟩
  · exact (aligned_def _ _).mp (accTrsmLowerLeftSubmatrix_aligned hs _ _ _ _)
  · intro t _; exact makeTable_reop_aligned hs _ t _ _ _
  · intro j _ _
    exact ⟨accReadBitsOp_aligned hs _ _ _ _, combine8_reop_aligned hs _ _ _ hph⟩
  · exact (aligned_def _ _).mp (accTrsmLowerLeftSubmatrix_aligned hs _ _ _ _)
  · exact makeTable_reop_aligned hs _ 0 _ _ _
  · intro j _ _
    exact ⟨accReadBitsOp_aligned hs _ _ _ _, trsmTailAdd_aligned hs _ _ _⟩

/-! ### the tables the routines build themselves satisfy the table hypotheses -/

/-- operand headers of a run: `U`, `B`, and the eight tables as allocated by the routine (SSE2 build) -/
def trsmHdrs (hU hB : Hdr) (k : Nat) : Nat → Hdr := fun o => if o = 0 then hU else if o = 1 then hB else trsmTableHdr hB k

theorem trsmHdrs_table (hU hB : Hdr) (k t : Nat) : trsmHdrs hU hB k (t + 2) = trsmTableHdr hB k := by
  unfold trsmHdrs
  rw [if_neg (by omega), if_neg (by omega)]
theorem trsmHdrs_tableOK (hU hB : Hdr) (k t : Nat) : TableOK (trsmHdrs hU hB k) k t := by
  unfold TableOK
  rw [trsmHdrs_table]
  exact ⟨Nat.le_refl _, Nat.le_refl _⟩

/-- `_mzd_trsm_upper_left_russian(U, B, k)` as it runs (tables allocated by the routine, for BOTH phases of `B` and `U`):
    every access is in bounds and every vector access is aligned -/
theorem accTrsmUpperLeftRussian_safe_partial (hU hB : Hdr) (k : Nat) (u : Nat → Nat → Bool)
    (inc : Nat → Nat → Nat) (x : Nat → Nat → Nat → Nat)
    (hk1 : 1 ≤ k) (hkk : 8 * k ≤ 64) (hUr : hB.nrows ≤ hU.nrows) (hUc : hB.nrows ≤ hU.ncols) (hBc : 1 ≤ hB.ncols)
    (hx : ∀ k' c j, x k' c j < 2 ^ k') :
    InBounds (trsmHdrs hU hB k) (accTrsmUpperLeftRussian hB k u inc x) ∧
    Aligned (trsmHdrs hU hB k) (accTrsmUpperLeftRussian hB k u inc x) :=
  ⟨accTrsmUpperLeftRussian_inBounds (trsmHdrs hU hB k) k u inc x hk1 hkk hUr hUc hBc
      (fun t _ => trsmHdrs_tableOK hU hB k t) hx,
   accTrsmUpperLeftRussian_aligned (trsmHdrs hU hB k) k u inc x (fun t _ => by rw [trsmHdrs_table]; rfl)⟩

theorem accTrsmLowerLeftRussian_safe_partial (hL hB : Hdr) (k : Nat) (u : Nat → Nat → Bool)
    (inc : Nat → Nat → Nat) (x : Nat → Nat → Nat → Nat)
    (hk1 : 1 ≤ k) (hkk : 8 * k ≤ 64) (hLr : hL.nrows = hB.nrows) (hLc : hB.nrows ≤ hL.ncols) (hBc : 1 ≤ hB.ncols)
    (hx : ∀ k' c j, x k' c j < 2 ^ k') :
    InBounds (trsmHdrs hL hB k) (accTrsmLowerLeftRussian hB hL.nrows k u inc x) ∧
    Aligned (trsmHdrs hL hB k) (accTrsmLowerLeftRussian hB hL.nrows k u inc x) :=
  ⟨accTrsmLowerLeftRussian_inBounds (trsmHdrs hL hB k) hL.nrows k u inc x hk1 hkk (by show hL.nrows ≤ hB.nrows; omega)
      (by show hB.nrows ≤ hL.nrows; omega) hLc hBc (fun t _ => trsmHdrs_tableOK hL hB k t) hx,
   accTrsmLowerLeftRussian_aligned (trsmHdrs hL hB k) hL.nrows k u inc x (fun t _ => by rw [trsmHdrs_table]; rfl)⟩

/-- why the `b_align` window is needed: with tables fresh from `mzd_init` (phase 0) and `B` a window starting at an odd
    word (phase 1) — every other hypothesis holds — `_mzd_combine_8` does misaligned `__m128i` loads from the tables.
    (`B` 9 × 192 with `k = 1`: one trip of the main loop, one row outside the 8 × 8 block.) -/
theorem accTrsmUpperLeftRussian_phase_witness :
    ¬ Aligned (fun o => if o = 0 then ⟨9, 9, 2, 0⟩ else if o = 1 then ⟨9, 192, 4, 1⟩ else ⟨2, 192, 4, 0⟩)
        (accTrsmUpperLeftRussian ⟨9, 192, 4, 1⟩ 1 (fun _ _ => false) (fun _ _ => 0) (fun _ _ _ => 1)) := by decide +kernel
theorem accTrsmLowerLeftRussian_phase_witness :
    ¬ Aligned (fun o => if o = 0 then ⟨9, 9, 2, 0⟩ else if o = 1 then ⟨9, 192, 4, 1⟩ else ⟨2, 192, 4, 0⟩)
        (accTrsmLowerLeftRussian ⟨9, 192, 4, 1⟩ 9 1 (fun _ _ => false) (fun _ _ => 0) (fun _ _ _ => 1)) := by decide +kernel

-- non-vacuity: B = 21 x 300 window at an odd word, U 21 x 21, k = 2 (kk = 16: one main trip, a tail of 2 full trips and one reduced)
example : vrd 9 3 1 ∈ accTrsmUpperLeftRussian ⟨21, 300, 8, 1⟩ 2 (fun r c => (r + c) % 3 = 0) (fun _ i => i % 2) (fun _ _ _ => 3) := by
  decide +kernel
example : InBounds (trsmHdrs ⟨21, 21, 2, 0⟩ ⟨21, 300, 8, 1⟩ 2)
      (accTrsmUpperLeftRussian ⟨21, 300, 8, 1⟩ 2 (fun r c => (r + c) % 3 = 0) (fun _ i => i % 2) (fun k' _ _ => 2 ^ k' - 1)) ∧
    Aligned (trsmHdrs ⟨21, 21, 2, 0⟩ ⟨21, 300, 8, 1⟩ 2)
      (accTrsmUpperLeftRussian ⟨21, 300, 8, 1⟩ 2 (fun r c => (r + c) % 3 = 0) (fun _ i => i % 2) (fun k' _ _ => 2 ^ k' - 1)) :=
  accTrsmUpperLeftRussian_safe_partial _ _ 2 _ _ _ (by decide) (by decide) (by decide) (by decide) (by decide)
    (fun k' _ _ => Nat.sub_lt (Nat.two_pow_pos k') (by decide))
example : InBounds (trsmHdrs ⟨21, 21, 2, 1⟩ ⟨21, 300, 8, 1⟩ 2)
      (accTrsmLowerLeftRussian ⟨21, 300, 8, 1⟩ 21 2 (fun r c => (r + c) % 3 = 0) (fun _ i => i % 2) (fun k' _ _ => 2 ^ k' - 1)) ∧
    Aligned (trsmHdrs ⟨21, 21, 2, 1⟩ ⟨21, 300, 8, 1⟩ 2)
      (accTrsmLowerLeftRussian ⟨21, 300, 8, 1⟩ 21 2 (fun r c => (r + c) % 3 = 0) (fun _ i => i % 2) (fun k' _ _ => 2 ^ k' - 1)) :=
  accTrsmLowerLeftRussian_safe_partial ⟨21, 21, 2, 1⟩ ⟨21, 300, 8, 1⟩ 2 _ _ _ (by decide) (by decide) (by decide) (by decide) (by decide)
    (fun k' _ _ => Nat.sub_lt (Nat.two_pow_pos k') (by decide))

/-! ### `1 ≤ B->ncols` is NOT checked by the entry points (`mzd_trsm_upper_left` / `mzd_trsm_lower_left` only test
    `U->ncols == B->nrows` and `U` square), and it is necessary: the full statements are false. -/

/-- the statement one would like: safe under the checked preconditions only -/
def accTrsmUpperLeftRussian_full : Prop :=
  ∀ (hU hB : Hdr) (k : Nat) (u : Nat → Nat → Bool) (inc : Nat → Nat → Nat) (x : Nat → Nat → Nat → Nat),
    1 ≤ k → 8 * k ≤ 64 → hB.nrows ≤ hU.nrows → hB.nrows ≤ hU.ncols → (∀ k' c j, x k' c j < 2 ^ k') →
    InBounds (trsmHdrs hU hB k) (accTrsmUpperLeftRussian hB k u inc x)
def accTrsmLowerLeftRussian_full : Prop :=
  ∀ (hL hB : Hdr) (k : Nat) (u : Nat → Nat → Bool) (inc : Nat → Nat → Nat) (x : Nat → Nat → Nat → Nat),
    1 ≤ k → 8 * k ≤ 64 → hL.nrows = hB.nrows → hB.nrows ≤ hL.ncols → (∀ k' c j, x k' c j < 2 ^ k') →
    InBounds (trsmHdrs hL hB k) (accTrsmLowerLeftRussian hB hL.nrows k u inc x)

/-- DEFECT (confirmed on the real code, see the report): a right-hand side `B` with ZERO columns.
    `mzd_make_table(B, r, 0, k, T, L)` unconditionally executes `*ti++ = (*m++ ^ *ti1++) & mask_begin` — it reads word 0 of
    a row of `B` although `B->width = 0` (for `B = mzd_init(n, 0)` the data pointer is NULL), and writes word 0 of the
    zero-width table window.  Here with `B` at an even word (phase 0), 9 × 0, `k = 1`. -/
theorem accTrsmUpperLeftRussian_zero_cols_witness :
    ¬ InBounds (trsmHdrs ⟨9, 9, 2, 0⟩ ⟨9, 0, 2, 0⟩ 1)
        (accTrsmUpperLeftRussian ⟨9, 0, 2, 0⟩ 1 (fun _ _ => false) (fun _ _ => 0) (fun k' _ _ => 2 ^ k' - 1)) := by
  decide +kernel
/-- … and when the zero-column `B` is a window starting at an ODD word (phase 1), `_mzd_combine_8(b, t, wide = 0)` peels one
    word (`wide` becomes `-1`) and then, because `-1 & 1 = 1`, XORs a SECOND word: two words of the parent of `B` next to
    the empty window are overwritten with table garbage, and word 1 of the last row of a zero-width table window lies
    behind the table's block (`accCombineN_wide0_witness`). -/
theorem accTrsmUpperLeftRussian_zero_cols_odd_witness :
    wr 1 0 1 ∈ accTrsmUpperLeftRussian ⟨9, 0, 2, 1⟩ 1 (fun _ _ => false) (fun _ _ => 0) (fun k' _ _ => 2 ^ k' - 1) ∧
    rd 2 1 1 ∈ accTrsmUpperLeftRussian ⟨9, 0, 2, 1⟩ 1 (fun _ _ => false) (fun _ _ => 0) (fun k' _ _ => 2 ^ k' - 1) := by
  decide +kernel
theorem accTrsmLowerLeftRussian_zero_cols_witness :
    ¬ InBounds (trsmHdrs ⟨9, 9, 2, 0⟩ ⟨9, 0, 2, 0⟩ 1)
        (accTrsmLowerLeftRussian ⟨9, 0, 2, 0⟩ 9 1 (fun _ _ => false) (fun _ _ => 0) (fun k' _ _ => 2 ^ k' - 1)) := by
  decide +kernel

theorem accTrsmUpperLeftRussian_full_false : ¬ accTrsmUpperLeftRussian_full := by
  intro h
  exact accTrsmUpperLeftRussian_zero_cols_witness
    (h ⟨9, 9, 2, 0⟩ ⟨9, 0, 2, 0⟩ 1 _ _ _ (by decide) (by decide) (by decide) (by decide)
      (fun k' _ _ => Nat.sub_lt (Nat.two_pow_pos k') (by decide)))
theorem accTrsmLowerLeftRussian_full_false : ¬ accTrsmLowerLeftRussian_full := by
  intro h
  exact accTrsmLowerLeftRussian_zero_cols_witness
    (h ⟨9, 9, 2, 0⟩ ⟨9, 0, 2, 0⟩ 1 _ _ _ (by decide) (by decide) (by decide) (by decide)
      (fun k' _ _ => Nat.sub_lt (Nat.two_pow_pos k') (by decide)))

/-! ### shift counts of the two routines: `1 ≤ k`, `8 k ≤ 64` -/

theorem all_shTrsmUpper (s k : Nat) : All (fun s => 0 ≤ s ∧ s ≤ 63) (shTrsmUpperLeftSubmatrix s k) :=
  shTrsmUpperLeftSubmatrix_ok s k
theorem all_shTrsmLower (s k : Nat) : All (fun s => 0 ≤ s ∧ s ≤ 63) (shTrsmLowerLeftSubmatrix s k) :=
  shTrsmLowerLeftSubmatrix_ok s k
theorem all_shMakeTable (hM : Hdr) (c k : Nat) (hk : k ≤ 63) : All (fun s => 0 ≤ s ∧ s ≤ 63) (shMakeTable hM c k) :=
  shMakeTable_ok hM c k hk

theorem shTrsmUpperLeftRussian_ok (hB : Hdr) (k : Nat) (hk1 : 1 ≤ k) (hkk : 8 * k ≤ 64) :
    ShiftsOK (shTrsmUpperLeftRussian hB k) := by
  unfold shTrsmUpperLeftRussian
  extract_lets n kk i0
  have hi0 : 0 ≤ i0 := i0_nonneg kk n (by clear_lets; omega)
  rw [shiftsOK_def]
  simp only [all_append, all_cons, all_nil, all_forI, all_ite, all_down8]
  refine ⟨⟨⟨by omega, by omega, trivial⟩, fun i _ _ => ⟨fun _ => ⟨⟨all_shTrsmUpper _ _, fun _ _ => all_shMakeTable _ _ _ (by omega)⟩,
      fun j _ _ t ht => ?_⟩, fun _ => trivial⟩⟩, fun i _ _ => ⟨fun _ => ?_, fun _ => trivial⟩⟩
  · exact shReadBits_all _ _ hk1 (by omega)
  · refine ⟨⟨all_shTrsmUpper _ _, all_shMakeTable _ _ _ (by clear_lets; omega)⟩, fun j _ _ => ?_⟩
    apply shReadBits_all <;> (clear_lets; omega)

theorem shTrsmLowerLeftRussian_ok (hB : Hdr) (nL k : Nat) (hk1 : 1 ≤ k) (hkk : 8 * k ≤ 64) :
    ShiftsOK (shTrsmLowerLeftRussian hB nL k) := by
  unfold shTrsmLowerLeftRussian
  extract_lets n kk i0
  have hi0 : 0 ≤ i0 := i0_nonneg kk n (by clear_lets; omega)
  rw [shiftsOK_def]
  simp only [all_append, all_cons, all_nil, all_forI, all_ite, all_down8]
  refine ⟨⟨⟨by omega, by omega, trivial⟩, fun i _ _ => ⟨fun _ => ⟨⟨all_shTrsmLower _ _, fun _ _ => all_shMakeTable _ _ _ (by omega)⟩,
      fun j _ _ => ⟨shReadBits_all _ _ (by omega) (by omega), fun t ht => ?_⟩⟩, fun _ => trivial⟩⟩,
      fun i _ _ => ⟨fun _ => ?_, fun _ => trivial⟩⟩
  · have := (mul_bounds t k ht).2.2
    refine ⟨⟨by omega, by omega⟩, trivial⟩
  · refine ⟨⟨all_shTrsmLower _ _, all_shMakeTable _ _ _ (by clear_lets; omega)⟩, fun j _ _ => ?_⟩
    apply shReadBits_all <;> (clear_lets; omega)

/-! ### `_mzd_trtri_upper_submatrix(A, pivot_r, elim_r, k)`
    Operand 0 = `A`.  Preconditions: `pivot_r + k ≤ A->nrows`, `pivot_r + k ≤ A->ncols` (the caller has `A` square and
    `pivot_r + k ≤ A->nrows`).  No condition on `elim_r` (`elim_r ≥ i` gives an empty loop), none on the phase of `A`:
    `mzd_row_add_offset` tests the alignment of the pointers it uses (`accRowAddOffset_aligned`). -/

theorem accRowAddOffset_all_inBounds (h : Hdr) (dst src c : Nat) (hd : dst < h.nrows) (hsr : src < h.nrows)
    (hc : c < h.ncols) : All (fun a => a.inBounds ((fun _ => h) a.op)) (accRowAddOffset h dst src c) :=
  accRowAddOffset_inBounds h dst src c hd hsr hc
theorem accRowAddOffset_all_aligned (h : Hdr) (dst src c : Nat) :
    All (fun a => a.aligned ((fun _ => h) a.op)) (accRowAddOffset h dst src c) :=
  accRowAddOffset_aligned h dst src c

theorem accTrtriUpperSubmatrix_inBounds (h : Hdr) (pivot_r elim_r k : Nat) (u : Nat → Nat → Bool)
    (hr : pivot_r + k ≤ h.nrows) (hc : pivot_r + k ≤ h.ncols) :
    InBounds (fun _ => h) (accTrtriUpperSubmatrix h pivot_r elim_r k u) := by
  have hw := width_eq h
  unfold accTrtriUpperSubmatrix
  trace_simp [accReadBit]
  fin_tail (accRowAddOffset_all_inBounds h)

theorem accTrtriUpperSubmatrix_aligned (h : Hdr) (pivot_r elim_r k : Nat) (u : Nat → Nat → Bool) :
    Aligned (fun _ => h) (accTrtriUpperSubmatrix h pivot_r elim_r k u) := by
  unfold accTrtriUpperSubmatrix
  trace_simp [accReadBit]
  fin_tail (accRowAddOffset_all_aligned h)

theorem shTrtriUpperSubmatrix_ok (h : Hdr) (pivot_r elim_r k : Nat) (u : Nat → Nat → Bool) :
    ShiftsOK (shTrtriUpperSubmatrix h pivot_r elim_r k u) := by
  unfold shTrtriUpperSubmatrix
  trace_simp [shReadBit, shRowAddOffset]
  fin_omega

/-- the guard `(i + 1) < A->ncols` is what keeps `mzd_row_add_offset(A, j, i, i + 1)` inside its `assert(coloffset < ncols)`:
    for the last column no row addition is performed, whatever the bit -/
example : accTrtriUpperSubmatrix ⟨2, 2, 2, 0⟩ 1 0 1 (fun _ _ => true) = [rd 0 0 0] := by decide

-- non-vacuity: A = 70 x 70 window at an odd word, pivot block of 4 at 60, elimination from row 58
example : InBounds (fun _ => ⟨70, 70, 4, 1⟩) (accTrtriUpperSubmatrix ⟨70, 70, 4, 1⟩ 60 58 4 (fun _ _ => true)) :=
  accTrtriUpperSubmatrix_inBounds _ 60 58 4 _ (by decide) (by decide)
example : wr 0 58 1 ∈ accTrtriUpperSubmatrix ⟨70, 70, 4, 1⟩ 60 58 4 (fun _ _ => true) := by decide

/-!
  ################################################################################################

  Property C11 (memory safety), part 4: safety theorems for the access-trace model `M4ri/Safety4.lean` of the
  transposition kernels of mzd.c (same predicates and conventions as `M4riProofs/Safety.lean`).

  All these kernels are scalar, so `Aligned` holds for every phase of every operand; the content is `InBounds`
  (every kernel stays inside its FOOTPRINT: `ns` rows of `src` from the source pointer, `nd` rows of `dst` from the
  destination pointer, always the single word the pointer designates) and `ShiftsOK`.
  Core Lean only.
-/
/-! ### infrastructure: footprints and regions -/

/-- the footprint of a raw-pointer kernel: `P` holds for the reads of the rows `[0, ns)` from `src` and for the reads
    and writes of the rows `[0, nd)` from `dst` -/
def Foot (P : Access → Prop) (od os : Option Nat) (dst src : Ptr) (nd ns : Int) : Prop :=
  (∀ i, 0 ≤ i → i < ns → All P (prd os src i)) ∧
  (∀ i, 0 ≤ i → i < nd → All P (prd od dst i) ∧ All P (pwr od dst i))

/-- `P` holds for every scalar access of operand `o` to the rows `[p.row, p.row + nr)`, words `[p.blk, p.blk + nw)` -/
def Region (P : Access → Prop) (o : Nat) (p : Ptr) (nr nw : Int) : Prop :=
  ∀ (r : Nat) (w : Int), (p.row : Int) ≤ r → (r : Int) < p.row + nr → p.blk ≤ w → w < p.blk + nw →
    P (rd o r w) ∧ P (wr o r w)

theorem Region.mono {P : Access → Prop} {o : Nat} {p q : Ptr} {nr nw nr' nw' : Int} (h : Region P o p nr nw)
    (h1 : (p.row : Int) ≤ q.row) (h2 : (q.row : Int) + nr' ≤ p.row + nr) (h3 : p.blk ≤ q.blk)
    (h4 : q.blk + nw' ≤ p.blk + nw) : Region P o q nr' nw' := by
  intro r w a b c d
  exact h r w (by omega) (by omega) (by omega) (by omega)

theorem all_prd_none (P : Access → Prop) (p : Ptr) (i : Int) : All P (prd none p i) := by simp [prd, All]
theorem all_pwr_none (P : Access → Prop) (p : Ptr) (i : Int) : All P (pwr none p i) := by simp [pwr, All]
theorem all_prd_some (P : Access → Prop) (o : Nat) (p : Ptr) (i : Int) :
    All P (prd (some o) p i) ↔ P (rd o (p.row + i.toNat) p.blk) := by simp [prd, All]
theorem all_pwr_some (P : Access → Prop) (o : Nat) (p : Ptr) (i : Int) :
    All P (pwr (some o) p i) ↔ P (wr o (p.row + i.toNat) p.blk) := by simp [pwr, All]

/-- a kernel whose pointers lie in regions where `P` holds has the footprint property -/
theorem foot_region {P : Access → Prop} {od os : Nat} {D S : Ptr} {nrD nwD nrS nwS : Int}
    (hD : Region P od D nrD nwD) (hS : Region P os S nrS nwS) (dst src : Ptr) (nd ns : Int)
    (d1 : (D.row : Int) ≤ dst.row) (d2 : (dst.row : Int) + nd ≤ D.row + nrD) (d3 : D.blk ≤ dst.blk)
    (d4 : dst.blk < D.blk + nwD)
    (s1 : (S.row : Int) ≤ src.row) (s2 : (src.row : Int) + ns ≤ S.row + nrS) (s3 : S.blk ≤ src.blk)
    (s4 : src.blk < S.blk + nwS) : Foot P (some od) (some os) dst src nd ns := by
  refine ⟨fun i h0 h1 => ?_, fun i h0 h1 => ⟨?_, ?_⟩⟩
  · rw [all_prd_some]; exact (hS _ _ (by omega) (by omega) s3 s4).1
  · rw [all_prd_some]; exact (hD _ _ (by omega) (by omega) d3 d4).1
  · rw [all_pwr_some]; exact (hD _ _ (by omega) (by omega) d3 d4).2

theorem Foot.mono {P : Access → Prop} {od os : Option Nat} {dst src : Ptr} {nd ns nd' ns' : Int}
    (h : Foot P od os dst src nd ns) (h1 : nd' ≤ nd) (h2 : ns' ≤ ns) : Foot P od os dst src nd' ns' :=
  ⟨fun i a b => h.1 i a (by omega), fun i a b => h.2 i a (by omega)⟩

theorem Foot.srcNone {P : Access → Prop} {od os : Option Nat} {dst src : Ptr} {nd ns : Int}
    (h : Foot P od os dst src nd ns) (q : Ptr) (ns' : Int) : Foot P od none dst q nd ns' :=
  ⟨fun i _ _ => all_prd_none P q i, h.2⟩
theorem Foot.dstNone {P : Access → Prop} {od os : Option Nat} {dst src : Ptr} {nd ns : Int}
    (h : Foot P od os dst src nd ns) (q : Ptr) (nd' : Int) : Foot P none os q src nd' ns :=
  ⟨h.1, fun i _ _ => ⟨all_prd_none P q i, all_pwr_none P q i⟩⟩

/-- the two instances of `P` -/
theorem region_inBounds (hs : Nat → Hdr) (o : Nat) (p : Ptr) (nr nw : Int)
    (h1 : (p.row : Int) + nr ≤ (hs o).nrows) (h2 : 0 ≤ p.blk) (h3 : p.blk + nw ≤ (hs o).width) :
    Region (fun a => a.inBounds (hs a.op)) o p nr nw := by
  intro r w a b c d
  simp only [ib_rd, ib_wr, op_rd, op_wr]
  omega
theorem region_aligned (hs : Nat → Hdr) (o : Nat) (p : Ptr) (nr nw : Int) :
    Region (fun a => a.aligned (hs a.op)) o p nr nw := by
  intro r w a b c d
  simp only [al_rd, al_wr, and_self]

/-! ## (a) `_mzd_copy_transpose_64x64`, `_mzd_copy_transpose_64x64_2`
    Footprint: 64 rows of `src`, 64 rows of `dst` (the documented precondition: "64 x 64 matrix with width 1"). -/

theorem tr64First_all (P : Access → Prop) (od os : Option Nat) (dst src : Ptr)
    (h : Foot P od os dst src 64 64) : All P (tr64First od os dst src) := by
  unfold tr64First
  simp only [all_forI, all_append]
  intro k h0 h1
  have a := h.1 k (by omega) (by omega)
  have b := h.1 (k + 32) (by omega) (by omega)
  have c := h.2 k (by omega) (by omega)
  have d := h.2 (k + 32) (by omega) (by omega)
  exact ⟨⟨⟨⟨⟨a, b⟩, a⟩, c.2⟩, b⟩, d.2⟩

theorem tr64Swap_all (P : Access → Prop) (od : Option Nat) (dst : Ptr) (j : Int)
    (hj : j = 16 ∨ j = 8 ∨ j = 4 ∨ j = 2 ∨ j = 1)
    (h : ∀ i, 0 ≤ i → i < 64 → All P (prd od dst i) ∧ All P (pwr od dst i)) : All P (tr64Swap od dst j) := by
  unfold tr64Swap
  simp only [all_forI, all_append]
  intro b hb0 hb1 k hk0 hk1
  have key : 0 ≤ 2 * j * b + k ∧ 2 * j * b + k + j < 64 := by
    rcases hj with rfl | rfl | rfl | rfl | rfl <;> omega
  have hjp : 0 < j := by rcases hj with rfl | rfl | rfl | rfl | rfl <;> omega
  have c := h (2 * j * b + k) key.1 (by omega)
  have d := h (2 * j * b + k + j) (by omega) key.2
  exact ⟨⟨⟨⟨⟨c.1, d.1⟩, c.1⟩, c.2⟩, d.1⟩, d.2⟩

/-- `_mzd_copy_transpose_64x64` touches only the 64 rows from `src` and the 64 rows from `dst` -/
theorem acc64x64_all (P : Access → Prop) (od os : Option Nat) (dst src : Ptr)
    (h : Foot P od os dst src 64 64) : All P (acc64x64 od os dst src) := by
  unfold acc64x64
  simp only [all_append]
  refine ⟨⟨⟨⟨⟨tr64First_all P od os dst src h, ?_⟩, ?_⟩, ?_⟩, ?_⟩, ?_⟩ <;>
    exact tr64Swap_all P od dst _ (by simp) h.2

theorem tr64First2_all (P : Access → Prop) (od os : Option Nat) (dst1 dst2 src1 src2 : Ptr)
    (h1 : Foot P od os dst1 src1 64 64) (h2 : Foot P od os dst2 src2 64 64) :
    All P (tr64First2 od os dst1 dst2 src1 src2) := by
  unfold tr64First2
  simp only [all_forI, all_append]
  intro k h0 hk
  have a := h1.1 k (by omega) (by omega)
  have b := h1.1 (k + 32) (by omega) (by omega)
  have c := h1.2 k (by omega) (by omega)
  have d := h1.2 (k + 32) (by omega) (by omega)
  have a' := h2.1 k (by omega) (by omega)
  have b' := h2.1 (k + 32) (by omega) (by omega)
  have c' := h2.2 k (by omega) (by omega)
  have d' := h2.2 (k + 32) (by omega) (by omega)
  exact ⟨⟨⟨⟨⟨⟨⟨⟨⟨⟨⟨a, b⟩, a'⟩, b'⟩, a⟩, c.2⟩, a'⟩, c'.2⟩, b⟩, d.2⟩, b'⟩, d'.2⟩

theorem tr64Swap2_all (P : Access → Prop) (od : Option Nat) (dst1 dst2 : Ptr) (j : Int)
    (hj : j = 16 ∨ j = 8 ∨ j = 4 ∨ j = 2 ∨ j = 1)
    (h1 : ∀ i, 0 ≤ i → i < 64 → All P (prd od dst1 i) ∧ All P (pwr od dst1 i))
    (h2 : ∀ i, 0 ≤ i → i < 64 → All P (prd od dst2 i) ∧ All P (pwr od dst2 i)) :
    All P (tr64Swap2 od dst1 dst2 j) := by
  unfold tr64Swap2
  simp only [all_forI, all_append]
  intro b hb0 hb1 k hk0 hk1
  have key : 0 ≤ 2 * j * b + k ∧ 2 * j * b + k + j < 64 := by
    rcases hj with rfl | rfl | rfl | rfl | rfl <;> omega
  have hjp : 0 < j := by rcases hj with rfl | rfl | rfl | rfl | rfl <;> omega
  have c := h1 (2 * j * b + k) key.1 (by omega)
  have d := h1 (2 * j * b + k + j) (by omega) key.2
  have c' := h2 (2 * j * b + k) key.1 (by omega)
  have d' := h2 (2 * j * b + k + j) (by omega) key.2
  exact ⟨⟨⟨⟨⟨⟨⟨⟨⟨⟨⟨c.1, d.1⟩, c'.1⟩, d'.1⟩, c.1⟩, c.2⟩, c'.1⟩, c'.2⟩, d.1⟩, d.2⟩, d'.1⟩, d'.2⟩

/-- `_mzd_copy_transpose_64x64_2`: the two footprints -/
theorem acc64x64_2_all (P : Access → Prop) (od os : Option Nat) (dst1 dst2 src1 src2 : Ptr)
    (h1 : Foot P od os dst1 src1 64 64) (h2 : Foot P od os dst2 src2 64 64) :
    All P (acc64x64_2 od os dst1 dst2 src1 src2) := by
  unfold acc64x64_2
  simp only [all_append]
  refine ⟨⟨⟨⟨⟨tr64First2_all P od os dst1 dst2 src1 src2 h1 h2, ?_⟩, ?_⟩, ?_⟩, ?_⟩, ?_⟩ <;>
    exact tr64Swap2_all P od dst1 dst2 _ (by simp) h1.2 h2.2

/-- the pointer-level statement: `dst` designates 64 rows of one word of operand 0, `src` of operand 1 -/
theorem acc64x64_inBounds (hs : Nat → Hdr) (dst src : Ptr)
    (hd : dst.row + 64 ≤ (hs 0).nrows) (hd0 : 0 ≤ dst.blk) (hd1 : dst.blk < (hs 0).width)
    (hsr : src.row + 64 ≤ (hs 1).nrows) (hs0 : 0 ≤ src.blk) (hs1 : src.blk < (hs 1).width) :
    InBounds hs (acc64x64 (some 0) (some 1) dst src) := by
  apply acc64x64_all
  exact foot_region (region_inBounds hs 0 dst 64 1 (by omega) hd0 (by omega))
    (region_inBounds hs 1 src 64 1 (by omega) hs0 (by omega)) dst src 64 64
    (by omega) (by omega) (by omega) (by omega) (by omega) (by omega) (by omega) (by omega)

theorem acc64x64_aligned (hs : Nat → Hdr) (dst src : Ptr) : Aligned hs (acc64x64 (some 0) (some 1) dst src) := by
  apply acc64x64_all
  exact foot_region (region_aligned hs 0 dst 64 1) (region_aligned hs 1 src 64 1) dst src 64 64
    (by omega) (by omega) (by omega) (by omega) (by omega) (by omega) (by omega) (by omega)

/-- 64 rows are NECESSARY on both sides: a 63-row destination (or source) is overrun by one row -/
theorem acc64x64_rows_witness :
    ¬ InBounds (fun o => if o = 0 then ⟨63, 64, 2, 0⟩ else ⟨64, 64, 2, 0⟩) (acc64x64 (some 0) (some 1) ⟨0, 0⟩ ⟨0, 0⟩) ∧
    ¬ InBounds (fun o => if o = 0 then ⟨64, 64, 2, 0⟩ else ⟨63, 64, 2, 0⟩) (acc64x64 (some 0) (some 1) ⟨0, 0⟩ ⟨0, 0⟩) := by
  constructor <;> decide +kernel

example : InBounds (fun o => if o = 0 then ⟨70, 200, 4, 1⟩ else ⟨64, 64, 2, 0⟩) (acc64x64 (some 0) (some 1) ⟨6, 3⟩ ⟨0, 0⟩) :=
  acc64x64_inBounds _ _ _ (by decide) (by decide) (by decide) (by decide) (by decide) (by decide)

theorem acc64x64_2_inBounds (hs : Nat → Hdr) (dst1 dst2 src1 src2 : Ptr)
    (hd : dst1.row + 64 ≤ (hs 0).nrows) (hd0 : 0 ≤ dst1.blk) (hd1 : dst1.blk < (hs 0).width)
    (hd' : dst2.row + 64 ≤ (hs 0).nrows) (hd0' : 0 ≤ dst2.blk) (hd1' : dst2.blk < (hs 0).width)
    (hsr : src1.row + 64 ≤ (hs 1).nrows) (hs0 : 0 ≤ src1.blk) (hs1 : src1.blk < (hs 1).width)
    (hsr' : src2.row + 64 ≤ (hs 1).nrows) (hs0' : 0 ≤ src2.blk) (hs1' : src2.blk < (hs 1).width) :
    InBounds hs (acc64x64_2 (some 0) (some 1) dst1 dst2 src1 src2) := by
  apply acc64x64_2_all
  · exact foot_region (region_inBounds hs 0 dst1 64 1 (by omega) hd0 (by omega))
      (region_inBounds hs 1 src1 64 1 (by omega) hs0 (by omega)) dst1 src1 64 64
      (by omega) (by omega) (by omega) (by omega) (by omega) (by omega) (by omega) (by omega)
  · exact foot_region (region_inBounds hs 0 dst2 64 1 (by omega) hd0' (by omega))
      (region_inBounds hs 1 src2 64 1 (by omega) hs0' (by omega)) dst2 src2 64 64
      (by omega) (by omega) (by omega) (by omega) (by omega) (by omega) (by omega) (by omega)

theorem acc64x64_2_aligned (hs : Nat → Hdr) (dst1 dst2 src1 src2 : Ptr) :
    Aligned hs (acc64x64_2 (some 0) (some 1) dst1 dst2 src1 src2) := by
  apply acc64x64_2_all
  · exact foot_region (region_aligned hs 0 dst1 64 1) (region_aligned hs 1 src1 64 1) dst1 src1 64 64
      (by omega) (by omega) (by omega) (by omega) (by omega) (by omega) (by omega) (by omega)
  · exact foot_region (region_aligned hs 0 dst2 64 1) (region_aligned hs 1 src2 64 1) dst2 src2 64 64
      (by omega) (by omega) (by omega) (by omega) (by omega) (by omega) (by omega) (by omega)

example : InBounds (fun o => if o = 0 then ⟨128, 128, 2, 1⟩ else ⟨64, 128, 2, 0⟩)
    (acc64x64_2 (some 0) (some 1) ⟨0, 0⟩ ⟨64, 0⟩ ⟨0, 0⟩ ⟨0, 1⟩) :=
  acc64x64_2_inBounds _ _ _ _ _ (by decide) (by decide) (by decide) (by decide) (by decide) (by decide)
    (by decide) (by decide) (by decide) (by decide) (by decide) (by decide)

theorem sh64Swap_all (j : Int) (h0 : 0 ≤ j) (h1 : j ≤ 63) : All (fun s => 0 ≤ s ∧ s ≤ 63) (sh64Swap j) := by
  unfold sh64Swap
  simp only [all_forI, all_append, all_cons, all_nil]
  fin_omega
theorem sh64Swap2_all (j : Int) (h0 : 0 ≤ j) (h1 : j ≤ 63) : All (fun s => 0 ≤ s ∧ s ≤ 63) (sh64Swap2 j) := by
  unfold sh64Swap2
  simp only [all_forI, all_append, all_cons, all_nil]
  fin_omega

/-- every variable shift count of `_mzd_copy_transpose_64x64` is one of 32, 16, 8, 4, 2, 1, 0 -/
theorem sh64x64_ok : ShiftsOK sh64x64 := by
  unfold sh64x64
  rw [shiftsOK_def]
  simp only [all_append]
  refine ⟨⟨⟨⟨⟨?_, ?_⟩, ?_⟩, ?_⟩, ?_⟩, ?_⟩
  · simp only [all_forI, all_cons, all_nil]; fin_omega
  all_goals exact sh64Swap_all _ (by omega) (by omega)
theorem sh64x64_2_ok : ShiftsOK sh64x64_2 := by
  unfold sh64x64_2
  rw [shiftsOK_def]
  simp only [all_append]
  refine ⟨⟨⟨⟨⟨?_, ?_⟩, ?_⟩, ?_⟩, ?_⟩, ?_⟩
  · simp only [all_forI, all_cons, all_nil]; fin_omega
  all_goals exact sh64Swap2_all _ (by omega) (by omega)

/-! ## (b) `_mzd_copy_transpose_lt64x64(dst, src, …, n)`: `n` rows of `src`, ALWAYS 64 rows of `dst`
    (whatever `n`: no hypothesis on `n` is needed for the bounds) -/

theorem pow2c_cases (n : Int) :
    pow2c n = 1 ∨ pow2c n = 2 ∨ pow2c n = 4 ∨ pow2c n = 8 ∨ pow2c n = 16 ∨ pow2c n = 32 ∨ pow2c n = 64 := by
  unfold pow2c
  repeat' split
  all_goals simp

/-- `for k < j, q < 64/j`: the rows `k + j q` are exactly the rows `0..63` -/
theorem strided_all (P : Access → Prop) (j : Int)
    (hj : j = 1 ∨ j = 2 ∨ j = 4 ∨ j = 8 ∨ j = 16 ∨ j = 32 ∨ j = 64) (f : Int → List Access)
    (h : ∀ i, 0 ≤ i → i < 64 → All P (f i)) :
    All P (forI 0 j (fun k => forI 0 (64 / j) (fun q => f (k + j * q)))) := by
  simp only [all_forI]
  intro k hk0 hk1 q hq0 hq1
  apply h <;> rcases hj with rfl | rfl | rfl | rfl | rfl | rfl | rfl <;> omega

theorem accLt64x64_all (P : Access → Prop) (od os : Option Nat) (dst src : Ptr) (n : Int)
    (h : Foot P od os dst src 64 n) : All P (accLt64x64 od os dst src n) := by
  unfold accLt64x64
  simp only [all_append, all_ite]
  refine ⟨?_, fun _ => acc64x64_all P od none dst stackPtr (h.srcNone _ _), fun _ => ?_⟩
  · simp only [all_forI]; exact fun k h0 h1 => h.1 k h0 h1
  · exact strided_all P _ (pow2c_cases n) _ (fun i h0 h1 => (h.2 i h0 h1).2)

theorem accLt64x64_inBounds (hs : Nat → Hdr) (dst src : Ptr) (n : Int)
    (hd : dst.row + 64 ≤ (hs 0).nrows) (hd0 : 0 ≤ dst.blk) (hd1 : dst.blk < (hs 0).width)
    (hsr : src.row + n ≤ (hs 1).nrows) (hs0 : 0 ≤ src.blk) (hs1 : src.blk < (hs 1).width) :
    InBounds hs (accLt64x64 (some 0) (some 1) dst src n) := by
  apply accLt64x64_all
  exact foot_region (region_inBounds hs 0 dst 64 1 (by omega) hd0 (by omega))
    (region_inBounds hs 1 src n 1 (by omega) hs0 (by omega)) dst src 64 n
    (by omega) (by omega) (by omega) (by omega) (by omega) (by omega) (by omega) (by omega)
theorem accLt64x64_aligned (hs : Nat → Hdr) (dst src : Ptr) (n : Int) :
    Aligned hs (accLt64x64 (some 0) (some 1) dst src n) := by
  apply accLt64x64_all
  exact foot_region (region_aligned hs 0 dst 64 1) (region_aligned hs 1 src n 1) dst src 64 n
    (by omega) (by omega) (by omega) (by omega) (by omega) (by omega) (by omega) (by omega)

/-- the destination needs all 64 rows even for `n = 1` (a 1 x 64 source gives a 64 x 1 result) -/
theorem accLt64x64_rows_witness :
    ¬ InBounds (fun o => if o = 0 then ⟨63, 1, 2, 0⟩ else ⟨1, 64, 2, 0⟩) (accLt64x64 (some 0) (some 1) ⟨0, 0⟩ ⟨0, 0⟩ 1) := by
  decide +kernel
example : InBounds (fun o => if o = 0 then ⟨64, 5, 2, 1⟩ else ⟨5, 64, 2, 0⟩) (accLt64x64 (some 0) (some 1) ⟨0, 0⟩ ⟨0, 0⟩ 5) :=
  accLt64x64_inBounds _ _ _ _ (by decide) (by decide) (by decide) (by decide) (by decide) (by decide)

theorem shNxjLevel_all (n j : Int) (h0 : 0 ≤ j) (h1 : j ≤ 63) : All (fun s => 0 ≤ s ∧ s ≤ 63) (shNxjLevel n j) := by
  unfold shNxjLevel
  simp only [all_forI, all_ite, all_cons, all_nil]
  fin_omega
theorem shNxjx64_all (n : Int) : All (fun s => 0 ≤ s ∧ s ≤ 63) (shNxjx64 n) := by
  unfold shNxjx64
  simp only [all_append]
  refine ⟨⟨⟨⟨⟨?_, ?_⟩, ?_⟩, ?_⟩, ?_⟩, ?_⟩ <;> exact shNxjLevel_all _ _ (by omega) (by omega)
/-- no hypothesis on `n`: `(64 - n) % 64` is a valid count for every `n` -/
theorem shLt64x64_ok (n : Int) : ShiftsOK (shLt64x64 n) := by
  unfold shLt64x64
  split
  · exact sh64x64_ok
  · rw [shiftsOK_def, all_append]
    refine ⟨shNxjx64_all n, ?_⟩
    simp only [all_cons, all_nil]; fin_omega

/-! ## `_mzd_copy_transpose_64xlt64(dst, src, …, n)`, `1 ≤ n` (`log2_ceil(n)` indexes a table with `n - 1`):
    ALWAYS 64 rows of `src`, `n` rows of `dst` -/

theorem log2c_cases (n : Int) :
    log2c n = 0 ∨ log2c n = 1 ∨ log2c n = 2 ∨ log2c n = 3 ∨ log2c n = 4 ∨ log2c n = 5 ∨ log2c n = 6 := by
  unfold log2c
  repeat' split
  all_goals simp

theorem acc64xlt64_all (P : Access → Prop) (od os : Option Nat) (dst src : Ptr) (n : Int) (hn : 1 ≤ n)
    (h : Foot P od os dst src n 64) : All P (acc64xlt64 od os dst src n) := by
  unfold acc64xlt64
  have hw : All P (forI 0 n (fun k => pwr od dst k)) := by
    simp only [all_forI]; exact fun k h0 h1 => (h.2 k h0 h1).2
  simp only [all_append, all_ite]
  refine ⟨fun _ => ⟨acc64x64_all P none os stackPtr src (h.dstNone _ _), hw⟩, fun _ => ⟨fun _ => ⟨?_, ?_⟩, fun _ => ⟨⟨fun _ => ?_, fun _ => ⟨fun _ => ?_, fun _ => ?_⟩⟩, hw⟩⟩⟩
  · simp only [all_forI, all_append]
    exact fun i h0 h1 => ⟨h.1 _ (by omega) (by omega), h.1 _ (by omega) (by omega)⟩
  · exact (h.2 0 (by omega) (by omega)).2
  · simp only [all_forI]
    exact fun i h0 h1 q hq0 hq1 => h.1 _ (by omega) (by omega)
  · simp only [all_forI]
    exact fun i h0 h1 q hq0 hq1 => h.1 _ (by omega) (by omega)
  · exact strided_all P _ (pow2c_cases n) _ (fun i h0 h1 => h.1 i h0 h1)

theorem acc64xlt64_inBounds (hs : Nat → Hdr) (dst src : Ptr) (n : Int) (hn : 1 ≤ n)
    (hd : dst.row + n ≤ (hs 0).nrows) (hd0 : 0 ≤ dst.blk) (hd1 : dst.blk < (hs 0).width)
    (hsr : src.row + 64 ≤ (hs 1).nrows) (hs0 : 0 ≤ src.blk) (hs1 : src.blk < (hs 1).width) :
    InBounds hs (acc64xlt64 (some 0) (some 1) dst src n) := by
  rw [inBounds_def]; refine acc64xlt64_all _ _ _ _ _ _ hn ?_
  exact foot_region (region_inBounds hs 0 dst n 1 (by omega) hd0 (by omega))
    (region_inBounds hs 1 src 64 1 (by omega) hs0 (by omega)) dst src n 64
    (by omega) (by omega) (by omega) (by omega) (by omega) (by omega) (by omega) (by omega)
theorem acc64xlt64_aligned (hs : Nat → Hdr) (dst src : Ptr) (n : Int) (hn : 1 ≤ n) :
    Aligned hs (acc64xlt64 (some 0) (some 1) dst src n) := by
  rw [aligned_def]; refine acc64xlt64_all _ _ _ _ _ _ hn ?_
  exact foot_region (region_aligned hs 0 dst n 1) (region_aligned hs 1 src 64 1) dst src n 64
    (by omega) (by omega) (by omega) (by omega) (by omega) (by omega) (by omega) (by omega)

/-- the source needs all 64 rows even for `n = 1` -/
theorem acc64xlt64_rows_witness :
    ¬ InBounds (fun o => if o = 0 then ⟨1, 64, 2, 0⟩ else ⟨63, 1, 2, 0⟩) (acc64xlt64 (some 0) (some 1) ⟨0, 0⟩ ⟨0, 0⟩ 1) := by
  decide +kernel
example : InBounds (fun o => if o = 0 then ⟨40, 64, 2, 0⟩ else ⟨64, 40, 2, 1⟩) (acc64xlt64 (some 0) (some 1) ⟨0, 0⟩ ⟨0, 0⟩ 40) :=
  acc64xlt64_inBounds _ _ _ _ (by decide) (by decide) (by decide) (by decide) (by decide) (by decide) (by decide)

theorem sh64xlt64_ok (n : Int) : ShiftsOK (sh64xlt64 n) := by
  unfold sh64xlt64
  have hl := log2c_cases n
  simp only []
  generalize log2c n = l at *
  split
  · exact sh64x64_ok
  · split
    · rw [shiftsOK_def]; simp only [all_forI, all_cons, all_nil]; fin_omega
    · rw [shiftsOK_def, all_append]
      refine ⟨?_, shNxjx64_all _⟩
      simp only [all_cons, all_nil]; fin_omega

/-! ## the small kernels: `n` rows of `src`, `m` rows of `dst`, `1 ≤ n`, `1 ≤ m`; the bounds do not depend on `maxsize` -/

theorem accLe8_all (P : Access → Prop) (od os : Option Nat) (dst src : Ptr) (n m : Int) (hn : 1 ≤ n) (hm : 1 ≤ m)
    (h : Foot P od os dst src m n) : All P (accLe8 od os dst src n m) := by
  unfold accLe8
  simp only [all_append, all_forI]
  exact ⟨⟨⟨h.1 0 (by omega) (by omega), fun i h0 h1 => h.1 i (by omega) h1⟩,
    fun i h0 h1 => (h.2 _ (by omega) (by omega)).2⟩, (h.2 0 (by omega) (by omega)).2⟩
theorem accLe16_all (P : Access → Prop) (od os : Option Nat) (dst src : Ptr) (n m : Int) (hn : 1 ≤ n) (hm : 1 ≤ m)
    (h : Foot P od os dst src m n) : All P (accLe16 od os dst src n m) := by
  unfold accLe16
  simp only [all_append, all_forI]
  exact ⟨⟨⟨h.1 0 (by omega) (by omega), fun i h0 h1 => h.1 i (by omega) h1⟩,
    (h.2 0 (by omega) (by omega)).2⟩, fun i h0 h1 => (h.2 _ (by omega) (by omega)).2⟩
theorem accLe32_all (P : Access → Prop) (od os : Option Nat) (dst src : Ptr) (n m : Int) (hn : 1 ≤ n) (hm : 1 ≤ m)
    (h : Foot P od os dst src m n) : All P (accLe32 od os dst src n m) := by
  unfold accLe32
  simp only [all_append, all_forI, all_ite, all_nil]
  have hr : ∀ i, 0 ≤ i → i < n → All P (prd os src i) := h.1
  have hw : ∀ i, 0 ≤ i → i < m → All P (pwr od dst i) := fun i a b => (h.2 i a b).2
  refine ⟨⟨fun _ => ⟨⟨fun j h0 h1 => hr j h0 (by omega), hr 16 (by omega) (by omega)⟩, fun j h0 h1 => hr j (by omega) h1⟩,
    fun _ j h0 h1 => hr j h0 h1⟩,
    fun _ => ⟨⟨fun j h0 h1 => ⟨hw _ (by omega) (by omega), hw _ (by omega) (by omega)⟩,
      fun j h0 h1 => ⟨hw _ (by omega) (by omega), hw _ (by omega) (by omega)⟩⟩,
      fun _ => hw _ (by omega) (by omega), fun _ => trivial⟩,
    fun _ => ⟨fun j h0 h1 => ⟨hw _ (by omega) (by omega), hw _ (by omega) (by omega)⟩,
      fun _ => hw _ (by omega) (by omega), fun _ => trivial⟩⟩
theorem accLe64_all (P : Access → Prop) (od os : Option Nat) (dst src : Ptr) (n m : Int)
    (h : Foot P od os dst src m n) : All P (accLe64 od os dst src n m) := by
  unfold accLe64
  simp only [all_append, all_forI]
  refine ⟨⟨fun k h0 h1 => h.1 k h0 h1, acc64x64_all P none none _ _ ?_⟩, fun k h0 h1 => (h.2 k h0 h1).2⟩
  exact ⟨fun i _ _ => all_prd_none P _ i, fun i _ _ => ⟨all_prd_none P _ i, all_pwr_none P _ i⟩⟩

/-- `_mzd_copy_transpose_small`: whatever `maxsize` selects, `n` rows are read and `m` rows written -/
theorem accSmall_all (P : Access → Prop) (od os : Option Nat) (dst src : Ptr) (n m maxsize : Int) (hn : 1 ≤ n) (hm : 1 ≤ m)
    (h : Foot P od os dst src m n) : All P (accSmall od os dst src n m maxsize) := by
  unfold accSmall
  split
  · exact accLe8_all P od os dst src n m hn hm h
  · split
    · exact accLe16_all P od os dst src n m hn hm h
    · split
      · exact accLe32_all P od os dst src n m hn hm h
      · exact accLe64_all P od os dst src n m h

theorem accSmall_inBounds (hs : Nat → Hdr) (dst src : Ptr) (n m maxsize : Int) (hn : 1 ≤ n) (hm : 1 ≤ m)
    (hd : dst.row + m ≤ (hs 0).nrows) (hd0 : 0 ≤ dst.blk) (hd1 : dst.blk < (hs 0).width)
    (hsr : src.row + n ≤ (hs 1).nrows) (hs0 : 0 ≤ src.blk) (hs1 : src.blk < (hs 1).width) :
    InBounds hs (accSmall (some 0) (some 1) dst src n m maxsize) := by
  rw [inBounds_def]; refine accSmall_all _ _ _ _ _ _ _ _ hn hm ?_
  exact foot_region (region_inBounds hs 0 dst m 1 (by omega) hd0 (by omega))
    (region_inBounds hs 1 src n 1 (by omega) hs0 (by omega)) dst src m n
    (by omega) (by omega) (by omega) (by omega) (by omega) (by omega) (by omega) (by omega)
theorem accSmall_aligned (hs : Nat → Hdr) (dst src : Ptr) (n m maxsize : Int) (hn : 1 ≤ n) (hm : 1 ≤ m) :
    Aligned hs (accSmall (some 0) (some 1) dst src n m maxsize) := by
  rw [aligned_def]; refine accSmall_all _ _ _ _ _ _ _ _ hn hm ?_
  exact foot_region (region_aligned hs 0 dst m 1) (region_aligned hs 1 src n 1) dst src m n
    (by omega) (by omega) (by omega) (by omega) (by omega) (by omega) (by omega) (by omega)

/-- the four kernels individually (same statement; `maxsize` only matters for the shifts) -/
theorem accLe8_inBounds (hs : Nat → Hdr) (dst src : Ptr) (n m : Int) (hn : 1 ≤ n) (hm : 1 ≤ m)
    (hd : dst.row + m ≤ (hs 0).nrows) (hd0 : 0 ≤ dst.blk) (hd1 : dst.blk < (hs 0).width)
    (hsr : src.row + n ≤ (hs 1).nrows) (hs0 : 0 ≤ src.blk) (hs1 : src.blk < (hs 1).width) :
    InBounds hs (accLe8 (some 0) (some 1) dst src n m) := by
  have := accSmall_inBounds hs dst src n m 8 hn hm hd hd0 hd1 hsr hs0 hs1
  simpa [accSmall] using this
theorem accLe16_inBounds (hs : Nat → Hdr) (dst src : Ptr) (n m : Int) (hn : 1 ≤ n) (hm : 1 ≤ m)
    (hd : dst.row + m ≤ (hs 0).nrows) (hd0 : 0 ≤ dst.blk) (hd1 : dst.blk < (hs 0).width)
    (hsr : src.row + n ≤ (hs 1).nrows) (hs0 : 0 ≤ src.blk) (hs1 : src.blk < (hs 1).width) :
    InBounds hs (accLe16 (some 0) (some 1) dst src n m) := by
  have := accSmall_inBounds hs dst src n m 16 hn hm hd hd0 hd1 hsr hs0 hs1
  simpa [accSmall] using this
theorem accLe32_inBounds (hs : Nat → Hdr) (dst src : Ptr) (n m : Int) (hn : 1 ≤ n) (hm : 1 ≤ m)
    (hd : dst.row + m ≤ (hs 0).nrows) (hd0 : 0 ≤ dst.blk) (hd1 : dst.blk < (hs 0).width)
    (hsr : src.row + n ≤ (hs 1).nrows) (hs0 : 0 ≤ src.blk) (hs1 : src.blk < (hs 1).width) :
    InBounds hs (accLe32 (some 0) (some 1) dst src n m) := by
  have := accSmall_inBounds hs dst src n m 32 hn hm hd hd0 hd1 hsr hs0 hs1
  simpa [accSmall] using this
theorem accLe64_inBounds (hs : Nat → Hdr) (dst src : Ptr) (n m : Int) (hn : 1 ≤ n) (hm : 1 ≤ m)
    (hd : dst.row + m ≤ (hs 0).nrows) (hd0 : 0 ≤ dst.blk) (hd1 : dst.blk < (hs 0).width)
    (hsr : src.row + n ≤ (hs 1).nrows) (hs0 : 0 ≤ src.blk) (hs1 : src.blk < (hs 1).width) :
    InBounds hs (accLe64 (some 0) (some 1) dst src n m) := by
  have := accSmall_inBounds hs dst src n m 63 hn hm hd hd0 hd1 hsr hs0 hs1
  simpa [accSmall] using this

/-- `1 ≤ n` is necessary (the first source row is loaded before `n` is looked at), and so is `1 ≤ m` -/
theorem accLe8_n0_witness :
    ¬ InBounds (fun o => if o = 0 then ⟨1, 1, 2, 0⟩ else ⟨0, 1, 2, 0⟩) (accLe8 (some 0) (some 1) ⟨0, 0⟩ ⟨0, 0⟩ 0 1) := by decide
theorem accLe8_m0_witness :
    ¬ InBounds (fun o => if o = 0 then ⟨0, 1, 2, 0⟩ else ⟨1, 1, 2, 0⟩) (accLe8 (some 0) (some 1) ⟨0, 0⟩ ⟨0, 0⟩ 1 0) := by decide
example : InBounds (fun o => if o = 0 then ⟨20, 64, 2, 0⟩ else ⟨13, 20, 2, 1⟩) (accSmall (some 0) (some 1) ⟨0, 0⟩ ⟨0, 0⟩ 13 20 20) :=
  accSmall_inBounds _ _ _ _ _ _ (by decide) (by decide) (by decide) (by decide) (by decide) (by decide) (by decide) (by decide)

/-- `_mzd_copy_transpose_le8xle8`: `n, m ≤ 8` (documented) and `maxsize ≤ 8` (the dispatcher) -/
theorem shLe8_ok (n m maxsize : Int) (hn : n ≤ 8) (hm : m ≤ 8) (hx : maxsize ≤ 8) : ShiftsOK (shLe8 n m maxsize) := by
  unfold shLe8
  rw [shiftsOK_def]
  simp only [all_append, all_forI, all_cons, all_nil]
  fin_omega
/-- `n ≤ 8` is necessary: a ninth source row would be shifted by 64 -/
theorem shLe8_n_witness : ¬ ShiftsOK (shLe8 9 1 8) := by decide
theorem shLe8_m_witness : ¬ ShiftsOK (shLe8 1 9 8) := by decide
/-- `_mzd_copy_transpose_le16xle16`: `n, m ≤ 16`, `maxsize ≤ 16` -/
theorem shLe16_ok (n m maxsize : Int) (hn : n ≤ 16) (hm : m ≤ 16) (hx : maxsize ≤ 16) : ShiftsOK (shLe16 n m maxsize) := by
  unfold shLe16
  rw [shiftsOK_def]
  simp only [all_append]
  refine ⟨⟨⟨?_, ?_⟩, shNxjx64_all 4⟩, ?_⟩
  all_goals (simp only [all_forI, all_cons, all_nil]; fin_omega)
theorem shLe16_n_witness : ¬ ShiftsOK (shLe16 17 1 16) := by decide
theorem shLe32_ok : ShiftsOK shLe32 := shNxjx64_all 16
theorem shLe64_ok : ShiftsOK shLe64 := sh64x64_ok
/-- as called: `n, m ≤ maxsize` (`maxsize = MAX(nrows, ncols)`) -/
theorem shSmall_ok (n m maxsize : Int) (hn : n ≤ maxsize) (hm : m ≤ maxsize) : ShiftsOK (shSmall n m maxsize) := by
  unfold shSmall
  split
  · exact shLe8_ok n m maxsize (by omega) (by omega) (by omega)
  · split
    · exact shLe16_ok n m maxsize (by omega) (by omega) (by omega)
    · split
      · exact shLe32_ok
      · exact shLe64_ok
example : ShiftsOK (shSmall 3 8 8) ∧ (8 : Int) * (8 - 1) ∈ shSmall 3 8 8 := by decide

/-! ## (c) `_mzd_transpose_base(fwd, fws, …, nrows, ncols, maxsize)`
    Precondition (documentation of the kernels + the only caller): `fws` designates an `nrows × ncols` block
    (`⌈ncols/64⌉` words per row) of operand 1 and `fwd` an `ncols × nrows` block of operand 0.
    NO other hypothesis: any `nrows`, `ncols` (including 0), any `maxsize`. -/

theorem accTransposeBase_all (P : Access → Prop) (fwd fws : Ptr) (nrows ncols : Nat)
    (hD : Region P 0 fwd ncols (((nrows : Int) + 63) / 64)) (hS : Region P 1 fws nrows (((ncols : Int) + 63) / 64)) :
    All P (accTransposeBase fwd fws nrows ncols) := by
  unfold accTransposeBase
  extract_lets wc nb rem js dblk sblk nr
  have hjs : js = 0 ∨ js = 1 := by simp only [js]; split <;> simp
  have foot : ∀ (b j nd ns : Int), 0 ≤ b → 0 ≤ j → 64 * j + nd ≤ ncols → 64 * b + ns ≤ nrows →
      64 * b < nrows → 64 * j < ncols → 0 ≤ nd → 0 ≤ ns →
      Foot P (some 0) (some 1) (dblk b j) (sblk b j) nd ns := by
    intro b j nd ns hb hj h1 h2 h3 h4 h5 h6
    apply foot_region hD hS <;> simp only [dblk, sblk, Ptr.add] <;> omega
  simp only [all_append, all_ite, all_forI, all_nil]
  refine ⟨⟨fun h1 => ?_, fun _ => trivial⟩, fun _ => trivial, fun _ => ⟨fun b hb0 hb1 => ⟨fun j hj0 hj1 => ⟨fun hc => ⟨fun hj => ?_, fun hj => ?_⟩, fun _ => trivial⟩, fun hr => ?_, fun _ => trivial⟩, fun _ => trivial, fun hnr => ⟨fun c hc0 hc1 => ?_, fun _ => trivial, fun hr => ?_⟩⟩⟩
  · -- the single 64 x 64 block: block (0, 0)
    have hnb : 1 ≤ nb ∧ 1 ≤ wc := by
      simp only [js] at h1; split at h1 <;> omega
    have := foot 0 0 64 64 (by omega) (by omega) (by omega) (by omega) (by omega) (by omega) (by omega) (by omega)
    apply acc64x64_all
    simpa [dblk, sblk, Ptr.add] using this
  · -- pair (b-1, wc-1), (b, 0)
    have hb : 1 ≤ b := by
      rcases (by omega : b = 0 ∨ 1 ≤ b) with rfl | h
      · simp only [if_true] at hj0
        subst hj
        have : js = 0 := by omega
        rw [this] at hc; simp at hc
      · exact h
    apply acc64x64_2_all
    · exact foot (b - 1) (wc - 1) 64 64 (by omega) (by omega) (by omega) (by omega) (by omega) (by omega) (by omega) (by omega)
    · exact foot b j 64 64 (by omega) (by omega) (by omega) (by omega) (by omega) (by omega) (by omega) (by omega)
  · -- pair (b, j-1), (b, j)
    have hj0' : 0 ≤ j := by split at hj0 <;> omega
    apply acc64x64_2_all
    · exact foot b (j - 1) 64 64 (by omega) (by omega) (by omega) (by omega) (by omega) (by omega) (by omega) (by omega)
    · exact foot b j 64 64 (by omega) (by omega) (by omega) (by omega) (by omega) (by omega) (by omega) (by omega)
  · -- the 64 x (ncols % 64) block of strip b
    refine acc64xlt64_all P _ _ _ _ rem (by omega) ?_
    exact foot b wc rem 64 (by omega) (by omega) (by omega) (by omega) (by omega) (by omega) (by omega) (by omega)
  · -- the (nrows % 64) x 64 blocks
    apply accLt64x64_all
    exact foot nb c 64 _ (by omega) (by omega) (by omega) (by omega) (by omega) (by omega) (by omega) (by omega)
  · -- the corner
    refine accSmall_all P _ _ _ _ nr rem _ (by omega) (by omega) ?_
    exact foot nb wc rem nr (by omega) (by omega) (by omega) (by omega) (by omega) (by omega) (by omega) (by omega)

theorem accTransposeBase_inBounds (hs : Nat → Hdr) (fwd fws : Ptr) (nrows ncols : Nat)
    (hd : fwd.row + ncols ≤ (hs 0).nrows) (hd0 : 0 ≤ fwd.blk) (hd1 : fwd.blk + ((nrows : Int) + 63) / 64 ≤ (hs 0).width)
    (hsr : fws.row + nrows ≤ (hs 1).nrows) (hs0 : 0 ≤ fws.blk) (hs1 : fws.blk + ((ncols : Int) + 63) / 64 ≤ (hs 1).width) :
    InBounds hs (accTransposeBase fwd fws nrows ncols) :=
  accTransposeBase_all _ fwd fws nrows ncols (region_inBounds hs 0 fwd _ _ (by omega) hd0 hd1)
    (region_inBounds hs 1 fws _ _ (by omega) hs0 hs1)
theorem accTransposeBase_aligned (hs : Nat → Hdr) (fwd fws : Ptr) (nrows ncols : Nat) :
    Aligned hs (accTransposeBase fwd fws nrows ncols) :=
  accTransposeBase_all _ fwd fws nrows ncols (region_aligned hs 0 fwd _ _) (region_aligned hs 1 fws _ _)

-- non-vacuity: a 130 x 200 block at (row 1, word 2) of a 140 x 400 matrix A into a 200 x 130 block at (row 3, word 1) of DST
example : InBounds (fun o => if o = 0 then ⟨203, 256, 4, 1⟩ else ⟨140, 400, 8, 0⟩) (accTransposeBase ⟨3, 1⟩ ⟨1, 2⟩ 130 200) :=
  accTransposeBase_inBounds _ _ _ _ _ (by decide) (by decide) (by decide) (by decide) (by decide) (by decide)
/-- the destination must have `⌈nrows/64⌉` words: with one word less the `(nrows % 64) × 64` blocks overrun the row -/
theorem accTransposeBase_width_witness :
    ¬ InBounds (fun o => if o = 0 then ⟨64, 64, 2, 0⟩ else ⟨65, 64, 2, 0⟩) (accTransposeBase ⟨0, 0⟩ ⟨0, 0⟩ 65 64) := by
  decide +kernel

theorem shTransposeBase_ok (nrows ncols : Nat) : ShiftsOK (shTransposeBase nrows ncols) := by
  unfold shTransposeBase
  extract_lets wc nb rem js nr
  rw [shiftsOK_def]
  simp only [all_append, all_ite, all_forI, all_nil]
  repeat' (first
    | refine And.intro ?_ ?_ | exact sh64x64_ok | exact sh64x64_2_ok | exact sh64xlt64_ok _ | exact shLt64x64_ok _
    | exact shSmall_ok _ _ _ (Int.le_max_left _ _) (Int.le_max_right _ _) | intro _ | trivial)

/-! ## `_mzd_transpose_notsmall`, `_mzd_transpose`
    Same block preconditions, plus the invariant of the recursion `maxsize = MAX(nrows, ncols)` (established by
    `mzd_transpose`, mzd.c:1141, and by every recursive call, mzd.c:1100-1101/1109-1110). -/

theorem splitRound_facts (n : Nat) (h : 512 < n) :
    splitRound n (if n ≤ 768 then 64 else 512) % 64 = 0 ∧ 0 < splitRound n (if n ≤ 768 then 64 else 512) ∧
    splitRound n (if n ≤ 768 then 64 else 512) < n := by
  unfold splitRound
  split <;> omega

theorem accTransposeNotsmall_all (P : Access → Prop) : ∀ (fuel : Nat) (fwd fws : Ptr) (nrows ncols maxsize : Nat),
    maxsize = max nrows ncols →
    Region P 0 fwd ncols (((nrows : Int) + 63) / 64) → Region P 1 fws nrows (((ncols : Int) + 63) / 64) →
    All P (accTransposeNotsmall fuel fwd fws nrows ncols maxsize) := by
  intro fuel
  induction fuel with
  | zero => intro _ _ _ _ _ _ _ _; simp [accTransposeNotsmall, All]
  | succ fuel ih =>
    intro fwd fws nrows ncols maxsize hmax hD hS
    unfold accTransposeNotsmall
    split
    · exact accTransposeBase_all P fwd fws nrows ncols hD hS
    · rename_i hbig
      obtain ⟨f1, f2, f3⟩ := splitRound_facts maxsize (by omega)
      generalize splitRound maxsize (if maxsize ≤ 768 then 64 else 512) = large at *
      simp only []
      split
      · rename_i hge
        have : maxsize = nrows := by omega
        rw [all_append]
        refine ⟨ih _ _ _ _ _ rfl (hD.mono ?_ ?_ ?_ ?_) (hS.mono ?_ ?_ ?_ ?_),
                ih _ _ _ _ _ rfl (hD.mono ?_ ?_ ?_ ?_) (hS.mono ?_ ?_ ?_ ?_)⟩ <;>
          (try simp only [Ptr.add]) <;> omega
      · rename_i hlt
        have : maxsize = ncols := by omega
        rw [all_append]
        refine ⟨ih _ _ _ _ _ rfl (hD.mono ?_ ?_ ?_ ?_) (hS.mono ?_ ?_ ?_ ?_),
                ih _ _ _ _ _ rfl (hD.mono ?_ ?_ ?_ ?_) (hS.mono ?_ ?_ ?_ ?_)⟩ <;>
          (try simp only [Ptr.add]) <;> omega

theorem accTransposeNotsmall_inBounds (hs : Nat → Hdr) (fuel : Nat) (fwd fws : Ptr) (nrows ncols maxsize : Nat)
    (hmax : maxsize = max nrows ncols)
    (hd : fwd.row + ncols ≤ (hs 0).nrows) (hd0 : 0 ≤ fwd.blk) (hd1 : fwd.blk + ((nrows : Int) + 63) / 64 ≤ (hs 0).width)
    (hsr : fws.row + nrows ≤ (hs 1).nrows) (hs0 : 0 ≤ fws.blk) (hs1 : fws.blk + ((ncols : Int) + 63) / 64 ≤ (hs 1).width) :
    InBounds hs (accTransposeNotsmall fuel fwd fws nrows ncols maxsize) :=
  accTransposeNotsmall_all _ fuel fwd fws nrows ncols maxsize hmax (region_inBounds hs 0 fwd _ _ (by omega) hd0 hd1)
    (region_inBounds hs 1 fws _ _ (by omega) hs0 hs1)
theorem accTransposeNotsmall_aligned (hs : Nat → Hdr) (fuel : Nat) (fwd fws : Ptr) (nrows ncols maxsize : Nat)
    (hmax : maxsize = max nrows ncols) : Aligned hs (accTransposeNotsmall fuel fwd fws nrows ncols maxsize) :=
  accTransposeNotsmall_all _ fuel fwd fws nrows ncols maxsize hmax (region_aligned hs 0 fwd _ _) (region_aligned hs 1 fws _ _)

theorem shTransposeNotsmall_ok : ∀ (fuel nrows ncols maxsize : Nat), ShiftsOK (shTransposeNotsmall fuel nrows ncols maxsize) := by
  intro fuel
  induction fuel with
  | zero => intro _ _ _; simp [shTransposeNotsmall, ShiftsOK]
  | succ fuel ih =>
    intro nrows ncols maxsize
    unfold shTransposeNotsmall
    split
    · exact shTransposeBase_ok nrows ncols
    · simp only []
      split <;> (rw [shiftsOK_def, all_append]; exact ⟨ih _ _ _, ih _ _ _⟩)

/-- `_mzd_transpose`: `1 ≤ nrows`, `1 ≤ ncols` (`mzd_transpose` returns before for empty matrices) -/
theorem accTransposeTop_all (P : Access → Prop) (fwd fws : Ptr) (nrows ncols maxsize : Nat)
    (hmax : maxsize = max nrows ncols) (hr : 1 ≤ nrows) (hc : 1 ≤ ncols)
    (hD : Region P 0 fwd ncols (((nrows : Int) + 63) / 64)) (hS : Region P 1 fws nrows (((ncols : Int) + 63) / 64)) :
    All P (accTransposeTop fwd fws nrows ncols maxsize) := by
  unfold accTransposeTop
  split
  · refine accSmall_all P _ _ _ _ _ _ _ (by omega) (by omega) ?_
    exact foot_region hD hS fwd fws ncols nrows (by omega) (by omega) (by omega) (by omega) (by omega) (by omega)
      (by omega) (by omega)
  · exact accTransposeNotsmall_all P _ fwd fws nrows ncols maxsize hmax hD hS

theorem accTransposeTop_inBounds (hs : Nat → Hdr) (fwd fws : Ptr) (nrows ncols maxsize : Nat)
    (hmax : maxsize = max nrows ncols) (hr : 1 ≤ nrows) (hc : 1 ≤ ncols)
    (hd : fwd.row + ncols ≤ (hs 0).nrows) (hd0 : 0 ≤ fwd.blk) (hd1 : fwd.blk + ((nrows : Int) + 63) / 64 ≤ (hs 0).width)
    (hsr : fws.row + nrows ≤ (hs 1).nrows) (hs0 : 0 ≤ fws.blk) (hs1 : fws.blk + ((ncols : Int) + 63) / 64 ≤ (hs 1).width) :
    InBounds hs (accTransposeTop fwd fws nrows ncols maxsize) :=
  accTransposeTop_all _ fwd fws nrows ncols maxsize hmax hr hc (region_inBounds hs 0 fwd _ _ (by omega) hd0 hd1)
    (region_inBounds hs 1 fws _ _ (by omega) hs0 hs1)
theorem accTransposeTop_aligned (hs : Nat → Hdr) (fwd fws : Ptr) (nrows ncols maxsize : Nat)
    (hmax : maxsize = max nrows ncols) (hr : 1 ≤ nrows) (hc : 1 ≤ ncols) :
    Aligned hs (accTransposeTop fwd fws nrows ncols maxsize) :=
  accTransposeTop_all _ fwd fws nrows ncols maxsize hmax hr hc (region_aligned hs 0 fwd _ _) (region_aligned hs 1 fws _ _)
theorem shTransposeTop_ok (nrows ncols maxsize : Nat) (hmax : maxsize = max nrows ncols) :
    ShiftsOK (shTransposeTop nrows ncols maxsize) := by
  unfold shTransposeTop
  split
  · exact shSmall_ok _ _ _ (by omega) (by omega)
  · exact shTransposeNotsmall_ok _ _ _ _

-- non-vacuity: 600 x 1100 (two levels of recursion) inside larger operands
example : InBounds (fun o => if o = 0 then ⟨1100, 640, 10, 1⟩ else ⟨601, 1100 + 64, 20, 0⟩)
    (accTransposeTop ⟨0, 0⟩ ⟨1, 1⟩ 600 1100 1100) :=
  accTransposeTop_inBounds _ _ _ _ _ _ (by decide) (by decide) (by decide) (by decide) (by decide) (by decide) (by decide)
    (by decide) (by decide)
/-- `1 ≤ nrows` is needed by `_mzd_transpose` itself (the small kernels load the first source row unconditionally);
    `mzd_transpose` establishes it at mzd.c:1138 -/
theorem accTransposeTop_empty_witness :
    ¬ InBounds (fun o => if o = 0 then ⟨5, 0, 0, 0⟩ else ⟨0, 5, 2, 0⟩) (accTransposeTop ⟨0, 0⟩ ⟨0, 0⟩ 0 5 5) := by decide

/-! ### the `assert(maxsize >= 64)` of the recursion -/

/-- desirable: no assertion of the dispatcher fires for any matrix with a side `≥ 64` -/
def assertsTransposeNotsmall_full : Prop :=
  ∀ nrows ncols : Nat, 1 ≤ nrows → 1 ≤ ncols → 64 ≤ max nrows ncols →
    assertsTransposeNotsmall (nrows + ncols) nrows ncols (max nrows ncols) = true

/-- FALSE: a 1026 x 1 matrix is split into 1024 x 1 and 2 x 1 (`split_round(1026, 512) = 1024`), and the second
    recursive call has `maxsize = 2` -/
theorem assertsTransposeNotsmall_full_false : ¬ assertsTransposeNotsmall_full := by
  intro h
  have := h 1026 1 (by decide) (by decide) (by decide)
  revert this
  decide +kernel
/-- also square: 1026 x 1026 → … → a 2 x 2 corner handed to `_mzd_transpose_notsmall` -/
theorem assertsTransposeNotsmall_square_witness :
    assertsTransposeNotsmall (1026 + 1026) 1026 1026 1026 = false := by decide +kernel

/-- no assertion fires when both sides are `≤ 1025` (every piece of a split then has `≥ 194` rows resp. columns) -/
theorem assertsTransposeNotsmall_partial : ∀ (fuel nrows ncols maxsize : Nat), maxsize = max nrows ncols →
    64 ≤ maxsize → maxsize ≤ 1025 → assertsTransposeNotsmall fuel nrows ncols maxsize = true := by
  intro fuel
  induction fuel with
  | zero => intro _ _ _ _ _ _; rfl
  | succ fuel ih =>
    intro nrows ncols maxsize hmax h64 h1025
    unfold assertsTransposeNotsmall
    simp only [Bool.and_eq_true, decide_eq_true_eq]
    refine ⟨h64, ?_⟩
    split
    · rfl
    · rename_i hbig
      have hl : 194 ≤ splitRound maxsize (if maxsize ≤ 768 then 64 else 512) ∧
          splitRound maxsize (if maxsize ≤ 768 then 64 else 512) + 194 ≤ maxsize := by
        unfold splitRound; split <;> omega
      generalize splitRound maxsize (if maxsize ≤ 768 then 64 else 512) = large at *
      split <;> (simp only [Bool.and_eq_true]; exact ⟨ih _ _ _ rfl (by omega) (by omega), ih _ _ _ rfl (by omega) (by omega)⟩)
example : assertsTransposeNotsmall (1025 + 1025) 1025 1025 1025 = true :=
  assertsTransposeNotsmall_partial _ _ _ _ (by decide) (by decide) (by decide)

/-! ## `mzd_transpose(DST, A)` (public entry)
    Documented preconditions: `DST` is `A->ncols × A->nrows` (otherwise `m4ri_die`); `A` and `DST` do not overlap
    (irrelevant for the bounds).  Operand 0 = `DST`, 1 = `A`, 2 = the temporary `T` (shape of `A`), 3 = the temporary
    `D` (shape of `DST`).  NO other hypothesis: any shape (including empty), windows or not (`dangerA`, `dangerD` arbitrary). -/

/-- the access `a` of a raw-pointer kernel trace, moved to the operands `d` (for 0) and `s` (for 1) -/
def reAcc (d s : Nat) (a : Access) : Access := { a with op := if a.op = 0 then d else s }

theorem all_reOp (P : Access → Prop) (d s : Nat) (l : List Access) :
    All P (reOp d s l) ↔ All (fun a => P (reAcc d s a)) l := by
  simp [All, reOp, reAcc]

theorem region_reOp_inBounds0 (hs : Nat → Hdr) (d s : Nat) (p : Ptr) (nr nw : Int)
    (h1 : (p.row : Int) + nr ≤ (hs d).nrows) (h2 : 0 ≤ p.blk) (h3 : p.blk + nw ≤ (hs d).width) :
    Region (fun a => (reAcc d s a).inBounds (hs (reAcc d s a).op)) 0 p nr nw := by
  intro r w a b c e
  simp [rd, wr, Access.inBounds, reAcc]
  omega
theorem region_reOp_inBounds1 (hs : Nat → Hdr) (d s : Nat) (p : Ptr) (nr nw : Int)
    (h1 : (p.row : Int) + nr ≤ (hs s).nrows) (h2 : 0 ≤ p.blk) (h3 : p.blk + nw ≤ (hs s).width) :
    Region (fun a => (reAcc d s a).inBounds (hs (reAcc d s a).op)) 1 p nr nw := by
  intro r w a b c e
  simp [rd, wr, Access.inBounds, reAcc]
  omega

theorem accCopyOps_inBounds (hs : Nat → Hdr) (on op : Nat) (hP : Hdr) (hpos : 0 < hP.ncols)
    (h1 : hP.nrows ≤ (hs on).nrows) (h2 : hP.width ≤ (hs on).width)
    (h3 : hP.nrows ≤ (hs op).nrows) (h4 : hP.width ≤ (hs op).width) :
    InBounds hs (accCopyOps on op hP) := by
  have hw := width_eq hP
  unfold accCopyOps
  extract_lets wide
  trace_simp []
  fin_omega
theorem accCopyOps_aligned (hs : Nat → Hdr) (on op : Nat) (hP : Hdr) : Aligned hs (accCopyOps on op hP) := by
  unfold accCopyOps
  extract_lets wide
  trace_simp []
  fin_omega
/-- `accCopyOps 0 1` is the `accCopy` of part 1 -/
theorem accCopyOps_eq (hP : Hdr) : accCopyOps 0 1 hP = accCopy hP := rfl

theorem transposeTop_reOp_inBounds (hs : Nat → Hdr) (d s : Nat) (nrows ncols : Nat) (hr : 1 ≤ nrows) (hc : 1 ≤ ncols)
    (hd : (hs d).nrows = ncols ∧ (hs d).ncols = nrows) (hsrc : (hs s).nrows = nrows ∧ (hs s).ncols = ncols) :
    InBounds hs (reOp d s (accTransposeTop ⟨0, 0⟩ ⟨0, 0⟩ nrows ncols (max nrows ncols))) := by
  have hwd := width_eq (hs d)
  have hws := width_eq (hs s)
  rw [inBounds_def, all_reOp]
  refine accTransposeTop_all (fun a => (reAcc d s a).inBounds (hs (reAcc d s a).op)) _ _ _ _ _ rfl hr hc ?_ ?_
  · apply region_reOp_inBounds0 hs d s <;> simp only [] <;> omega
  · apply region_reOp_inBounds1 hs d s <;> simp only [] <;> omega

theorem reOp_id (l : List Access) (h : ∀ a ∈ l, a.op = 0 ∨ a.op = 1) : reOp 0 1 l = l := by
  unfold reOp
  conv => rhs; rw [← List.map_id l]
  apply List.map_congr_left
  intro a ha
  rcases h a ha with h | h <;> cases a <;> simp_all

/-- every access of `mzd_transpose(DST, A)` — to `A`, to `DST` and to the temporaries — is inside the operand -/
theorem accMzdTranspose_inBounds (hs : Nat → Hdr) (dangerA dangerD : Bool)
    (hDST : (hs 0).nrows = (hs 1).ncols ∧ (hs 0).ncols = (hs 1).nrows)
    (hT : (hs 2).nrows = (hs 1).nrows ∧ (hs 2).ncols = (hs 1).ncols)
    (hDt : (hs 3).nrows = (hs 1).ncols ∧ (hs 3).ncols = (hs 1).nrows) :
    InBounds hs (accMzdTranspose (hs 1) dangerA dangerD) := by
  unfold accMzdTranspose
  extract_lets z maxsize
  have w0 : (hs 0).width = ((hs 1).nrows + 63) / 64 := by simp [Hdr.width, hDST.2]
  have w3 : (hs 3).width = ((hs 1).nrows + 63) / 64 := by simp [Hdr.width, hDt.2]
  have w2 : (hs 2).width = (hs 1).width := by simp [Hdr.width, hT.2]
  have wD : (⟨(hs 1).ncols, (hs 1).nrows, 0, 0⟩ : Hdr).width = ((hs 1).nrows + 63) / 64 := by simp [Hdr.width]
  have top : ∀ d s, ((hs d).nrows = (hs 1).ncols ∧ (hs d).ncols = (hs 1).nrows) →
      ((hs s).nrows = (hs 1).nrows ∧ (hs s).ncols = (hs 1).ncols) → ¬ ((hs 1).nrows = 0 ∨ (hs 1).ncols = 0) →
      InBounds hs (reOp d s (accTransposeTop z z (hs 1).nrows (hs 1).ncols maxsize)) :=
    fun d s h1 h2 h3 => transposeTop_reOp_inBounds hs d s _ _ (by omega) (by omega) h1 h2
  have top01 : ¬ ((hs 1).nrows = 0 ∨ (hs 1).ncols = 0) →
      InBounds hs (accTransposeTop z z (hs 1).nrows (hs 1).ncols maxsize) := by
    intro h3
    have := accTransposeTop_inBounds hs z z (hs 1).nrows (hs 1).ncols maxsize rfl (by omega) (by omega)
      (by simp only [z]; omega) (by simp [z]) (by simp only [z]; have := width_eq (hs 0); omega)
      (by simp only [z]; omega) (by simp [z]) (by simp only [z]; have := width_eq (hs 1); omega)
    exact this
  have cpD : ¬ ((hs 1).nrows = 0 ∨ (hs 1).ncols = 0) →
      InBounds hs (accCopyOps 0 3 ⟨(hs 1).ncols, (hs 1).nrows, 0, 0⟩) := by
    intro h3
    apply accCopyOps_inBounds <;> (try simp only [wD, w0, w3]) <;> omega
  have cpT : ¬ ((hs 1).nrows = 0 ∨ (hs 1).ncols = 0) → InBounds hs (accCopyOps 2 1 (hs 1)) := by
    intro h3
    apply accCopyOps_inBounds <;> (try simp only [w2]) <;> omega
  split
  · intro a ha; simp at ha
  · rename_i hne
    split
    · rw [inBounds_def, all_append]
      refine ⟨cpT hne, ?_⟩
      split
      · exact top 0 2 hDST hT hne
      · rw [all_append]; exact ⟨top 3 2 hDt hT hne, cpD hne⟩
    · split
      · exact top01 hne
      · rw [inBounds_def, all_append]; exact ⟨top 3 1 hDt ⟨rfl, rfl⟩ hne, cpD hne⟩

/-- the statement of the task: with the temporaries forgotten, every access to `A` is inside `A`'s
    `nrows × width` block and every access to `DST` inside `DST`'s -/
theorem accMzdTranspose_inBounds_operands (hA hDST : Hdr) (dangerA dangerD : Bool)
    (hshape : hDST.nrows = hA.ncols ∧ hDST.ncols = hA.nrows) :
    ∀ a ∈ accMzdTranspose hA dangerA dangerD,
      (a.op = 0 → a.inBounds hDST) ∧ (a.op = 1 → a.inBounds hA) := by
  intro a ha
  have := accMzdTranspose_inBounds
    (fun o => if o = 0 then hDST else if o = 1 then hA else if o = 2 then hA else hDST) dangerA dangerD
    hshape ⟨rfl, rfl⟩ hshape a ha
  constructor <;> intro h <;> simpa [h] using this

theorem accMzdTranspose_aligned (hs : Nat → Hdr) (hA : Hdr) (dangerA dangerD : Bool) :
    Aligned hs (accMzdTranspose hA dangerA dangerD) := by
  intro a ha
  suffices h : a.vec = false by simp [Access.aligned, h]
  revert a
  unfold accMzdTranspose
  extract_lets z maxsize
  have cp : ∀ on op hP, All (fun a : Access => a.vec = false) (accCopyOps on op hP) := by
    intro on op hP
    unfold accCopyOps
    simp only [all_forI, all_append, all_cons, all_nil, rd, wr]
    fin_omega
  have reg : ∀ o p nr nw, Region (fun a : Access => a.vec = false) o p nr nw := by
    intro o p nr nw r w _ _ _ _; simp [rd, wr]
  have top : ¬ (hA.nrows = 0 ∨ hA.ncols = 0) → ∀ d s,
      All (fun a : Access => a.vec = false) (reOp d s (accTransposeTop z z hA.nrows hA.ncols maxsize)) := by
    intro h3 d s
    rw [all_reOp]
    exact accTransposeTop_all _ _ _ _ _ _ rfl (by omega) (by omega) (reg _ _ _ _) (reg _ _ _ _)
  have top' : ¬ (hA.nrows = 0 ∨ hA.ncols = 0) →
      All (fun a : Access => a.vec = false) (accTransposeTop z z hA.nrows hA.ncols maxsize) :=
    fun h3 => accTransposeTop_all _ _ _ _ _ _ rfl (by omega) (by omega) (reg _ _ _ _) (reg _ _ _ _)
  show All (fun a : Access => a.vec = false) _
  split
  · simp [All]
  · rename_i hne
    split
    · rw [all_append]
      refine ⟨cp _ _ _, ?_⟩
      split
      · exact top hne _ _
      · rw [all_append]; exact ⟨top hne _ _, cp _ _ _⟩
    · split
      · exact top' hne
      · rw [all_append]; exact ⟨top hne _ _, cp _ _ _⟩

theorem shMzdTranspose_ok (hA : Hdr) : ShiftsOK (shMzdTranspose hA) := by
  unfold shMzdTranspose
  split
  · simp [ShiftsOK]
  · exact shTransposeTop_ok _ _ _ rfl

-- non-vacuity: A = 20 x 70 window (dangerous: 70 % 64 ≠ 0), DST = 70 x 20 window (dangerous)
example : (⟨70, 20, 6, 1⟩ : Hdr).nrows = (⟨20, 70, 8, 0⟩ : Hdr).ncols ∧
    (⟨70, 20, 6, 1⟩ : Hdr).ncols = (⟨20, 70, 8, 0⟩ : Hdr).nrows := by decide
example : wr 0 69 0 ∈ accMzdTranspose ⟨20, 70, 8, 0⟩ true true := by decide +kernel
/-- the shape condition is necessary (the C code dies on it): a destination with too few rows would be overrun -/
theorem accMzdTranspose_shape_witness :
    ¬ (∀ a ∈ accMzdTranspose ⟨3, 5, 2, 0⟩ false false, a.op = 0 → a.inBounds ⟨4, 3, 2, 0⟩) := by decide

end M4ri.Safety
