/-
  C06 / C07: universal theorems for the value-level mirrors of the routines of solve.c
    `_mzd_pluq_solve_left`  (`BMat.pluqSolveLeft`, M4ri/Elim.lean)
    `_mzd_solve_left`       (`SV.solveLeft`, here, parametrised by the factorisation routine)
    `mzd_kernel_left_pluq`  (`SV.kernelLeftPluq`, here, parametrised by the factorisation routine)
  on top of ANY factorisation that satisfies `IsPLUQ` (M4riProofs/Checkers.lean).
    §0  helpers: `xsum_perm`, `applyPLeftTrans_get`, `eqM_of_get`, `padRows_get`
    §1  the `r × r` block vs. the factors `L`, `U`; `dot_A_perm` (the system through the factorisation)
    §2  abstract content: `fwd` (Y1), `Consistent` (the two tests), `sol`; `solvable_iff_consistent`, `sol_solves`
    §3  the stages of `pluqSolveLeft`, named (`pluqSolveLeft_true/false` by `rfl`), `stRet_iff`, `stFin_spec`
    §4  C06 main theorems: `pluqSolveLeft_verdict`, `_verdict_solvable`, `_solution`, `_eq_sol`, `_nocheck`, `_shaped`
    §5  `solveLeft` and `solveLeft_verdict`, `_verdict_iff`, `_solution`, `_nocheck`, `_shaped`
    §6  C07: `kernelLeftPluq`, `kernelLeftPluq_none_iff`, `kernelLeftPluq_some`, `kernelLeftPluq_basis`
-/
import M4riProofs.GaussOK
import M4ri.Glue
import M4riProofs.StrassenValues
namespace M4ri
namespace BMat
namespace SV

/-! ## 0. helpers -/

/-- an XOR sum is invariant under a permutation of the index range -/
theorem xsum_perm {n : Nat} {σ σ' : Nat → Nat} (h : PermOn n σ σ') (g : Nat → Bool) :
    xsum n (fun j => g (σ j)) = xsum n g := by
  have e1 : ∀ j, j < n → g (σ j) = xsum n (fun t => decide (t = σ j) && g t) := by
    intro j hj
    rw [xsum_single (σ j) (h.1 j hj).1 (fun t _ hne => by simp [hne])]
    simp
  rw [xsum_congr e1, xsum_comm]
  apply xsum_congr
  intro t ht
  rw [xsum_and_right, xsum_single (σ' t) (h.1 t ht).2 (fun s _ hne => by
    have : ¬ t = σ s := fun e => hne (by rw [e, (h.2.1 s).2])
    simp [this])]
  simp [(h.2.1 t).1]

theorem permOn_symm {n : Nat} {σ σ' : Nat → Nat} (h : PermOn n σ σ') : PermOn n σ' σ :=
  ⟨fun i hi => ⟨(h.1 i hi).2, (h.1 i hi).1⟩, fun i => ⟨(h.2.1 i).2, (h.2.1 i).1⟩,
    fun i hi => ⟨(h.2.2 i hi).2, (h.2.2 i hi).1⟩⟩

/-- `apply_p_left_trans` as an index permutation: the swaps are applied in descending order -/
theorem applyPLeftTrans_get (M : BMat) (P : Array Nat) (hsz : M.rows.size = M.nrows)
    (hP : ∀ t, t < min P.size M.nrows → P.getD t 0 < M.nrows) (i j : Nat) :
    (M.applyPLeftTrans P).get i j = M.get (rowPermInv P (min P.size M.nrows) i) j := by
  unfold applyPLeftTrans
  generalize hk : min P.size M.nrows = k at hP
  have hk' : k ≤ M.nrows := by omega
  clear hk
  induction k generalizing M with
  | zero => rfl
  | succ k ih =>
    rw [List.range_succ, List.reverse_append]
    simp only [List.reverse_cons, List.reverse_nil, List.nil_append, List.cons_append, List.foldl_cons]
    have sh := swapRows_shape M k (P.getD k 0)
    rw [ih (M.swapRows k (P.getD k 0)) (by rw [sh.2.2, sh.1]; exact hsz)
      (fun t ht => by rw [sh.1]; exact hP t (by omega)) (by rw [sh.1]; omega)]
    rw [swapRows_get _ _ _ (by omega) (by rw [hsz]; exact hP k (by omega))]
    rfl

theorem applyPLeft_WF {M : BMat} (hM : M.WF) (P : Array Nat) : (M.applyPLeft P).WF := by
  unfold applyPLeft
  exact foldl_inv BMat.WF _ _ _ hM (fun X a _ hX => WF_swapRows hX _ _)

theorem applyPLeftTrans_WF {M : BMat} (hM : M.WF) (P : Array Nat) : (M.applyPLeftTrans P).WF := by
  unfold applyPLeftTrans
  exact foldl_inv BMat.WF _ _ _ hM (fun X a _ hX => WF_swapRows hX _ _)

theorem shaped_applyPLeft {M : BMat} {m n : Nat} (hM : Shaped M m n) (P : Array Nat) :
    Shaped (M.applyPLeft P) m n :=
  ⟨applyPLeft_WF hM.wf P, (applyPLeft_shape M P).1.trans hM.nr, (applyPLeft_shape M P).2.1.trans hM.nc⟩

theorem shaped_applyPLeftTrans {M : BMat} {m n : Nat} (hM : Shaped M m n) (P : Array Nat) :
    Shaped (M.applyPLeftTrans P) m n :=
  ⟨applyPLeftTrans_WF hM.wf P, (applyPLeftTrans_shape M P).1.trans hM.nr,
    (applyPLeftTrans_shape M P).2.1.trans hM.nc⟩

/-- completeness of `eqM` (soundness is `eqM_sound`) -/
theorem eqM_of_get {A B : BMat} (hr : A.nrows = B.nrows) (hc : A.ncols = B.ncols)
    (h : ∀ i j, i < A.nrows → j < A.ncols → A.get i j = B.get i j) : A.eqM B = true := by
  unfold eqM
  simp only [decide_eq_true_eq, List.all_eq_true, List.mem_range]
  refine ⟨hr, hc, fun i hi => ?_⟩
  apply Nat.eq_of_testBit_eq
  intro j
  rw [Nat.testBit_mod_two_pow, Nat.testBit_mod_two_pow, ← hc]
  by_cases hj : j < A.ncols
  · have := h i j hi hj
    unfold get at this
    simp [hj, this]
  · simp [hj]

theorem eqM_zero_iff {M : BMat} {r c : Nat} (hr : M.nrows = r) (hc : M.ncols = c) :
    M.eqM (zero r c) = true ↔ ∀ i j, i < r → j < c → M.get i j = false := by
  constructor
  · intro h i j hi hj
    obtain ⟨_, _, e⟩ := eqM_sound h
    rw [e i j (by omega) (by omega), zero_get]
  · intro h
    apply eqM_of_get (by simpa using hr) (by simpa using hc)
    intro i j hi hj
    rw [h i j (by omega) (by omega), zero_get]

theorem padRows_get (A : BMat) (i j : Nat) :
    (padRows A).get i j = (decide (i < A.nrows) && (decide (j < A.ncols) && A.get i j)) := by
  unfold get padRows
  by_cases hi : i < max A.nrows A.ncols
  · rw [row_mk_range _ _ _ _ hi]
    by_cases hm : i < A.nrows
    · rw [if_pos hm, Nat.testBit_mod_two_pow]; simp [hm]
    · rw [if_neg hm]; simp [hm]
  · rw [row_mk_range_ge _ _ _ _ (by omega)]
    have : ¬ i < A.nrows := by omega
    simp [this]

@[simp] theorem padRows_nrows (A : BMat) : (padRows A).nrows = max A.nrows A.ncols := rfl
@[simp] theorem padRows_ncols (A : BMat) : (padRows A).ncols = A.ncols := rfl

/-! ## 1. the `r × r` block of the storage and the two factors -/

theorem block_shaped (S : BMat) (r : Nat) (hr : r ≤ S.nrows) : Shaped (S.sub 0 0 r r) r r :=
  ⟨WF_sub _ _ _ _ _, by rw [nrows_sub]; omega, rfl⟩

/-- the unit lower triangle of the block is the top of `L` -/
theorem unitLower_block_get (S : BMat) (r i j : Nat) (hr : r ≤ S.nrows) (hi : i < r) :
    (unitLower (S.sub 0 0 r r)).get i j = (lowerFactor S r).get i j := by
  rw [unitLower_get, lowerFactor_get, get_sub]
  have h1 : i < S.nrows := by omega
  by_cases hji : j < i
  · have : j < r := by omega
    have h3 : ¬ j = i := by omega
    simp [hi, h1, hji, this, h3]
  · simp [hi, h1, hji]

/-- the unit upper triangle of the block is the left part of `U` (the stored diagonal is one) -/
theorem unitUpper_block_get (S : BMat) (r i j : Nat) (hr : r ≤ S.nrows) (hrc : r ≤ S.ncols)
    (hd : S.get i i = true) (hi : i < r) (hj : j < r) :
    (unitUpper (S.sub 0 0 r r)).get i j = (upperFactor S r).get i j := by
  rw [unitUpper_get, upperFactor_get, get_sub]
  have h2 : i < S.nrows := by omega
  have h4 : j < S.ncols := by omega
  by_cases hij : i < j
  · have : i ≤ j := by omega
    simp [hi, hj, h2, h4, hij, this]
  · by_cases hji : j = i
    · subst hji; simp [hi, h2, h4, hd]
    · have : ¬ i ≤ j := by omega
      simp [hi, hij, hji, this]

/-- **the system seen through the factorisation**: if `X0[j] = Z[τ' j]` (`τ'` the inverse of the column
    permutation), then row `i` of `A·X0` is row `σ' i` of `(L·U)·Z` -/
theorem dot_A_perm {A S : BMat} {P Q : Array Nat} {r : Nat} (h : IsPLUQ A S P Q r) (hA : A.WF)
    (X0 Z : BMat) (c : Nat)
    (hXZ : ∀ j, j < A.ncols → X0.get j c = Z.get (rowPermInv Q A.ncols j) c) (i : Nat) (hi : i < A.nrows) :
    dotSpec_T A X0 i c =
      dotSpec_T ((lowerFactor S r).mul (upperFactor S r)) Z (rowPermInv P A.nrows i) c := by
  obtain ⟨pσ, pτ, _, _, _⟩ := applyP_eq_perm hA h.P_size (fun i hi => (h.P_lapack i hi).2)
    h.Q_size (fun i hi => (h.Q_lapack i hi).2)
  unfold dotSpec_T
  simp only [mul_ncols, upperFactor_ncols, h.ncols_eq]
  have hσ' := (pσ.1 i hi).2
  rw [← xsum_perm (permOn_symm pτ) (fun j =>
    ((lowerFactor S r).mul (upperFactor S r)).get (rowPermInv P A.nrows i) j && Z.get j c)]
  apply xsum_congr
  intro j hj
  rw [h.reconstruct hA i j hi hj, hXZ j hj, mul_get _ _ _ _ (by simpa [h.nrows_eq] using hσ')]

/-! ## 2. the abstract content of `_mzd_pluq_solve_left` -/

/-- `Y1`: the result of the forward substitution with the unit lower `r × r` block -/
def fwd (S : BMat) (r : Nat) (P : Array Nat) (B : BMat) : BMat :=
  trsmLowerLeft (S.sub 0 0 r r) ((B.applyPLeft P).sub 0 0 r (B.applyPLeft P).ncols)

/-- what the routine tests: `H·Y1 = Y2` for the rows `r ≤ i < m` of `L`, and the padding rows of `B` vanish -/
def Consistent (S : BMat) (r : Nat) (P : Array Nat) (B : BMat) : Prop :=
  (∀ i c, r ≤ i → i < S.nrows → c < B.ncols →
    dotSpec_T (lowerFactor S r) (fwd S r P B) i c = (B.applyPLeft P).get i c) ∧
  (∀ i c, S.nrows ≤ i → i < B.nrows → c < B.ncols → B.get i c = false)

/-- the solution the routine leaves in the first `n` rows of `B`:
    `Qᵀ`-permuted `[U₁⁻¹·Y1 ; 0]` -/
def sol (S : BMat) (r : Nat) (P Q : Array Nat) (B : BMat) : BMat :=
  ofFn S.ncols B.ncols (fun j c =>
    decide (rowPermInv Q S.ncols j < r) &&
      (trsmUpperLeft (S.sub 0 0 r r) (fwd S r P B)).get (rowPermInv Q S.ncols j) c)

theorem sol_shaped (S : BMat) (r : Nat) (P Q : Array Nat) (B : BMat) :
    Shaped (sol S r P Q B) S.ncols B.ncols := ⟨WF_ofFn _ _ _, rfl, rfl⟩

/-- the hypotheses of the C06 theorems -/
structure Ctx (A S : BMat) (P Q : Array Nat) (r : Nat) (B : BMat) : Prop where
  pluq : IsPLUQ A S P Q r
  hA : A.WF
  hB : B.WF
  hBr : B.nrows = max A.nrows A.ncols

namespace Ctx
variable {A S : BMat} {P Q : Array Nat} {r : Nat} {B : BMat}

theorem rS (h : Ctx A S P Q r B) : r ≤ S.nrows := by rw [h.pluq.nrows_eq]; exact h.pluq.r_le_nrows
theorem rSc (h : Ctx A S P Q r B) : r ≤ S.ncols := by rw [h.pluq.ncols_eq]; exact h.pluq.r_le_ncols
theorem mN (h : Ctx A S P Q r B) : S.nrows ≤ B.nrows := by rw [h.pluq.nrows_eq, h.hBr]; omega
theorem nN (h : Ctx A S P Q r B) : S.ncols ≤ B.nrows := by rw [h.pluq.ncols_eq, h.hBr]; omega

theorem permP (h : Ctx A S P Q r B) : PermOn A.nrows (rowPerm P A.nrows) (rowPermInv P A.nrows) :=
  rowPerm_permOn P A.nrows A.nrows (Nat.le_refl _) (fun i hi => (h.pluq.P_lapack i hi).2)
theorem permQ (h : Ctx A S P Q r B) : PermOn A.ncols (rowPerm Q A.ncols) (rowPermInv Q A.ncols) :=
  rowPerm_permOn Q A.ncols A.ncols (Nat.le_refl _) (fun i hi => (h.pluq.Q_lapack i hi).2)

/-- `apply_p_left(B, P)`: row `i` is row `σ i` of `B` -/
theorem bp_get (h : Ctx A S P Q r B) (i c : Nat) :
    (B.applyPLeft P).get i c = B.get (rowPerm P A.nrows i) c := by
  have hm := h.mN
  rw [h.pluq.nrows_eq] at hm
  rw [applyPLeft_get _ _ h.hB.1 (fun t ht => by
    have := (h.pluq.P_lapack t (by rw [h.pluq.P_size] at ht; omega)).2; omega)]
  rw [h.pluq.P_size, Nat.min_eq_left hm]

theorem bp_shaped (h : Ctx A S P Q r B) : Shaped (B.applyPLeft P) B.nrows B.ncols :=
  shaped_applyPLeft (Shaped.of h.hB) P

theorem bsub_shaped (h : Ctx A S P Q r B) :
    Shaped ((B.applyPLeft P).sub 0 0 r (B.applyPLeft P).ncols) r B.ncols := by
  have := h.rS; have := h.mN
  refine ⟨WF_sub _ _ _ _ _, ?_, ?_⟩
  · rw [nrows_sub, h.bp_shaped.nr]; omega
  · rw [ncols_sub, h.bp_shaped.nc]; omega

theorem bsub_get (h : Ctx A S P Q r B) (i c : Nat) (hi : i < r) (hc : c < B.ncols) :
    ((B.applyPLeft P).sub 0 0 r (B.applyPLeft P).ncols).get i c = (B.applyPLeft P).get i c := by
  have := h.rS; have := h.mN
  rw [get_sub, h.bp_shaped.nr, h.bp_shaped.nc]
  have : i < B.nrows := by omega
  simp [this, hi, hc]

theorem fwd_shaped (h : Ctx A S P Q r B) : Shaped (fwd S r P B) r B.ncols := by
  unfold fwd
  exact ⟨trsmLowerLeft_WF _ h.bsub_shaped.wf, by simpa using h.bsub_shaped.nr, by simpa using h.bsub_shaped.nc⟩

/-- rows `< r` of `L·W` through the unit lower block -/
theorem dot_L_top (h : Ctx A S P Q r B) (W : BMat) (i c : Nat) (hi : i < r) :
    dotSpec_T (unitLower (S.sub 0 0 r r)) W i c = dotSpec_T (lowerFactor S r) W i c := by
  unfold dotSpec_T
  rw [unitLower_ncols, (block_shaped S r h.rS).nc, lowerFactor_ncols]
  exact xsum_congr (fun t _ => by rw [unitLower_block_get S r i t h.rS hi])

/-- forward substitution: the first `r` rows of `L·Y1` are those of `Pᵀ·B` -/
theorem fwd_top (h : Ctx A S P Q r B) (i c : Nat) (hi : i < r) (hc : c < B.ncols) :
    dotSpec_T (lowerFactor S r) (fwd S r P B) i c = (B.applyPLeft P).get i c := by
  rw [← h.dot_L_top _ i c hi, ← h.bsub_get i c hi hc]
  unfold fwd
  have hb := block_shaped S r h.rS
  exact trsmLowerLeft_spec_get _ _ (by rw [hb.nr, h.bsub_shaped.nr]) (by rw [hb.nc, h.bsub_shaped.nr])
    h.bsub_shaped.wf.1 i c (by rw [h.bsub_shaped.nr]; exact hi)

/-- under `Consistent`, `L·Y1 = Pᵀ·B` on all `m` rows -/
theorem LY_eq (h : Ctx A S P Q r B) (hc : Consistent S r P B) (i c : Nat) (hi : i < S.nrows)
    (hcc : c < B.ncols) :
    dotSpec_T (lowerFactor S r) (fwd S r P B) i c = (B.applyPLeft P).get i c := by
  by_cases hir : i < r
  · exact h.fwd_top i c hir hcc
  · exact hc.1 i c (by omega) hi hcc

/-- a row `< m` of the padded system is a row of `A·X0` -/
theorem pad_dot (A X0 : BMat) (i c : Nat) (hi : i < A.nrows) :
    dotSpec_T (padRows A) X0 i c = dotSpec_T A X0 i c := by
  unfold dotSpec_T
  rw [padRows_ncols]
  exact xsum_congr (fun t ht => by rw [padRows_get]; simp [hi, ht])

theorem pad_dot_ge (A X0 : BMat) (i c : Nat) (hi : A.nrows ≤ i) :
    dotSpec_T (padRows A) X0 i c = false := by
  unfold dotSpec_T
  apply xsum_false
  intro t _
  rw [padRows_get]
  have : ¬ i < A.nrows := by omega
  simp [this]

/-- **necessity**: a solvable (padded) system passes both tests of the routine -/
theorem consistent_of_solution (h : Ctx A S P Q r B) {X0 : BMat} (hX0 : X0.WF) (_hXr : X0.nrows = A.ncols)
    (hXc : X0.ncols = B.ncols) (hsol : (padRows A).mul X0 = B) : Consistent S r P B := by
  have pσ := h.permP
  have pτ := h.permQ
  have hL := lowerFactor_WF S r
  have hU := upperFactor_WF S r
  have hm := h.pluq.nrows_eq
  have hn := h.pluq.ncols_eq
  have hmN := h.mN
  -- `Z = Q·X0`, `W = U·Z`
  obtain ⟨Z, hZdef⟩ : ∃ Z : BMat, Z = ofFn A.ncols B.ncols (fun j c => X0.get (rowPerm Q A.ncols j) c) :=
    ⟨_, rfl⟩
  have hZ : Z.WF := by rw [hZdef]; exact WF_ofFn _ _ _
  have hXZ : ∀ c j, j < A.ncols → X0.get j c = Z.get (rowPermInv Q A.ncols j) c := by
    intro c j hj
    rw [hZdef, get_ofFn', (pτ.2.1 j).1]
    by_cases hc : c < B.ncols
    · simp [(pτ.1 j hj).2, hc]
    · rw [get_of_ge_ncols hX0 j c (by omega)]; simp
  obtain ⟨W, hWdef⟩ : ∃ W : BMat, W = (upperFactor S r).mul Z := ⟨_, rfl⟩
  have hW : W.WF := by rw [hWdef]; exact mul_WF _ hZ
  have hWr : W.nrows = r := by rw [hWdef]; rfl
  have hWc : W.ncols = B.ncols := by rw [hWdef, hZdef]; rfl
  -- `L·W = Pᵀ·B` on the first `m` rows
  have hLW : ∀ i c, i < A.nrows → dotSpec_T (lowerFactor S r) W i c = (B.applyPLeft P).get i c := by
    intro i c hi
    have hσ := (pσ.1 i hi).1
    have e1 : (B.applyPLeft P).get i c =
        dotSpec_T ((lowerFactor S r).mul (upperFactor S r)) Z i c := by
      rw [h.bp_get, ← hsol, mul_get _ _ _ _ (by rw [padRows_nrows]; omega), pad_dot _ _ _ _ hσ,
        dot_A_perm h.pluq h.hA X0 Z c (hXZ c) _ hσ, (pσ.2.1 i).2]
    rw [e1, ← mul_get ((lowerFactor S r).mul (upperFactor S r)) Z i c (by simpa [hm] using hi),
      mul_assoc _ hU hZ, ← hWdef, mul_get _ _ _ _ (by simpa [hm] using hi)]
  -- hence `W = Y1`
  have hb := block_shaped S r h.rS
  have hWY : W = fwd S r P B := by
    unfold fwd
    apply trsmLowerLeft_unique (by rw [hb.nr, h.bsub_shaped.nr]) (by rw [hb.nc, h.bsub_shaped.nr])
      h.bsub_shaped.wf hW (by rw [hWr, h.bsub_shaped.nr]) (by rw [hWc, h.bsub_shaped.nc])
    apply ext_get (mul_WF _ hW) h.bsub_shaped.wf
      (by rw [mul_nrows, unitLower_nrows, hb.nr, h.bsub_shaped.nr])
      (by rw [mul_ncols, hWc, h.bsub_shaped.nc])
    intro i c hi hc
    simp only [mul_nrows, unitLower_nrows, hb.nr, mul_ncols, hWc] at hi hc
    rw [mul_get _ _ _ _ (by rw [unitLower_nrows, hb.nr]; exact hi), h.dot_L_top _ i c hi,
      h.bsub_get i c hi hc]
    exact hLW i c (by have := h.pluq.r_le_nrows; omega)
  constructor
  · intro i c _ hi _
    rw [← hWY]
    exact hLW i c (by omega)
  · intro i c hi hiN _
    rw [← hsol, mul_get _ _ _ _ (by rw [padRows_nrows, ← h.hBr]; exact hiN)]
    exact pad_dot_ge _ _ _ _ (by omega)

/-- back substitution: `U·[U₁⁻¹·Y1 ; 0] = Y1` -/
theorem back_spec (h : Ctx A S P Q r B) :
    (upperFactor S r).mul (ofFn S.ncols B.ncols (fun j c =>
      decide (j < r) && (trsmUpperLeft (S.sub 0 0 r r) (fwd S r P B)).get j c)) = fwd S r P B := by
  have hb := block_shaped S r h.rS
  have hY := h.fwd_shaped
  apply ext_get (mul_WF _ (WF_ofFn _ _ _)) hY.wf (by simp [hY.nr]) (by simp [hY.nc])
  intro i c hi hc
  simp only [mul_nrows, upperFactor_nrows, mul_ncols, ncols_ofFn] at hi hc
  rw [mul_get _ _ _ _ (by simpa using hi)]
  rw [← trsmUpperLeft_spec_get (S.sub 0 0 r r) (fwd S r P B) (by rw [hb.nr, hY.nr]) (by rw [hb.nc, hY.nr])
    hY.wf.1 i c (by rw [hY.nr]; exact hi)]
  unfold dotSpec_T
  rw [upperFactor_ncols, unitUpper_ncols, hb.nc, xsum_extend h.rSc (fun t h1 h2 => by
    rw [get_ofFn']
    have : ¬ t < r := by omega
    simp [this])]
  apply xsum_congr
  intro t ht
  have : t < S.ncols := by have := h.rSc; omega
  rw [get_ofFn', unitUpper_block_get S r i t h.rS h.rSc (h.pluq.diag i hi) hi ht]
  simp [this, hc, ht]

/-- **sufficiency**: if both tests pass, `sol` solves the padded system -/
theorem sol_solves (h : Ctx A S P Q r B) (hc : Consistent S r P B) :
    (padRows A).mul (sol S r P Q B) = B := by
  have pσ := h.permP
  have pτ := h.permQ
  have hL := lowerFactor_WF S r
  have hU := upperFactor_WF S r
  have hm := h.pluq.nrows_eq
  have hn := h.pluq.ncols_eq
  apply ext_get (mul_WF _ (sol_shaped S r P Q B).wf) h.hB (by rw [mul_nrows, padRows_nrows, h.hBr]) rfl
  intro i c hi hcc
  simp only [mul_nrows, padRows_nrows, mul_ncols, (sol_shaped S r P Q B).nc] at hi hcc
  rw [mul_get _ _ _ _ (by simpa using hi)]
  by_cases him : i < A.nrows
  · obtain ⟨Z, hZdef⟩ : ∃ Z : BMat, Z = ofFn S.ncols B.ncols (fun j c =>
        decide (j < r) && (trsmUpperLeft (S.sub 0 0 r r) (fwd S r P B)).get j c) := ⟨_, rfl⟩
    have hZ : Z.WF := by rw [hZdef]; exact WF_ofFn _ _ _
    have hUZ : (upperFactor S r).mul Z = fwd S r P B := by rw [hZdef]; exact h.back_spec
    have hXZ : ∀ j, j < A.ncols → (sol S r P Q B).get j c = Z.get (rowPermInv Q A.ncols j) c := by
      intro j hj
      have := (pτ.1 j hj).2
      rw [hZdef]
      unfold sol
      rw [get_ofFn', get_ofFn', hn]
      simp [hj, this, hcc]
    have hσ' := (pσ.1 i him).2
    rw [pad_dot _ _ _ _ him, dot_A_perm h.pluq h.hA _ Z c hXZ i him,
      ← mul_get _ _ _ _ (by simpa [hm] using hσ'), mul_assoc _ hU hZ, hUZ,
      mul_get _ _ _ _ (by simpa [hm] using hσ'), h.LY_eq hc _ c (by rw [hm]; exact hσ') hcc,
      h.bp_get, (pσ.2.1 i).1]
  · rw [pad_dot_ge _ _ _ _ (by omega)]
    exact (hc.2 i c (by omega) (by rw [h.hBr]; exact hi) hcc).symm

/-- **C06, abstract form**: the padded system is solvable iff the two tests pass -/
theorem solvable_iff_consistent (h : Ctx A S P Q r B) :
    (∃ X0 : BMat, X0.WF ∧ X0.nrows = A.ncols ∧ X0.ncols = B.ncols ∧ (padRows A).mul X0 = B) ↔
      Consistent S r P B := by
  constructor
  · rintro ⟨X0, h1, h2, h3, h4⟩
    exact h.consistent_of_solution h1 h2 h3 h4
  · intro hc
    exact ⟨sol S r P Q B, (sol_shaped S r P Q B).wf, by rw [(sol_shaped S r P Q B).nr, h.pluq.ncols_eq],
      (sol_shaped S r P Q B).nc, h.sol_solves hc⟩

end Ctx

/-! ## 3. the stages of `pluqSolveLeft` (M4ri/Elim.lean), named -/

/-- `B` after `apply_p_left` and the forward substitution on the window `Y1` -/
def stB2 (S : BMat) (r : Nat) (P : Array Nat) (B : BMat) : BMat := (B.applyPLeft P).paste 0 0 (fwd S r P B)

/-- verdict of the test of the padding rows `Y3` -/
def stRet3 (S : BMat) (r : Nat) (P : Array Nat) (B : BMat) : Int :=
  if S.nrows < (stB2 S r P B).nrows ∧
      !((stB2 S r P B).sub S.nrows 0 (stB2 S r P B).nrows (stB2 S r P B).ncols).eqM
        (zero ((stB2 S r P B).nrows - S.nrows) (stB2 S r P B).ncols) then -1 else 0

/-- `B` after `mzd_set_ui(Y3, 0)` -/
def stB3 (S : BMat) (r : Nat) (P : Array Nat) (B : BMat) : BMat :=
  if S.nrows < (stB2 S r P B).nrows then
    (stB2 S r P B).paste S.nrows 0 (zero ((stB2 S r P B).nrows - S.nrows) (stB2 S r P B).ncols)
  else stB2 S r P B

/-- `Y2` after `mzd_addmul(Y2, H, Y1)` -/
def stY2 (S : BMat) (r : Nat) (P : Array Nat) (B : BMat) : BMat :=
  ((stB3 S r P B).sub r 0 S.nrows (stB3 S r P B).ncols).add ((S.sub r 0 S.nrows r).mul (fwd S r P B))

def stB4 (S : BMat) (r : Nat) (P : Array Nat) (B : BMat) : BMat := (stB3 S r P B).paste r 0 (stY2 S r P B)

/-- the verdict with the inconsistency check on -/
def stRet (S : BMat) (r : Nat) (P : Array Nat) (B : BMat) : Int :=
  if (stY2 S r P B).eqM (zero (stY2 S r P B).nrows (stY2 S r P B).ncols) then stRet3 S r P B else -1

/-- the tail of the routine: back substitution, clearing (check off), `apply_p_left_trans` -/
def stFin (S : BMat) (r : Nat) (Q : Array Nat) (Bx : BMat) (check : Bool) : BMat :=
  let Y1 := trsmUpperLeft (S.sub 0 0 r r) (Bx.sub 0 0 r Bx.ncols)
  let B := Bx.paste 0 0 Y1
  let B := if !check then B.paste r 0 (zero (B.nrows - r) B.ncols) else B
  B.applyPLeftTrans Q

theorem pluqSolveLeft_true (S : BMat) (r : Nat) (P Q : Array Nat) (B : BMat) :
    pluqSolveLeft S r P Q B true = (stRet S r P B, stFin S r Q (stB4 S r P B) true) := rfl

theorem pluqSolveLeft_false (S : BMat) (r : Nat) (P Q : Array Nat) (B : BMat) :
    pluqSolveLeft S r P Q B false = (0, stFin S r Q (stB2 S r P B) false) := rfl

namespace Ctx
variable {A S : BMat} {P Q : Array Nat} {r : Nat} {B : BMat}

theorem stB2_shaped (h : Ctx A S P Q r B) : Shaped (stB2 S r P B) B.nrows B.ncols :=
  h.bp_shaped.paste _ 0 0 (by rw [h.fwd_shaped.nc]; omega)

theorem stB2_get (h : Ctx A S P Q r B) (i c : Nat) :
    (stB2 S r P B).get i c =
      if i < r ∧ c < B.ncols then (fwd S r P B).get i c else (B.applyPLeft P).get i c := by
  unfold stB2
  rw [h.bp_shaped.get_paste, h.fwd_shaped.nr, h.fwd_shaped.nc]
  have := h.rS; have := h.mN
  by_cases hc : i < r ∧ c < B.ncols
  · rw [if_pos hc, if_pos ⟨by omega, by omega, by omega, by omega, by omega⟩]; rfl
  · rw [if_neg hc, if_neg (fun hh => hc ⟨by omega, by omega⟩)]

/-- rows `≥ r` of `B` are not touched by the forward substitution; rows `≥ m` not even by the permutation -/
theorem stB2_get_ge (h : Ctx A S P Q r B) (i c : Nat) (hi : r ≤ i) :
    (stB2 S r P B).get i c = (B.applyPLeft P).get i c := by
  rw [h.stB2_get, if_neg (fun hh => by omega)]

theorem bp_get_ge (h : Ctx A S P Q r B) (i c : Nat) (hi : S.nrows ≤ i) :
    (B.applyPLeft P).get i c = B.get i c := by
  rw [h.bp_get, (h.permP.2.2 i (by rw [← h.pluq.nrows_eq]; exact hi)).1]

theorem stRet3_iff (h : Ctx A S P Q r B) :
    stRet3 S r P B = 0 ↔ ∀ i c, S.nrows ≤ i → i < B.nrows → c < B.ncols → B.get i c = false := by
  unfold stRet3
  have hs := h.stB2_shaped
  rw [hs.nr, hs.nc]
  have hmN := h.mN
  have key : ((stB2 S r P B).sub S.nrows 0 B.nrows B.ncols).eqM (zero (B.nrows - S.nrows) B.ncols) = true ↔
      ∀ i c, S.nrows ≤ i → i < B.nrows → c < B.ncols → B.get i c = false := by
    rw [eqM_zero_iff (by rw [nrows_sub, hs.nr]; omega) (by rw [ncols_sub]; omega)]
    constructor
    · intro hh i c h1 h2 h3
      have := hh (i - S.nrows) c (by omega) h3
      rw [get_sub, hs.nr] at this
      have e : S.nrows + (i - S.nrows) = i := by omega
      have e2 : i - S.nrows < B.nrows - S.nrows := by omega
      rw [e, Nat.zero_add, h.stB2_get_ge i c (by have := h.rS; omega), h.bp_get_ge i c h1] at this
      simpa [e2, h3] using this
    · intro hh i c h1 h2
      rw [get_sub, hs.nr, Nat.zero_add, h.stB2_get_ge _ c (by have := h.rS; omega),
        h.bp_get_ge _ c (by omega), hh _ c (by omega) (by omega) h2]
      simp
  by_cases hlt : S.nrows < B.nrows
  · by_cases hz : ((stB2 S r P B).sub S.nrows 0 B.nrows B.ncols).eqM (zero (B.nrows - S.nrows) B.ncols) = true
    · rw [if_neg (by simp [hz])]
      exact ⟨fun _ => key.mp hz, fun _ => rfl⟩
    · rw [if_pos ⟨hlt, by simpa using hz⟩]
      exact ⟨fun hh => absurd hh (by decide), fun hh => absurd (key.mpr hh) hz⟩
  · rw [if_neg (fun hh => hlt hh.1)]
    exact ⟨fun _ i c h1 h2 _ => by omega, fun _ => rfl⟩

theorem stB3_shaped (h : Ctx A S P Q r B) : Shaped (stB3 S r P B) B.nrows B.ncols := by
  unfold stB3
  split
  · exact h.stB2_shaped.paste _ _ 0 (by rw [zero_ncols, h.stB2_shaped.nc]; omega)
  · exact h.stB2_shaped

theorem stB3_get (h : Ctx A S P Q r B) (i c : Nat) :
    (stB3 S r P B).get i c = (decide (i < S.nrows) && (stB2 S r P B).get i c) := by
  have hs := h.stB2_shaped
  have hmN := h.mN
  unfold stB3
  rw [hs.nr, hs.nc]
  by_cases hlt : S.nrows < B.nrows
  · rw [if_pos hlt, hs.get_paste, zero_nrows, zero_ncols, zero_get]
    by_cases him : i < S.nrows
    · rw [if_neg (fun hh => by omega)]; simp [him]
    · by_cases hc : c < B.ncols
      · by_cases hiN : i < B.nrows
        · rw [if_pos ⟨by omega, by omega, by omega, by omega, hiN⟩]; simp [him]
        · rw [if_neg (fun hh => hiN hh.2.2.2.2), hs.get_of_ge_row i c (by omega)]; simp
      · rw [if_neg (fun hh => by omega), hs.get_of_ge_col i c (by omega)]; simp
  · rw [if_neg hlt]
    by_cases him : i < S.nrows
    · simp [him]
    · rw [hs.get_of_ge_row i c (by omega)]; simp

/-- the rows `r ≤ i < m` of `L` are the window `H` of the storage -/
theorem dot_H (_h : Ctx A S P Q r B) (W : BMat) (i c : Nat) (hi : i < S.nrows - r) :
    dotSpec_T (S.sub r 0 S.nrows r) W i c = dotSpec_T (lowerFactor S r) W (r + i) c := by
  unfold dotSpec_T
  rw [ncols_sub, lowerFactor_ncols, Nat.sub_zero]
  apply xsum_congr
  intro t ht
  rw [get_sub, lowerFactor_get, Nat.zero_add]
  have h1 : r + i < S.nrows := by omega
  have h2 : t < r + i := by omega
  have h3 : ¬ r + i < r := by omega
  simp [hi, ht, h1, h2, h3]

theorem stY2_shaped (h : Ctx A S P Q r B) : Shaped (stY2 S r P B) (S.nrows - r) B.ncols := by
  unfold stY2
  have hs := h.stB3_shaped
  have hmN := h.mN
  refine ⟨add_WF (WF_sub _ _ _ _ _) (mul_WF _ h.fwd_shaped.wf) ?_, ?_, ?_⟩
  · rw [mul_ncols, ncols_sub, h.fwd_shaped.nc, hs.nc]; omega
  · rw [add_nrows, nrows_sub, hs.nr]; omega
  · rw [add_ncols, ncols_sub, hs.nc]; omega

theorem stY2_get (h : Ctx A S P Q r B) (i c : Nat) (hi : i < S.nrows - r) (hc : c < B.ncols) :
    (stY2 S r P B).get i c =
      ((B.applyPLeft P).get (r + i) c ^^ dotSpec_T (lowerFactor S r) (fwd S r P B) (r + i) c) := by
  unfold stY2
  have hs := h.stB3_shaped
  have hmN := h.mN
  rw [add_get, nrows_sub, get_sub, hs.nr, hs.nc, Nat.zero_add, h.stB3_get,
    h.stB2_get_ge _ c (by omega), mul_get _ _ _ _ (by rw [nrows_sub]; omega), h.dot_H _ i c hi]
  have h1 : i < B.nrows - r := by omega
  have h2 : r + i < S.nrows := by omega
  simp [hi, h1, h2, hc]

/-- **the verdict is the conjunction of the two tests** -/
theorem stRet_iff (h : Ctx A S P Q r B) : stRet S r P B = 0 ↔ Consistent S r P B := by
  unfold stRet Consistent
  have hy := h.stY2_shaped
  have key : (stY2 S r P B).eqM (zero (stY2 S r P B).nrows (stY2 S r P B).ncols) = true ↔
      ∀ i c, r ≤ i → i < S.nrows → c < B.ncols →
        dotSpec_T (lowerFactor S r) (fwd S r P B) i c = (B.applyPLeft P).get i c := by
    rw [eqM_zero_iff rfl rfl, hy.nr, hy.nc]
    constructor
    · intro hh i c h1 h2 h3
      have := hh (i - r) c (by omega) h3
      rw [h.stY2_get _ c (by omega) h3, show r + (i - r) = i by omega] at this
      revert this
      cases (B.applyPLeft P).get i c <;> cases dotSpec_T (lowerFactor S r) (fwd S r P B) i c <;> simp
    · intro hh i c h1 h2
      rw [h.stY2_get i c h1 h2, hh (r + i) c (by omega) (by omega) h2]
      simp
  by_cases hz : (stY2 S r P B).eqM (zero (stY2 S r P B).nrows (stY2 S r P B).ncols) = true
  · rw [if_pos hz, h.stRet3_iff]
    exact ⟨fun hh => ⟨key.mp hz, hh⟩, fun hh => hh.2⟩
  · rw [if_neg hz]
    exact ⟨fun hh => absurd hh (by decide), fun hh => absurd (key.mpr hh.1) hz⟩

theorem stRet_cases (S : BMat) (r : Nat) (P : Array Nat) (B : BMat) : stRet S r P B = 0 ∨ stRet S r P B = -1 := by
  unfold stRet stRet3
  split <;> (try split) <;> simp

theorem stB4_shaped (h : Ctx A S P Q r B) : Shaped (stB4 S r P B) B.nrows B.ncols :=
  h.stB3_shaped.paste _ r 0 (by rw [h.stY2_shaped.nc]; omega)

/-- when both tests pass, what is left in `B` before the back substitution is `[Y1 ; 0]` -/
theorem stB4_get (h : Ctx A S P Q r B) (hc : Consistent S r P B) (i c : Nat) :
    (stB4 S r P B).get i c = (fwd S r P B).get i c := by
  unfold stB4
  have hy := h.stY2_shaped
  have hf := h.fwd_shaped
  have hmN := h.mN
  have hrS := h.rS
  rw [h.stB3_shaped.get_paste, hy.nr, hy.nc]
  by_cases hin : r ≤ i ∧ i < r + (S.nrows - r) ∧ 0 ≤ c ∧ c < 0 + B.ncols ∧ i < B.nrows
  · rw [if_pos hin, h.stY2_get _ _ (by omega) (by omega), show r + (i - r) = i by omega,
      hc.1 i (c - 0) hin.1 (by omega) (by omega), hf.get_of_ge_row i c hin.1]
    simp
  · rw [if_neg hin, h.stB3_get]
    by_cases hir : i < r
    · by_cases hcc : c < B.ncols
      · rw [h.stB2_get, if_pos ⟨hir, hcc⟩]
        have : i < S.nrows := by omega
        simp [this]
      · rw [h.stB2_shaped.get_of_ge_col i c (by omega), hf.get_of_ge_col i c (by omega)]; simp
    · rw [hf.get_of_ge_row i c (by omega)]
      by_cases him : i < S.nrows
      · have hcc : ¬ c < B.ncols := fun hcc => hin ⟨by omega, by omega, by omega, by omega, by omega⟩
        rw [h.stB2_shaped.get_of_ge_col i c (by omega)]; simp
      · simp [him]

/-- the tail of the routine, run on a `B` whose first `r` rows are `Y1` and (check on) whose other rows
    vanish, leaves `sol` in the first `n` rows -/
theorem stFin_spec (h : Ctx A S P Q r B) (Bx : BMat) (check : Bool) (hBx : Shaped Bx B.nrows B.ncols)
    (h1 : ∀ i c, i < r → c < B.ncols → Bx.get i c = (fwd S r P B).get i c)
    (h2 : check = true → ∀ i c, r ≤ i → Bx.get i c = false) :
    Shaped (stFin S r Q Bx check) B.nrows B.ncols ∧
      (stFin S r Q Bx check).sub 0 0 A.ncols B.ncols = sol S r P Q B := by
  have hmN := h.mN
  have hrS := h.rS
  have hnN := h.nN
  have hf := h.fwd_shaped
  have hb := block_shaped S r h.rS
  have e : Bx.sub 0 0 r Bx.ncols = fwd S r P B := by
    apply Shaped.ext (r := r) (c := B.ncols) ⟨WF_sub _ _ _ _ _, by rw [nrows_sub, hBx.nr]; omega,
      by rw [ncols_sub, hBx.nc]; omega⟩ hf
    intro i c hi hc
    rw [get_sub, hBx.nr, hBx.nc, Nat.zero_add, Nat.zero_add, h1 i c hi hc]
    have : i < B.nrows := by omega
    simp [hi, hc, this]
  unfold stFin
  simp only []
  rw [e]
  obtain ⟨V, hVdef⟩ : ∃ V : BMat, V = trsmUpperLeft (S.sub 0 0 r r) (fwd S r P B) := ⟨_, rfl⟩
  rw [← hVdef]
  have hV : Shaped V r B.ncols := by
    rw [hVdef]
    exact ⟨trsmUpperLeft_WF _ hf.wf, by rw [trsmUpperLeft_nrows, hf.nr], by rw [trsmUpperLeft_ncols, hf.nc]⟩
  have h5 : Shaped (Bx.paste 0 0 V) B.nrows B.ncols := hBx.paste _ 0 0 (by rw [hV.nc]; omega)
  have g5 : ∀ i c, (Bx.paste 0 0 V).get i c = if i < r ∧ c < B.ncols then V.get i c else Bx.get i c := by
    intro i c
    rw [hBx.get_paste, hV.nr, hV.nc]
    by_cases hc : i < r ∧ c < B.ncols
    · rw [if_pos hc, if_pos ⟨by omega, by omega, by omega, by omega, by omega⟩]; rfl
    · rw [if_neg hc, if_neg (fun hh => hc ⟨by omega, by omega⟩)]
  -- the matrix to which `apply_p_left_trans` is applied is `[V ; 0]`
  obtain ⟨B6, hB6def⟩ : ∃ B6 : BMat, B6 = (if (!check) = true then
      (Bx.paste 0 0 V).paste r 0 (zero ((Bx.paste 0 0 V).nrows - r) (Bx.paste 0 0 V).ncols)
      else Bx.paste 0 0 V) := ⟨_, rfl⟩
  rw [← hB6def]
  have h6 : Shaped B6 B.nrows B.ncols ∧ ∀ i c, B6.get i c = (decide (i < r) && V.get i c) := by
    rw [hB6def]
    cases check with
    | true =>
      refine ⟨h5, fun i c => ?_⟩
      simp only [Bool.not_true, Bool.false_eq_true, if_false]
      rw [g5]
      by_cases hc : i < r ∧ c < B.ncols
      · rw [if_pos hc]; simp [hc.1]
      · rw [if_neg hc]
        by_cases hir : i < r
        · have : ¬ c < B.ncols := fun hh => hc ⟨hir, hh⟩
          rw [hBx.get_of_ge_col i c (by omega), hV.get_of_ge_col i c (by omega)]; simp
        · rw [h2 rfl i c (by omega)]; simp [hir]
    | false =>
      simp only [Bool.not_false, if_true]
      rw [h5.nr, h5.nc]
      refine ⟨h5.paste _ r 0 (by rw [zero_ncols]; omega), fun i c => ?_⟩
      rw [h5.get_paste, zero_get, zero_nrows, zero_ncols]
      by_cases hir : i < r
      · rw [if_neg (fun hh => by omega), g5]
        by_cases hcc : c < B.ncols
        · rw [if_pos ⟨hir, hcc⟩]; simp [hir]
        · rw [if_neg (fun hh => hcc hh.2), hBx.get_of_ge_col i c (by omega), hV.get_of_ge_col i c (by omega)]
          simp
      · by_cases hin : r ≤ i ∧ i < r + (B.nrows - r) ∧ 0 ≤ c ∧ c < 0 + B.ncols ∧ i < B.nrows
        · rw [if_pos hin]; simp [hir]
        · rw [if_neg hin, g5, if_neg (fun hh => hir hh.1)]
          by_cases hiN : i < B.nrows
          · have : ¬ c < B.ncols := fun hh => hin ⟨by omega, by omega, by omega, by omega, hiN⟩
            rw [hBx.get_of_ge_col i c (by omega)]; simp [hir]
          · rw [hBx.get_of_ge_row i c (by omega)]; simp [hir]
  obtain ⟨s6, g6⟩ := h6
  have hfin := shaped_applyPLeftTrans s6 Q
  refine ⟨hfin, ?_⟩
  have hsol := sol_shaped S r P Q B
  rw [h.pluq.ncols_eq] at hsol hnN
  apply Shaped.ext (r := A.ncols) (c := B.ncols) ⟨WF_sub _ _ _ _ _, by rw [nrows_sub, hfin.nr]; omega,
    by rw [ncols_sub]; omega⟩ hsol
  intro j c hj hc
  have hQ : ∀ t, t < min Q.size B6.nrows → Q.getD t 0 < B6.nrows := by
    intro t ht
    rw [s6.nr] at ht ⊢
    rw [h.pluq.Q_size] at ht
    have := (h.pluq.Q_lapack t (by omega)).2
    omega
  rw [get_sub, hfin.nr, Nat.zero_add, Nat.zero_add, applyPLeftTrans_get _ _ s6.wf.1 hQ, s6.nr,
    h.pluq.Q_size, Nat.min_eq_left hnN, g6]
  unfold sol
  rw [get_ofFn', h.pluq.ncols_eq, ← hVdef]
  have : j < B.nrows := by omega
  simp [hj, hc, this]

end Ctx

theorem stFin_shaped {S : BMat} {r : Nat} {Q : Array Nat} (Bx : BMat) (check : Bool) {N k : Nat}
    (hBx : Shaped Bx N k) : Shaped (stFin S r Q Bx check) N k := by
  unfold stFin
  simp only []
  have h5 : Shaped (Bx.paste 0 0 (trsmUpperLeft (S.sub 0 0 r r) (Bx.sub 0 0 r Bx.ncols))) N k :=
    hBx.paste _ 0 0 (by rw [trsmUpperLeft_ncols, ncols_sub, hBx.nc]; omega)
  apply shaped_applyPLeftTrans
  split
  · exact h5.paste _ r 0 (by rw [zero_ncols, h5.nc]; omega)
  · exact h5

/-! ## 4. C06: the theorems about `pluqSolveLeft` -/

/-- the padded system `Apad·X = B` has a (well-formed, `n × k`) solution -/
def Solvable (A B : BMat) : Prop :=
  ∃ X0 : BMat, X0.WF ∧ X0.nrows = A.ncols ∧ X0.ncols = B.ncols ∧ (padRows A).mul X0 = B

theorem solvable_iff_Solvable {A B : BMat} (hB : B.WF) (hBr : B.nrows = max A.nrows A.ncols) :
    solvable A B = true ↔ Solvable A B := GOK.solvable_iff hB hBr

section main
variable {A S : BMat} {P Q : Array Nat} {r : Nat} {B : BMat}

/-- **C06, verdict**: on top of ANY PLUQ factorisation of `A`, with the inconsistency check on,
    `_mzd_pluq_solve_left` returns `0` iff the (zero-padded) system `A·X = B` is solvable … -/
theorem pluqSolveLeft_verdict (hA : A.WF) (hB : B.WF) (hBr : B.nrows = max A.nrows A.ncols)
    (h : IsPLUQ A S P Q r) :
    (pluqSolveLeft S r P Q B true).1 = 0 ↔ Solvable A B := by
  have ctx : Ctx A S P Q r B := ⟨h, hA, hB, hBr⟩
  rw [pluqSolveLeft_true]
  exact (ctx.stRet_iff).trans ctx.solvable_iff_consistent.symm

/-- … i.e. iff the specification predicate `solvable A B` (rank criterion) holds; otherwise it returns `-1` -/
theorem pluqSolveLeft_verdict_solvable (hA : A.WF) (hB : B.WF) (hBr : B.nrows = max A.nrows A.ncols)
    (h : IsPLUQ A S P Q r) :
    (pluqSolveLeft S r P Q B true).1 = (if solvable A B then 0 else -1) := by
  have hv := pluqSolveLeft_verdict hA hB hBr h
  rw [← solvable_iff_Solvable hB hBr] at hv
  by_cases hs : solvable A B = true
  · rw [if_pos hs]; exact hv.mpr hs
  · rw [if_neg hs]
    rw [pluqSolveLeft_true] at hv ⊢
    rcases Ctx.stRet_cases S r P B with h0 | h1
    · exact absurd (hv.mp h0) hs
    · exact h1

/-- **C06, solution**: when it returns `0`, the first `n` rows of the overwritten `B` solve the system
    (padding rows of the equation included) -/
theorem pluqSolveLeft_solution (hA : A.WF) (hB : B.WF) (hBr : B.nrows = max A.nrows A.ncols)
    (h : IsPLUQ A S P Q r) (hret : (pluqSolveLeft S r P Q B true).1 = 0) :
    (padRows A).mul ((pluqSolveLeft S r P Q B true).2.sub 0 0 A.ncols B.ncols) = B := by
  have ctx : Ctx A S P Q r B := ⟨h, hA, hB, hBr⟩
  rw [pluqSolveLeft_true] at hret ⊢
  have hc := ctx.stRet_iff.mp hret
  rw [(ctx.stFin_spec _ true ctx.stB4_shaped (fun i c _ _ => ctx.stB4_get hc i c)
    (fun _ i c hi => by rw [ctx.stB4_get hc, ctx.fwd_shaped.get_of_ge_row i c hi])).2]
  exact ctx.sol_solves hc

/-- the solution explicitly: it is `Qᵀ`-permuted `[U₁⁻¹·L₁⁻¹·(Pᵀ·B)[0:r] ; 0]` (`sol`) -/
theorem pluqSolveLeft_eq_sol (hA : A.WF) (hB : B.WF) (hBr : B.nrows = max A.nrows A.ncols)
    (h : IsPLUQ A S P Q r) (hret : (pluqSolveLeft S r P Q B true).1 = 0) :
    (pluqSolveLeft S r P Q B true).2.sub 0 0 A.ncols B.ncols = sol S r P Q B ∧
    (pluqSolveLeft S r P Q B false).2.sub 0 0 A.ncols B.ncols = sol S r P Q B := by
  have ctx : Ctx A S P Q r B := ⟨h, hA, hB, hBr⟩
  rw [pluqSolveLeft_true] at hret ⊢
  rw [pluqSolveLeft_false]
  have hc := ctx.stRet_iff.mp hret
  exact ⟨(ctx.stFin_spec _ true ctx.stB4_shaped (fun i c _ _ => ctx.stB4_get hc i c)
      (fun _ i c hi => by rw [ctx.stB4_get hc, ctx.fwd_shaped.get_of_ge_row i c hi])).2,
    (ctx.stFin_spec _ false ctx.stB2_shaped (fun i c hi hcc => by rw [ctx.stB2_get, if_pos ⟨hi, hcc⟩])
      (fun hh => by cases hh)).2⟩

/-- **C06, check off**: the routine returns `0` whatever the system; if the system is solvable, the first `n`
    rows of the overwritten `B` solve it -/
theorem pluqSolveLeft_nocheck (hA : A.WF) (hB : B.WF) (hBr : B.nrows = max A.nrows A.ncols)
    (h : IsPLUQ A S P Q r) :
    (pluqSolveLeft S r P Q B false).1 = 0 ∧
    (Solvable A B → (padRows A).mul ((pluqSolveLeft S r P Q B false).2.sub 0 0 A.ncols B.ncols) = B) := by
  have ctx : Ctx A S P Q r B := ⟨h, hA, hB, hBr⟩
  rw [pluqSolveLeft_false]
  refine ⟨rfl, fun hs => ?_⟩
  have hc := ctx.solvable_iff_consistent.mp hs
  rw [(ctx.stFin_spec _ false ctx.stB2_shaped (fun i c hi hcc => by rw [ctx.stB2_get, if_pos ⟨hi, hcc⟩])
    (fun hh => by cases hh)).2]
  exact ctx.sol_solves hc

/-- shape preservation: the overwritten `B` is well-formed with the shape of `B` (both settings of the check) -/
theorem pluqSolveLeft_shaped (hA : A.WF) (hB : B.WF) (hBr : B.nrows = max A.nrows A.ncols)
    (h : IsPLUQ A S P Q r) (check : Bool) :
    Shaped (pluqSolveLeft S r P Q B check).2 B.nrows B.ncols := by
  have ctx : Ctx A S P Q r B := ⟨h, hA, hB, hBr⟩
  cases check with
  | true => rw [pluqSolveLeft_true]; exact stFin_shaped _ _ ctx.stB4_shaped
  | false => rw [pluqSolveLeft_false]; exact stFin_shaped _ _ ctx.stB2_shaped

theorem pluqSolveLeft_ret_cases (S : BMat) (r : Nat) (P Q : Array Nat) (B : BMat) (check : Bool) :
    (pluqSolveLeft S r P Q B check).1 = 0 ∨ (pluqSolveLeft S r P Q B check).1 = -1 := by
  cases check with
  | true => rw [pluqSolveLeft_true]; exact Ctx.stRet_cases S r P B
  | false => exact Or.inl rfl

end main

/-! ## 5. C06: `_mzd_solve_left` on top of a factorisation routine -/

/-- a solvable padded system has zero padding rows -/
theorem pad_zero_of_Solvable {A B : BMat} (hBr : B.nrows = max A.nrows A.ncols) (hs : Solvable A B)
    (i c : Nat) (hi : A.nrows ≤ i) (hiN : i < B.nrows) : B.get i c = false := by
  obtain ⟨X0, _, _, _, hsol⟩ := hs
  rw [← hsol, mul_get _ _ _ _ (by rw [padRows_nrows, ← hBr]; exact hiN)]
  exact Ctx.pad_dot_ge _ _ _ _ hi

theorem solveLeft_early_exit {A B : BMat} (hBr : B.nrows = max A.nrows A.ncols)
    (hpad : (B.sub A.nrows 0 B.nrows B.ncols).eqM (zero (B.nrows - A.nrows) B.ncols) = false) :
    ¬ Solvable A B := by
  intro hs
  have : (B.sub A.nrows 0 B.nrows B.ncols).eqM (zero (B.nrows - A.nrows) B.ncols) = true := by
    rw [eqM_zero_iff (by rw [nrows_sub]; omega) (by rw [ncols_sub]; omega)]
    intro i c hi hc
    rw [get_sub, pad_zero_of_Solvable hBr hs _ _ (by omega) (by omega)]
    simp
  rw [this] at hpad
  cases hpad

section solveLeft
variable {fact : BMat → BMat × Array Nat × Array Nat × Nat} {A B : BMat}

/-- **C06, `_mzd_solve_left`, verdict**: for any factorisation routine that delivers a PLUQ factorisation of
    `A`, with the check on the routine returns `0` if the padded system is solvable and `-1` otherwise -/
theorem solveLeft_verdict (hA : A.WF) (hB : B.WF) (hBr : B.nrows = max A.nrows A.ncols)
    (hfact : IsPLUQ A (fact A).1 (fact A).2.1 (fact A).2.2.1 (fact A).2.2.2) :
    (solveLeft fact A B true).1 = (if solvable A B then 0 else -1) := by
  unfold solveLeft
  split
  · rename_i hpad
    have := solveLeft_early_exit hBr hpad.2.2
    rw [← solvable_iff_Solvable hB hBr] at this
    rw [if_neg this]
  · exact pluqSolveLeft_verdict_solvable hA hB hBr hfact

theorem solveLeft_verdict_iff (hA : A.WF) (hB : B.WF) (hBr : B.nrows = max A.nrows A.ncols)
    (hfact : IsPLUQ A (fact A).1 (fact A).2.1 (fact A).2.2.1 (fact A).2.2.2) :
    (solveLeft fact A B true).1 = 0 ↔ Solvable A B := by
  rw [solveLeft_verdict hA hB hBr hfact, ← solvable_iff_Solvable hB hBr]
  by_cases hs : solvable A B = true
  · simp [hs]
  · simp [hs]

/-- **C06, `_mzd_solve_left`, solution**: when `0` is returned the first `n` rows of `B` solve the system;
    when `-1` is returned through the early exit, `A` and `B` are untouched -/
theorem solveLeft_solution (hA : A.WF) (hB : B.WF) (hBr : B.nrows = max A.nrows A.ncols)
    (hfact : IsPLUQ A (fact A).1 (fact A).2.1 (fact A).2.2.1 (fact A).2.2.2)
    (hret : (solveLeft fact A B true).1 = 0) :
    (padRows A).mul ((solveLeft fact A B true).2.2.sub 0 0 A.ncols B.ncols) = B := by
  unfold solveLeft at hret ⊢
  split at hret
  · exact absurd hret (show ¬ ((-1 : Int) = 0) by decide)
  · rename_i hpad
    rw [if_neg hpad]
    exact pluqSolveLeft_solution hA hB hBr hfact hret

theorem solveLeft_nocheck (hA : A.WF) (hB : B.WF) (hBr : B.nrows = max A.nrows A.ncols)
    (hfact : IsPLUQ A (fact A).1 (fact A).2.1 (fact A).2.2.1 (fact A).2.2.2) :
    (solveLeft fact A B false).1 = 0 ∧
    (Solvable A B → (padRows A).mul ((solveLeft fact A B false).2.2.sub 0 0 A.ncols B.ncols) = B) := by
  unfold solveLeft
  rw [if_neg (fun hh => by cases hh.1)]
  exact pluqSolveLeft_nocheck hA hB hBr hfact

/-- what is left in `A` and `B`: `B` keeps its shape; `A` holds the factorisation (or is untouched) -/
theorem solveLeft_shaped (hA : A.WF) (hB : B.WF) (hBr : B.nrows = max A.nrows A.ncols)
    (hfact : IsPLUQ A (fact A).1 (fact A).2.1 (fact A).2.2.1 (fact A).2.2.2) (check : Bool) :
    Shaped (solveLeft fact A B check).2.2 B.nrows B.ncols ∧
    ((solveLeft fact A B check).2.1 = A ∨ (solveLeft fact A B check).2.1 = (fact A).1) := by
  unfold solveLeft
  split
  · exact ⟨Shaped.of hB, Or.inl rfl⟩
  · exact ⟨pluqSolveLeft_shaped hA hB hBr hfact check, Or.inr rfl⟩

end solveLeft

/-! ### non-vacuity (C06) -/

/-- a `2 × 3` matrix of rank 2 with a PLUQ factorisation, and a right-hand side with `max(2,3) = 3` rows -/
theorem ex_pluq : IsPLUQ ⟨2, 3, #[6, 3]⟩ ⟨2, 3, #[3, 6]⟩ #[1, 1] #[0, 1, 2] 2 :=
  checkPLUQ_sound (by decide +kernel)
theorem ex_wfA : (⟨2, 3, #[6, 3]⟩ : BMat).WF := ⟨rfl, by
  intro i; unfold row; simp only [Array.getD_eq_getD_getElem?]
  rcases i with _ | _ | i <;> simp⟩
theorem ex_wfB : (⟨3, 2, #[1, 2, 0]⟩ : BMat).WF := ⟨rfl, by
  intro i; unfold row; simp only [Array.getD_eq_getD_getElem?]
  rcases i with _ | _ | _ | i <;> simp⟩

example : (pluqSolveLeft ⟨2, 3, #[3, 6]⟩ 2 #[1, 1] #[0, 1, 2] ⟨3, 2, #[1, 2, 0]⟩ true).1 = 0 ↔
    Solvable ⟨2, 3, #[6, 3]⟩ ⟨3, 2, #[1, 2, 0]⟩ :=
  pluqSolveLeft_verdict ex_wfA ex_wfB rfl ex_pluq

example : (padRows ⟨2, 3, #[6, 3]⟩).mul
    ((pluqSolveLeft ⟨2, 3, #[3, 6]⟩ 2 #[1, 1] #[0, 1, 2] ⟨3, 2, #[1, 2, 0]⟩ true).2.sub 0 0 3 2) =
      ⟨3, 2, #[1, 2, 0]⟩ :=
  pluqSolveLeft_solution ex_wfA ex_wfB rfl ex_pluq (by decide +kernel)

/-- an unsolvable right-hand side (non-zero padding row): the routine answers `-1`, as the theorem predicts -/
theorem ex_wfB' : (⟨3, 2, #[1, 2, 1]⟩ : BMat).WF := ⟨rfl, by
  intro i; unfold row; simp only [Array.getD_eq_getD_getElem?]
  rcases i with _ | _ | _ | i <;> simp⟩
example : (pluqSolveLeft ⟨2, 3, #[3, 6]⟩ 2 #[1, 1] #[0, 1, 2] ⟨3, 2, #[1, 2, 1]⟩ true).1 = -1 := by
  decide +kernel
example : ¬ Solvable ⟨2, 3, #[6, 3]⟩ ⟨3, 2, #[1, 2, 1]⟩ := fun hs =>
  absurd ((pluqSolveLeft_verdict ex_wfA ex_wfB' rfl ex_pluq).mpr hs) (by decide +kernel)

/-- check off -/
example : Solvable ⟨2, 3, #[6, 3]⟩ ⟨3, 2, #[1, 2, 0]⟩ → (padRows ⟨2, 3, #[6, 3]⟩).mul
    ((pluqSolveLeft ⟨2, 3, #[3, 6]⟩ 2 #[1, 1] #[0, 1, 2] ⟨3, 2, #[1, 2, 0]⟩ false).2.sub 0 0 3 2) =
      ⟨3, 2, #[1, 2, 0]⟩ :=
  (pluqSolveLeft_nocheck ex_wfA ex_wfB rfl ex_pluq).2

/-- `solveLeft` with a (constant) factorisation routine -/
example : (solveLeft (fun _ => (⟨2, 3, #[3, 6]⟩, #[1, 1], #[0, 1, 2], 2)) ⟨2, 3, #[6, 3]⟩
    ⟨3, 2, #[1, 2, 0]⟩ true).1 = 0 ↔ Solvable ⟨2, 3, #[6, 3]⟩ ⟨3, 2, #[1, 2, 0]⟩ :=
  solveLeft_verdict_iff ex_wfA ex_wfB rfl ex_pluq

/-! ## 6. C07: `mzd_kernel_left_pluq` -/

theorem writeDiag_spec (R : BMat) (r : Nat) : ∀ q, r + q ≤ R.rows.size →
    SameShape R (writeDiag R r q) ∧
    ∀ i c, (writeDiag R r q).get i c = (R.get i c || decide (r ≤ i ∧ i < r + q ∧ c = i - r)) := by
  intro q
  induction q with
  | zero =>
    intro _
    refine ⟨SameShape.refl R, fun i c => ?_⟩
    have : ¬ (r ≤ i ∧ i < r + 0 ∧ c = i - r) := by omega
    rw [decide_eq_false this, Bool.or_false]
    rfl
  | succ q ih =>
    intro hq
    obtain ⟨sh, g⟩ := ih (by omega)
    have e : writeDiag R r (q + 1) =
        (writeDiag R r q).setRow (r + q) ((writeDiag R r q).row (r + q) ||| (1 <<< q)) := by
      unfold writeDiag
      rw [List.range_succ, List.foldl_append]
      rfl
    rw [e]
    refine ⟨⟨sh.1, sh.2.1, by rw [setRow_size]; exact sh.2.2⟩, fun i c => ?_⟩
    unfold get
    rw [setRow_row, sh.2.2]
    by_cases hi : i = r + q
    · subst hi
      rw [if_pos ⟨rfl, by omega⟩, Nat.testBit_or, Nat.one_shiftLeft, Nat.testBit_two_pow]
      have := g (r + q) c
      unfold get at this
      rw [this]
      have h1 : ¬ (r ≤ r + q ∧ r + q < r + q ∧ c = r + q - r) := by omega
      by_cases hc : q = c
      · have h2 : r ≤ r + q ∧ r + q < r + (q + 1) ∧ c = r + q - r := by omega
        rw [decide_eq_false h1, decide_eq_true h2, decide_eq_true hc]; simp
      · have h2 : ¬ (r ≤ r + q ∧ r + q < r + (q + 1) ∧ c = r + q - r) := by omega
        rw [decide_eq_false h1, decide_eq_false h2, decide_eq_false hc]; simp
    · rw [if_neg (fun hh => hi hh.1)]
      have := g i c
      unfold get at this
      rw [this]
      have : (r ≤ i ∧ i < r + (q + 1) ∧ c = i - r) = (r ≤ i ∧ i < r + q ∧ c = i - r) := by
        apply propext; omega
      simp only [this]

/-- the right-hand side `U[:, r:]` copied into `RU` -/
def kRhs (S : BMat) (r n : Nat) : BMat :=
  ((zero n (n - r)).sub 0 0 r (zero n (n - r)).ncols).add
    (S.sub 0 r r (r + ((zero n (n - r)).sub 0 0 r (zero n (n - r)).ncols).ncols))

/-- the kernel before the final row permutation: `[U₁⁻¹·U₂ ; I]` -/
def kK0 (S : BMat) (r n : Nat) : BMat :=
  writeDiag ((zero n (n - r)).paste 0 0 (trsmUpperLeft (S.sub 0 0 r r) (kRhs S r n))) r
    ((zero n (n - r)).paste 0 0 (trsmUpperLeft (S.sub 0 0 r r) (kRhs S r n))).ncols

theorem kernelLeftPluq_eq (fact : BMat → BMat × Array Nat × Array Nat × Nat) (A : BMat) :
    kernelLeftPluq fact A = if (fact A).2.2.2 = A.ncols then none else
      some ((kK0 (fact A).1 (fact A).2.2.2 A.ncols).applyPLeftTrans (fact A).2.2.1) := rfl

/-- the hypotheses of the C07 theorems on the non-`NULL` path -/
structure KCtx (A S : BMat) (P Q : Array Nat) (r : Nat) : Prop where
  pluq : IsPLUQ A S P Q r
  hA : A.WF
  hlt : r < A.ncols

namespace KCtx
variable {A S : BMat} {P Q : Array Nat} {r : Nat}

theorem rS (h : KCtx A S P Q r) : r ≤ S.nrows := by rw [h.pluq.nrows_eq]; exact h.pluq.r_le_nrows
theorem rSc (h : KCtx A S P Q r) : r ≤ S.ncols := by rw [h.pluq.ncols_eq]; exact h.pluq.r_le_ncols

theorem kRhs_shaped (h : KCtx A S P Q r) : Shaped (kRhs S r A.ncols) r (A.ncols - r) := by
  unfold kRhs
  have := h.rS; have := h.hlt
  refine ⟨add_WF (WF_sub _ _ _ _ _) (WF_sub _ _ _ _ _) ?_, ?_, ?_⟩
  · simp only [ncols_sub, zero_ncols]; omega
  · rw [add_nrows, nrows_sub, zero_nrows]; omega
  · rw [add_ncols, ncols_sub, zero_ncols]; omega

theorem kRhs_get (h : KCtx A S P Q r) (i c : Nat) (hi : i < r) (hc : c < A.ncols - r) :
    (kRhs S r A.ncols).get i c = S.get i (r + c) := by
  unfold kRhs
  have := h.rS; have := h.hlt
  rw [add_get, get_sub, get_sub, zero_get, nrows_sub, ncols_sub, zero_nrows, zero_ncols, Nat.zero_add]
  have h1 : i < A.ncols := by omega
  have h2 : i < S.nrows := by omega
  simp [hi, h1, h2, hc]

theorem kV_shaped (h : KCtx A S P Q r) :
    Shaped (trsmUpperLeft (S.sub 0 0 r r) (kRhs S r A.ncols)) r (A.ncols - r) :=
  ⟨trsmUpperLeft_WF _ h.kRhs_shaped.wf, by rw [trsmUpperLeft_nrows, h.kRhs_shaped.nr],
    by rw [trsmUpperLeft_ncols, h.kRhs_shaped.nc]⟩

theorem kR1_shaped (h : KCtx A S P Q r) :
    Shaped ((zero A.ncols (A.ncols - r)).paste 0 0 (trsmUpperLeft (S.sub 0 0 r r) (kRhs S r A.ncols)))
      A.ncols (A.ncols - r) :=
  (Shaped.zero _ _).paste _ 0 0 (by rw [h.kV_shaped.nc]; omega)

theorem kR1_get (h : KCtx A S P Q r) (i c : Nat) :
    ((zero A.ncols (A.ncols - r)).paste 0 0 (trsmUpperLeft (S.sub 0 0 r r) (kRhs S r A.ncols))).get i c =
      (trsmUpperLeft (S.sub 0 0 r r) (kRhs S r A.ncols)).get i c := by
  have hv := h.kV_shaped
  have := h.hlt
  rw [(Shaped.zero _ _).get_paste, hv.nr, hv.nc, zero_get]
  by_cases hin : 0 ≤ i ∧ i < 0 + r ∧ 0 ≤ c ∧ c < 0 + (A.ncols - r) ∧ i < A.ncols
  · rw [if_pos hin]; rfl
  · rw [if_neg hin]
    by_cases hir : i < r
    · have : ¬ c < A.ncols - r := fun hh => hin ⟨by omega, by omega, by omega, by omega, by omega⟩
      rw [hv.get_of_ge_col i c (by omega)]
    · rw [hv.get_of_ge_row i c (by omega)]

theorem kK0_get (h : KCtx A S P Q r) (i c : Nat) :
    (kK0 S r A.ncols).get i c =
      ((trsmUpperLeft (S.sub 0 0 r r) (kRhs S r A.ncols)).get i c ||
        decide (r ≤ i ∧ i < A.ncols ∧ c = i - r)) := by
  unfold kK0
  have h1 := h.kR1_shaped
  have := h.hlt
  rw [h1.nc, (writeDiag_spec _ r (A.ncols - r) (by rw [h1.wf.1, h1.nr]; omega)).2, h.kR1_get]
  have : (r ≤ i ∧ i < r + (A.ncols - r) ∧ c = i - r) = (r ≤ i ∧ i < A.ncols ∧ c = i - r) := by
    apply propext; omega
  simp only [this]

theorem kK0_shaped (h : KCtx A S P Q r) : Shaped (kK0 S r A.ncols) A.ncols (A.ncols - r) := by
  have h1 := h.kR1_shaped
  have hlt := h.hlt
  have sh : SameShape _ (kK0 S r A.ncols) :=
    (writeDiag_spec _ r (A.ncols - r) (by rw [h1.wf.1, h1.nr]; omega)).1
  have hnr : (kK0 S r A.ncols).nrows = A.ncols := sh.1.trans h1.nr
  have hnc : (kK0 S r A.ncols).ncols = A.ncols - r := sh.2.1.trans h1.nc
  refine ⟨WF_of_get (by rw [sh.2.2, h1.wf.1, hnr, h1.nr]) ?_, hnr, hnc⟩
  intro i c hc
  rw [hnc] at hc
  rw [h.kK0_get, h.kV_shaped.get_of_ge_col i c hc]
  have : ¬ (r ≤ i ∧ i < A.ncols ∧ c = i - r) := by omega
  simp [this]

/-- `U·[U₁⁻¹·U₂ ; I] = U₂ + U₂ = 0` -/
theorem U_mul_kK0 (h : KCtx A S P Q r) :
    (upperFactor S r).mul (kK0 S r A.ncols) = zero r (A.ncols - r) := by
  have hk := h.kK0_shaped
  have hv := h.kV_shaped
  have hb := block_shaped S r h.rS
  have hlt := h.hlt
  have hn := h.pluq.ncols_eq
  apply ext_get (mul_WF _ hk.wf) (zero_WF _ _) rfl (by rw [mul_ncols, hk.nc]; rfl)
  intro i c hi hc
  simp only [mul_nrows, upperFactor_nrows, mul_ncols, hk.nc] at hi hc
  rw [mul_get _ _ _ _ (by simpa using hi), zero_get]
  unfold dotSpec_T
  rw [upperFactor_ncols, hn]
  obtain ⟨V, hVdef⟩ : ∃ V : BMat, V = trsmUpperLeft (S.sub 0 0 r r) (kRhs S r A.ncols) := ⟨_, rfl⟩
  rw [← hVdef] at hv
  have e : ∀ t, t < A.ncols → ((upperFactor S r).get i t && (kK0 S r A.ncols).get t c) =
      (((upperFactor S r).get i t && (decide (t < r) && V.get t c)) ^^
        ((upperFactor S r).get i t && decide (t = r + c))) := by
    intro t ht
    rw [h.kK0_get, ← hVdef]
    by_cases htr : t < r
    · have h1 : ¬ (r ≤ t ∧ t < A.ncols ∧ c = t - r) := by omega
      have h2 : ¬ t = r + c := by omega
      simp [htr, h1, h2]
    · rw [hv.get_of_ge_row t c (by omega)]
      have : (r ≤ t ∧ t < A.ncols ∧ c = t - r) = (t = r + c) := by apply propext; omega
      simp [htr, this]
  rw [xsum_congr e, xsum_xor]
  -- first part: `U₁·V = U₂`
  have p1 : xsum A.ncols (fun t => (upperFactor S r).get i t && (decide (t < r) && V.get t c)) =
      S.get i (r + c) := by
    rw [xsum_extend (Nat.le_of_lt hlt) (fun t h1 h2 => by
      have : ¬ t < r := by omega
      simp [this])]
    rw [← h.kRhs_get i c hi hc, ← trsmUpperLeft_spec_get (S.sub 0 0 r r) (kRhs S r A.ncols)
      (by rw [hb.nr, h.kRhs_shaped.nr]) (by rw [hb.nc, h.kRhs_shaped.nr]) h.kRhs_shaped.wf.1 i c
      (by rw [h.kRhs_shaped.nr]; exact hi), ← hVdef]
    unfold dotSpec_T
    rw [unitUpper_ncols, hb.nc]
    apply xsum_congr
    intro t ht
    rw [unitUpper_block_get S r i t h.rS h.rSc (h.pluq.diag i hi) hi ht]
    simp [ht]
  -- second part: the identity block selects column `r + c` of `U`
  have p2 : xsum A.ncols (fun t => (upperFactor S r).get i t && decide (t = r + c)) = S.get i (r + c) := by
    rw [xsum_single (r + c) (by omega) (fun t _ hne => by simp [hne]), upperFactor_get]
    have h1 : i ≤ r + c := by omega
    have h2 : r + c < S.ncols := by omega
    simp [hi, h1, h2]
  rw [p1, p2]
  simp

theorem permQ (h : KCtx A S P Q r) : PermOn A.ncols (rowPerm Q A.ncols) (rowPermInv Q A.ncols) :=
  rowPerm_permOn Q A.ncols A.ncols (Nat.le_refl _) (fun i hi => (h.pluq.Q_lapack i hi).2)

theorem kK_shaped (h : KCtx A S P Q r) :
    Shaped ((kK0 S r A.ncols).applyPLeftTrans Q) A.ncols (A.ncols - r) :=
  shaped_applyPLeftTrans h.kK0_shaped Q

/-- `apply_p_left_trans(K, Q)`: row `j` is row `τ' j` of `[U₁⁻¹·U₂ ; I]` -/
theorem kK_get (h : KCtx A S P Q r) (j c : Nat) :
    ((kK0 S r A.ncols).applyPLeftTrans Q).get j c = (kK0 S r A.ncols).get (rowPermInv Q A.ncols j) c := by
  have hk := h.kK0_shaped
  rw [applyPLeftTrans_get _ _ hk.wf.1 (fun t ht => by
    rw [hk.nr] at ht ⊢
    rw [h.pluq.Q_size] at ht
    exact (h.pluq.Q_lapack t (by omega)).2), hk.nr, h.pluq.Q_size, Nat.min_self]

/-- **`A·K = 0`** -/
theorem A_mul_kK (h : KCtx A S P Q r) :
    A.mul ((kK0 S r A.ncols).applyPLeftTrans Q) = zero A.nrows (A.ncols - r) := by
  have hK := h.kK_shaped
  have pσ : PermOn A.nrows (rowPerm P A.nrows) (rowPermInv P A.nrows) :=
    rowPerm_permOn P A.nrows A.nrows (Nat.le_refl _) (fun i hi => (h.pluq.P_lapack i hi).2)
  apply ext_get (mul_WF _ hK.wf) (zero_WF _ _) rfl (by rw [mul_ncols, hK.nc]; rfl)
  intro i c hi hc
  simp only [mul_nrows] at hi
  have hσ' := (pσ.1 i hi).2
  rw [mul_get _ _ _ _ hi, dot_A_perm h.pluq h.hA _ (kK0 S r A.ncols) c (fun j _ => h.kK_get j c) i hi,
    ← mul_get _ _ _ _ (by simpa [h.pluq.nrows_eq] using hσ'),
    mul_assoc _ (upperFactor_WF S r) h.kK0_shaped.wf, h.U_mul_kK0, mul_zero, zero_get, zero_get]

/-- the rows `τ (r + c)` of `K` are the unit vectors: `K` has a left inverse -/
theorem kK_leftInv (h : KCtx A S P Q r) :
    (ofFn (A.ncols - r) A.ncols (fun c j => decide (j = rowPerm Q A.ncols (r + c)))).mul
      ((kK0 S r A.ncols).applyPLeftTrans Q) = identity (A.ncols - r) := by
  have hK := h.kK_shaped
  have pτ := h.permQ
  have hlt := h.hlt
  apply ext_get (mul_WF _ hK.wf) (identity_WF _) rfl (by rw [mul_ncols, hK.nc]; rfl)
  intro c c' hc hc'
  simp only [mul_nrows, nrows_ofFn, mul_ncols, hK.nc] at hc hc'
  have hτ := (pτ.1 (r + c) (by omega)).1
  rw [mul_get _ _ _ _ (by simpa using hc)]
  unfold dotSpec_T
  rw [ncols_ofFn, xsum_single (rowPerm Q A.ncols (r + c)) hτ (fun t ht hne => by
    rw [get_ofFn']; simp [hne])]
  rw [get_ofFn', h.kK_get, (pτ.2.1 _).2, h.kK0_get, h.kV_shaped.get_of_ge_row _ _ (by omega), identity_get]
  have h1 : (r ≤ r + c ∧ r + c < A.ncols ∧ c' = r + c - r) = (c = c') := by apply propext; omega
  simp only [h1]
  simp [hc, hτ]

theorem kK_rankCert (h : KCtx A S P Q r) :
    RankCert ((kK0 S r A.ncols).applyPLeftTrans Q) (A.ncols - r) := by
  have hK := h.kK_shaped
  have e1 : ((kK0 S r A.ncols).applyPLeftTrans Q).mul (identity (A.ncols - r)) =
      (kK0 S r A.ncols).applyPLeftTrans Q := by
    have := mul_identity hK.wf
    rwa [hK.nc] at this
  have e2 : (identity (A.ncols - r)).mul (identity (A.ncols - r)) = identity (A.ncols - r) :=
    mul_identity (A := identity (A.ncols - r)) (identity_WF _)
  exact ⟨_, identity (A.ncols - r), ofFn (A.ncols - r) A.ncols (fun c j => decide (j = rowPerm Q A.ncols (r + c))),
    identity (A.ncols - r), hK.wf, identity_WF _, WF_ofFn _ _ _, identity_WF _, rfl, hK.nc, rfl, hK.nc.symm ▸ rfl,
    rfl, hK.nr.symm ▸ rfl, hK.nc.symm ▸ rfl, rfl, e1, by rw [h.kK_leftInv, e2]⟩

end KCtx

section kernel
variable {fact : BMat → BMat × Array Nat × Array Nat × Nat} {A : BMat}

/-- the rank delivered with a PLUQ factorisation is the rank of `A` -/
theorem rank_of_pluq {A S : BMat} {P Q : Array Nat} {r : Nat} (hA : A.WF) (h : IsPLUQ A S P Q r) :
    r = A.rank := RankCert_unique (h.rankCert hA) (GOK.rankCert_rank A hA)

/-- **C07, `NULL`**: `mzd_kernel_left_pluq` returns `NULL` iff `A` has full column rank -/
theorem kernelLeftPluq_none_iff (hA : A.WF)
    (hfact : IsPLUQ A (fact A).1 (fact A).2.1 (fact A).2.2.1 (fact A).2.2.2) :
    kernelLeftPluq fact A = none ↔ A.rank = A.ncols := by
  rw [kernelLeftPluq_eq, ← rank_of_pluq hA hfact]
  by_cases hr : (fact A).2.2.2 = A.ncols
  · simp [hr]
  · simp [hr]

/-- **C07, the kernel passes the four tests of `check_kernel`**: it is well-formed, `n × (n − rank A)`,
    `A·K = 0`, and of full column rank -/
theorem kernelLeftPluq_some (hA : A.WF)
    (hfact : IsPLUQ A (fact A).1 (fact A).2.1 (fact A).2.2.1 (fact A).2.2.2) {K : BMat}
    (hK : kernelLeftPluq fact A = some K) :
    K.WF ∧ K.nrows = A.ncols ∧ K.ncols = A.ncols - A.rank ∧ 0 < K.ncols ∧
      A.mul K = zero A.nrows K.ncols ∧ (A.mul K).eqM (zero A.nrows K.ncols) = true ∧ K.rank = K.ncols := by
  rw [kernelLeftPluq_eq] at hK
  by_cases hr : (fact A).2.2.2 = A.ncols
  · rw [if_pos hr] at hK; cases hK
  · rw [if_neg hr] at hK
    have hKe := (Option.some.inj hK).symm
    have ctx : KCtx A (fact A).1 (fact A).2.1 (fact A).2.2.1 (fact A).2.2.2 :=
      ⟨hfact, hA, by have := hfact.r_le_ncols; omega⟩
    have hlt := ctx.hlt
    have hs := ctx.kK_shaped
    rw [← hKe] at hs
    have hAK : A.mul K = zero A.nrows K.ncols := by rw [hs.nc, hKe]; exact ctx.A_mul_kK
    have hrk : K.rank = K.ncols := by
      have := ctx.kK_rankCert
      rw [← hKe] at this
      rw [hs.nc]
      exact RankCert_unique (GOK.rankCert_rank K hs.wf) this
    refine ⟨hs.wf, hs.nr, by rw [hs.nc, rank_of_pluq hA hfact], by rw [hs.nc]; omega, hAK, ?_, hrk⟩
    rw [hAK]
    exact eqM_of_get rfl rfl (fun _ _ _ _ => rfl)

/-- **C07, basis**: the columns of the returned `K` are a basis of the right null space of `A`:
    `A·K = 0`, every `V` with `A·V = 0` is `K·W` (spanning), and `W` is determined by `K·W` (independence) -/
theorem kernelLeftPluq_basis (hA : A.WF)
    (hfact : IsPLUQ A (fact A).1 (fact A).2.1 (fact A).2.2.1 (fact A).2.2.2) {K : BMat}
    (hK : kernelLeftPluq fact A = some K) :
    A.mul K = zero A.nrows K.ncols ∧
    (∀ V : BMat, V.WF → V.nrows = A.ncols → A.mul V = zero A.nrows V.ncols →
      ∃ W : BMat, W.WF ∧ W.nrows = K.ncols ∧ W.ncols = V.ncols ∧ K.mul W = V) ∧
    (∀ W W' : BMat, W.WF → W'.WF → W.nrows = K.ncols → W'.nrows = K.ncols → W'.ncols = W.ncols →
      K.mul W = K.mul W' → W = W') := by
  obtain ⟨h1, h2, h3, _, _, h5, h6⟩ := kernelLeftPluq_some hA hfact hK
  exact GOK.kernel_checker_sound hA h1 h2 h3 h5 h6

end kernel

/-! ### non-vacuity (C07): the `2 × 3` example has a one-dimensional kernel -/

example : kernelLeftPluq (fun _ => (⟨2, 3, #[3, 6]⟩, #[1, 1], #[0, 1, 2], 2)) ⟨2, 3, #[6, 3]⟩ =
    some ⟨3, 1, #[1, 1, 1]⟩ := by decide +kernel

example : BMat.mul ⟨2, 3, #[6, 3]⟩ ⟨3, 1, #[1, 1, 1]⟩ = zero 2 1 :=
  (kernelLeftPluq_basis (fact := fun _ => (⟨2, 3, #[3, 6]⟩, #[1, 1], #[0, 1, 2], 2)) ex_wfA ex_pluq
    (by decide +kernel)).1

example : kernelLeftPluq (fun _ => (identity 2, #[0, 1], #[0, 1], 2)) (identity 2) = none ↔
    (identity 2).rank = 2 :=
  kernelLeftPluq_none_iff (identity_WF 2) (checkPLUQ_sound (by decide +kernel))

end SV
end BMat
end M4ri
