/-
  Tie between the mechanically generated `mzd_apply_p_right_trans_tri` (mzp.c) of `M4ri/Gen/CFuns.lean`
  and the hand-written word-level model `Mzd.applyPRightTransTri` (`M4ri/Mzd.lean`).

  The C function is row-blocked (`step_size = MAX((L1 >> 2) / width, 1)` rows at a time, one pass over
  the columns per block); the model is ONE pass over the columns on all rows.  The callee
  `mzd_col_swap_in_rows` is taken as a hypothesis (`ColSwapTie`).

  §0  row-wise description of folds of `Mzd.colSwapInRows` (`fold_row`), extensionality (`mzd_ext`)
  §1  the blocked model `blocked A P step k` (the first `k` blocks done) and
      `blocked_eq` : with all blocks done it IS `A.applyPRightTransTri P`
  §2  `mzdApplyPRightTransTri_gen` (any permutation memory holding `P` on `[0, ncols)`),
      `mzdApplyPRightTransTri_eq'` (`arrOf P`, weakest hypotheses), `mzdApplyPRightTransTri_eq` (C domain)
  §3  `applyPRightTransTri_putB`, `mzdApplyPRightTransTri_liftTri(_arrOf)` : on a whole well-formed matrix the
      generated function is `GenTieGlue.liftTri` (the callee instance of `pluqFromPle_eq`)
  Core Lean tactics only.
-/
import M4riProofs.GenTieMem
import M4riProofs.GenTieTab
import M4riProofs.GenTieGlue
set_option linter.unusedVariables false
namespace M4ri.GenTieTri
open M4ri M4ri.Gen M4ri.GenTieMem M4ri.GenTieTab

/-- the tie of the callee `mzd_col_swap_in_rows` (proved elsewhere) -/
def ColSwapTie : Prop := ∀ (M : Mzd) (cola colb s e : Nat) (rs : Int), M.WF → cola < M.ncols → colb < M.ncols → e ≤ M.nrows →
  Gen.C.mzdColSwapInRows cola colb s e (memOf M) rs = memOf (M.colSwapInRows cola colb s e)

/-! ### 0. folds of `colSwapInRows`, row by row -/

/-- what `colSwapInRows a b s e` does to row `ρ` -/
def rowStep (ρ a b s e : Nat) (r : Row) : Row :=
  if a ≠ b ∧ s ≤ ρ ∧ ρ < e then Mzd.colSwapRow r a b else r

theorem rowStep_congr (ρ a b s e s' e' : Nat) (h : (s ≤ ρ ∧ ρ < e) ↔ (s' ≤ ρ ∧ ρ < e')) :
    rowStep ρ a b s e = rowStep ρ a b s' e' := by
  funext r
  unfold rowStep
  by_cases c : a ≠ b ∧ s ≤ ρ ∧ ρ < e
  · rw [if_pos c, if_pos ⟨c.1, h.mp c.2⟩]
  · rw [if_neg c, if_neg (fun c' => c ⟨c'.1, h.mpr c'.2⟩)]

theorem rowStep_out (ρ a b s e : Nat) (h : ¬ (s ≤ ρ ∧ ρ < e)) (r : Row) : rowStep ρ a b s e r = r := by
  unfold rowStep
  rw [if_neg (fun c => h c.2)]

theorem colSwapInRows_size (M : Mzd) (a b s e : Nat) : (M.colSwapInRows a b s e).rows.size = M.rows.size := by
  unfold Mzd.colSwapInRows
  split
  · rfl
  · simp [Mzd.withRows]

theorem colSwapInRows_rowStep (M : Mzd) (a b s e ρ : Nat) (hρ : ρ < M.rows.size) :
    (M.colSwapInRows a b s e).row ρ = rowStep ρ a b s e (M.row ρ) := by
  by_cases hab : a = b
  · unfold Mzd.colSwapInRows rowStep
    rw [if_pos hab, if_neg (fun c => c.1 hab)]
  · rw [Mzd.colSwapInRows_row M a b s e ρ hab hρ]
    unfold rowStep
    by_cases c : s ≤ ρ ∧ ρ < e
    · rw [if_pos c, if_pos ⟨hab, c⟩]
    · rw [if_neg c, if_neg (fun c' => c c'.2)]

theorem fold_row {κ : Type} (ks : List κ) (a b s e : κ → Nat) (M : Mzd) (ρ : Nat) (hρ : ρ < M.rows.size) :
    (ks.foldl (fun M k => M.colSwapInRows (a k) (b k) (s k) (e k)) M).row ρ =
      ks.foldl (fun r k => rowStep ρ (a k) (b k) (s k) (e k) r) (M.row ρ) := by
  induction ks generalizing M with
  | nil => rfl
  | cons k ks ih =>
    simp only [List.foldl_cons]
    rw [ih _ (by rw [colSwapInRows_size]; exact hρ), colSwapInRows_rowStep M _ _ _ _ ρ hρ]

theorem fold_size {κ : Type} (ks : List κ) (a b s e : κ → Nat) (M : Mzd) :
    (ks.foldl (fun M k => M.colSwapInRows (a k) (b k) (s k) (e k)) M).rows.size = M.rows.size := by
  induction ks generalizing M with
  | nil => rfl
  | cons k ks ih =>
    simp only [List.foldl_cons]
    rw [ih, colSwapInRows_size]

theorem foldl_id {α β : Type} (l : List β) (x : α) : l.foldl (fun r _ => r) x = x := by
  induction l with
  | nil => rfl
  | cons a l ih => simp [ih]

theorem mzd_ext (M N : Mzd) (h1 : M.nrows = N.nrows) (h2 : M.ncols = N.ncols) (h3 : M.rows.size = N.rows.size)
    (h4 : ∀ i, i < M.rows.size → M.row i = N.row i) : M = N := by
  obtain ⟨mr, mc, mrows⟩ := M
  obtain ⟨nr, nc, nrows⟩ := N
  simp only at h1 h2 h3
  subst h1 h2
  have : mrows = nrows := by
    apply Array.ext h3
    intro i hi1 hi2
    have := h4 i hi1
    rw [Mzd.row_eq_getElem _ _ hi1, Mzd.row_eq_getElem _ _ hi2] at this
    exact this
  rw [this]

/-! ### 1. the blocked model -/

/-- one pass over the columns `0 .. n-1` on the rows `lo ≤ ρ < rb` (further cut to `ρ < i` for column `i`) -/
def passUpTo (M : Mzd) (P : Array Nat) (lo rb n : Nat) : Mzd :=
  (List.range n).foldl (fun M i => M.colSwapInRows i (P.getD i 0) lo (min rb i)) M

theorem passUpTo_succ (M : Mzd) (P : Array Nat) (lo rb n : Nat) :
    passUpTo M P lo rb (n + 1) = (passUpTo M P lo rb n).colSwapInRows n (P.getD n 0) lo (min rb n) := by
  simp [passUpTo, List.range_succ]

theorem passUpTo_shape (M : Mzd) (P : Array Nat) (lo rb n : Nat) :
    (passUpTo M P lo rb n).nrows = M.nrows ∧ (passUpTo M P lo rb n).ncols = M.ncols :=
  Mzd.colSwapsFold_shape _ (fun k => k) (fun k => P.getD k 0) (fun _ => lo) (fun k => min rb k) M

theorem passUpTo_WF (M : Mzd) (P : Array Nat) (lo rb n : Nat) (h : M.WF) : (passUpTo M P lo rb n).WF :=
  Mzd.colSwapsFold_WF _ (fun k => k) (fun k => P.getD k 0) (fun _ => lo) (fun k => min rb k) M h

theorem passUpTo_size (M : Mzd) (P : Array Nat) (lo rb n : Nat) :
    (passUpTo M P lo rb n).rows.size = M.rows.size :=
  fold_size _ (fun k => k) (fun k => P.getD k 0) (fun _ => lo) (fun k => min rb k) M

/-- row `ρ` after the whole routine: the swaps `i ↔ P[i]` with `ρ < i`, ascending -/
def triRow (P : Array Nat) (n ρ : Nat) (r : Row) : Row :=
  (List.range n).foldl (fun r i => rowStep ρ i (P.getD i 0) 0 i r) r

theorem passUpTo_row (M : Mzd) (P : Array Nat) (lo rb n ρ : Nat) (hρ : ρ < M.rows.size) :
    (passUpTo M P lo rb n).row ρ = if lo ≤ ρ ∧ ρ < rb then triRow P n ρ (M.row ρ) else M.row ρ := by
  unfold passUpTo
  rw [fold_row _ (fun k => k) (fun k => P.getD k 0) (fun _ => lo) (fun k => min rb k) M ρ hρ]
  by_cases c : lo ≤ ρ ∧ ρ < rb
  · rw [if_pos c]
    unfold triRow
    congr 1
    funext r i
    rw [rowStep_congr ρ i (P.getD i 0) lo (min rb i) 0 i (by omega)]
  · rw [if_neg c]
    have e : (fun (r : Row) (k : Nat) => rowStep ρ k (P.getD k 0) lo (min rb k) r) = fun r _ => r := by
      funext r k
      exact rowStep_out _ _ _ _ _ (by omega) r
    rw [e, foldl_id]

/-- the first `k` blocks of `step` rows done -/
def blocked (A : Mzd) (P : Array Nat) (step k : Nat) : Mzd :=
  (List.range k).foldl (fun M b => passUpTo M P (b * step) (min (b * step + step) A.nrows) A.ncols) A

theorem blocked_succ (A : Mzd) (P : Array Nat) (step k : Nat) :
    blocked A P step (k + 1) =
      passUpTo (blocked A P step k) P (k * step) (min (k * step + step) A.nrows) A.ncols := by
  simp [blocked, List.range_succ]

theorem blocked_shape (A : Mzd) (P : Array Nat) (step k : Nat) :
    (blocked A P step k).nrows = A.nrows ∧ (blocked A P step k).ncols = A.ncols ∧
      (blocked A P step k).rows.size = A.rows.size := by
  induction k with
  | zero => exact ⟨rfl, rfl, rfl⟩
  | succ k ih =>
    rw [blocked_succ]
    obtain ⟨h1, h2⟩ := passUpTo_shape (blocked A P step k) P (k * step) (min (k * step + step) A.nrows) A.ncols
    rw [h1, h2, passUpTo_size]
    exact ih

theorem blocked_WF (A : Mzd) (P : Array Nat) (step k : Nat) (h : A.WF) : (blocked A P step k).WF := by
  induction k with
  | zero => exact h
  | succ k ih => rw [blocked_succ]; exact passUpTo_WF _ _ _ _ _ ih

theorem blocked_row (A : Mzd) (P : Array Nat) (step k ρ : Nat) (hρ : ρ < A.rows.size) :
    (blocked A P step k).row ρ =
      if ρ < k * step ∧ ρ < A.nrows then triRow P A.ncols ρ (A.row ρ) else A.row ρ := by
  induction k with
  | zero => rw [if_neg (by omega)]; rfl
  | succ k ih =>
    rw [blocked_succ, passUpTo_row _ _ _ _ _ _ (by rw [(blocked_shape A P step k).2.2]; exact hρ), ih]
    have e : (k + 1) * step = k * step + step := Nat.succ_mul k step
    rw [e]
    by_cases c : k * step ≤ ρ ∧ ρ < min (k * step + step) A.nrows
    · rw [if_pos c, if_neg (by omega), if_pos (by omega)]
    · rw [if_neg c]
      by_cases c2 : ρ < k * step ∧ ρ < A.nrows
      · rw [if_pos c2, if_pos (by omega)]
      · rw [if_neg c2, if_neg (by omega)]

/-- **blocked = unblocked**: once the blocks cover all rows, the row-blocked double loop is the model's
    single pass -/
theorem blocked_eq (A : Mzd) (P : Array Nat) (step k : Nat) (hwf : A.WF) (hk : A.nrows ≤ k * step) :
    blocked A P step k = A.applyPRightTransTri P := by
  obtain ⟨b1, b2, b3⟩ := blocked_shape A P step k
  obtain ⟨s1, s2⟩ := Mzd.applyPRightTransTri_shape A P
  have e := Mzd.applyPRightTransTri_eq A P
  have s3 : (A.applyPRightTransTri P).rows.size = A.rows.size := by
    rw [e]
    exact fold_size _ (fun k => k) (fun k => P.getD k 0) (fun _ => 0) (fun k => min A.nrows k) A
  apply mzd_ext _ _ (by rw [b1, s1]) (by rw [b2, s2]) (by rw [b3, s3])
  intro ρ hρ
  rw [b3] at hρ
  have hρ' : ρ < A.nrows := by rw [← hwf.1]; exact hρ
  rw [blocked_row A P step k ρ hρ, if_pos (by omega), e,
    fold_row _ (fun k => k) (fun k => P.getD k 0) (fun _ => 0) (fun k => min A.nrows k) A ρ hρ]
  unfold triRow
  congr 1
  funext r i
  rw [rowStep_congr ρ i (P.getD i 0) 0 (min A.nrows i) 0 i (by omega)]

/-! ### 2. the generated function -/

/-- `step_size` -/
def stepOf (w : Nat) : Nat := max (8192 / w) 1

theorem stepOf_pos (w : Nat) : 1 ≤ stepOf w := by unfold stepOf; omega

theorem step_eq (w : Nat) :
    (if (decide ((Int.tdiv ((32768 : Int) >>> ((2 : Int)).toNat) (w : Int)) > (1 : Int))) then
        (Int.tdiv ((32768 : Int) >>> ((2 : Int)).toNat) (w : Int)) else (1 : Int)) = ((stepOf w : Nat) : Int) := by
  have e0 : ((32768 : Int) >>> ((2 : Int)).toNat) = ((8192 : Nat) : Int) := by decide
  have e : Int.tdiv ((32768 : Int) >>> ((2 : Int)).toNat) (w : Int) = ((8192 / w : Nat) : Int) := by
    rw [e0, Int.tdiv_eq_ediv_of_nonneg (by omega)]
    exact (Int.natCast_ediv 8192 w).symm
  rw [e]
  unfold stepOf
  split <;> rename_i c <;> rw [decide_eq_true_eq] at c <;> omega

/-- number of blocks -/
def nblocks (n step : Nat) : Nat := (n + step - 1) / step

theorem lt_nblocks (n step k : Nat) (hs : 1 ≤ step) : k < nblocks n step ↔ k * step < n := by
  unfold nblocks
  have h := Nat.le_div_iff_mul_le (x := k + 1) (y := n + step - 1) (k := step) (by omega)
  rw [Nat.succ_mul] at h
  constructor
  · intro c
    have := h.mp c
    omega
  · intro c
    exact h.mpr (by omega)

theorem nblocks_le (n step : Nat) (hs : 1 ≤ step) : nblocks n step ≤ n := by
  apply Nat.le_of_not_lt
  intro c
  have h := (lt_nblocks n step n hs).mp c
  have : n * 1 ≤ n * step := Nat.mul_le_mul_left n hs
  omega

theorem nblocks_cover (n step : Nat) (hs : 1 ≤ step) : n ≤ nblocks n step * step := by
  apply Nat.le_of_not_lt
  intro c
  exact Nat.lt_irrefl _ ((lt_nblocks n step _ hs).mpr c)

/-- **`mzd_apply_p_right_trans_tri`**, general form: any permutation memory `q` that holds `P[i]` at the
    indices `0 ≤ i < ncols` (the only ones read) -/
theorem mzdApplyPRightTransTri_gen (h : ColSwapTie) (A : Mzd) (P : Array Nat) (q : Int → Int) (rs : Int)
    (hwf : A.WF) (hq : ∀ i : Nat, i < A.ncols → q (i : Int) = ((P.getD i 0 : Nat) : Int))
    (hP : ∀ i, i < A.ncols → P.getD i 0 < A.ncols) :
    Gen.C.mzdApplyPRightTransTri (memOf A) A.width A.nrows A.ncols q rs
      = memOf (A.applyPRightTransTri P) := by
  unfold Gen.C.mzdApplyPRightTransTri
  have hs := step_eq A.width
  have hs1 := stepOf_pos A.width
  generalize stepOf A.width = step at hs hs1
  dsimp (config := { etaStruct := .none }) only
  rw [hs]
  generalize hres : CLoop.loop _ _ _ _ = res
  have key := for_loop_eq hres (nblocks A.nrows step)
    (fun k st => st.2 = ((k * step : Nat) : Int) ∧ st.1 = memOf (blocked A P step k))
    (by rw [Int.toNat_natCast]; exact nblocks_le _ _ hs1) ⟨by simp, rfl⟩ ?_ ?_
  · rw [← blocked_eq A P step (nblocks A.nrows step) hwf (nblocks_cover _ _ hs1), ← key.2]
  · intro k st hk hP'
    obtain ⟨m, r⟩ := st
    obtain ⟨k1, k2⟩ := hP'
    dsimp only at k1 k2 ⊢
    subst k1
    have := lt_nblocks A.nrows step k hs1
    by_cases c : k < nblocks A.nrows step
    · rw [decide_eq_true c, decide_eq_true (by have := this.mp c; omega)]
    · rw [decide_eq_false c, decide_eq_false (by intro c'; exact c (this.mpr (by omega)))]
  · intro k st hk hP'
    obtain ⟨m, r⟩ := st
    obtain ⟨k1, k2⟩ := hP'
    dsimp only at k1 k2
    subst k1 k2
    have hklt := (lt_nblocks A.nrows step k hs1).mp hk
    obtain ⟨b1, b2, b3⟩ := blocked_shape A P step k
    have bwf := blocked_WF A P step k hwf
    generalize hB : blocked A P step k = B at b1 b2 b3 bwf
    have hrb : (if decide ((((k * step : Nat) : Int) + (step : Int)) < (A.nrows : Int)) = true then
        (((k * step : Nat) : Int) + (step : Int)) else (A.nrows : Int))
        = ((min (k * step + step) A.nrows : Nat) : Int) := by
      split <;> rename_i c <;> rw [decide_eq_true_eq] at c <;> omega
    dsimp (config := { etaStruct := .none }) only
    rw [hrb]
    generalize hrbv : min (k * step + step) A.nrows = rb
    have hrbn : rb ≤ A.nrows := by omega
    generalize hres2 : CLoop.loop _ _ _ _ = res2
    have key2 := for_loop_eq hres2 A.ncols
      (fun i st => st.2 = (i : Int) ∧ st.1 = memOf (passUpTo B P (k * step) rb i))
      (Nat.le_of_eq (Int.toNat_natCast _).symm) ⟨rfl, rfl⟩ ?_ ?_
    · obtain ⟨m2, i2⟩ := res2
      obtain ⟨q1, q2⟩ := key2
      dsimp only at q1 q2 ⊢
      subst q2
      refine ⟨?_, ?_⟩
      · rw [Nat.succ_mul]; omega
      · rw [blocked_succ, hB, hrbv]
    · intro i st hi hQ
      obtain ⟨m, j⟩ := st
      obtain ⟨q1, q2⟩ := hQ
      dsimp only at q1 q2 ⊢
      subst q1
      by_cases c : i < A.ncols
      · rw [decide_eq_true c, decide_eq_true (by omega)]
      · rw [decide_eq_false c, decide_eq_false (by omega)]
    · intro i st hi hQ
      obtain ⟨m, j⟩ := st
      obtain ⟨q1, q2⟩ := hQ
      dsimp only at q1 q2 ⊢
      subst q1 q2
      refine ⟨by omega, ?_⟩
      have e1 : q (i : Int) = ((P.getD i 0 : Nat) : Int) := hq i hi
      have e2 : (if decide ((rb : Int) < (i : Int)) = true then (rb : Int) else (i : Int))
          = ((min rb i : Nat) : Int) := by
        split <;> rename_i c <;> rw [decide_eq_true_eq] at c <;> omega
      obtain ⟨p1, p2⟩ := passUpTo_shape B P (k * step) rb i
      rw [e1, e2, passUpTo_succ]
      exact h _ i (P.getD i 0) (k * step) (min rb i) rs (passUpTo_WF _ _ _ _ _ bwf)
        (by rw [p2, b2]; exact hi) (by rw [p2, b2]; exact hP i hi) (by rw [p1, b1]; omega)

/-- **`mzd_apply_p_right_trans_tri`**, weakest hypotheses -/
theorem mzdApplyPRightTransTri_eq' (h : ColSwapTie) (A : Mzd) (P : Array Nat) (rs : Int) (hwf : A.WF)
    (hP : ∀ i, i < A.ncols → P.getD i 0 < A.ncols) :
    Gen.C.mzdApplyPRightTransTri (memOf A) A.width A.nrows A.ncols (arrOf P) rs
      = memOf (A.applyPRightTransTri P) :=
  mzdApplyPRightTransTri_gen h A P (arrOf P) rs hwf
    (fun i _ => by unfold arrOf; rw [Int.toNat_natCast]) hP

/-- **`mzd_apply_p_right_trans_tri`** on the C domain (`P->length == A->ncols`, `P->values[i] >= i`) -/
theorem mzdApplyPRightTransTri_eq (h : ColSwapTie) (A : Mzd) (P : Array Nat) (rs : Int) (hwf : A.WF)
    (h1 : 1 ≤ A.ncols) (hPs : P.size = A.ncols)
    (hP : ∀ i, i < A.ncols → i ≤ P.getD i 0 ∧ P.getD i 0 < A.ncols) :
    Gen.C.mzdApplyPRightTransTri (memOf A) A.width A.nrows A.ncols (arrOf P) rs
      = memOf (A.applyPRightTransTri P) :=
  mzdApplyPRightTransTri_eq' h A P rs hwf (fun i hi => (hP i hi).2)

/-! ### 3. the instance `liftTri` of the callee parameter of `_mzd_pluq` -/

/-- the word-level routine only touches the entries: the result is its own abstraction put back into `A` -/
theorem applyPRightTransTri_putB (A : Mzd) (P : Array Nat) (hwf : A.WF)
    (hP : ∀ i, i < A.ncols → P.getD i 0 < A.ncols) :
    A.applyPRightTransTri P = A.putB (A.toB.applyPRightTransTri P) := by
  obtain ⟨s1, s2⟩ := Mzd.applyPRightTransTri_shape A P
  have xwf := Mzd.applyPRightTransTri_WF A P hwf
  have e : A.toB.applyPRightTransTri P = (A.applyPRightTransTri P).toB := by
    rw [BMat.G2.toB_applyPRightTransTri A P hwf hP, ← BMat.G2.applyPRightTransTriRows_nrows, Mzd.nrows_toB]
  rw [e]
  apply Mzd.eq_putB_of_bit xwf hwf s1 s2
  intro i j hi hj
  by_cases hjc : j < A.ncols
  · rw [if_pos hjc, Mzd.get_toB_of_lt _ _ _ (by rw [s2]; exact hjc)]
  · rw [if_neg hjc, Mzd.applyPRightTransTri_bit A P hwf hP i j hi hj, if_neg hjc]

/-- **the generated `mzd_apply_p_right_trans_tri` on a whole well-formed matrix is `liftTri`** (the instance of
    the callee parameter in `GenTieGlue.pluqFromPle_eq`), for every permutation memory with
    `0 ≤ q[i] < ncols` on `0 ≤ i < ncols` -/
theorem mzdApplyPRightTransTri_liftTri (h : ColSwapTie) (A : Mzd) (q : Int → Int) (rs : Int) (hwf : A.WF)
    (hq : ∀ i : Nat, i < A.ncols → 0 ≤ q (i : Int) ∧ q (i : Int) < (A.ncols : Int)) :
    Gen.C.mzdApplyPRightTransTri (memOf A) A.width A.nrows A.ncols q rs
      = GenTieGlue.liftTri ⟨memOf A, (A.nrows : Int), (A.ncols : Int), (A.width : Int), A.hb⟩ q := by
  have hg : ∀ i, i < A.ncols → (GenTieGlue.permOfMem q A.ncols).getD i 0 = (q (i : Int)).toNat := by
    intro i hi
    unfold GenTieGlue.permOfMem
    simp [Array.getD, hi]
  have hP : ∀ i, i < A.ncols → (GenTieGlue.permOfMem q A.ncols).getD i 0 < A.ncols := by
    intro i hi
    rw [hg i hi]
    have := hq i hi
    omega
  rw [GenTieGlue.liftTri_of A hwf q, ← applyPRightTransTri_putB A _ hwf hP]
  exact mzdApplyPRightTransTri_gen h A _ q rs hwf
    (fun i hi => by rw [hg i hi]; have := hq i hi; omega) hP

/-- the same for an array image -/
theorem mzdApplyPRightTransTri_liftTri_arrOf (h : ColSwapTie) (A : Mzd) (Q : Array Nat) (rs : Int) (hwf : A.WF)
    (hQ : ∀ i, i < A.ncols → Q.getD i 0 < A.ncols) :
    Gen.C.mzdApplyPRightTransTri (memOf A) A.width A.nrows A.ncols (arrOf Q) rs
      = GenTieGlue.liftTri ⟨memOf A, (A.nrows : Int), (A.ncols : Int), (A.width : Int), A.hb⟩ (arrOf Q) := by
  apply mzdApplyPRightTransTri_liftTri h A (arrOf Q) rs hwf
  intro i hi
  have := hQ i hi
  unfold arrOf
  rw [Int.toNat_natCast]
  omega

end M4ri.GenTieTri

section Axioms
open M4ri.GenTieTri
#print axioms blocked_eq
#print axioms mzdApplyPRightTransTri_gen
#print axioms mzdApplyPRightTransTri_eq'
#print axioms mzdApplyPRightTransTri_eq
#print axioms applyPRightTransTri_putB
#print axioms mzdApplyPRightTransTri_liftTri
#print axioms mzdApplyPRightTransTri_liftTri_arrOf
end Axioms
