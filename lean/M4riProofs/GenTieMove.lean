/-
  Tie between the generated data-movement functions of `M4ri/Gen/CFuns.lean`
  (`mzd_copy`, `mzd_stack`, `mzd_concat`, `mzd_submatrix`, each for a supplied non-NULL destination) and the
  hand-written word-level model `M4ri/Mzd.lean` (`copyInto`, `stackInto`, `concatInto`, `submatrixInto`).

  Main theorems (generated function on `memOf` of the arguments = `memOf` of the model function):
    `mzdCopy_eq`       (`N.WF`, `P.nrows ≤ N.nrows`, `P.ncols ≤ N.ncols`, `1 ≤ P.ncols`), `mzdCopy_same` (`N == P`)
    `mzdStack_eq`      (`C.WF`, `C.nrows = A.nrows + B.nrows`, `C.ncols = A.ncols = B.ncols`, `1 ≤ C.ncols`)
    `mzdConcat_eq`     (`C.WF`, `C.nrows = A.nrows = B.nrows`, `C.ncols = A.ncols + B.ncols`, `1 ≤ A.ncols`)
    `mzdSubmatrix_eq`  (`S.WF`, `startrow ≤ endrow`, `startcol ≤ endcol`, `S` at least as large as the sub-matrix,
                        `ncols / 64 < 2^64`; at an unaligned start additionally `1 ≤ S.ncols` or no rows)
  and their primed / per-path forms with the weakest hypotheses the proofs use (`mzdCopy_eq'`, `mzdStack_eq'`,
  `mzdConcat_eq'`, `mzdSubmatrix_aligned_eq`, `mzdSubmatrix_unaligned_eq`).  The source matrices (`P`, `A`, `B`,
  `M`) need not be well-formed: they are only read, through total accessors on both sides.

  Domain notes for `mzd_submatrix`.
  * A destination LARGER than the sub-matrix is inside the tie: `submatrixInto` follows C word by word,
    including the unaligned path's masking of the last chunk with `S->high_bitmask` (not with the mask of
    `ncols`), so generated text and model agree there although the two paths then treat the columns
    `ncols ≤ j < S.ncols` differently (`Mzd.submatrixInto_larger_observation`).
  * Empty column range at an unaligned start (`ncols = 0`, `startcol % 64 ≠ 0`): C evaluates
    `mzd_read_bits(M, x, y, 0)`, i.e. `temp >> 64` (undefined in C); `BitVec` `>>>` and the model both give `0`,
    so generated text and model still agree (both clear the `S->high_bitmask` bits of word 0 of every row
    `< nrows`) as long as `S` has a word 0 (`1 ≤ S.ncols`).  This is agreement of two total functions, not a
    statement about C.
  * `ncols / 64 < 2^64` is the `size_t` conversion of `sizeof(word) * (ncols / 64)` in the `memcpy` call.

  Proof structure: every loop nest is reduced, by `for_loop_eq` and a closed form of the memory after `k`
  iterations (`cpMem`/`rowsMem`, `cwMem`, `tlMem`, `chMem`/`uasMem`), to a pointwise comparison with the model's
  `mapIdx` (`eq_memOf_mapIdx`).  The loop lemmas (`copyRows_loop`, `writeBlock_loop`, `memcpy_loop`, `tail_loop`,
  `unaligned_loop`) take the generated `cond`/`body` through hypotheses discharged by `fun _ => rfl`.
-/
import M4ri.Gen.CFuns
import M4ri.Mzd
import M4riProofs.Basic
import M4riProofs.GenTieMem
import M4riProofs.W.DataMove
namespace M4ri.GenTieMove
open M4ri M4ri.Gen M4ri.GenTieMem

abbrev Mem := Int → Int → BitVec 64

/-! ### generic: memory image of a row-wise `mapIdx` -/

theorem eq_memOf_mapIdx (M : Mzd) (f : Nat → Row → Row) (m : Mem)
    (hin : ∀ i j : Nat, i < M.rows.size → m (i : Int) (j : Int) = (f i (M.row i)).w j)
    (hout : ∀ r z : Int, (r < 0 ∨ z < 0 ∨ (M.rows.size : Int) ≤ r) → m r z = memOf M r z) :
    m = memOf (M.withRows (M.rows.mapIdx f)) := by
  funext r z
  by_cases h : r < 0 ∨ z < 0
  · rw [hout r z (by omega)]
    unfold memOf
    rw [if_pos h, if_pos h]
  · have hr : r = ((r.toNat : Nat) : Int) := by omega
    have hz : z = ((z.toNat : Nat) : Int) := by omega
    by_cases h2 : r.toNat < M.rows.size
    · rw [hr, hz, hin _ _ h2, memOf_nat, Mzd.row_withRows_mapIdx_D _ _ _ h2]
    · rw [hout r z (by omega)]
      unfold memOf
      rw [if_neg h, if_neg h, Mzd.row_of_ge _ _ (by omega), Mzd.row_of_ge _ _ (by simp; omega)]

/-! ### generic: one row copied word by word, last word merged under a mask -/

/-- the inner loop (`for j < wide: dst[j] = src[j]`) and the masked store of word `wide` -/
def rowStep (src : Mem) (mask : BitVec 64) (wide : Int) (fuelI : Nat) (d s : Int) (m : Mem) : Mem :=
  let inner := CLoop.loop fuelI (fun st : Mem × Int => decide (st.2 < wide))
    (fun st : Mem × Int => (CLoop.upd2 st.1 d (0 + st.2) (src s (0 + st.2)), st.2 + 1)) (m, 0)
  CLoop.upd2 inner.1 d (0 + wide) ((inner.1 d (0 + wide) &&& ~~~mask) ||| (src s (0 + wide) &&& mask))

/-- memory `m` with the words `0 .. k-1` of row `d` replaced by those of row `s` of `src` -/
def cpMem (m src : Mem) (d s : Int) (k : Nat) : Mem :=
  fun r z => if r = d ∧ 0 ≤ z ∧ z < (k : Int) then src s z else m r z

theorem cpMem_zero (m src : Mem) (d s : Int) : cpMem m src d s 0 = m := by
  funext r z
  unfold cpMem
  rw [if_neg (by omega)]

theorem cpMem_succ (m src : Mem) (d s : Int) (k : Nat) :
    CLoop.upd2 (cpMem m src d s k) d ((0 : Int) + (k : Int)) (src s ((0 : Int) + (k : Int)))
      = cpMem m src d s (k + 1) := by
  funext r z
  simp only [upd2_apply, cpMem, Int.zero_add]
  by_cases hz : z = (k : Int)
  · subst hz
    repeat' split
    all_goals first | rfl | (exfalso; omega)
  · repeat' split
    all_goals first | rfl | (exfalso; omega)

/-- row `d` of `m` after `rowStep` -/
def rowMem (m src : Mem) (mask : BitVec 64) (w : Int) (d s : Int) : Mem :=
  fun r z => if r = d then
      (if 0 ≤ z ∧ z < w then src s z
       else if z = w then (m d w &&& ~~~mask) ||| (src s w &&& mask) else m r z)
    else m r z

theorem rowStep_eq (src m : Mem) (mask : BitVec 64) (wide : Int) (w fuelI : Nat) (hw : wide = (w : Int))
    (hf : w ≤ fuelI) (d s : Int) :
    rowStep src mask wide fuelI d s m = rowMem m src mask wide d s := by
  subst hw
  unfold rowStep
  dsimp only
  generalize hres : CLoop.loop _ _ _ _ = res
  have key := for_loop_eq hres w
    (fun k st => st.2 = (k : Int) ∧ st.1 = cpMem m src d s k) hf ⟨rfl, (cpMem_zero _ _ _ _).symm⟩ ?_ ?_
  · obtain ⟨L, kk⟩ := res
    obtain ⟨k1, k2⟩ := key
    dsimp only at k1 k2 ⊢
    subst k1 k2
    funext r z
    simp only [upd2_apply, cpMem, rowMem, Int.zero_add]
    by_cases hr : r = d
    · subst hr
      by_cases hz : z = (w : Int)
      · subst hz
        ifs_omega
      · by_cases hz2 : 0 ≤ z ∧ z < (w : Int)
        · ifs_omega
        · ifs_omega
    · ifs_omega
  · intro k st hk hP
    rw [hP.1]
    congr 1
    apply propext
    omega
  · intro k st hk hP
    obtain ⟨L, kk⟩ := st
    obtain ⟨k1, k2⟩ := hP
    dsimp only at k1 k2 ⊢
    subst k1 k2
    refine ⟨by omega, ?_⟩
    exact cpMem_succ _ _ _ _ _

/-- memory `m0` with rows `off .. off+k-1` replaced by rows `0 .. k-1` of `src`
    (`w` whole words, word `w` merged under `mask`) -/
def rowsMem (m0 src : Mem) (mask : BitVec 64) (w off : Int) (k : Nat) : Mem :=
  fun r z => if off ≤ r ∧ r < off + (k : Int) then
      (if 0 ≤ z ∧ z < w then src (r - off) z
       else if z = w then (m0 r w &&& ~~~mask) ||| (src (r - off) w &&& mask) else m0 r z)
    else m0 r z

theorem rowsMem_zero (m0 src : Mem) (mask : BitVec 64) (w off : Int) : rowsMem m0 src mask w off 0 = m0 := by
  funext r z
  unfold rowsMem
  rw [if_neg (by omega)]

theorem rowsMem_succ (m0 src : Mem) (mask : BitVec 64) (w off : Int) (k : Nat) :
    rowMem (rowsMem m0 src mask w off k) src mask w (off + (k : Int)) (k : Int)
      = rowsMem m0 src mask w off (k + 1) := by
  funext r z
  simp only [rowMem, rowsMem]
  by_cases hr : r = off + (k : Int)
  · subst hr
    have e : off + (k : Int) - off = (k : Int) := by omega
    have c1 : ¬ (off + (k : Int) < off + (k : Int)) := by omega
    have c2 : off ≤ off + (k : Int) := by omega
    have c3 : off + (k : Int) < off + ((k + 1 : Nat) : Int) := by omega
    simp only [e, c1, c2, c3, ↓reduceIte, and_self, and_false]
  · have c0 : (off ≤ r ∧ r < off + ((k + 1 : Nat) : Int)) ↔ (off ≤ r ∧ r < off + (k : Int)) := by omega
    simp only [hr, c0, ↓reduceIte]

/-- the double loop "for every row `i < n`: copy `wide` words of row `i` of `src` to row `drow i` of the
    destination, merge word `wide` under `mask`" -/
theorem copyRows_loop (m0 src : Mem) (mask : BitVec 64) (wide off : Int) (drow : Int → Int) (n w fuelI : Nat)
    {cond : Mem × Int → Bool} {body : Mem × Int → Mem × Int} {fuel : Nat} {res : Mem × Int}
    (hres : CLoop.loop fuel cond body (m0, 0) = res) (hf : n ≤ fuel) (hfI : w ≤ fuelI)
    (hw : wide = (w : Int)) (hdrow : ∀ i : Int, drow i = off + i)
    (hcond : ∀ st, cond st = decide (st.2 < (n : Int)))
    (hbody : ∀ st, body st = (rowStep src mask wide fuelI (drow st.2) st.2 st.1, st.2 + 1)) :
    res.1 = rowsMem m0 src mask wide off n := by
  have key := for_loop_eq hres n
    (fun k st => st.2 = (k : Int) ∧ st.1 = rowsMem m0 src mask wide off k) hf
    ⟨rfl, (rowsMem_zero _ _ _ _ _).symm⟩ ?_ ?_
  · exact key.2
  · intro k st hk hP
    rw [hcond, hP.1]
    congr 1
    apply propext
    omega
  · intro k st hk hP
    obtain ⟨L, kk⟩ := st
    obtain ⟨k1, k2⟩ := hP
    dsimp only at k1 k2
    subst k1 k2
    rw [hbody]
    dsimp only
    refine ⟨by omega, ?_⟩
    rw [rowStep_eq _ _ _ _ w fuelI hw hfI, hdrow]
    exact rowsMem_succ _ _ _ _ _ _

/-! ### 1. `mzd_copy` -/

theorem mzdCopy_same (mN mP : Mem) (pw : Int) (hbm : BitVec 64) (pn : Int) :
    Gen.C.mzdCopy mN true pw hbm pn mP = mN := rfl

/-- the word written at position `j` of a destination row (old word `w`) by the row copy -/
def cpWord (P : Mzd) (mask : BitVec 64) (pw s j : Nat) (w : Word) : Word :=
  if j + 1 < pw then (P.row s).w j
  else if j + 1 = pw then merge' w ((P.row s).w j) mask else w

theorem rowsMem_nat (m0 : Mem) (P : Mzd) (mask : BitVec 64) (pw off n i j : Nat) :
    rowsMem m0 (memOf P) mask ((pw : Int) - 1) (off : Int) n (i : Int) (j : Int) =
      if off ≤ i ∧ i < off + n then cpWord P mask pw (i - off) j (m0 i j) else m0 i j := by
  simp only [rowsMem, cpWord]
  by_cases hin : off ≤ i ∧ i < off + n
  · have e : (i : Int) - (off : Int) = ((i - off : Nat) : Int) := by omega
    rw [if_pos (by omega), if_pos hin, e]
    by_cases hj1 : j + 1 < pw
    · rw [if_pos (by omega), if_pos hj1, memOf_nat]
    · by_cases hj2 : j + 1 = pw
      · have e2 : (pw : Int) - 1 = (j : Int) := by omega
        rw [if_neg (by omega), if_pos (by omega), if_neg hj1, if_pos hj2, e2, memOf_nat]
        rfl
      · rw [if_neg (by omega), if_neg (by omega), if_neg hj1, if_neg hj2]
  · rw [if_neg (by omega), if_neg hin]

theorem rowsMem_out (m0 src : Mem) (mask : BitVec 64) (pw : Int) (off n : Nat) (r z : Int) (h1 : 1 ≤ pw)
    (h : z < 0 ∨ r < (off : Int) ∨ (off : Int) + (n : Int) ≤ r) :
    rowsMem m0 src mask (pw - 1) (off : Int) n r z = m0 r z := by
  simp only [rowsMem]
  by_cases hr : (off : Int) ≤ r ∧ r < (off : Int) + (n : Int)
  · rw [if_pos hr, if_neg (by omega), if_neg (by omega)]
  · rw [if_neg hr]

/-- a word-wise `mapIdx` of a well-formed row, read totally -/
theorem w_mapIdx_wf (r : Row) (f : Nat → Word → Word) (j W : Nat) (hsz : r.size = W)
    (hf : W ≤ j → f j 0 = 0) : Row.w (r.mapIdx f) j = f j (r.w j) := by
  rw [Row.w_mapIdx', hsz]
  by_cases hj : j < W
  · rw [if_pos hj]
  · rw [if_neg hj, Row.w_of_ge _ _ (by omega), hf (by omega)]

theorem rowsMem_copyInto (N P : Mzd) (hN : N.WF) (hr : P.nrows ≤ N.nrows) (hw : P.width ≤ N.width)
    (h1 : 1 ≤ P.width) :
    rowsMem (memOf N) (memOf P) P.hb ((P.width : Int) - 1) 0 P.nrows = memOf (N.copyInto P) := by
  unfold Mzd.copyInto
  apply eq_memOf_mapIdx
  · intro i j hi
    rw [hN.1] at hi
    have e0 : (0 : Int) = ((0 : Nat) : Int) := rfl
    rw [e0, rowsMem_nat, memOf_nat]
    by_cases hin : i < P.nrows
    · rw [if_pos (by omega), if_pos hin, w_mapIdx_wf _ _ j N.width (hN.2 i hi)]
      · rfl
      · intro hj; rw [if_neg (by omega), if_neg (by omega)]
    · rw [if_neg (by omega), if_neg hin]
  · intro r z h
    rw [hN.1] at h
    have e0 : (0 : Int) = ((0 : Nat) : Int) := rfl
    rw [e0, rowsMem_out _ _ _ _ _ _ _ _ (by omega) (by omega)]

/-- `mzd_copy(N, P)`, distinct objects.  `hr`, `hw` follow from the C guard `N->nrows ≥ P->nrows`,
    `N->ncols ≥ P->ncols`; `P` need not be well-formed (it is only read). -/
theorem mzdCopy_eq' (N P : Mzd) (hN : N.WF) (hr : P.nrows ≤ N.nrows) (hw : P.width ≤ N.width)
    (h1 : 1 ≤ P.width) :
    Gen.C.mzdCopy (memOf N) false P.width P.hb P.nrows (memOf P) = memOf (N.copyInto P) := by
  unfold Gen.C.mzdCopy
  rw [if_neg (by simp)]
  dsimp only
  generalize hres : CLoop.loop _ _ _ _ = res
  have key := copyRows_loop (memOf N) (memOf P) P.hb ((P.width : Int) - 1) 0 (fun i => i) P.nrows
    (P.width - 1) ((P.width : Int)).toNat hres (by simp) (by omega) (by omega) (by intro i; omega)
    (fun _ => rfl) (fun _ => rfl)
  obtain ⟨L, i⟩ := res
  dsimp only at key ⊢
  rw [key]
  exact rowsMem_copyInto N P hN hr hw h1

theorem mzdCopy_eq (N P : Mzd) (hN : N.WF) (hr : P.nrows ≤ N.nrows) (hc : P.ncols ≤ N.ncols)
    (h1 : 1 ≤ P.ncols) :
    Gen.C.mzdCopy (memOf N) false P.width P.hb P.nrows (memOf P) = memOf (N.copyInto P) :=
  mzdCopy_eq' N P hN hr (Mzd.width_mono hc) (by unfold Mzd.width widthOf; omega)

/-! ### 4. `mzd_stack` -/

/-- `mzd_stack(C, A, B)` for a supplied `C`.  The hypotheses follow from the C guard
    (`C->nrows = A->nrows + B->nrows`, `C->ncols = A->ncols = B->ncols`) and `1 ≤ ncols`;
    `A`, `B` need not be well-formed (they are only read); the two column counts are not used by the body. -/
theorem mzdStack_eq' (C A B : Mzd) (hC : C.WF) (hr : A.nrows + B.nrows ≤ C.nrows)
    (hwA : A.width ≤ C.width) (hwB : B.width ≤ C.width) (hA1 : 1 ≤ A.width) (hB1 : 1 ≤ B.width)
    (ac bc : Int) :
    Gen.C.mzdStack (memOf C) ac bc C.hb A.nrows (memOf A) A.width B.nrows (memOf B) B.width =
      memOf (C.stackInto A B) := by
  unfold Gen.C.mzdStack Mzd.stackInto
  dsimp (config := {etaStruct := .none}) only
  generalize hres1 : CLoop.loop _ _ _ _ = res1
  have key1 := copyRows_loop (memOf C) (memOf A) C.hb ((A.width : Int) - 1) 0 (fun i => i) A.nrows
    (A.width - 1) ((A.width : Int)).toNat hres1 (by simp) (by omega) (by omega) (by intro i; omega)
    (fun _ => rfl) (fun _ => rfl)
  obtain ⟨L1, i1⟩ := res1
  dsimp (config := {etaStruct := .none}) only at key1 ⊢
  subst key1
  clear hres1
  generalize hres2 : CLoop.loop _ _ _ _ = res2
  have key2 := copyRows_loop _ (memOf B) C.hb ((B.width : Int) - 1) (A.nrows : Int)
    (fun i => (A.nrows : Int) + i) B.nrows
    (B.width - 1) ((B.width : Int)).toNat hres2 (by simp) (by omega) (by omega) (by intro i; rfl)
    (fun _ => rfl) (fun _ => rfl)
  obtain ⟨L2, i2⟩ := res2
  dsimp only at key2 ⊢
  subst key2
  clear hres2
  apply eq_memOf_mapIdx
  · intro i j hi
    rw [hC.1] at hi
    have e0 : (0 : Int) = ((0 : Nat) : Int) := rfl
    rw [rowsMem_nat, e0, rowsMem_nat, memOf_nat]
    by_cases hiA : i < A.nrows
    · rw [if_neg (by omega), if_pos (by omega), if_pos hiA, w_mapIdx_wf _ _ j C.width (hC.2 i hi)]
      · rfl
      · intro hj; rw [if_neg (by omega), if_neg (by omega)]
    · by_cases hiB : i < A.nrows + B.nrows
      · rw [if_pos (by omega), if_neg (by omega), if_neg hiA, if_pos hiB,
          w_mapIdx_wf _ _ j C.width (hC.2 i hi)]
        · rfl
        · intro hj; rw [if_neg (by omega), if_neg (by omega)]
      · rw [if_neg (by omega), if_neg (by omega), if_neg hiA, if_neg hiB]
  · intro r z h
    rw [hC.1] at h
    have e0 : (0 : Int) = ((0 : Nat) : Int) := rfl
    rw [rowsMem_out _ _ _ _ _ _ _ _ (by omega) (by omega), e0,
      rowsMem_out _ _ _ _ _ _ _ _ (by omega) (by omega)]

/-- `mzd_stack(C, A, B)` under the C guard -/
theorem mzdStack_eq (C A B : Mzd) (hC : C.WF) (hr : C.nrows = A.nrows + B.nrows)
    (hcA : C.ncols = A.ncols) (hcB : C.ncols = B.ncols) (h1 : 1 ≤ C.ncols) :
    Gen.C.mzdStack (memOf C) A.ncols B.ncols C.hb A.nrows (memOf A) A.width B.nrows (memOf B) B.width =
      memOf (C.stackInto A B) := by
  have eA : A.width = C.width := by unfold Mzd.width; rw [hcA]
  have eB : B.width = C.width := by unfold Mzd.width; rw [hcB]
  have hw : 1 ≤ C.width := by unfold Mzd.width widthOf; omega
  exact mzdStack_eq' C A B hC (by omega) (by omega) (by omega) (by omega) (by omega) _ _

/-! ### 3. `mzd_concat` -/

/-- the model's inner fold of `mzd_concat`: row `i` of `B` written bit by bit from column `off` on -/
def wrRow (B : Mzd) (i off : Nat) (M : Mzd) (n : Nat) : Mzd :=
  (List.range n).foldl (fun M j => M.writeBit i (j + off) (B.bit i j)) M

/-- the model's double fold of `mzd_concat` -/
def wrBlock (B : Mzd) (off m : Nat) (M : Mzd) (n : Nat) : Mzd :=
  (List.range n).foldl (fun M i => (List.range m).foldl (fun M j => M.writeBit i (j + off) (B.bit i j)) M) M

theorem wrRow_succ (B : Mzd) (i off : Nat) (M : Mzd) (n : Nat) :
    wrRow B i off M (n + 1) = (wrRow B i off M n).writeBit i (n + off) (B.bit i n) := by
  unfold wrRow
  rw [List.range_succ, List.foldl_append]
  rfl

theorem wrBlock_succ (B : Mzd) (off m : Nat) (M : Mzd) (n : Nat) :
    wrBlock B off m M (n + 1) = wrRow B n off (wrBlock B off m M n) m := by
  unfold wrBlock wrRow
  rw [List.range_succ, List.foldl_append]
  rfl

/-- inner loop of `mzd_concat` -/
theorem writeRow_loop (M B : Mzd) (i off n : Nat) (hM : M.WF) (hi : i < M.nrows) (hc : off + n ≤ 64 * M.width)
    {cond : Mem × Int → Bool} {body : Mem × Int → Mem × Int} {fuel : Nat} {res : Mem × Int}
    (hres : CLoop.loop fuel cond body (memOf M, 0) = res) (hf : n ≤ fuel)
    (hcond : ∀ st, cond st = decide (st.2 < (n : Int)))
    (hbody : ∀ st, body st =
      (Gen.C.mzdWriteBit i (st.2 + (off : Int)) (Gen.C.mzdReadBit i st.2 (memOf B)) st.1, st.2 + 1)) :
    res.1 = memOf (wrRow B i off M n) := by
  have key := for_loop_eq hres n
    (fun k st => st.2 = (k : Int) ∧ st.1 = memOf (wrRow B i off M k)) hf ⟨rfl, rfl⟩ ?_ ?_
  · exact key.2
  · intro k st hk hP
    rw [hcond, hP.1]
    congr 1
    apply propext
    omega
  · intro k st hk hP
    obtain ⟨L, kk⟩ := st
    obtain ⟨k1, k2⟩ := hP
    dsimp only at k1 k2
    subst k1 k2
    rw [hbody]
    dsimp only
    refine ⟨by omega, ?_⟩
    obtain ⟨w1, w2, w3, _⟩ := Mzd.writeRowFold_spec M hM (B.bit i) i off k hi
    have hw : (wrRow B i off M k).width = M.width := by unfold Mzd.width; rw [show (wrRow B i off M k).ncols = M.ncols from w3]
    rw [wrRow_succ, ← Int.natCast_add, mzdReadBit_eq]
    exact mzdWriteBit_eq (wrRow B i off M k) i (k + off) (B.bit i k) w1
      (by rw [show (wrRow B i off M k).nrows = M.nrows from w2]; exact hi) (by rw [hw]; omega)

/-- the double loop of `mzd_concat` -/
theorem writeBlock_loop (M B : Mzd) (off m n fuelI : Nat) (hM : M.WF) (hn : n ≤ M.nrows)
    (hc : off + m ≤ 64 * M.width) (hfI : m ≤ fuelI)
    {cond : Mem × Int → Bool} {body : Mem × Int → Mem × Int} {fuel : Nat} {res : Mem × Int}
    (hres : CLoop.loop fuel cond body (memOf M, 0) = res) (hf : n ≤ fuel)
    (hcond : ∀ st, cond st = decide (st.2 < (n : Int)))
    (hbody : ∀ st, body st =
      ((CLoop.loop fuelI (fun s : Mem × Int => decide (s.2 < (m : Int)))
        (fun s : Mem × Int => (Gen.C.mzdWriteBit st.2 (s.2 + (off : Int)) (Gen.C.mzdReadBit st.2 s.2 (memOf B)) s.1, s.2 + 1))
        (st.1, 0)).1, st.2 + 1)) :
    res.1 = memOf (wrBlock B off m M n) := by
  have key := for_loop_eq hres n
    (fun k st => st.2 = (k : Int) ∧ st.1 = memOf (wrBlock B off m M k)) hf ⟨rfl, rfl⟩ ?_ ?_
  · exact key.2
  · intro k st hk hP
    rw [hcond, hP.1]
    congr 1
    apply propext
    omega
  · intro k st hk hP
    obtain ⟨L, kk⟩ := st
    obtain ⟨k1, k2⟩ := hP
    dsimp only at k1 k2
    subst k1 k2
    rw [hbody]
    dsimp only
    refine ⟨by omega, ?_⟩
    obtain ⟨w1, w2, w3, _⟩ := Mzd.writeBlockFold_spec M hM B.bit off m k (by omega)
    have hw : (wrBlock B off m M k).width = M.width := by
      unfold Mzd.width; rw [show (wrBlock B off m M k).ncols = M.ncols from w3]
    generalize hres2 : CLoop.loop _ _ _ _ = res2
    rw [wrBlock_succ]
    exact writeRow_loop (wrBlock B off m M k) B k off m w1
      (by rw [show (wrBlock B off m M k).nrows = M.nrows from w2]; omega) (by rw [hw]; exact hc)
      hres2 hfI (fun _ => rfl) (fun _ => rfl)

/-- `mzd_concat(C, A, B)` for a supplied `C`.  The hypotheses follow from the C guard
    (`C->nrows = A->nrows = B->nrows`, `C->ncols = A->ncols + B->ncols`) and `1 ≤ A->ncols`. -/
theorem mzdConcat_eq' (C A B : Mzd) (hC : C.WF) (hrA : A.nrows ≤ C.nrows) (hrB : B.nrows ≤ C.nrows)
    (hwA : A.width ≤ C.width) (hA1 : 1 ≤ A.width) (hc : A.ncols + B.ncols ≤ 64 * C.width) :
    Gen.C.mzdConcat (memOf C) A.nrows B.nrows (memOf A) A.width A.hb B.ncols A.ncols (memOf B) =
      memOf (C.concatInto A B) := by
  unfold Gen.C.mzdConcat
  rw [Mzd.concatInto_eq]
  dsimp (config := {etaStruct := .none}) only
  generalize hres1 : CLoop.loop _ _ _ _ = res1
  have key1 := copyRows_loop (memOf C) (memOf A) A.hb ((A.width : Int) - 1) 0 (fun i => i) A.nrows
    (A.width - 1) ((A.width : Int)).toNat hres1 (by simp) (by omega) (by omega) (by intro i; omega)
    (fun _ => rfl) (fun _ => rfl)
  obtain ⟨L1, i1⟩ := res1
  dsimp (config := {etaStruct := .none}) only at key1 ⊢
  subst key1
  clear hres1
  rw [rowsMem_copyInto C A hC hrA hwA hA1]
  generalize hres2 : CLoop.loop _ _ _ _ = res2
  have hC1 : (C.copyInto A).WF := Mzd.copyInto_WF C A hC
  have key2 := writeBlock_loop (C.copyInto A) B A.ncols B.ncols B.nrows ((B.ncols : Int)).toNat hC1
    (by exact hrB) (by exact hc) (by simp) hres2 (by simp) (fun _ => rfl) (fun _ => rfl)
  obtain ⟨L2, i2⟩ := res2
  dsimp only at key2 ⊢
  exact key2

/-- `mzd_concat(C, A, B)` under the C guard -/
theorem mzdConcat_eq (C A B : Mzd) (hC : C.WF) (hrA : C.nrows = A.nrows) (hrB : C.nrows = B.nrows)
    (hcc : C.ncols = A.ncols + B.ncols) (h1 : 1 ≤ A.ncols) :
    Gen.C.mzdConcat (memOf C) A.nrows B.nrows (memOf A) A.width A.hb B.ncols A.ncols (memOf B) =
      memOf (C.concatInto A B) := by
  have hw : A.width ≤ C.width := Mzd.width_mono (by omega)
  have hA1 : 1 ≤ A.width := by unfold Mzd.width widthOf; omega
  have hc : A.ncols + B.ncols ≤ 64 * C.width := by unfold Mzd.width widthOf; omega
  exact mzdConcat_eq' C A B hC (by omega) (by omega) hw hA1 hc

/-! ### 2. `mzd_submatrix` -/

/-! #### aligned path (`startcol % 64 = 0`) -/

/-- the aligned branch of `submatrixInto` with its parameters made explicit: `q` whole words per row from
    word `sw` on, then `tail` bits of the next word (`tail = 0`: no masked store) -/
def subAligned (S M : Mzd) (sr sw nrows q tail : Nat) : Mzd :=
  S.withRows (S.rows.mapIdx fun i s =>
    if i < nrows then
      s.mapIdx fun j w =>
        if j < q then (M.row (sr + i)).w (sw + j)
        else if j = q ∧ tail ≠ 0 then
          (w &&& ~~~leftMask tail) ||| ((M.row (sr + i)).w (sw + j) &&& leftMask tail)
        else w
    else s)

theorem submatrixInto_aligned (S M : Mzd) (sr sc er ec : Nat) (h : sc % 64 = 0) :
    S.submatrixInto M sr sc er ec = subAligned S M sr (sc / 64) (er - sr) ((ec - sc) / 64) ((ec - sc) % 64) := by
  unfold Mzd.submatrixInto subAligned
  dsimp only
  rw [if_pos h]

/-- memory `mS` with the words `0 .. q-1` of rows `0 .. k-1` replaced by the words `sw ..` of rows `sr ..` of `mM` -/
def cwMem (mS mM : Mem) (sr sw q : Int) (k : Nat) : Mem :=
  fun r z => if 0 ≤ r ∧ r < (k : Int) ∧ 0 ≤ z ∧ z < q then mM (sr + r) (sw + z) else mS r z

theorem cwMem_zero (mS mM : Mem) (sr sw q : Int) : cwMem mS mM sr sw q 0 = mS := by
  funext r z
  unfold cwMem
  rw [if_neg (by omega)]

theorem cwMem_succ (mS mM : Mem) (sr sw q : Int) (k : Nat) :
    CLoop.copyWords (cwMem mS mM sr sw q k) (k : Int) 0 (fun j => mM (sr + (k : Int)) (0 + sw + j)) q
      = cwMem mS mM sr sw q (k + 1) := by
  funext r z
  simp only [CLoop.copyWords, cwMem, Int.zero_add, Int.sub_zero]
  by_cases hr : r = (k : Int)
  · subst hr
    by_cases hz : 0 ≤ z ∧ z < q
    · rw [if_pos (by omega), if_pos (by omega)]
    · rw [if_neg (by omega), if_neg (by omega), if_neg (by omega)]
  · rw [if_neg (by omega)]
    by_cases h2 : 0 ≤ r ∧ r < (k : Int) ∧ 0 ≤ z ∧ z < q
    · rw [if_pos h2, if_pos (by omega)]
    · rw [if_neg h2, if_neg (by omega)]

/-- the `memcpy` loop of the aligned path -/
theorem memcpy_loop (mS mM : Mem) (sr sw q : Int) (n : Nat)
    {cond : Mem × Int × Int → Bool} {body : Mem × Int × Int → Mem × Int × Int} {fuel : Nat}
    {res : Mem × Int × Int}
    (hres : CLoop.loop fuel cond body (mS, 0, sr) = res) (hf : n ≤ fuel)
    (hcond : ∀ st, cond st = decide (st.2.1 < (n : Int)))
    (hbody : ∀ st, body st =
      (CLoop.copyWords st.1 st.2.1 0 (fun j => mM st.2.2 (0 + sw + j)) q, st.2.1 + 1, st.2.2 + 1)) :
    res.1 = cwMem mS mM sr sw q n := by
  have key := for_loop_eq hres n
    (fun k st => st.2.1 = (k : Int) ∧ st.2.2 = sr + (k : Int) ∧ st.1 = cwMem mS mM sr sw q k) hf
    ⟨rfl, by simp, (cwMem_zero _ _ _ _ _).symm⟩ ?_ ?_
  · exact key.2.2
  · intro k st hk hP
    rw [hcond, hP.1]
    congr 1
    apply propext
    omega
  · intro k st hk hP
    obtain ⟨L, ii, xx⟩ := st
    obtain ⟨k1, k2, k3⟩ := hP
    dsimp only at k1 k2 k3
    subst k1 k2 k3
    rw [hbody]
    dsimp only
    refine ⟨by omega, by omega, ?_⟩
    exact cwMem_succ _ _ _ _ _ _

theorem cwMem_subAligned (S M : Mzd) (sr sw n q : Nat) (hS : S.WF) (hn : n ≤ S.nrows)
    (hq : n = 0 ∨ q ≤ S.width) :
    cwMem (memOf S) (memOf M) sr sw q n = memOf (subAligned S M sr sw n q 0) := by
  unfold subAligned
  apply eq_memOf_mapIdx
  · intro i j hi
    rw [hS.1] at hi
    simp only [cwMem]
    by_cases hin : i < n
    · rw [if_pos hin, w_mapIdx_wf _ _ j S.width (hS.2 i hi)]
      · by_cases hj : j < q
        · rw [if_pos (by omega), if_pos hj, ← Int.natCast_add, ← Int.natCast_add, memOf_nat]
        · rw [if_neg (by omega), if_neg hj, if_neg (by simp), memOf_nat]
      · intro hj; rw [if_neg (by omega), if_neg (by simp)]
    · rw [if_neg (by omega), if_neg hin, memOf_nat]
  · intro r z h
    rw [hS.1] at h
    simp only [cwMem]
    rw [if_neg (by omega)]

theorem ofInt_toNat_small (n : Nat) (h : n < 2 ^ 64) : Int.ofNat (BitVec.toNat (BitVec.ofInt 64 (n : Int))) = (n : Int) := by
  rw [BitVec.ofInt_natCast, BitVec.toNat_ofNat, Nat.mod_eq_of_lt h]
  rfl

/-! #### unaligned path (`startcol % 64 ≠ 0`) -/

/-- the unaligned branch of `submatrixInto` with its parameters made explicit -/
def subUnaligned (S M : Mzd) (sr sc nrows ncols : Nat) : Mzd :=
  S.withRows (S.rows.mapIdx fun i s =>
    if i < nrows then
      s.mapIdx fun j w =>
        if j < (ncols - 1) / 64 then Mzd.readBitsRow (M.row (sr + i)) (sc + 64 * j) 64
        else if j = (ncols - 1) / 64 then
          (w &&& ~~~S.hb) ||| (Mzd.readBitsRow (M.row (sr + i)) (sc + 64 * j) (ncols - 64 * j) &&& S.hb)
        else w
    else s)

theorem submatrixInto_unaligned (S M : Mzd) (sr sc er ec : Nat) (h : sc % 64 ≠ 0) :
    S.submatrixInto M sr sc er ec = subUnaligned S M sr sc (er - sr) (ec - sc) := by
  unfold Mzd.submatrixInto subUnaligned
  dsimp only
  rw [if_neg h]

theorem readBits_nat (M : Mzd) (x y n : Nat) (X Y N : Int) (hx : X = (x : Int)) (hy : Y = (y : Int))
    (hn : N = (n : Int)) :
    Gen.C.mzdReadBits X Y N (memOf M) = Mzd.readBitsRow (M.row x) y n := by
  subst hx hy hn
  exact mzdReadBits_eq' M x y n

/-- the chunk loop `for (j = 0; j + 64 < ncols; j += 64) srow[j / 64] = mzd_read_bits(M, sr + i, sc + j, 64)` -/
def uaInner (mM : Mem) (sr sc nc : Int) (fuelI : Nat) (i : Int) (m : Mem) : Mem × Int :=
  CLoop.loop fuelI (fun st : Mem × Int => decide (st.2 + 64 < nc))
    (fun st : Mem × Int =>
      (CLoop.upd2 st.1 i (0 + Int.tdiv st.2 64) (Gen.C.mzdReadBits (sr + i) (sc + st.2) 64 mM), st.2 + 64)) (m, 0)

/-- one row of the unaligned path: chunk loop, then the last chunk under `S->high_bitmask` -/
def uaStep (mM : Mem) (hb : BitVec 64) (sr sc nc : Int) (fuelI : Nat) (i : Int) (m : Mem) : Mem :=
  let inner := uaInner mM sr sc nc fuelI i m
  let m1 := CLoop.upd2 inner.1 i (0 + Int.tdiv inner.2 64) (inner.1 i (0 + Int.tdiv inner.2 64) &&& ~~~hb)
  CLoop.upd2 m1 i (0 + Int.tdiv inner.2 64)
    (m1 i (0 + Int.tdiv inner.2 64) ||| (Gen.C.mzdReadBits (sr + i) (sc + inner.2) (nc - inner.2) mM &&& hb))

/-- memory `m` with the words `0 .. t-1` of row `i` replaced by 64-bit chunks of row `sr + i` of `mM` -/
def chMem (m mM : Mem) (sr sc i : Int) (t : Nat) : Mem :=
  fun r z => if r = i ∧ 0 ≤ z ∧ z < (t : Int) then Gen.C.mzdReadBits (sr + i) (sc + 64 * z) 64 mM else m r z

theorem chMem_zero (m mM : Mem) (sr sc i : Int) : chMem m mM sr sc i 0 = m := by
  funext r z
  unfold chMem
  rw [if_neg (by omega)]

theorem chMem_succ (m mM : Mem) (sr sc i : Int) (t : Nat) :
    CLoop.upd2 (chMem m mM sr sc i t) i (0 + Int.tdiv ((64 * t : Nat) : Int) 64)
        (Gen.C.mzdReadBits (sr + i) (sc + ((64 * t : Nat) : Int)) 64 mM)
      = chMem m mM sr sc i (t + 1) := by
  have e : ((64 * t : Nat) : Int) = 64 * (t : Int) := by omega
  have e2 : 64 * t / 64 = t := by omega
  rw [tdiv_nat, e2, e]
  funext r z
  simp only [upd2_apply, chMem, Int.zero_add]
  by_cases hz : r = i ∧ z = (t : Int)
  · obtain ⟨h1, h2⟩ := hz
    subst h1 h2
    rw [if_pos ⟨rfl, rfl⟩, if_pos (by omega)]
  · rw [if_neg hz]
    by_cases h2 : r = i ∧ 0 ≤ z ∧ z < (t : Int)
    · rw [if_pos h2, if_pos (by omega)]
    · rw [if_neg h2, if_neg (by omega)]

theorem uaInner_eq (m mM : Mem) (sr sc : Int) (ncN fuelI : Nat) (i : Int) (hf : (ncN - 1) / 64 ≤ fuelI) :
    uaInner mM sr sc (ncN : Int) fuelI i m =
      (chMem m mM sr sc i ((ncN - 1) / 64), ((64 * ((ncN - 1) / 64) : Nat) : Int)) := by
  unfold uaInner
  generalize hres : CLoop.loop _ _ _ _ = res
  have key := for_loop_eq hres ((ncN - 1) / 64)
    (fun t st => st.2 = ((64 * t : Nat) : Int) ∧ st.1 = chMem m mM sr sc i t) hf
    ⟨rfl, (chMem_zero _ _ _ _ _).symm⟩ ?_ ?_
  · obtain ⟨L, j⟩ := res
    obtain ⟨k1, k2⟩ := key
    dsimp only at k1 k2
    subst k1 k2
    rfl
  · intro t st ht hP
    rw [hP.1]
    congr 1
    apply propext
    omega
  · intro t st ht hP
    obtain ⟨L, j⟩ := st
    obtain ⟨k1, k2⟩ := hP
    dsimp only at k1 k2 ⊢
    subst k1 k2
    refine ⟨by omega, ?_⟩
    exact chMem_succ _ _ _ _ _ _

/-- row `i` of `m` after `uaStep` -/
def uaRow (m mM : Mem) (hb : BitVec 64) (sr sc : Int) (ncN : Nat) (i : Int) : Mem :=
  fun r z => if r = i then
      (if 0 ≤ z ∧ z < (((ncN - 1) / 64 : Nat) : Int) then Gen.C.mzdReadBits (sr + i) (sc + 64 * z) 64 mM
       else if z = (((ncN - 1) / 64 : Nat) : Int) then
         (m i z &&& ~~~hb) |||
           (Gen.C.mzdReadBits (sr + i) (sc + ((64 * ((ncN - 1) / 64) : Nat) : Int))
             ((ncN : Int) - ((64 * ((ncN - 1) / 64) : Nat) : Int)) mM &&& hb)
       else m r z)
    else m r z

theorem uaStep_eq (m mM : Mem) (hb : BitVec 64) (sr sc : Int) (ncN fuelI : Nat) (i : Int)
    (hf : (ncN - 1) / 64 ≤ fuelI) :
    uaStep mM hb sr sc (ncN : Int) fuelI i m = uaRow m mM hb sr sc ncN i := by
  unfold uaStep uaRow
  rw [uaInner_eq m mM sr sc ncN fuelI i hf]
  dsimp only
  have e2 : 64 * ((ncN - 1) / 64) / 64 = (ncN - 1) / 64 := by omega
  rw [tdiv_nat, e2]
  generalize (ncN - 1) / 64 = full
  funext r z
  simp only [upd2_apply, chMem, Int.zero_add]
  by_cases hr : r = i
  · subst hr
    by_cases hz : z = (full : Int)
    · subst hz
      have c1 : ¬ ((full : Int) < (full : Int)) := by omega
      simp only [c1, and_false, and_self, ↓reduceIte]
    · have c2 : ¬ (r = r ∧ z = (full : Int)) := by omega
      simp only [hz, and_false, ↓reduceIte, true_and]
  · simp only [hr, false_and, ↓reduceIte]

/-- memory `mS` with the rows `0 .. k-1` rewritten by the unaligned path -/
def uasMem (mS mM : Mem) (hb : BitVec 64) (sr sc : Int) (ncN k : Nat) : Mem :=
  fun r z => if 0 ≤ r ∧ r < (k : Int) then uaRow mS mM hb sr sc ncN r r z else mS r z

theorem uasMem_zero (mS mM : Mem) (hb : BitVec 64) (sr sc : Int) (ncN : Nat) :
    uasMem mS mM hb sr sc ncN 0 = mS := by
  funext r z
  unfold uasMem
  rw [if_neg (by omega)]

theorem uasMem_succ (mS mM : Mem) (hb : BitVec 64) (sr sc : Int) (ncN k : Nat) :
    uaRow (uasMem mS mM hb sr sc ncN k) mM hb sr sc ncN (k : Int) = uasMem mS mM hb sr sc ncN (k + 1) := by
  funext r z
  by_cases hr : r = (k : Int)
  · subst hr
    have c1 : ¬ ((k : Int) < (k : Int)) := by omega
    have c2 : (0 : Int) ≤ (k : Int) := by omega
    have c3 : (k : Int) < ((k + 1 : Nat) : Int) := by omega
    simp only [uaRow, uasMem, c1, c2, c3, and_false, and_self, ↓reduceIte]
  · have c0 : (0 ≤ r ∧ r < ((k + 1 : Nat) : Int)) ↔ (0 ≤ r ∧ r < (k : Int)) := by omega
    simp only [uaRow, uasMem, hr, c0, ↓reduceIte]

/-- the row loop of the unaligned path -/
theorem unaligned_loop (mS mM : Mem) (hb : BitVec 64) (sr sc : Int) (ncN n fuelI : Nat) (j0 : Int)
    {cond : Int × Mem × Int → Bool} {body : Int × Mem × Int → Int × Mem × Int} {fuel : Nat}
    {res : Int × Mem × Int}
    (hres : CLoop.loop fuel cond body (j0, mS, 0) = res) (hf : n ≤ fuel)
    (hfI : n = 0 ∨ (ncN - 1) / 64 ≤ fuelI)
    (hcond : ∀ st, cond st = decide (st.2.2 < (n : Int)))
    (hbody : ∀ st, body st =
      ((uaInner mM sr sc (ncN : Int) fuelI st.2.2 st.2.1).2,
        uaStep mM hb sr sc (ncN : Int) fuelI st.2.2 st.2.1, st.2.2 + 1)) :
    res.2.1 = uasMem mS mM hb sr sc ncN n := by
  have key := for_loop_eq hres n
    (fun k st => st.2.2 = (k : Int) ∧ st.2.1 = uasMem mS mM hb sr sc ncN k) hf
    ⟨rfl, (uasMem_zero _ _ _ _ _ _).symm⟩ ?_ ?_
  · exact key.2
  · intro k st hk hP
    rw [hcond, hP.1]
    congr 1
    apply propext
    omega
  · intro k st hk hP
    obtain ⟨jj, L, ii⟩ := st
    obtain ⟨k1, k2⟩ := hP
    dsimp only at k1 k2
    subst k1 k2
    rw [hbody]
    dsimp only
    refine ⟨by omega, ?_⟩
    rw [uaStep_eq _ _ _ _ _ _ _ _ (by omega)]
    exact uasMem_succ _ _ _ _ _ _ _

theorem uasMem_subUnaligned (S M : Mzd) (sr sc n ncN : Nat) (hS : S.WF) (hn : n ≤ S.nrows)
    (hfull : n = 0 ∨ (ncN - 1) / 64 < S.width) :
    uasMem (memOf S) (memOf M) S.hb sr sc ncN n = memOf (subUnaligned S M sr sc n ncN) := by
  unfold subUnaligned
  apply eq_memOf_mapIdx
  · intro i j hi
    rw [hS.1] at hi
    simp only [uasMem, uaRow, ↓reduceIte]
    by_cases hin : i < n
    · rw [if_pos (by omega), if_pos hin, w_mapIdx_wf _ _ j S.width (hS.2 i hi)]
      · by_cases hj : j < (ncN - 1) / 64
        · rw [if_pos (by omega), if_pos hj]
          exact readBits_nat M (sr + i) (sc + 64 * j) 64 _ _ _ (by omega) (by omega) rfl
        · by_cases hj2 : j = (ncN - 1) / 64
          · rw [if_neg (by omega), if_pos (by omega), if_neg hj, if_pos hj2, memOf_nat,
              readBits_nat M (sr + i) (sc + 64 * j) (ncN - 64 * j) _ _ _ (by omega) (by omega) (by omega)]
          · rw [if_neg (by omega), if_neg (by omega), if_neg hj, if_neg hj2, memOf_nat]
      · intro hj; rw [if_neg (by omega), if_neg (by omega)]
    · rw [if_neg (by omega), if_neg hin, memOf_nat]
  · intro r z h
    rw [hS.1] at h
    simp only [uasMem, uaRow, ↓reduceIte]
    by_cases hr : 0 ≤ r ∧ r < (n : Int)
    · rw [if_pos hr, if_neg (by omega), if_neg (by omega)]
    · rw [if_neg hr]

/-! #### the masked-last-word loop of the aligned path -/

/-- memory `m0` with word `zd` of the rows `0 .. k-1` merged under `mask` with word `zs` of rows `sr ..` of `mM` -/
def tlMem (m0 mM : Mem) (mask : BitVec 64) (sr zd zs : Int) (k : Nat) : Mem :=
  fun r z => if 0 ≤ r ∧ r < (k : Int) ∧ z = zd then (m0 r zd &&& ~~~mask) ||| (mM (sr + r) zs &&& mask)
    else m0 r z

theorem tlMem_zero (m0 mM : Mem) (mask : BitVec 64) (sr zd zs : Int) : tlMem m0 mM mask sr zd zs 0 = m0 := by
  funext r z
  unfold tlMem
  rw [if_neg (by omega)]

theorem tlMem_succ (m0 mM : Mem) (mask : BitVec 64) (sr zd zs : Int) (k : Nat) :
    CLoop.upd2 (tlMem m0 mM mask sr zd zs k) (k : Int) zd
        ((tlMem m0 mM mask sr zd zs k (k : Int) zd &&& ~~~mask) ||| (mM (sr + (k : Int)) zs &&& mask))
      = tlMem m0 mM mask sr zd zs (k + 1) := by
  funext r z
  simp only [upd2_apply, tlMem]
  by_cases hr : r = (k : Int) ∧ z = zd
  · obtain ⟨h1, h2⟩ := hr
    subst h1 h2
    rw [if_pos ⟨rfl, rfl⟩, if_neg (by omega), if_pos (by omega)]
  · rw [if_neg hr]
    by_cases h2 : 0 ≤ r ∧ r < (k : Int) ∧ z = zd
    · rw [if_pos h2, if_pos (by omega)]
    · rw [if_neg h2, if_neg (by omega)]

/-- the loop `for (x = startrow, i = 0; i < nrows; ++i, ++x) S[i][zd] = (S[i][zd] & ~mask) | (M[x][zs] & mask)`;
    `zd`, `zs` stand for whatever spelling of `ncols / 64`, `startword + ncols / 64` the translation produces -/
theorem tail_loop (m0 mM : Mem) (mask : BitVec 64) (sr zd zs : Int) (n : Nat)
    {cond : Mem × Int × Int → Bool} {body : Mem × Int × Int → Mem × Int × Int} {fuel : Nat}
    {res : Mem × Int × Int}
    (hres : CLoop.loop fuel cond body (m0, 0, sr) = res) (hf : n ≤ fuel)
    (hcond : ∀ st, cond st = decide (st.2.1 < (n : Int)))
    (hbody : ∀ st, body st =
      (CLoop.upd2 st.1 st.2.1 zd ((st.1 st.2.1 zd &&& ~~~mask) ||| (mM st.2.2 zs &&& mask)),
        st.2.1 + 1, st.2.2 + 1)) :
    res.1 = tlMem m0 mM mask sr zd zs n := by
  have key := for_loop_eq hres n
    (fun k st => st.2.1 = (k : Int) ∧ st.2.2 = sr + (k : Int) ∧ st.1 = tlMem m0 mM mask sr zd zs k) hf
    ⟨rfl, by simp, (tlMem_zero _ _ _ _ _ _).symm⟩ ?_ ?_
  · exact key.2.2
  · intro k st hk hP
    rw [hcond, hP.1]
    congr 1
    apply propext
    omega
  · intro k st hk hP
    obtain ⟨L, ii, xx⟩ := st
    obtain ⟨k1, k2, k3⟩ := hP
    dsimp only at k1 k2 k3
    subst k1 k2 k3
    rw [hbody]
    dsimp only
    refine ⟨by omega, by omega, ?_⟩
    exact tlMem_succ _ _ _ _ _ _ _

/-- word `j` of row `i` of `subAligned` -/
theorem memOf_subAligned_nat (S M : Mzd) (sr sw n q tail i j : Nat) (hS : S.WF) (hi : i < S.nrows)
    (hq : i < n → q ≤ S.width ∧ (tail ≠ 0 → q < S.width)) :
    memOf (subAligned S M sr sw n q tail) (i : Int) (j : Int) =
      if i < n then
        (if j < q then (M.row (sr + i)).w (sw + j)
         else if j = q ∧ tail ≠ 0 then
           ((S.row i).w j &&& ~~~leftMask tail) ||| ((M.row (sr + i)).w (sw + j) &&& leftMask tail)
         else (S.row i).w j)
      else (S.row i).w j := by
  unfold subAligned
  rw [memOf_nat, Mzd.row_withRows_mapIdx_D _ _ _ (by rw [hS.1]; exact hi)]
  by_cases hin : i < n
  · rw [if_pos hin, if_pos hin, w_mapIdx_wf _ _ j S.width (hS.2 i hi)]
    intro hj
    obtain ⟨h1, h2⟩ := hq hin
    rw [if_neg (by omega), if_neg]
    intro h
    have := h2 h.2
    omega
  · rw [if_neg hin, if_neg hin]

/-- the masked-last-word loop applied to the result of the `memcpy` loop gives the complete aligned path -/
theorem tlMem_subAligned (S M : Mzd) (sr sw n q tail : Nat) (zd zs : Int) (hS : S.WF) (hn : n ≤ S.nrows)
    (hq : n = 0 ∨ q < S.width) (ht : tail ≠ 0) (hzd : zd = (q : Int)) (hzs : zs = ((sw + q : Nat) : Int)) :
    tlMem (memOf (subAligned S M sr sw n q 0)) (memOf M) (leftMask tail) sr zd zs n =
      memOf (subAligned S M sr sw n q tail) := by
  subst hzd hzs
  funext r z
  by_cases h : r < 0 ∨ z < 0 ∨ (S.nrows : Int) ≤ r
  · simp only [tlMem]
    rw [if_neg (by omega)]
    unfold subAligned memOf
    by_cases h' : r < 0 ∨ z < 0
    · rw [if_pos h', if_pos h']
    · rw [if_neg h', if_neg h', Mzd.row_of_ge _ _ (by simp; rw [hS.1]; omega),
        Mzd.row_of_ge _ _ (by simp; rw [hS.1]; omega)]
  · have hr : r = ((r.toNat : Nat) : Int) := by omega
    have hz : z = ((z.toNat : Nat) : Int) := by omega
    generalize r.toNat = i at hr
    generalize z.toNat = j at hz
    subst hr hz
    have hi : i < S.nrows := by omega
    simp only [tlMem]
    rw [memOf_subAligned_nat S M sr sw n q tail i j hS hi (by intro hin; omega),
      memOf_subAligned_nat S M sr sw n q 0 i j hS hi (by intro hin; omega),
      memOf_subAligned_nat S M sr sw n q 0 i q hS hi (by intro hin; omega), ← Int.natCast_add, memOf_nat]
    by_cases hin : i < n
    · by_cases hj : j = q
      · subst hj
        rw [if_pos (by omega), if_pos hin, if_neg (by omega), if_neg (by simp), if_pos hin,
          if_neg (by omega), if_pos ⟨rfl, ht⟩]
      · rw [if_neg (by omega), if_pos hin, if_pos hin]
        by_cases hj2 : j < q
        · rw [if_pos hj2, if_pos hj2]
        · rw [if_neg hj2, if_neg hj2, if_neg (by simp), if_neg (by omega)]
    · rw [if_neg (by omega), if_neg hin, if_neg hin]

/-! #### the ties -/

/-- `mzd_submatrix`, aligned path: the whole C domain (`S` at least as large as the sub-matrix) -/
theorem mzdSubmatrix_aligned_eq (S M : Mzd) (sr sc er ec : Nat) (hS : S.WF)
    (hr : sr ≤ er) (hc : sc ≤ ec) (ha : sc % 64 = 0) (hn : er - sr ≤ S.nrows)
    (hw : er = sr ∨ widthOf (ec - sc) ≤ S.width) (hb : (ec - sc) / 64 < 2 ^ 64) :
    Gen.C.mzdSubmatrix sr sc er ec (memOf S) (memOf M) S.hb = memOf (S.submatrixInto M sr sc er ec) := by
  have e1 : (er : Int) - (sr : Int) = ((er - sr : Nat) : Int) := by omega
  have e2 : (ec : Int) - (sc : Int) = ((ec - sc : Nat) : Int) := by omega
  have hw' : er = sr ∨ (ec - sc + 63) / 64 ≤ S.width := hw
  unfold Gen.C.mzdSubmatrix
  dsimp (config := {etaStruct := .none}) only
  rw [e1, e2, leftmask_gen, tmod_nat, tmod_nat, tdiv_nat, tdiv_nat, ofInt_toNat_small _ hb]
  rw [if_pos (by simp [ha]), submatrixInto_aligned S M sr sc er ec ha]
  -- the `memcpy` part
  have h1 : (if decide ((((ec - sc) / 64 : Nat) : Int) ≠ 0) = true then
        match (motive := (Int → Int → BitVec 64) × Int × Int → Int → Int → BitVec 64)
          CLoop.loop (((er - sr : Nat) : Int)).toNat
            (fun st => match st with | (v_mem_S, v_i, v_x) => decide (v_i < ((er - sr : Nat) : Int)))
            (fun st => match st with
              | (v_mem_S, v_i, v_x) =>
                (CLoop.copyWords v_mem_S v_i 0 (fun j => memOf M v_x (0 + ((sc / 64 : Nat) : Int) + j))
                  (((ec - sc) / 64 : Nat) : Int), v_i + 1, v_x + 1))
            (memOf S, 0, (sr : Int)) with
        | (v_mem_S, v_i, v_x) => v_mem_S
      else memOf S) = memOf (subAligned S M sr (sc / 64) (er - sr) ((ec - sc) / 64) 0) := by
    rw [← cwMem_subAligned S M sr (sc / 64) (er - sr) ((ec - sc) / 64) hS hn (by omega)]
    by_cases hq0 : (ec - sc) / 64 = 0
    · rw [if_neg (by simp [hq0]), hq0]
      funext r z
      unfold cwMem
      rw [if_neg (by omega)]
    · have hq1 : (((ec - sc) / 64 : Nat) : Int) ≠ 0 := by omega
      rw [if_pos (decide_eq_true hq1)]
      generalize hres : CLoop.loop _ _ _ _ = res
      have key := memcpy_loop (memOf S) (memOf M) sr ((sc / 64 : Nat) : Int) (((ec - sc) / 64 : Nat) : Int)
        (er - sr) hres (by simp) (fun _ => rfl) (fun _ => rfl)
      obtain ⟨L, i, x⟩ := res
      exact key
  rw [h1]
  by_cases ht : (ec - sc) % 64 = 0
  · rw [if_neg (by simp [ht]), ht]
  · have ht1 : (((ec - sc) % 64 : Nat) : Int) ≠ 0 := by omega
    rw [if_pos (decide_eq_true ht1)]
    generalize hres : CLoop.loop _ _ _ _ = res
    have key := tail_loop _ (memOf M) (leftMask ((ec - sc) % 64)) sr _ _ (er - sr) hres (by simp)
      (fun _ => rfl) (fun _ => rfl)
    obtain ⟨L, i, x⟩ := res
    dsimp only at key ⊢
    rw [key]
    exact tlMem_subAligned S M sr (sc / 64) (er - sr) ((ec - sc) / 64) ((ec - sc) % 64) _ _ hS hn
      (by omega) ht (by omega) (by omega)

/-- `mzd_submatrix`, unaligned path -/
theorem mzdSubmatrix_unaligned_eq (S M : Mzd) (sr sc er ec : Nat) (hS : S.WF)
    (hr : sr ≤ er) (hc : sc ≤ ec) (ha : sc % 64 ≠ 0) (hn : er - sr ≤ S.nrows)
    (hfull : er = sr ∨ (ec - sc - 1) / 64 < S.width) :
    Gen.C.mzdSubmatrix sr sc er ec (memOf S) (memOf M) S.hb = memOf (S.submatrixInto M sr sc er ec) := by
  have e1 : (er : Int) - (sr : Int) = ((er - sr : Nat) : Int) := by omega
  have e2 : (ec : Int) - (sc : Int) = ((ec - sc : Nat) : Int) := by omega
  unfold Gen.C.mzdSubmatrix
  dsimp (config := {etaStruct := .none}) only
  rw [e1, e2, tmod_nat]
  have hna : ¬ (((sc % 64 : Nat) : Int) = 0) := by omega
  rw [if_neg (by simpa using hna), submatrixInto_unaligned S M sr sc er ec ha,
    ← uasMem_subUnaligned S M sr sc (er - sr) (ec - sc) hS hn (by omega)]
  generalize hres : CLoop.loop _ _ _ _ = res
  have key := unaligned_loop (memOf S) (memOf M) S.hb sr sc (ec - sc) (er - sr)
    (((ec - sc : Nat) : Int)).toNat 0 hres (by simp) (by simp; omega) (fun _ => rfl) (fun _ => rfl)
  obtain ⟨j, L, i⟩ := res
  exact key

/-- `mzd_submatrix` = model on the C contract of `mzd_submatrix` (destination at least as large as the
    sub-matrix), except for the empty column range into a destination without columns at an unaligned start -/
theorem mzdSubmatrix_eq (S M : Mzd) (sr sc er ec : Nat) (hS : S.WF)
    (hr : sr ≤ er) (hc : sc ≤ ec) (hn : er - sr ≤ S.nrows) (hcs : ec - sc ≤ S.ncols)
    (h0 : sc % 64 = 0 ∨ er = sr ∨ 1 ≤ S.ncols) (hb : (ec - sc) / 64 < 2 ^ 64) :
    Gen.C.mzdSubmatrix sr sc er ec (memOf S) (memOf M) S.hb = memOf (S.submatrixInto M sr sc er ec) := by
  have hw : widthOf (ec - sc) ≤ S.width := Mzd.width_mono hcs
  by_cases ha : sc % 64 = 0
  · exact mzdSubmatrix_aligned_eq S M sr sc er ec hS hr hc ha hn (Or.inr hw) hb
  · refine mzdSubmatrix_unaligned_eq S M sr sc er ec hS hr hc ha hn ?_
    have hw2 : (ec - sc + 63) / 64 ≤ S.width := hw
    have hw3 : S.width = (S.ncols + 63) / 64 := rfl
    omega

/-! ### axioms -/
#print axioms mzdCopy_same
#print axioms mzdCopy_eq
#print axioms mzdStack_eq
#print axioms mzdConcat_eq
#print axioms mzdSubmatrix_aligned_eq
#print axioms mzdSubmatrix_unaligned_eq
#print axioms mzdSubmatrix_eq

end M4ri.GenTieMove
