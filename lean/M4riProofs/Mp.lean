/-
  C16 (OpenMP build), mp.c: the four `sections` of `_mzd_mul_mp4` / `_mzd_addmul_mp4` and the remainder strips.

  (a) Protocol.  Every section is a WINDOW OPERATION `D ↦ D.paste r0 c0 (F (D.sub r0 c0 r1 c1))`: it reads
      only its own block of the destination (plus read-only `A`, `B`) and writes only that block.  Window
      operations on disjoint blocks commute (`windowOp_comm`), the four blocks are pairwise disjoint, hence the
      state after the parallel region is the same for every order of the sections (`mp4_schedule_free`,
      `mp4_schedule_free_perm`), and equals the four quadrant results computed from the ORIGINAL `C`
      (`runSections_eq_paste4`): no section sees the effect of another one.
  (b) Values (using C01: `Props.C01.mul_even`, `addmul_even`, `m4rm_base_mul`, `m4rm_base_addmul`, and the block
      lemmas of StrassenBlocks): for all well-formed operands of matching dimensions, ANY prior content of `C`,
      every cut-off, every fuel, every schedule that is a permutation of the four sections
        `mulMp4 …    = A.mul B`              (`mulMp4_eq_mul`)
        `addmulMp4 … = C.add (A.mul B)`      (`addmulMp4_eq_add_mul`)
      and the same for the wrappers `mzd_mul_mp` / `mzd_addmul_mp` with `C == NULL` or a supplied `C`.
      (History: before the repairs of mp.c the last-columns / last-rows strips of `_mzd_mul_mp4` were accumulated
      into with `mzd_addmul_m4rm`, and `closer` let dimensions 86…127 through with empty halves; see
      `mulMp4_regression`, `half_pos_of_not_closer`.)
-/
import M4ri.Mp
import M4riProofs.Props.C01
import M4riProofs.Sched
namespace M4ri
namespace BMat
namespace Mp

/-! ### (a) window operations on disjoint blocks commute -/

/-- read the block `(r0, c0, r1, c1)` of `D`, transform it, write it back -/
def windowOp (D : BMat) (r0 c0 r1 c1 : Nat) (F : BMat → BMat) : BMat :=
  D.paste r0 c0 (F (D.sub r0 c0 r1 c1))

/-- `F` maps blocks of shape `r × c` to blocks of the same shape -/
def Keeps (F : BMat → BMat) (r c : Nat) : Prop := ∀ W, Shaped W r c → Shaped (F W) r c

theorem windowOp_shaped {D : BMat} {m n : Nat} (hD : Shaped D m n) (r0 c0 r1 c1 : Nat) {F : BMat → BMat}
    (hF : Keeps F (r1 - r0) (c1 - c0)) (hr : r1 ≤ m) (hcc : c0 ≤ c1) (hc : c1 ≤ n) :
    Shaped (windowOp D r0 c0 r1 c1 F) m n := by
  have hX := hF _ (hD.sub r0 c0 r1 c1 hr)
  exact hD.paste _ r0 c0 (by rw [hX.nc]; omega)

/-- a window operation does not change what is read through a disjoint window -/
theorem sub_windowOp_disjoint {D : BMat} {m n : Nat} (hD : Shaped D m n) (r0 c0 r1 c1 : Nat) {F : BMat → BMat}
    (hF : Keeps F (r1 - r0) (c1 - c0)) (hr : r1 ≤ m) (hcc : c0 ≤ c1) (hc : c1 ≤ n)
    (s0 d0 s1 d1 : Nat) (hs : s1 ≤ m) (hdis : s1 ≤ r0 ∨ r1 ≤ s0 ∨ d1 ≤ c0 ∨ c1 ≤ d0) :
    (windowOp D r0 c0 r1 c1 F).sub s0 d0 s1 d1 = D.sub s0 d0 s1 d1 :=
  hD.sub_paste_disjoint r0 c0 r1 c1 (hF _ (hD.sub r0 c0 r1 c1 hr)) hr hcc hc s0 d0 s1 d1 hs hdis

/-- (a) two window operations on disjoint blocks commute -/
theorem windowOp_comm {D : BMat} {m n : Nat} (hD : Shaped D m n)
    (r0 c0 r1 c1 : Nat) {F : BMat → BMat} (hF : Keeps F (r1 - r0) (c1 - c0))
    (hr : r1 ≤ m) (hcc : c0 ≤ c1) (hc : c1 ≤ n)
    (s0 d0 s1 d1 : Nat) {G : BMat → BMat} (hG : Keeps G (s1 - s0) (d1 - d0))
    (hs : s1 ≤ m) (hdd : d0 ≤ d1) (hd : d1 ≤ n)
    (hdis : s1 ≤ r0 ∨ r1 ≤ s0 ∨ d1 ≤ c0 ∨ c1 ≤ d0) :
    windowOp (windowOp D r0 c0 r1 c1 F) s0 d0 s1 d1 G = windowOp (windowOp D s0 d0 s1 d1 G) r0 c0 r1 c1 F := by
  have hdis' : r1 ≤ s0 ∨ s1 ≤ r0 ∨ c1 ≤ d0 ∨ d1 ≤ c0 := by omega
  have e1 := sub_windowOp_disjoint hD r0 c0 r1 c1 hF hr hcc hc s0 d0 s1 d1 hs hdis
  have e2 := sub_windowOp_disjoint hD s0 d0 s1 d1 hG hs hdd hd r0 c0 r1 c1 hr hdis'
  show (windowOp D r0 c0 r1 c1 F).paste s0 d0 (G ((windowOp D r0 c0 r1 c1 F).sub s0 d0 s1 d1)) =
    (windowOp D s0 d0 s1 d1 G).paste r0 c0 (F ((windowOp D s0 d0 s1 d1 G).sub r0 c0 r1 c1))
  rw [e1, e2]
  exact hD.paste_paste_comm r0 c0 r1 c1 (hF _ (hD.sub r0 c0 r1 c1 hr)) hr hcc hc
    s0 d0 s1 d1 (hG _ (hD.sub s0 d0 s1 d1 hs)) hs hdd hd hdis

/-- folding commuting, invariant-preserving steps over a permuted list -/
theorem foldl_perm_inv {σ β : Type} (f : σ → β → σ) (P : σ → Prop) (hP : ∀ z x, P z → P (f z x))
    (comm : ∀ x y z, P z → f (f z x) y = f (f z y) x) {l l' : List β} (p : l.Perm l') :
    ∀ z, P z → l.foldl f z = l'.foldl f z := by
  induction p with
  | nil => intro z _; rfl
  | cons x _ ih => intro z hz; exact ih (f z x) (hP z x hz)
  | swap x y l => intro z hz; simp only [List.foldl_cons]; rw [comm y x z hz]
  | trans _ _ ih1 ih2 => intro z hz; rw [ih1 z hz, ih2 z hz]

/-! ### the sections as window operations -/

/-- what a section does to its block: `Cq (+)= A[r0..r1, 0..anc]·B[0..anc, c0..c1]`, then
    `Cq += A[r0..r1, anc..2anc]·B[anc..2anc, c0..c1]` -/
def quadF (x : Ctx) (r0 r1 c0 c1 : Nat) (Cq : BMat) : BMat :=
  addmulEven x.fuel (first x Cq (x.A.sub r0 0 r1 x.anc) (x.B.sub 0 c0 x.anc c1))
    (x.A.sub r0 x.anc r1 (2 * x.anc)) (x.B.sub x.anc c0 (2 * x.anc) c1) x.cutoff

/-- block coordinates `(r0, c0, r1, c1)` of section `k` -/
def blockOf (x : Ctx) (k : Fin 4) : Nat × Nat × Nat × Nat :=
  match k with
  | 0 => (0, 0, x.anr, x.bnc)
  | 1 => (0, x.bnc, x.anr, 2 * x.bnc)
  | 2 => (x.anr, 0, 2 * x.anr, x.bnc)
  | 3 => (x.anr, x.bnc, 2 * x.anr, 2 * x.bnc)

theorem section0_eq (x : Ctx) (s : State) :
    section0 x s = ⟨windowOp s.C 0 0 x.anr x.bnc (quadF x 0 x.anr 0 x.bnc)⟩ := rfl
theorem section1_eq (x : Ctx) (s : State) :
    section1 x s = ⟨windowOp s.C 0 x.bnc x.anr (2 * x.bnc) (quadF x 0 x.anr x.bnc (2 * x.bnc))⟩ := rfl
theorem section2_eq (x : Ctx) (s : State) :
    section2 x s = ⟨windowOp s.C x.anr 0 (2 * x.anr) x.bnc (quadF x x.anr (2 * x.anr) 0 x.bnc)⟩ := rfl
theorem section3_eq (x : Ctx) (s : State) :
    section3 x s = ⟨windowOp s.C x.anr x.bnc (2 * x.anr) (2 * x.bnc)
      (quadF x x.anr (2 * x.anr) x.bnc (2 * x.bnc))⟩ := rfl

/-- every section is the window operation on its block -/
theorem sectionOf_eq (x : Ctx) (k : Fin 4) (s : State) :
    sectionOf x k s = ⟨windowOp s.C (blockOf x k).1 (blockOf x k).2.1 (blockOf x k).2.2.1 (blockOf x k).2.2.2
      (quadF x (blockOf x k).1 (blockOf x k).2.2.1 (blockOf x k).2.1 (blockOf x k).2.2.2)⟩ := by
  match k with
  | 0 => rfl
  | 1 => rfl
  | 2 => rfl
  | 3 => rfl

/-- the four blocks lie inside `C` … -/
theorem blockOf_bounds (x : Ctx) {m n : Nat} (hm : 2 * x.anr ≤ m) (hn : 2 * x.bnc ≤ n) (k : Fin 4) :
    (blockOf x k).2.2.1 ≤ m ∧ (blockOf x k).2.1 ≤ (blockOf x k).2.2.2 ∧ (blockOf x k).2.2.2 ≤ n := by
  match k with
  | 0 => simp only [blockOf]; omega
  | 1 => simp only [blockOf]; omega
  | 2 => simp only [blockOf]; omega
  | 3 => simp only [blockOf]; omega

/-- … and are pairwise disjoint -/
theorem blockOf_disjoint (x : Ctx) (k l : Fin 4) (h : k ≠ l) :
    (blockOf x l).2.2.1 ≤ (blockOf x k).1 ∨ (blockOf x k).2.2.1 ≤ (blockOf x l).1 ∨
    (blockOf x l).2.2.2 ≤ (blockOf x k).2.1 ∨ (blockOf x k).2.2.2 ≤ (blockOf x l).2.1 := by
  match k, l with
  | 0, 0 | 1, 1 | 2, 2 | 3, 3 => exact absurd rfl h
  | 0, 1 | 0, 2 | 0, 3 | 1, 0 | 1, 2 | 1, 3 | 2, 0 | 2, 1 | 2, 3 | 3, 0 | 3, 1 | 3, 2 =>
    simp only [blockOf]; omega

/-! ### what a section computes (C01 enters here) -/

theorem mulEven_S {fuel cutoff r k c : Nat} {X Y Z : BMat} (hX : Shaped X r c) (hY : Shaped Y r k)
    (hZ : Shaped Z k c) : mulEven fuel X Y Z cutoff = Y.mul Z :=
  Props.C01.mul_even fuel cutoff X Y Z hY.wf hZ.wf hX.wf (by rw [hY.nc, hZ.nr]) (by rw [hX.nr, hY.nr])
    (by rw [hX.nc, hZ.nc])

theorem addmulEven_S {fuel cutoff r k c : Nat} {X Y Z : BMat} (hX : Shaped X r c) (hY : Shaped Y r k)
    (hZ : Shaped Z k c) : addmulEven fuel X Y Z cutoff = X.add (Y.mul Z) :=
  Props.C01.addmul_even fuel cutoff X Y Z hY.wf hZ.wf hX.wf (by rw [hY.nc, hZ.nr]) (by rw [hX.nr, hY.nr])
    (by rw [hX.nc, hZ.nc])

/-- the read-only context is consistent with operands of shape `m × k`, `k × n` -/
structure CtxOK (x : Ctx) (m k n : Nat) : Prop where
  hA : Shaped x.A m k
  hB : Shaped x.B k n
  hm : 2 * x.anr ≤ m
  hk : 2 * x.anc ≤ k
  hn : 2 * x.bnc ≤ n

/-- the block a section leaves behind, as a function of the block it found -/
theorem quadF_eq {x : Ctx} {m k n : Nat} (h : CtxOK x m k n) (r0 r1 c0 c1 : Nat) (hr : r1 ≤ m)
    {Cq : BMat} (hCq : Shaped Cq (r1 - r0) (c1 - c0)) :
    quadF x r0 r1 c0 c1 Cq =
      if x.acc then addM Cq (blockProd x.A x.B r0 r1 c0 c1 x.anc) else blockProd x.A x.B r0 r1 c0 c1 x.anc := by
  have hk := h.hk
  have hA0 : Shaped (x.A.sub r0 0 r1 x.anc) (r1 - r0) x.anc := (h.hA.sub r0 0 r1 x.anc hr).cast rfl (by omega)
  have hB0 : Shaped (x.B.sub 0 c0 x.anc c1) x.anc (c1 - c0) :=
    (h.hB.sub 0 c0 x.anc c1 (by omega)).cast (by omega) rfl
  have hA1 : Shaped (x.A.sub r0 x.anc r1 (2 * x.anc)) (r1 - r0) x.anc :=
    (h.hA.sub r0 x.anc r1 (2 * x.anc) hr).cast rfl (by omega)
  have hB1 : Shaped (x.B.sub x.anc c0 (2 * x.anc) c1) x.anc (c1 - c0) :=
    (h.hB.sub x.anc c0 (2 * x.anc) c1 hk).cast (by omega) rfl
  have hP0 := hA0.mul hB0
  have hP1 := hA1.mul hB1
  unfold quadF first blockProd
  cases x.acc with
  | false =>
    simp only [Bool.false_eq_true, if_false]
    rw [mulEven_S hCq hA0 hB0, addmulEven_S hP0 hA1 hB1]
    exact (hP0.addM_eq_add hP1).symm
  | true =>
    simp only [if_true]
    rw [addmulEven_S hCq hA0 hB0, addmulEven_S (hCq.add hP0) hA1 hB1]
    apply ((hCq.add hP0).add hP1).ext (hCq.addM (hP0.addM hP1))
    intro i j _ _
    rw [(hCq.add hP0).get_add hP1, hCq.get_add hP0, hCq.get_addM (hP0.addM hP1), hP0.get_addM hP1,
      Bool.xor_assoc]

/-- a section keeps the shape of its block (so it is a legitimate window operation) -/
theorem quadF_keeps {x : Ctx} {m k n : Nat} (h : CtxOK x m k n) (r0 r1 c0 c1 : Nat) (hr : r1 ≤ m) :
    Keeps (quadF x r0 r1 c0 c1) (r1 - r0) (c1 - c0) := by
  intro W hW
  rw [quadF_eq h r0 r1 c0 c1 hr hW]
  have hbp := h.hA.blockProd h.hB r0 r1 c0 c1 x.anc hr h.hk
  cases x.acc with
  | false => exact hbp
  | true => exact hW.addM hbp

/-! ### (a) schedule-freeness of the parallel region -/

theorem sectionOf_shaped {x : Ctx} {m k n : Nat} (h : CtxOK x m k n) (k' : Fin 4) {s : State}
    (hs : Shaped s.C m n) : Shaped (sectionOf x k' s).C m n := by
  rw [sectionOf_eq]
  obtain ⟨b1, b2, b3⟩ := blockOf_bounds x h.hm h.hn k'
  exact windowOp_shaped hs _ _ _ _ (quadF_keeps h _ _ _ _ b1) b1 b2 b3

/-- (a) any two sections commute on a well-formed destination -/
theorem sectionOf_comm {x : Ctx} {m k n : Nat} (h : CtxOK x m k n) (a b : Fin 4) {s : State}
    (hs : Shaped s.C m n) : sectionOf x b (sectionOf x a s) = sectionOf x a (sectionOf x b s) := by
  by_cases e : a = b
  · subst e; rfl
  · rw [sectionOf_eq x b, sectionOf_eq x a s, sectionOf_eq x a, sectionOf_eq x b s]
    obtain ⟨a1, a2, a3⟩ := blockOf_bounds x h.hm h.hn a
    obtain ⟨b1, b2, b3⟩ := blockOf_bounds x h.hm h.hn b
    congr 1
    exact windowOp_comm hs _ _ _ _ (quadF_keeps h _ _ _ _ a1) a1 a2 a3 _ _ _ _ (quadF_keeps h _ _ _ _ b1) b1 b2 b3
      (blockOf_disjoint x a b e)

/-- (a) C16, `mp4_schedule_free`, general form: two schedules that are permutations of each other leave
    the same state -/
theorem mp4_schedule_free_perm {x : Ctx} {m k n : Nat} (h : CtxOK x m k n) {sched sched' : List (Fin 4)}
    (p : sched.Perm sched') {s : State} (hs : Shaped s.C m n) :
    runSections x sched s = runSections x sched' s := by
  unfold runSections
  exact foldl_perm_inv (fun s k => sectionOf x k s) (fun s => Shaped s.C m n)
    (fun z a hz => sectionOf_shaped h a hz) (fun a b z hz => sectionOf_comm h a b hz) p s hs

/-- (a) C16: for every permutation `sched` of the four sections the parallel region leaves the same state as
    the sequential order 0, 1, 2, 3 -/
theorem mp4_schedule_free {x : Ctx} {m k n : Nat} (h : CtxOK x m k n) (sched : List (Fin 4))
    (p : sched.Perm [0, 1, 2, 3]) {s : State} (hs : Shaped s.C m n) :
    runSections x sched s = runSections x [0, 1, 2, 3] s :=
  mp4_schedule_free_perm h p hs

/-- the state after the parallel region, for the sequential order: the four quadrant results, each computed
    from the ORIGINAL content of its own block -/
theorem runSections_seq {x : Ctx} {m k n : Nat} (h : CtxOK x m k n) {C : BMat} (hC : Shaped C m n) :
    (runSections x [0, 1, 2, 3] ⟨C⟩).C =
      paste4 C (quadF x 0 x.anr 0 x.bnc (C.sub 0 0 x.anr x.bnc))
        (quadF x 0 x.anr x.bnc (2 * x.bnc) (C.sub 0 x.bnc x.anr (2 * x.bnc)))
        (quadF x x.anr (2 * x.anr) 0 x.bnc (C.sub x.anr 0 (2 * x.anr) x.bnc))
        (quadF x x.anr (2 * x.anr) x.bnc (2 * x.bnc) (C.sub x.anr x.bnc (2 * x.anr) (2 * x.bnc))) x.anr x.bnc := by
  have hm := h.hm
  have hn := h.hn
  have k0 := quadF_keeps h 0 x.anr 0 x.bnc (by omega)
  have k1 := quadF_keeps h 0 x.anr x.bnc (2 * x.bnc) (by omega)
  have k2 := quadF_keeps h x.anr (2 * x.anr) 0 x.bnc (by omega)
  have s1 := windowOp_shaped hC 0 0 x.anr x.bnc k0 (by omega) (by omega) (by omega)
  have s2 := windowOp_shaped s1 0 x.bnc x.anr (2 * x.bnc) k1 (by omega) (by omega) (by omega)
  have s3 := windowOp_shaped s2 x.anr 0 (2 * x.anr) x.bnc k2 (by omega) (by omega) (by omega)
  -- section 1 reads its block of the original `C`
  have r1 : (windowOp C 0 0 x.anr x.bnc (quadF x 0 x.anr 0 x.bnc)).sub 0 x.bnc x.anr (2 * x.bnc) =
      C.sub 0 x.bnc x.anr (2 * x.bnc) :=
    sub_windowOp_disjoint hC 0 0 x.anr x.bnc k0 (by omega) (by omega) (by omega) _ _ _ _ (by omega) (by omega)
  -- section 2 too
  have r2 : (windowOp (windowOp C 0 0 x.anr x.bnc (quadF x 0 x.anr 0 x.bnc)) 0 x.bnc x.anr (2 * x.bnc)
      (quadF x 0 x.anr x.bnc (2 * x.bnc))).sub x.anr 0 (2 * x.anr) x.bnc = C.sub x.anr 0 (2 * x.anr) x.bnc := by
    rw [sub_windowOp_disjoint s1 0 x.bnc x.anr (2 * x.bnc) k1 (by omega) (by omega) (by omega) _ _ _ _ (by omega)
      (by omega)]
    exact sub_windowOp_disjoint hC 0 0 x.anr x.bnc k0 (by omega) (by omega) (by omega) _ _ _ _ (by omega) (by omega)
  -- section 3 too
  have r3 : (windowOp (windowOp (windowOp C 0 0 x.anr x.bnc (quadF x 0 x.anr 0 x.bnc)) 0 x.bnc x.anr (2 * x.bnc)
      (quadF x 0 x.anr x.bnc (2 * x.bnc))) x.anr 0 (2 * x.anr) x.bnc (quadF x x.anr (2 * x.anr) 0 x.bnc)).sub
        x.anr x.bnc (2 * x.anr) (2 * x.bnc) = C.sub x.anr x.bnc (2 * x.anr) (2 * x.bnc) := by
    rw [sub_windowOp_disjoint s2 x.anr 0 (2 * x.anr) x.bnc k2 (by omega) (by omega) (by omega) _ _ _ _ (by omega)
      (by omega),
      sub_windowOp_disjoint s1 0 x.bnc x.anr (2 * x.bnc) k1 (by omega) (by omega) (by omega) _ _ _ _ (by omega)
      (by omega)]
    exact sub_windowOp_disjoint hC 0 0 x.anr x.bnc k0 (by omega) (by omega) (by omega) _ _ _ _ (by omega) (by omega)
  show (section3 x (section2 x (section1 x (section0 x ⟨C⟩)))).C = _
  rw [section0_eq, section1_eq, section2_eq, section3_eq]
  show windowOp (windowOp (windowOp (windowOp C _ _ _ _ _) _ _ _ _ _) _ _ _ _ _) _ _ _ _ _ = _
  unfold paste4
  unfold windowOp at r1 r2 r3 ⊢
  rw [r1] at r2 r3
  rw [r2] at r3
  rw [r1, r2, r3]

theorem runSections_shaped {x : Ctx} {m k n : Nat} (h : CtxOK x m k n) (sched : List (Fin 4)) {s : State}
    (hs : Shaped s.C m n) : Shaped (runSections x sched s).C m n := by
  unfold runSections
  induction sched generalizing s with
  | nil => exact hs
  | cons a rest ih => exact ih (sectionOf_shaped h a hs)

/-! ### (b) the remainder strips -/

theorem addmulWindow_nrows (D : BMat) (r0 c0 r1 c1 : Nat) (X Y : BMat) :
    (addmulWindow D r0 c0 r1 c1 X Y).nrows = D.nrows := by
  unfold addmulWindow
  dsimp only
  split <;> rfl

/-- the "deal with rest" code of `_mzd_addmul_mp4` is the accumulating strip sequence of `_mzd_addmul_even` -/
theorem strips_eq_stripsAddmul {C0 A B : BMat} {m k n : Nat} (hC0 : Shaped C0 m n) (hA : Shaped A m k)
    (hB : Shaped B k n) (anr anc bnc : Nat) :
    strips true C0 A B anr anc bnc = stripsAddmul C0 A B (2 * anr) (2 * anc) (2 * bnc) := by
  have e1 : (if B.ncols > 2 * bnc then
      addmulWindow C0 0 (2 * bnc) A.nrows C0.ncols A (B.sub 0 (2 * bnc) A.ncols B.ncols) else C0) =
      addStripR C0 A B (2 * bnc) := by
    unfold addStripR addmulWindow; rw [hC0.nc, hB.nc]
  have n1 : (addStripR C0 A B (2 * bnc)).nrows = A.nrows := by
    rw [← e1]; split
    · rw [addmulWindow_nrows, hC0.nr, hA.nr]
    · rw [hC0.nr, hA.nr]
  unfold strips stripsAddmul stripK addStripB
  simp only [↓reduceIte]
  rw [e1, n1, hB.nr, hA.nc]
  rfl

/-- the "deal with rest" code of the repaired `_mzd_mul_mp4` is the strip sequence of `_mzd_mul_even` -/
theorem strips_eq_stripsMul {C0 A B : BMat} {m k n : Nat} (hC0 : Shaped C0 m n) (hA : Shaped A m k)
    (hB : Shaped B k n) (anr anc bnc : Nat) :
    strips false C0 A B anr anc bnc = stripsMul C0 A B (2 * anr) (2 * anc) (2 * bnc) := by
  have e1 : (if B.ncols > 2 * bnc then
      mulWindow C0 0 (2 * bnc) A.nrows C0.ncols A (B.sub 0 (2 * bnc) A.ncols B.ncols) else C0) =
      mulStripR C0 A B (2 * bnc) := by
    unfold mulStripR mulWindow; rw [hC0.nc, hB.nc]
  have n1 : (mulStripR C0 A B (2 * bnc)).nrows = A.nrows := by
    rw [← e1]; split
    · show C0.nrows = A.nrows; rw [hC0.nr, hA.nr]
    · rw [hC0.nr, hA.nr]
  unfold strips stripsMul stripK mulStripB
  simp only [Bool.false_eq_true, ↓reduceIte]
  rw [e1, n1, hB.nr, hA.nc]
  rfl

theorem ctxOK_half (fuel cutoff : Nat) (acc : Bool) {A B : BMat} {m k n : Nat} (hA : Shaped A m k)
    (hB : Shaped B k n) :
    CtxOK ⟨fuel, A, B, cutoff, half A.nrows, half A.ncols, half B.ncols, acc⟩ m k n :=
  ⟨hA, hB, (two_halfSplit_le _ _).trans (Nat.le_of_eq hA.nr), (two_halfSplit_le _ _).trans (Nat.le_of_eq hA.nc),
    (two_halfSplit_le _ _).trans (Nat.le_of_eq hB.nc)⟩

/-- (b) the body of `_mzd_addmul_mp4` below the base-case test -/
theorem mp4Body_acc {A B C : BMat} {m k n : Nat} (hA : Shaped A m k) (hB : Shaped B k n) (hC : Shaped C m n)
    (sched : List (Fin 4)) (p : sched.Perm [0, 1, 2, 3]) (fuel cutoff : Nat) :
    mp4Body true sched fuel C A B cutoff = C.add (A.mul B) := by
  have hx := ctxOK_half fuel cutoff true hA hB
  have hm := hx.hm
  have hk := hx.hk
  have hn := hx.hn
  have hS := runSections_shaped hx sched (s := ⟨C⟩) hC
  unfold mp4Body
  dsimp only at hm hk hn hS ⊢
  rw [mp4_schedule_free hx sched p (s := ⟨C⟩) hC] at hS ⊢
  rw [runSections_seq hx hC] at hS ⊢
  rw [strips_eq_stripsAddmul hS hA hB]
  rw [quadF_eq hx 0 _ 0 _ (by dsimp only; omega) (hC.sub 0 0 _ _ (by dsimp only; omega)),
    quadF_eq hx 0 _ _ _ (by dsimp only; omega) (hC.sub 0 _ _ _ (by dsimp only; omega)),
    quadF_eq hx _ _ 0 _ (by dsimp only; omega) (hC.sub _ 0 _ _ (by dsimp only; omega)),
    quadF_eq hx _ _ _ _ (by dsimp only; omega) (hC.sub _ _ _ _ (by dsimp only; omega))]
  exact assemble_addmul Props.C01.m4rm_base_addmul hA hB hC hm hk hn

/-- (b) the body of `_mzd_mul_mp4` below the base-case test: every entry of `C` is overwritten -/
theorem mp4Body_mul {A B C : BMat} {m k n : Nat} (hA : Shaped A m k) (hB : Shaped B k n) (hC : Shaped C m n)
    (sched : List (Fin 4)) (p : sched.Perm [0, 1, 2, 3]) (fuel cutoff : Nat) :
    mp4Body false sched fuel C A B cutoff = A.mul B := by
  have hx := ctxOK_half fuel cutoff false hA hB
  have hm := hx.hm
  have hk := hx.hk
  have hn := hx.hn
  have hS := runSections_shaped hx sched (s := ⟨C⟩) hC
  unfold mp4Body
  dsimp only at hm hk hn hS ⊢
  rw [mp4_schedule_free hx sched p (s := ⟨C⟩) hC] at hS ⊢
  rw [runSections_seq hx hC] at hS ⊢
  rw [strips_eq_stripsMul hS hA hB]
  rw [quadF_eq hx 0 _ 0 _ (by dsimp only; omega) (hC.sub 0 0 _ _ (by dsimp only; omega)),
    quadF_eq hx 0 _ _ _ (by dsimp only; omega) (hC.sub 0 _ _ _ (by dsimp only; omega)),
    quadF_eq hx _ _ 0 _ (by dsimp only; omega) (hC.sub _ 0 _ _ (by dsimp only; omega)),
    quadF_eq hx _ _ _ _ (by dsimp only; omega) (hC.sub _ _ _ _ (by dsimp only; omega))]
  simp only [Bool.false_eq_true, if_false]
  exact assemble_mul Props.C01.m4rm_base_mul Props.C01.m4rm_base_addmul hA hB hC hm hk hn

/-! ### (b) `_mzd_addmul_mp4`, `_mzd_mul_mp4` -/

theorem zero_add_S {P : BMat} {m n : Nat} (hP : Shaped P m n) : (zero m n).add P = P := by
  apply ((Shaped.zero m n).add hP).ext hP
  intro i j _ _
  rw [(Shaped.zero m n).get_add hP, get_zero]; simp

/-- `mzd_copy(C, P)` for equal shapes: `C` becomes `P` -/
theorem paste_full {C P : BMat} {m n : Nat} (hC : Shaped C m n) (hP : Shaped P m n) : C.paste 0 0 P = P := by
  apply (hC.paste P 0 0 (by rw [hP.nc]; omega)).ext hP
  intro i j hi hj
  rw [hC.get_paste_window 0 0 m n (hP.cast (by omega) (by omega)) (Nat.le_refl _), if_pos (by omega)]
  rfl

/-- the base case of both functions: `Cbar = 0 + A·B` -/
theorem base_Cbar {A B C : BMat} {m k n : Nat} (hA : Shaped A m k) (hB : Shaped B k n) (hC : Shaped C m n) :
    m4rm (zero C.nrows C.ncols) A B 0 false = A.mul B := by
  rw [hC.nr, hC.nc, Props.C01.m4rm_base_addmul.shaped (Shaped.zero m n) hA hB, zero_add_S (hA.mul hB)]

/-- (b) C16: `_mzd_addmul_mp4(C, A, B, cutoff)` returns `C + A·B` — all well-formed operands of matching
    dimensions (incl. empty ones), every cut-off, every fuel, every schedule of the four sections -/
theorem addmulMp4_eq_add_mul (sched : List (Fin 4)) (p : sched.Perm [0, 1, 2, 3]) (fuel cutoff : Nat)
    (C A B : BMat) (hA : A.WF) (hB : B.WF) (hC : C.WF) (hk : A.ncols = B.nrows) (hr : C.nrows = A.nrows)
    (hc : C.ncols = B.ncols) : addmulMp4 sched fuel C A B cutoff = C.add (A.mul B) := by
  have sA : Shaped A A.nrows A.ncols := ⟨hA, rfl, rfl⟩
  have sB : Shaped B A.ncols B.ncols := ⟨hB, hk.symm, rfl⟩
  have sC : Shaped C A.nrows B.ncols := ⟨hC, hr, hc⟩
  unfold addmulMp4
  split
  · dsimp only
    rw [base_Cbar sA sB sC]
    exact sC.addM_eq_add (sA.mul sB)
  · exact mp4Body_acc sA sB sC sched p fuel cutoff

/-- (b) C16: `_mzd_mul_mp4(C, A, B, cutoff)` returns `A·B` — for ANY prior content of a well-formed `C`, all
    well-formed operands of matching dimensions (incl. empty ones), every cut-off, every fuel, every schedule
    of the four sections -/
theorem mulMp4_eq_mul (sched : List (Fin 4)) (p : sched.Perm [0, 1, 2, 3]) (fuel cutoff : Nat)
    (C A B : BMat) (hA : A.WF) (hB : B.WF) (hC : C.WF) (hk : A.ncols = B.nrows) (hr : C.nrows = A.nrows)
    (hc : C.ncols = B.ncols) : mulMp4 sched fuel C A B cutoff = A.mul B := by
  have sA : Shaped A A.nrows A.ncols := ⟨hA, rfl, rfl⟩
  have sB : Shaped B A.ncols B.ncols := ⟨hB, hk.symm, rfl⟩
  have sC : Shaped C A.nrows B.ncols := ⟨hC, hr, hc⟩
  unfold mulMp4
  split
  · dsimp only
    rw [base_Cbar sA sB sC, paste_full sC (sA.mul sB)]
  · exact mp4Body_mul sA sB sC sched p fuel cutoff

/-- hence the result does not depend on the prior content of `C`, nor on the schedule, fuel or cut-off -/
theorem mulMp4_independent (sched sched' : List (Fin 4)) (p : sched.Perm [0, 1, 2, 3]) (p' : sched'.Perm [0, 1, 2, 3])
    (fuel fuel' cutoff cutoff' : Nat) (C C' A B : BMat) (hA : A.WF) (hB : B.WF) (hC : C.WF) (hC' : C'.WF)
    (hk : A.ncols = B.nrows) (hr : C.nrows = A.nrows) (hc : C.ncols = B.ncols) (hr' : C'.nrows = A.nrows)
    (hc' : C'.ncols = B.ncols) :
    mulMp4 sched fuel C A B cutoff = mulMp4 sched' fuel' C' A B cutoff' := by
  rw [mulMp4_eq_mul sched p fuel cutoff C A B hA hB hC hk hr hc,
    mulMp4_eq_mul sched' p' fuel' cutoff' C' A B hA hB hC' hk hr' hc']

/-- regression for a repaired defect (the last-columns / last-rows strips of `_mzd_mul_mp4` used to be
    accumulated into): 300×300 zero factors at cut-off 64 (bulk 256×256, strips 44 wide) with the identity as
    prior `C` return the zero matrix, also in the strips -/
theorem mulMp4_regression (sched : List (Fin 4)) (p : sched.Perm [0, 1, 2, 3]) (fuel : Nat) :
    mulMp4 sched fuel (identity 300) (zero 300 300) (zero 300 300) 64 = (zero 300 300).mul (zero 300 300) :=
  mulMp4_eq_mul sched p fuel 64 _ _ _ (WF_zero _ _) (WF_zero _ _) (WF_identity 300) rfl rfl rfl

/-- mp.c's `closer` is the same predicate as strassen.c's (regenerated from the source as `Gen.closer`) -/
theorem closer_eq_gen : closer = Gen.closer := rfl

/-- regression for a second repaired defect (`closer` lacked the clause `a < 2 * m4ri_radix`, so dimensions
    86 … 127 reached the parallel region with EMPTY halves): past the base-case test every half is at least one
    word — for every cut-off -/
theorem half_pos_of_not_closer (a cutoff : Nat) (h : closer a cutoff = false) : 64 ≤ half a := by
  have ha : 128 ≤ a := by
    unfold closer at h
    simp only [decide_eq_false_iff_not] at h
    omega
  unfold half halfSplit
  rw [Nat.shiftRight_eq_div_pow]
  omega

/-! ### (b) the wrappers `mzd_mul_mp`, `mzd_addmul_mp` -/

/-- C16: `mzd_mul_mp(NULL, A, B, cutoff)` returns `A·B` — every cut-off argument, every default cut-off,
    every fuel, every schedule -/
theorem mulMp_fresh (sched : List (Fin 4)) (p : sched.Perm [0, 1, 2, 3]) (fuel cutoff dflt : Nat)
    (A B : BMat) (hA : A.WF) (hB : B.WF) (hk : A.ncols = B.nrows) :
    mulMp sched fuel none A B cutoff dflt = A.mul B :=
  mulMp4_eq_mul sched p fuel _ _ A B hA hB (WF_zero _ _) hk rfl rfl

/-- C16: `mzd_mul_mp(C, A, B, cutoff)` with a caller-supplied `C` of the right dimensions returns `A·B`,
    whatever `C` held before -/
theorem mulMp_some (sched : List (Fin 4)) (p : sched.Perm [0, 1, 2, 3]) (fuel cutoff dflt : Nat)
    (C A B : BMat) (hA : A.WF) (hB : B.WF) (hC : C.WF) (hk : A.ncols = B.nrows) (hr : C.nrows = A.nrows)
    (hc : C.ncols = B.ncols) : mulMp sched fuel (some C) A B cutoff dflt = A.mul B :=
  mulMp4_eq_mul sched p fuel _ C A B hA hB hC hk hr hc

/-- C16: `mzd_addmul_mp(C, A, B, cutoff)` returns `C + A·B` -/
theorem addmulMp_some (sched : List (Fin 4)) (p : sched.Perm [0, 1, 2, 3]) (fuel cutoff dflt : Nat)
    (C A B : BMat) (hA : A.WF) (hB : B.WF) (hC : C.WF) (hk : A.ncols = B.nrows) (hr : C.nrows = A.nrows)
    (hc : C.ncols = B.ncols) : addmulMp sched fuel (some C) A B cutoff dflt = C.add (A.mul B) := by
  unfold addmulMp
  dsimp only
  split
  · next h0 =>
    exact Shaped.add_mul_degenerate (r := A.nrows) (k := A.ncols) (c := B.ncols) ⟨hC, hr, hc⟩ ⟨hA, rfl, rfl⟩
      ⟨hB, hk.symm, rfl⟩ h0
  · exact addmulMp4_eq_add_mul sched p fuel _ C A B hA hB hC hk hr hc

/-- `mzd_addmul_mp(NULL, A, B, cutoff)` returns `A·B` -/
theorem addmulMp_fresh (sched : List (Fin 4)) (p : sched.Perm [0, 1, 2, 3]) (fuel cutoff dflt : Nat)
    (A B : BMat) (hA : A.WF) (hB : B.WF) (hk : A.ncols = B.nrows) :
    addmulMp sched fuel none A B cutoff dflt = A.mul B := by
  have := addmulMp_some sched p fuel cutoff dflt (zero A.nrows B.ncols) A B hA hB (WF_zero _ _) hk rfl rfl
  rw [zero_add_S ((Shaped.of hA).mul ⟨hB, hk.symm, rfl⟩)] at this
  exact this

/-- all 24 schedules of the parallel region are permutations of the four sections (so every theorem above
    applies to each of them) -/
theorem allSchedules_perm : ∀ sched ∈ allSchedules, sched.Perm [0, 1, 2, 3] := by decide

/-- and conversely every duplicate-free schedule of the four sections is among them -/
theorem allSchedules_length : allSchedules.length = 24 := by decide

/-! ### finer granularity: the eight library calls as steps of four threads (link to `M4ri.Sched`) -/

/-- the two calls of section `k`, acting on its private block; the context is the shared read-only state -/
def sectionSteps (k : Fin 4) : List (Sched.Step BMat Ctx) :=
  [fun Cq x => first x Cq (x.A.sub (blockOf x k).1 0 (blockOf x k).2.2.1 x.anc)
      (x.B.sub 0 (blockOf x k).2.1 x.anc (blockOf x k).2.2.2),
   fun Cq x => addmulEven x.fuel Cq (x.A.sub (blockOf x k).1 x.anc (blockOf x k).2.2.1 (2 * x.anc))
      (x.B.sub x.anc (blockOf x k).2.1 (2 * x.anc) (blockOf x k).2.2.2) x.cutoff]

/-- for EVERY interleaving of the eight calls (two per section, in program order within a section) each block
    ends as `quadF` of its initial content — the block results do not depend on the interleaving -/
theorem mp4_calls_interleaving (x : Ctx) {l : List (Fin 4 × Sched.Step BMat Ctx)}
    (h : Sched.Interleaving sectionSteps l) (init : Fin 4 → BMat) (k : Fin 4) :
    Sched.runTrace x l init k =
      quadF x (blockOf x k).1 (blockOf x k).2.2.1 (blockOf x k).2.1 (blockOf x k).2.2.2 (init k) := by
  rw [Sched.threads_independent x h]
  rfl

/-! ### `#pragma omp parallel for` in `_mzd_mul_m4rm`: the row loop of one table pass (link to `M4ri.Sched`) -/

/-- the body of the row loop of one table pass of `_mzd_mul_m4rm`: shared = the tables `(T, L)` and `A` -/
def passBody (col kbits : Nat) (j : Nat) (sh : (Array Nat × Array Nat) × BMat) (c : Nat) : Nat :=
  c ^^^ sh.1.1.getD (sh.1.2.getD (bitsAt (sh.2.row j) col kbits) 0) 0

theorem m4rmPass_rowLoop (C A B : BMat) (col kbits : Nat) (junk : Nat → Nat) (order : List Nat)
    (p : order.Perm (List.range C.rows.size)) :
    m4rmPass C A B col kbits junk =
      { C with rows := (Sched.rowLoop (passBody col kbits)
          (makeTable B.rows B.nrows B.ncols col 0 kbits (freshTable kbits junk).1 (freshTable kbits junk).2, A)
          order C.rows) } := by
  unfold m4rmPass
  dsimp only
  congr 1
  apply Array.ext_getElem?
  intro i
  have hnd : order.Nodup := p.nodup_iff.2 List.nodup_range
  rw [Sched.rowLoop_spec _ _ order hnd, Array.getElem?_mapIdx]
  by_cases hi : i < C.rows.size
  · have : i ∈ order := p.mem_iff.2 (List.mem_range.2 hi)
    rw [if_pos this]
    rfl
  · have : i ∉ order := fun h => hi (List.mem_range.1 (p.mem_iff.1 h))
    rw [if_neg this]
    simp [Array.getElem?_eq_none (Nat.le_of_not_lt hi)]

/-- … hence one table pass gives the same matrix for every order of the row iterations -/
theorem m4rmPass_order_free (C A B : BMat) (col kbits : Nat) (junk : Nat → Nat) (order order' : List Nat)
    (p : order.Perm (List.range C.rows.size)) (p' : order'.Perm (List.range C.rows.size)) :
    ({ C with rows := (Sched.rowLoop (passBody col kbits)
        (makeTable B.rows B.nrows B.ncols col 0 kbits (freshTable kbits junk).1 (freshTable kbits junk).2, A)
        order C.rows) } : BMat) =
    { C with rows := (Sched.rowLoop (passBody col kbits)
        (makeTable B.rows B.nrows B.ncols col 0 kbits (freshTable kbits junk).1 (freshTable kbits junk).2, A)
        order' C.rows) } := by
  rw [← m4rmPass_rowLoop C A B col kbits junk order p, ← m4rmPass_rowLoop C A B col kbits junk order' p']

/-! ### non-vacuity -/

/-- operands that reach the parallel region at cut-off 64 with all three remainder strips, and a
    non-trivial schedule -/
example : ∃ (A B C : BMat) (sched : List (Fin 4)), A.WF ∧ B.WF ∧ C.WF ∧ A.ncols = B.nrows ∧
    C.nrows = A.nrows ∧ C.ncols = B.ncols ∧ sched.Perm [0, 1, 2, 3] ∧ sched ≠ [0, 1, 2, 3] ∧
    ¬ (closer A.nrows 64 = true ∨ closer A.ncols 64 = true ∨ closer B.ncols 64 = true) ∧
    2 * half A.nrows < A.nrows ∧ 2 * half A.ncols < A.ncols ∧ 2 * half B.ncols < B.ncols ∧ 0 < half A.nrows :=
  ⟨zero 300 290, zero 290 270, zero 300 270, [2, 0, 3, 1], WF_zero _ _, WF_zero _ _, WF_zero _ _, rfl, rfl, rfl,
    by decide, by decide, by decide, by decide, by decide, by decide, by decide⟩

/-- a prior `C` with content inside AND outside the bulk block (the case the repaired strips are about):
    300×290 by 290×300 into the 300×300 identity, bulk = 256×256 -/
example : ∃ C A B : BMat, A.WF ∧ B.WF ∧ C.WF ∧ A.ncols = B.nrows ∧ C.nrows = A.nrows ∧ C.ncols = B.ncols ∧
    C.get 0 0 = true ∧ C.get 260 260 = true ∧ 2 * half A.nrows = 256 ∧ 2 * half B.ncols = 256 :=
  ⟨identity 300, zero 300 290, zero 290 300, WF_zero _ _, WF_zero _ _, WF_identity 300, rfl, rfl, rfl,
    by rw [get_identity]; decide, by rw [get_identity]; decide, by decide, by decide⟩

end Mp
end BMat
end M4ri
