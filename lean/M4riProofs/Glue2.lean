/-
  PB26: the glue routines of `M4ri/Glue2.lean` between the factorisations and the echelon form / inverse, each on top
  of ANY routine below it that meets its certificate.  Everything lives in `M4ri.BMat.G2`.

    §1  `_mzd_pluq` = `pluqOfPle ple` (ple.c:50)
          `tri_get`                  `mzd_apply_p_right_trans_tri` on the first `m` rows, entry by entry
          `toB_applyPRightTransTri`  … is the abstraction of the word-level model `Mzd.applyPRightTransTri`
          `tri_profile`, `pluqOfPle_profile`  IsPLE + LAPACK tail of `Q` + WF storage ⟹ IsProfilePLUQ (same P, Q, r), WF
          `pluqOfPle_needs_qtail`    the tail hypothesis cannot be dropped (`PLEGood` alone is not enough)
          `GoodPle`; `echelonizePluq_full_eq`, `echelonizePluq_ech_check`, `solveLeft_*`, `kernelLeftPluq_*`:
                                     C02 / C06 / C07 on top of `_mzd_pluq` on top of every good PLE routine
          `pleNaive_qtail`, `goodPle_naive`, `pleRec_extra`, `goodPle_pleRec(_naive)`: the instances
    §2  `mzd_inv_m4ri` = `invM4ri`
          `invM4ri_eq_rref`, `invM4ri_rowOps`, `invM4ri_mul_eq_rref` (every square `A`), `invM4ri_spec` (C05)
    §3  `mzd_echelonize` = `echelonizeHybrid switch pluqEch`
          `handOver_spec`, `topEchelonizeM4ri_done_red`, `echStep_spec`, `hybLoop_spec`,
          `echelonizeHybrid_correct`, `echelonizeHybrid_full_eq` (for EVERY `switch`), `echelonizeHybrid_over_ple`
-/
import M4riProofs.PleNaive
import M4riProofs.Solve
import M4riProofs.M4riElim
import M4riProofs.W.Perm
import M4ri.Glue2
namespace M4ri
namespace BMat
namespace G2
open PN Rec

/-! ## §1 `_mzd_pluq` -/

theorem rowPermInv_rowPerm (Q : Array Nat) : ∀ k c, rowPermInv Q k (rowPerm Q k c) = c := by
  intro k
  induction k with
  | zero => intro c; rfl
  | succ k ih =>
    intro c
    show swapIdx k (Q.getD k 0) (rowPermInv Q k (rowPerm Q k (swapIdx k (Q.getD k 0) c))) = c
    rw [ih, swapIdx_invol]

theorem rowPerm_rowPermInv (Q : Array Nat) : ∀ k c, rowPerm Q k (rowPermInv Q k c) = c := by
  intro k
  induction k with
  | zero => intro c; rfl
  | succ k ih =>
    intro c
    show rowPerm Q k (swapIdx k (Q.getD k 0) (swapIdx k (Q.getD k 0) (rowPermInv Q k c))) = c
    rw [swapIdx_invol, ih]

/-- the first `k` steps of `mzd_apply_p_right_trans_tri` on the first `m` rows: row `t < m` has undergone the
    transpositions `(i, Q[i])`, `t < i < k`, in ascending order -/
theorem tri_fold (S : BMat) (Q : Array Nat) (m : Nat) : ∀ k,
    SameShape S ((List.range k).foldl (fun X i => X.swapColsInRows i (Q.getD i 0) 0 (min m i)) S) ∧
    ∀ t c, ((List.range k).foldl (fun X i => X.swapColsInRows i (Q.getD i 0) 0 (min m i)) S).get t c =
      if t < m then S.get t (rowPermInv Q (min (t + 1) k) (rowPerm Q k c)) else S.get t c := by
  intro k
  induction k with
  | zero =>
    refine ⟨SameShape.refl S, fun t c => ?_⟩
    simp only [List.range_zero, List.foldl_nil, Nat.min_zero]
    split <;> rfl
  | succ k ih =>
    obtain ⟨sh, hg⟩ := ih
    rw [List.range_succ, List.foldl_append]
    simp only [List.foldl_cons, List.foldl_nil]
    refine ⟨sh.trans (swapColsInRows_shape _ _ _ _ _), fun t c => ?_⟩
    rw [swapColsInRows_get]
    by_cases htm : t < m
    · by_cases htk : t < k
      · rw [if_pos ⟨Nat.zero_le _, by omega⟩, hg, if_pos htm, if_pos htm]
        have e1 : min (t + 1) k = t + 1 := by omega
        have e2 : min (t + 1) (k + 1) = t + 1 := by omega
        rw [e1, e2]; rfl
      · rw [if_neg (fun hh => htk (by omega)), hg, if_pos htm, if_pos htm]
        have e1 : min (t + 1) k = k := by omega
        have e2 : min (t + 1) (k + 1) = k + 1 := by omega
        rw [e1, e2, rowPermInv_rowPerm, rowPermInv_rowPerm]
    · rw [if_neg (fun hh => htm (by omega)), hg, if_neg htm, if_neg htm]

/-- **`mzd_apply_p_right_trans_tri` on the window of the first `m` rows**, entry by entry -/
theorem tri_get (S : BMat) (Q : Array Nat) (m : Nat) :
    SameShape S (applyPRightTransTriRows S Q m) ∧
    ∀ t c, (applyPRightTransTriRows S Q m).get t c =
      if t < m then S.get t (rowPermInv Q (min (t + 1) S.ncols) (rowPerm Q S.ncols c)) else S.get t c :=
  tri_fold S Q m S.ncols

/-- on all rows it is the routine of `M4ri/Elim.lean` -/
theorem applyPRightTransTriRows_nrows (S : BMat) (Q : Array Nat) :
    applyPRightTransTriRows S Q S.nrows = S.applyPRightTransTri Q := by
  unfold applyPRightTransTriRows applyPRightTransTri
  have key : ∀ (l : List Nat) (X : BMat), X.nrows = S.nrows →
      l.foldl (fun X i => X.swapColsInRows i (Q.getD i 0) 0 (min S.nrows i)) X =
        l.foldl (fun M i => M.swapColsInRows i (Q.getD i 0) 0 (min M.nrows i)) X := by
    intro l
    induction l with
    | nil => intro X _; rfl
    | cons a l ih =>
      intro X hX
      simp only [List.foldl_cons]
      rw [hX]
      exact ih _ ((swapColsInRows_shape X _ _ _ _).1.trans hX)
  exact key _ S rfl

theorem tri_WF {S : BMat} (hS : S.WF) {Q : Array Nat} (hQ : ∀ i, i < S.ncols → Q.getD i 0 < S.ncols) (m : Nat) :
    (applyPRightTransTriRows S Q m).WF := by
  unfold applyPRightTransTriRows
  have key : ∀ (l : List Nat) (X : BMat), X.WF → X.ncols = S.ncols → (∀ i, i ∈ l → i < S.ncols) →
      (l.foldl (fun X i => X.swapColsInRows i (Q.getD i 0) 0 (min m i)) X).WF := by
    intro l
    induction l with
    | nil => intro X hX _ _; exact hX
    | cons a l ih =>
      intro X hX hc hl
      simp only [List.foldl_cons]
      have ha := hl a List.mem_cons_self
      apply ih _ (WF_swapColsInRows hX (by rw [hc]; exact ha) (by rw [hc]; exact hQ a ha) _ _)
        ((swapColsInRows_shape X _ _ _ _).2.1.trans hc) (fun i hi => hl i (List.mem_cons_of_mem _ hi))
  exact key _ S hS rfl (fun i hi => List.mem_range.mp hi)

/-! #### agreement with the W-level model `Mzd.applyPRightTransTri` (M4ri/Mzd.lean) through `toB` -/

theorem swapIdx_eq (a b i : Nat) : M4ri.swapIdx a b i = BMat.swapIdx a b i := rfl

/-- the swaps `(k, Q[k])`, `a ≤ k < a + m`, in ascending order, in terms of `rowPerm` -/
theorem rowPerm_swapsIdx (Q : Array Nat) (a : Nat) : ∀ m j,
    rowPerm Q (a + m) j = rowPerm Q a (swapsIdx ((List.range' a m).map fun k => (k, Q.getD k 0)) j) := by
  intro m
  induction m with
  | zero => intro j; rfl
  | succ m ih =>
    intro j
    rw [List.range'_concat, List.map_append, swapsIdx_append]
    show rowPerm Q (a + m) (BMat.swapIdx (a + m) (Q.getD (a + m) 0) j) = _
    rw [ih]
    simp only [List.map_cons, List.map_nil, Nat.one_mul]
    rfl

theorem swapsIdx_tri (Q : Array Nat) (n i j : Nat) :
    swapsIdx ((List.range' (i + 1) (n - (i + 1))).map fun k => (k, Q.getD k 0)) j =
      rowPermInv Q (min (i + 1) n) (rowPerm Q n j) := by
  by_cases h : i + 1 ≤ n
  · have e : min (i + 1) n = i + 1 := by omega
    have e2 : n = (i + 1) + (n - (i + 1)) := by omega
    rw [e]
    conv => rhs; rw [e2]
    rw [rowPerm_swapsIdx, rowPermInv_rowPerm]
  · have e : min (i + 1) n = n := by omega
    have e2 : n - (i + 1) = 0 := by omega
    rw [e, e2, rowPermInv_rowPerm]
    rfl

/-- **the value-level `mzd_apply_p_right_trans_tri` is the abstraction of the word-level model** -/
theorem toB_applyPRightTransTri (A : Mzd) (Q : Array Nat) (h : A.WF)
    (hQ : ∀ k, k < A.ncols → Q.getD k 0 < A.ncols) :
    (A.applyPRightTransTri Q).toB = applyPRightTransTriRows A.toB Q A.nrows := by
  obtain ⟨s1, s2⟩ := Mzd.applyPRightTransTri_shape A Q
  obtain ⟨sh, hg⟩ := tri_get A.toB Q A.nrows
  apply ext_get (Mzd.WF_toB (Mzd.applyPRightTransTri_WF A Q h)) (tri_WF (Mzd.WF_toB h) hQ _)
  · show (A.applyPRightTransTri Q).nrows = _
    rw [s1, sh.1]; rfl
  · show (A.applyPRightTransTri Q).ncols = _
    rw [s2, sh.2.1]; rfl
  · intro i j hi hj
    have hi' : i < A.nrows := by rw [← s1]; exact hi
    have hj' : j < A.ncols := by rw [← s2]; exact hj
    have hw : j < 64 * A.width := by
      have : A.width = (A.ncols + 63) / 64 := rfl
      omega
    rw [Mzd.get_toB_of_lt _ _ _ hj, Mzd.applyPRightTransTri_bit A Q h hQ i j hi' hw, if_pos hj', hg,
      if_pos hi', swapsIdx_tri]
    have hlt : rowPermInv Q (min (i + 1) A.ncols) (rowPerm Q A.ncols j) < A.ncols := by
      have p1 := rowPerm_permOn Q A.ncols A.ncols (Nat.le_refl _) hQ
      have p2 := rowPerm_permOn Q A.ncols (min (i + 1) A.ncols) (Nat.min_le_right _ _)
        (fun t ht => hQ t (by omega))
      exact (p2.1 _ (p1.1 j hj').1).2
    show _ = A.toB.get i (rowPermInv Q (min (i + 1) A.ncols) (rowPerm Q A.ncols j))
    rw [Mzd.get_toB_of_lt _ _ _ hlt]

section profile
variable {A S : BMat} {P Q : Array Nat} {r m : Nat}

/-- **C03, `_mzd_pluq` from `_mzd_ple`**: if `(S, P, Q, r)` is a PLE certificate of `A` (`IsPLE`, what `checkPLE`
    accepts) whose `Q` is in LAPACK form beyond the rank as well, then moving the pivot columns to the front of
    the first `m ≥ r` rows (`mzd_apply_p_right_trans_tri`) gives a PLUQ certificate of `A` — with the same `P`,
    `Q`, `r` — that reveals the column rank profile. -/
theorem tri_profile (h : IsPLE A S P Q r) (hQt : ∀ i, r ≤ i → i < A.ncols → i ≤ Q.getD i 0 ∧ Q.getD i 0 < A.ncols)
    (hm : r ≤ m) : IsProfilePLUQ A (applyPRightTransTriRows S Q m) P Q r := by
  obtain ⟨sh, hg⟩ := tri_get S Q m
  rw [h.ncols_eq] at hg
  generalize applyPRightTransTriRows S Q m = S' at sh hg
  have hn : r ≤ A.ncols := h.r_le_ncols
  have hQl : ∀ i, i < A.ncols → i ≤ Q.getD i 0 ∧ Q.getD i 0 < A.ncols := by
    intro i hi
    by_cases c : i < r
    · exact h.pivot_range i c
    · exact hQt i (by omega) hi
  have pρ := rowPerm_permOn Q A.ncols A.ncols (Nat.le_refl _) (fun i hi => (hQl i hi).2)
  have qge : ∀ k, k ≤ r → ∀ t, t < k → t ≤ Q.getD t 0 := fun k hk t ht => (h.pivot_range t (by omega)).1
  have qmono : ∀ k, k ≤ r → ∀ s t, s < t → t < k → Q.getD s 0 < Q.getD t 0 :=
    fun k hk s t h1 h2 => h.pivot_mono s t h1 (by omega)
  have qlt : ∀ k, k ≤ r → ∀ t, t < k → Q.getD t 0 < A.ncols := fun k hk t ht => (h.pivot_range t (by omega)).2
  have qmono' : ∀ s t, s ≤ t → t < r → Q.getD s 0 ≤ Q.getD t 0 := fun s t h1 h2 => by
    by_cases e : s = t
    · rw [e]
    · exact Nat.le_of_lt (h.pivot_mono s t (by omega) h2)
  -- the index map of row `t`: it fixes `[0, t]` …
  have τlow : ∀ t j, t < A.ncols → j ≤ t →
      rowPermInv Q (min (t + 1) A.ncols) (rowPerm Q A.ncols j) = j := by
    intro t j ht hj
    have e : min (t + 1) A.ncols = t + 1 := by omega
    rw [e, rowPerm_low Q (t + 1) A.ncols (by omega) (fun k _ hk => (hQl k hk).1) j (by omega), rowPermInv_rowPerm]
  -- … and maps `(t, n)` into itself
  have τhigh : ∀ t j, t < A.ncols → t < j → t < rowPermInv Q (min (t + 1) A.ncols) (rowPerm Q A.ncols j) := by
    intro t j ht hj
    rcases Nat.lt_or_ge t (rowPermInv Q (min (t + 1) A.ncols) (rowPerm Q A.ncols j)) with c | c
    · exact c
    · exfalso
      have e := τlow t _ ht c
      have e2 : min (t + 1) A.ncols = t + 1 := by omega
      rw [e2] at e c
      have e3 := congrArg (rowPerm Q (t + 1)) e
      rw [rowPerm_rowPermInv, rowPerm_rowPermInv] at e3
      have e4 := congrArg (rowPermInv Q A.ncols) e3
      rw [rowPermInv_rowPerm, rowPermInv_rowPerm] at e4
      omega
  -- rows that are not permuted
  have hrow : ∀ t c, t < A.nrows → (m ≤ t ∨ A.ncols ≤ t + 1) → S'.get t c = S.get t c := by
    intro t c _ hc
    rw [hg]
    split
    · rename_i htm
      have e : min (t + 1) A.ncols = A.ncols := by omega
      rw [e, rowPermInv_rowPerm]
    · rfl
  -- entries at or left of the diagonal do not move
  have hlow : ∀ t c, c ≤ t → S'.get t c = S.get t c := by
    intro t c hc
    rw [hg]
    split
    · by_cases ht : t < A.ncols
      · rw [τlow t c ht hc]
      · have e : min (t + 1) A.ncols = A.ncols := by omega
        rw [e, rowPermInv_rowPerm]
    · rfl
  -- `U'[t, j] = E[t, ρ j]`
  have hUE : ∀ t j, t < r → j < A.ncols →
      (upperFactor S' r).get t j = (echelonFactor S Q r).get t (rowPerm Q A.ncols j) := by
    intro t j ht hj
    have htn : t < A.ncols := by omega
    have hρ : rowPerm Q A.ncols j < A.ncols := (pρ.1 j hj).1
    rw [upperFactor_get, echelonFactor_get, sh.2.1, h.ncols_eq, decide_eq_true ht, decide_eq_true hj,
      decide_eq_true hρ]
    simp only [Bool.true_and]
    have e2 : min (t + 1) A.ncols = t + 1 := by omega
    by_cases hjt : j ≤ t
    · -- `ρ j = Q[j]`
      have eρ : rowPerm Q A.ncols j = Q.getD j 0 := by
        rw [rowPerm_low Q (t + 1) A.ncols (by omega) (fun k _ hk => (hQl k hk).1) j (by omega)]
        exact rowPerm_lt (qge (t + 1) (by omega)) (qmono (t + 1) (by omega)) j (by omega)
      rw [eρ]
      by_cases e : j = t
      · subst e
        rw [hlow j j (Nat.le_refl _), h.diag j ht]; simp
      · have := h.pivot_mono j t (by omega) ht
        rw [decide_eq_false (by omega : ¬ t ≤ j), decide_eq_false (by omega : ¬ Q.getD t 0 < Q.getD j 0),
          decide_eq_false (by omega : ¬ Q.getD j 0 = Q.getD t 0)]; rfl
    · have hjt' : t < j := by omega
      rw [decide_eq_true (by omega : t ≤ j), Bool.true_and, hg, if_pos (by omega : t < m)]
      have hc := τhigh t j htn hjt'
      have eρ : rowPerm Q A.ncols j =
          rowPerm Q (t + 1) (rowPermInv Q (min (t + 1) A.ncols) (rowPerm Q A.ncols j)) := by
        rw [e2, rowPerm_rowPermInv]
      generalize rowPermInv Q (min (t + 1) A.ncols) (rowPerm Q A.ncols j) = c at hc eρ
      rw [eρ]
      by_cases hcq : Q.getD t 0 < c
      · rw [rowPerm_fix_above (qge (t + 1) (by omega)) c (fun s hs => by
          have := qmono' s t (by omega) ht; omega)]
        rw [decide_eq_true hcq, decide_eq_false (by omega : ¬ c = Q.getD t 0)]; simp
      · have k1 := rowPerm_le_last (k := t + 1) (qge _ (by omega)) (qmono _ (by omega)) (by omega) c (by
          simp only [Nat.add_sub_cancel]; omega)
        have k2 := rowPerm_ne (k := t + 1) (qge _ (by omega)) (qmono _ (by omega)) (n := A.ncols) (by omega)
          (qlt _ (by omega)) c (by omega) t (by omega)
        simp only [Nat.add_sub_cancel] at k1
        rw [h.gap t c ht hc (by omega), decide_eq_false (by omega : ¬ Q.getD t 0 < rowPerm Q (t + 1) c),
          decide_eq_false k2]; rfl
  refine ⟨⟨sh.1.trans h.nrows_eq, sh.2.1.trans h.ncols_eq, h.r_le_nrows, hn, h.P_size, h.P_lapack, h.Q_size, hQl,
    fun i hi => by rw [hlow i i (Nat.le_refl _)]; exact h.diag i hi, ?_, ?_⟩, h.pivot_mono, ?_⟩
  · -- outside
    intro i j hi1 hi2 hj1 hj2
    rw [hg]
    split
    · by_cases hji : j ≤ i
      · have : rowPermInv Q (min (i + 1) A.ncols) (rowPerm Q A.ncols j) = j := by
          by_cases hin : i < A.ncols
          · exact τlow i j hin hji
          · have e : min (i + 1) A.ncols = A.ncols := by omega
            rw [e, rowPermInv_rowPerm]
        rw [this]; exact h.outside i j hi1 hi2 hj1 hj2
      · have hin : i < A.ncols := by omega
        have hc := τhigh i j hin (by omega)
        have e2 : min (i + 1) A.ncols = i + 1 := by omega
        have hlt : rowPermInv Q (min (i + 1) A.ncols) (rowPerm Q A.ncols j) < A.ncols := by
          rw [e2]
          exact ((rowPerm_permOn Q A.ncols (i + 1) (by omega) (fun t ht => (hQl t (by omega)).2)).1 _
            (pρ.1 j hj2).1).2
        exact h.outside i _ hi1 hi2 (by omega) hlt
    · exact h.outside i j hi1 hi2 hj1 hj2
  · -- the product
    intro i j hi hj
    rw [applyPRightTrans_get _ _ _ _ (by rw [(applyPLeft_shape A P).1]; exact hi), h.Q_size,
      (applyPLeft_shape A P).2.1, Nat.min_self, h.prod i _ hi (pρ.1 j hj).1, dotSpec_T, dotSpec_T]
    apply xsum_congr
    intro t ht
    simp only [lowerFactor_ncols] at ht
    rw [hUE t j ht hj, lowerFactor_get, lowerFactor_get, sh.1]
    congr 2
    by_cases hti : t < i
    · rw [hlow i t (by omega)]
    · rw [decide_eq_false hti]; rfl
  · -- the rank profile
    intro t c ht hc
    have hcn : c < A.ncols := by have := (h.pivot_range t ht).2; omega
    rw [hUE t _ ht (pρ.1 c hcn).2, (pρ.2.1 c).1, echelonFactor_get, decide_eq_true ht,
      decide_eq_false (by omega : ¬ Q.getD t 0 < c), decide_eq_false (by omega : ¬ c = Q.getD t 0)]; rfl

end profile

/-- `Q` is in LAPACK form from the rank on as well (`IsPLE` constrains `Q[0..r)` only) -/
def QTail (A : BMat) (Q : Array Nat) (r : Nat) : Prop :=
  ∀ i, r ≤ i → i < A.ncols → i ≤ Q.getD i 0 ∧ Q.getD i 0 < A.ncols

/-- what a PLE routine has to deliver for `_mzd_pluq` and everything above it to be correct: on every well-formed
    input a well-formed storage with a PLE certificate (`IsPLE`, i.e. acceptance by `checkPLE`) and a `Q` in LAPACK
    form beyond the rank.  (`PLEGood` additionally asks `P` to fix the rows from the rank on, which the recursion of
    `_mzd_ple` needs, but `_mzd_pluq` does not.) -/
def GoodPle (ple : BMat → BMat × Array Nat × Array Nat × Nat) : Prop :=
  ∀ A : BMat, A.WF → (ple A).1.WF ∧ IsPLE A (ple A).1 (ple A).2.1 (ple A).2.2.1 (ple A).2.2.2 ∧
    QTail A (ple A).2.2.1 (ple A).2.2.2

section pluqOfPle
variable {ple : BMat → BMat × Array Nat × Array Nat × Nat} {A : BMat}

/-- `P`, `Q` and the rank are those of `_mzd_ple` -/
theorem pluqOfPle_snd (ple : BMat → BMat × Array Nat × Array Nat × Nat) (A : BMat) :
    (pluqOfPle ple A).2 = (ple A).2 := rfl

/-- **C03, `_mzd_pluq`**: on top of a PLE certificate with well-formed storage and a LAPACK tail of `Q` the routine
    returns a rank-profile revealing PLUQ certificate (`IsProfilePLUQ`, hence `IsPLUQ`) in well-formed storage. -/
theorem pluqOfPle_profile (hS : (ple A).1.WF) (h : IsPLE A (ple A).1 (ple A).2.1 (ple A).2.2.1 (ple A).2.2.2)
    (hQt : QTail A (ple A).2.2.1 (ple A).2.2.2) :
    IsProfilePLUQ A (pluqOfPle ple A).1 (pluqOfPle ple A).2.1 (pluqOfPle ple A).2.2.1 (pluqOfPle ple A).2.2.2 ∧
    (pluqOfPle ple A).1.WF := by
  unfold pluqOfPle
  generalize ple A = o at hS h hQt
  obtain ⟨S, P, Q, r⟩ := o
  simp only [] at hS h hQt ⊢
  have hm : r ≤ (if 0 < r ∧ r < S.nrows then r else S.nrows) := by
    have := h.r_le_nrows; have := h.nrows_eq
    split <;> omega
  refine ⟨tri_profile h hQt hm, tri_WF hS (fun i hi => ?_) _⟩
  rw [h.ncols_eq] at hi ⊢
  by_cases c : i < r
  · exact (h.pivot_range i c).2
  · exact (hQt i (by omega) hi).2

/-- … in particular from the certificates the block recursion maintains (`PLEGood`) -/
theorem pluqOfPle_of_PLEGood (hS : (ple A).1.WF) (h : PLEGood A (ple A).1 (ple A).2.1 (ple A).2.2.1 (ple A).2.2.2)
    (hQt : QTail A (ple A).2.2.1 (ple A).2.2.2) :
    IsProfilePLUQ A (pluqOfPle ple A).1 (pluqOfPle ple A).2.1 (pluqOfPle ple A).2.2.1 (pluqOfPle ple A).2.2.2 ∧
    (pluqOfPle ple A).1.WF := pluqOfPle_profile hS h.ple hQt

theorem pluqOfPle_isPLUQ (hS : (ple A).1.WF) (h : IsPLE A (ple A).1 (ple A).2.1 (ple A).2.2.1 (ple A).2.2.2)
    (hQt : QTail A (ple A).2.2.1 (ple A).2.2.2) :
    IsPLUQ A (pluqOfPle ple A).1 (pluqOfPle ple A).2.1 (pluqOfPle ple A).2.2.1 (pluqOfPle ple A).2.2.2 :=
  (pluqOfPle_profile hS h hQt).1.pluq

/-- … accepted by the checker of the framework -/
theorem pluqOfPle_checkPLUQ (hS : (ple A).1.WF) (h : IsPLE A (ple A).1 (ple A).2.1 (ple A).2.2.1 (ple A).2.2.2)
    (hQt : QTail A (ple A).2.2.1 (ple A).2.2.2) :
    checkPLUQ A (pluqOfPle ple A).1 (pluqOfPle ple A).2.1 (pluqOfPle ple A).2.2.1 (pluqOfPle ple A).2.2.2 = true :=
  checkPLUQ_complete (pluqOfPle_isPLUQ hS h hQt)

end pluqOfPle

/-- **the tail hypothesis on `Q` cannot be dropped**: `PLEGood` says nothing about `Q[i]`, `i ≥ r`.  For the `1 × 2`
    matrix `(1 0)` the tuple `S = (1 0)`, `P = [0]`, `Q = [0, 5]`, `r = 1` is `PLEGood` with well-formed storage,
    but `_mzd_pluq` leaves `Q` as it is, and `Q[1] = 5` is not a column: no `IsPLUQ` (`checkPLUQ` rejects). -/
theorem pluqOfPle_needs_qtail :
    let A : BMat := ⟨1, 2, #[1]⟩
    let ple : BMat → BMat × Array Nat × Array Nat × Nat := fun _ => (⟨1, 2, #[1]⟩, #[0], #[0, 5], 1)
    A.WF ∧ (ple A).1.WF ∧ PLEGood A (ple A).1 (ple A).2.1 (ple A).2.2.1 (ple A).2.2.2 ∧
      ¬ IsPLUQ A (pluqOfPle ple A).1 (pluqOfPle ple A).2.1 (pluqOfPle ple A).2.2.1 (pluqOfPle ple A).2.2.2 := by
  intro A ple
  have wf : A.WF := by
    refine ⟨rfl, fun i => ?_⟩
    by_cases h : i < 1
    · have : i = 0 := by omega
      subst this; decide
    · rw [row_of_ge _ _ (by show 1 ≤ i; omega)]; exact Nat.two_pow_pos _
  refine ⟨wf, wf, ⟨checkPLE_sound (by decide +kernel), fun i h1 h2 => ?_⟩, fun h => ?_⟩
  · have h2' : i < 1 := h2
    have h1' : 1 ≤ i := h1
    omega
  · have := (h.Q_lapack 1 (by decide)).2
    revert this
    decide

/-! ### the glue routines above `_mzd_pluq`, for every good PLE routine -/

section above
variable {ple : BMat → BMat × Array Nat × Array Nat × Nat} (hple : GoodPle ple) {A : BMat} (hA : A.WF)
include hple hA

/-- **C02, `mzd_echelonize_pluq(A, 1)` on top of `_mzd_pluq` on top of ANY good PLE routine**: the result is THE
    reduced row echelon form of `A`, the value returned is its rank -/
theorem echelonizePluq_full_eq : echelonizePluq (pluqOfPle ple) A true = (A.rref, A.rank) := by
  obtain ⟨hS, h, hQt⟩ := hple A hA
  obtain ⟨hp, hw⟩ := pluqOfPle_profile hS h hQt
  obtain ⟨w, c⟩ := echelonizePluq_pluq (fact := pluqOfPle ple) hA hw hp
  obtain ⟨_, _, e1, _, _, _, _, e2⟩ := checkEchelon_sound hA w _ true c
  exact Prod.ext (e2 rfl).2.1 e1

theorem echelonizePluq_full_check :
    (echelonizePluq (pluqOfPle ple) A true).1.WF ∧
    checkEchelon A (echelonizePluq (pluqOfPle ple) A true).1 (echelonizePluq (pluqOfPle ple) A true).2 true = true := by
  obtain ⟨hS, h, hQt⟩ := hple A hA
  obtain ⟨hp, hw⟩ := pluqOfPle_profile hS h hQt
  exact echelonizePluq_pluq (fact := pluqOfPle ple) hA hw hp

/-- **C02, `mzd_echelonize_pluq(A, 0)`** (the C code calls `mzd_ple` itself here): a row echelon form of `A` with
    the same row space, the rank, zero rows from the rank on -/
theorem echelonizePluq_ech_check :
    (echelonizePluq ple A false).1.WF ∧
    checkEchelon A (echelonizePluq ple A false).1 (echelonizePluq ple A false).2 false = true := by
  obtain ⟨hS, h, _⟩ := hple A hA
  exact echelonizePluq_ple (fact := ple) hA hS h

/-- both modes at once, in the form the hybrid elimination asks for -/
theorem echelonizePluq_check (full : Bool) :
    (echelonizePluq (if full then pluqOfPle ple else ple) A full).1.WF ∧
    checkEchelon A (echelonizePluq (if full then pluqOfPle ple else ple) A full).1
      (echelonizePluq (if full then pluqOfPle ple else ple) A full).2 full = true := by
  cases full with
  | true => exact echelonizePluq_full_check hple hA
  | false => exact echelonizePluq_ech_check hple hA

theorem pluqOfPle_good :
    IsPLUQ A (pluqOfPle ple A).1 (pluqOfPle ple A).2.1 (pluqOfPle ple A).2.2.1 (pluqOfPle ple A).2.2.2 := by
  obtain ⟨hS, h, hQt⟩ := hple A hA
  exact pluqOfPle_isPLUQ hS h hQt

/-- **C06 on top of `_mzd_pluq`**: verdict … -/
theorem solveLeft_verdict {B : BMat} (hB : B.WF) (hBr : B.nrows = max A.nrows A.ncols) :
    (SV.solveLeft (pluqOfPle ple) A B true).1 = (if solvable A B then 0 else -1) :=
  SV.solveLeft_verdict hA hB hBr (pluqOfPle_good hple hA)

/-- … the solution when `0` is returned … -/
theorem solveLeft_solution {B : BMat} (hB : B.WF) (hBr : B.nrows = max A.nrows A.ncols)
    (hret : (SV.solveLeft (pluqOfPle ple) A B true).1 = 0) :
    (padRows A).mul ((SV.solveLeft (pluqOfPle ple) A B true).2.2.sub 0 0 A.ncols B.ncols) = B :=
  SV.solveLeft_solution hA hB hBr (pluqOfPle_good hple hA) hret

/-- … and without the check -/
theorem solveLeft_nocheck {B : BMat} (hB : B.WF) (hBr : B.nrows = max A.nrows A.ncols) :
    (SV.solveLeft (pluqOfPle ple) A B false).1 = 0 ∧
    (SV.Solvable A B →
      (padRows A).mul ((SV.solveLeft (pluqOfPle ple) A B false).2.2.sub 0 0 A.ncols B.ncols) = B) :=
  SV.solveLeft_nocheck hA hB hBr (pluqOfPle_good hple hA)

/-- **C07 on top of `_mzd_pluq`** -/
theorem kernelLeftPluq_none_iff : SV.kernelLeftPluq (pluqOfPle ple) A = none ↔ A.rank = A.ncols :=
  SV.kernelLeftPluq_none_iff hA (pluqOfPle_good hple hA)

theorem kernelLeftPluq_basis {K : BMat} (hK : SV.kernelLeftPluq (pluqOfPle ple) A = some K) :
    A.mul K = zero A.nrows K.ncols ∧
    (∀ V : BMat, V.WF → V.nrows = A.ncols → A.mul V = zero A.nrows V.ncols →
      ∃ W : BMat, W.WF ∧ W.nrows = K.ncols ∧ W.ncols = V.ncols ∧ K.mul W = V) ∧
    (∀ W W' : BMat, W.WF → W'.WF → W.nrows = K.ncols → W'.nrows = K.ncols → W'.ncols = W.ncols →
      K.mul W = K.mul W' → W = W') :=
  SV.kernelLeftPluq_basis hA (pluqOfPle_good hple hA) hK

theorem kernelLeftPluq_some {K : BMat} (hK : SV.kernelLeftPluq (pluqOfPle ple) A = some K) :
    K.WF ∧ K.nrows = A.ncols ∧ K.ncols = A.ncols - A.rank ∧ 0 < K.ncols ∧
      A.mul K = zero A.nrows K.ncols ∧ (A.mul K).eqM (zero A.nrows K.ncols) = true ∧ K.rank = K.ncols :=
  SV.kernelLeftPluq_some hA (pluqOfPle_good hple hA) hK

end above

/-! ### instances: `_mzd_ple_naive` and the block-recursive `_mzd_ple` -/

/-- `_mzd_ple_naive` leaves `Q[i] = i` from the rank on -/
theorem pleNaive_qtail {A : BMat} (hA : A.WF) {P Q : Array Nat} (hP : P.size = A.nrows) (hQ : Q.size = A.ncols) :
    ∀ i, (pleNaive A P Q).2.2.2 ≤ i → i < A.ncols → (pleNaive A P Q).2.2.1.getD i 0 = i := by
  obtain ⟨M', P', Q', r, cp', e, hI, _⟩ :=
    PN.go_spec A (min A.nrows A.ncols + 1) A P Q 0 0 (PN.Inv.init hA hP hQ) (by omega)
  rw [pleNaive_unfold A P Q e]
  intro i h1 h2
  obtain ⟨_, qg⟩ := fill_spec (M'.ncols - r) r Q'
  simp only [] at h1 ⊢
  rw [qg, if_pos ⟨h1, by rw [hI.nc]; omega, by rw [hI.qsz]; exact h2⟩]

theorem goodPle_naive (p q : BMat → Array Nat) (hp : ∀ A, (p A).size = A.nrows) (hq : ∀ A, (q A).size = A.ncols) :
    GoodPle (fun A => pleNaive A (p A) (q A)) := fun A hA =>
  ⟨pleNaive_WF hA (hp A) (hq A), pleNaive_isPLE hA (hp A) (hq A), fun i h1 h2 => by
    have := pleNaive_qtail hA (hp A) (hq A) i h1 h2
    simp only [] at this ⊢
    rw [this]; exact ⟨Nat.le_refl _, h2⟩⟩

theorem goodPle_naiveBase : GoodPle naiveBase :=
  goodPle_naive (fun A => Array.replicate A.nrows 0) (fun A => Array.replicate A.ncols 0) (fun _ => by simp)
    (fun _ => by simp)

/-! #### the recursive `_mzd_ple`: well-formed storage and the tail of `Q`

  `pleRec_spec` (TrsmRec.lean) gives `PLEGood`; `_mzd_pluq` needs two more facts about what `_mzd_ple` leaves: the
  storage is well formed and `Q` is in LAPACK form beyond the rank.  The second one is NOT "`Q[i] = i`": the
  recursion copies the pivots of the second block from `Q[n1 .. n1+r2)` to `Q[r1 .. r1+r2)` and leaves the source
  entries where they are. -/

theorem compressL_WF {A : BMat} (hA : A.WF) {r1 n1 r2 : Nat} (h : r1 ≤ n1) (h2 : n1 + r2 ≤ A.ncols) :
    (compressL A r1 n1 r2).WF := by
  rw [compressL_eq]
  split
  · exact hA
  · have W1 : (compressSwaps A r1 n1 r2 r2).WF ∧ (compressSwaps A r1 n1 r2 r2).ncols = A.ncols := by
      unfold compressSwaps
      apply foldl_inv (fun X : BMat => X.WF ∧ X.ncols = A.ncols) _ _ _ ⟨hA, rfl⟩
      intro X k hk hX
      have hk' := List.mem_range.mp hk
      exact ⟨WF_swapColsInRows hX.1 (by rw [hX.2]; omega) (by rw [hX.2]; omega) _ _,
        (swapColsInRows_shape X _ _ _ _).2.1.trans hX.2⟩
    generalize compressSwaps A r1 n1 r2 r2 = M at W1
    apply WF_of_get
    · show (M.rows.mapIdx _).size = M.nrows
      rw [Array.size_mapIdx]; exact W1.1.1
    · intro i j hj
      have hj' : M.ncols ≤ j := hj
      rw [compressShift_get M r1 n1 r2 h, get_of_ge_ncols W1.1 i j hj']
      have := W1.2
      split
      · rw [if_neg (by omega), if_neg (by omega), if_neg (by omega)]
      · rfl

theorem finishStage_WF {A4 S1 : BMat} {P2 : Array Nat} {m n nr n1 r1 r2 : Nat} (hA4 : Shaped A4 m n)
    (hn1 : n1 ≤ n) (r1n1 : r1 ≤ n1) (s1c : S1.ncols = n - n1) (r2nc : r2 ≤ n - n1) :
    (finishStage A4 nr n1 r1 S1 P2 r2).WF := by
  unfold finishStage
  simp only []
  have sh5 : Shaped (A4.paste r1 n1 S1) m n := hA4.paste S1 r1 n1 (by rw [s1c]; omega)
  generalize A4.paste r1 n1 S1 = St5 at sh5
  have sh6 : Shaped (St5.paste r1 0 ((St5.sub r1 0 nr r1).applyPLeft P2)) m n :=
    sh5.paste _ r1 0 (by
      rw [(applyPLeft_shape _ P2).2.1]
      show 0 + (r1 - 0) ≤ n
      omega)
  exact compressL_WF sh6.wf r1n1 (by rw [sh6.nc]; omega)

/-- the two extra facts about an output `o` for the input `A` -/
def Extra (A : BMat) (o : Out) : Prop := o.1.WF ∧ QTail A o.2.2.1 o.2.2.2

theorem mergeQ_tail (n n1 r1 r2 : Nat) (Q1 Q2 : Array Nat) (hn1 : n1 ≤ n) (hr1 : r1 ≤ n1) (_hr2 : r2 ≤ n - n1)
    (q1s : Q1.size = n1) (q2s : Q2.size = n - n1)
    (t1 : ∀ i, r1 ≤ i → i < n1 → i ≤ Q1.getD i 0 ∧ Q1.getD i 0 < n1)
    (t2 : ∀ i, i < n - n1 → i ≤ Q2.getD i 0 ∧ Q2.getD i 0 < n - n1) :
    ∀ i, r1 + r2 ≤ i → i < n → i ≤ (mergeQ n Q1 r1 n1 Q2 r2).getD i 0 ∧ (mergeQ n Q1 r1 n1 Q2 r2).getD i 0 < n := by
  intro i h1 h2
  unfold mergeQ
  obtain ⟨_, hg⟩ := rotQ_spec (writeAt (writeAt (Array.range n) 0 Q1) n1 (Q2.map (· + n1))) r1 n1 hr1 r2
  rw [hg, if_neg (by omega), getD_writeAt _ _ _ _ (by simp; omega), Array.size_map, q2s]
  by_cases c : n1 ≤ i
  · rw [if_pos (by omega), getD_map_add _ _ _ (by omega)]
    have := t2 (i - n1) (by omega)
    omega
  · rw [if_neg (by omega), getD_writeAt _ _ _ _ (by simp; omega), q1s, if_pos (by omega)]
    have := t1 (i - 0) (by omega) (by omega)
    omega

/-- **one step of `_mzd_ple`** keeps the storage well formed and `Q` in LAPACK form beyond the rank -/
theorem pleStep_extra (rec : BMat → Out) (trsm : BMat → BMat → BMat) (base : BMat → Out) (baseCols cutoff : Nat)
    (htrsm : ∀ L B, B.WF → L.nrows = B.nrows → trsm L B = trsmLowerLeft L B)
    {A : BMat} (hA : A.WF) (hb : Extra A (base A))
    (h1 : GoodOut (A.sub 0 0 (firstZeroRow A) (splitPoint A.ncols))
      (rec (A.sub 0 0 (firstZeroRow A) (splitPoint A.ncols))))
    (e1 : Extra (A.sub 0 0 (firstZeroRow A) (splitPoint A.ncols))
      (rec (A.sub 0 0 (firstZeroRow A) (splitPoint A.ncols))))
    (h2 : let o1 := rec (A.sub 0 0 (firstZeroRow A) (splitPoint A.ncols))
      let A11 := (schurStage trsm A (firstZeroRow A) (splitPoint A.ncols) A.ncols o1.1 o1.2.1 o1.2.2.2).sub
        o1.2.2.2 (splitPoint A.ncols) (firstZeroRow A) A.ncols
      GoodOut A11 (rec A11) ∧ Extra A11 (rec A11)) :
    Extra A (pleStep rec trsm base baseCols cutoff A) := by
  unfold pleStep
  split
  · refine ⟨hA, fun i _ hi => ?_⟩
    show i ≤ (Array.range A.ncols).getD i 0 ∧ (Array.range A.ncols).getD i 0 < A.ncols
    rw [getD_range _ i hi]; omega
  · split
    · exact hb
    · simp only [] at h2 ⊢
      have sA : Shaped A A.nrows A.ncols := Shaped.of hA
      have hnr := firstZeroRow_le A
      have hn1 := splitPoint_le A.ncols
      generalize firstZeroRow A = nr at *
      generalize splitPoint A.ncols = n1 at *
      generalize rec (A.sub 0 0 nr n1) = o1 at h1 e1 h2 ⊢
      obtain ⟨S0, P1, Q1, r1⟩ := o1
      unfold GoodOut at h1
      unfold Extra at e1
      simp only [] at h1 e1 h2 ⊢
      obtain ⟨X01, X11, sX11, _, _, sh4, hsub, _⟩ := schurStage_spec trsm htrsm sA hnr hn1 h1
      rw [hsub] at h2 ⊢
      generalize rec X11 = o2 at h2 ⊢
      obtain ⟨S1, P2, Q2, r2⟩ := o2
      unfold GoodOut Extra at h2
      unfold Extra
      simp only [] at h2 ⊢
      obtain ⟨g2, _, t2⟩ := h2
      obtain ⟨_, _, _, r1n1, _, _, _, _, _, s1c, _, r2nc, _, _, _, q2r⟩ := asm_basic sA hnr h1 sX11 g2
      have sA0 : Shaped (A.sub 0 0 nr n1) nr n1 := by simpa using sA.sub 0 0 nr n1 hnr
      have q1s : Q1.size = n1 := by rw [h1.ple.Q_size, sA0.nc]
      have q2s : Q2.size = A.ncols - n1 := by rw [g2.ple.Q_size, sX11.nc]
      refine ⟨finishStage_WF sh4 hn1 r1n1 s1c r2nc, ?_⟩
      apply mergeQ_tail A.ncols n1 r1 r2 Q1 Q2 hn1 r1n1 r2nc q1s q2s
      · intro i c1 c2
        have := e1.2 i c1 (by rw [sA0.nc]; exact c2)
        rwa [sA0.nc] at this
      · intro i hi
        by_cases c : i < r2
        · exact q2r i c
        · have := t2 i (by omega) (by rw [sX11.nc]; exact hi)
          rwa [sX11.nc] at this

/-- **the recursive `_mzd_ple`**: for every fuel and all regime parameters, if the base case returns good
    certificates in well-formed storage with a LAPACK tail of `Q`, so does the recursion -/
theorem pleRec_extra {base : BMat → Out} (hbase : GoodBase base) (hbx : ∀ A : BMat, A.WF → Extra A (base A))
    (baseCols cutoff baseRows fuel : Nat) {A : BMat} (hA : A.WF) :
    Extra A (pleRec base baseCols cutoff baseRows fuel A) := by
  induction fuel generalizing A with
  | zero => exact hbx A hA
  | succ fuel ih =>
    rw [pleRec_succ]
    exact pleStep_extra _ _ base baseCols cutoff (fun L B hB h => trsmLowerLeftRec_eq _ _ hB h) hA (hbx A hA)
      (pleRec_spec hbase baseCols cutoff baseRows fuel (WF_sub _ _ _ _ _)) (ih (WF_sub _ _ _ _ _))
      ⟨pleRec_spec hbase baseCols cutoff baseRows fuel (WF_sub _ _ _ _ _), ih (WF_sub _ _ _ _ _)⟩

/-- every good base case makes the recursive `_mzd_ple` a good PLE routine in the sense of `GoodPle` -/
theorem goodPle_pleRec {base : BMat → Out} (hbase : GoodBase base) (hbx : ∀ A : BMat, A.WF → Extra A (base A))
    (baseCols cutoff baseRows fuel : Nat) : GoodPle (pleRec base baseCols cutoff baseRows fuel) := fun _ hA =>
  ⟨(pleRec_extra hbase hbx baseCols cutoff baseRows fuel hA).1,
    (pleRec_spec hbase baseCols cutoff baseRows fuel hA).ple,
    (pleRec_extra hbase hbx baseCols cutoff baseRows fuel hA).2⟩

theorem extra_naiveBase (A : BMat) (hA : A.WF) : Extra A (naiveBase A) :=
  ⟨(goodPle_naiveBase A hA).1, (goodPle_naiveBase A hA).2.2⟩

/-- **the block-recursive `_mzd_ple` over `_mzd_ple_naive`** is a good PLE routine, for every fuel and all regime
    parameters -/
theorem goodPle_pleRec_naive (baseCols cutoff baseRows fuel : Nat) :
    GoodPle (pleRec naiveBase baseCols cutoff baseRows fuel) :=
  goodPle_pleRec goodBase_naiveBase extra_naiveBase baseCols cutoff baseRows fuel

/-- the tail of `Q` after the recursive `_mzd_ple` is NOT the identity in general: for the `2 × 66` matrix with rows
    `e0 + e65`, `e0` (split at column 64) the second block has its pivot in its local column 1, so `Q[64] = 65` is
    left behind when the pivot is copied to `Q[1]`; `_mzd_pluq` then also swaps the columns 64 and 65 of the rows
    `< min(r, 64)`.  (Observed in the real library as well: 25 of 300 cases of the small-cache validation run.) -/
example : (pleRec naiveBase 64 0 64 1 ⟨2, 66, #[1 ||| 2 ^ 65, 1]⟩).2.2.1.getD 1 0 = 65 ∧
    (pleRec naiveBase 64 0 64 1 ⟨2, 66, #[1 ||| 2 ^ 65, 1]⟩).2.2.1.getD 64 0 = 65 ∧
    (pleRec naiveBase 64 0 64 1 ⟨2, 66, #[1 ||| 2 ^ 65, 1]⟩).2.2.2 = 2 ∧
    (pluqOfPle (pleRec naiveBase 64 0 64 1) ⟨2, 66, #[1 ||| 2 ^ 65, 1]⟩).1 = ⟨2, 66, #[3, 3]⟩ := by
  decide +kernel

/-- **C02/C03 instances**: `mzd_echelonize_pluq(A, 1)` over `_mzd_pluq` over `_mzd_ple_naive` … -/
theorem echelonizePluq_pluqOfPle_naive {A : BMat} (hA : A.WF) (p q : BMat → Array Nat)
    (hp : ∀ A, (p A).size = A.nrows) (hq : ∀ A, (q A).size = A.ncols) :
    echelonizePluq (pluqOfPle (fun A => pleNaive A (p A) (q A))) A true = (A.rref, A.rank) :=
  echelonizePluq_full_eq (goodPle_naive p q hp hq) hA

/-- … and over the block-recursive `_mzd_ple` on the naive base case -/
theorem echelonizePluq_pluqOfPle_pleRec_naive {A : BMat} (hA : A.WF) (baseCols cutoff baseRows fuel : Nat) :
    echelonizePluq (pluqOfPle (pleRec naiveBase baseCols cutoff baseRows fuel)) A true = (A.rref, A.rank) :=
  echelonizePluq_full_eq (goodPle_pleRec_naive baseCols cutoff baseRows fuel) hA

/-- the PLUQ certificate `_mzd_pluq` derives from the recursive `_mzd_ple` is accepted by `checkPLUQ` -/
theorem checkPLUQ_pluqOfPle_pleRec_naive {A : BMat} (hA : A.WF) (baseCols cutoff baseRows fuel : Nat) :
    let o := pluqOfPle (pleRec naiveBase baseCols cutoff baseRows fuel) A
    checkPLUQ A o.1 o.2.1 o.2.2.1 o.2.2.2 = true :=
  checkPLUQ_complete (pluqOfPle_good (goodPle_pleRec_naive baseCols cutoff baseRows fuel) hA)

/-- non-vacuity and a run of the model: the `3 × 4` running example of `PleNaive.lean` (rank 2, pivot columns 1, 3) -/
example : pluqOfPle (fun A => pleNaive A (Array.replicate A.nrows 0) (Array.replicate A.ncols 0))
    ⟨3, 4, #[10, 2, 8]⟩ = (⟨3, 4, #[3, 3, 2]⟩, #[0, 1, 2], #[1, 3, 2, 3], 2) := by decide +kernel

example : echelonizePluq (pluqOfPle (fun A => pleNaive A (Array.replicate A.nrows 0) (Array.replicate A.ncols 0)))
    ⟨3, 4, #[10, 2, 8]⟩ true = (⟨3, 4, #[2, 8, 0]⟩, 2) := by decide +kernel

/-! ## §2 `mzd_inv_m4ri` -/

/-- `m4ri_radix * A->width` -/
def padCols (A : BMat) : Nat := 64 * ((A.ncols + 63) / 64)

theorem le_padCols (A : BMat) : A.ncols ≤ padCols A := by unfold padCols; omega

theorem invInput_nrows (A : BMat) : (invInput A).nrows = A.nrows := rfl
theorem invInput_ncols (A : BMat) : (invInput A).ncols = 2 * padCols A := rfl

/-- the work matrix `C = [A | 0 | I | 0]`, entry by entry -/
theorem invInput_get (A : BMat) (i j : Nat) :
    (invInput A).get i j =
      (decide (i < A.nrows) && ((decide (j < A.ncols) && A.get i j) || decide (j = padCols A + i))) := by
  unfold invInput padCols
  simp only []
  rw [get_mk_range, Nat.testBit_or, Nat.testBit_mod_two_pow, Nat.one_shiftLeft, Nat.testBit_two_pow]
  have : decide (64 * ((A.ncols + 63) / 64) + i = j) = decide (j = 64 * ((A.ncols + 63) / 64) + i) :=
    decide_eq_decide.mpr ⟨Eq.symm, Eq.symm⟩
  rw [this]; rfl

theorem invInput_WF (A : BMat) (hsq : A.nrows ≤ A.ncols) : (invInput A).WF := by
  apply WF_of_get
  · simp [invInput]
  · intro i j hj
    rw [invInput_ncols] at hj
    rw [invInput_get]
    have := le_padCols A
    by_cases hi : i < A.nrows
    · rw [decide_eq_false (by omega : ¬ j < A.ncols), decide_eq_false (by omega : ¬ j = padCols A + i)]; simp
    · rw [decide_eq_false hi]; rfl

/-- left block of `T · [A | 0 | I | 0]` -/
theorem mul_invInput_left (T A : BMat) (hTc : T.ncols = A.nrows) (i j : Nat) (hi : i < T.nrows) (hj : j < A.ncols) :
    (T.mul (invInput A)).get i j = (T.mul A).get i j := by
  rw [mul_get _ _ _ _ hi, mul_get _ _ _ _ hi]
  unfold dotSpec_T
  apply xsum_congr
  intro t ht
  rw [invInput_get]
  have h1 : t < A.nrows := by omega
  have h2 : ¬ j = padCols A + t := by have := le_padCols A; omega
  simp [h1, hj, h2]

/-- the block that becomes the result -/
theorem mul_invInput_right (T A : BMat) (hTc : T.ncols = A.nrows) (i j : Nat) (hi : i < T.nrows) (hj : j < A.nrows) :
    (T.mul (invInput A)).get i (padCols A + j) = T.get i j := by
  rw [mul_get _ _ _ _ hi]
  unfold dotSpec_T
  have := le_padCols A
  rw [xsum_single j (by omega)]
  · rw [invInput_get]
    have h1 : ¬ padCols A + j < A.ncols := by omega
    simp [hj, h1]
  · intro t ht hne
    rw [invInput_get]
    have h1 : ¬ padCols A + j < A.ncols := by omega
    have h2 : ¬ padCols A + j = padCols A + t := by omega
    have h3 : ¬ j = t := fun e => hne e.symm
    simp [h1, h3]

section inv
variable {A : BMat} (hA : A.WF) (hsq : A.ncols = A.nrows) {k : Nat} (hk : 1 ≤ k) (junk : Nat → Nat)
include hsq hk

/-- **`mzd_inv_m4ri`, every square `A`** (invertible or not), every `k ≥ 1`: the result is the block
    `[nr, nr + n)` of the reduced row echelon form of `C = [A | 0 | I | 0]` -/
theorem invM4ri_eq_rref :
    invM4ri A k junk = (invInput A).rref.sub 0 (padCols A) A.nrows (padCols A + A.nrows) := by
  unfold invM4ri
  simp only []
  rw [M4RI.echelonizeM4ri_full_eq_rref (invInput_WF A (by omega)) hk junk]
  rfl

/-- … which is the matrix `T` of the row operations performed: `T` is invertible and `T·C = rref C`.  This is all
    that can be said when `A` is singular (C05 asks nothing then): the routine returns SOME invertible `T` — it has
    no way of reporting that `A` has no inverse — and `T·A` is the left block of `rref C`. -/
theorem invM4ri_rowOps (hA : A.WF) :
    ∃ T' : BMat, T'.WF ∧ T'.nrows = A.nrows ∧ T'.ncols = A.nrows ∧ (invM4ri A k junk).WF ∧
      (invM4ri A k junk).nrows = A.nrows ∧ (invM4ri A k junk).ncols = A.nrows ∧
      (invM4ri A k junk).mul T' = identity A.nrows ∧
      (invM4ri A k junk).mul (invInput A) = (invInput A).rref ∧
      (invM4ri A k junk).mul A = (invInput A).rref.sub 0 0 A.nrows A.ncols := by
  have hC : (invInput A).WF := invInput_WF A (by omega)
  obtain ⟨T, T', hT, hT', hTr, hTc, hT'r, hT'c, hTH, hTT'⟩ := GOK.rowEquiv_rref _ hC
  rw [invInput_nrows] at hTr hTc hT'r hT'c hTT'
  have hRr : (invInput A).rref.nrows = A.nrows := rref_nrows hC
  have hRc : (invInput A).rref.ncols = 2 * padCols A := rref_ncols hC
  have e : invM4ri A k junk = T := by
    rw [invM4ri_eq_rref hsq hk junk]
    apply ext_get (sub_WF _ _ _ _ _) hT
    · simp only [sub]; rw [hRr, hTr]; omega
    · simp only [sub]; rw [hTc]; omega
    · intro i j hi hj
      simp only [sub] at hi hj
      rw [hRr] at hi
      rw [sub_get, hRr, ← hTH]
      have h1 : i < min (A.nrows - 0) (A.nrows - 0) := by omega
      have h2 : j < padCols A + A.nrows - padCols A := by omega
      simp only [h1, h2, decide_true, Bool.true_and, Nat.zero_add]
      exact mul_invInput_right T A hTc i j (by omega) (by omega)
  rw [e]
  refine ⟨T', hT', hT'r, hT'c, hT, hTr, hTc, hTT', hTH, ?_⟩
  apply ext_get (mul_WF _ hA) (sub_WF _ _ _ _ _)
  · simp only [sub, mul_nrows]; rw [hRr, hTr]; omega
  · simp only [sub, mul_ncols]; omega
  · intro i j hi hj
    simp only [mul_nrows, mul_ncols] at hi hj
    rw [sub_get, hRr, ← hTH]
    have h1 : i < min (A.nrows - 0) (A.nrows - 0) := by omega
    have h2 : j < A.ncols - 0 := by omega
    simp only [h1, h2, decide_true, Bool.true_and, Nat.zero_add]
    exact (mul_invInput_left T A hTc i j hi hj).symm

/-- **C05, `mzd_inv_m4ri`**: if the well-formed `n × n` matrix `A` has a (well-formed) right inverse `Binv`, then
    for every `k ≥ 1` the routine returns `Binv` — which is `inverseSpec A`, what the checks judge against — and it
    is a two-sided inverse. -/
theorem invM4ri_spec (hA : A.WF) {Binv : BMat} (hB : Binv.WF) (hBr : Binv.nrows = A.nrows) (hBc : Binv.ncols = A.nrows)
    (hAB : A.mul Binv = identity A.nrows) :
    invM4ri A k junk = Binv ∧ invM4ri A k junk = inverseSpec A ∧
      A.mul (invM4ri A k junk) = identity A.nrows ∧ (invM4ri A k junk).mul A = identity A.nrows := by
  have hC : (invInput A).WF := invInput_WF A (by omega)
  obtain ⟨T', hT', hT'r, hT'c, hT, hTr, hTc, hTT', hTH, _⟩ := invM4ri_rowOps hsq hk junk hA
  generalize invM4ri A k junk = T at hT hTr hTc hTT' hTH ⊢
  have hMN : (T.mul A).mul (Binv.mul T') = identity A.nrows := by
    rw [mul_assoc _ hA (mul_WF _ hT'), ← mul_assoc _ hB hT', hAB]
    have := identity_mul hT'
    rw [hT'r] at this
    rw [this, hTT']
  have hTA : T.mul A = identity A.nrows := by
    apply rref_left_block_identity (R := (invInput A).rref) (N := Binv.mul T') A.nrows
      (rref_WF hC) (rref_nrows hC) (by rw [rref_ncols hC, invInput_ncols]; have := le_padCols A; omega)
      (mul_WF _ hA) (by simpa using hTr) (by simpa using hsq) _ hMN (rref_isRREF hC)
    intro i j hi hj
    rw [← hTH]
    exact mul_invInput_left T A hTc i j (by omega) (by omega)
  have hTB : T = Binv := by
    have e1 : (T.mul A).mul Binv = Binv := by
      rw [hTA]; have := identity_mul hB; rwa [hBr] at this
    rw [mul_assoc _ hA hB, hAB] at e1
    have := mul_identity hT
    rw [hTc] at this
    rw [← e1, this]
  obtain ⟨s1, _, _⟩ := GOK.inverse_spec hA hsq hB hBr hBc hAB
  exact ⟨hTB, hTB.trans s1.symm, by rw [hTB]; exact hAB, hTA⟩

end inv

/-- the first `n` columns of a matrix in reduced row echelon form are in reduced row echelon form -/
theorem isRREF_prefix {R : BMat} (hR : R.WF) (h : R.isRREF = true) (n : Nat) :
    (R.sub 0 0 R.nrows n).isRREF = true := by
  have hS : (R.sub 0 0 R.nrows n).WF := sub_WF _ _ _ _ _
  have hnr : (R.sub 0 0 R.nrows n).nrows = R.nrows := by simp [sub]
  have hrow : ∀ i, i < R.nrows → (R.sub 0 0 R.nrows n).row i = R.row i % 2 ^ n := by
    intro i hi
    unfold sub
    simp only []
    rw [row_mk_range _ _ _ _ (by omega)]
    simp
  have hlead : ∀ a c, IsLead (a % 2 ^ n) c → c < n ∧ IsLead a c := by
    intro a c hc
    have h1 := hc.1
    rw [Nat.testBit_mod_two_pow] at h1
    simp only [Bool.and_eq_true, decide_eq_true_eq] at h1
    refine ⟨h1.1, h1.2, fun j hj => ?_⟩
    have := hc.2 j hj
    rw [Nat.testBit_mod_two_pow] at this
    simpa [show j < n by omega] using this
  have hrr := (isRREF_iff_rows hR).mp h
  rw [isRREF_iff_rows hS]
  intro i j hij hj
  rw [hnr] at hj
  rw [hrow i (by omega), hrow j hj]
  obtain ⟨hE, hRd⟩ := hrr i j hij hj
  refine ⟨⟨fun h0 => ?_, fun c hc q hq => ?_⟩, fun c hc => ?_⟩
  · by_cases ha : R.row i = 0
    · rw [hE.1 ha]; rfl
    · obtain ⟨p, hp⟩ := exists_isLead' ha
      have hpn : n ≤ p := by
        rcases Nat.lt_or_ge p n with c1 | c1
        · have : (R.row i % 2 ^ n).testBit p = true := by
            rw [Nat.testBit_mod_two_pow, hp.1]; simp [c1]
          rw [h0, Nat.zero_testBit] at this
          exact Bool.noConfusion this
        · exact c1
      apply Nat.eq_of_testBit_eq
      intro q
      rw [Nat.testBit_mod_two_pow, Nat.zero_testBit]
      by_cases c1 : q < n
      · rw [hE.2 p hp q (by omega)]; simp
      · simp [c1]
  · obtain ⟨_, h2⟩ := hlead _ _ hc
    rw [Nat.testBit_mod_two_pow, hE.2 c h2 q hq]; simp
  · obtain ⟨_, h2⟩ := hlead _ _ hc
    rw [Nat.testBit_mod_two_pow, hRd c h2]; simp

/-- **`mzd_inv_m4ri` on ANY square matrix**: the matrix returned is invertible and transforms `A` into its reduced
    row echelon form, `B·A = rref A`.  (For singular `A` the C routine gives no other indication.) -/
theorem invM4ri_mul_eq_rref {A : BMat} (hA : A.WF) (hsq : A.ncols = A.nrows) {k : Nat} (hk : 1 ≤ k)
    (junk : Nat → Nat) :
    (invM4ri A k junk).mul A = A.rref ∧
    ∃ T' : BMat, T'.WF ∧ T'.nrows = A.nrows ∧ T'.ncols = A.nrows ∧
      (invM4ri A k junk).mul T' = identity A.nrows ∧ T'.mul (invM4ri A k junk) = identity A.nrows := by
  have hC : (invInput A).WF := invInput_WF A (by omega)
  obtain ⟨T', hT', hT'r, hT'c, hT, hTr, hTc, hTT', _, hTA⟩ := invM4ri_rowOps hsq hk junk hA
  generalize invM4ri A k junk = T at hT hTr hTc hTT' hTA ⊢
  have hT'T : T'.mul T = identity A.nrows := square_inv_comm hT hT' hTc hT'r hT'c hTT'
  refine ⟨?_, T', hT', hT'r, hT'c, hTT', hT'T⟩
  have hpre := isRREF_prefix (rref_WF hC) (rref_isRREF hC) A.ncols
  rw [rref_nrows hC, invInput_nrows, ← hTA] at hpre
  apply eq_rref_of_isRREF hA (mul_WF _ hA) (by simpa using hTr) (by simp) hpre
  apply sameSpan_of_mul (G := T') (H := T) hA (mul_WF _ hA)
  · rw [← mul_assoc _ hT hA, hT'T]
    exact (identity_mul hA).symm
  · rfl

/-- non-vacuity (and a run of the model): `[[1,1],[0,1]]` is its own inverse; the singular `[[1,1],[1,1]]` gets
    the invertible `[[0,1],[1,1]]` -/
example : invM4ri ⟨2, 2, #[3, 2]⟩ 1 = ⟨2, 2, #[3, 2]⟩ := by decide +kernel
example : invM4ri ⟨2, 2, #[3, 3]⟩ 1 = ⟨2, 2, #[2, 3]⟩ := by decide +kernel

/-! ## §3 the hybrid elimination `_mzd_echelonize_m4ri(A, full, k, 1, threshold)` = `mzd_echelonize` -/

open M4RI

/-- what C02 demands of `mzd_echelonize_pluq(W, full)`: the matrix it leaves is well formed and accepted by
    `checkEchelon W · · full` (same shape; the value returned is the rank; same row space; row echelon form with
    zero rows from the rank on; THE reduced row echelon form when `full`) -/
def GoodPluqEch (pluqEch : BMat → Bool → BMat × Nat) : Prop :=
  ∀ (W : BMat) (full : Bool), W.WF →
    (pluqEch W full).1.WF ∧ checkEchelon W (pluqEch W full).1 (pluqEch W full).2 full = true

/-! ### helpers -/

theorem inSpan_testBit_false {L : List Nat} {q : Nat} (h : ∀ x, x ∈ L → x.testBit q = false) {v : Nat}
    (hv : InSpan L v) : v.testBit q = false := by
  induction hv with
  | zero => exact Nat.zero_testBit q
  | add hr _ ih => rw [Nat.testBit_xor, ih, h _ hr]; rfl

theorem inSpan_shift {L L' : List Nat} {s : Nat} (h : ∀ x, x ∈ L → (x <<< s) ∈ L') {v : Nat}
    (hv : InSpan L v) : InSpan L' (v <<< s) := by
  induction hv with
  | zero => rw [Nat.zero_shiftLeft]; exact InSpan.zero
  | add hr _ ih => rw [Nat.shiftLeft_xor_distrib]; exact InSpan.add (h _ hr) ih

theorem countP_range_le (p : Nat → Bool) (b : Nat) (h : ∀ k, b ≤ k → p k = false) (n : Nat) :
    (List.range n).countP p ≤ b := by
  induction n with
  | zero => simp
  | succ n ih =>
    rw [List.range_succ, List.countP_append]
    by_cases hn : n < b
    · have h1 : (List.range n).countP p ≤ n := by
        simpa using List.countP_le_length (p := p) (l := List.range n)
      have h2 : [n].countP p ≤ 1 := by simpa using List.countP_le_length (p := p) (l := [n])
      omega
    · simp [h n (by omega)]; exact ih

theorem shiftLeft_eq_zero {x s : Nat} (h : x <<< s = 0) : x = 0 := by
  rw [Nat.shiftLeft_eq] at h
  rcases Nat.mul_eq_zero.mp h with h | h
  · exact h
  · exact absurd h (Nat.ne_of_gt (Nat.two_pow_pos s))

theorem isLead_shift {a s p : Nat} (h : IsLead (a <<< s) p) : s ≤ p ∧ IsLead a (p - s) := by
  have h1 := h.1
  rw [Nat.testBit_shiftLeft] at h1
  simp only [Bool.and_eq_true, decide_eq_true_eq] at h1
  refine ⟨h1.1, h1.2, fun j hj => ?_⟩
  have := h.2 (j + s) (by omega)
  rw [Nat.testBit_shiftLeft] at this
  simpa using this

theorem echRel_shift {a b : Nat} (s : Nat) (h : EchRel a b) : EchRel (a <<< s) (b <<< s) := by
  refine ⟨fun h0 => by rw [h.1 (shiftLeft_eq_zero h0), Nat.zero_shiftLeft], fun p hp q hq => ?_⟩
  obtain ⟨h1, h2⟩ := isLead_shift hp
  rw [Nat.testBit_shiftLeft]
  by_cases c : s ≤ q
  · rw [h.2 (p - s) h2 (q - s) (by omega)]; simp
  · simp [c]

theorem redRel_shift {a b : Nat} (s : Nat) (h : RedRel a b) : RedRel (a <<< s) (b <<< s) := by
  intro p hp
  obtain ⟨h1, h2⟩ := isLead_shift hp
  rw [Nat.testBit_shiftLeft, h (p - s) h2]; simp

theorem echRel_zero_right (a : Nat) : EchRel a 0 :=
  ⟨fun _ => rfl, fun _ _ q _ => Nat.zero_testBit q⟩

theorem redRel_zero_right (a : Nat) : RedRel a 0 := fun c hc => absurd hc (not_isLead_zero c)

/-! ### the state after the hand-over to PLUQ -/

/-- the main-loop invariant still holds at `(r, c)`; below row `r` the matrix is in (reduced, when `full`) row
    echelon form with exactly `r2` non-zero rows -/
structure Tail (full : Bool) (A M : BMat) (r c r2 : Nat) : Prop where
  o : OInv full A M r c
  te : TE M r
  red : full = true → ∀ i j, r ≤ i → i < j → RedRel (M.row i) (M.row j)
  zero : ∀ i, r + r2 ≤ i → M.row i = 0
  nz : ∀ i, r ≤ i → i < r + r2 → M.row i ≠ 0
  le : r + r2 ≤ M.nrows

/-- the rows above are in echelon form relative to everything below: the whole matrix is in row echelon form -/
theorem Tail.done_ech {full : Bool} {A M : BMat} {r c r2 : Nat} (T : Tail full A M r c r2) :
    Done false A M (r + r2) := by
  refine ⟨T.o.wf, T.o.nr, T.o.nc, T.o.span, T.le, T.zero, fun i hi => ?_, fun i hi p hp i' hi' q hq => ?_,
    fun hf => Bool.noConfusion hf⟩
  · by_cases c1 : i < r
    · exact T.o.nz i c1
    · exact exists_isLead' (T.nz i (by omega) hi)
  · by_cases c1 : i < r
    · exact (T.o.ech i c1 p hp).2 i' hi' q hq
    · exact (T.te i i' (by omega) hi').2 p hp q hq

/-- with no rows above it is the reduced row echelon form when `full` -/
theorem Tail.done_zero {full : Bool} {A M : BMat} {c r2 : Nat} (T : Tail full A M 0 c r2) :
    Done full A M r2 := by
  have D := T.done_ech
  rw [Nat.zero_add] at D
  exact ⟨D.wf, D.nr, D.nc, D.span, D.rle, D.zero, D.nz, D.ech,
    fun hf i _ p hp i' hi' => T.red hf i' i (Nat.zero_le _) hi' p hp⟩

/-- **the hand-over**: in a state of the main loop, `mzd_echelonize_pluq` on the window
    `A[r.., 64·(c/64)..]` — any routine that meets C02 — leaves a `Tail` state -/
theorem handOver_spec {pluqEch : BMat → Bool → BMat × Nat} (hP : GoodPluqEch pluqEch) {full : Bool}
    {A M : BMat} {r c : Nat} (h : OInv full A M r c) :
    Tail full A (handOver pluqEch M r c full).1 r c (handOver pluqEch M r c full).2 := by
  unfold handOver
  simp only []
  generalize hc0 : 64 * (c / 64) = c0
  have hc0c : c0 ≤ c := by omega
  have hcle := h.cle
  have hrle := h.rle
  have hsz := h.wf.1
  have hW : (M.sub r c0 M.nrows M.ncols).WF := sub_WF _ _ _ _ _
  have hWr : (M.sub r c0 M.nrows M.ncols).nrows = M.nrows - r := by simp [sub]
  have hWc : (M.sub r c0 M.nrows M.ncols).ncols = M.ncols - c0 := by simp [sub]
  have hWget : ∀ i j, (M.sub r c0 M.nrows M.ncols).get i j =
      (decide (i < M.nrows - r ∧ j < M.ncols - c0) && M.get (r + i) (c0 + j)) := by
    intro i j
    rw [get_sub]
    have : min (M.nrows - r) (M.nrows - r) = M.nrows - r := Nat.min_self _
    rw [this]
  generalize M.sub r c0 M.nrows M.ncols = W at hW hWr hWc hWget
  obtain ⟨hW', hchk⟩ := hP W full hW
  obtain ⟨e_nr, e_nc, _, e_span, e_ech, e_cnt, e_zero, e_full⟩ := checkEchelon_sound hW hW' _ full hchk
  generalize pluqEch W full = o at hW' hchk e_nr e_nc e_span e_ech e_cnt e_zero e_full ⊢
  obtain ⟨W', r2⟩ := o
  simp only [] at hW' e_nr e_nc e_span e_ech e_cnt e_zero e_full ⊢
  rw [hWr] at e_nr; rw [hWc] at e_nc
  have sh : Shaped (M.paste r c0 W') M.nrows M.ncols := (Shaped.of h.wf).paste W' r c0 (by rw [e_nc]; omega)
  have hget : ∀ i j, (M.paste r c0 W').get i j =
      if r ≤ i ∧ i < M.nrows ∧ c0 ≤ j ∧ j < M.ncols then W'.get (i - r) (j - c0) else M.get i j := by
    intro i j
    rw [get_paste, hsz, e_nr, e_nc]
    by_cases c1 : r ≤ i ∧ i < M.nrows ∧ c0 ≤ j ∧ j < M.ncols
    · rw [if_pos (by omega), if_pos c1]
    · rw [if_neg (by omega), if_neg c1]
  generalize M.paste r c0 W' = M' at sh hget
  -- the rows
  have rowLow : ∀ i, i < r → M'.row i = M.row i := by
    intro i hi
    apply Nat.eq_of_testBit_eq
    intro j
    have := hget i j
    rw [if_neg (by omega)] at this
    exact this
  have rowM' : ∀ i, r ≤ i → i < M.nrows → M'.row i = W'.row (i - r) <<< c0 := by
    intro i h1 h2
    apply Nat.eq_of_testBit_eq
    intro j
    have e := hget i j
    unfold get at e
    rw [e, Nat.testBit_shiftLeft]
    by_cases c1 : c0 ≤ j
    · by_cases c2 : j < M.ncols
      · rw [if_pos ⟨h1, h2, c1, c2⟩]; simp [c1]
      · rw [if_neg (by omega)]
        have z1 := get_of_ge_ncols h.wf i j (by omega)
        have z2 := get_of_ge_ncols hW' (i - r) (j - c0) (by rw [e_nc]; omega)
        unfold get at z1 z2
        rw [z1, z2]; simp
    · rw [if_neg (by omega)]
      have z1 := h.low i h1 j (by omega)
      unfold get at z1
      rw [z1]; simp [c1]
  have rowM : ∀ i, r ≤ i → i < M.nrows → M.row i = W.row (i - r) <<< c0 := by
    intro i h1 h2
    apply Nat.eq_of_testBit_eq
    intro j
    rw [Nat.testBit_shiftLeft]
    have e := hWget (i - r) (j - c0)
    unfold get at e
    rw [e]
    by_cases c1 : c0 ≤ j
    · by_cases c2 : j < M.ncols
      · rw [decide_eq_true (by omega : i - r < M.nrows - r ∧ j - c0 < M.ncols - c0),
          show r + (i - r) = i by omega, show c0 + (j - c0) = j by omega]
        simp [c1]
      · have z1 := get_of_ge_ncols h.wf i j (by omega)
        unfold get at z1
        rw [z1, decide_eq_false (by omega : ¬ (i - r < M.nrows - r ∧ j - c0 < M.ncols - c0))]; simp
    · have z1 := h.low i h1 j (by omega)
      unfold get at z1
      rw [z1]; simp [c1]
  have rowHigh : ∀ i, M.nrows ≤ i → M'.row i = 0 := fun i hi => row_of_ge _ _ (by rw [sh.wf.1, sh.nr]; exact hi)
  have getLow : ∀ i j, i < r → M'.get i j = M.get i j := fun i j hi => by unfold get; rw [rowLow i hi]
  -- same row space
  have spanMM' : SameSpan M M' := by
    apply sameSpan_of_rows
    · intro i hi
      by_cases c1 : i < r
      · rw [← rowLow i c1]; exact row_inSpan M' i (by rw [sh.nr]; exact hi)
      · rw [rowM i (by omega) hi]
        apply inSpan_shift (L := W'.rowList) _ ((e_span _).mp (row_inSpan W (i - r) (by omega)))
        intro x hx
        obtain ⟨k, hk, rfl⟩ := mem_rowList.mp hx
        rw [e_nr] at hk
        refine mem_rowList.mpr ⟨r + k, by rw [sh.nr]; omega, ?_⟩
        rw [rowM' (r + k) (by omega) (by omega), Nat.add_sub_cancel_left]
    · intro i hi
      rw [sh.nr] at hi
      by_cases c1 : i < r
      · rw [rowLow i c1]; exact row_inSpan M i hi
      · rw [rowM' i (by omega) hi]
        apply inSpan_shift (L := W.rowList) _ ((e_span _).mpr (row_inSpan W' (i - r) (by rw [e_nr]; omega)))
        intro x hx
        obtain ⟨k, hk, rfl⟩ := mem_rowList.mp hx
        rw [hWr] at hk
        refine mem_rowList.mpr ⟨r + k, by omega, ?_⟩
        rw [rowM (r + k) (by omega) (by omega), Nat.add_sub_cancel_left]
  -- the rows from `r` on still vanish left of `c`
  have low' : ∀ i, r ≤ i → ∀ p, p < c → M'.get i p = false := by
    intro i hi p hp
    by_cases c1 : i < M.nrows
    · unfold get
      rw [rowM' i hi c1, Nat.testBit_shiftLeft]
      by_cases c2 : c0 ≤ p
      · have : (W'.row (i - r)).testBit (p - c0) = false := by
          apply inSpan_testBit_false _ ((e_span _).mpr (row_inSpan W' (i - r) (by rw [e_nr]; omega)))
          intro x hx
          obtain ⟨k, hk, rfl⟩ := mem_rowList.mp hx
          have e := hWget k (p - c0)
          unfold get at e
          rw [e]
          have z := h.low (r + k) (by omega) (c0 + (p - c0)) (by omega)
          unfold get at z
          rw [z]; simp
        rw [this]; simp
      · simp [c2]
    · exact get_of_ge_nrows sh.wf i p (by rw [sh.nr]; omega)
  have hO : OInv full A M' r c := by
    refine ⟨sh.wf, sh.nr.trans h.nr, sh.nc.trans h.nc, h.span.trans spanMM', by rw [sh.nr]; exact hrle,
      by rw [sh.nc]; exact hcle, low', fun i hi => by rw [rowLow i hi]; exact h.nz i hi, ?_, ?_⟩
    · intro i hi p hp
      rw [rowLow i hi] at hp
      obtain ⟨e1, e2⟩ := h.ech i hi p hp
      refine ⟨e1, fun i' hi' q hq => ?_⟩
      by_cases c1 : i' < r
      · rw [getLow i' q c1]; exact e2 i' hi' q hq
      · exact low' i' (by omega) q (by omega)
    · intro hf i hi p hp i' hi'
      rw [rowLow i hi] at hp
      rw [getLow i' p (by omega)]
      exact h.red hf i hi p hp i' hi'
  have hEch := (isRowEchelon_iff_rows hW').mp e_ech
  have r2le : r2 ≤ M.nrows - r := by
    rw [← e_cnt, ← e_nr]
    have := List.countP_le_length (p := fun v => v != 0) (l := W'.rowList)
    simpa using this
  -- the first `r2` rows of the echelon form are non-zero
  have nzW : ∀ k, k < r2 → W'.row k ≠ 0 := by
    intro k0 hk0 hz
    have hall : ∀ k, k0 ≤ k → (fun i => (fun v => v != 0) (W'.row i)) k = false := by
      intro k hk
      have : W'.row k = 0 := by
        by_cases c1 : k = k0
        · rw [c1]; exact hz
        · by_cases c2 : k < W'.nrows
          · exact (hEch k0 k (by omega) c2).1 hz
          · exact row_of_ge _ _ (by rw [hW'.1]; omega)
      simp [this]
    have := countP_range_le _ k0 hall W'.nrows
    unfold rowList at e_cnt
    rw [List.countP_map] at e_cnt
    have e : ((fun v => v != 0) ∘ W'.row) = (fun i => (fun v => v != 0) (W'.row i)) := rfl
    rw [e] at e_cnt
    omega
  refine ⟨hO, ?_, ?_, ?_, ?_, by rw [sh.nr]; omega⟩
  · intro i j hi hij
    by_cases c1 : j < M.nrows
    · rw [rowM' i hi (by omega), rowM' j (by omega) c1]
      exact echRel_shift c0 (hEch (i - r) (j - r) (by omega) (by rw [e_nr]; omega))
    · rw [rowHigh j (by omega)]; exact echRel_zero_right _
  · intro hf i j hi hij
    by_cases c1 : j < M.nrows
    · rw [rowM' i hi (by omega), rowM' j (by omega) c1]
      exact redRel_shift c0 (((isRREF_iff_rows hW').mp (e_full hf).1 (i - r) (j - r) (by omega)
        (by rw [e_nr]; omega)).2)
    · rw [rowHigh j (by omega)]; exact redRel_zero_right _
  · intro i hi
    by_cases c1 : i < M.nrows
    · rw [rowM' i (by omega) c1, e_zero (i - r) (by omega), Nat.zero_shiftLeft]
    · exact rowHigh i (by omega)
  · intro i h1 h2 hz
    rw [rowM' i h1 (by omega)] at hz
    exact nzW (i - r) (by omega) (shiftLeft_eq_zero hz)

/-! ### `_mzd_top_echelonize_m4ri(A, k, r0, c, r0)` on a tail in REDUCED row echelon form

  `topEchelonizeM4ri_done` (M4riElim.lean) asks `max_r ≥ nrows`; the hybrid elimination calls the routine with
  `max_r = r0`, the number of rows the M4RI loop had finished, so that only those rows are reduced by the tables.
  That is enough because the rows from `r0` on, left by `mzd_echelonize_pluq(·, 1)`, are reduced among themselves:
  `_mzd_gauss_submatrix_full` finds its pivots on the diagonal and changes nothing. -/

theorem clearAbove_noop (M : BMat) (r s j : Nat) (h : ∀ l, r ≤ l → l < s → M.get l j = false) :
    clearAbove M r s j = M := by
  unfold clearAbove
  have key : ∀ (L : List Nat), (∀ l, l ∈ L → M.get l j = false) →
      L.foldl (fun M l => if M.get l j then M.addRowFrom l s j else M) M = M := by
    intro L
    induction L with
    | nil => intro _; rfl
    | cons a L ih =>
      intro hL
      simp only [List.foldl_cons]
      rw [hL a List.mem_cons_self]
      simp only [Bool.false_eq_true, if_false]
      exact ih (fun l hl => hL l (List.mem_cons_of_mem _ hl))
  apply key
  intro l hl
  rw [List.mem_range'_1] at hl
  exact h l hl.1 (by omega)

/-- the pivot search of `_mzd_gauss_submatrix_full` on a reduced echelon tail changes nothing -/
theorem fullCols_noop {r c kk N : Nat} : ∀ (n t : Nat) (M : BMat), M.WF → N = M.nrows → t + n = kk →
    (∀ i, r + t ≤ i → ∀ p, p < c + t → M.get i p = false) → TE M (r + t) →
    (∀ i j, r ≤ i → i < j → RedRel (M.row i) (M.row j)) →
    (fullCols r c (min N (r + kk)) n (c + t) (r + t) M).1 = M := by
  intro n
  induction n with
  | zero => intro t M _ _ _ _ _ _; rfl
  | succ n ih =>
    intro t M hM hN htn hlow hT hR
    rw [fullCols]
    obtain ⟨f1, f2⟩ := fullRows_te hlow hT (min N (r + kk) - (r + t))
    by_cases hb : M.get (r + t) (c + t) = true
    · have hlt : r + t < M.nrows := by
        rcases Nat.lt_or_ge (r + t) M.nrows with h1 | h1
        · exact h1
        · rw [get_of_ge_nrows hM _ _ h1] at hb; exact Bool.noConfusion hb
      rw [f1 hb (by omega)]
      simp only [if_true]
      have e : clearAbove M r (r + t) (c + t) = M :=
        clearAbove_noop M r (r + t) (c + t) (fun l h1 h2 =>
          hR l (r + t) h1 h2 (c + t) ⟨hb, fun p hp => hlow (r + t) (Nat.le_refl _) p hp⟩)
      rw [e]
      exact ih (t + 1) M hM hN (by omega)
        (fun i hi p hp => te_lead hT (hlow (r + t) (Nat.le_refl _)) hb i (by omega) p (by omega))
        (fun i j hi hij => hT i j (by omega) hij) hR
    · have hb' : M.get (r + t) (c + t) = false := by simpa using hb
      rw [f2 hb']
      simp

/-- invariant of the loop of `_mzd_top_echelonize_m4ri(A, k, r0, c, r0)`: the `full` invariant of the main loop;
    the rows `≥ r0` are those of the initial matrix `Mi`, where they are in reduced row echelon form -/
structure TInv2 (A Mi M : BMat) (r0 r c : Nat) : Prop where
  o : OInv true A M r c
  tail : ∀ i, r0 ≤ i → M.row i = Mi.row i
  te : TE Mi r0
  rr : ∀ i j, r0 ≤ i → i < j → RedRel (Mi.row i) (Mi.row j)
  r0le : r0 ≤ r

theorem TInv2.teM {A Mi M : BMat} {r0 r c : Nat} (h : TInv2 A Mi M r0 r c) : TE M r := by
  intro i j hi hij
  have := h.r0le
  rw [h.tail i (by omega), h.tail j (by omega)]
  exact h.te i j (by omega) hij

theorem TInv2.rrM {A Mi M : BMat} {r0 r c : Nat} (h : TInv2 A Mi M r0 r c) :
    ∀ i j, r0 ≤ i → i < j → RedRel (M.row i) (M.row j) := by
  intro i j hi hij
  rw [h.tail i hi, h.tail j (by omega)]
  exact h.rr i j hi hij

theorem topStep_red {A Mi : BMat} {r0 : Nat} (k : Nat) (junk : Nat → Nat) (s : St)
    (h : TInv2 A Mi s.M r0 s.r s.c) (hc : s.c < s.M.ncols) (hkk : 1 ≤ s.kk) :
    TInv2 A Mi (topStep k r0 junk s).M r0 (topStep k r0 junk s).r (topStep k r0 junk s).c ∧
    s.c < (topStep k r0 junk s).c ∧ 1 ≤ (topStep k r0 junk s).kk ∧
    (topStep k r0 junk s).M.nrows = s.M.nrows ∧ (topStep k r0 junk s).M.ncols = s.M.ncols := by
  obtain ⟨M, r, c, kk0⟩ := s
  dsimp only at h hc hkk
  unfold topStep
  dsimp only
  generalize hkk' : (if c + kk0 > M.ncols then M.ncols - c else kk0) = kk
  have hclip1 : 1 ≤ kk := by rw [← hkk']; split <;> omega
  have hclip2 : c + kk ≤ M.ncols := by rw [← hkk']; split <;> omega
  have hr0 := h.r0le
  have h0 : Blk M M r c 0 := ⟨h.o.wf, rfl, rfl, SameSpan.refl M, fun _ _ => rfl, h.o.low, h.o.rle,
    fun l u hl => absurd hl (Nat.not_lt_zero _)⟩
  obtain ⟨_, G1, B, _, g5, g6⟩ := fullCols_te (M0 := M) (r := r) (c := c) (kk := kk) kk 0 M
    (by omega) h0 (by simpa using h.o.low) (by simpa using h.teM)
  have hno := fullCols_noop (r := r) (c := c) (kk := kk) (N := M.nrows) kk 0 M h.o.wf rfl (by omega)
    (by simpa using h.o.low) (by simpa using h.teM) (fun i j hi hij => h.rrM i j (by omega) hij)
  unfold gaussSubmatrixFull
  simp only [Nat.add_zero, Nat.zero_add] at G1 B g5 g6 hno
  generalize fullCols r c (min M.nrows (r + kk)) kk c r M = Mk at G1 B g5 g6 hno ⊢
  obtain ⟨M1, kb⟩ := Mk
  dsimp only at G1 B g5 g6 hno ⊢
  subst hno
  have hle := B.le
  have hrle := h.o.rle
  have hmin : min r r0 = r0 := Nat.min_eq_right hr0
  rw [hmin]
  -- the new pivot rows: row `r + u` leads in column `c + u`
  have hlead : ∀ u, u < kb → IsLead (M1.row (r + u)) (c + u) := by
    intro u hu
    refine ⟨?_, fun j hj => B.pivLow hu j hj⟩
    have := B.idn u u hu hu
    unfold get at this
    rw [this]; simp
  -- the rows above
  have F2 : ∃ M2, M2 = (if kb > 0 then processRows M1 0 r0 c kb (makeTables M1 r c junk (chunks k kb) 0)
        else M1) ∧
      M2.WF ∧ M2.nrows = M1.nrows ∧ M2.ncols = M1.ncols ∧ SameSpan M1 M2 ∧
      (∀ i, r0 ≤ i → M2.row i = M1.row i) ∧
      (∀ i p, p < c → M2.get i p = M1.get i p) ∧
      (∀ i, i < r0 → ∀ u, u < kb → M2.get i (c + u) = false) := by
    refine ⟨_, rfl, ?_⟩
    by_cases hk0 : kb > 0
    · rw [if_pos hk0]
      obtain ⟨q1, q2, q3, q4, q5⟩ := processRows_spec junk (chunks k kb) (chunks_sum k kb) B
        (M := M1) B.wf rfl rfl (fun _ _ => rfl) 0 r0 (by omega) (Or.inl hr0)
      refine ⟨q1, q2, q3, q4, fun i hi => by rw [q5, if_neg (by omega)], fun i p hp => ?_,
        fun i hi u hu => ?_⟩
      · unfold get
        rw [q5]
        split
        · exact redRow_low _ _ _ _ _ _ hp
        · rfl
      · unfold get
        rw [q5, if_pos ⟨Nat.zero_le _, hi⟩]
        exact redRow_blk B (by omega) _ u hu
    · rw [if_neg hk0]
      exact ⟨B.wf, rfl, rfl, SameSpan.refl _, fun _ _ => rfl, fun _ _ _ => rfl,
        fun i _ u hu => absurd hu (by omega)⟩
  obtain ⟨M2, hM2, w2, n2, c2, s2, r2, l2, a2⟩ := F2
  rw [← hM2]
  have hadv : OInv true A M2 (r + kb) (c + kb) := by
    apply h.o.advance w2 n2 c2 s2 (by omega) (by omega)
    · intro i hi p hp
      exact l2 i p hp
    · intro i hi p hp
      rw [l2 i p hp]; exact B.low i hi p hp
    · intro l hl
      unfold get; rw [r2 (r + l) (by omega)]
      exact (hlead l hl).1
    · intro l u hl hu
      unfold get; rw [r2 (r + l) (by omega)]
      have := B.idn l u hl (by omega)
      unfold get at this
      rw [this]; simp; omega
    · intro i hi u hu
      unfold get
      rw [r2 i (by omega)]
      exact g5 i hi (c + u) (by omega)
    · intro _ i hi u hu
      by_cases c1 : i < r0
      · exact a2 i c1 u hu
      · unfold get
        rw [r2 i (by omega)]
        exact h.rrM i (r + u) (by omega) (by omega) (c + u) (hlead u hu)
    · intro _ l u hlu hu
      unfold get; rw [r2 (r + l) (by omega)]
      have := B.idn l u (by omega) hu
      unfold get at this
      rw [this]; simp; omega
  have htail : ∀ i, r0 ≤ i → M2.row i = Mi.row i := by
    intro i hi
    rw [r2 i hi, h.tail i hi]
  refine ⟨⟨?_, htail, h.te, h.rr, by omega⟩, ?_, hclip1, by omega, by omega⟩
  · by_cases hne : kk ≠ kb
    · rw [if_pos hne]
      apply hadv.widen (by omega) (by omega)
      intro i hi p hp
      unfold get
      rw [r2 i (by omega)]
      by_cases hpc : p < c + kb
      · exact g5 i hi p hpc
      · have : p = c + kb := by omega
        rw [this]; exact g6 (by omega) i hi
    · rw [if_neg hne]; exact hadv
  · split <;> omega

theorem topLoop_red {A Mi : BMat} {r0 : Nat} (k : Nat) (junk : Nat → Nat) :
    ∀ (fuel : Nat) (s : St), TInv2 A Mi s.M r0 s.r s.c → 1 ≤ s.kk → s.M.ncols - s.c < fuel →
      Done true A (topLoop k r0 junk fuel s).M (topLoop k r0 junk fuel s).r := by
  intro fuel
  induction fuel with
  | zero => intro s _ _ hf; exact absurd hf (Nat.not_lt_zero _)
  | succ fuel ih =>
    intro s h hkk hf
    rw [topLoop]
    by_cases hc : s.c < s.M.ncols
    · rw [if_pos hc]
      obtain ⟨t1, t2, t3, _, t5⟩ := topStep_red k junk s h hc hkk
      exact ih _ t1 t3 (by omega)
    · rw [if_neg hc]
      apply Done.of_OInv h.o
      intro i hi p
      by_cases hp : p < s.c
      · exact h.o.low i hi p hp
      · exact get_of_ge_ncols h.o.wf i p (by have := h.o.cle; omega)

/-- **`_mzd_top_echelonize_m4ri(A, k, r, c, r)`** (`k ≥ 1`, `max_r = r`) started in a state of the `full` main loop
    whose rows `≥ r` are in REDUCED row echelon form: it ends with the reduced row echelon form of the row space
    and returns the rank. -/
theorem topEchelonizeM4ri_done_red {A M : BMat} {r c k : Nat} (junk : Nat → Nat) (hk : 1 ≤ k)
    (h : OInv true A M r c) (hT : TE M r) (hR : ∀ i j, r ≤ i → i < j → RedRel (M.row i) (M.row j)) :
    Done true A (topEchelonizeM4ri M k r c r junk).1 (topEchelonizeM4ri M k r c r junk).2 := by
  unfold topEchelonizeM4ri
  exact topLoop_red k junk (M.ncols + 1) ⟨M, r, c, 6 * k⟩ ⟨h, fun _ _ => rfl, hT, hR, Nat.le_refl _⟩
    (by show 1 ≤ 6 * k; omega) (by show M.ncols - c < M.ncols + 1; omega)

/-! ### the loop -/

/-- one pass of the M4RI loop (`M4RI.echStep`), as `echLoop_spec` uses it: either the invariant holds again, further
    right, or the loop has ended (`break`) in a final state -/
theorem echStep_spec {full : Bool} {k : Nat} {junk : Nat → Nat} (CS : CoreSpec full k junk) {A : BMat} (s : St)
    (h : OInv full A s.M s.r s.c) (hkk : 1 ≤ s.kk) (hc : s.c < s.M.ncols) :
    ((echStep full k junk s).2 = true →
      OInv full A (echStep full k junk s).1.M (echStep full k junk s).1.r (echStep full k junk s).1.c ∧
      1 ≤ (echStep full k junk s).1.kk ∧ (echStep full k junk s).1.M.ncols = s.M.ncols ∧
      s.c < (echStep full k junk s).1.c) ∧
    ((echStep full k junk s).2 = false →
      Done full A (echStep full k junk s).1.M (echStep full k junk s).1.r) := by
  rw [echStep_eq]
  have hclip1 : 1 ≤ clip s := by unfold clip; split <;> omega
  have hclip2 : s.c + clip s ≤ s.M.ncols := by unfold clip; split <;> omega
  obtain ⟨c1, c2, c3⟩ := CS A s.M s.r s.c (clip s) h hclip2
  generalize coreRaw full k junk s.M s.r s.c (clip s) = res at c1 c2 c3 ⊢
  obtain ⟨M', kb⟩ := res
  dsimp only at c1 c2 c3
  have hnc : M'.ncols = s.M.ncols := by rw [c2.nc, h.nc]
  unfold stepOf
  dsimp only
  by_cases hne : clip s ≠ kb
  · rw [if_pos hne]
    have hlt : kb < clip s := by omega
    split
    · rename_i rb cb hfp
      obtain ⟨p1, p2, p3, p4, p5, p6⟩ := findPivotB_some c2.wf hfp
      dsimp only
      have hcb : s.c < cb := by
        rcases Nat.lt_or_ge s.c cb with h1 | h1
        · exact h1
        · exfalso
          have hk0 : kb = 0 := by omega
          subst hk0
          have : cb = s.c + 0 := by omega
          rw [this, c3 hlt rb p1] at p5
          exact Bool.noConfusion p5
      refine ⟨fun _ => ⟨?_, hclip1, by rw [ncols_swapRows]; exact hnc, hcb⟩, fun hf => Bool.noConfusion hf⟩
      apply c2.swapWiden p3 (by omega) _ (Nat.le_refl _) (by omega) p1 p2
      intro i hi p hp
      by_cases hpc : p < s.c + kb
      · exact c2.low i hi p hpc
      · exact p6 i hi p (by omega) hp
    · rename_i hfp
      dsimp only
      refine ⟨fun hf => Bool.noConfusion hf, fun _ => ?_⟩
      apply Done.of_OInv c2
      intro i hi p
      by_cases hpc : p < s.c + kb
      · exact c2.low i hi p hpc
      · exact findPivotB_none c2.wf hfp i hi p (by omega)
  · rw [if_neg hne]
    dsimp only
    exact ⟨fun _ => ⟨c2, hclip1, hnc, by omega⟩, fun hf => Bool.noConfusion hf⟩

/-- **the loop of the hybrid elimination ends in a final state** — for every `switch`, every `pluqEch` that meets
    C02, every `k`-choice `ktop ≥ 1` of the finishing `_mzd_top_echelonize_m4ri` -/
theorem hybLoop_spec (switch : Nat → Nat → BMat → Bool) {pluqEch : BMat → Bool → BMat × Nat}
    (hP : GoodPluqEch pluqEch) {full : Bool} {k : Nat} (ktop : Nat → Nat) (hkt : ∀ r, 1 ≤ ktop r)
    (junk junkTop : Nat → Nat) (CS : CoreSpec full k junk) {A : BMat} (hA : A.WF) :
    ∀ (fuel : Nat) (s : St) (lc : Nat), OInv full A s.M s.r s.c → 1 ≤ s.kk → s.M.ncols - s.c < fuel →
      Done full A (hybLoop switch pluqEch full k ktop junk junkTop fuel s lc).1
        (hybLoop switch pluqEch full k ktop junk junkTop fuel s lc).2 := by
  intro fuel
  induction fuel with
  | zero => intro s _ _ _ hf; exact absurd hf (Nat.not_lt_zero _)
  | succ fuel ih =>
    intro s lc h hkk hf
    rw [hybLoop]
    by_cases hc : s.c < s.M.ncols
    · rw [if_pos hc]
      simp only []
      by_cases hsw : (decide (s.c > lc + 256) && decide (s.r < s.M.nrows) && switch s.r s.c s.M) = true
      · rw [if_pos hsw]
        have T := handOver_spec hP (full := full) h
        generalize handOver pluqEch s.M s.r s.c full = H at T
        cases full with
        | false =>
          simp only [Bool.false_eq_true, if_false]
          exact T.done_ech
        | true =>
          simp only [if_true]
          by_cases hr : s.r > 0
          · rw [if_pos hr]
            have D1 := T.done_ech
            have D2 := topEchelonizeM4ri_done_red junkTop (hkt s.r) T.o T.te (T.red rfl)
            have e1 := D1.rank_eq hA
            have e2 := D2.rank_eq hA
            rw [e1, ← e2]
            exact D2
          · rw [if_neg hr]
            have hr0 : s.r = 0 := by omega
            rw [hr0] at T ⊢
            rw [Nat.zero_add]
            exact T.done_zero
      · rw [if_neg hsw]
        obtain ⟨g1, g2⟩ := echStep_spec CS s h hkk hc
        generalize echStep full k junk s = sb at g1 g2
        by_cases hb : sb.2 = true
        · rw [if_pos hb]
          obtain ⟨o1, o2, o3, o4⟩ := g1 hb
          exact ih _ _ o1 o2 (by omega)
        · rw [if_neg hb]
          exact g2 (by simpa using hb)
    · rw [if_neg hc]
      apply Done.of_OInv h
      intro i hi p
      by_cases hp : p < s.c
      · exact h.low i hi p hp
      · exact get_of_ge_ncols h.wf i p (by have := h.cle; omega)

theorem coreSpec_any (full : Bool) (k : Nat) (junk : Nat → Nat) : CoreSpec full k junk := by
  cases full with
  | true => exact coreSpec_true k junk
  | false => exact coreSpec_false k junk

section hybrid
variable (switch : Nat → Nat → BMat → Bool) {pluqEch : BMat → Bool → BMat × Nat} (hP : GoodPluqEch pluqEch)
  {A : BMat} (hA : A.WF) (full : Bool) {k : Nat} (hk : 1 ≤ k) (ktop : Nat → Nat) (hkt : ∀ r, 1 ≤ ktop r)
  (junk junkTop : Nat → Nat)
include hP hA hk hkt

/-- the hybrid elimination ends in a final state of the M4RI loop (`Done`) -/
theorem echelonizeHybrid_done :
    Done full A (echelonizeHybrid switch pluqEch A full k ktop junk junkTop).1
      (echelonizeHybrid switch pluqEch A full k ktop junk junkTop).2 := by
  unfold echelonizeHybrid
  split
  · have T := handOver_spec hP (OInv.init hA full)
    exact T.done_zero
  · exact hybLoop_spec switch hP ktop hkt junk junkTop (coreSpec_any full k junk) hA (A.ncols + 1) ⟨A, 0, 0, 6 * k⟩ 0
      (OInv.init hA full) (by show 1 ≤ 6 * k; omega) (by show A.ncols - 0 < A.ncols + 1; omega)

/-- **C02 for `mzd_echelonize(A, full)` = `_mzd_echelonize_m4ri(A, full, k, 1, threshold)`**: for EVERY density
    decision `switch`, if `mzd_echelonize_pluq` meets C02 on every input then so does the hybrid routine: the
    matrix it leaves is well formed, of the shape of `A`, has the row space of `A`, is in row echelon form with zero
    rows from the rank on, the value returned is the rank — and with `full` it is THE reduced row echelon form. -/
theorem echelonizeHybrid_correct :
    (echelonizeHybrid switch pluqEch A full k ktop junk junkTop).1.WF ∧
    (echelonizeHybrid switch pluqEch A full k ktop junk junkTop).1.nrows = A.nrows ∧
    (echelonizeHybrid switch pluqEch A full k ktop junk junkTop).1.ncols = A.ncols ∧
    SameSpan A (echelonizeHybrid switch pluqEch A full k ktop junk junkTop).1 ∧
    (echelonizeHybrid switch pluqEch A full k ktop junk junkTop).1.isRowEchelon = true ∧
    (echelonizeHybrid switch pluqEch A full k ktop junk junkTop).2 = A.rank ∧
    (∀ i, (echelonizeHybrid switch pluqEch A full k ktop junk junkTop).2 ≤ i →
      (echelonizeHybrid switch pluqEch A full k ktop junk junkTop).1.row i = 0) ∧
    (full = true → (echelonizeHybrid switch pluqEch A full k ktop junk junkTop).1 = A.rref) ∧
    checkEchelon A (echelonizeHybrid switch pluqEch A full k ktop junk junkTop).1
      (echelonizeHybrid switch pluqEch A full k ktop junk junkTop).2 full = true := by
  have D := echelonizeHybrid_done switch hP hA full hk ktop hkt junk junkTop
  generalize echelonizeHybrid switch pluqEch A full k ktop junk junkTop = o at D
  have hrk := D.rank_eq hA
  refine ⟨D.wf, D.nr, D.nc, D.span, D.isRowEchelon, hrk, D.zero, ?_, ?_⟩
  · intro hf
    subst hf
    exact D.eq_rref hA
  · apply PN.checkEchelon_complete hA D.wf D.nr D.nc hrk D.zero D.span
    cases full with
    | true => simp only [if_true]; exact D.isRREF
    | false => simp only [Bool.false_eq_true, if_false]; exact D.isRowEchelon

end hybrid

/-- the `full` result in one line: for every `switch`, `(A.rref, A.rank)` -/
theorem echelonizeHybrid_full_eq (switch : Nat → Nat → BMat → Bool) {pluqEch : BMat → Bool → BMat × Nat}
    (hP : GoodPluqEch pluqEch) {A : BMat} (hA : A.WF) {k : Nat} (hk : 1 ≤ k) (ktop : Nat → Nat)
    (hkt : ∀ r, 1 ≤ ktop r) (junk junkTop : Nat → Nat) :
    echelonizeHybrid switch pluqEch A true k ktop junk junkTop = (A.rref, A.rank) := by
  obtain ⟨_, _, _, _, _, e1, _, e2, _⟩ := echelonizeHybrid_correct switch hP hA true hk ktop hkt junk junkTop
  exact Prod.ext (e2 rfl) e1

/-- `mzd_echelonize_pluq` over `_mzd_pluq` / `mzd_ple` over ANY good PLE routine meets C02 … -/
theorem goodPluqEch_of_goodPle {ple : BMat → BMat × Array Nat × Array Nat × Nat} (hple : GoodPle ple) :
    GoodPluqEch (fun W full => echelonizePluq (if full then pluqOfPle ple else ple) W full) :=
  fun _ full hW => echelonizePluq_check hple hW full

/-- … hence **the whole stack `mzd_echelonize` → `mzd_echelonize_pluq` → `_mzd_pluq` → `_mzd_ple`** is correct on
    top of any good PLE routine, whatever the density heuristic decides; e.g. over `_mzd_ple_naive` and over the
    block-recursive `_mzd_ple` on the naive base case -/
theorem echelonizeHybrid_over_ple (switch : Nat → Nat → BMat → Bool)
    {ple : BMat → BMat × Array Nat × Array Nat × Nat} (hple : GoodPle ple) {A : BMat} (hA : A.WF) {k : Nat}
    (hk : 1 ≤ k) :
    echelonizeHybrid switch (fun W full => echelonizePluq (if full then pluqOfPle ple else ple) W full) A true k =
      (A.rref, A.rank) :=
  echelonizeHybrid_full_eq switch (goodPluqEch_of_goodPle hple) hA hk _ (fun _ => hk) _ _

theorem echelonizeHybrid_over_pleRec_naive (switch : Nat → Nat → BMat → Bool) (baseCols cutoff baseRows fuel : Nat)
    {A : BMat} (hA : A.WF) {k : Nat} (hk : 1 ≤ k) :
    echelonizeHybrid switch (fun W full => echelonizePluq
      (if full then pluqOfPle (pleRec naiveBase baseCols cutoff baseRows fuel)
        else pleRec naiveBase baseCols cutoff baseRows fuel) W full) A true k = (A.rref, A.rank) :=
  echelonizeHybrid_over_ple switch (goodPle_pleRec_naive baseCols cutoff baseRows fuel) hA hk

/-! ### non-vacuity, and runs of the model through every branch of the hybrid loop -/

/-- `mzd_echelonize_pluq` over `_mzd_pluq` / `mzd_ple` over `_mzd_ple_naive` -/
def pluqEchNaive : BMat → Bool → BMat × Nat :=
  fun W full => echelonizePluq (if full then pluqOfPle naiveBase else naiveBase) W full

/-- the hypothesis `GoodPluqEch` of `echelonizeHybrid_correct` is satisfiable -/
theorem goodPluqEch_naive : GoodPluqEch pluqEchNaive := goodPluqEch_of_goodPle goodPle_naiveBase

/-- a `12 × 300` matrix: three rows with pivots in the columns 0, 1, 2; everything else lives in the columns from
    258 on.  The M4RI loop (`k = 1`) finds the three pivots, `mzd_find_pivot` jumps to column 258, and the density
    test is made at `(r, c) = (3, 258)`: the window handed to PLUQ starts at column 256. -/
def hybA : BMat :=
  let R := rnd 12 42 5
  ⟨12, 300, (Array.range 12).map fun i => (if i < 3 then 2 ^ i else 0) ||| ((R.row i % 2 ^ 42) <<< 258)⟩

/-- switch at the first loop test (`full`: then `_mzd_top_echelonize_m4ri` finishes the three rows above) … -/
example : echelonizeHybrid (fun _ c _ => decide (c > 256)) pluqEchNaive hybA true 1 = (hybA.rref, hybA.rank) :=
  echelonizeHybrid_full_eq _ goodPluqEch_naive
    (by
      apply WF_of_get
      · simp [hybA]
      · intro i j hj
        have hj' : 300 ≤ j := hj
        unfold hybA
        simp only []
        rw [get_mk_range, Nat.testBit_or, Nat.testBit_shiftLeft]
        have h1 : (if i < 3 then 2 ^ i else 0 : Nat).testBit j = false := by
          split
          · rw [Nat.testBit_two_pow]; simp; omega
          · exact Nat.zero_testBit j
        have h2 : ((rnd 12 42 5).row i % 2 ^ 42).testBit (j - 258) = false := by
          rw [Nat.testBit_mod_two_pow]; simp; omega
        rw [h1, h2]; simp)
    (Nat.le_refl 1) _ (fun _ => Nat.le_refl 1) _ _

#guard echelonizeHybrid (fun _ c _ => decide (c > 256)) pluqEchNaive hybA true 1 == (hybA.rref, hybA.rank)
#guard (echelonizeHybrid (fun _ c _ => decide (c > 256)) pluqEchNaive hybA false 1).2 == hybA.rank
#guard let o := echelonizeHybrid (fun _ c _ => decide (c > 256)) pluqEchNaive hybA false 1
  checkEchelon hybA o.1 o.2 false
-- the hand-over really happens in these runs: a `pluqEch` that does nothing changes the result
#guard echelonizeHybrid (fun _ c _ => decide (c > 256)) (fun W _ => (W, 0)) hybA true 1 != (hybA.rref, hybA.rank)
-- … switch before the loop, and no switch at all (pure M4RI)
#guard echelonizeHybrid (fun _ _ _ => true) pluqEchNaive hybA true 1 == (hybA.rref, hybA.rank)
#guard echelonizeHybrid (fun _ _ _ => false) pluqEchNaive hybA true 1 == (hybA.rref, hybA.rank)
#guard echelonizeHybrid (fun _ _ _ => false) pluqEchNaive hybA true 1 == M4RI.echelonizeM4ri hybA true 1

end G2
end BMat
end M4ri
