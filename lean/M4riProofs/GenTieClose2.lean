/-
  GenTieClose2: CLOSING THE RECURSION of `mzd_trtri_upper` (triangular.c) and of `_mzd_ple` (ple.c), by the method
  of GenTieClose: the C recursion unrolled `n` levels (the generated function with its recursive-call PARAMETER bound
  to itself one level down), a congruence lemma for the generated function, induction on `n` over ARBITRARY memories.

  §1  `mzd_trtri_upper`  (`Gen.C.trtriUpperRec`, the whole C function is generated text)
        `cTrtri rsU mu mr n`          depth 0: `liftM1 (trtriRec … 0)`; depth n+1: `Gen.C.trtriUpperRec` with
                                      `f_mzd_trtri_upper := cTrtri … n`, base routine := substitution form, the
                                      recursive-call parameters of the two TRANSLATED TRSM routines := the CLOSED
                                      recursions `cTrsmUL … mu`, `cTrsmUR … mr` of GenTieClose (any depths)
        `trtriUpperRec_callee_congr`  equality of the results whenever the three callees agree (`AgreeOn` the written
                                      region) on canonical records of arbitrary memories
        `trtriUpperRec_agree`         with lifted callees the function only looks at the rows and words of `U`
        `trtriUpperRec_step_view`     the one-step tie of GenTieGlue on a memory that is only known on `U`
        `cTrtri_raw` (induction), `cTrtri_view`, `cTrtri_correct` (= `trtriRec … n`, equality of memories),
        `cTrtri_inv` (= `trsmUpperRight U (identity n)`), `cTrtri_spec` (two-sided inverse), `cTrtri_window`
        Hypotheses: `U.WF`, `U.ncols = U.nrows`, `U.nrows * U.ncols < 2^64` (the `size_t` regime test is exact).
  §2  `_mzd_ple`  (ONLY the recursive branch `Gen.C.pleRecStep` is generated text; the top of the C function —
        `mzd_first_zero_row`, the two init loops, the regime test, the base case through a copy — is the HAND-WRITTEN
        dispatcher in `cPle`, mirroring `Rec.pleStep`)
        `PleAgree`                    results of `_mzd_ple` on an `r × c` record that no caller can tell apart
        `seg4_congr`, `seg3_congr`, `schurMem_agree`, `seg2_congr`, `pleRecStep_congr`
                                      congruence of the generated step in its memory, in its recursive-call parameter
                                      (against a lifted model function with the contract `GoodOut`) and in the callees
                                      of the translated `_mzd_trsm_lower_left`: EQUALITY of the four results
        `trsmLL_HT`                   the closed `cTrsmLL … mt` as recursive callee of `_mzd_trsm_lower_left`
        `cPle`, `cPle_raw` (induction), `cPle_view`, `cPle_correct` (= `pleRec base … n`: rank, memory (equality),
        `P`, `Q` at every non-negative index), `cPle_spec` (`Rec.GoodOut`), under `Rec.GoodBase base`.
  Core Lean tactics only.
-/
import M4riProofs.GenTieClose
import M4riProofs.GenTieGlue
import M4riProofs.GenTiePleFinal
set_option linter.unusedVariables false
namespace M4ri.GenTieClose2
open M4ri M4ri.Gen M4ri.GenTieMem M4ri.GenTieView M4ri.BMat M4ri.GenTieAlg M4ri.GenTieRec M4ri.GenTieClose
  M4ri.GenTieGlue

/-! ### 0. helpers -/

/-- write-backs of results that agree on the window keep two memories in agreement -/
theorem agree_unview {R W : Nat} {m m' : Mem} (h : AgreeOn R W m m') (r0 w0 : Int) (nr nw : Nat) {res res' : Mem}
    (hres : AgreeOn nr nw res res') :
    AgreeOn R W (CLoop.unview m r0 w0 (nr : Int) (nw : Int) res) (CLoop.unview m' r0 w0 (nr : Int) (nw : Int) res') := by
  rw [unview_congr m r0 w0 nr nw hres]
  exact h.unview _ _ _ _ rfl

theorem liftM1_congr_nat (op : BMat → BMat) {mA mA' : Mem} (ar aw : Nat) (ac : Int) (ah ah' : BitVec 64)
    (hA : AgreeOn ar aw mA mA') :
    liftM1 op ⟨mA, (ar : Int), ac, (aw : Int), ah⟩ = liftM1 op ⟨mA', (ar : Int), ac, (aw : Int), ah'⟩ := by
  unfold liftM1
  rw [ofView_congr (ar : Int) ac (aw : Int) ah ah' (by rw [toNat_cast, toNat_cast]; exact hA)]

theorem liftM1_raw (op : BMat → BMat) (mA : Mem) (ar ac : Nat) :
    liftM1 op ⟨mA, (ar : Int), (ac : Int), (((ac + 63) / 64 : Nat) : Int), leftMask (ac % 64)⟩
      = memOf ((rawM mA ar ac).putB (op (rawM mA ar ac).toB)) := rfl

/-! ### 1. `mzd_trtri_upper` -/

/-- the base routine `mzd_trtri_upper_russian` of the tie: the substitution form -/
abbrev trtriRuss : CLoop.MView → Int → Mem :=
  fun U _ => liftM1 (fun U => trsmUpperRight U (identity U.nrows)) U

/-- the model recursion with the constants of the C build -/
abbrev trtriM (n : Nat) : BMat → BMat := Rec.trtriRec (2 * 56623104) 2048 64 2048 true n

/-- **the C recursion `mzd_trtri_upper` unrolled `n` levels** -/
def cTrtri (rsU : Int) (mu mr : Nat) : Nat → CLoop.MView → Mem
  | 0 => liftM1 (trtriM 0)
  | n + 1 => fun U =>
      Gen.C.trtriUpperRec U.mem U.nrows U.ncols U.width U.hb trtriRuss rsU ulRuss
        (cTrsmUL ulRuss addmulM rsU rsU mu) addmulM urBase urTrtri (cTrsmUR urBase urTrtri addmulM rsU rsU mr) addmulM
        (cTrtri rsU mu mr n)

theorem trtriUpperRec_callee_congr (rsU : Int) (nb : Nat) (hex : nb * nb < 2 ^ 64) (mU : Mem) (hbU : BitVec 64)
    (russ : CLoop.MView → Int → Mem) (fruss : CLoop.MView → CLoop.MView → Int → Mem)
    (fUL gUL : CLoop.MView → CLoop.MView → Int → Mem)
    (addmul1 : CLoop.MView → CLoop.MView → CLoop.MView → Int → Mem)
    (base trtri : CLoop.MView → CLoop.MView → Mem) (fUR gUR : CLoop.MView → CLoop.MView → Int → Mem)
    (addmul2 : CLoop.MView → CLoop.MView → CLoop.MView → Int → Mem) (ft gt : CLoop.MView → Mem)
    (HUL : ∀ (k c : Nat) (mU' mB' : Mem), 1 ≤ c → AgreeOn k ((c + 63) / 64)
      (fUL ⟨mU', (k : Int), (k : Int), (((k + 63) / 64 : Nat) : Int), leftMask (k % 64)⟩
        ⟨mB', (k : Int), (c : Int), (((c + 63) / 64 : Nat) : Int), leftMask (c % 64)⟩ 0)
      (gUL ⟨mU', (k : Int), (k : Int), (((k + 63) / 64 : Nat) : Int), leftMask (k % 64)⟩
        ⟨mB', (k : Int), (c : Int), (((c + 63) / 64 : Nat) : Int), leftMask (c % 64)⟩ 0))
    (HUR : ∀ (k r : Nat) (mU' mB' : Mem), AgreeOn r ((k + 63) / 64)
      (fUR ⟨mU', (k : Int), (k : Int), (((k + 63) / 64 : Nat) : Int), leftMask (k % 64)⟩
        ⟨mB', (r : Int), (k : Int), (((k + 63) / 64 : Nat) : Int), leftMask (k % 64)⟩ 0)
      (gUR ⟨mU', (k : Int), (k : Int), (((k + 63) / 64 : Nat) : Int), leftMask (k % 64)⟩
        ⟨mB', (r : Int), (k : Int), (((k + 63) / 64 : Nat) : Int), leftMask (k % 64)⟩ 0))
    (HT : ∀ (k : Nat) (mU' : Mem), 0 < k → k < nb → AgreeOn k ((k + 63) / 64)
      (ft ⟨mU', (k : Int), (k : Int), (((k + 63) / 64 : Nat) : Int), leftMask (k % 64)⟩)
      (gt ⟨mU', (k : Int), (k : Int), (((k + 63) / 64 : Nat) : Int), leftMask (k % 64)⟩)) :
    Gen.C.trtriUpperRec mU nb nb (((nb + 63) / 64 : Nat) : Int) hbU russ rsU fruss fUL addmul1 base trtri fUR addmul2 ft
      = Gen.C.trtriUpperRec mU nb nb (((nb + 63) / 64 : Nat) : Int) hbU russ rsU fruss gUL addmul1 base trtri gUR
        addmul2 gt := by
  unfold Gen.C.trtriUpperRec
  dsimp_m
  simp_m [regime_eq _ _ hex, trtriSplit_eq]
  by_cases hreg : nb * nb < 2 * 56623104
  · rw [if_pos (by simpa using hreg), if_pos (by simpa using hreg)]
  · rw [if_neg (by simpa using hreg), if_neg (by simpa using hreg)]
    obtain ⟨hk, hk64, hk0⟩ := trtriSplit_lt nb hreg
    generalize Rec.trtriSplit nb true = n2 at *
    rw [mzdInitWindow_in 0 0 n2 n2 nb rsU 0 0 n2 n2 nb rfl rfl rfl rfl rfl (by omega) (by omega) (by omega)
        (by omega),
      mzdInitWindow_in 0 n2 n2 nb nb rsU 0 n2 n2 nb nb rfl rfl rfl rfl rfl hk64 (by omega) (by omega) (by omega),
      mzdInitWindow_in n2 n2 nb nb nb rsU n2 n2 nb nb nb rfl rfl rfl rfl rfl hk64 (by omega) (by omega) (by omega)]
    dsimp_m
    norm_win'
    rw [trsmUpperLeftRec_callee_congr 0 rsU rsU n2 (nb - n2) _ _ _ _ fruss fUL gUL addmul1
      (fun k mU' mB' _ _ => HUL k (nb - n2) mU' mB' (by omega))]
    rw [trsmUpperRightRec_callee_congr 0 rsU rsU n2 (nb - n2) _ _ _ _ base trtri fUR gUR addmul2
      (fun k mU' mB' _ _ => HUR k n2 mU' mB')]
    rw [unview_congr _ _ _ n2 ((n2 + 63) / 64) (HT n2 _ hk0 hk)]
    rw [unview_congr _ _ _ (nb - n2) ((nb - n2 + 63) / 64) (HT (nb - n2) _ (by omega) (by omega))]

/-- `mzd_trtri_upper` with lifted callees only looks at the rows and words of its argument -/
theorem trtriUpperRec_agree (rsU : Int) (nb : Nat) (hex : nb * nb < 2 ^ 64) (mU mU' : Mem) (hbU : BitVec 64)
    (hU : AgreeOn nb ((nb + 63) / 64) mU mU')
    (opR opT : BMat → BMat) (op1 op2 op4 op5 op6 : BMat → BMat → BMat) (op3 op7 : BMat → BMat → BMat → BMat) :
    AgreeOn nb ((nb + 63) / 64)
      (Gen.C.trtriUpperRec mU nb nb (((nb + 63) / 64 : Nat) : Int) hbU (fun U _ => liftM1 opR U) rsU
        (fun U B _ => liftM2 op1 U B) (fun U B _ => liftM2 op2 U B) (fun C A B _ => liftM3 op3 C A B)
        (liftM2 op4) (liftM2 op5) (fun U B _ => liftM2 op6 U B) (fun C A B _ => liftM3 op7 C A B) (liftM1 opT))
      (Gen.C.trtriUpperRec mU' nb nb (((nb + 63) / 64 : Nat) : Int) hbU (fun U _ => liftM1 opR U) rsU
        (fun U B _ => liftM2 op1 U B) (fun U B _ => liftM2 op2 U B) (fun C A B _ => liftM3 op3 C A B)
        (liftM2 op4) (liftM2 op5) (fun U B _ => liftM2 op6 U B) (fun C A B _ => liftM3 op7 C A B) (liftM1 opT)) := by
  unfold Gen.C.trtriUpperRec
  dsimp_m
  simp_m [regime_eq _ _ hex, trtriSplit_eq]
  by_cases hreg : nb * nb < 2 * 56623104
  · rw [if_pos (by simpa using hreg), if_pos (by simpa using hreg),
      liftM1_congr_nat opR nb ((nb + 63) / 64) _ hbU hbU hU]
    exact AgreeOn.refl _ _ _
  · rw [if_neg (by simpa using hreg), if_neg (by simpa using hreg)]
    obtain ⟨hk, hk64, hk0⟩ := trtriSplit_lt nb hreg
    generalize Rec.trtriSplit nb true = n2 at *
    rw [mzdInitWindow_in 0 0 n2 n2 nb rsU 0 0 n2 n2 nb rfl rfl rfl rfl rfl (by omega) (by omega) (by omega)
        (by omega),
      mzdInitWindow_in 0 n2 n2 nb nb rsU 0 n2 n2 nb nb rfl rfl rfl rfl rfl hk64 (by omega) (by omega) (by omega),
      mzdInitWindow_in n2 n2 nb nb nb rsU n2 n2 nb nb nb rfl rfl rfl rfl rfl hk64 (by omega) (by omega) (by omega)]
    dsimp_m
    norm_win'
    have a1 := agree_unview hU ((0 : Nat) : Int) ((n2 / 64 : Nat) : Int) n2 ((nb - n2 + 63) / 64)
      (trsmUpperLeftRec_agree 0 rsU rsU n2 (nb - n2) _ _ _ _ (leftMask (n2 % 64)) (leftMask ((nb - n2) % 64))
        (by omega) (hU.view 0 (n2 / 64) n2 ((nb - n2 + 63) / 64) (by omega) (by omega))
        (hU.view 0 0 n2 ((n2 + 63) / 64) (by omega) (by omega)) op1 op2 op3)
    have a2 := agree_unview a1 ((0 : Nat) : Int) ((n2 / 64 : Nat) : Int) n2 ((nb - n2 + 63) / 64)
      (trsmUpperRightRec_agree 0 rsU rsU n2 (nb - n2) _ _ _ _ (leftMask ((nb - n2) % 64))
        (leftMask ((nb - n2) % 64)) (a1.view 0 (n2 / 64) n2 ((nb - n2 + 63) / 64) (by omega) (by omega))
        (a1.view n2 (n2 / 64) (nb - n2) ((nb - n2 + 63) / 64) (by omega) (by omega)) op4 op5 op6 op7)
    have a3 := AgreeOn.unview a2 ((0 : Nat) : Int) ((0 : Nat) : Int) ((n2 : Nat) : Int)
      (((n2 + 63) / 64 : Nat) : Int)
      (liftM1_congr_nat opT n2 ((n2 + 63) / 64) ((n2 : Nat) : Int) (leftMask (n2 % 64)) (leftMask (n2 % 64))
        (a2.view 0 0 n2 ((n2 + 63) / 64) (by omega) (by omega)))
    exact AgreeOn.unview a3 ((n2 : Nat) : Int) ((n2 / 64 : Nat) : Int) ((nb - n2 : Nat) : Int)
      (((nb - n2 + 63) / 64 : Nat) : Int)
      (liftM1_congr_nat opT (nb - n2) ((nb - n2 + 63) / 64) ((nb - n2 : Nat) : Int) (leftMask ((nb - n2) % 64))
        (leftMask ((nb - n2) % 64)) (a3.view n2 (n2 / 64) (nb - n2) ((nb - n2 + 63) / 64) (by omega) (by omega)))

/-- one step of `mzd_trtri_upper` on a memory that is only known on the rows and words of `U` -/
theorem trtriUpperRec_step_view (fuel g : Nat) (rsU : Int) (U : Mzd) (hU : U.WF) (hsq : U.ncols = U.nrows)
    (hex : U.nrows * U.ncols < 2 ^ 64) (mU : Mem) (hmU : AgreeOn U.nrows U.width mU (memOf U)) :
    AgreeOn U.nrows U.width
      (Gen.C.trtriUpperRec mU U.nrows U.ncols U.width U.hb trtriRuss rsU ulRuss
        (fun U B _ => liftM2 (Rec.trsmUpperLeftRec 2048 g) U B) addmulM urBase urTrtri
        (fun U B _ => liftM2 (Rec.trsmUpperRightRec 64 2048 g) U B) addmulM (liftM1 (trtriM fuel)))
      (memOf (U.putB (trtriM (fuel + 1) U.toB))) := by
  rw [← trtriUpperRec_step fuel g rsU U hU hsq hex]
  have hw : U.width = (U.nrows + 63) / 64 := by unfold Mzd.width widthOf; rw [hsq]
  rw [hw] at hmU
  rw [hsq, hw]
  rw [hsq] at hex
  exact trtriUpperRec_agree rsU U.nrows hex mU (memOf U) U.hb hmU _ _ _ _ _ _ _ _ _

/-- the model's `_mzd_trsm_upper_right` recursion does not depend on the fuel: two lifted callees coincide on
    conforming canonical records -/
theorem liftM2_ur_fuel (g g' : Nat) (mU mB : Mem) (r k : Nat) :
    liftM2 (Rec.trsmUpperRightRec 64 2048 g)
        ⟨mU, (k : Int), (k : Int), (((k + 63) / 64 : Nat) : Int), leftMask (k % 64)⟩
        ⟨mB, (r : Int), (k : Int), (((k + 63) / 64 : Nat) : Int), leftMask (k % 64)⟩
      = liftM2 (Rec.trsmUpperRightRec 64 2048 g')
        ⟨mU, (k : Int), (k : Int), (((k + 63) / 64 : Nat) : Int), leftMask (k % 64)⟩
        ⟨mB, (r : Int), (k : Int), (((k + 63) / 64 : Nat) : Int), leftMask (k % 64)⟩ := by
  rw [liftM2_raw, liftM2_raw,
    Rec.trsmUpperRightRec_eq 64 2048 g (Mzd.WF_toB (rawM_WF mB r k)) (by simp),
    Rec.trsmUpperRightRec_eq 64 2048 g' (Mzd.WF_toB (rawM_WF mB r k)) (by simp)]

theorem sq_lt_of_lt {k nb : Nat} (hk : k < nb) (hex : nb * nb < 2 ^ 64) : k * k < 2 ^ 64 :=
  Nat.lt_of_le_of_lt (Nat.mul_le_mul (Nat.le_of_lt hk) (Nat.le_of_lt hk)) hex

/-- **the induction**: at every depth `n` (and every depth `mu`, `mr` of the two closed TRSM recursions), on the
    canonical record of an ARBITRARY memory, the unrolled C recursion agrees with the model's recursion at fuel `n`
    run on what the record shows -/
theorem cTrtri_raw (rsU : Int) (mu mr : Nat) (n : Nat) : ∀ (nb : Nat) (hex : nb * nb < 2 ^ 64) (mU : Mem),
    AgreeOn nb ((nb + 63) / 64)
      (cTrtri rsU mu mr n ⟨mU, (nb : Int), (nb : Int), (((nb + 63) / 64 : Nat) : Int), leftMask (nb % 64)⟩)
      (liftM1 (trtriM n) ⟨mU, (nb : Int), (nb : Int), (((nb + 63) / 64 : Nat) : Int), leftMask (nb % 64)⟩) := by
  induction n with
  | zero => intro nb hex mU; exact AgreeOn.refl _ _ _
  | succ n ih =>
    intro nb hex mU
    show AgreeOn nb ((nb + 63) / 64)
      (Gen.C.trtriUpperRec mU nb nb (((nb + 63) / 64 : Nat) : Int) (leftMask (nb % 64)) trtriRuss rsU ulRuss
        (cTrsmUL ulRuss addmulM rsU rsU mu) addmulM urBase urTrtri (cTrsmUR urBase urTrtri addmulM rsU rsU mr)
        addmulM (cTrtri rsU mu mr n)) _
    rw [trtriUpperRec_callee_congr rsU nb hex mU _ trtriRuss ulRuss (cTrsmUL ulRuss addmulM rsU rsU mu)
      (fun U B _ => liftM2 (Rec.trsmUpperLeftRec 2048 mu) U B) addmulM urBase urTrtri
      (cTrsmUR urBase urTrtri addmulM rsU rsU mr) (fun U B _ => liftM2 (Rec.trsmUpperRightRec 64 2048 mu) U B)
      addmulM (cTrtri rsU mu mr n) (liftM1 (trtriM n))
      (fun k c mU' mB' hc => cTrsmUL_raw rsU rsU mu 0 k c hc mU' mB')
      (fun k r mU' mB' => by
        show AgreeOn r ((k + 63) / 64) _ (liftM2 (Rec.trsmUpperRightRec 64 2048 mu) _ _)
        rw [liftM2_ur_fuel mu mr]
        exact cTrsmUR_raw rsU rsU mr 0 r k mU' mB')
      (fun k mU' _ hk => ih k (sq_lt_of_lt hk hex) mU')]
    have h := trtriUpperRec_step_view n mu rsU (rawM mU nb nb) (rawM_WF _ _ _) (by simp) (by simpa using hex) mU
      (by simpa using agree_rawM mU nb nb)
    simp only [nrows_rawM, ncols_rawM, width_rawM, hb_rawM] at h
    exact h

/-- **every depth, on views**: for a well-formed square `U` and a memory that coincides with its memory on the rows
    and words of `U`, the unrolled C recursion agrees with the model's recursion at fuel `n` -/
theorem cTrtri_view (rsU : Int) (mu mr n : Nat) (U : Mzd) (hU : U.WF) (hsq : U.ncols = U.nrows)
    (hex : U.nrows * U.ncols < 2 ^ 64) (mU : Mem) (hmU : AgreeOn U.nrows U.width mU (memOf U)) :
    AgreeOn U.nrows U.width (cTrtri rsU mu mr n ⟨mU, U.nrows, U.ncols, U.width, U.hb⟩)
      (memOf (U.putB (trtriM n U.toB))) := by
  have hw : U.width = (U.nrows + 63) / 64 := by unfold Mzd.width widthOf; rw [hsq]
  have hh : U.hb = leftMask (U.nrows % 64) := by unfold Mzd.hb; rw [hsq]
  rw [← liftM1_of _ U hU]
  rw [hw] at hmU
  rw [hsq] at hex
  rw [hsq, hw, hh]
  refine (cTrtri_raw rsU mu mr n U.nrows hex mU).trans ?_
  rw [liftM1_congr_nat (trtriM n) U.nrows ((U.nrows + 63) / 64) _ _ _ hmU]
  exact AgreeOn.refl _ _ _

/-- **`mzd_trtri_upper`, the C recursion at every depth (any depths `mu`, `mr` of the closed TRSM recursions), on a
    whole matrix = the model's recursion at fuel `n`** (equality of the memories) -/
theorem cTrtri_correct (rsU : Int) (mu mr n : Nat) (U : Mzd) (hU : U.WF) (hsq : U.ncols = U.nrows)
    (hex : U.nrows * U.ncols < 2 ^ 64) :
    cTrtri rsU mu mr n (CLoop.MView.of U)
      = memOf (U.putB (Rec.trtriRec (2 * 56623104) 2048 64 2048 true n U.toB)) := by
  cases n with
  | zero => exact liftM1_of _ U hU
  | succ n =>
    rw [← trtriUpperRec_step n mu rsU U hU hsq hex]
    have hw : U.width = (U.nrows + 63) / 64 := by unfold Mzd.width widthOf; rw [hsq]
    show Gen.C.trtriUpperRec (memOf U) U.nrows U.ncols U.width U.hb trtriRuss rsU ulRuss
        (cTrsmUL ulRuss addmulM rsU rsU mu) addmulM urBase urTrtri (cTrsmUR urBase urTrtri addmulM rsU rsU mr)
        addmulM (cTrtri rsU mu mr n) = _
    rw [hsq] at hex
    rw [hsq, hw]
    exact trtriUpperRec_callee_congr rsU U.nrows hex (memOf U) _ trtriRuss ulRuss _ _ addmulM urBase urTrtri _ _
      addmulM _ _
      (fun k c mU' mB' hc => cTrsmUL_raw rsU rsU mu 0 k c hc mU' mB')
      (fun k r mU' mB' => by
        show AgreeOn r ((k + 63) / 64) _ (liftM2 (Rec.trsmUpperRightRec 64 2048 mu) _ _)
        rw [liftM2_ur_fuel mu mr]
        exact cTrsmUR_raw rsU rsU mr 0 r k mU' mB')
      (fun k mU' _ hk => cTrtri_raw rsU mu mr n k (sq_lt_of_lt hk hex) mU')

/-- … hence, for `U` with zero strictly lower triangle (the stored diagonal is arbitrary), THE INVERSE of the unit
    upper triangular matrix by back substitution on the identity, for every depth -/
theorem cTrtri_inv (rsU : Int) (mu mr n : Nat) (U : Mzd) (hU : U.WF) (hsq : U.ncols = U.nrows)
    (hex : U.nrows * U.ncols < 2 ^ 64) (hlow : ∀ i j, j < i → U.toB.get i j = false) :
    cTrtri rsU mu mr n (CLoop.MView.of U) = memOf (U.putB (trsmUpperRight U.toB (identity U.nrows))) := by
  rw [cTrtri_correct rsU mu mr n U hU hsq hex,
    Rec.trtriRec_eq _ _ _ _ _ n (Mzd.WF_toB hU) (by rw [Mzd.ncols_toB, Mzd.nrows_toB, hsq]) hlow]
  rfl

/-- … and what is stored is a two-sided inverse of `unitUpper U`, itself unit upper triangular -/
theorem cTrtri_spec (rsU : Int) (mu mr n : Nat) (U : Mzd) (hU : U.WF) (hsq : U.ncols = U.nrows)
    (hex : U.nrows * U.ncols < 2 ^ 64) (hlow : ∀ i j, j < i → U.toB.get i j = false) :
    ∃ V : BMat, cTrtri rsU mu mr n (CLoop.MView.of U) = memOf (U.putB V) ∧ V.WF ∧ V.nrows = U.nrows ∧
      V.ncols = U.nrows ∧ V.mul (unitUpper U.toB) = identity U.nrows ∧ (unitUpper U.toB).mul V = identity U.nrows ∧
      unitUpper V = V := by
  have h := Rec.trtriRec_spec (2 * 56623104) 2048 64 2048 true n (Mzd.WF_toB hU)
    (by rw [Mzd.ncols_toB, Mzd.nrows_toB, hsq]) hlow
  simp only [Mzd.nrows_toB] at h
  exact ⟨_, cTrtri_correct rsU mu mr n U hU hsq hex, h⟩

/-- the unrolled C recursion called on a square window of a parent (as its callers and itself do), result written
    back into `A`: the model's recursion on the window value, for every depth -/
theorem cTrtri_window (rsU : Int) (mu mr n : Nat) (A : Mzd) (hA : A.WF) (lr lc hr hc : Nat)
    (hW : InWin A lr lc hr hc) (hsq : hc - lc = hr - lr) (hex : (hr - lr) * (hc - lc) < 2 ^ 64) :
    CLoop.unview (memOf A) (lr : Int) ((lc / 64 : Nat) : Int) ((hr - lr : Nat) : Int)
        (((hc - lc + 63) / 64 : Nat) : Int) (cTrtri rsU mu mr n (winView (memOf A) lr lc hr hc))
      = memOf (A.putB (A.toB.paste lr lc (trtriM n (A.toB.sub lr lc hr hc)))) := by
  have hBs : Shaped (A.toB.sub lr lc hr hc) (hr - lr) (hr - lr) := by
    have := (shaped_toB hA).sub lr lc hr hc hW.hr
    rwa [hsq] at this
  have hX := shaped_trtriRec n hBs
  apply unview_window_of_agree A hA lr lc hr hc hW.lc hW.hr hW.hc _ hX.nr (by rw [hX.nc, hsq])
  have h := cTrtri_view rsU mu mr n (A.window lr lc hr hc) (window_WF _ _ _ _ _) (by simp [hsq])
    (by simpa using hex) _ (view_agree_window A lr lc hr hc)
  simp only [nrows_window, ncols_window, width_window, hb_window] at h
  rw [window_toB A lr lc hr hc hW.lc hW.hr hW.hc] at h
  exact h

/-! ### 2. `_mzd_ple` -/

open M4ri.GenTiePle M4ri.GenTieTab M4ri.GenTieSlice

/-- the type of `_mzd_ple` as a callee: record, `P`, `Q`, cutoff ↦ rank, memory, `P`, `Q` -/
abbrev PleFn := CLoop.MView → (Int → Int) → (Int → Int) → Int → Int × Mem × (Int → Int) × (Int → Int)

/-- two results of `_mzd_ple` on an `r × c` record that a caller cannot tell apart: same rank, the memories agree on
    the rows and words of the record, the permutations on `[0, r)`, `[0, c)` -/
def PleAgree (r c : Nat) (o o' : Int × Mem × (Int → Int) × (Int → Int)) : Prop :=
  o.1 = o'.1 ∧ AgreeOn r ((c + 63) / 64) o.2.1 o'.2.1 ∧ (∀ i : Int, 0 ≤ i → i < r → o.2.2.1 i = o'.2.2.1 i) ∧
    (∀ i : Int, 0 ≤ i → i < c → o.2.2.2 i = o'.2.2.2 i)

theorem PleAgree.refl (r c : Nat) (o : Int × Mem × (Int → Int) × (Int → Int)) : PleAgree r c o o :=
  ⟨rfl, AgreeOn.refl _ _ _, fun _ _ _ => rfl, fun _ _ _ => rfl⟩

theorem liftPle_congr_nat (rec : BMat → Rec.Out) {m m' : Mem} (r w : Nat) (c : Int) (h h' : BitVec 64)
    (hA : AgreeOn r w m m') (P Q P' Q' : Int → Int) (cu cu' : Int) :
    liftPle rec ⟨m, (r : Int), c, (w : Int), h⟩ P Q cu = liftPle rec ⟨m', (r : Int), c, (w : Int), h'⟩ P' Q' cu' := by
  unfold liftPle
  rw [ofView_congr (r : Int) c (w : Int) h h' (by rw [toNat_cast, toNat_cast]; exact hA)]

theorem liftCompress_congr_nat {m m' : Mem} (r w : Nat) (c : Int) (h h' : BitVec 64)
    (hA : AgreeOn r w m m') (a b d : Int) :
    liftCompress ⟨m, (r : Int), c, (w : Int), h⟩ a b d = liftCompress ⟨m', (r : Int), c, (w : Int), h'⟩ a b d := by
  unfold liftCompress
  rw [ofView_congr (r : Int) c (w : Int) h h' (by rw [toNat_cast, toNat_cast]; exact hA)]

/-- the last part of the generated step only looks at the rows and words of the matrix (through `_mzd_compress_l`) -/
theorem seg4_congr {m m' : Mem} (nrows ncols : Nat) (hm : AgreeOn nrows ((ncols + 63) / 64) m m') (P Q : Int → Int)
    (nr nc r1 n1 r2 pb qb : Int) (hb : BitVec 64) :
    seg4 m P Q nr nc r1 n1 r2 pb qb nrows ncols (((ncols + 63) / 64 : Nat) : Int) hb liftCompress
      = seg4 m' P Q nr nc r1 n1 r2 pb qb nrows ncols (((ncols + 63) / 64 : Nat) : Int) hb liftCompress := by
  unfold seg4
  dsm
  rw [liftCompress_congr_nat nrows ((ncols + 63) / 64) _ hb hb hm]

/-- what the contract of a recursive call gives on a canonical record -/
theorem liftPle_facts (rec : BMat → Rec.Out) (hrec : ∀ W : BMat, W.WF → Rec.GoodOut W (rec W)) (m : Mem) (r c : Nat)
    (P Q : Int → Int) (cu : Int) :
    ∃ (k : Nat) (P2 Q2 : Array Nat) (res : Mem),
      liftPle rec ⟨m, (r : Int), (c : Int), (((c + 63) / 64 : Nat) : Int), leftMask (c % 64)⟩ P Q cu
        = ((k : Int), res, arrOf P2, arrOf Q2) ∧ k ≤ r ∧ k ≤ c ∧ P2.size = r ∧ (∀ i, i < r → P2.getD i 0 < r) ∧
        Q2.size = c := by
  have hS : Shaped (rawM m r c).toB r c := ⟨Mzd.WF_toB (rawM_WF m r c), by simp, by simp⟩
  obtain ⟨-, -, r2r, r2c, p2s, p2l, q2s⟩ := goodOut_facts hS (hrec _ hS.wf)
  exact ⟨_, _, _, _, rfl, r2r, r2c, p2s, p2l, q2s⟩

/-- **third part, congruence**: memories that agree on the matrix, a recursive callee `f` that cannot be told apart
    from the lifted model function on canonical records -/
theorem seg3_congr (rec : BMat → Rec.Out) (hrec : ∀ W : BMat, W.WF → Rec.GoodOut W (rec W)) (cutoff : Int)
    (f : PleFn) (nrows ncols nr k n1 : Nat) (hnr : nr ≤ nrows) (hk : k ≤ nr) (hn1 : n1 ≤ ncols) (hn64 : n1 % 64 = 0)
    (hkn1 : k ≤ n1)
    {m m' : Mem} (hm : AgreeOn nrows ((ncols + 63) / 64) m m') (P Q : Int → Int) (hb : BitVec 64)
    (H : ∀ (r c : Nat) (mem : Mem) (P Q : Int → Int), PleAgree r c
      (f ⟨mem, (r : Int), (c : Int), (((c + 63) / 64 : Nat) : Int), leftMask (c % 64)⟩ P Q cutoff)
      (liftPle rec ⟨mem, (r : Int), (c : Int), (((c + 63) / 64 : Nat) : Int), leftMask (c % 64)⟩ P Q cutoff)) :
    seg3 m P Q nr ncols k n1 cutoff f
      ((nr - k : Nat) : Int) ((ncols - n1 : Nat) : Int) (((ncols - n1 + 63) / 64 : Nat) : Int)
      (leftMask ((ncols - n1) % 64)) (k : Int) ((n1 / 64 : Nat) : Int)
      ((nr - k : Nat) : Int) ((k : Nat) : Int) (((k + 63) / 64 : Nat) : Int)
      (leftMask (k % 64)) (k : Int) ((0 : Nat) : Int)
      nrows ncols (((ncols + 63) / 64 : Nat) : Int) hb liftCompress
    = seg3 m' P Q nr ncols k n1 cutoff (liftPle rec)
      ((nr - k : Nat) : Int) ((ncols - n1 : Nat) : Int) (((ncols - n1 + 63) / 64 : Nat) : Int)
      (leftMask ((ncols - n1) % 64)) (k : Int) ((n1 / 64 : Nat) : Int)
      ((nr - k : Nat) : Int) ((k : Nat) : Int) (((k + 63) / 64 : Nat) : Int)
      (leftMask (k % 64)) (k : Int) ((0 : Nat) : Int)
      nrows ncols (((ncols + 63) / 64 : Nat) : Int) hb liftCompress := by
  unfold seg3
  dsm
  have hv := hm.view k (n1 / 64) (nr - k) ((ncols - n1 + 63) / 64) (by omega) (by omega)
  rw [← liftPle_congr_nat rec (nr - k) ((ncols - n1 + 63) / 64) ((ncols - n1 : Nat) : Int) _ _ hv
    (fun i => P ((k : Int) + i)) (fun i => Q ((n1 : Int) + i)) _ _ cutoff cutoff]
  have hH := H (nr - k) (ncols - n1) (CLoop.view m (k : Int) ((n1 / 64 : Nat) : Int)) (fun i => P ((k : Int) + i))
    (fun i => Q ((n1 : Int) + i))
  obtain ⟨r2, P2, Q2, res, e, r2r, r2c, p2s, p2l, q2s⟩ := liftPle_facts rec hrec
    (CLoop.view m (k : Int) ((n1 / 64 : Nat) : Int)) (nr - k) (ncols - n1) (fun i => P ((k : Int) + i))
    (fun i => Q ((n1 : Int) + i)) cutoff
  rw [e] at hH ⊢
  generalize f _ _ _ _ = o at hH ⊢
  obtain ⟨r2', res', p', q'⟩ := o
  obtain ⟨h1, h2, h3, h4⟩ := hH
  dsm at h1 h2 h3 h4 ⊢
  subst h1
  have ep : ∀ i : Int, (if (k : Int) ≤ i ∧ i < (k : Int) + ((nr : Int) - (k : Int)) then p' (i - (k : Int)) else P i)
      = (if (k : Int) ≤ i ∧ i < (k : Int) + ((nr : Int) - (k : Int)) then arrOf P2 (i - (k : Int)) else P i) := by
    intro i
    split
    · rw [h3 _ (by omega) (by omega)]
    · rfl
  have eq : ∀ i : Int, (if (n1 : Int) ≤ i ∧ i < (n1 : Int) + ((ncols : Int) - (n1 : Int)) then q' (i - (n1 : Int))
        else Q i)
      = (if (n1 : Int) ≤ i ∧ i < (n1 : Int) + ((ncols : Int) - (n1 : Int)) then arrOf Q2 (i - (n1 : Int))
        else Q i) := by
    intro i
    split
    · rw [h4 _ (by omega) (by omega)]
    · rfl
  simp_m [ep, eq]
  apply seg4_congr nrows ncols
  have a1 := agree_unview hm (k : Int) ((n1 / 64 : Nat) : Int) (nr - k) ((ncols - n1 + 63) / 64) h2
  refine agree_unview a1 (k : Int) ((0 : Nat) : Int) (nr - k) ((k + 63) / 64) (AgI.to ?_)
  refine mzdApplyPLeft_agree (AgI.of (a1.view k 0 (nr - k) ((k + 63) / 64) (by omega) (by omega))) _ _ _ _ _ ?_
  intro i h0 _ hi
  refine ⟨rfl, ?_⟩
  rw [if_pos (by omega)]
  have := p2l i.toNat (by omega)
  unfold arrOf
  rw [show (k : Int) + i - (k : Int) = i by omega]
  omega

/-- the Schur-complement block keeps two memories in agreement (the translated `_mzd_trsm_lower_left` with two
    pairs of callees that cannot be told apart on conforming canonical records) -/
theorem schurMem_agree (cutoff rs : Int) (fruss frec fruss' frec' : CLoop.MView → CLoop.MView → Int → Mem)
    (nrows ncols nr k n1 : Nat) (hnr : nr ≤ nrows) (hk : k ≤ nr) (hn1 : n1 ≤ ncols) (hn64 : n1 % 64 = 0)
    (hkn1 : k ≤ n1) (hn1lt : k ≠ 0 → n1 < ncols)
    {m m' : Mem} (hm : AgreeOn nrows ((ncols + 63) / 64) m m') (Pv : Int → Int)
    (hPv : ∀ i : Int, 0 ≤ i → i < nr → 0 ≤ Pv (0 + i) ∧ Pv (0 + i) < nr)
    (HT : ∀ (r c : Nat) (mL mL' mB mB' : Mem), 1 ≤ r → 1 ≤ c → AgreeOn r ((r + 63) / 64) mL mL' →
      AgreeOn r ((c + 63) / 64) mB mB' → AgreeOn r ((c + 63) / 64)
        (Gen.C.trsmLowerLeftRec cutoff mB r c mL (((c + 63) / 64 : Nat) : Int) r r (((r + 63) / 64 : Nat) : Int)
          (leftMask (r % 64)) (leftMask (c % 64)) fruss rs rs frec addmulM)
        (Gen.C.trsmLowerLeftRec cutoff mB' r c mL' (((c + 63) / 64 : Nat) : Int) r r (((r + 63) / 64 : Nat) : Int)
          (leftMask (r % 64)) (leftMask (c % 64)) fruss' rs rs frec' addmulM)) :
    AgreeOn nrows ((ncols + 63) / 64)
      (schurMem m Pv nr k cutoff 0
        ((nr : Nat) : Int) ((ncols - n1 : Nat) : Int) (((ncols - n1 + 63) / 64 : Nat) : Int)
        (leftMask ((ncols - n1) % 64)) ((0 : Nat) : Int) ((n1 / 64 : Nat) : Int)
        ((k : Nat) : Int) ((k : Nat) : Int) (((k + 63) / 64 : Nat) : Int)
        (leftMask (k % 64)) ((0 : Nat) : Int) ((0 : Nat) : Int) rs
        ((k : Nat) : Int) ((ncols - n1 : Nat) : Int) (((ncols - n1 + 63) / 64 : Nat) : Int)
        (leftMask ((ncols - n1) % 64)) ((0 : Nat) : Int) ((n1 / 64 : Nat) : Int) rs
        ((nr - k : Nat) : Int) ((k : Nat) : Int) (((k + 63) / 64 : Nat) : Int)
        (leftMask (k % 64)) (k : Int) ((0 : Nat) : Int)
        ((nr - k : Nat) : Int) ((ncols - n1 : Nat) : Int) (((ncols - n1 + 63) / 64 : Nat) : Int)
        (leftMask ((ncols - n1) % 64)) (k : Int) ((n1 / 64 : Nat) : Int)
        fruss frec addmulM)
      (schurMem m' Pv nr k cutoff 0
        ((nr : Nat) : Int) ((ncols - n1 : Nat) : Int) (((ncols - n1 + 63) / 64 : Nat) : Int)
        (leftMask ((ncols - n1) % 64)) ((0 : Nat) : Int) ((n1 / 64 : Nat) : Int)
        ((k : Nat) : Int) ((k : Nat) : Int) (((k + 63) / 64 : Nat) : Int)
        (leftMask (k % 64)) ((0 : Nat) : Int) ((0 : Nat) : Int) rs
        ((k : Nat) : Int) ((ncols - n1 : Nat) : Int) (((ncols - n1 + 63) / 64 : Nat) : Int)
        (leftMask ((ncols - n1) % 64)) ((0 : Nat) : Int) ((n1 / 64 : Nat) : Int) rs
        ((nr - k : Nat) : Int) ((k : Nat) : Int) (((k + 63) / 64 : Nat) : Int)
        (leftMask (k % 64)) (k : Int) ((0 : Nat) : Int)
        ((nr - k : Nat) : Int) ((ncols - n1 : Nat) : Int) (((ncols - n1 + 63) / 64 : Nat) : Int)
        (leftMask ((ncols - n1) % 64)) (k : Int) ((n1 / 64 : Nat) : Int)
        fruss' frec' addmulM) := by
  unfold schurMem
  by_cases h0 : k = 0
  · rw [if_neg (by simp [h0]), if_neg (by simp [h0])]
    exact hm
  rw [if_pos (by simpa using (show (k : Int) ≠ 0 by omega)), if_pos (by simpa using (show (k : Int) ≠ 0 by omega))]
  dsm
  have hn1' := hn1lt h0
  have b1 := agree_unview hm ((0 : Nat) : Int) ((n1 / 64 : Nat) : Int) nr ((ncols - n1 + 63) / 64)
    (AgI.to (mzdApplyPLeft_agree
      (AgI.of (hm.view 0 (n1 / 64) nr ((ncols - n1 + 63) / 64) (by omega) (by omega)))
      ((ncols - n1 : Nat) : Int) ((nr : Int) - 0) (fun i => Pv (0 + i)) (fun i => Pv (0 + i))
      (leftMask ((ncols - n1) % 64)) (fun i h0 _ hi => ⟨rfl, hPv i h0 hi⟩)))
  have b2 := agree_unview b1 ((0 : Nat) : Int) ((n1 / 64 : Nat) : Int) k ((ncols - n1 + 63) / 64)
    (HT k (ncols - n1) _ _ _ _ (by omega) (by omega)
      (b1.view 0 0 k ((k + 63) / 64) (by omega) (by omega))
      (b1.view 0 (n1 / 64) k ((ncols - n1 + 63) / 64) (by omega) (by omega)))
  exact AgreeOn.unview b2 (k : Int) ((n1 / 64 : Nat) : Int) ((nr - k : Nat) : Int)
    (((ncols - n1 + 63) / 64 : Nat) : Int)
    (liftM3_congr_nat (fun C A B => C.add (A.mul B)) (nr - k) ((ncols - n1 + 63) / 64) (nr - k) ((k + 63) / 64) k
      ((ncols - n1 + 63) / 64) _ _ _ _ _ _ _ _ _
      (b2.view k (n1 / 64) (nr - k) ((ncols - n1 + 63) / 64) (by omega) (by omega))
      (b2.view k 0 (nr - k) ((k + 63) / 64) (by omega) (by omega))
      (b2.view 0 (n1 / 64) k ((ncols - n1 + 63) / 64) (by omega) (by omega)))

/-- **second part, congruence** -/
theorem seg2_congr (rec : BMat → Rec.Out) (hrec : ∀ W : BMat, W.WF → Rec.GoodOut W (rec W)) (cutoff rs : Int)
    (f : PleFn) (fruss frec fruss' frec' : CLoop.MView → CLoop.MView → Int → Mem)
    (nrows ncols nr k n1 : Nat) (hnr : nr ≤ nrows) (hk : k ≤ nr) (hn1 : n1 ≤ ncols) (hn64 : n1 % 64 = 0)
    (hkn1 : k ≤ n1) (hn1lt : k ≠ 0 → n1 < ncols)
    {m m' : Mem} (hm : AgreeOn nrows ((ncols + 63) / 64) m m') (P Q : Int → Int) (hb : BitVec 64)
    (hPv : ∀ i : Int, 0 ≤ i → i < nr → 0 ≤ P (0 + i) ∧ P (0 + i) < nr)
    (H : ∀ (r c : Nat) (mem : Mem) (P Q : Int → Int), PleAgree r c
      (f ⟨mem, (r : Int), (c : Int), (((c + 63) / 64 : Nat) : Int), leftMask (c % 64)⟩ P Q cutoff)
      (liftPle rec ⟨mem, (r : Int), (c : Int), (((c + 63) / 64 : Nat) : Int), leftMask (c % 64)⟩ P Q cutoff))
    (HT : ∀ (r c : Nat) (mL mL' mB mB' : Mem), 1 ≤ r → 1 ≤ c → AgreeOn r ((r + 63) / 64) mL mL' →
      AgreeOn r ((c + 63) / 64) mB mB' → AgreeOn r ((c + 63) / 64)
        (Gen.C.trsmLowerLeftRec cutoff mB r c mL (((c + 63) / 64 : Nat) : Int) r r (((r + 63) / 64 : Nat) : Int)
          (leftMask (r % 64)) (leftMask (c % 64)) fruss rs rs frec addmulM)
        (Gen.C.trsmLowerLeftRec cutoff mB' r c mL' (((c + 63) / 64 : Nat) : Int) r r (((r + 63) / 64 : Nat) : Int)
          (leftMask (r % 64)) (leftMask (c % 64)) fruss' rs rs frec' addmulM)) :
    seg2 m P Q nr ncols k n1 cutoff nrows rs 0
      ((nr : Nat) : Int) ((ncols - n1 : Nat) : Int) (((ncols - n1 + 63) / 64 : Nat) : Int)
      (leftMask ((ncols - n1) % 64)) ((0 : Nat) : Int) ((n1 / 64 : Nat) : Int)
      f fruss frec addmulM ncols (((ncols + 63) / 64 : Nat) : Int) hb liftCompress
    = seg2 m' P Q nr ncols k n1 cutoff nrows rs 0
      ((nr : Nat) : Int) ((ncols - n1 : Nat) : Int) (((ncols - n1 + 63) / 64 : Nat) : Int)
      (leftMask ((ncols - n1) % 64)) ((0 : Nat) : Int) ((n1 / 64 : Nat) : Int)
      (liftPle rec) fruss' frec' addmulM ncols (((ncols + 63) / 64 : Nat) : Int) hb liftCompress := by
  unfold seg2
  dsm
  rw [mzdInitWindow_in 0 0 k k nrows rs 0 0 k k nrows rfl rfl rfl rfl rfl rfl (by omega) (by omega)
      (by omega),
    mzdInitWindow_in k 0 nr k nrows rs k 0 nr k nrows rfl rfl rfl rfl rfl rfl (by omega) (by omega)
      (by omega),
    mzdInitWindow_in 0 n1 k ncols nrows rs 0 n1 k ncols nrows rfl rfl rfl rfl rfl hn64 (by omega)
      (by omega) (by omega),
    mzdInitWindow_in k n1 nr ncols nrows rs k n1 nr ncols nrows rfl rfl rfl rfl rfl hn64 (by omega)
      (by omega) (by omega)]
  dsm
  norm_win'
  exact seg3_congr rec hrec cutoff f nrows ncols nr k n1 hnr hk hn1 hn64 hkn1
    (schurMem_agree cutoff rs fruss frec fruss' frec' nrows ncols nr k n1 hnr hk hn1 hn64 hkn1 hn1lt hm P hPv HT)
    P Q hb H

/-- **congruence of the generated recursive branch of `_mzd_ple`** in its memory (on the rows and words of the
    matrix), in its recursive-call parameter (against a lifted model function with the contract `GoodOut`, on
    canonical records of arbitrary memories) and in the callees of the translated `_mzd_trsm_lower_left`.
    EQUALITY of the four results. -/
theorem pleRecStep_congr (rec : BMat → Rec.Out) (hrec : ∀ W : BMat, W.WF → Rec.GoodOut W (rec W)) (cutoff rs : Int)
    (f : PleFn) (fruss frec fruss' frec' : CLoop.MView → CLoop.MView → Int → Mem)
    (nrows ncols nr : Nat) (hnr : nr ≤ nrows)
    {m m' : Mem} (hm : AgreeOn nrows ((ncols + 63) / 64) m m') (P Q : Int → Int) (hb : BitVec 64)
    (H : ∀ (r c : Nat) (mem : Mem) (P Q : Int → Int), PleAgree r c
      (f ⟨mem, (r : Int), (c : Int), (((c + 63) / 64 : Nat) : Int), leftMask (c % 64)⟩ P Q cutoff)
      (liftPle rec ⟨mem, (r : Int), (c : Int), (((c + 63) / 64 : Nat) : Int), leftMask (c % 64)⟩ P Q cutoff))
    (HT : ∀ (r c : Nat) (mL mL' mB mB' : Mem), 1 ≤ r → 1 ≤ c → AgreeOn r ((r + 63) / 64) mL mL' →
      AgreeOn r ((c + 63) / 64) mB mB' → AgreeOn r ((c + 63) / 64)
        (Gen.C.trsmLowerLeftRec cutoff mB r c mL (((c + 63) / 64 : Nat) : Int) r r (((r + 63) / 64 : Nat) : Int)
          (leftMask (r % 64)) (leftMask (c % 64)) fruss rs rs frec addmulM)
        (Gen.C.trsmLowerLeftRec cutoff mB' r c mL' (((c + 63) / 64 : Nat) : Int) r r (((r + 63) / 64 : Nat) : Int)
          (leftMask (r % 64)) (leftMask (c % 64)) fruss' rs rs frec' addmulM)) :
    Gen.C.pleRecStep m P Q ncols nr nrows rs cutoff f fruss frec addmulM ncols (((ncols + 63) / 64 : Nat) : Int) hb
        liftCompress
      = Gen.C.pleRecStep m' P Q ncols nr nrows rs cutoff (liftPle rec) fruss' frec' addmulM ncols
        (((ncols + 63) / 64 : Nat) : Int) hb liftCompress := by
  rw [pleRecStep_split, pleRecStep_split]
  dsm
  have hsp : ((Int.tdiv ((ncols : Int) - 1) 64 + 1) >>> (1 : Int).toNat) * 64
      = ((Rec.splitPoint ncols : Nat) : Int) := GenTie.pleSplit_eq ncols
  rw [hsp]
  have hk := Rec.splitPoint_le ncols
  have hk64 := GenTiePle.splitPoint_mod ncols
  have hklt : 0 < ncols → Rec.splitPoint ncols < ncols := Rec.splitPoint_lt ncols
  generalize Rec.splitPoint ncols = n1 at *
  rw [mzdInitWindow_in 0 0 nr n1 nrows rs 0 0 nr n1 nrows rfl rfl rfl rfl rfl rfl (by omega) (by omega) hnr,
    mzdInitWindow_in 0 n1 nr ncols nrows rs 0 n1 nr ncols nrows rfl rfl rfl rfl rfl hk64 (by omega) hk hnr]
  dsm
  norm_win'
  have hv := hm.view 0 0 nr ((n1 + 63) / 64) (by omega) (by omega)
  rw [← liftPle_congr_nat rec nr ((n1 + 63) / 64) ((n1 : Nat) : Int) _ _ hv (fun i => P i) (fun i => Q i) _ _
    cutoff cutoff]
  have hH := H nr n1 (CLoop.view m ((0 : Nat) : Int) ((0 : Nat) : Int)) (fun i => P i) (fun i => Q i)
  obtain ⟨r1, P1, Q1, res, e, r1r, r1c, p1s, p1l, q1s⟩ := liftPle_facts rec hrec
    (CLoop.view m ((0 : Nat) : Int) ((0 : Nat) : Int)) nr n1 (fun i => P i) (fun i => Q i) cutoff
  rw [e] at hH ⊢
  generalize f _ _ _ _ = o at hH ⊢
  obtain ⟨r1', res', p', q'⟩ := o
  obtain ⟨h1, h2, h3, h4⟩ := hH
  dsm at h1 h2 h3 h4 ⊢
  subst h1
  have ep : ∀ i : Int, (if 0 ≤ i ∧ i < (nr : Int) - 0 then p' (i - 0) else P i)
      = (if 0 ≤ i ∧ i < (nr : Int) - 0 then arrOf P1 (i - 0) else P i) := by
    intro i
    split
    · rw [h3 _ (by omega) (by omega)]
    · rfl
  have eq : ∀ i : Int, (if 0 ≤ i ∧ i < (n1 : Int) - 0 then q' (i - 0) else Q i)
      = (if 0 ≤ i ∧ i < (n1 : Int) - 0 then arrOf Q1 (i - 0) else Q i) := by
    intro i
    split
    · rw [h4 _ (by omega) (by omega)]
    · rfl
  simp_m [ep, eq]
  refine seg2_congr rec hrec cutoff rs f fruss frec fruss' frec' nrows ncols nr r1 n1 hnr r1r hk hk64 r1c
    (fun h => hklt (by omega)) (agree_unview hm _ _ nr _ h2) _ _ hb ?_ H HT
  intro i h0 hi
  rw [if_pos (by omega)]
  have := p1l i.toNat (by omega)
  unfold arrOf
  rw [show (0 : Int) + i - 0 = i by omega]
  omega

/-- the contract `HT` of `pleRecStep_congr`: the translated `_mzd_trsm_lower_left` with its recursive-call parameter
    bound to the CLOSED recursion `cTrsmLL … mt` cannot be told apart from the one with the lifted model recursion -/
theorem trsmLL_HT (cutoff rs : Int) (mt : Nat) (r c : Nat) (mL mL' mB mB' : Mem) (hr : 1 ≤ r) (hc : 1 ≤ c)
    (hL : AgreeOn r ((r + 63) / 64) mL mL') (hB : AgreeOn r ((c + 63) / 64) mB mB') :
    AgreeOn r ((c + 63) / 64)
      (Gen.C.trsmLowerLeftRec cutoff mB r c mL (((c + 63) / 64 : Nat) : Int) r r (((r + 63) / 64 : Nat) : Int)
        (leftMask (r % 64)) (leftMask (c % 64)) llRuss rs rs (cTrsmLL llRuss addmulM rs rs mt) addmulM)
      (Gen.C.trsmLowerLeftRec cutoff mB' r c mL' (((c + 63) / 64 : Nat) : Int) r r (((r + 63) / 64 : Nat) : Int)
        (leftMask (r % 64)) (leftMask (c % 64)) llRuss rs rs
        (fun L B _ => liftM2 (Rec.trsmLowerLeftRec 2048 mt) L B) addmulM) := by
  rw [trsmLowerLeftRec_callee_congr cutoff rs rs r c mB mL _ _ llRuss (cTrsmLL llRuss addmulM rs rs mt)
    (fun L B _ => liftM2 (Rec.trsmLowerLeftRec 2048 mt) L B) addmulM
    (fun k mL' mB' _ _ => cTrsmLL_raw rs rs mt cutoff k c hc mL' mB')]
  exact GenTieRec.trsmLowerLeftRec_agree cutoff rs rs r c mB mB' mL mL' _ _ hc hB hL _ _ _

/-- **the C recursion `_mzd_ple` unrolled `n` levels.**
    Depth 0: the lifted model at fuel 0 (`base`).
    Depth `n + 1`: a HAND-WRITTEN DISPATCHER that mirrors the top of the C function as the model `pleRec` does —
    `mzd_first_zero_row(A) = 0` ↦ rank 0 with the identity `P`, `Q`; the base-case regime
    `ncols ≤ baseCols ∨ width * nrows ≤ cutoffN` ↦ the lifted base case — and otherwise THE GENERATED TEXT
    `Gen.C.pleRecStep` (the whole recursive branch of the C function, from `rci_t n1 = …` to `return r1 + r2`) with
    its recursive-call parameter bound to the depth-`n` function, the callees of the translated
    `_mzd_trsm_lower_left` bound to the Four-Russians substitution form and the CLOSED recursion `cTrsmLL … mt`,
    `mzd_addmul` to `C + A·B`, `_mzd_compress_l` to `compressL`; `P`, `Q` enter the generated text as the identity
    arrays (what the two init loops `Gen.C.plePermInit` leave on `[nrows, A->nrows)` and in `Q`; the first `nrows`
    entries of `P` are overwritten by the first recursive call). -/
def cPle (base : BMat → Rec.Out) (baseCols cutoffN baseRows : Nat) (rs : Int) (mt : Nat) : Nat → PleFn
  | 0 => liftPle (Rec.pleRec base baseCols cutoffN baseRows 0)
  | n + 1 => fun V P Q c =>
      if Rec.firstZeroRow (Mzd.ofView V).toB = 0 then
        (0, V.mem, arrOf (Array.range V.nrows.toNat), arrOf (Array.range V.ncols.toNat))
      else if V.ncols ≤ (baseCols : Int) ∨ V.width * V.nrows ≤ (cutoffN : Int) then liftPle base V P Q c
      else
        Gen.C.pleRecStep V.mem (arrOf (Array.range V.nrows.toNat)) (arrOf (Array.range V.ncols.toNat)) V.ncols
          (Rec.firstZeroRow (Mzd.ofView V).toB) V.nrows rs c (cPle base baseCols cutoffN baseRows rs mt n) llRuss
          (cTrsmLL llRuss addmulM rs rs mt) addmulM V.ncols V.width V.hb liftCompress

theorem pleRec_succ_zero (base : BMat → Rec.Out) (baseCols cutoffN baseRows n : Nat) (A : BMat)
    (h : Rec.firstZeroRow A = 0) :
    Rec.pleRec base baseCols cutoffN baseRows (n + 1) A = (A, Array.range A.nrows, Array.range A.ncols, 0) := by
  rw [Rec.pleRec_succ]; unfold Rec.pleStep; rw [if_pos h]

theorem pleRec_succ_base (base : BMat → Rec.Out) (baseCols cutoffN baseRows n : Nat) (A : BMat)
    (h : Rec.firstZeroRow A ≠ 0) (hb : A.ncols ≤ baseCols ∨ ((A.ncols + 63) / 64) * A.nrows ≤ cutoffN) :
    Rec.pleRec base baseCols cutoffN baseRows (n + 1) A = base A := by
  rw [Rec.pleRec_succ]; unfold Rec.pleStep; rw [if_neg h, if_pos hb]

theorem arrMem_nonneg (L0 L : Array Nat) (i : Int) (h : 0 ≤ i) : arrMem L0 L i = arrOf L i := by
  unfold arrMem arrOf
  rw [if_neg (by omega)]

/-- **the induction**: at every depth, on the canonical record of an ARBITRARY memory, the unrolled C recursion
    cannot be told apart from the lifted model recursion at fuel `n` -/
theorem cPle_raw (base : BMat → Rec.Out) (hbase : Rec.GoodBase base) (baseCols cutoffN baseRows : Nat) (rs : Int)
    (mt : Nat) (n : Nat) : ∀ (cutoff : Int) (r c : Nat) (mem : Mem) (P Q : Int → Int),
    PleAgree r c
      (cPle base baseCols cutoffN baseRows rs mt n
        ⟨mem, (r : Int), (c : Int), (((c + 63) / 64 : Nat) : Int), leftMask (c % 64)⟩ P Q cutoff)
      (liftPle (Rec.pleRec base baseCols cutoffN baseRows n)
        ⟨mem, (r : Int), (c : Int), (((c + 63) / 64 : Nat) : Int), leftMask (c % 64)⟩ P Q cutoff) := by
  induction n with
  | zero => intro cutoff r c mem P Q; exact PleAgree.refl _ _ _
  | succ n ih =>
    intro cutoff r c mem P Q
    have eV : Mzd.ofView ⟨mem, (r : Int), (c : Int), (((c + 63) / 64 : Nat) : Int), leftMask (c % 64)⟩
        = rawM mem r c := rfl
    unfold cPle liftPle
    dsm
    rw [eV, toNat_cast, toNat_cast]
    by_cases h0 : Rec.firstZeroRow (rawM mem r c).toB = 0
    · rw [if_pos h0, pleRec_succ_zero _ _ _ _ _ _ h0]
      dsm
      rw [Mzd.putB_toB (rawM_WF mem r c), Mzd.nrows_toB, Mzd.ncols_toB, nrows_rawM, ncols_rawM]
      exact ⟨rfl, agree_rawM mem r c, fun _ _ _ => rfl, fun _ _ _ => rfl⟩
    rw [if_neg h0]
    by_cases hb : c ≤ baseCols ∨ ((c + 63) / 64) * r ≤ cutoffN
    · rw [if_pos (by omega), pleRec_succ_base _ _ _ _ _ _ h0 (by simpa using hb)]
      exact PleAgree.refl _ _ _
    rw [if_neg (by omega)]
    have hfz : Rec.firstZeroRow (rawM mem r c).toB ≤ r := by
      have := Rec.firstZeroRow_le (rawM mem r c).toB
      simpa using this
    rw [pleRecStep_congr (Rec.pleRec base baseCols cutoffN baseRows n)
      (fun W hW => Rec.pleRec_spec hbase baseCols cutoffN baseRows n hW) cutoff rs _ llRuss _ llRuss
      (fun L B _ => liftM2 (Rec.trsmLowerLeftRec 2048 mt) L B) r c _ hfz (agree_rawM mem r c) _ _ _
      (fun r' c' mem' P' Q' => ih cutoff r' c' mem' P' Q') (trsmLL_HT cutoff rs mt)]
    have h := pleRecStep_pleRec_full base hbase baseCols cutoffN baseRows n mt cutoff rs (rawM mem r c)
      (rawM_WF mem r c) h0 (by simpa using hb)
    simp only [nrows_rawM, ncols_rawM, width_rawM, hb_rawM] at h
    rw [h]
    exact ⟨rfl, AgreeOn.refl _ _ _, fun i hi _ => arrMem_nonneg _ _ i hi, fun i hi _ => arrMem_nonneg _ _ i hi⟩

/-- **every depth, on views**: for a well-formed `A` and a memory that coincides with its memory on the rows and
    words of `A`, the unrolled C recursion returns the model's rank, leaves the model's matrix on the rows and
    words of `A`, and the model's `P`, `Q` on `[0, nrows)`, `[0, ncols)` -/
theorem cPle_view (base : BMat → Rec.Out) (hbase : Rec.GoodBase base) (baseCols cutoffN baseRows : Nat) (rs : Int)
    (mt n : Nat) (cutoff : Int) (A : Mzd) (hA : A.WF) (mA : Mem) (hmA : AgreeOn A.nrows A.width mA (memOf A))
    (P Q : Int → Int) :
    PleAgree A.nrows A.ncols
      (cPle base baseCols cutoffN baseRows rs mt n ⟨mA, A.nrows, A.ncols, A.width, A.hb⟩ P Q cutoff)
      ((((Rec.pleRec base baseCols cutoffN baseRows n A.toB).2.2.2 : Nat) : Int),
        memOf (A.putB (Rec.pleRec base baseCols cutoffN baseRows n A.toB).1),
        arrOf (Rec.pleRec base baseCols cutoffN baseRows n A.toB).2.1,
        arrOf (Rec.pleRec base baseCols cutoffN baseRows n A.toB).2.2.1) := by
  have hw : A.width = (A.ncols + 63) / 64 := rfl
  have hh : A.hb = leftMask (A.ncols % 64) := rfl
  have e : liftPle (Rec.pleRec base baseCols cutoffN baseRows n)
      ⟨mA, A.nrows, A.ncols, (((A.ncols + 63) / 64 : Nat) : Int), leftMask (A.ncols % 64)⟩ P Q cutoff
      = ((((Rec.pleRec base baseCols cutoffN baseRows n A.toB).2.2.2 : Nat) : Int),
        memOf (A.putB (Rec.pleRec base baseCols cutoffN baseRows n A.toB).1),
        arrOf (Rec.pleRec base baseCols cutoffN baseRows n A.toB).2.1,
        arrOf (Rec.pleRec base baseCols cutoffN baseRows n A.toB).2.2.1) := by
    rw [liftPle_congr_nat _ A.nrows ((A.ncols + 63) / 64) _ _ A.hb (by rw [← hw]; exact hmA) P Q P Q cutoff cutoff]
    have eA := ofView_of A hA
    unfold CLoop.MView.of at eA
    unfold liftPle
    rw [← hw, eA]
  rw [hw, hh, ← e]
  exact cPle_raw base hbase baseCols cutoffN baseRows rs mt n cutoff A.nrows A.ncols mA P Q

/-- **`_mzd_ple`, the C recursion at every depth `n` (any depth `mt` of the closed `_mzd_trsm_lower_left`), on a
    whole matrix = the model recursion `pleRec` at fuel `n`**: the returned rank, the memory (EQUALITY), `P` and `Q`
    (at every non-negative index; `arrMem L0 L i = arrOf L i` there) -/
theorem cPle_correct (base : BMat → Rec.Out) (hbase : Rec.GoodBase base) (baseCols cutoffN baseRows : Nat) (rs : Int)
    (mt n : Nat) (cutoff : Int) (A : Mzd) (hA : A.WF) (P Q : Int → Int) :
    (cPle base baseCols cutoffN baseRows rs mt n (CLoop.MView.of A) P Q cutoff).1
        = (((Rec.pleRec base baseCols cutoffN baseRows n A.toB).2.2.2 : Nat) : Int) ∧
    (cPle base baseCols cutoffN baseRows rs mt n (CLoop.MView.of A) P Q cutoff).2.1
        = memOf (A.putB (Rec.pleRec base baseCols cutoffN baseRows n A.toB).1) ∧
    (∀ i : Int, 0 ≤ i → (cPle base baseCols cutoffN baseRows rs mt n (CLoop.MView.of A) P Q cutoff).2.2.1 i
        = arrOf (Rec.pleRec base baseCols cutoffN baseRows n A.toB).2.1 i) ∧
    (∀ i : Int, 0 ≤ i → (cPle base baseCols cutoffN baseRows rs mt n (CLoop.MView.of A) P Q cutoff).2.2.2 i
        = arrOf (Rec.pleRec base baseCols cutoffN baseRows n A.toB).2.2.1 i) := by
  have eA := ofView_of A hA
  unfold CLoop.MView.of at eA ⊢
  cases n with
  | zero =>
    unfold cPle liftPle
    rw [eA]
    exact ⟨rfl, rfl, fun _ _ => rfl, fun _ _ => rfl⟩
  | succ n =>
    unfold cPle
    dsm
    rw [eA, toNat_cast, toNat_cast]
    by_cases h0 : Rec.firstZeroRow A.toB = 0
    · rw [if_pos h0, pleRec_succ_zero _ _ _ _ _ _ h0]
      dsm
      rw [Mzd.putB_toB hA, Mzd.nrows_toB, Mzd.ncols_toB]
      exact ⟨rfl, rfl, fun _ _ => rfl, fun _ _ => rfl⟩
    rw [if_neg h0]
    have hw : A.width = (A.ncols + 63) / 64 := rfl
    by_cases hb : A.ncols ≤ baseCols ∨ ((A.ncols + 63) / 64) * A.nrows ≤ cutoffN
    · rw [if_pos (by rw [hw]; omega), pleRec_succ_base _ _ _ _ _ _ h0 (by simpa using hb)]
      unfold liftPle
      rw [eA]
      exact ⟨rfl, rfl, fun _ _ => rfl, fun _ _ => rfl⟩
    rw [if_neg (by rw [hw]; omega)]
    have hfz : Rec.firstZeroRow A.toB ≤ A.nrows := by
      have := Rec.firstZeroRow_le A.toB
      simpa using this
    rw [hw, pleRecStep_congr (Rec.pleRec base baseCols cutoffN baseRows n)
      (fun W hW => Rec.pleRec_spec hbase baseCols cutoffN baseRows n hW) cutoff rs _ llRuss _ llRuss
      (fun L B _ => liftM2 (Rec.trsmLowerLeftRec 2048 mt) L B) A.nrows A.ncols _ hfz
      (AgreeOn.refl _ _ (memOf A)) _ _ _
      (fun r' c' mem' P' Q' => cPle_raw base hbase baseCols cutoffN baseRows rs mt n cutoff r' c' mem' P' Q')
      (trsmLL_HT cutoff rs mt)]
    have h := pleRecStep_pleRec_full base hbase baseCols cutoffN baseRows n mt cutoff rs A hA h0 hb
    rw [hw] at h
    rw [h]
    exact ⟨rfl, rfl, fun i hi => arrMem_nonneg _ _ i hi, fun i hi => arrMem_nonneg _ _ i hi⟩

/-- … hence what the C recursion leaves is a good PLE certificate of `A` (`Rec.GoodOut`: `IsPLE`, hence the rank,
    and the shape clauses), for every depth -/
theorem cPle_spec (base : BMat → Rec.Out) (hbase : Rec.GoodBase base) (baseCols cutoffN baseRows : Nat) (rs : Int)
    (mt n : Nat) (cutoff : Int) (A : Mzd) (hA : A.WF) (P Q : Int → Int) :
    ∃ o : Rec.Out, Rec.GoodOut A.toB o ∧
      (cPle base baseCols cutoffN baseRows rs mt n (CLoop.MView.of A) P Q cutoff).1 = ((o.2.2.2 : Nat) : Int) ∧
      (cPle base baseCols cutoffN baseRows rs mt n (CLoop.MView.of A) P Q cutoff).2.1 = memOf (A.putB o.1) ∧
      (∀ i : Int, 0 ≤ i → (cPle base baseCols cutoffN baseRows rs mt n (CLoop.MView.of A) P Q cutoff).2.2.1 i
        = arrOf o.2.1 i) ∧
      (∀ i : Int, 0 ≤ i → (cPle base baseCols cutoffN baseRows rs mt n (CLoop.MView.of A) P Q cutoff).2.2.2 i
        = arrOf o.2.2.1 i) :=
  ⟨_, Rec.pleRec_spec hbase baseCols cutoffN baseRows n (Mzd.WF_toB hA),
    cPle_correct base hbase baseCols cutoffN baseRows rs mt n cutoff A hA P Q⟩

end M4ri.GenTieClose2

#print axioms M4ri.GenTieClose2.trtriUpperRec_callee_congr
#print axioms M4ri.GenTieClose2.trtriUpperRec_step_view
#print axioms M4ri.GenTieClose2.cTrtri_raw
#print axioms M4ri.GenTieClose2.cTrtri_view
#print axioms M4ri.GenTieClose2.cTrtri_correct
#print axioms M4ri.GenTieClose2.cTrtri_inv
#print axioms M4ri.GenTieClose2.cTrtri_spec
#print axioms M4ri.GenTieClose2.cTrtri_window
#print axioms M4ri.GenTieClose2.pleRecStep_congr
#print axioms M4ri.GenTieClose2.cPle_raw
#print axioms M4ri.GenTieClose2.cPle_view
#print axioms M4ri.GenTieClose2.cPle_correct
#print axioms M4ri.GenTieClose2.cPle_spec
