/-
  Transposition kernels, part 4: the strip kernels `_mzd_copy_transpose_lt64x64` (n × 64, n < 64) and
  `_mzd_copy_transpose_64xlt64` (64 × n, n < 64).
-/
import M4riProofs.Tr.Small
namespace M4ri.Tr

theorem exp_cases {e : Nat} (h : e ≤ 6) : e = 0 ∨ e = 1 ∨ e = 2 ∨ e = 3 ∨ e = 4 ∨ e = 5 ∨ e = 6 := by omega

/-- **`_mzd_copy_transpose_lt64x64`**: `n × 64 → 64 × n` for all `0 < n < 64`; the 64 destination words are
    written whole, with zeroes beyond column `n` -/
theorem copyTransposeLt64x64_spec (src : Nat → Word) (n : Nat) (hn1 : 1 ≤ n) (hn : n < 64) :
    (copyTransposeLt64x64 src n).size = 64 ∧
    ∀ r i, r < 64 → i < 64 →
      (rd (copyTransposeLt64x64 src n) r).getLsbD i = (decide (i < n) && (src i).getLsbD r) := by
  unfold copyTransposeLt64x64
  simp only []
  generalize ht : (tab 64 fun k => if k < n then src k else 0) = t
  have hsz : t.size = 64 := by rw [← ht, size_tab]
  have hrd : ∀ k, rd t k = if k < n then src k else 0 := by
    intro k
    rw [← ht, rd_tab]
    by_cases h : k < n
    · have : k < 64 := by omega
      simp [h, this]
    · simp [h]
  by_cases h32 : n > 32
  · rw [if_pos h32]
    refine ⟨size_transpose64x64A _, ?_⟩
    intro r i hr hi
    rw [transpose64x64A_spec _ r i hr hi, hrd]
    by_cases h : i < n <;> simp [h]
  · rw [if_neg h32]
    refine ⟨size_tab _ _, ?_⟩
    intro r i hr hi
    have hN := transposeNxjx64_spec t n 32 (by decide) (by omega) (by omega)
      (fun k hk => by rw [hrd, if_neg (by omega)])
    obtain ⟨-, h6, hnJ, -, hJ32, hN⟩ := hN
    generalize (transposeNxjx64 t n).1 = t2 at hN
    generalize (transposeNxjx64 t n).2 = mi at hN h6 hnJ hJ32
    rw [rd_tab_lt _ _ _ hr]
    simp only [BitVec.getLsbD_and, BitVec.getLsbD_ushiftRight, leftMask_getLsbD n i hn1 (by omega),
      Nat.one_shiftLeft]
    by_cases hin : i < n
    · have hcases := exp_cases h6
      have key : r / 2 ^ mi * 2 ^ mi + i < 64 ∧ (r / 2 ^ mi * 2 ^ mi + i) % 2 ^ mi = i ∧
          (r / 2 ^ mi * 2 ^ mi + i) / 2 ^ mi * 2 ^ mi + r % 2 ^ mi = r ∧ r % 2 ^ mi < 2 ^ mi := by
        rcases hcases with rfl | rfl | rfl | rfl | rfl | rfl | rfl <;> simp only [Nat.reducePow] at hnJ hJ32 ⊢ <;> omega
      obtain ⟨k1, k2, k3, k4⟩ := key
      rw [hN _ _ k4 k1, k2, k3, hrd, if_pos hin]
      simp [hin]
    · simp [hin]

/-- `log2_ceil_table` is the rounded-up binary logarithm -/
theorem log2Ceil_spec : ∀ n, n < 64 → 1 ≤ n → log2Ceil n ≤ 6 ∧ n ≤ 2 ^ log2Ceil n ∧
    (log2Ceil n = 0 ∨ 2 ^ (log2Ceil n - 1) < n) := by decide


/-- the packed word `t[k]` of `64xlt64`: chunk `q` (of `J` bits) is source row `k + q·J` -/
theorem gather_getLsbD (src : Nat → Word) (J k : Nat)
    (hc : ∀ q p, q < 64 / J → J ≤ p → (src (k + q * J)).getLsbD p = false) (q x : Nat) (hx : x < J)
    (h64 : J * q + x < 64) :
    (gather src J k).getLsbD (J * q + x) = (decide (q < 64 / J) && (src (k + q * J)).getLsbD x) := by
  unfold gather
  have hf : (List.range (64 / J)).foldl (fun acc q => acc ||| (src (k + q * J) <<< (q * J))) 0
      = (List.range (64 / J)).foldl (fun acc q => acc ||| ((fun q => src (k + q * J)) q <<< (J * q))) 0 := by
    apply foldl_ext'
    intro a s _
    show a ||| src (k + s * J) <<< (s * J) = a ||| src (k + s * J) <<< (J * s)
    rw [Nat.mul_comm s J]
  rw [hf, packW J (fun q => src (k + q * J)) (64 / J) hc q x hx h64]

/-- `J = 2^e` divides 64: positions `p < 64` split as `J·(p / J) + p mod J` with `p / J < 64 / J` -/
theorem split_pos : ∀ e, e < 6 → ∀ p, p < 64 →
    p / 2 ^ e < 64 / 2 ^ e ∧ p / 2 ^ e * 2 ^ e = 2 ^ e * (p / 2 ^ e) ∧ p % 2 ^ e + p / 2 ^ e * 2 ^ e = p := by
  decide +kernel

theorem gather_rows : ∀ e, e < 6 → ∀ k, k < 2 ^ e → ∀ q, q < 64 / 2 ^ e → k + q * 2 ^ e < 64 := by
  decide +kernel

/-- **`_mzd_copy_transpose_64xlt64`**: `64 × n → n × 64` for all `0 < n < 64` (source columns `≥ n` zero) -/
theorem copyTranspose64xLt64_spec (src : Nat → Word) (n : Nat) (hn1 : 1 ≤ n) (hn : n < 64)
    (hc : SrcClean src 64 n) :
    (copyTranspose64xLt64 src n).size = n ∧
    ∀ c i, c < n → i < 64 → (rd (copyTranspose64xLt64 src n) c).getLsbD i = (src i).getLsbD c := by
  obtain ⟨l6, lge, -⟩ := log2Ceil_spec n hn hn1
  unfold copyTranspose64xLt64
  simp only []
  generalize log2Ceil n = e at l6 lge
  by_cases he6 : e = 6
  · rw [if_pos he6]
    refine ⟨size_tab _ _, ?_⟩
    intro c i hcn hi
    rw [rd_tab_lt _ _ _ hcn, transpose64x64A_spec _ c i (by omega) hi]
  · rw [if_neg he6]
    refine ⟨size_tab _ _, ?_⟩
    intro c i hcn hi
    have he : e < 6 := by omega
    rw [rd_tab_lt _ _ _ hcn, Nat.one_shiftLeft]
    generalize ht : tab (2 ^ e) (gather src (2 ^ e)) = t
    have hsz : t.size = 2 ^ e := by rw [← ht, size_tab]
    have hN := transposeNxjx64_spec t (2 ^ e) (2 ^ e)
      (by
        have := exp_cases l6
        rcases this with rfl | rfl | rfl | rfl | rfl | rfl | rfl <;> decide)
      (Nat.le_refl _) (by omega) (fun k hk => rd_of_ge _ _ (by omega))
    have hexp := transposeNxjx64_snd_pow2 t e (by omega) (by omega)
    rw [hexp] at hN
    obtain ⟨-, -, -, -, -, hN⟩ := hN
    generalize (transposeNxjx64 t (2 ^ e)).1 = t2 at hN
    have hJpos : 0 < 2 ^ e := Nat.pow_pos (by omega)
    obtain ⟨s1, s2, s3⟩ := split_pos e he i hi
    have hmod : i % 2 ^ e < 2 ^ e := Nat.mod_lt _ hJpos
    rw [hN c i (by omega) hi, ← ht, rd_tab_lt _ _ _ hmod, s2]
    rw [gather_getLsbD src (2 ^ e) (i % 2 ^ e)
      (fun q p hq hp => hc _ p (gather_rows e he _ hmod q hq) (by omega)) (i / 2 ^ e) c (by omega)
      (by
        have : 2 ^ e * (i / 2 ^ e) ≤ i := Nat.mul_div_le _ _
        have : i / 2 ^ e * 2 ^ e + 2 ^ e ≤ 64 := by
          have h1 : (i / 2 ^ e + 1) * 2 ^ e ≤ 64 / 2 ^ e * 2 ^ e := Nat.mul_le_mul_right _ s1
          have h2 : 64 / 2 ^ e * 2 ^ e ≤ 64 := Nat.div_mul_le_self _ _
          rw [Nat.add_mul] at h1; omega
        omega)]
    rw [s3]
    simp [s1]

/-- non-vacuity -/
example : SrcClean (fun _ => 0x7#64) 64 3 := by
  intro i p _ hp
  by_cases h64 : p < 64
  · have : ∀ p, p < 64 → 3 ≤ p → (0x7#64).getLsbD p = false := by decide
    exact this p h64 hp
  · exact BitVec.getLsbD_of_ge _ _ (Nat.le_of_not_lt h64)

/-- `SrcClean` is needed here too (this is why `mzd_transpose` copies "dangerous" windows first):
    a 64 × 1 zero column whose row 0 carries an excess bit at position 1 -/
example : rd (copyTranspose64xLt64 (fun k => if k = 0 then 0x2#64 else 0) 1) 0 = 0x2#64 := by decide +kernel

end M4ri.Tr
