/-
  Transposition kernels, part 2: `_mzd_transpose_Nxjx64` — 64/J matrices of size J × J transposed in parallel,
  generic in `n`.
-/
import M4riProofs.Tr.Arith
namespace M4ri.Tr

/-- closed form after the rounds `j' < j`: inside every `j × j` block the transposition is complete -/
def InvN (t0 t : Array Word) (j J : Nat) : Prop :=
  ∀ k p, k < J → p < 64 →
    (rd t k).getLsbD p = (rd t0 (k / j * j + p % j)).getLsbD (p / j * j + k % j)


theorem mem_pow2s {J : Nat} (h : J ∈ pow2s) : ∃ e, e < 7 ∧ J = 2 ^ e := by
  simp only [pow2s, List.mem_cons, List.mem_nil_iff, or_false] at h
  rcases h with rfl | rfl | rfl | rfl | rfl | rfl | rfl
  · exact ⟨0, by omega, rfl⟩
  · exact ⟨1, by omega, rfl⟩
  · exact ⟨2, by omega, rfl⟩
  · exact ⟨3, by omega, rfl⟩
  · exact ⟨4, by omega, rfl⟩
  · exact ⟨5, by omega, rfl⟩
  · exact ⟨6, by omega, rfl⟩

theorem size_roundN (t : Array Word) (j n : Nat) (m : Word) : (roundN t j n m).size = t.size := by
  simp [roundN, size_tab]

/-- one pass of the `while (j < n)` loop turns the `j`-block closed form into the `2j`-block closed form,
    provided the rows `≥ n` of the input are zero -/
theorem InvN.step {t0 t : Array Word} {mi n J : Nat} (hmi : mi < 6) (hJ : J ∈ pow2s) (hjn : 2 ^ mi < n)
    (hn : n ≤ J) (hs : J ≤ t.size) (hz : ∀ k, n ≤ k → rd t0 k = 0) (h : InvN t0 t (2 ^ mi) J) :
    InvN t0 (roundN t (2 ^ mi) n (transposeMask.getD mi 0)) (2 ^ (mi + 1)) J := by
  intro k p hk hp
  obtain ⟨e, he, rfl⟩ := mem_pow2s hJ
  have hk64 : k < 64 := by
    have : 2 ^ e ≤ 2 ^ 6 := Nat.pow_le_pow_right (by omega) (by omega)
    omega
  have hj0 : 0 < 2 ^ mi := Nat.pow_pos (by omega)
  rw [Nat.pow_succ, Nat.mul_comm (2 ^ mi) 2]
  unfold roundN
  rw [rd_tab_lt _ _ _ (by omega)]
  by_cases hg : k / (2 * 2 ^ mi) * (2 * 2 ^ mi) < n
  · rw [if_pos hg, round_getLsbD _ _ _ hj0 (transposeMask_isMask mi hmi) k p hp]
    obtain ⟨a1, a2⟩ := swapIdx_asc mi hmi k hk64 p hp
    have a3 := swapIdx_asc_row mi hmi k hk64 p hp
    have a4 := swapIdx_asc_col mi hmi k hk64 p hp
    have hgr := group_in_range mi hmi e he (by omega) k hk
    have hk1 : (swapIdx (2 ^ mi) k p).1 < 2 ^ e := by
      have : (swapIdx (2 ^ mi) k p).1 < ((swapIdx (2 ^ mi) k p).1 / (2 * 2 ^ mi) + 1) * (2 * 2 ^ mi) := by
        have := Nat.lt_div_mul_add (a := (swapIdx (2 ^ mi) k p).1) (b := 2 * 2 ^ mi) (by omega)
        rw [Nat.add_mul]; omega
      rw [a1] at this
      omega
    rw [h _ _ hk1 a2, a3, a4]
  · rw [if_neg hg, h k p hk hp]
    have hge : n ≤ k / (2 * 2 ^ mi) * (2 * 2 ^ mi) := by omega
    have h1 : k / (2 * 2 ^ mi) * (2 * 2 ^ mi) ≤ k / 2 ^ mi * 2 ^ mi := by
      have hq : k / (2 * 2 ^ mi) = k / 2 ^ mi / 2 := by
        rw [Nat.mul_comm 2, Nat.div_div_eq_div_mul]
      rw [hq]
      have : k / 2 ^ mi / 2 * 2 ≤ k / 2 ^ mi := Nat.div_mul_le_self _ _
      calc k / 2 ^ mi / 2 * (2 * 2 ^ mi) = (k / 2 ^ mi / 2 * 2) * 2 ^ mi := by rw [Nat.mul_assoc]
        _ ≤ k / 2 ^ mi * 2 ^ mi := Nat.mul_le_mul_right _ this
    rw [hz _ (by omega), hz _ (by omega)]
    simp


/-- the `while (j < n)` loop, started in state `j = 2^mi` with the `2^mi`-block closed form -/
theorem loopN_spec {t0 : Array Word} {n J : Nat} (hJ : J ∈ pow2s) (hn : n ≤ J) (hs : J ≤ t0.size)
    (hz : ∀ k, n ≤ k → rd t0 k = 0) :
    ∀ fuel (t : Array Word) (mi : Nat), mi + fuel = 6 → t.size = t0.size → (mi = 0 ∨ 2 ^ (mi - 1) < n) →
      InvN t0 t (2 ^ mi) J →
      (loopN n fuel t (2 ^ mi) mi).1.size = t0.size ∧ (loopN n fuel t (2 ^ mi) mi).2 ≤ 6 ∧
      n ≤ 2 ^ (loopN n fuel t (2 ^ mi) mi).2 ∧
      ((loopN n fuel t (2 ^ mi) mi).2 = 0 ∨ 2 ^ ((loopN n fuel t (2 ^ mi) mi).2 - 1) < n) ∧
      InvN t0 (loopN n fuel t (2 ^ mi) mi).1 (2 ^ (loopN n fuel t (2 ^ mi) mi).2) J := by
  have hn64 : n ≤ 64 := by
    obtain ⟨e, he, rfl⟩ := mem_pow2s hJ
    have : 2 ^ e ≤ 2 ^ 6 := Nat.pow_le_pow_right (by omega) (by omega)
    omega
  intro fuel
  induction fuel with
  | zero =>
    intro t mi hmi hsz hlow hinv
    have : mi = 6 := by omega
    subst this
    simp only [loopN]
    exact ⟨hsz, by omega, by omega, hlow, hinv⟩
  | succ fuel ih =>
    intro t mi hmi hsz hlow hinv
    simp only [loopN]
    by_cases hjn : 2 ^ mi < n
    · rw [if_pos hjn]
      have e1 : 2 ^ mi <<< 1 = 2 ^ (mi + 1) := by rw [Nat.shiftLeft_eq, Nat.pow_add]
      rw [e1]
      apply ih _ (mi + 1) (by omega) (by rw [size_roundN]; exact hsz) (Or.inr (by simpa using hjn))
      exact InvN.step (by omega) hJ hjn hn (by omega) hz hinv
    · rw [if_neg hjn]
      exact ⟨hsz, by omega, Nat.le_of_not_lt hjn, hlow, hinv⟩

/-- **`_mzd_transpose_Nxjx64(t, n)`**, generic in `n`: with `J = 2^mi` the returned power of two
    (`J/2 < n ≤ J`), the `64/J` matrices of size `J × J` held in `t[0..J-1]` are transposed in parallel:
    bit `q·J + c` of the new `t[k]` is bit `q·J + k` of the old `t[c]`.
    Preconditions: `t` has room for the `J'` rows of some power of two `J' ≥ n`, rows `≥ n` are zero. -/
theorem transposeNxjx64_spec (t : Array Word) (n J : Nat) (hJ : J ∈ pow2s) (hn : n ≤ J) (hs : J ≤ t.size)
    (hz : ∀ k, n ≤ k → rd t k = 0) :
    (transposeNxjx64 t n).1.size = t.size ∧ (transposeNxjx64 t n).2 ≤ 6 ∧
    n ≤ 2 ^ (transposeNxjx64 t n).2 ∧
    ((transposeNxjx64 t n).2 = 0 ∨ 2 ^ ((transposeNxjx64 t n).2 - 1) < n) ∧
    2 ^ (transposeNxjx64 t n).2 ≤ J ∧
    ∀ k p, k < 2 ^ (transposeNxjx64 t n).2 → p < 64 →
      (rd (transposeNxjx64 t n).1 k).getLsbD p =
        (rd t (p % 2 ^ (transposeNxjx64 t n).2)).getLsbD
          (p / 2 ^ (transposeNxjx64 t n).2 * 2 ^ (transposeNxjx64 t n).2 + k) := by
  have h0 : InvN t t (2 ^ 0) J := by
    intro k p _ _
    simp [Nat.mod_one]
  have := loopN_spec hJ hn hs hz 6 t 0 (by omega) rfl (Or.inl rfl) h0
  unfold transposeNxjx64
  simp only [Nat.pow_zero] at this
  obtain ⟨h1, h2, h3, h4, h5⟩ := this
  generalize loopN n 6 t 1 0 = r at *
  have hle : 2 ^ r.2 ≤ J := by
    obtain ⟨e, he, rfl⟩ := mem_pow2s hJ
    rcases h4 with h4 | h4
    · rw [h4]; exact Nat.pow_pos (by omega)
    · have : 2 ^ (r.2 - 1) < 2 ^ e := by omega
      have : r.2 - 1 < e := (Nat.pow_lt_pow_iff_right (by omega)).mp this
      exact Nat.pow_le_pow_right (by omega) (by omega)
  refine ⟨h1, h2, h3, h4, hle, ?_⟩
  intro k p hk hp
  rw [h5 k p (by omega) hp, Nat.div_eq_of_lt hk, Nat.mod_eq_of_lt hk]
  simp

/-- the returned exponent when `n` is itself a power of two -/
theorem transposeNxjx64_snd_pow2 (t : Array Word) (e : Nat) (he : e < 7) (hs : 2 ^ e ≤ t.size) :
    (transposeNxjx64 t (2 ^ e)).2 = e := by
  -- the exponent does not depend on the contents: run the loop on the counters only
  have key : ∀ fuel (t : Array Word) (mi : Nat), mi + fuel = 6 → mi ≤ e →
      (loopN (2 ^ e) fuel t (2 ^ mi) mi).2 = e := by
    intro fuel
    induction fuel with
    | zero =>
      intro t mi h1 h2
      simp only [loopN]; omega
    | succ fuel ih =>
      intro t mi h1 h2
      simp only [loopN]
      by_cases hlt : mi < e
      · have : 2 ^ mi < 2 ^ e := Nat.pow_lt_pow_right (by omega) hlt
        rw [if_pos this]
        have e1 : 2 ^ mi <<< 1 = 2 ^ (mi + 1) := by rw [Nat.shiftLeft_eq, Nat.pow_add]
        rw [e1]
        exact ih _ (mi + 1) (by omega) (by omega)
      · have : mi = e := by omega
        subst this
        simp
  have := key 6 t 0 (by omega) (by omega)
  simpa [transposeNxjx64] using this

/-- non-vacuity: two 2 × 2 matrices in two words -/
example : (transposeNxjx64 #[0x2#64, 0x0#64] 2).1 = #[0x0#64, 0x1#64] := by decide +kernel

end M4ri.Tr
