/-
  Transposition kernels, part 1: the delta swap, one round, `_mzd_copy_transpose_64x64`.
-/
import M4ri.Transpose
import M4riProofs.Basic
namespace M4ri.Tr

/-! ### tables -/

theorem size_tab (n : Nat) (f : Nat → Word) : (tab n f).size = n := by simp [tab]

theorem rd_tab (n : Nat) (f : Nat → Word) (i : Nat) : rd (tab n f) i = if i < n then f i else 0 := by
  unfold rd tab
  by_cases h : i < n <;> simp [Array.getD, h]

theorem rd_tab_lt (n : Nat) (f : Nat → Word) (i : Nat) (h : i < n) : rd (tab n f) i = f i := by
  rw [rd_tab, if_pos h]

theorem rd_of_ge (t : Array Word) (i : Nat) (h : t.size ≤ i) : rd t i = 0 := by
  simp [rd, Array.getD, Nat.not_lt.mpr h]

/-! ### (1) the delta swap -/

/-- bit `p` of the new `a`: where the mask (shifted up by `j`) is set it receives bit `p - j` of `b` -/
theorem dswap_fst_getLsbD (a b : Word) (j : Nat) (m : Word) (p : Nat) (hp : p < 64) :
    (dswap a b j m).1.getLsbD p = if j ≤ p ∧ m.getLsbD (p - j) then b.getLsbD (p - j) else a.getLsbD p := by
  unfold dswap
  simp only [BitVec.getLsbD_xor, BitVec.getLsbD_shiftLeft, BitVec.getLsbD_and, BitVec.getLsbD_ushiftRight]
  by_cases hj : j ≤ p
  · have e : j + (p - j) = p := by omega
    rw [e]
    have hlt : ¬ p < j := by omega
    simp only [hp, decide_true, hlt, decide_false, Bool.not_false, Bool.true_and, hj, true_and]
    cases m.getLsbD (p - j) <;> cases a.getLsbD p <;> cases b.getLsbD (p - j) <;> rfl
  · have hlt : p < j := by omega
    simp [hlt, hj]

/-- bit `p` of the new `b`: where the mask is set it receives bit `p + j` of `a` -/
theorem dswap_snd_getLsbD (a b : Word) (j : Nat) (m : Word) (p : Nat) :
    (dswap a b j m).2.getLsbD p = if m.getLsbD p then a.getLsbD (p + j) else b.getLsbD p := by
  unfold dswap
  simp only [BitVec.getLsbD_xor, BitVec.getLsbD_and, BitVec.getLsbD_ushiftRight]
  rw [Nat.add_comm j p]
  cases m.getLsbD p <;> cases a.getLsbD (p + j) <;> cases b.getLsbD p <;> rfl

/-- the delta swap exchanges exactly the bit pairs `(a, p + j) ↔ (b, p)` selected by the mask `m`
    (`m` must not select positions `p` with `p + j ≥ 64`); all other bits stay. -/
theorem dswap_spec (a b : Word) (j : Nat) (m : Word) (p : Nat) (hp : p < 64) :
    ((dswap a b j m).1.getLsbD p = if j ≤ p ∧ m.getLsbD (p - j) then b.getLsbD (p - j) else a.getLsbD p) ∧
    ((dswap a b j m).2.getLsbD p = if m.getLsbD p then a.getLsbD (p + j) else b.getLsbD p) :=
  ⟨dswap_fst_getLsbD a b j m p hp, dswap_snd_getLsbD a b j m p⟩

/-! ### masks: `j` ones, `j` zeroes, repeated -/

/-- `m` has a one exactly at the positions `p` with `p mod 2j < j` -/
def IsMask (j : Nat) (m : Word) : Prop := ∀ p, p < 64 → m.getLsbD p = decide (p % (2 * j) < j)

/-- where a bit of the 64-row block sits before a round with parameter `j`: the two off-diagonal `j × j`
    blocks of every `2j × 2j` block are exchanged -/
def swapIdx (j k p : Nat) : Nat × Nat :=
  if k % (2 * j) < j then (if j ≤ p % (2 * j) then (k + j, p - j) else (k, p))
  else (if p % (2 * j) < j then (k - j, p + j) else (k, p))

/-- one round, bit level -/
theorem round_getLsbD (t : Nat → Word) (j : Nat) (m : Word) (hj : 0 < j) (hm : IsMask j m) (k p : Nat)
    (hp : p < 64) :
    (round t j m k).getLsbD p = (t (swapIdx j k p).1).getLsbD (swapIdx j k p).2 := by
  unfold round swapIdx
  by_cases hk : k % (2 * j) < j
  · simp only [hk, if_true]
    rw [dswap_fst_getLsbD _ _ _ _ _ hp]
    by_cases h1 : j ≤ p % (2 * j)
    · have hjp : j ≤ p := Nat.le_trans h1 (Nat.mod_le _ _)
      have hm' := hm (p - j) (by omega)
      have : (p - j) % (2 * j) < j := by
        have h2 : p % (2 * j) < 2 * j := Nat.mod_lt _ (by omega)
        have h3 : (p - j) % (2 * j) = p % (2 * j) - j := by
          have hq : p = 2 * j * (p / (2 * j)) + p % (2 * j) := (Nat.div_add_mod p (2 * j)).symm
          have : p - j = (p % (2 * j) - j) + 2 * j * (p / (2 * j)) := by omega
          rw [this, Nat.add_mul_mod_self_left, Nat.mod_eq_of_lt (by omega)]
        omega
      simp [hm', this, hjp, h1]
    · simp only [h1, if_false]
      by_cases hjp : j ≤ p
      · have hm' := hm (p - j) (by omega)
        have : ¬ (p - j) % (2 * j) < j := by
          have h2 : p % (2 * j) < j := by omega
          have hq : p = 2 * j * (p / (2 * j)) + p % (2 * j) := (Nat.div_add_mod p (2 * j)).symm
          have hpos : 0 < p / (2 * j) := by
            rcases Nat.eq_zero_or_pos (p / (2 * j)) with h0 | h0
            · rw [h0] at hq; omega
            · exact h0
          have : p - j = (p % (2 * j) + j) + 2 * j * (p / (2 * j) - 1) := by
            have : 2 * j * (p / (2 * j)) = 2 * j * (p / (2 * j) - 1) + 2 * j := by
              rw [← Nat.mul_succ]; congr 1; omega
            omega
          rw [this, Nat.add_mul_mod_self_left, Nat.mod_eq_of_lt (by omega)]
          omega
        simp [hm', this]
      · simp [hjp]
  · simp only [hk, if_false]
    rw [dswap_snd_getLsbD, hm p hp]
    by_cases h1 : p % (2 * j) < j <;> simp [h1]


/-! ### (2) `_mzd_copy_transpose_64x64` -/

instance (j : Nat) (m : Word) : Decidable (IsMask j m) := by unfold IsMask; infer_instance

/-- bit `p` of word `k` of `t` is bit `(g k p).2` of word `(g k p).1` of `src` (on the 64 × 64 block) -/
def Prov (t src : Nat → Word) (g : Nat → Nat → Nat × Nat) : Prop :=
  ∀ k p, k < 64 → p < 64 → (t k).getLsbD p = (src (g k p).1).getLsbD (g k p).2

theorem swapIdx_lt (j : Nat) (hj : j ∈ [1, 2, 4, 8, 16, 32]) (k p : Nat) (hk : k < 64) (hp : p < 64) :
    (swapIdx j k p).1 < 64 ∧ (swapIdx j k p).2 < 64 := by
  unfold swapIdx
  simp only [List.mem_cons, List.mem_nil_iff, or_false] at hj
  rcases hj with rfl | rfl | rfl | rfl | rfl | rfl <;> (split <;> split <;> simp only <;> omega)

/-- a round in place (the words are re-tabulated, i.e. written back to `dst`) composes the position maps -/
theorem Prov.round {t src : Nat → Word} {g : Nat → Nat → Nat × Nat} (h : Prov t src g) (j : Nat) (m : Word)
    (hj : j ∈ [1, 2, 4, 8, 16, 32]) (hm : IsMask j m) :
    Prov (rd (tab 64 (round t j m))) src (fun k p => g (swapIdx j k p).1 (swapIdx j k p).2) := by
  intro k p hk hp
  have hj0 : 0 < j := by
    simp only [List.mem_cons, List.mem_nil_iff, or_false] at hj
    omega
  rw [rd_tab_lt _ _ _ hk, round_getLsbD t j m hj0 hm k p hp]
  have := swapIdx_lt j hj k p hk hp
  exact h _ _ this.1 this.2

/-- the position map of the six rounds `j = 32, 16, 8, 4, 2, 1` (the last round is applied first when
    tracing a destination bit back to the source) -/
def g64 (k p : Nat) : Nat × Nat :=
  let a := swapIdx 1 k p
  let a := swapIdx 2 a.1 a.2
  let a := swapIdx 4 a.1 a.2
  let a := swapIdx 8 a.1 a.2
  let a := swapIdx 16 a.1 a.2
  swapIdx 32 a.1 a.2

/-- the position table of the kernel is the transposition (4096 positions, checked by kernel evaluation) -/
theorem g64_eq : ∀ k, k < 64 → ∀ p, p < 64 → g64 k p = (p, k) := by decide +kernel

/-- reduction of the word-level kernel to its position table -/
theorem transpose64x64A_prov (src : Nat → Word) : Prov (rd (transpose64x64A src)) src g64 := by
  have h0 : Prov src src (fun k p => (k, p)) := fun k p _ _ => rfl
  have h1 := h0.round 32 0xFFFFFFFF#64 (by decide) (by decide)
  have h2 := h1.round 16 (0xFFFFFFFF#64 ^^^ (0xFFFFFFFF#64 <<< 16)) (by decide) (by decide)
  have h3 := h2.round 8 0x00FF00FF00FF00FF#64 (by decide) (by decide)
  have h4 := h3.round 4 0x0F0F0F0F0F0F0F0F#64 (by decide) (by decide)
  have h5 := h4.round 2 0x3333333333333333#64 (by decide) (by decide)
  have h6 := h5.round 1 0x5555555555555555#64 (by decide) (by decide)
  have e : transpose64x64A src = tab 64 (round (rd (tab 64 (round (rd (tab 64 (round (rd (tab 64 (round (rd
      (tab 64 (round (rd (tab 64 (round src 32 0xFFFFFFFF#64))) 16
        (0xFFFFFFFF#64 ^^^ (0xFFFFFFFF#64 <<< 16))))) 8 0x00FF00FF00FF00FF#64))) 4 0x0F0F0F0F0F0F0F0F#64)))
      2 0x3333333333333333#64))) 1 0x5555555555555555#64) := by
    simp only [transpose64x64A, rounds64, List.foldl]
    rfl
  rw [e]
  exact h6

theorem size_transpose64x64A (src : Nat → Word) : (transpose64x64A src).size = 64 := by
  simp only [transpose64x64A, rounds64, List.foldl, size_tab]

/-- **`_mzd_copy_transpose_64x64` transposes**: bit `j` of output word `i` is bit `i` of input word `j`. -/
theorem transpose64x64_spec (src : Nat → Word) (i j : Nat) (hi : i < 64) (hj : j < 64) :
    (transpose64x64 src i).getLsbD j = (src j).getLsbD i := by
  have := transpose64x64A_prov src i j hi hj
  rw [g64_eq i hi j hj] at this
  exact this

theorem transpose64x64A_spec (src : Nat → Word) (i j : Nat) (hi : i < 64) (hj : j < 64) :
    (rd (transpose64x64A src) i).getLsbD j = (src j).getLsbD i := transpose64x64_spec src i j hi hj

/-- `_mzd_copy_transpose_64x64_2` is the same kernel on two independent blocks -/
theorem transpose64x64_2_spec (s1 s2 : Nat → Word) (i j : Nat) (hi : i < 64) (hj : j < 64) :
    (rd (transpose64x64_2 s1 s2).1 i).getLsbD j = (s1 j).getLsbD i ∧
    (rd (transpose64x64_2 s1 s2).2 i).getLsbD j = (s2 j).getLsbD i :=
  ⟨transpose64x64A_spec s1 i j hi hj, transpose64x64A_spec s2 i j hi hj⟩

/-- non-vacuity / smoke test: the identity matrix is its own transpose, a single off-diagonal bit moves -/
example : transpose64x64 (fun k => if k = 3 then 0x20#64 else 0) 5 = 0x8#64 := by decide +kernel

end M4ri.Tr
