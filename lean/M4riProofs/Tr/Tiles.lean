/-
  Transposition drivers, part 1: stores that tile a rectangle of destination words with correct values.
-/
import M4riProofs.Tr.Lt
namespace M4ri.Tr

/-- a store `(r, c, v)` is *good* when `v` is the transposed word: bit `p` of destination word `c` of row `r`
    is entry `(64c + p, r)` of the source (`r`-th column = bit `r mod 64` of source word `r / 64`) -/
def Good (S : Src) (w : Wr) : Prop :=
  ∀ p, p < 64 → w.2.2.getLsbD p = (S (64 * w.2.1 + p) (w.1 / 64)).getLsbD (w.1 % 64)

/-- the stores `ws` all land inside the rectangle rows `[r0, r1)` × words `[c0, c1)`, all carry the right value,
    and every word of the rectangle is stored to (so the order of the stores is immaterial) -/
structure Tiles (S : Src) (ws : List Wr) (r0 r1 c0 c1 : Nat) : Prop where
  sound : ∀ w, w ∈ ws → r0 ≤ w.1 ∧ w.1 < r1 ∧ c0 ≤ w.2.1 ∧ w.2.1 < c1 ∧ Good S w
  covers : ∀ r c, r0 ≤ r → r < r1 → c0 ≤ c → c < c1 → ∃ v, (r, c, v) ∈ ws

theorem Tiles.congr {S : Src} {ws ws' : List Wr} {r0 r1 c0 c1 : Nat} (h : Tiles S ws r0 r1 c0 c1)
    (e : ∀ x, x ∈ ws' ↔ x ∈ ws) : Tiles S ws' r0 r1 c0 c1 :=
  ⟨fun w hw => h.sound w ((e w).mp hw), fun r c a b c' d => by
    obtain ⟨v, hv⟩ := h.covers r c a b c' d
    exact ⟨v, (e _).mpr hv⟩⟩

theorem Tiles.nil_rows (S : Src) (r0 r1 c0 c1 : Nat) (h : r1 ≤ r0) : Tiles S [] r0 r1 c0 c1 :=
  ⟨fun w hw => by simp at hw, fun r c a b _ _ => by omega⟩

theorem Tiles.nil_cols (S : Src) (r0 r1 c0 c1 : Nat) (h : c1 ≤ c0) : Tiles S [] r0 r1 c0 c1 :=
  ⟨fun w hw => by simp at hw, fun r c _ _ a b => by omega⟩

/-- two tilings stacked in the row direction -/
theorem Tiles.append_rows {S : Src} {ws1 ws2 : List Wr} {r0 rm r1 c0 c1 : Nat}
    (h1 : Tiles S ws1 r0 rm c0 c1) (h2 : Tiles S ws2 rm r1 c0 c1) (ha : r0 ≤ rm) (hb : rm ≤ r1) :
    Tiles S (ws1 ++ ws2) r0 r1 c0 c1 := by
  constructor
  · intro w hw
    rcases List.mem_append.mp hw with hw | hw
    · have := h1.sound w hw; refine ⟨this.1, by omega, this.2.2⟩
    · have := h2.sound w hw; refine ⟨by omega, this.2.1, this.2.2⟩
  · intro r c a b c' d
    by_cases h : r < rm
    · obtain ⟨v, hv⟩ := h1.covers r c a h c' d
      exact ⟨v, List.mem_append.mpr (Or.inl hv)⟩
    · obtain ⟨v, hv⟩ := h2.covers r c (by omega) b c' d
      exact ⟨v, List.mem_append.mpr (Or.inr hv)⟩

/-- two tilings side by side in the word direction -/
theorem Tiles.append_cols {S : Src} {ws1 ws2 : List Wr} {r0 r1 c0 cm c1 : Nat}
    (h1 : Tiles S ws1 r0 r1 c0 cm) (h2 : Tiles S ws2 r0 r1 cm c1) (ha : c0 ≤ cm) (hb : cm ≤ c1) :
    Tiles S (ws1 ++ ws2) r0 r1 c0 c1 := by
  constructor
  · intro w hw
    rcases List.mem_append.mp hw with hw | hw
    · have := h1.sound w hw; refine ⟨this.1, this.2.1, this.2.2.1, by omega, this.2.2.2.2⟩
    · have := h2.sound w hw; refine ⟨this.1, this.2.1, by omega, this.2.2.2.1, this.2.2.2.2⟩
  · intro r c a b c' d
    by_cases h : c < cm
    · obtain ⟨v, hv⟩ := h1.covers r c a b c' h
      exact ⟨v, List.mem_append.mpr (Or.inl hv)⟩
    · obtain ⟨v, hv⟩ := h2.covers r c a b (by omega) d
      exact ⟨v, List.mem_append.mpr (Or.inr hv)⟩

theorem mem_colWrites (r0 c cnt : Nat) (v : Array Word) (x : Wr) :
    x ∈ colWrites r0 c cnt v ↔ ∃ k, k < cnt ∧ x = (r0 + k, c, rd v k) := by
  unfold colWrites
  simp only [List.mem_map, List.mem_range]
  constructor
  · rintro ⟨k, hk, rfl⟩; exact ⟨k, hk, rfl⟩
  · rintro ⟨k, hk, rfl⟩; exact ⟨k, hk, rfl⟩

/-- the stores of one kernel call: destination word `dc'` of the rows `64·sc' …`, source word `sc'` of the rows
    `64·dc' …`; correct as soon as the kernel output is the transposed block -/
theorem colWrites_tiles (S : Src) (sc' dc' cnt : Nat) (v : Array Word) (hcnt : cnt ≤ 64)
    (hv : ∀ k p, k < cnt → p < 64 → (rd v k).getLsbD p = (S (64 * dc' + p) sc').getLsbD k) :
    Tiles S (colWrites (64 * sc') dc' cnt v) (64 * sc') (64 * sc' + cnt) dc' (dc' + 1) := by
  constructor
  · intro w hw
    obtain ⟨k, hk, rfl⟩ := (mem_colWrites _ _ _ _ _).mp hw
    refine ⟨by simp, by simp; omega, by simp, by simp, ?_⟩
    intro p hp
    simp only
    rw [hv k p hk hp]
    have e1 : (64 * sc' + k) / 64 = sc' := by omega
    have e2 : (64 * sc' + k) % 64 = k := by omega
    rw [e1, e2]
  · intro r c a b c' d
    have : c = dc' := by omega
    subst this
    exact ⟨rd v (r - 64 * sc'), (mem_colWrites _ _ _ _ _).mpr ⟨r - 64 * sc', by omega, by
      have : 64 * sc' + (r - 64 * sc') = r := by omega
      rw [this]⟩⟩

end M4ri.Tr
