/-
  Transposition kernels: finite arithmetic facts about the position maps (checked by kernel evaluation).
-/
import M4riProofs.Tr.Swap
namespace M4ri.Tr

/-- the powers of two up to 64 -/
def pow2s : List Nat := [1, 2, 4, 8, 16, 32, 64]

theorem transposeMask_isMask : ∀ mi, mi < 6 → IsMask (2 ^ mi) (transposeMask.getD mi 0) := by decide

/-- arithmetic of one ascending round with `j = 2^mi`: the partner row stays in the same group of `2j` rows,
    and the `j`-block closed form of the partner is the `2j`-block closed form of the position itself -/
theorem swapIdx_asc : ∀ mi, mi < 6 → ∀ k, k < 64 → ∀ p, p < 64 →
    (swapIdx (2 ^ mi) k p).1 / (2 * 2 ^ mi) = k / (2 * 2 ^ mi) ∧ (swapIdx (2 ^ mi) k p).2 < 64 := by
  decide +kernel

theorem swapIdx_asc_row : ∀ mi, mi < 6 → ∀ k, k < 64 → ∀ p, p < 64 →
    (swapIdx (2 ^ mi) k p).1 / 2 ^ mi * 2 ^ mi + (swapIdx (2 ^ mi) k p).2 % 2 ^ mi
      = k / (2 * 2 ^ mi) * (2 * 2 ^ mi) + p % (2 * 2 ^ mi) := by decide +kernel

theorem swapIdx_asc_col : ∀ mi, mi < 6 → ∀ k, k < 64 → ∀ p, p < 64 →
    (swapIdx (2 ^ mi) k p).2 / 2 ^ mi * 2 ^ mi + (swapIdx (2 ^ mi) k p).1 % 2 ^ mi
      = p / (2 * 2 ^ mi) * (2 * 2 ^ mi) + k % (2 * 2 ^ mi) := by decide +kernel

/-- a group of `2j` rows that starts inside a power-of-two range `J > j` ends inside it -/
theorem group_in_range : ∀ mi, mi < 6 → ∀ e, e < 7 → 2 ^ mi < 2 ^ e → ∀ k, k < 2 ^ e →
    (k / (2 * 2 ^ mi) + 1) * (2 * 2 ^ mi) ≤ 2 ^ e := by decide +kernel

end M4ri.Tr
