/-
  Transposition kernels, part 3b: `_mzd_copy_transpose_le64xle64`, `_le32xle32`, `_le16xle16` and the
  dispatcher `_mzd_copy_transpose_small`.
-/
import M4riProofs.Tr.Le8
import M4riProofs.Tr.Nxj
namespace M4ri.Tr

/-! ### le64xle64 -/

/-- **`_mzd_copy_transpose_le64xle64`** for all `n, m ≤ 64` (no cleanliness needed: whole words are transposed) -/
theorem le64xle64_spec (src : Nat → Word) (n m : Nat) (hm : m ≤ 64) :
    SmallSpec (le64xle64 src n m) src n m := by
  refine ⟨by simp [le64xle64, size_tab], ?_⟩
  intro c i hc hi
  unfold le64xle64
  simp only []
  rw [rd_tab_lt _ _ _ hc, transpose64x64A_spec _ c i (by omega) hi, rd_tab_lt _ _ _ hi]
  by_cases h : i < n <;> simp [h]

/-! ### le32xle32 -/

theorem mask_ffff : ∀ i, i < 64 → (0xFFFF#64).getLsbD i = decide (i < 16) := by decide
theorem mask_ffff0000 : ∀ i, i < 64 → (0xFFFF0000#64).getLsbD i = decide (16 ≤ i ∧ i < 32) := by decide

/-- the 16 packed words of `le32xle32`: bit `32s + q` of word `k` is entry `(16s + k, q)` -/
theorem le32_load (src : Nat → Word) (n m : Nat) (hn : n ≤ 32) (hm : m ≤ 32) (hc : SrcClean src n m)
    (k s q : Nat) (hk : k < 16) (hs : s < 2) (hq : q < 32) :
    (if n > 16 then (if k + 16 < n then src k ||| (src (k + 16) <<< 32) else src k)
      else (if k < n then src k else 0)).getLsbD (32 * s + q)
      = (decide (16 * s + k < n) && (src (16 * s + k)).getLsbD q) := by
  have hs' : s = 0 ∨ s = 1 := by omega
  by_cases h16 : n > 16
  · rw [if_pos h16]
    rcases hs' with rfl | rfl
    · have hkn : k < n := by omega
      by_cases h2 : k + 16 < n
      · simp [h2, hkn, BitVec.getLsbD_or, BitVec.getLsbD_shiftLeft, hq]
      · simp [h2, hkn]
    · by_cases h2 : k + 16 < n
      · have e1 : ¬ 32 * 1 + q < 32 := by omega
        have e2 : 32 * 1 + q - 32 = q := by omega
        have e3 : 32 * 1 + q < 64 := by omega
        have e4 : 16 * 1 + k = k + 16 := by omega
        rw [if_pos h2, BitVec.getLsbD_or, BitVec.getLsbD_shiftLeft, hc k _ (by omega) (by omega), e4]
        simp [e1, e2, e3, h2]
      · have e4 : ¬ 16 * 1 + k < n := by omega
        rw [if_neg h2, hc k _ (by omega) (by omega)]
        simp [e4]
  · rw [if_neg h16]
    rcases hs' with rfl | rfl
    · by_cases h2 : k < n <;> simp [h2]
    · have e4 : ¬ 16 * 1 + k < n := by omega
      by_cases h2 : k < n
      · rw [if_pos h2, hc k _ h2 (by omega)]; simp [e4]
      · simp [h2, e4]

/-- **`_mzd_copy_transpose_le32xle32`** for all `n, m ≤ 32` -/
theorem le32xle32_spec (src : Nat → Word) (n m : Nat) (hn : n ≤ 32) (hm : m ≤ 32) (hc : SrcClean src n m) :
    SmallSpec (le32xle32 src n m) src n m := by
  refine ⟨by simp [le32xle32, size_tab], ?_⟩
  intro c i hcm hi
  unfold le32xle32
  simp only []
  generalize ht1 : (tab 16 fun k =>
      if n > 16 then (if k + 16 < n then src k ||| (src (k + 16) <<< 32) else src k)
      else (if k < n then src k else 0)) = t1
  have hsz : t1.size = 16 := by rw [← ht1, size_tab]
  have hload : ∀ k s q, k < 16 → s < 2 → q < 32 →
      (rd t1 k).getLsbD (32 * s + q) = (decide (16 * s + k < n) && (src (16 * s + k)).getLsbD q) := by
    intro k s q hk hs hq
    rw [← ht1, rd_tab_lt _ _ _ hk]
    exact le32_load src n m hn hm hc k s q hk hs hq
  have hN := transposeNxjx64_spec t1 16 16 (by decide) (by omega) (by omega)
    (fun k hk => rd_of_ge _ _ (by omega))
  have hexp := transposeNxjx64_snd_pow2 t1 4 (by omega) (by omega)
  simp only [show (2:Nat) ^ 4 = 16 from rfl] at hexp
  rw [hexp] at hN
  obtain ⟨-, -, -, -, -, hN⟩ := hN
  simp only [show (2:Nat) ^ 4 = 16 from rfl] at hN
  generalize (transposeNxjx64 t1 16).1 = t2 at hN
  rw [rd_tab_lt _ _ _ hcm]
  by_cases hc16 : c < 16
  · rw [if_pos hc16]
    simp only [BitVec.getLsbD_or, BitVec.getLsbD_and, BitVec.getLsbD_ushiftRight, mask_ffff i hi,
      mask_ffff0000 i hi]
    by_cases hi16 : i < 16
    · have e : ¬ (16 ≤ i ∧ i < 32) := by omega
      rw [hN c i hc16 hi, Nat.mod_eq_of_lt hi16, Nat.div_eq_of_lt hi16]
      have := hload i 0 c hi16 (by omega) (by omega)
      simp only [Nat.mul_zero, Nat.zero_add] at this
      simp only [Nat.zero_mul, Nat.zero_add]
      rw [this]
      simp [hi16, e]
    · by_cases hi32 : i < 32
      · have e : (16 ≤ i ∧ i < 32) := by omega
        have e1 : (16 + i) % 16 = i - 16 := by omega
        have e2 : (16 + i) / 16 * 16 = 32 * 1 := by omega
        rw [hN c (16 + i) hc16 (by omega), e1, e2]
        have := hload (i - 16) 1 c (by omega) (by omega) (by omega)
        have e3 : 16 * 1 + (i - 16) = i := by omega
        rw [e3] at this
        rw [this]
        simp [hi16, e]
      · have e : ¬ (16 ≤ i ∧ i < 32) := by omega
        have : ¬ i < n := by omega
        simp [hi16, e, this]
  · rw [if_neg hc16]
    simp only [BitVec.getLsbD_or, BitVec.getLsbD_and, BitVec.getLsbD_ushiftRight, mask_ffff i hi,
      mask_ffff0000 i hi]
    by_cases hi16 : i < 16
    · have e : ¬ (16 ≤ i ∧ i < 32) := by omega
      have e1 : (16 + i) % 16 = i := by omega
      have e2 : (16 + i) / 16 * 16 + (c - 16) = c := by omega
      rw [hN (c - 16) (16 + i) (by omega) (by omega), e1, e2]
      have := hload i 0 c hi16 (by omega) (by omega)
      simp only [Nat.mul_zero, Nat.zero_add] at this
      rw [this]
      simp [hi16, e]
    · by_cases hi32 : i < 32
      · have e : (16 ≤ i ∧ i < 32) := by omega
        have e1 : (32 + i) % 16 = i - 16 := by omega
        have e2 : (32 + i) / 16 * 16 + (c - 16) = 32 * 1 + c := by omega
        rw [hN (c - 16) (32 + i) (by omega) (by omega), e1, e2]
        have := hload (i - 16) 1 c (by omega) (by omega) (by omega)
        have e3 : 16 * 1 + (i - 16) = i := by omega
        rw [e3] at this
        rw [this]
        simp [hi16, e]
      · have e : ¬ (16 ≤ i ∧ i < 32) := by omega
        have : ¬ i < n := by omega
        simp [hi16, e, this]


/-! ### le16xle16 -/

/-- `k` chunks of `W` bits packed into one word -/
theorem packW (W : Nat) (g : Nat → Word) :
    ∀ k, (∀ i p, i < k → W ≤ p → (g i).getLsbD p = false) → ∀ a b, b < W → W * a + b < 64 →
      ((List.range k).foldl (fun acc s => acc ||| (g s <<< (W * s))) 0).getLsbD (W * a + b)
        = (decide (a < k) && (g a).getLsbD b) := by
  intro k
  induction k with
  | zero => intro _ a b _ _; simp
  | succ k ih =>
    intro hg a b hb h64
    rw [List.range_succ, List.foldl_append]
    simp only [List.foldl_cons, List.foldl_nil, BitVec.getLsbD_or, BitVec.getLsbD_shiftLeft]
    rw [ih (fun i p hi hp => hg i p (by omega) hp) a b hb h64]
    by_cases h1 : a < k
    · have : W * a + b < W * k := by
        have : W * (a + 1) ≤ W * k := Nat.mul_le_mul_left _ h1
        rw [Nat.mul_succ] at this; omega
      simp [h1, this, Nat.lt_succ_of_lt h1]
    · by_cases h2 : a = k
      · subst h2
        have e : W * a + b - W * a = b := by omega
        have : ¬ W * a + b < W * a := by omega
        simp [this, e, h64]
      · have h3 : ¬ a < k + 1 := by omega
        have : W * (k + 1) ≤ W * a := Nat.mul_le_mul_left _ (by omega)
        rw [Nat.mul_succ] at this
        rw [hg k _ (by omega) (by omega)]
        simp [h1, h3]

theorem le16_mask1 : ∀ r, r < 4 → ∀ s, s < 4 → ∀ u, u < 4 → ∀ v, v < 4 → 1 ≤ r →
    (0xF0000F0000F0#64 >>> (16 * (r - 1))).getLsbD (16 * s + 4 * u + v) = decide (u = s + r) := by
  decide +kernel

set_option synthInstance.maxSize 1024 in
theorem le16_mask2 : ∀ r, r < 4 → ∀ s, s < 4 → ∀ u, u < 4 → ∀ v, v < 4 → 1 ≤ r →
    ((12 * r ≤ 16 * s + 4 * u + v ∧
      (0xF0000F0000F0#64 >>> (16 * (r - 1))).getLsbD (16 * s + 4 * u + v - 12 * r) = true) ↔ s = u + r) := by
  decide +kernel

/-- after the rounds `1 … r-1`: the 4 × 4 grid of nibbles of the word has its diagonals `|s - u| < r` mirrored -/
def Inv16 (w0 w : Word) (r : Nat) : Prop :=
  ∀ s u v, s < 4 → u < 4 → v < 4 →
    w.getLsbD (16 * s + 4 * u + v) =
      if s < u + r ∧ u < s + r then w0.getLsbD (16 * u + 4 * s + v) else w0.getLsbD (16 * s + 4 * u + v)

/-- the loop body on one of the four words -/
def body16 (w : Word) (shift : Nat) (mask : Word) : Word :=
  (w ^^^ (((w ^^^ (w >>> shift)) &&& mask) <<< shift)) ^^^ ((w ^^^ (w >>> shift)) &&& mask)

theorem Inv16.step {w0 w : Word} {r : Nat} (h : Inv16 w0 w r) (h1 : 1 ≤ r) (h3 : r ≤ 3) :
    Inv16 w0 (body16 w (12 * r) (0xF0000F0000F0#64 >>> (16 * (r - 1)))) (r + 1) := by
  intro s u v hs hu hv
  have m1 := le16_mask1 r (by omega) s hs u hu v hv h1
  have m2 := le16_mask2 r (by omega) s hs u hu v hv h1
  have hp : 16 * s + 4 * u + v < 64 := by omega
  unfold body16
  simp only [BitVec.getLsbD_xor, BitVec.getLsbD_and, BitVec.getLsbD_shiftLeft, BitVec.getLsbD_ushiftRight,
    hp, decide_true, Bool.true_and] at m1 m2 ⊢
  rw [h s u v hs hu hv]
  by_cases hup : u = s + r
  · have hna : ¬ s = u + r := by omega
    have hm2 : ¬ (12 * r ≤ 16 * s + 4 * u + v ∧
        (0xF0000F0000F0#64).getLsbD (16 * (r - 1) + (16 * s + 4 * u + v - 12 * r)) = true) :=
      fun hh => hna (m2.mp hh)
    have e1 : 12 * r + (16 * s + 4 * u + v) = 16 * u + 4 * s + v := by omega
    have c1 : ¬ (s < u + r ∧ u < s + r) := by omega
    have c2 : s < u + (r + 1) ∧ u < s + (r + 1) := by omega
    have c3 : ¬ (u < s + r ∧ s < u + r) := by omega
    rw [if_neg c1, if_pos c2, e1, h u s v hu hs hv, if_neg c3]
    have m1' : (0xF0000F0000F0#64).getLsbD (16 * (r - 1) + (16 * s + 4 * u + v)) = true := by
      rw [m1]; simp [hup]
    by_cases h12 : 12 * r ≤ 16 * s + 4 * u + v
    · have hf : (0xF0000F0000F0#64).getLsbD (16 * (r - 1) + (16 * s + 4 * u + v - 12 * r)) = false := by
        cases hh : (0xF0000F0000F0#64).getLsbD (16 * (r - 1) + (16 * s + 4 * u + v - 12 * r))
        · rfl
        · exact absurd ⟨h12, hh⟩ hm2
      rw [m1', hf]
      cases w0.getLsbD (16 * s + 4 * u + v) <;> cases w0.getLsbD (16 * u + 4 * s + v) <;> simp
    · have : 16 * s + 4 * u + v < 12 * r := by omega
      rw [m1']
      simp only [this, decide_true, Bool.not_true, Bool.false_and]
      cases w0.getLsbD (16 * s + 4 * u + v) <;> cases w0.getLsbD (16 * u + 4 * s + v) <;> simp
  · have m1' : (0xF0000F0000F0#64).getLsbD (16 * (r - 1) + (16 * s + 4 * u + v)) = false := by
      rw [m1]; simp [hup]
    by_cases hl : s = u + r
    · have hh := m2.mpr hl
      have e2 : 16 * s + 4 * u + v - 12 * r = 16 * u + 4 * s + v := by omega
      have e3 : 12 * r + (16 * u + 4 * s + v) = 16 * s + 4 * u + v := by omega
      have c1 : ¬ (s < u + r ∧ u < s + r) := by omega
      have c2 : s < u + (r + 1) ∧ u < s + (r + 1) := by omega
      have hlt : ¬ 16 * s + 4 * u + v < 12 * r := by omega
      rw [e2] at hh
      rw [if_neg c1, if_pos c2, m1', e2, hh.2, h u s v hu hs hv, e3, h s u v hs hu hv, if_neg c1]
      have c3 : ¬ (u < s + r ∧ s < u + r) := by omega
      rw [if_neg c3]
      simp only [hlt, decide_false, Bool.not_false, Bool.true_and, Bool.and_true, Bool.and_false, Bool.xor_false]
      cases w0.getLsbD (16 * s + 4 * u + v) <;> cases w0.getLsbD (16 * u + 4 * s + v) <;> simp
    · have hm2 : ¬ (12 * r ≤ 16 * s + 4 * u + v ∧
          (0xF0000F0000F0#64).getLsbD (16 * (r - 1) + (16 * s + 4 * u + v - 12 * r)) = true) :=
        fun hh => hl (m2.mp hh)
      have hx : (!decide (16 * s + 4 * u + v < 12 * r) &&
          ((w.getLsbD (16 * s + 4 * u + v - 12 * r) ^^ w.getLsbD (12 * r + (16 * s + 4 * u + v - 12 * r))) &&
            (0xF0000F0000F0#64).getLsbD (16 * (r - 1) + (16 * s + 4 * u + v - 12 * r)))) = false := by
        by_cases h12 : 12 * r ≤ 16 * s + 4 * u + v
        · have hf : (0xF0000F0000F0#64).getLsbD (16 * (r - 1) + (16 * s + 4 * u + v - 12 * r)) = false := by
            cases hh : (0xF0000F0000F0#64).getLsbD (16 * (r - 1) + (16 * s + 4 * u + v - 12 * r))
            · rfl
            · exact absurd ⟨h12, hh⟩ hm2
          rw [hf]; simp
        · have : 16 * s + 4 * u + v < 12 * r := by omega
          simp [this]
      rw [hx, m1']
      have : (s < u + (r + 1) ∧ u < s + (r + 1)) ↔ (s < u + r ∧ u < s + r) := by omega
      simp only [this, Bool.and_false, Bool.xor_false]


theorem le16Loop_spec (t1 : Array Word) (maxsize : Nat) (hmax : maxsize ≤ 16) :
    ∀ fuel r t, r + fuel = 5 → 1 ≤ r → r ≤ 3 → (∀ q, q < 4 → Inv16 (rd t1 q) (rd t q) r) →
      ∃ R, maxsize ≤ 4 * R ∧ ∀ q, q < 4 →
        Inv16 (rd t1 q) (rd (le16Loop (maxsize * 3) fuel t (0xF0000F0000F0#64 >>> (16 * (r - 1))) (12 * r)) q) R := by
  intro fuel
  induction fuel with
  | zero => intro r t h; omega
  | succ fuel ih =>
    intro r t hf h1 h3 hinv
    simp only [le16Loop]
    have hstep : ∀ q, q < 4 → Inv16 (rd t1 q) (rd (tab 4 fun q =>
        (rd t q ^^^ (((rd t q ^^^ (rd t q >>> (12 * r))) &&& (0xF0000F0000F0#64 >>> (16 * (r - 1)))) <<< (12 * r))) ^^^
          ((rd t q ^^^ (rd t q >>> (12 * r))) &&& (0xF0000F0000F0#64 >>> (16 * (r - 1))))) q) (r + 1) := by
      intro q hq
      rw [rd_tab_lt _ _ _ hq]
      exact (hinv q hq).step h1 h3
    by_cases hc : 12 * r + 12 < maxsize * 3
    · rw [if_pos hc]
      have e2 : (0xF0000F0000F0#64 >>> (16 * (r - 1))) >>> 16 = 0xF0000F0000F0#64 >>> (16 * (r + 1 - 1)) := by
        rw [ushiftRight_ushiftRight']; congr 1; omega
      have e3 : 12 * r + 12 = 12 * (r + 1) := by omega
      rw [e2, e3]
      exact ih (r + 1) _ (by omega) (by omega) (by omega) hstep
    · rw [if_neg hc]
      exact ⟨r + 1, by omega, hstep⟩

/-- **`_mzd_copy_transpose_le16xle16`** for all `n, m ≤ 16` (`maxsize = max n m`) -/
theorem le16xle16_spec (src : Nat → Word) (n m : Nat) (hn : n ≤ 16) (hm : m ≤ 16) (hc : SrcClean src n m) :
    SmallSpec (le16xle16 src n m (max n m)) src n m := by
  refine ⟨by simp [le16xle16, size_tab], ?_⟩
  intro c i hcm hi
  unfold le16xle16
  simp only []
  -- the load
  generalize ht1 : (tab 4 fun q => (List.range 4).foldl
      (fun acc s => if 4 * s + q < n then acc ||| (src (4 * s + q) <<< (16 * s)) else acc) 0) = t1
  have hload : ∀ q s x, q < 4 → s < 4 → x < 16 →
      (rd t1 q).getLsbD (16 * s + x) = (decide (4 * s + q < n) && (src (4 * s + q)).getLsbD x) := by
    intro q s x hq hs hx
    rw [← ht1, rd_tab_lt _ _ _ hq]
    let g : Nat → Word := fun s => if 4 * s + q < n then src (4 * s + q) else 0
    have hg : ∀ i p, 16 ≤ p → (g i).getLsbD p = false := by
      intro i p hp
      simp only [g]
      split
      · exact hc _ p (by assumption) (by omega)
      · simp
    have hf : (List.range 4).foldl
        (fun acc s => if 4 * s + q < n then acc ||| (src (4 * s + q) <<< (16 * s)) else acc) 0
        = (List.range 4).foldl (fun acc s => acc ||| (g s <<< (16 * s))) 0 := by
      apply foldl_ext'
      intro a s _
      simp only [g]
      split <;> simp
    rw [hf, packW 16 g 4 (fun i p _ hp => hg i p hp) s x hx (by omega)]
    simp only [g]
    by_cases h : 4 * s + q < n <;> simp [h, hs]
  -- the block loop
  have hinit : ∀ q, q < 4 → Inv16 (rd t1 q) (rd t1 q) 1 := by
    intro q _ s u v _ _ _
    by_cases h : s < u + 1 ∧ u < s + 1
    · have : s = u := by omega
      subst this; simp
    · rw [if_neg h]
  obtain ⟨R, hR, hinv⟩ := le16Loop_spec t1 (max n m) (by omega) 4 1 t1 (by omega) (by omega) (by omega) hinit
  simp only [Nat.mul_one, Nat.sub_self, Nat.mul_zero, BitVec.ushiftRight_zero] at hinv
  generalize ht2 : le16Loop (max n m * 3) 4 t1 (0xF0000F0000F0#64) 12 = t2 at hinv
  have hsz2 : t2.size = 4 := by
    rw [← ht2]
    have : ∀ fuel t mask shift, t.size = 4 → (le16Loop (max n m * 3) fuel t mask shift).size = 4 := by
      intro fuel
      induction fuel with
      | zero => intro t mask shift h; simpa [le16Loop] using h
      | succ fuel ih =>
        intro t mask shift h
        simp only [le16Loop]
        split
        · exact ih _ _ _ (size_tab _ _)
        · exact size_tab _ _
    exact this 4 t1 _ _ (by rw [← ht1, size_tab])
  -- all 4 × 4 blocks mirrored
  have hblk : ∀ q s u v, q < 4 → s < 4 → u < 4 → v < 4 →
      (rd t2 q).getLsbD (16 * s + 4 * u + v) =
        (decide (4 * u + q < n) && (src (4 * u + q)).getLsbD (4 * s + v)) := by
    intro q s u v hq hs hu hv
    rw [hinv q hq s u v hs hu hv]
    have l1 := hload q u (4 * s + v) hq hu (by omega)
    have l2 := hload q s (4 * u + v) hq hs (by omega)
    rw [show 16 * u + (4 * s + v) = 16 * u + 4 * s + v by omega] at l1
    rw [show 16 * s + (4 * u + v) = 16 * s + 4 * u + v by omega] at l2
    split
    · exact l1
    · rename_i hd
      rw [l2]
      have hd' : u + R ≤ s ∨ s + R ≤ u := by omega
      rcases hd' with hd' | hd'
      · -- row `4s + q ≥ 4R ≥ n`; mirrored column `4s + v ≥ m`
        have h1 : ¬ 4 * s + q < n := by omega
        by_cases h2 : 4 * u + q < n
        · rw [hc _ (4 * s + v) h2 (by omega)]; simp [h1]
        · simp [h1, h2]
      · have h1 : ¬ 4 * u + q < n := by omega
        by_cases h2 : 4 * s + q < n
        · rw [hc _ (4 * u + v) h2 (by omega)]; simp [h1]
        · simp [h1, h2]
  -- the 4 × 4 blocks transposed
  have hN := transposeNxjx64_spec t2 4 4 (by decide) (by omega) (by omega) (fun k hk => rd_of_ge _ _ (by omega))
  have hexp := transposeNxjx64_snd_pow2 t2 2 (by omega) (by omega)
  simp only [show (2:Nat) ^ 2 = 4 from rfl] at hexp
  rw [hexp] at hN
  obtain ⟨-, -, -, -, -, hN⟩ := hN
  simp only [show (2:Nat) ^ 2 = 4 from rfl] at hN
  generalize (transposeNxjx64 t2 4).1 = t3 at hN
  rw [rd_tab_lt _ _ _ hcm]
  simp only [BitVec.getLsbD_and, BitVec.getLsbD_ushiftRight, mask_ffff i hi]
  by_cases hi16 : i < 16
  · have hp : 16 * (c / 4) + i < 64 := by omega
    rw [hN (c % 4) _ (Nat.mod_lt _ (by omega)) hp]
    have e1 : (16 * (c / 4) + i) % 4 = i % 4 := by omega
    have e2 : (16 * (c / 4) + i) / 4 * 4 + c % 4 = 16 * (c / 4) + 4 * (i / 4) + c % 4 := by omega
    rw [e1, e2, hblk (i % 4) (c / 4) (i / 4) (c % 4) (Nat.mod_lt _ (by omega)) (by omega) (by omega)
      (Nat.mod_lt _ (by omega))]
    have e3 : 4 * (i / 4) + i % 4 = i := by omega
    have e4 : 4 * (c / 4) + c % 4 = c := by omega
    rw [e3, e4]
    simp [hi16]
  · have : ¬ i < n := by omega
    simp [hi16, this]


/-! ### the dispatcher -/

/-- **`_mzd_copy_transpose_small`**: every `n × m` block with `1 ≤ n`, `n, m < 64` (`maxsize = max n m`) -/
theorem copyTransposeSmall_spec (src : Nat → Word) (n m : Nat) (hn1 : 1 ≤ n) (hn : n < 64) (hm : m < 64)
    (hc : SrcClean src n m) : SmallSpec (copyTransposeSmall src n m (max n m)) src n m := by
  unfold copyTransposeSmall
  split
  · exact le8xle8_spec src n m hn1 (by omega) (by omega) hc
  · split
    · exact le16xle16_spec src n m (by omega) (by omega) hc
    · split
      · exact le32xle32_spec src n m (by omega) (by omega) hc
      · exact le64xle64_spec src n m (by omega)

end M4ri.Tr
