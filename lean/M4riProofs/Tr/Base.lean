/-
  Transposition drivers, part 2: `_mzd_transpose_base`.
-/
import M4riProofs.Tr.Tiles
namespace M4ri.Tr

/-! ### one kernel call = one tile -/

theorem blk64_tiles (S : Src) (sc' dc' : Nat) :
    Tiles S (blk64 S ((64 * sc', dc'), (64 * dc', sc'))) (64 * sc') (64 * sc' + 64) dc' (dc' + 1) := by
  unfold blk64
  apply colWrites_tiles S sc' dc' 64 _ (Nat.le_refl _)
  intro k p hk hp
  rw [transpose64x64A_spec _ k p hk hp]
  rfl

theorem lt_tiles (S : Src) (sc' dc' n : Nat) (hn1 : 1 ≤ n) (hn : n < 64)
    (hcl : ∀ r p, n ≤ p → (S r sc').getLsbD p = false) :
    Tiles S (colWrites (64 * sc') dc' n (copyTranspose64xLt64 (srcCol S (64 * dc') sc') n))
      (64 * sc') (64 * sc' + n) dc' (dc' + 1) := by
  apply colWrites_tiles S sc' dc' n _ (by omega)
  intro k p hk hp
  have := (copyTranspose64xLt64_spec (srcCol S (64 * dc') sc') n hn1 hn
    (fun i q _ hq => hcl _ q hq)).2 k p hk hp
  rw [this]
  rfl

theorem top_tiles (S : Src) (sc' dc' n : Nat) (hn1 : 1 ≤ n) (hn : n < 64)
    (hz : ∀ r c, 64 * dc' + n ≤ r → S r c = 0) :
    Tiles S (colWrites (64 * sc') dc' 64 (copyTransposeLt64x64 (srcCol S (64 * dc') sc') n))
      (64 * sc') (64 * sc' + 64) dc' (dc' + 1) := by
  apply colWrites_tiles S sc' dc' 64 _ (Nat.le_refl _)
  intro k p hk hp
  rw [(copyTransposeLt64x64_spec (srcCol S (64 * dc') sc') n hn1 hn).2 k p hk hp]
  unfold srcCol
  by_cases h : p < n
  · simp [h]
  · rw [hz _ _ (by omega)]; simp [h]

theorem small_tiles (S : Src) (sc' dc' n m : Nat) (hn1 : 1 ≤ n) (hn : n < 64) (hm : m < 64)
    (hz : ∀ r c, 64 * dc' + n ≤ r → S r c = 0) (hcl : ∀ r p, m ≤ p → (S r sc').getLsbD p = false) :
    Tiles S (colWrites (64 * sc') dc' m (copyTransposeSmall (srcCol S (64 * dc') sc') n m (max n m)))
      (64 * sc') (64 * sc' + m) dc' (dc' + 1) := by
  apply colWrites_tiles S sc' dc' m _ (by omega)
  intro k p hk hp
  rw [(copyTransposeSmall_spec (srcCol S (64 * dc') sc') n m hn1 hn hm (fun i q _ hq => hcl _ q hq)).2 k p hk hp]
  unfold srcCol
  by_cases h : p < n
  · simp [h]
  · rw [hz _ _ (by omega)]; simp [h]

/-! ### the pairing of 64 × 64 blocks -/

/-- the stores issued so far plus those of the delayed block -/
def flush (S : Src) (st : List Wr × Option Blk) : List Wr :=
  st.1 ++ (match st.2 with | none => [] | some b => blk64 S b)

theorem blk64_2_eq (S : Src) (b1 b2 : Blk) : blk64_2 S b1 b2 = blk64 S b1 ++ blk64 S b2 := rfl

theorem mem_flush_pairStep (S : Src) (st : List Wr × Option Blk) (b : Blk) (x : Wr) :
    x ∈ flush S (pairStep S st b) ↔ x ∈ flush S st ∨ x ∈ blk64 S b := by
  obtain ⟨l, o⟩ := st
  cases o with
  | none => simp [pairStep, flush]
  | some b0 => simp [pairStep, flush, blk64_2_eq, or_assoc]

theorem isSome_pairStep (S : Src) (st : List Wr × Option Blk) (b : Blk) :
    (pairStep S st b).2.isSome = !st.2.isSome := by
  obtain ⟨l, o⟩ := st
  cases o <;> simp [pairStep]

theorem mem_flush_foldl_pairStep (S : Src) (f : Nat → Blk) (x : Wr) :
    ∀ (L : List Nat) (st : List Wr × Option Blk),
      x ∈ flush S (L.foldl (fun st j => pairStep S st (f j)) st) ↔
        x ∈ flush S st ∨ ∃ j, j ∈ L ∧ x ∈ blk64 S (f j) := by
  intro L
  induction L with
  | nil => intro st; simp
  | cons j L ih =>
    intro st
    rw [List.foldl_cons, ih, mem_flush_pairStep]
    simp only [List.mem_cons, or_assoc]
    constructor
    · rintro (h | h | ⟨j', hj', h⟩)
      · exact Or.inl h
      · exact Or.inr ⟨j, Or.inl rfl, h⟩
      · exact Or.inr ⟨j', Or.inr hj', h⟩
    · rintro (h | ⟨j', rfl | hj', h⟩)
      · exact Or.inl h
      · exact Or.inr (Or.inl h)
      · exact Or.inr (Or.inr ⟨j', hj', h⟩)

theorem isSome_foldl_pairStep (S : Src) (f : Nat → Blk) :
    ∀ (L : List Nat) (st : List Wr × Option Blk),
      (L.foldl (fun st j => pairStep S st (f j)) st).2.isSome = (st.2.isSome != decide (L.length % 2 = 1)) := by
  intro L
  induction L with
  | nil => intro st; simp
  | cons j L ih =>
    intro st
    rw [List.foldl_cons, ih, isSome_pairStep, List.length_cons]
    cases st.2.isSome <;> by_cases h : L.length % 2 = 1 <;>
      simp [h, show ((L.length + 1) % 2 = 1) ↔ ¬ (L.length % 2 = 1) by omega]


/-! ### bit tricks of `_mzd_transpose_base` -/

theorem and64 (x : Nat) : x &&& 64 ≠ 0 ↔ x / 64 % 2 = 1 := by
  have h64 : (64 : Nat) = 2 ^ 6 := rfl
  have hb : (x &&& 64).testBit 6 = x.testBit 6 := by
    rw [Nat.testBit_and, h64, Nat.testBit_two_pow_self]; simp
  rw [Nat.testBit_eq_decide_div_mod_eq (x := x)] at hb
  constructor
  · intro h
    apply Classical.byContradiction
    intro hn
    apply h
    apply Nat.eq_of_testBit_eq
    intro i
    rw [Nat.testBit_and, h64, Nat.testBit_two_pow, Nat.zero_testBit]
    by_cases hi : 6 = i
    · subst hi
      rw [Nat.testBit_eq_decide_div_mod_eq]
      simp [← h64, hn]
    · simp [hi]
  · intro h hz
    rw [hz] at hb
    simp [← h64, h] at hb

/-- `js = ncols & nrows & 64`: the number of whole 64 × 64 blocks is odd -/
theorem js_iff (a b : Nat) : (a &&& b &&& 64) ≠ 0 ↔ (a / 64 % 2 = 1 ∧ b / 64 % 2 = 1) := by
  rw [and64]
  have := Nat.testBit_and a b 6
  simp only [Nat.testBit_eq_decide_div_mod_eq, Nat.reducePow] at this
  by_cases h1 : a / 64 % 2 = 1 <;> by_cases h2 : b / 64 % 2 = 1 <;> simp_all

/-- `(nrows | ncols) == 64` after `js`: exactly one block -/
theorem or64 (a b : Nat) (h : (a ||| b) = 64) (ha : a / 64 % 2 = 1) (hb : b / 64 % 2 = 1) :
    a = 64 ∧ b = 64 := by
  have h1 : a ≤ a ||| b := Nat.left_le_or
  have h2 : b ≤ a ||| b := Nat.right_le_or
  omega

/-! ### the block loop of `_mzd_transpose_base` -/

/-- one pass of the `while (1)` loop (row block `b`): the body of the fold in `baseFull` -/
def rowStep (S : Src) (dr dc sr sc ncols : Nat) (js : Bool) (st : List Wr × Option Blk) (b : Nat) :
    List Wr × Option Blk :=
  let whole := ncols / 64
  let j0 := if b = 0 ∧ js then 1 else 0
  let st := (List.range' j0 (whole - j0)).foldl (fun st j =>
    pairStep S st ((dr + 64 * j, dc + b), (sr + 64 * b, sc + j))) st
  if ncols % 64 ≠ 0 then
    (st.1 ++ colWrites (dr + 64 * whole) (dc + b) (ncols % 64)
        (copyTranspose64xLt64 (srcCol S (sr + 64 * b) (sc + whole)) (ncols % 64)), st.2)
  else st

theorem baseFull_eq (S : Src) (dr dc sr sc nrows ncols : Nat) :
    baseFull S dr dc sr sc nrows ncols =
      (let js : Bool := (ncols &&& nrows &&& 64) ≠ 0
       let first : List Wr := if js then blk64 S ((dr, dc), (sr, sc)) else []
       if js ∧ (nrows ||| ncols) = 64 then first else
         ((List.range (nrows / 64)).foldl (rowStep S dr dc sr sc ncols js) (first, none)).1) := rfl

/-- the stores of row block `b` -/
def RowWrites (S : Src) (dr dc sr sc ncols : Nat) (js : Bool) (b : Nat) (x : Wr) : Prop :=
  (∃ j, (if b = 0 ∧ js then 1 else 0) ≤ j ∧ j < ncols / 64 ∧
      x ∈ blk64 S ((dr + 64 * j, dc + b), (sr + 64 * b, sc + j))) ∨
  (ncols % 64 ≠ 0 ∧ x ∈ colWrites (dr + 64 * (ncols / 64)) (dc + b) (ncols % 64)
      (copyTranspose64xLt64 (srcCol S (sr + 64 * b) (sc + ncols / 64)) (ncols % 64)))

theorem mem_flush_rowStep (S : Src) (dr dc sr sc ncols : Nat) (js : Bool) (st : List Wr × Option Blk)
    (b : Nat) (x : Wr) :
    x ∈ flush S (rowStep S dr dc sr sc ncols js st b) ↔
      x ∈ flush S st ∨ RowWrites S dr dc sr sc ncols js b x := by
  unfold rowStep RowWrites
  simp only []
  have key := mem_flush_foldl_pairStep S (fun j => ((dr + 64 * j, dc + b), (sr + 64 * b, sc + j))) x
    (List.range' (if b = 0 ∧ js then 1 else 0) (ncols / 64 - (if b = 0 ∧ js then 1 else 0))) st
  have hmem : ∀ j, j ∈ List.range' (if b = 0 ∧ js then 1 else 0) (ncols / 64 - (if b = 0 ∧ js then 1 else 0))
      ↔ ((if b = 0 ∧ js then 1 else 0) ≤ j ∧ j < ncols / 64) := by
    intro j
    rw [List.mem_range'_1]
    omega
  by_cases hlt : ncols % 64 ≠ 0
  · rw [if_pos hlt]
    generalize (List.range' (if b = 0 ∧ js then 1 else 0) (ncols / 64 - (if b = 0 ∧ js then 1 else 0))).foldl
      (fun st j => pairStep S st ((dr + 64 * j, dc + b), (sr + 64 * b, sc + j))) st = st' at key
    have : ∀ y, y ∈ flush S (st'.1 ++ colWrites (dr + 64 * (ncols / 64)) (dc + b) (ncols % 64)
        (copyTranspose64xLt64 (srcCol S (sr + 64 * b) (sc + ncols / 64)) (ncols % 64)), st'.2) ↔
        y ∈ flush S st' ∨ y ∈ colWrites (dr + 64 * (ncols / 64)) (dc + b) (ncols % 64)
        (copyTranspose64xLt64 (srcCol S (sr + 64 * b) (sc + ncols / 64)) (ncols % 64)) := by
      intro y
      unfold flush
      simp only [List.mem_append]
      constructor
      · rintro ((h | h) | h)
        · exact Or.inl (Or.inl h)
        · exact Or.inr h
        · exact Or.inl (Or.inr h)
      · rintro ((h | h) | h)
        · exact Or.inl (Or.inl h)
        · exact Or.inr h
        · exact Or.inl (Or.inr h)
    rw [this, key]
    simp only [hmem, or_assoc]
    constructor
    · rintro (h | ⟨j, ⟨h1, h2⟩, h3⟩ | h)
      · exact Or.inl h
      · exact Or.inr (Or.inl ⟨j, h1, h2, h3⟩)
      · exact Or.inr (Or.inr ⟨hlt, h⟩)
    · rintro (h | ⟨j, h1, h2, h3⟩ | ⟨_, h⟩)
      · exact Or.inl h
      · exact Or.inr (Or.inl ⟨j, ⟨h1, h2⟩, h3⟩)
      · exact Or.inr (Or.inr h)
  · rw [if_neg hlt, key]
    simp only [hmem, hlt, false_and, or_false]
    constructor
    · rintro (h | ⟨j, ⟨h1, h2⟩, h3⟩)
      · exact Or.inl h
      · exact Or.inr ⟨j, h1, h2, h3⟩
    · rintro (h | ⟨j, h1, h2, h3⟩)
      · exact Or.inl h
      · exact Or.inr ⟨j, ⟨h1, h2⟩, h3⟩

theorem isSome_rowStep (S : Src) (dr dc sr sc ncols : Nat) (js : Bool) (st : List Wr × Option Blk) (b : Nat) :
    (rowStep S dr dc sr sc ncols js st b).2.isSome =
      (st.2.isSome != decide ((ncols / 64 - (if b = 0 ∧ js then 1 else 0)) % 2 = 1)) := by
  unfold rowStep
  simp only []
  have key := isSome_foldl_pairStep S (fun j => ((dr + 64 * j, dc + b), (sr + 64 * b, sc + j)))
    (List.range' (if b = 0 ∧ js then 1 else 0) (ncols / 64 - (if b = 0 ∧ js then 1 else 0))) st
  rw [List.length_range'] at key
  split <;> exact key

theorem mem_flush_rows (S : Src) (dr dc sr sc ncols : Nat) (js : Bool) (x : Wr) :
    ∀ R (st : List Wr × Option Blk),
      x ∈ flush S ((List.range R).foldl (rowStep S dr dc sr sc ncols js) st) ↔
        x ∈ flush S st ∨ ∃ b, b < R ∧ RowWrites S dr dc sr sc ncols js b x := by
  intro R
  induction R with
  | zero => intro st; simp
  | succ R ih =>
    intro st
    rw [List.range_succ, List.foldl_append, List.foldl_cons, List.foldl_nil, mem_flush_rowStep, ih]
    constructor
    · rintro ((h | ⟨b, hb, h⟩) | h)
      · exact Or.inl h
      · exact Or.inr ⟨b, by omega, h⟩
      · exact Or.inr ⟨R, by omega, h⟩
    · rintro (h | ⟨b, hb, h⟩)
      · exact Or.inl (Or.inl h)
      · by_cases hbR : b = R
        · subst hbR; exact Or.inr h
        · exact Or.inl (Or.inr ⟨b, by omega, h⟩)

/-- no block is left pending: the parity argument behind `js` -/
theorem isSome_rows (S : Src) (dr dc sr sc ncols : Nat) (js : Bool) (hjs : js = true → ncols / 64 % 2 = 1) :
    ∀ R (st : List Wr × Option Blk),
      ((List.range R).foldl (rowStep S dr dc sr sc ncols js) st).2.isSome =
        (st.2.isSome != decide (ncols / 64 % 2 = 1 ∧ (R - (if js ∧ 0 < R then 1 else 0)) % 2 = 1)) := by
  intro R
  induction R with
  | zero => intro st; simp
  | succ R ih =>
    intro st
    rw [List.range_succ, List.foldl_append, List.foldl_cons, List.foldl_nil, isSome_rowStep, ih]
    cases hjsv : js
    · -- no odd block out
      simp only [Bool.false_eq_true, and_false, false_and, if_false, Nat.sub_zero]
      by_cases hw : ncols / 64 % 2 = 1
      · by_cases hR : R % 2 = 1
        · have : ¬ (R + 1) % 2 = 1 := by omega
          cases st.2.isSome <;> simp [hw, hR, this]
        · have : (R + 1) % 2 = 1 := by omega
          cases st.2.isSome <;> simp [hw, hR, this]
      · cases st.2.isSome <;> simp [hw]
    · have hw := hjs hjsv
      simp only [true_and, and_true]
      by_cases hR0 : R = 0
      · subst hR0
        have : (ncols / 64 - 1) % 2 = 0 := by omega
        cases st.2.isSome <;> simp [hw, this]
      · have h1 : 0 < R := by omega
        have h2 : ¬ R = 0 := hR0
        simp only [h1, h2, if_true, if_false, Nat.sub_zero, hw, true_and, Nat.lt_succ_of_lt h1,
          Nat.add_sub_cancel]
        by_cases hR : R % 2 = 1
        · have a1 : ¬ (R - 1) % 2 = 1 := by omega
          cases st.2.isSome <;> simp [hR, a1]
        · have a1 : (R - 1) % 2 = 1 := by omega
          cases st.2.isSome <;> simp [hR, a1]


theorem rowWrites_sound (S : Src) (dc sc ncols : Nat) (js : Bool) (b : Nat) (x : Wr)
    (hcl : ncols % 64 ≠ 0 → ∀ r p, ncols % 64 ≤ p → (S r (sc + ncols / 64)).getLsbD p = false)
    (h : RowWrites S (64 * sc) dc (64 * dc) sc ncols js b x) :
    64 * sc ≤ x.1 ∧ x.1 < 64 * sc + ncols ∧ x.2.1 = dc + b ∧ Good S x := by
  rcases h with ⟨j, _, hj, hx⟩ | ⟨hn, hx⟩
  · rw [show 64 * sc + 64 * j = 64 * (sc + j) by omega, show 64 * dc + 64 * b = 64 * (dc + b) by omega] at hx
    have := (blk64_tiles S (sc + j) (dc + b)).sound x hx
    refine ⟨by omega, by omega, by omega, this.2.2.2.2⟩
  · rw [show 64 * sc + 64 * (ncols / 64) = 64 * (sc + ncols / 64) by omega,
      show 64 * dc + 64 * b = 64 * (dc + b) by omega] at hx
    have := (lt_tiles S (sc + ncols / 64) (dc + b) (ncols % 64) (by omega) (Nat.mod_lt _ (by omega))
      (hcl hn)).sound x hx
    refine ⟨by omega, by omega, by omega, this.2.2.2.2⟩

/-- the `if (nrows >= 64) { … }` part: all whole row blocks -/
theorem baseFull_tiles (S : Src) (dc sc nrows ncols : Nat)
    (hcl : ncols % 64 ≠ 0 → ∀ r p, ncols % 64 ≤ p → (S r (sc + ncols / 64)).getLsbD p = false) :
    Tiles S (baseFull S (64 * sc) dc (64 * dc) sc nrows ncols) (64 * sc) (64 * sc + ncols) dc
      (dc + nrows / 64) := by
  rw [baseFull_eq]
  simp only []
  generalize hjsdef : (decide ((ncols &&& nrows &&& 64) ≠ 0)) = js
  have hjs : js = true ↔ (ncols / 64 % 2 = 1 ∧ nrows / 64 % 2 = 1) := by
    rw [← hjsdef, decide_eq_true_iff, js_iff]
  by_cases hearly : js = true ∧ (nrows ||| ncols) = 64
  · rw [if_pos hearly, if_pos hearly.1]
    obtain ⟨h1, h2⟩ := hjs.mp hearly.1
    obtain ⟨e1, e2⟩ := or64 nrows ncols hearly.2 h2 h1
    subst e1 e2
    exact blk64_tiles S sc dc
  · rw [if_neg hearly]
    generalize hfirst : (if js = true then blk64 S ((64 * sc, dc), (64 * dc, sc)) else []) = first
    have hpend := isSome_rows S (64 * sc) dc (64 * dc) sc ncols js (fun h => (hjs.mp h).1) (nrows / 64) (first, none)
    have hnone : ((List.range (nrows / 64)).foldl (rowStep S (64 * sc) dc (64 * dc) sc ncols js) (first, none)).2
        = none := by
      have : ¬ (ncols / 64 % 2 = 1 ∧
          (nrows / 64 - (if js = true ∧ 0 < nrows / 64 then 1 else 0)) % 2 = 1) := by
        by_cases hj : js = true
        · obtain ⟨h1, h2⟩ := hjs.mp hj
          have : 0 < nrows / 64 := by omega
          simp only [hj, this, and_self, if_true]
          omega
        · have hnot : ¬ (ncols / 64 % 2 = 1 ∧ nrows / 64 % 2 = 1) := fun h => hj (hjs.mpr h)
          rw [if_neg (fun h => hj h.1)]
          omega
      simp only [Option.isSome_none, this, decide_false, Bool.bne_false] at hpend
      cases h : ((List.range (nrows / 64)).foldl (rowStep S (64 * sc) dc (64 * dc) sc ncols js) (first, none)).2
      · rfl
      · rw [h] at hpend; simp at hpend
    have hmem : ∀ x, x ∈ ((List.range (nrows / 64)).foldl (rowStep S (64 * sc) dc (64 * dc) sc ncols js)
        (first, none)).1 ↔ x ∈ first ∨ ∃ b, b < nrows / 64 ∧ RowWrites S (64 * sc) dc (64 * dc) sc ncols js b x := by
      intro x
      have := mem_flush_rows S (64 * sc) dc (64 * dc) sc ncols js x (nrows / 64) (first, none)
      unfold flush at this
      rw [hnone] at this
      simpa using this
    constructor
    · intro x hx
      rcases (hmem x).mp hx with hx | ⟨b, hb, hx⟩
      · by_cases hj : js = true
        · rw [← hfirst, if_pos hj] at hx
          obtain ⟨h1, h2⟩ := hjs.mp hj
          have := (blk64_tiles S sc dc).sound x hx
          refine ⟨by omega, by omega, by omega, by omega, this.2.2.2.2⟩
        · rw [← hfirst, if_neg hj] at hx; simp at hx
      · have := rowWrites_sound S dc sc ncols js b x hcl hx
        refine ⟨this.1, this.2.1, by omega, by omega, this.2.2.2⟩
    · intro r c hr0 hr1 hc0 hc1
      by_cases hjw : (r - 64 * sc) / 64 < ncols / 64
      · by_cases hf : (c - dc = 0 ∧ js = true) ∧ (r - 64 * sc) / 64 = 0
        · obtain ⟨v, hv⟩ := (blk64_tiles S sc dc).covers r c (by omega) (by omega) (by omega) (by omega)
          refine ⟨v, (hmem _).mpr (Or.inl ?_)⟩
          rw [← hfirst, if_pos hf.1.2]; exact hv
        · obtain ⟨v, hv⟩ := (blk64_tiles S (sc + (r - 64 * sc) / 64) (dc + (c - dc))).covers r c
            (by omega) (by omega) (by omega) (by omega)
          refine ⟨v, (hmem _).mpr (Or.inr ⟨c - dc, by omega, Or.inl ⟨(r - 64 * sc) / 64, ?_, hjw, ?_⟩⟩)⟩
          · split
            · rename_i h
              have : (r - 64 * sc) / 64 ≠ 0 := fun e => hf ⟨h, e⟩
              omega
            · omega
          · rw [show 64 * sc + 64 * ((r - 64 * sc) / 64) = 64 * (sc + (r - 64 * sc) / 64) by omega,
              show 64 * dc + 64 * (c - dc) = 64 * (dc + (c - dc)) by omega]
            exact hv
      · have hn : ncols % 64 ≠ 0 := by omega
        obtain ⟨v, hv⟩ := (lt_tiles S (sc + ncols / 64) (dc + (c - dc)) (ncols % 64) (by omega)
          (Nat.mod_lt _ (by omega)) (hcl hn)).covers r c (by omega) (by omega) (by omega) (by omega)
        refine ⟨v, (hmem _).mpr (Or.inr ⟨c - dc, by omega, Or.inr ⟨hn, ?_⟩⟩)⟩
        rw [show 64 * sc + 64 * (ncols / 64) = 64 * (sc + ncols / 64) by omega,
          show 64 * dc + 64 * (c - dc) = 64 * (dc + (c - dc)) by omega]
        exact hv


/-- a run of `k` tiles of 64 rows each, in one word column -/
theorem flatMap_tiles (S : Src) (sc c : Nat) (f : Nat → List Wr)
    (hf : ∀ j, Tiles S (f j) (64 * (sc + j)) (64 * (sc + j) + 64) c (c + 1)) :
    ∀ k, Tiles S ((List.range k).flatMap f) (64 * sc) (64 * sc + 64 * k) c (c + 1) := by
  intro k
  induction k with
  | zero => simpa using Tiles.nil_rows S (64 * sc) (64 * sc) c (c + 1) (Nat.le_refl _)
  | succ k ih =>
    rw [List.range_succ, List.flatMap_append]
    simp only [List.flatMap_cons, List.flatMap_nil, List.append_nil]
    have h2 := hf k
    rw [show 64 * (sc + k) = 64 * sc + 64 * k by omega,
      show 64 * sc + 64 * k + 64 = 64 * sc + 64 * (k + 1) by omega] at h2
    exact ih.append_rows h2 (by omega) (by omega)

/-- **`_mzd_transpose_base`**: for every size, the stores tile the destination rectangle
    (rows `64·sc …` (`ncols` of them), words `dc …` (`⌈nrows/64⌉` of them)) with transposed words.
    `fwd` = word `dc` of row `64·sc` of the destination, `fws` = word `sc` of row `64·dc` of the source.
    Preconditions: a partial last row block is followed by zero rows; a partial last source word has zero
    excess bits. -/
theorem transposeBase_tiles (S : Src) (dc sc nrows ncols : Nat)
    (hz : nrows % 64 ≠ 0 → ∀ r c, 64 * dc + nrows ≤ r → S r c = 0)
    (hcl : ncols % 64 ≠ 0 → ∀ r p, ncols % 64 ≤ p → (S r (sc + ncols / 64)).getLsbD p = false) :
    Tiles S (transposeBase S (64 * sc) dc (64 * dc) sc nrows ncols) (64 * sc) (64 * sc + ncols) dc
      (dc + widthOf nrows) := by
  unfold transposeBase
  simp only []
  have hfull : Tiles S (if nrows ≥ 64 then baseFull S (64 * sc) dc (64 * dc) sc nrows ncols else [])
      (64 * sc) (64 * sc + ncols) dc (dc + nrows / 64) := by
    split
    · exact baseFull_tiles S dc sc nrows ncols hcl
    · exact Tiles.nil_cols S _ _ _ _ (by omega)
  generalize (if nrows ≥ 64 then baseFull S (64 * sc) dc (64 * dc) sc nrows ncols else []) = full at hfull
  by_cases hr : nrows % 64 = 0
  · rw [if_pos hr]
    have : widthOf nrows = nrows / 64 := by unfold widthOf; omega
    rw [this]; exact hfull
  · rw [if_neg hr]
    have hw : widthOf nrows = nrows / 64 + 1 := by unfold widthOf; omega
    rw [hw]
    have hz' : ∀ r c, 64 * (dc + nrows / 64) + nrows % 64 ≤ r → S r c = 0 :=
      fun r c h => hz hr r c (by omega)
    have htop : Tiles S ((List.range (ncols / 64)).flatMap fun j =>
        colWrites (64 * sc + 64 * j) (dc + nrows / 64) 64
          (copyTransposeLt64x64 (srcCol S (64 * dc + 64 * (nrows / 64)) (sc + j)) (nrows % 64)))
        (64 * sc) (64 * sc + 64 * (ncols / 64)) (dc + nrows / 64) (dc + nrows / 64 + 1) := by
      apply flatMap_tiles
      intro j
      rw [show 64 * sc + 64 * j = 64 * (sc + j) by omega,
        show 64 * dc + 64 * (nrows / 64) = 64 * (dc + nrows / 64) by omega]
      exact top_tiles S (sc + j) (dc + nrows / 64) (nrows % 64) (by omega) (Nat.mod_lt _ (by omega)) hz'
    generalize ((List.range (ncols / 64)).flatMap fun j =>
        colWrites (64 * sc + 64 * j) (dc + nrows / 64) 64
          (copyTransposeLt64x64 (srcCol S (64 * dc + 64 * (nrows / 64)) (sc + j)) (nrows % 64))) = top at htop
    by_cases hc : ncols % 64 = 0
    · rw [if_pos hc]
      have : 64 * sc + 64 * (ncols / 64) = 64 * sc + ncols := by omega
      rw [this] at htop
      rw [← Nat.add_assoc]
      exact hfull.append_cols htop (by omega) (by omega)
    · rw [if_neg hc, List.append_assoc]
      have hsmall := small_tiles S (sc + ncols / 64) (dc + nrows / 64) (nrows % 64) (ncols % 64) (by omega)
        (Nat.mod_lt _ (by omega)) (Nat.mod_lt _ (by omega)) hz' (hcl hc)
      rw [show 64 * (sc + ncols / 64) = 64 * sc + 64 * (ncols / 64) by omega,
        show 64 * (dc + nrows / 64) = 64 * dc + 64 * (nrows / 64) by omega,
        show 64 * sc + 64 * (ncols / 64) + ncols % 64 = 64 * sc + ncols by omega] at hsmall
      have := htop.append_rows hsmall (by omega) (by omega)
      rw [← Nat.add_assoc]
      exact hfull.append_cols this (by omega) (by omega)

end M4ri.Tr
