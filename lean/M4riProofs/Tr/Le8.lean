/-
  Transposition kernels, part 3a: `_mzd_copy_transpose_le8xle8` (one packed word, diagonal-by-diagonal swaps).
-/
import M4riProofs.Tr.Swap
namespace M4ri.Tr

/-- what a small kernel must deliver: `m` destination words, bit `i` of word `c` is entry `(i, c)` of the
    `n × m` source (zero beyond the `n` source rows: whole destination words are written) -/
def SmallSpec (out : Array Word) (src : Nat → Word) (n m : Nat) : Prop :=
  out.size = m ∧ ∀ c i, c < m → i < 64 → (rd out c).getLsbD i = (decide (i < n) && (src i).getLsbD c)

/-- the precondition of the packed kernels: the source words carry nothing beyond column `m`
    (zero excess bits; `mzd_transpose` copies "dangerous" windows first to establish this) -/
def SrcClean (src : Nat → Word) (n m : Nat) : Prop :=
  ∀ i p, i < n → m ≤ p → (src i).getLsbD p = false

/-! ### packing -/

theorem foldl_ext' {α β : Type} (f g : α → β → α) (l : List β) (h : ∀ a x, x ∈ l → f a x = g a x) (a : α) :
    l.foldl f a = l.foldl g a := by
  induction l generalizing a with
  | nil => rfl
  | cons x l ih =>
    simp only [List.foldl_cons]
    rw [h a x (by simp)]
    exact ih (fun a y hy => h a y (by simp [hy])) _

theorem pack8 (src : Nat → Word) (hc : ∀ i p, 8 ≤ p → (src i).getLsbD p = false) :
    ∀ k a b, a < 8 → b < 8 →
      ((List.range k).foldl (fun w i => w ||| (src (i + 1) <<< (8 * (i + 1)))) (src 0)).getLsbD (8 * a + b)
        = (decide (a ≤ k) && (src a).getLsbD b) := by
  intro k
  induction k with
  | zero =>
    intro a b ha hb
    simp only [List.range_zero, List.foldl_nil]
    by_cases h : a = 0
    · subst h; simp
    · rw [hc 0 _ (by omega)]; simp [h]
  | succ k ih =>
    intro a b ha hb
    rw [List.range_succ, List.foldl_append]
    simp only [List.foldl_cons, List.foldl_nil, BitVec.getLsbD_or, BitVec.getLsbD_shiftLeft]
    rw [ih a b ha hb]
    by_cases h1 : a ≤ k
    · have : 8 * a + b < 8 * (k + 1) := by omega
      simp [h1, this, Nat.le_succ_of_le h1]
    · by_cases h2 : a = k + 1
      · subst h2
        have e : 8 * (k + 1) + b - 8 * (k + 1) = b := by omega
        have : ¬ 8 * (k + 1) + b < 8 * (k + 1) := by omega
        have h64 : 8 * (k + 1) + b < 64 := by omega
        simp [h1, this, e, h64]
      · have : ¬ a ≤ k + 1 := by omega
        rw [hc (k + 1) _ (by omega)]
        simp [h1, this]

/-! ### the mask of round `r` selects the `r`-th upper diagonal -/

theorem le8_mask1 : ∀ r, r < 8 → ∀ a, a < 8 → ∀ b, b < 8 → 1 ≤ r →
    (0x80402010080402#64 >>> (8 * (r - 1))).getLsbD (8 * a + b) = decide (b = a + r) := by decide +kernel

theorem le8_mask2 : ∀ r, r < 8 → ∀ a, a < 8 → ∀ b, b < 8 → 1 ≤ r →
    ((7 * r ≤ 8 * a + b ∧ (0x80402010080402#64 >>> (8 * (r - 1))).getLsbD (8 * a + b - 7 * r) = true) ↔
      a = b + r) := by decide +kernel

/-- after the rounds `1 … r-1`: the diagonals `|a - b| < r` of the 8 × 8 bit matrix are transposed -/
def Inv8 (w0 w : Word) (r : Nat) : Prop :=
  ∀ a b, a < 8 → b < 8 →
    w.getLsbD (8 * a + b) = if a < b + r ∧ b < a + r then w0.getLsbD (8 * b + a) else w0.getLsbD (8 * a + b)

theorem ushiftRight_ushiftRight' (w : Word) (a b : Nat) : (w >>> a) >>> b = w >>> (a + b) := by
  apply BitVec.eq_of_getLsbD_eq
  intro i _
  simp only [BitVec.getLsbD_ushiftRight]
  congr 1; omega

/-- one pass of the loop body (round `r`, `shift = 7r`) -/
theorem Inv8.step {w0 w : Word} {r : Nat} (h : Inv8 w0 w r) (h1 : 1 ≤ r) (h7 : r ≤ 7) :
    Inv8 w0 ((w ^^^ (((w ^^^ (w0 >>> (7 * r))) &&& (0x80402010080402#64 >>> (8 * (r - 1)))) <<< (7 * r))) ^^^
      ((w ^^^ (w0 >>> (7 * r))) &&& (0x80402010080402#64 >>> (8 * (r - 1))))) (r + 1) := by
  intro a b ha hb
  have m1 := le8_mask1 r (by omega) a ha b hb h1
  have m2 := le8_mask2 r (by omega) a ha b hb h1
  have hp : 8 * a + b < 64 := by omega
  simp only [BitVec.getLsbD_xor, BitVec.getLsbD_and, BitVec.getLsbD_shiftLeft, BitVec.getLsbD_ushiftRight,
    hp, decide_true, Bool.true_and] at m1 m2 ⊢
  rw [h a b ha hb]
  by_cases hu : b = a + r
  · -- upper diagonal: receives the mirrored entry
    have hna : ¬ a = b + r := by omega
    have hm2 : ¬ (7 * r ≤ 8 * a + b ∧
        (0x80402010080402#64).getLsbD (8 * (r - 1) + (8 * a + b - 7 * r)) = true) := fun hh => hna (m2.mp hh)
    have e1 : 7 * r + (8 * a + b) = 8 * b + a := by omega
    have c1 : ¬ (a < b + r ∧ b < a + r) := by omega
    have c2 : a < b + (r + 1) ∧ b < a + (r + 1) := by omega
    rw [if_neg c1, if_pos c2, e1]
    have m1' : (0x80402010080402#64).getLsbD (8 * (r - 1) + (8 * a + b)) = true := by rw [m1]; simp [hu]
    by_cases h7r : 7 * r ≤ 8 * a + b
    · have hf : (0x80402010080402#64).getLsbD (8 * (r - 1) + (8 * a + b - 7 * r)) = false := by
        cases hh : (0x80402010080402#64).getLsbD (8 * (r - 1) + (8 * a + b - 7 * r))
        · rfl
        · exact absurd ⟨h7r, hh⟩ hm2
      rw [m1', hf]
      cases w0.getLsbD (8 * a + b) <;> cases w0.getLsbD (8 * b + a) <;> simp
    · have : 8 * a + b < 7 * r := by omega
      rw [m1']
      simp only [this, decide_true, Bool.not_true, Bool.false_and]
      cases w0.getLsbD (8 * a + b) <;> cases w0.getLsbD (8 * b + a) <;> simp
  · have m1' : (0x80402010080402#64).getLsbD (8 * (r - 1) + (8 * a + b)) = false := by rw [m1]; simp [hu]
    by_cases hl : a = b + r
    · -- lower diagonal
      have hh := m2.mpr hl
      have e2 : 8 * a + b - 7 * r = 8 * b + a := by omega
      have e3 : 7 * r + (8 * b + a) = 8 * a + b := by omega
      have c1 : ¬ (a < b + r ∧ b < a + r) := by omega
      have c2 : a < b + (r + 1) ∧ b < a + (r + 1) := by omega
      have hlt : ¬ 8 * a + b < 7 * r := by omega
      rw [e2] at hh
      rw [if_neg c1, if_pos c2, m1', e2, hh.2, h b a hb ha, e3]
      have c3 : ¬ (b < a + r ∧ a < b + r) := by omega
      rw [if_neg c3]
      simp only [hlt, decide_false, Bool.not_false, Bool.true_and, Bool.and_true, Bool.and_false, Bool.xor_false]
      cases w0.getLsbD (8 * a + b) <;> cases w0.getLsbD (8 * b + a) <;> simp
    · -- untouched
      have hm2 : ¬ (7 * r ≤ 8 * a + b ∧
          (0x80402010080402#64).getLsbD (8 * (r - 1) + (8 * a + b - 7 * r)) = true) := fun hh => hl (m2.mp hh)
      have hx : (!decide (8 * a + b < 7 * r) &&
          ((w.getLsbD (8 * a + b - 7 * r) ^^ w0.getLsbD (7 * r + (8 * a + b - 7 * r))) &&
            (0x80402010080402#64).getLsbD (8 * (r - 1) + (8 * a + b - 7 * r)))) = false := by
        by_cases h7r : 7 * r ≤ 8 * a + b
        · have hf : (0x80402010080402#64).getLsbD (8 * (r - 1) + (8 * a + b - 7 * r)) = false := by
            cases hh : (0x80402010080402#64).getLsbD (8 * (r - 1) + (8 * a + b - 7 * r))
            · rfl
            · exact absurd ⟨h7r, hh⟩ hm2
          rw [hf]; simp
        · have : 8 * a + b < 7 * r := by omega
          simp [this]
      rw [hx, m1']
      have : (a < b + (r + 1) ∧ b < a + (r + 1)) ↔ (a < b + r ∧ b < a + r) := by omega
      simp only [this, Bool.and_false, Bool.xor_false]


/-- the `do … while (shift < end)` loop entered for round `r`: on exit at least `maxsize` diagonals are done -/
theorem le8Loop_spec (w0 : Word) (maxsize : Nat) (hmax : maxsize ≤ 8) :
    ∀ fuel r w, r + fuel = 9 → 1 ≤ r → r ≤ 7 → Inv8 w0 w r →
      ∃ R, maxsize ≤ R ∧
        Inv8 w0 (le8Loop (maxsize * 7) fuel w (w0 >>> (7 * r)) (0x80402010080402#64 >>> (8 * (r - 1))) (7 * r)) R := by
  intro fuel
  induction fuel with
  | zero => intro r w h; omega
  | succ fuel ih =>
    intro r w hf h1 h7 hinv
    simp only [le8Loop]
    have hstep := hinv.step h1 h7
    by_cases hc : 7 * r + 7 < maxsize * 7
    · rw [if_pos hc]
      have e1 : (w0 >>> (7 * r)) >>> 7 = w0 >>> (7 * (r + 1)) := by
        rw [ushiftRight_ushiftRight']; congr 1
      have e2 : (0x80402010080402#64 >>> (8 * (r - 1))) >>> 8 = 0x80402010080402#64 >>> (8 * (r + 1 - 1)) := by
        rw [ushiftRight_ushiftRight']; congr 1; omega
      have e3 : 7 * r + 7 = 7 * (r + 1) := by omega
      rw [e1, e2, e3]
      exact ih (r + 1) _ (by omega) (by omega) (by omega) hstep
    · rw [if_neg hc]
      exact ⟨r + 1, by omega, hstep⟩

/-- **`_mzd_copy_transpose_le8xle8`** for all `1 ≤ n, m ≤ 8` (`maxsize = max n m`) -/
theorem le8xle8_spec (src : Nat → Word) (n m : Nat) (hn1 : 1 ≤ n) (hn : n ≤ 8) (hm : m ≤ 8)
    (hc : SrcClean src n m) : SmallSpec (le8xle8 src n m (max n m)) src n m := by
  -- only the rows `< n` are read: replace the others by zero rows
  refine ⟨by simp [le8xle8, size_tab], ?_⟩
  intro c i hcm hi
  -- the packed word
  let src' : Nat → Word := fun k => if k < n then src k else 0
  have hc' : ∀ i p, 8 ≤ p → (src' i).getLsbD p = false := by
    intro i p hp
    simp only [src']
    split
    · exact hc i p (by assumption) (by omega)
    · simp
  have hfold : (List.range (n - 1)).foldl (fun w i => w ||| (src (i + 1) <<< (8 * (i + 1)))) (src 0)
      = (List.range (n - 1)).foldl (fun w i => w ||| (src' (i + 1) <<< (8 * (i + 1)))) (src' 0) := by
    have h0 : src' 0 = src 0 := by simp [src']; omega
    rw [h0]
    apply foldl_ext'
    intro w i hi
    have : i + 1 < n := by have := List.mem_range.mp hi; omega
    simp [src', this]
  have hw0 : ∀ a b, a < 8 → b < 8 →
      ((List.range (n - 1)).foldl (fun w i => w ||| (src (i + 1) <<< (8 * (i + 1)))) (src 0)).getLsbD (8 * a + b)
        = (decide (a < n) && (src a).getLsbD b) := by
    intro a b ha hb
    rw [hfold, pack8 src' hc' (n - 1) a b ha hb]
    by_cases h : a < n
    · have : a ≤ n - 1 := by omega
      simp [h, this, src']
    · have : ¬ a ≤ n - 1 := by omega
      simp [h, this]
  unfold le8xle8
  simp only []
  generalize hw : (List.range (n - 1)).foldl (fun w i => w ||| (src (i + 1) <<< (8 * (i + 1)))) (src 0) = w0 at hw0
  have hinit : Inv8 w0 w0 1 := by
    intro a b ha hb
    by_cases h : a < b + 1 ∧ b < a + 1
    · have : a = b := by omega
      subst this; simp
    · rw [if_neg h]
  obtain ⟨R, hR, hinv⟩ := le8Loop_spec w0 (max n m) (by omega) 8 1 w0 (by omega) (by omega) (by omega) hinit
  simp only [Nat.mul_one, Nat.sub_self, Nat.mul_zero, BitVec.ushiftRight_zero] at hinv
  rw [rd_tab_lt _ _ _ hcm]
  simp only [BitVec.getLsbD_and, BitVec.getLsbD_ushiftRight]
  by_cases hi8 : i < 8
  · have hff : (0xFF#64).getLsbD i = true := by
      have : ∀ i, i < 8 → (0xFF#64).getLsbD i = true := by decide
      exact this i hi8
    rw [hinv c i (by omega) hi8, hff, Bool.and_true]
    split
    · exact hw0 i c hi8 (by omega)
    · -- both `(c, i)` and `(i, c)` lie outside the matrix
      rename_i hd
      rw [hw0 c i (by omega) hi8]
      have hd' : i + R ≤ c ∨ c + R ≤ i := by omega
      rcases hd' with hd' | hd'
      · omega
      · have hin : ¬ i < n := by omega
        have : (src c).getLsbD i = false ∨ ¬ c < n := by
          by_cases hcn : c < n
          · left; exact hc c i hcn (by omega)
          · right; exact hcn
        rcases this with h | h <;> simp [h, hin]
  · have hff : (0xFF#64).getLsbD i = false := by
      have : ∀ i, i < 64 → 8 ≤ i → (0xFF#64).getLsbD i = false := by decide
      exact this i hi (by omega)
    have hin : ¬ i < n := by omega
    simp [hff, hin]

/-- non-vacuity: a 2 × 3 block -/
example : SrcClean (fun k => if k = 0 then 0x5#64 else if k = 1 then 0x3#64 else 0) 2 3 := by
  intro i p hi hp
  have : ∀ p, p < 64 → 3 ≤ p → (0x5#64).getLsbD p = false ∧ (0x3#64).getLsbD p = false := by decide
  by_cases h64 : p < 64
  · have := this p h64 hp
    have : i = 0 ∨ i = 1 := by omega
    rcases this with rfl | rfl <;> simp_all
  · simp [BitVec.getLsbD_of_ge _ _ (Nat.le_of_not_lt h64)]

/-- `SrcClean` is needed: a source bit beyond column `m` leaks into the result
    (2 × 1 block of zero entries, bit 8 of row 0 set: the kernel reports entry `(1, 0)` as set) -/
example : rd (le8xle8 (fun _ => 0x100#64) 2 1 2) 0 = 0x2#64 := by decide +kernel

end M4ri.Tr
