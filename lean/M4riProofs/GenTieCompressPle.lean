/-
  GenTieCompressPle: the precondition of `GenTieCompress.mzdCompressL_eq` holds at the one call
  `_mzd_compress_l(A, r1, n1, r2)` that the recursive PLE step makes, hence the one-step tie of `Gen.C.pleRecStep`
  (GenTiePle / GenTiePleFinal) also holds with the function parameter `f__mzd_compress_l` bound to the GENERATED
  `Gen.C.mzdCompressL` (`genCompress`) instead of the lifted model function `liftCompress`.

  `CompressOK f`  the contract on the parameter: on a whole well-formed matrix with `r1 ≤ n1`, `n1 % 64 = 0`,
                  `n1 + r2 ≤ ncols`, `r1 + r2 ≤ nrows` and `Pre`, `f` returns what `liftCompress` returns
  `genCompress_ok`   the generated function satisfies it (`mzdCompressL_eq_lift`)
  `seg3_gen`, `seg2_gen`, `pleRecStep_gen`   the parts of the step with `f` = the same parts with `liftCompress`,
                  for `CompressOK f`, when the rows from `nr` on are zero (they are: `nr = mzd_first_zero_row(A)`);
                  `Pre` at the call comes from `IsPLE.outside` of the second recursive call (rows `≥ r2` of its result
                  use only the first `r2` columns) and from the zero rows below `nr`
  `pleRecStep_pleRec_gen`   the one-step theorem with the generated `_mzd_compress_l`
-/
import M4riProofs.GenTieCompress
import M4riProofs.GenTiePleFinal
set_option linter.unusedVariables false
namespace M4ri.GenTieCompress
open M4ri M4ri.Gen M4ri.GenTieMem M4ri.GenTieView M4ri.BMat M4ri.GenTieAlg M4ri.GenTieTab M4ri.GenTieSlice
  M4ri.GenTiePle

/-- the generated `_mzd_compress_l` as a value for the parameter `f__mzd_compress_l` (`rs` is the row stride passed
    on to `mzd_col_swap_in_rows`, which the memory model does not use) -/
def genCompress (rs : Int) (V : CLoop.MView) (r1 n1 r2 : Int) : Int → Int → BitVec 64 :=
  Gen.C.mzdCompressL r1 n1 r2 V.mem rs V.nrows V.width V.hb

/-- the contract on the parameter `f__mzd_compress_l` -/
def CompressOK (f : CLoop.MView → Int → Int → Int → (Int → Int → BitVec 64)) : Prop :=
  ∀ (M : Mzd) (r1 n1 r2 : Nat), M.WF → r1 ≤ n1 → n1 % 64 = 0 → n1 + r2 ≤ M.ncols → r1 + r2 ≤ M.nrows →
    Pre M r1 n1 r2 →
    f ⟨memOf M, M.nrows, M.ncols, M.width, M.hb⟩ r1 n1 r2 = liftCompress ⟨memOf M, M.nrows, M.ncols, M.width, M.hb⟩ r1 n1 r2

theorem genCompress_ok (rs : Int) : CompressOK (genCompress rs) := by
  intro M r1 n1 r2 hM h1 h64 h2 h3 hpre
  exact mzdCompressL_eq_lift M hM r1 n1 r2 rs h1 h2 h3 (Or.inl h64) hpre

theorem liftCompress_ok : CompressOK liftCompress := fun _ _ _ _ _ _ _ _ _ _ => rfl

/-- the last part of the step depends on the parameter only through its value at the one call -/
theorem seg4_congr (m : Int → Int → BitVec 64) (P Q : Int → Int) (nr nc r1 n1 r2 pb qb Anr Anc Aw : Int)
    (Ahb : BitVec 64) (f g : CLoop.MView → Int → Int → Int → (Int → Int → BitVec 64))
    (h : f ⟨m, Anr, Anc, Aw, Ahb⟩ r1 n1 r2 = g ⟨m, Anr, Anc, Aw, Ahb⟩ r1 n1 r2) :
    seg4 m P Q nr nc r1 n1 r2 pb qb Anr Anc Aw Ahb f = seg4 m P Q nr nc r1 n1 r2 pb qb Anr Anc Aw Ahb g := by
  unfold seg4
  dsm
  rw [h]

/-- **third part** with any parameter satisfying the contract -/
theorem seg3_gen (rec : BMat → Rec.Out) (hrec : ∀ W : BMat, W.WF → Rec.GoodOut W (rec W)) (cutoff : Int)
    (M : Mzd) (hM : M.WF) (P0 P Q0 Q : Array Nat) (nr r1 n1 : Nat) (hP : P.size = M.nrows) (hQ : Q.size = M.ncols)
    (hnr : nr ≤ M.nrows) (hr1 : r1 ≤ nr) (hn1 : n1 ≤ M.ncols) (hn64 : n1 % 64 = 0) (hr1n1 : r1 ≤ n1)
    (f : CLoop.MView → Int → Int → Int → (Int → Int → BitVec 64)) (hf : CompressOK f)
    (hz : ∀ i j, nr ≤ i → M.toB.get i j = false) :
    seg3 (memOf M) (arrMem P0 P) (arrMem Q0 Q) nr M.ncols r1 n1 cutoff (liftPle rec)
      ((nr - r1 : Nat) : Int) ((M.ncols - n1 : Nat) : Int) (((M.ncols - n1 + 63) / 64 : Nat) : Int)
      (leftMask ((M.ncols - n1) % 64)) (r1 : Int) ((n1 / 64 : Nat) : Int)
      ((nr - r1 : Nat) : Int) ((r1 - 0 : Nat) : Int) (((r1 - 0 + 63) / 64 : Nat) : Int)
      (leftMask ((r1 - 0) % 64)) (r1 : Int) ((0 / 64 : Nat) : Int)
      M.nrows M.ncols M.width M.hb f
    = seg3 (memOf M) (arrMem P0 P) (arrMem Q0 Q) nr M.ncols r1 n1 cutoff (liftPle rec)
      ((nr - r1 : Nat) : Int) ((M.ncols - n1 : Nat) : Int) (((M.ncols - n1 + 63) / 64 : Nat) : Int)
      (leftMask ((M.ncols - n1) % 64)) (r1 : Int) ((n1 / 64 : Nat) : Int)
      ((nr - r1 : Nat) : Int) ((r1 - 0 : Nat) : Int) (((r1 - 0 + 63) / 64 : Nat) : Int)
      (leftMask ((r1 - 0) % 64)) (r1 : Int) ((0 / 64 : Nat) : Int)
      M.nrows M.ncols M.width M.hb liftCompress := by
  unfold seg3
  dsm
  unfold liftPle
  dsm
  have eW : Mzd.ofView ⟨CLoop.view (memOf M) (r1 : Int) ((n1 / 64 : Nat) : Int), ((nr - r1 : Nat) : Int),
      ((M.ncols - n1 : Nat) : Int), (((M.ncols - n1 + 63) / 64 : Nat) : Int), leftMask ((M.ncols - n1) % 64)⟩
      = M.window r1 n1 nr M.ncols := rfl
  rw [eW, window_toB M r1 n1 nr M.ncols hn64 hnr (Nat.le_refl _)]
  have hMs := shaped_toB' hM
  have hsub : Shaped (M.toB.sub r1 n1 nr M.ncols) (nr - r1) (M.ncols - n1) := hMs.sub _ _ _ _ hnr
  have hgood := hrec _ hsub.wf
  obtain ⟨s1r, s1c, r2r, r2c, p2s, p2l, q2s⟩ := goodOut_facts hsub hgood
  have hout := hgood.ple.outside
  rw [hsub.nr, hsub.nc] at hout
  generalize rec (M.toB.sub r1 n1 nr M.ncols) = o2 at *
  obtain ⟨S1, P2, Q2, r2⟩ := o2
  dsimp only at s1r s1c r2r r2c p2s p2l q2s hout ⊢
  -- write-back of the second recursive call
  rw [unview_window_putB M hM r1 n1 nr M.ncols hn64 hnr (Nat.le_refl _) S1 s1r s1c]
  have hY5 : Shaped (M.toB.paste r1 n1 S1) M.nrows M.ncols := hMs.paste S1 r1 n1 (by rw [s1c]; omega)
  obtain ⟨M5W, M5B, M5r, M5c⟩ := putB_state hM hY5.wf hY5.nr hY5.nc
  have h5get : ∀ i j, (M.putB (M.toB.paste r1 n1 S1)).toB.get i j =
      if r1 ≤ i ∧ i < r1 + S1.nrows ∧ n1 ≤ j ∧ j < n1 + S1.ncols ∧ i < M.nrows then S1.get (i - r1) (j - n1)
      else M.toB.get i j := by
    intro i j
    rw [M5B, hMs.get_paste]
  generalize hM5 : M.putB (M.toB.paste r1 n1 S1) = M5 at *
  -- mzd_apply_p_left(A10, P2)
  rw [applyP_window M5 M5W r1 0 nr r1 ⟨rfl, by omega, by omega⟩ P2 p2s p2l _ _ (by omega)
    (by
      intro i hi
      rw [if_pos (by omega)]
      unfold arrOf
      congr 2
      omega)]
  have hsub10 : Shaped (M5.toB.sub r1 0 nr r1) (nr - r1) (r1 - 0) := by
    rw [M5B]; exact hY5.sub _ _ _ _ hnr
  have hsh := BMat.applyPLeft_shape (M5.toB.sub r1 0 nr r1) P2
  have hM5s : Shaped M5.toB M.nrows M.ncols := by rw [M5B]; exact hY5
  have hY6 : Shaped (M5.toB.paste r1 0 ((M5.toB.sub r1 0 nr r1).applyPLeft P2)) M.nrows M.ncols :=
    hM5s.paste _ r1 0 (by rw [hsh.2.1, hsub10.nc]; omega)
  obtain ⟨M6W, M6B, M6r, M6c⟩ := putB_state M5W hY6.wf (by rw [hY6.nr, M5r]) (by rw [hY6.nc, M5c])
  apply seg4_congr
  have key := hf (M5.putB (M5.toB.paste r1 0 ((M5.toB.sub r1 0 nr r1).applyPLeft P2))) r1 n1 r2 M6W hr1n1 hn64
    (by rw [M6c, M5c]; omega) (by rw [M6r, M5r]; omega)
    (by
      intro i j hi1 hi2 hj1 hj2 _
      rw [M6r, M5r] at hi2
      rw [M6c, M5c] at hj2
      rw [M6B, hM5s.get_paste, if_neg (by rw [hsh.2.1, hsub10.nc]; omega), h5get, s1r, s1c]
      by_cases hin : i < nr
      · rw [if_pos ⟨by omega, by omega, by omega, by omega, by omega⟩]
        exact hout (i - r1) (j - n1) (by omega) (by omega) (by omega) (by omega)
      · rw [if_neg (by omega)]
        exact hz i j (by omega))
  simp only [Mzd.nrows_putB, Mzd.ncols_putB, Mzd.width_putB, Mzd.hb_putB, M5r, M5c, width_of_ncols M5c,
    hb_of_ncols M5c] at key
  exact key

/-- rows from `nr` on are not touched by the Schur-complement stage -/
theorem schurTail_get_ge {trsm : BMat → BMat → BMat}
    (htrsm : ∀ (L B : BMat) (r c : Nat), Shaped B r c → L.nrows = r → Shaped (trsm L B) r c)
    {Y : BMat} {m n : Nat} (hY : Shaped Y m n) (nr n1 r1 : Nat) (hnr : nr ≤ m) (hr1 : r1 ≤ nr) (hn1 : n1 ≤ n)
    (P1 : Array Nat) (i j : Nat) (hi : nr ≤ i) : (schurTail trsm Y nr n1 n P1 r1).get i j = Y.get i j := by
  unfold schurTail
  by_cases h0 : r1 = 0
  · rw [if_neg (by simp [h0])]
  rw [if_pos h0]
  dsimp only
  have hsub1 : Shaped (Y.sub 0 n1 nr n) (nr - 0) (n - n1) := hY.sub _ _ _ _ hnr
  have hsh1 := BMat.applyPLeft_shape (Y.sub 0 n1 nr n) P1
  have hY2 : Shaped (Y.paste 0 n1 ((Y.sub 0 n1 nr n).applyPLeft P1)) m n :=
    hY.paste _ 0 n1 (by rw [hsh1.2.1, hsub1.nc]; omega)
  have g2 : (Y.paste 0 n1 ((Y.sub 0 n1 nr n).applyPLeft P1)).get i j = Y.get i j := by
    rw [hY.get_paste, if_neg (by rw [hsh1.1, hsub1.nr]; omega)]
  generalize Y.paste 0 n1 ((Y.sub 0 n1 nr n).applyPLeft P1) = Y2 at *
  have hX01 : Shaped (trsm (Y2.sub 0 0 r1 r1) (Y2.sub 0 n1 r1 n)) (r1 - 0) (n - n1) :=
    htrsm _ _ _ _ (hY2.sub 0 n1 r1 n (by omega)) (by rw [nrows_sub, hY2.nr]; omega)
  generalize trsm (Y2.sub 0 0 r1 r1) (Y2.sub 0 n1 r1 n) = X01 at *
  have hY3 : Shaped (Y2.paste 0 n1 X01) m n := hY2.paste _ 0 n1 (by rw [hX01.nc]; omega)
  have g3 : (Y2.paste 0 n1 X01).get i j = Y.get i j := by
    rw [hY2.get_paste, if_neg (by rw [hX01.nr]; omega), g2]
  generalize Y2.paste 0 n1 X01 = Y3 at *
  have hX11 : Shaped ((Y3.sub r1 n1 nr n).add ((Y3.sub r1 0 nr r1).mul X01)) (nr - r1) (n - n1) :=
    (hY3.sub r1 n1 nr n (by omega)).add ((hY3.sub r1 0 nr r1 (by omega)).mul (by simpa using hX01))
  rw [hY3.get_paste, if_neg (by rw [hX11.nr]; omega), g3]

/-- **second part** with any parameter satisfying the contract -/
theorem seg2_gen (rec : BMat → Rec.Out) (hrec : ∀ W : BMat, W.WF → Rec.GoodOut W (rec W))
    {cutoff rs : Int} {fruss frec : CLoop.MView → CLoop.MView → Int → (Int → Int → BitVec 64)}
    {trsm : BMat → BMat → BMat}
    (hT : TrsmOK cutoff rs fruss frec (fun C A B _ => liftM3 (fun C A B => C.add (A.mul B)) C A B) trsm)
    (htrsm : ∀ (L B : BMat) (r c : Nat), Shaped B r c → L.nrows = r → Shaped (trsm L B) r c)
    (M : Mzd) (hM : M.WF) (P0 P Q0 Q : Array Nat) (nr n1 r1 : Nat) (hP : P.size = M.nrows) (hQ : Q.size = M.ncols)
    (hnr : nr ≤ M.nrows) (hr1 : r1 ≤ nr) (hr1n1 : r1 ≤ n1)
    (hn1 : n1 ≤ M.ncols) (hn64 : n1 % 64 = 0) (hn1lt : r1 ≠ 0 → n1 < M.ncols)
    (P1 : Array Nat) (p1s : P1.size = nr) (p1l : ∀ i, i < nr → P1.getD i 0 < nr)
    (hP1 : ∀ i, i < nr → P.getD i 0 = P1.getD i 0)
    (f : CLoop.MView → Int → Int → Int → (Int → Int → BitVec 64)) (hf : CompressOK f)
    (hz : ∀ i j, nr ≤ i → M.toB.get i j = false) :
    seg2 (memOf M) (arrMem P0 P) (arrMem Q0 Q) nr M.ncols r1 n1 cutoff M.nrows rs 0
      ((nr - 0 : Nat) : Int) ((M.ncols - n1 : Nat) : Int) (((M.ncols - n1 + 63) / 64 : Nat) : Int)
      (leftMask ((M.ncols - n1) % 64)) ((0 : Nat) : Int) ((n1 / 64 : Nat) : Int)
      (liftPle rec) fruss frec (fun C A B _ => liftM3 (fun C A B => C.add (A.mul B)) C A B)
      M.ncols M.width M.hb f
    = seg2 (memOf M) (arrMem P0 P) (arrMem Q0 Q) nr M.ncols r1 n1 cutoff M.nrows rs 0
      ((nr - 0 : Nat) : Int) ((M.ncols - n1 : Nat) : Int) (((M.ncols - n1 + 63) / 64 : Nat) : Int)
      (leftMask ((M.ncols - n1) % 64)) ((0 : Nat) : Int) ((n1 / 64 : Nat) : Int)
      (liftPle rec) fruss frec (fun C A B _ => liftM3 (fun C A B => C.add (A.mul B)) C A B)
      M.ncols M.width M.hb liftCompress := by
  unfold seg2
  dsm
  rw [mzdInitWindow_in 0 0 r1 r1 M.nrows rs 0 0 r1 r1 M.nrows rfl rfl rfl rfl rfl rfl (by omega) (by omega)
      (by omega),
    mzdInitWindow_in r1 0 nr r1 M.nrows rs r1 0 nr r1 M.nrows rfl rfl rfl rfl rfl rfl (by omega) (by omega)
      (by omega),
    mzdInitWindow_in 0 n1 r1 M.ncols M.nrows rs 0 n1 r1 M.ncols M.nrows rfl rfl rfl rfl rfl hn64 (by omega)
      (by omega) (by omega),
    mzdInitWindow_in r1 n1 nr M.ncols M.nrows rs r1 n1 nr M.ncols M.nrows rfl rfl rfl rfl rfl hn64 (by omega)
      (by omega) (by omega)]
  dsm
  simp only [Int.zero_add]
  rw [schurMem_eq hT htrsm M hM nr n1 r1 hnr hr1 hr1n1 hn1 hn64 hn1lt P1 p1s p1l (arrMem P0 P)
    (fun i hi => by rw [arrMem_nat P0 P i _ (by omega), hP1 i hi])]
  have hY4 : Shaped (schurTail trsm M.toB nr n1 M.ncols P1 r1) M.nrows M.ncols :=
    shaped_schurTail htrsm (shaped_toB' hM) nr n1 r1 hnr hr1 hn1 P1
  obtain ⟨M4W, M4B, M4r, M4c⟩ := putB_state hM hY4.wf hY4.nr hY4.nc
  have s3 := seg3_gen rec hrec cutoff (M.putB (schurTail trsm M.toB nr n1 M.ncols P1 r1)) M4W P0 P Q0 Q nr r1 n1
    (by rw [M4r]; exact hP) (by rw [M4c]; exact hQ) (by rw [M4r]; exact hnr) hr1 (by rw [M4c]; exact hn1) hn64 hr1n1
    f hf (by
      intro i j hi
      rw [M4B, schurTail_get_ge htrsm (shaped_toB' hM) nr n1 r1 hnr hr1 hn1 P1 i j hi]
      exact hz i j hi)
  simp only [Mzd.nrows_putB, Mzd.ncols_putB, Mzd.width_putB, Mzd.hb_putB] at s3
  exact s3

/-- **the recursive branch of the step** with any parameter satisfying the contract = the same with `liftCompress` -/
theorem pleRecStep_gen (rec : BMat → Rec.Out) (hrec : ∀ W : BMat, W.WF → Rec.GoodOut W (rec W))
    {cutoff rs : Int} {fruss frec : CLoop.MView → CLoop.MView → Int → (Int → Int → BitVec 64)}
    {trsm : BMat → BMat → BMat}
    (hT : TrsmOK cutoff rs fruss frec (fun C A B _ => liftM3 (fun C A B => C.add (A.mul B)) C A B) trsm)
    (htrsm : ∀ (L B : BMat) (r c : Nat), Shaped B r c → L.nrows = r → Shaped (trsm L B) r c)
    (A : Mzd) (hA : A.WF) (nr : Nat) (hnr : nr ≤ A.nrows) (P Q : Array Nat) (hP : P.size = A.nrows)
    (hQ : Q.size = A.ncols)
    (f : CLoop.MView → Int → Int → Int → (Int → Int → BitVec 64)) (hf : CompressOK f)
    (hz : ∀ i j, nr ≤ i → A.toB.get i j = false) :
    Gen.C.pleRecStep (memOf A) (arrOf P) (arrOf Q) A.ncols nr A.nrows rs cutoff (liftPle rec) fruss frec
      (fun C A B _ => liftM3 (fun C A B => C.add (A.mul B)) C A B) A.ncols A.width A.hb f
    = Gen.C.pleRecStep (memOf A) (arrOf P) (arrOf Q) A.ncols nr A.nrows rs cutoff (liftPle rec) fruss frec
      (fun C A B _ => liftM3 (fun C A B => C.add (A.mul B)) C A B) A.ncols A.width A.hb liftCompress := by
  rw [pleRecStep_split, pleRecStep_split]
  dsm
  have hsp : ((Int.tdiv ((A.ncols : Int) - 1) 64 + 1) >>> (1 : Int).toNat) * 64
      = ((Rec.splitPoint A.ncols : Nat) : Int) := GenTie.pleSplit_eq A.ncols
  rw [hsp]
  have hk := Rec.splitPoint_le A.ncols
  have hk64 := splitPoint_mod A.ncols
  have hklt : 0 < A.ncols → Rec.splitPoint A.ncols < A.ncols := Rec.splitPoint_lt A.ncols
  generalize Rec.splitPoint A.ncols = n1 at *
  rw [mzdInitWindow_in 0 0 nr n1 A.nrows rs 0 0 nr n1 A.nrows rfl rfl rfl rfl rfl rfl (by omega) (by omega) hnr,
    mzdInitWindow_in 0 n1 nr A.ncols A.nrows rs 0 n1 nr A.ncols A.nrows rfl rfl rfl rfl rfl hk64 (by omega) hk hnr]
  dsm
  rw [liftPle]
  dsm
  simp only [Int.zero_add]
  have eW : Mzd.ofView ⟨CLoop.view (memOf A) ((0 : Nat) : Int) ((0 / 64 : Nat) : Int), ((nr - 0 : Nat) : Int),
      ((n1 - 0 : Nat) : Int), (((n1 - 0 + 63) / 64 : Nat) : Int), leftMask ((n1 - 0) % 64)⟩
      = A.window 0 0 nr n1 := rfl
  rw [eW, window_toB A 0 0 nr n1 rfl hnr hk]
  have hAs := shaped_toB' hA
  have hsub : Shaped (A.toB.sub 0 0 nr n1) (nr - 0) (n1 - 0) := hAs.sub _ _ _ _ hnr
  obtain ⟨s0r, s0c, r1r, r1c, p1s, p1l, q1s⟩ := goodOut_facts hsub (hrec _ hsub.wf)
  generalize rec (A.toB.sub 0 0 nr n1) = o1 at *
  obtain ⟨S0, P1, Q1, r1⟩ := o1
  dsimp only at s0r s0c r1r r1c p1s p1l q1s ⊢
  rw [unview_window_putB A hA 0 0 nr n1 rfl hnr hk S0 s0r s0c, arrOf_eq_arrMem P, arrOf_eq_arrMem Q,
    write_window_arr0 P P P1 (nr - 0) p1s (by omega) _ (by omega),
    write_window_arr0 Q Q Q1 (n1 - 0) q1s (by omega) _ (by omega)]
  have hY1 : Shaped (A.toB.paste 0 0 S0) A.nrows A.ncols := hAs.paste S0 0 0 (by rw [s0c]; omega)
  obtain ⟨M1W, M1B, M1r, M1c⟩ := putB_state hA hY1.wf hY1.nr hY1.nc
  have s2 := seg2_gen rec hrec hT htrsm (A.putB (A.toB.paste 0 0 S0)) M1W P (Rec.writeAt P 0 P1) Q
    (Rec.writeAt Q 0 Q1) nr n1 r1 (by rw [Rec.size_writeAt, M1r]; exact hP) (by rw [Rec.size_writeAt, M1c]; exact hQ)
    (by rw [M1r]; exact hnr) (by omega) (by omega) (by rw [M1c]; exact hk) hk64
    (by rw [M1c]; intro h; exact hklt (by omega)) P1 (by omega) (fun i hi => by have := p1l i (by omega); omega)
    (fun i hi => by rw [Rec.getD_writeAt P 0 P1 i (by omega), if_pos (by omega)]; rfl)
    f hf (by
      intro i j hi
      rw [M1B, hAs.get_paste, if_neg (by rw [s0r]; omega)]
      exact hz i j hi)
  simp only [Mzd.nrows_putB, Mzd.ncols_putB, Mzd.width_putB, Mzd.hb_putB] at s2
  exact s2

/-- **one step of `_mzd_ple` against the model, with the GENERATED `_mzd_compress_l`**: as
    `GenTiePle.pleRecStep_pleRec_full`, the parameter `f__mzd_compress_l` bound to `Gen.C.mzdCompressL` -/
theorem pleRecStep_pleRec_gen (base : BMat → Rec.Out) (hbase : Rec.GoodBase base)
    (baseCols cutoffN baseRows fuel f : Nat) (cutoff rs rs' : Int) (A : Mzd) (hA : A.WF)
    (hnz : Rec.firstZeroRow A.toB ≠ 0)
    (hbig : ¬ (A.ncols ≤ baseCols ∨ ((A.ncols + 63) / 64) * A.nrows ≤ cutoffN)) :
    Gen.C.pleRecStep (memOf A) (arrOf (Array.range A.nrows)) (arrOf (Array.range A.ncols)) A.ncols
      (Rec.firstZeroRow A.toB) A.nrows rs cutoff (liftPle (Rec.pleRec base baseCols cutoffN baseRows fuel))
      (fun L B _ => liftM2 trsmLowerLeft L B) (fun L B _ => liftM2 (Rec.trsmLowerLeftRec 2048 f) L B)
      (fun C A B _ => liftM3 (fun C A B => C.add (A.mul B)) C A B) A.ncols A.width A.hb (genCompress rs')
    = ((((Rec.pleRec base baseCols cutoffN baseRows (fuel + 1) A.toB).2.2.2 : Nat) : Int),
       memOf (A.putB (Rec.pleRec base baseCols cutoffN baseRows (fuel + 1) A.toB).1),
       arrMem (Array.range A.nrows) (Rec.pleRec base baseCols cutoffN baseRows (fuel + 1) A.toB).2.1,
       arrMem (Array.range A.ncols) (Rec.pleRec base baseCols cutoffN baseRows (fuel + 1) A.toB).2.2.1) := by
  rw [pleRecStep_gen _ (fun W hW => Rec.pleRec_spec hbase baseCols cutoffN baseRows fuel hW)
    (trsmOK_model cutoff rs f baseRows fuel) (shaped_trsmLowerLeftRec baseRows fuel) A hA _
    (Rec.firstZeroRow_le A.toB) _ _ (by simp) (by simp) (genCompress rs') (genCompress_ok rs')
    (fun i j hi => Rec.get_of_ge_firstZeroRow (Mzd.WF_toB hA) i j hi)]
  exact pleRecStep_pleRec_full base hbase baseCols cutoffN baseRows fuel f cutoff rs A hA hnz hbig

end M4ri.GenTieCompress

#print axioms M4ri.GenTieCompress.genCompress_ok
#print axioms M4ri.GenTieCompress.pleRecStep_gen
#print axioms M4ri.GenTieCompress.pleRecStep_pleRec_gen
