/-
  C03 / C06: soundness of the certificate checkers `checkPLUQ` / `checkPLE` (rows-as-`Nat` level).
    1-4   what the Boolean checks establish (`IsPLUQ`, `IsPLE`, `checkPLUQ_sound`, `checkPLE_sound`)
    5     rank, elementarily: `RankCert A r`, uniqueness of `r` (`RankCert_unique`)
    6-9   the permutation routines as index permutations / permutation matrices; one-sided inverses of the
          triangular factors; `IsPLUQ.rankCert`, `IsPLE.rankCert`, `IsPLUQ.reconstruct`
    10    square matrices: a one-sided inverse is two-sided (`square_inv_comm`)
    11,13 glue to Gauss–Jordan elimination: `RankCert_of_echelon`, `RankCert_of_isRREF`, `GaussOK`,
          `RankCert_rank`, `checkPLUQ_rank'`, `checkPLE_rank'`
    12    C06: `solvable_iff_rankCert`, `solvable_spec`, `solvable_spec'`
    14    C03: the PLE pivot columns are the column rank profile (`IsPLE.profile`, `checkPLE_profile`)
  The only Mathlib import is `Mathlib.Data.Fintype.Card` (pigeonhole: `Fintype.card_le_of_injective`,
  `Finite.injective_iff_surjective`).
-/
import M4riProofs.Trsm
import Mathlib.Data.Fintype.Card
namespace M4ri
namespace BMat

/-! ### 1. the small Boolean tests -/

theorem eqM_sound {A B : BMat} (h : A.eqM B = true) :
    A.nrows = B.nrows ∧ A.ncols = B.ncols ∧ ∀ i j, i < A.nrows → j < A.ncols → A.get i j = B.get i j := by
  unfold eqM at h
  simp only [decide_eq_true_eq, List.all_eq_true, List.mem_range] at h
  obtain ⟨h1, h2, h3⟩ := h
  refine ⟨h1, h2, fun i j hi hj => ?_⟩
  have := congrArg (fun x => Nat.testBit x j) (h3 i hi)
  simp only [Nat.testBit_mod_two_pow] at this
  rw [← h2] at this
  simpa [get, hj] using this

theorem lapackOK_sound {P : Array Nat} {n : Nat} (h : lapackOK P n = true) :
    P.size = n ∧ ∀ i, i < n → i ≤ P.getD i 0 ∧ P.getD i 0 < n := by
  unfold lapackOK at h
  simp only [Bool.and_eq_true, decide_eq_true_eq, List.all_eq_true, List.mem_range] at h
  exact ⟨h.1, fun i hi => h.2 i hi⟩

theorem shiftRight_eq_zero_testBit {x n r : Nat} (h : (x % 2 ^ n) >>> r = 0) (j : Nat) (h1 : r ≤ j) (h2 : j < n) :
    x.testBit j = false := by
  have := congrArg (fun y => Nat.testBit y (j - r)) h
  simp only [Nat.testBit_shiftRight, Nat.testBit_mod_two_pow, Nat.zero_testBit] at this
  rw [show r + (j - r) = j by omega] at this
  simpa [h2] using this

/-! ### 2. the factors read out of the storage -/

@[simp] theorem lowerFactor_nrows (S : BMat) (r : Nat) : (lowerFactor S r).nrows = S.nrows := rfl
@[simp] theorem lowerFactor_ncols (S : BMat) (r : Nat) : (lowerFactor S r).ncols = r := rfl
@[simp] theorem upperFactor_nrows (S : BMat) (r : Nat) : (upperFactor S r).nrows = r := rfl
@[simp] theorem upperFactor_ncols (S : BMat) (r : Nat) : (upperFactor S r).ncols = S.ncols := rfl
@[simp] theorem echelonFactor_nrows (S : BMat) (Q : Array Nat) (r : Nat) : (echelonFactor S Q r).nrows = r := rfl
@[simp] theorem echelonFactor_ncols (S : BMat) (Q : Array Nat) (r : Nat) : (echelonFactor S Q r).ncols = S.ncols := rfl

/-- `L = lowerFactor S r` is `m × r` unit lower trapezoidal: below the diagonal it holds `S`, on the
    diagonal ones, above it zeros -/
theorem lowerFactor_get (S : BMat) (r i j : Nat) :
    (lowerFactor S r).get i j = (decide (i < S.nrows) &&
      ((decide (j < i) && (decide (j < r) && S.get i j)) || (decide (i < r) && decide (j = i)))) := by
  unfold get lowerFactor
  by_cases hi : i < S.nrows
  · rw [row_mk_range _ _ _ _ hi, Nat.testBit_or, Nat.testBit_mod_two_pow]
    have e : ((if i < r then 1 <<< i else 0) : Nat).testBit j = (decide (i < r) && decide (j = i)) := by
      by_cases hir : i < r
      · rw [if_pos hir, Nat.one_shiftLeft, Nat.testBit_two_pow]
        by_cases hji : j = i
        · subst hji; simp [hir]
        · have : ¬ i = j := fun e => hji e.symm
          simp [hji, this]
      · simp [hir]
    rw [e]
    have : (j < min i r) = (j < i ∧ j < r) := by apply propext; omega
    simp [hi, this, Bool.and_assoc]
  · rw [row_mk_range_ge _ _ _ _ (by omega)]; simp [hi]

/-- `U = upperFactor S r` is `r × n` upper trapezoidal: on and above the diagonal it holds `S` -/
theorem upperFactor_get (S : BMat) (r i j : Nat) :
    (upperFactor S r).get i j = (decide (i < r) && (decide (i ≤ j) && (decide (j < S.ncols) && S.get i j))) := by
  unfold get upperFactor
  by_cases hi : i < r
  · rw [row_mk_range _ _ _ _ hi, Nat.testBit_shiftLeft, Nat.testBit_shiftRight, Nat.testBit_mod_two_pow]
    by_cases hij : i ≤ j
    · have : i + (j - i) = j := by omega
      simp [hi, hij, this]
    · simp [hij]
  · rw [row_mk_range_ge _ _ _ _ (by omega)]; simp [hi]

/-- `E = echelonFactor S Q r`: row `i` has its pivot one in column `Q[i]`, zeros left of it, and the
    stored entries right of it -/
theorem echelonFactor_get (S : BMat) (Q : Array Nat) (r i j : Nat) :
    (echelonFactor S Q r).get i j = (decide (i < r) &&
      ((decide (Q.getD i 0 < j) && (decide (j < S.ncols) && S.get i j)) || decide (j = Q.getD i 0))) := by
  unfold get echelonFactor
  by_cases hi : i < r
  · rw [row_mk_range _ _ _ _ hi, Nat.testBit_or, Nat.testBit_shiftLeft, Nat.testBit_shiftRight,
      Nat.testBit_mod_two_pow, Nat.one_shiftLeft, Nat.testBit_two_pow]
    generalize Q.getD i 0 = q
    by_cases hq : q < j
    · have h1 : j ≥ q + 1 := by omega
      have h2 : q + 1 + (j - (q + 1)) = j := by omega
      have h3 : ¬ q = j := by omega
      have h4 : ¬ j = q := by omega
      simp [hi, hq, h1, h2, h3, h4]
    · have h1 : ¬ j ≥ q + 1 := by omega
      by_cases h3 : j = q
      · simp [hi, h3]
      · have h4 : ¬ q = j := fun e => h3 e.symm
        simp [hi, hq, h1, h3, h4]
  · rw [row_mk_range_ge _ _ _ _ (by omega)]; simp [hi]

theorem lowerFactor_WF (S : BMat) (r : Nat) : (lowerFactor S r).WF := by
  apply WF_of_get
  · simp [lowerFactor]
  · intro i j hj
    rw [lowerFactor_get]
    simp only [lowerFactor_ncols] at hj
    by_cases hi : i < S.nrows
    · have h1 : ¬ j < r := by omega
      by_cases h2 : i < r
      · have : ¬ j = i := by omega
        simp [h1, this]
      · simp [h1, h2]
    · simp [hi]

theorem upperFactor_WF (S : BMat) (r : Nat) : (upperFactor S r).WF := by
  apply WF_of_get
  · simp [upperFactor]
  · intro i j hj
    rw [upperFactor_get]
    simp only [upperFactor_ncols] at hj
    have : ¬ j < S.ncols := by omega
    simp [this]

/-! ### 3. shapes under the permutation routines -/

theorem foldl_inv {α β : Type} (Pr : α → Prop) (f : α → β → α) (l : List β) (init : α)
    (h0 : Pr init) (hstep : ∀ X a, a ∈ l → Pr X → Pr (f X a)) : Pr (l.foldl f init) := by
  induction l generalizing init with
  | nil => exact h0
  | cons a l ih =>
    simp only [List.foldl_cons]
    exact ih _ (hstep _ _ (by simp) h0) (fun X b hb hX => hstep X b (by simp [hb]) hX)

/-- same shape (and same length of the row array) -/
def SameShape (M N : BMat) : Prop := N.nrows = M.nrows ∧ N.ncols = M.ncols ∧ N.rows.size = M.rows.size

theorem SameShape.refl (M : BMat) : SameShape M M := ⟨rfl, rfl, rfl⟩
theorem SameShape.trans {M N K : BMat} (h1 : SameShape M N) (h2 : SameShape N K) : SameShape M K :=
  ⟨h2.1.trans h1.1, h2.2.1.trans h1.2.1, h2.2.2.trans h1.2.2⟩

theorem swapRows_shape (M : BMat) (a b : Nat) : SameShape M (M.swapRows a b) := by
  unfold swapRows
  split
  · exact SameShape.refl M
  · exact ⟨rfl, rfl, by simp⟩

theorem swapColsInRows_shape (M : BMat) (a b lo hi : Nat) : SameShape M (M.swapColsInRows a b lo hi) := by
  unfold swapColsInRows
  split
  · exact SameShape.refl M
  · exact ⟨rfl, rfl, by simp⟩

theorem applyPLeft_shape (M : BMat) (P : Array Nat) : SameShape M (M.applyPLeft P) := by
  unfold applyPLeft
  exact foldl_inv (SameShape M) _ _ _ (SameShape.refl M) (fun X a _ hX => hX.trans (swapRows_shape X _ _))

theorem applyPLeftTrans_shape (M : BMat) (P : Array Nat) : SameShape M (M.applyPLeftTrans P) := by
  unfold applyPLeftTrans
  exact foldl_inv (SameShape M) _ _ _ (SameShape.refl M) (fun X a _ hX => hX.trans (swapRows_shape X _ _))

theorem applyPRightTrans_shape (M : BMat) (P : Array Nat) : SameShape M (M.applyPRightTrans P) := by
  unfold applyPRightTrans
  exact foldl_inv (SameShape M) _ _ _ (SameShape.refl M)
    (fun X a _ hX => hX.trans (swapColsInRows_shape X _ _ _ _))

theorem applyPRight_shape (M : BMat) (P : Array Nat) : SameShape M (M.applyPRight P) := by
  unfold applyPRight
  exact foldl_inv (SameShape M) _ _ _ (SameShape.refl M)
    (fun X a _ hX => hX.trans (swapColsInRows_shape X _ _ _ _))

/-! ### 4. what the two certificate checkers establish -/

/-- the meaning of a PLUQ certificate `(S, P, Q, r)` for `A` (`m × n`) -/
structure IsPLUQ (A S : BMat) (P Q : Array Nat) (r : Nat) : Prop where
  nrows_eq : S.nrows = A.nrows
  ncols_eq : S.ncols = A.ncols
  r_le_nrows : r ≤ A.nrows
  r_le_ncols : r ≤ A.ncols
  P_size : P.size = A.nrows
  /-- `P` is in LAPACK form -/
  P_lapack : ∀ i, i < A.nrows → i ≤ P.getD i 0 ∧ P.getD i 0 < A.nrows
  Q_size : Q.size = A.ncols
  /-- `Q` is in LAPACK form -/
  Q_lapack : ∀ i, i < A.ncols → i ≤ Q.getD i 0 ∧ Q.getD i 0 < A.ncols
  /-- `U` has a unit diagonal -/
  diag : ∀ i, i < r → S.get i i = true
  /-- storage outside the `L` and `U` regions is zero -/
  outside : ∀ i j, r ≤ i → i < A.nrows → r ≤ j → j < A.ncols → S.get i j = false
  /-- `Pᵀ A Qᵀ = L U` in the library's convention, entry by entry -/
  prod : ∀ i j, i < A.nrows → j < A.ncols →
    ((A.applyPLeft P).applyPRightTrans Q).get i j = dotSpec_T (S.lowerFactor r) (S.upperFactor r) i j

/-- **C03, PLUQ checker soundness** -/
theorem checkPLUQ_sound {A S : BMat} {P Q : Array Nat} {r : Nat} (h : checkPLUQ A S P Q r = true) :
    IsPLUQ A S P Q r := by
  unfold checkPLUQ at h
  simp only [Bool.and_eq_true, decide_eq_true_eq, List.all_eq_true, List.mem_range] at h
  obtain ⟨⟨⟨⟨⟨⟨⟨h1, h2⟩, h3⟩, h4⟩, h5⟩, h6⟩, h7⟩, h8⟩ := h
  obtain ⟨hP1, hP2⟩ := lapackOK_sound h4
  obtain ⟨hQ1, hQ2⟩ := lapackOK_sound h5
  obtain ⟨e1, e2, e3⟩ := eqM_sound h8
  have sh := (applyPLeft_shape A P).trans (applyPRightTrans_shape _ Q)
  refine ⟨h1, h2, by omega, by omega, hP1, hP2, hQ1, hQ2, h6, ?_, ?_⟩
  · intro i j hi1 hi2 hj1 hj2
    have := h7 i (List.mem_range'.mpr ⟨i - r, by omega, by omega⟩)
    exact shiftRight_eq_zero_testBit this j hj1 hj2
  · intro i j hi hj
    rw [e3 i j (by rw [sh.1]; exact hi) (by rw [sh.2.1]; exact hj), mul_get _ _ _ _ (by simpa [h1] using hi)]

/-- the meaning of a PLE certificate `(S, P, Q, r)` for `A` (`m × n`) -/
structure IsPLE (A S : BMat) (P Q : Array Nat) (r : Nat) : Prop where
  nrows_eq : S.nrows = A.nrows
  ncols_eq : S.ncols = A.ncols
  r_le_nrows : r ≤ A.nrows
  r_le_ncols : r ≤ A.ncols
  P_size : P.size = A.nrows
  P_lapack : ∀ i, i < A.nrows → i ≤ P.getD i 0 ∧ P.getD i 0 < A.nrows
  Q_size : Q.size = A.ncols
  /-- the pivot columns are in range, at or right of the diagonal … -/
  pivot_range : ∀ i, i < r → i ≤ Q.getD i 0 ∧ Q.getD i 0 < A.ncols
  /-- … and strictly increasing -/
  pivot_mono : ∀ i j, i < j → j < r → Q.getD i 0 < Q.getD j 0
  /-- the pivot one of row `i` is stored on the diagonal -/
  diag : ∀ i, i < r → S.get i i = true
  /-- columns `(i, Q[i]]` of row `i` are zero -/
  gap : ∀ i j, i < r → i < j → j ≤ Q.getD i 0 → S.get i j = false
  /-- rows `≥ r` use only the first `r` columns -/
  outside : ∀ i j, r ≤ i → i < A.nrows → r ≤ j → j < A.ncols → S.get i j = false
  /-- `Pᵀ A = L E`, entry by entry -/
  prod : ∀ i j, i < A.nrows → j < A.ncols →
    (A.applyPLeft P).get i j = dotSpec_T (S.lowerFactor r) (S.echelonFactor Q r) i j

/-- **C03, PLE checker soundness** -/
theorem checkPLE_sound {A S : BMat} {P Q : Array Nat} {r : Nat} (h : checkPLE A S P Q r = true) :
    IsPLE A S P Q r := by
  unfold checkPLE at h
  simp only [Bool.and_eq_true, decide_eq_true_eq, List.all_eq_true, List.mem_range, Bool.or_eq_true,
    Bool.not_eq_true'] at h
  obtain ⟨⟨⟨⟨⟨⟨⟨⟨⟨h1, h2⟩, h3⟩, h4⟩, h5⟩, h6⟩, h7⟩, h8⟩, h9⟩, h10⟩ := h
  obtain ⟨hP1, hP2⟩ := lapackOK_sound h4
  obtain ⟨e1, e2, e3⟩ := eqM_sound h10
  have sh := applyPLeft_shape A P
  have hadj : ∀ j, j < r → ∀ i, i < j → Q.getD i 0 < Q.getD j 0 := by
    intro j
    induction j with
    | zero => intro _ i hi; omega
    | succ j ih =>
      intro hj i hi
      have hstep : Q.getD j 0 < Q.getD (j + 1) 0 := by
        rcases (h6 (j + 1) hj).2 with h | h
        · omega
        · simpa using h
      by_cases hij : i = j
      · subst hij; exact hstep
      · exact Nat.lt_trans (ih (by omega) i (by omega)) hstep
  refine ⟨h1, h2, by omega, by omega, hP1, hP2, h5, fun i hi => ⟨(h6 i hi).1.2, (h6 i hi).1.1⟩,
    fun i j hij hj => hadj j hj i hij, h7, ?_, ?_, ?_⟩
  · intro i j hi hij hjq
    exact h8 i hi j (List.mem_range'.mpr ⟨j - (i + 1), by omega, by omega⟩)
  · intro i j hi1 hi2 hj1 hj2
    have := h9 i (List.mem_range'.mpr ⟨i - r, by omega, by omega⟩)
    exact shiftRight_eq_zero_testBit this j hj1 hj2
  · intro i j hi hj
    rw [e3 i j (by rw [sh.1]; exact hi) (by rw [sh.2.1]; exact hj), mul_get _ _ _ _ (by simpa [h1] using hi)]

/-! ### 5. rank, elementarily: rank certificates

  `RankCert A r` : `A = X·Y` with inner dimension `r` (so the rank is at most `r`) and `X'·A·Y' = I_r`
  (so it is at least `r`).  `RankCert_unique` shows that at most one `r` has a certificate, so
  `RankCert A r` is a legitimate elementary definition of "`A` has rank `r`". -/

def RankCert (A : BMat) (r : Nat) : Prop :=
  ∃ X Y X' Y' : BMat, X.WF ∧ Y.WF ∧ X'.WF ∧ Y'.WF ∧
    X.nrows = A.nrows ∧ X.ncols = r ∧ Y.nrows = r ∧ Y.ncols = A.ncols ∧
    X'.nrows = r ∧ X'.ncols = A.nrows ∧ Y'.nrows = A.ncols ∧ Y'.ncols = r ∧
    X.mul Y = A ∧ (X'.mul A).mul Y' = identity r

/-- a row vector as a `1 × c` matrix -/
def rowVec (c v : Nat) : BMat := ⟨1, c, #[v]⟩

theorem rowVec_WF (c v : Nat) (h : v < 2 ^ c) : (rowVec c v).WF := by
  refine ⟨rfl, fun i => ?_⟩
  unfold rowVec row
  cases i with
  | zero => simpa using h
  | succ i => simp [Nat.two_pow_pos]

/-- the dimension lemma: the identity `I_r` does not factor through a smaller dimension -/
theorem identity_factor_le {M N : BMat} {r k : Nat} (hM : M.WF) (hN : N.WF)
    (hMc : M.ncols = k) (h : M.mul N = identity r) : r ≤ k := by
  -- `v ↦ v·M` is an injection of `r`-bit vectors into `k`-bit vectors, because `(v·M)·N = v`
  let f : Fin (2 ^ r) → Fin (2 ^ k) := fun v =>
    ⟨((rowVec r v.1).mul M).row 0, by
      have := (mul_WF (rowVec r v.1) hM).2 0
      simpa [hMc] using this⟩
  have hinj : Function.Injective f := by
    intro v v' hvv
    have h0 : ((rowVec r v.1).mul M).row 0 = ((rowVec r v'.1).mul M).row 0 := by
      have := congrArg Fin.val hvv
      simpa [f] using this
    have hV := rowVec_WF r v.1 v.2
    have hV' := rowVec_WF r v'.1 v'.2
    have e : (rowVec r v.1).mul M = (rowVec r v'.1).mul M := by
      apply ext_get (mul_WF (rowVec r v.1) hM) (mul_WF (rowVec r v'.1) hM) rfl rfl
      intro i j hi _
      have : i = 0 := by simp only [mul_nrows, rowVec] at hi; omega
      subst this
      unfold get; rw [h0]
    have e2 : ∀ w, w < 2 ^ r → ((rowVec r w).mul M).mul N = rowVec r w := by
      intro w hw
      rw [mul_assoc _ hM hN, h]
      exact mul_identity (A := rowVec r w) (rowVec_WF r w hw)
    have : rowVec r v.1 = rowVec r v'.1 := by rw [← e2 v.1 v.2, ← e2 v'.1 v'.2, e]
    have : v.1 = v'.1 := by
      have := congrArg (fun B => BMat.row B 0) this
      simpa [rowVec, row] using this
    exact Fin.ext this
  have := Fintype.card_le_of_injective f hinj
  simp only [Fintype.card_fin] at this
  exact (Nat.pow_le_pow_iff_right (by omega)).mp this

/-- **the rank defined by certificates is unique** -/
theorem RankCert_unique {A : BMat} {r r' : Nat} (h : RankCert A r) (h' : RankCert A r') : r = r' := by
  have key : ∀ {r r' : Nat}, RankCert A r → RankCert A r' → r ≤ r' := by
    intro r r' h h'
    obtain ⟨X, Y, X', Y', hX, hY, hX', hY', d1, d2, d3, d4, d5, d6, d7, d8, _, hI⟩ := h
    obtain ⟨X2, Y2, _, _, hX2, hY2, _, _, c1, c2, c3, c4, _, _, _, _, hA2, _⟩ := h'
    -- `I_r = (X'·X2)·(Y2·Y')`
    have e : (X'.mul X2).mul (Y2.mul Y') = identity r := by
      rw [← hI, ← hA2, mul_assoc X' hX2 (mul_WF Y2 hY'), mul_assoc X' (mul_WF X2 hY2) hY',
        mul_assoc X2 hY2 hY']
    exact identity_factor_le (mul_WF _ hX2) (mul_WF _ hY') (by simpa using c2) e
  exact Nat.le_antisymm (key h h') (key h' h)

/-- a rank certificate from a factorisation `Pm·A·Qm = L·U` with `Pm`, `Qm` invertible, `L` left-invertible
    and `U` right-invertible (inner dimension `r`) -/
theorem RankCert_of_factor {A L U Lp Up Pm Pi Qm Qi : BMat} {r : Nat}
    (hA : A.WF) (hL : L.WF) (hU : U.WF) (hUp : Up.WF)
    (hPm : Pm.WF) (hQm : Qm.WF) (hQi : Qi.WF)
    (dL2 : L.ncols = r) (dU1 : U.nrows = r)
    (dLp1 : Lp.nrows = r) (dUp2 : Up.ncols = r)
    (dPm2 : Pm.ncols = A.nrows) (dPi1 : Pi.nrows = A.nrows)
    (dQm1 : Qm.nrows = A.ncols) (dQi2 : Qi.ncols = A.ncols)
    (hfac : (Pm.mul A).mul Qm = L.mul U)
    (hLL : Lp.mul L = identity r) (hUU : U.mul Up = identity r)
    (hPP : Pi.mul Pm = identity A.nrows) (hQQ : Qm.mul Qi = identity A.ncols) :
    RankCert A r := by
  refine ⟨Pi.mul L, U.mul Qi, Lp.mul Pm, Qm.mul Up, mul_WF _ hL, mul_WF _ hQi, mul_WF _ hPm, mul_WF _ hUp,
    by simpa using dPi1, by simpa using dL2, by simpa using dU1, by simpa using dQi2,
    by simpa using dLp1, by simpa using dPm2, by simpa using dQm1, by simpa using dUp2, ?_, ?_⟩
  · -- `(Pi·L)·(U·Qi) = Pi·((L·U)·Qi) = Pi·(Pm·A·Qm·Qi) = A`
    have e1 : (Pi.mul L).mul (U.mul Qi) = Pi.mul ((L.mul U).mul Qi) := by
      rw [mul_assoc _ hL (mul_WF _ hQi), mul_assoc _ hU hQi]
    rw [e1, ← hfac, mul_assoc _ hQm hQi, hQQ]
    have e2 : (Pm.mul A).mul (identity A.ncols) = Pm.mul A := by
      have := mul_identity (mul_WF Pm hA)
      simpa using this
    rw [e2, ← mul_assoc _ hPm hA, hPP]
    exact identity_mul hA
  · -- `((Lp·Pm)·A)·(Qm·Up) = Lp·((Pm·A)·Qm)·Up = Lp·L·U·Up = I`
    have e1 : ((Lp.mul Pm).mul A).mul (Qm.mul Up) = (Lp.mul ((Pm.mul A).mul Qm)).mul Up := by
      rw [mul_assoc _ hPm hA, ← mul_assoc _ hQm hUp, mul_assoc Lp (mul_WF Pm hA) hQm]
    rw [e1, hfac, ← mul_assoc _ hL hU, hLL]
    have e2 : (identity r).mul U = U := by
      have := identity_mul hU
      rwa [dU1] at this
    rw [e2, hUU]

/-! ### 6. the permutation routines as index permutations -/

/-- the transposition `(a b)` -/
def swapIdx (a b i : Nat) : Nat := if i = a then b else if i = b then a else i

theorem swapIdx_invol (a b i : Nat) : swapIdx a b (swapIdx a b i) = i := by
  unfold swapIdx; split <;> split <;> (try split) <;> (try split) <;> omega

theorem swapIdx_lt {a b i m : Nat} (ha : a < m) (hb : b < m) (hi : i < m) : swapIdx a b i < m := by
  unfold swapIdx; split <;> (try split) <;> omega

theorem swapIdx_of_ge {a b i m : Nat} (ha : a < m) (hb : b < m) (hi : m ≤ i) : swapIdx a b i = i := by
  unfold swapIdx; split <;> (try split) <;> omega

theorem swapRows_get (M : BMat) (a b : Nat) (ha : a < M.rows.size) (hb : b < M.rows.size) (i j : Nat) :
    (M.swapRows a b).get i j = M.get (swapIdx a b i) j := by
  unfold get
  congr 1
  unfold swapRows swapIdx
  by_cases hab : a = b
  · subst hab; simp only [if_true]; split <;> simp_all
  · simp only [hab, if_false]
    rw [setRow_row, setRow_row]
    simp only [setRow_size]
    by_cases hib : i = b
    · subst hib
      have : ¬ i = a := fun e => hab e.symm
      simp [hb, this]
    · by_cases hia : i = a
      · subst hia; simp [hib, ha]
      · simp [hib, hia]

theorem row_mapIdxRows (M : BMat) (f : Nat → Nat → Nat) (i : Nat) (hi : i < M.rows.size) :
    BMat.row { M with rows := M.rows.mapIdx f } i = f i (M.row i) := by
  simp [row, Array.getD, hi]

theorem swapColsInRows_get (M : BMat) (a b lo hi i j : Nat) :
    (M.swapColsInRows a b lo hi).get i j = if lo ≤ i ∧ i < hi then M.get i (swapIdx a b j) else M.get i j := by
  unfold swapColsInRows
  by_cases hab : a = b
  · subst hab
    have : swapIdx a a j = j := by unfold swapIdx; split <;> omega
    simp [this]
  simp only [hab, if_false]
  by_cases hsz : i < M.rows.size
  · unfold get
    rw [row_mapIdxRows _ _ _ hsz]
    by_cases hc : lo ≤ i ∧ i < hi
    · rw [if_pos hc]
      by_cases hd : (M.row i).testBit a ≠ (M.row i).testBit b
      · rw [if_pos ⟨hc.1, hc.2, hd⟩]
        simp only [Nat.testBit_xor, Nat.one_shiftLeft, Nat.testBit_two_pow]
        unfold swapIdx
        by_cases hja : j = a
        · subst hja
          have : ¬ b = j := fun e => hab e.symm
          simp only [decide_true, this, decide_false, Bool.xor_false, if_true]
          cases h1 : (M.row i).testBit j <;> cases h2 : (M.row i).testBit b <;> simp_all
        · by_cases hjb : j = b
          · subst hjb
            have : ¬ a = j := hab
            simp only [this, decide_false, Bool.xor_false, decide_true, hja, if_false, if_true]
            cases h1 : (M.row i).testBit a <;> cases h2 : (M.row i).testBit j <;> simp_all
          · have h1 : ¬ a = j := fun e => hja e.symm
            have h2 : ¬ b = j := fun e => hjb e.symm
            simp [hja, hjb, h1, h2]
      · have hd' : (M.row i).testBit a = (M.row i).testBit b := by
          cases h1 : (M.row i).testBit a <;> cases h2 : (M.row i).testBit b <;> simp_all
        have : ¬ (lo ≤ i ∧ i < hi ∧ (M.row i).testBit a ≠ (M.row i).testBit b) := fun e => hd e.2.2
        rw [if_neg this]
        unfold swapIdx
        by_cases hja : j = a
        · subst hja; simp [hd']
        · by_cases hjb : j = b
          · subst hjb; simp [hja, hd']
          · simp [hja, hjb]
    · have : ¬ (lo ≤ i ∧ i < hi ∧ (M.row i).testBit a ≠ (M.row i).testBit b) := fun e => hc ⟨e.1, e.2.1⟩
      rw [if_neg this, if_neg hc]
  · unfold get
    rw [row_of_ge _ _ (by simp; omega), row_of_ge _ _ (by omega)]
    simp

/-- composition of the transpositions `(t P[t])`, `t < k`, as they act on indices when the swaps are
    applied in ascending order, and its inverse -/
def rowPerm (P : Array Nat) : Nat → Nat → Nat
  | 0, i => i
  | k + 1, i => rowPerm P k (swapIdx k (P.getD k 0) i)

def rowPermInv (P : Array Nat) : Nat → Nat → Nat
  | 0, i => i
  | k + 1, i => swapIdx k (P.getD k 0) (rowPermInv P k i)

/-- `σ` permutes `[0,m)`, fixes everything else, and `σ'` is its inverse -/
def PermOn (m : Nat) (σ σ' : Nat → Nat) : Prop :=
  (∀ i, i < m → σ i < m ∧ σ' i < m) ∧ (∀ i, σ (σ' i) = i ∧ σ' (σ i) = i) ∧ (∀ i, m ≤ i → σ i = i ∧ σ' i = i)

theorem rowPerm_permOn (P : Array Nat) (m k : Nat) (hk : k ≤ m) (hP : ∀ t, t < k → P.getD t 0 < m) :
    PermOn m (rowPerm P k) (rowPermInv P k) := by
  induction k with
  | zero => exact ⟨fun i hi => ⟨hi, hi⟩, fun i => ⟨rfl, rfl⟩, fun i _ => ⟨rfl, rfl⟩⟩
  | succ k ih =>
    obtain ⟨h1, h2, h3⟩ := ih (by omega) (fun t ht => hP t (by omega))
    have hPk := hP k (by omega)
    refine ⟨fun i hi => ⟨?_, ?_⟩, fun i => ⟨?_, ?_⟩, fun i hi => ⟨?_, ?_⟩⟩
    · exact (h1 _ (swapIdx_lt (by omega) hPk hi)).1
    · exact swapIdx_lt (by omega) hPk (h1 i hi).2
    · show rowPerm P k (swapIdx k _ (swapIdx k _ (rowPermInv P k i))) = i
      rw [swapIdx_invol]; exact (h2 i).1
    · show swapIdx k _ (rowPermInv P k (rowPerm P k (swapIdx k _ i))) = i
      rw [(h2 _).2, swapIdx_invol]
    · show rowPerm P k (swapIdx k _ i) = i
      rw [swapIdx_of_ge (m := m) (by omega) hPk hi]; exact (h3 i hi).1
    · show swapIdx k _ (rowPermInv P k i) = i
      rw [(h3 i hi).2, swapIdx_of_ge (m := m) (by omega) hPk hi]

theorem applyPLeft_get (M : BMat) (P : Array Nat) (hsz : M.rows.size = M.nrows)
    (hP : ∀ t, t < min P.size M.nrows → P.getD t 0 < M.nrows) (i j : Nat) :
    (M.applyPLeft P).get i j = M.get (rowPerm P (min P.size M.nrows) i) j := by
  unfold applyPLeft
  generalize hk : min P.size M.nrows = k at hP
  have hk' : k ≤ M.nrows := by omega
  clear hk
  induction k generalizing i with
  | zero => rfl
  | succ k ih =>
    rw [List.range_succ, List.foldl_append]
    simp only [List.foldl_cons, List.foldl_nil]
    have sh : SameShape M ((List.range k).foldl (fun M i => M.swapRows i (P.getD i 0)) M) :=
      foldl_inv (SameShape M) _ _ _ (SameShape.refl M) (fun X a _ hX => hX.trans (swapRows_shape X _ _))
    rw [swapRows_get _ _ _ (by rw [sh.2.2]; omega) (by rw [sh.2.2, hsz]; exact hP k (by omega))]
    rw [ih _ (fun t ht => hP t (by omega)) (by omega)]
    rfl

theorem applyPRightTrans_get (M : BMat) (Q : Array Nat) (i j : Nat) (hi : i < M.nrows) :
    (M.applyPRightTrans Q).get i j = M.get i (rowPerm Q (min Q.size M.ncols) j) := by
  unfold applyPRightTrans
  generalize min Q.size M.ncols = k
  induction k generalizing j with
  | zero => rfl
  | succ k ih =>
    rw [List.range_succ, List.foldl_append]
    simp only [List.foldl_cons, List.foldl_nil]
    have sh : SameShape M ((List.range k).foldl (fun M i => M.swapColsInRows i (Q.getD i 0) 0 M.nrows) M) :=
      foldl_inv (SameShape M) _ _ _ (SameShape.refl M)
        (fun X a _ hX => hX.trans (swapColsInRows_shape X _ _ _ _))
    rw [swapColsInRows_get, if_pos ⟨Nat.zero_le _, by rw [sh.1]; exact hi⟩, ih]
    rfl

/-! ### 7. permutation matrices -/

/-- row-permutation matrix: `(permMat m σ · A)[i,j] = A[σ i, j]` -/
def permMat (m : Nat) (σ : Nat → Nat) : BMat := ofFn m m (fun i k => decide (k = σ i))
/-- column-permutation matrix: `(B · colPermMat n τ)[i,j] = B[i, τ j]` -/
def colPermMat (n : Nat) (τ : Nat → Nat) : BMat := ofFn n n (fun k j => decide (k = τ j))

@[simp] theorem permMat_nrows (m : Nat) (σ : Nat → Nat) : (permMat m σ).nrows = m := rfl
@[simp] theorem permMat_ncols (m : Nat) (σ : Nat → Nat) : (permMat m σ).ncols = m := rfl
@[simp] theorem colPermMat_nrows (m : Nat) (σ : Nat → Nat) : (colPermMat m σ).nrows = m := rfl
@[simp] theorem colPermMat_ncols (m : Nat) (σ : Nat → Nat) : (colPermMat m σ).ncols = m := rfl
theorem permMat_WF (m : Nat) (σ : Nat → Nat) : (permMat m σ).WF := WF_ofFn _ _ _
theorem colPermMat_WF (m : Nat) (σ : Nat → Nat) : (colPermMat m σ).WF := WF_ofFn _ _ _
theorem permMat_get (m : Nat) (σ : Nat → Nat) (i k : Nat) :
    (permMat m σ).get i k = (decide (i < m ∧ k < m) && decide (k = σ i)) := get_ofFn' _ _ _ _ _
theorem colPermMat_get (n : Nat) (τ : Nat → Nat) (k j : Nat) :
    (colPermMat n τ).get k j = (decide (k < n ∧ j < n) && decide (k = τ j)) := get_ofFn' _ _ _ _ _

theorem permMat_mul_get (m : Nat) (σ : Nat → Nat) (A : BMat) (i j : Nat) (hi : i < m) (hσ : σ i < m) :
    ((permMat m σ).mul A).get i j = A.get (σ i) j := by
  rw [mul_get _ _ _ _ (by simpa using hi), dotSpec_T, permMat_ncols]
  rw [xsum_single (σ i) hσ (fun t ht hne => by rw [permMat_get]; simp [hne])]
  rw [permMat_get]; simp [hi, hσ]

theorem mul_colPermMat_get (n : Nat) (τ : Nat → Nat) (B : BMat) (hB : B.ncols = n) (i j : Nat)
    (hi : i < B.nrows) (hj : j < n) (hτ : τ j < n) :
    (B.mul (colPermMat n τ)).get i j = B.get i (τ j) := by
  rw [mul_get _ _ _ _ hi, dotSpec_T, hB]
  rw [xsum_single (τ j) hτ (fun t ht hne => by rw [colPermMat_get]; simp [hne])]
  rw [colPermMat_get]; simp [hj, hτ]

theorem permMat_inv {m : Nat} {σ σ' : Nat → Nat} (h : PermOn m σ σ') :
    (permMat m σ').mul (permMat m σ) = identity m := by
  apply ext_get (mul_WF (permMat m σ') (permMat_WF m σ)) (identity_WF m) (by simp) (by simp)
  intro i j hi hj
  simp only [mul_nrows, mul_ncols, permMat_nrows, permMat_ncols] at hi hj
  rw [permMat_mul_get m σ' _ i j hi (h.1 i hi).2, identity_get, permMat_get, (h.2.1 i).1]
  have : σ' i < m := (h.1 i hi).2
  by_cases hij : i = j
  · subst hij; simp [hi, this]
  · have : ¬ j = i := fun e => hij e.symm
    simp [hij, this]

theorem colPermMat_inv {n : Nat} {τ τ' : Nat → Nat} (h : PermOn n τ τ') :
    (colPermMat n τ).mul (colPermMat n τ') = identity n := by
  apply ext_get (mul_WF (colPermMat n τ) (colPermMat_WF n τ')) (identity_WF n) (by simp) (by simp)
  intro i j hi hj
  simp only [mul_nrows, mul_ncols, colPermMat_nrows, colPermMat_ncols] at hi hj
  rw [mul_colPermMat_get n τ' _ (by simp) i j (by simpa using hi) hj (h.1 j hj).2,
    identity_get, colPermMat_get, (h.2.1 j).1]
  have : τ' j < n := (h.1 j hj).2
  simp [hi, this]

/-- **the permuted matrix of the PLUQ convention, entry-wise and as a matrix product**:
    for LAPACK-form `P`, `Q`, `apply_p_right_trans(apply_p_left(A,P),Q)[i,j] = A[σ i, τ j]` with the
    permutations `σ = rowPerm P m`, `τ = rowPerm Q n`; equivalently it is `Pm·A·Qm` for permutation matrices. -/
theorem applyP_eq_perm {A : BMat} {P Q : Array Nat} (hA : A.WF)
    (hPs : P.size = A.nrows) (hP : ∀ i, i < A.nrows → P.getD i 0 < A.nrows)
    (hQs : Q.size = A.ncols) (hQ : ∀ i, i < A.ncols → Q.getD i 0 < A.ncols) :
    PermOn A.nrows (rowPerm P A.nrows) (rowPermInv P A.nrows) ∧
    PermOn A.ncols (rowPerm Q A.ncols) (rowPermInv Q A.ncols) ∧
    (∀ i j, i < A.nrows →
      ((A.applyPLeft P).applyPRightTrans Q).get i j = A.get (rowPerm P A.nrows i) (rowPerm Q A.ncols j)) ∧
    ((A.applyPLeft P).applyPRightTrans Q).WF ∧
    (A.applyPLeft P).applyPRightTrans Q =
      ((permMat A.nrows (rowPerm P A.nrows)).mul A).mul (colPermMat A.ncols (rowPerm Q A.ncols)) := by
  have pσ := rowPerm_permOn P A.nrows A.nrows (Nat.le_refl _) hP
  have pτ := rowPerm_permOn Q A.ncols A.ncols (Nat.le_refl _) hQ
  have sh1 := applyPLeft_shape A P
  have sh := sh1.trans (applyPRightTrans_shape _ Q)
  have hget : ∀ i j, i < A.nrows →
      ((A.applyPLeft P).applyPRightTrans Q).get i j = A.get (rowPerm P A.nrows i) (rowPerm Q A.ncols j) := by
    intro i j hi
    rw [applyPRightTrans_get _ _ _ _ (by rw [sh1.1]; exact hi), sh1.2.1, hQs, Nat.min_self,
      applyPLeft_get _ _ hA.1 (fun t ht => hP t (by omega)), hPs, Nat.min_self]
  have hWF : ((A.applyPLeft P).applyPRightTrans Q).WF := by
    apply WF_of_get
    · rw [sh.2.2, sh.1]; exact hA.1
    · intro i j hj
      rw [sh.2.1] at hj
      by_cases hi : i < A.nrows
      · rw [hget i j hi, (pτ.2.2 j hj).1]
        exact get_of_ge_ncols hA _ _ hj
      · unfold get; rw [row_of_ge _ _ (by rw [sh.2.2, hA.1]; omega)]; simp
  refine ⟨pσ, pτ, hget, hWF, ?_⟩
  apply ext_get hWF (mul_WF _ (colPermMat_WF _ _)) (by simp [sh.1]) (by simp [sh.2.1])
  intro i j hi hj
  rw [sh.1] at hi; rw [sh.2.1] at hj
  rw [hget i j hi, mul_colPermMat_get _ _ _ (by simp) i j (by simpa using hi) hj (pτ.1 j hj).1,
    permMat_mul_get _ _ _ i _ hi (pσ.1 i hi).1]

/-! ### 8. one-sided inverses of the triangular factors -/

/-- a left inverse of `L = lowerFactor S r` (`m × r`, `r ≤ m`) -/
theorem lowerFactor_leftInv (S : BMat) (r : Nat) (hr : r ≤ S.nrows) :
    ∃ Lp : BMat, Lp.WF ∧ Lp.nrows = r ∧ Lp.ncols = S.nrows ∧ Lp.mul (lowerFactor S r) = identity r := by
  let T := ofFn r r S.get
  let V := trsmLowerRight T (identity r)
  have hV : V.mul (unitLower T) = identity r :=
    trsmLowerRight_spec (L := T) (B := identity r) (by simp [T]) (by simp [T]) (identity_WF r)
  refine ⟨ofFn r S.nrows (fun k i => decide (i < r) && V.get k i), WF_ofFn _ _ _, by simp, by simp, ?_⟩
  apply ext_get (mul_WF _ (lowerFactor_WF S r)) (identity_WF r) (by simp) (by simp)
  intro k l hk hl
  simp only [mul_nrows, mul_ncols, nrows_ofFn, lowerFactor_ncols] at hk hl
  rw [← hV, mul_get _ _ _ _ (by simpa using hk), mul_get _ _ _ _ (by simpa [V] using hk)]
  unfold dotSpec_T
  simp only [ncols_ofFn]
  have hVc : V.ncols = r := by simp [V]
  rw [hVc, xsum_extend hr (fun t h1 h2 => by
    rw [get_ofFn']
    have : ¬ t < r := by omega
    simp [this])]
  apply xsum_congr
  intro t ht
  rw [get_ofFn', lowerFactor_get, unitLower_get]
  simp only [T, nrows_ofFn]
  rw [get_ofFn']
  have h1 : t < S.nrows := by omega
  by_cases hlt : l < t
  · have : ¬ l = t := by omega
    simp [hk, ht, h1, hl, hlt, this]
  · simp [hk, ht, h1, hl, hlt]

/-- a right inverse of `U = upperFactor S r` (`r × n`, `r ≤ n`, unit diagonal) -/
theorem upperFactor_rightInv (S : BMat) (r : Nat) (hr : r ≤ S.ncols) (hdiag : ∀ i, i < r → S.get i i = true) :
    ∃ Up : BMat, Up.WF ∧ Up.nrows = S.ncols ∧ Up.ncols = r ∧ (upperFactor S r).mul Up = identity r := by
  let T := ofFn r r S.get
  have hW : (unitUpper T).mul (triInv T) = identity r := mul_triInv T (by simp [T])
  refine ⟨ofFn S.ncols r (fun j k => decide (j < r) && (triInv T).get j k), WF_ofFn _ _ _, by simp, by simp, ?_⟩
  apply ext_get (mul_WF _ (WF_ofFn _ _ _)) (identity_WF r) (by simp) (by simp)
  intro k l hk hl
  simp only [mul_nrows, mul_ncols, ncols_ofFn, upperFactor_nrows] at hk hl
  rw [← hW, mul_get _ _ _ _ (by simpa using hk), mul_get _ _ _ _ (by simpa [T] using hk)]
  unfold dotSpec_T
  simp only [upperFactor_ncols, unitUpper_ncols, T, ncols_ofFn]
  rw [xsum_extend hr (fun t h1 h2 => by
    rw [get_ofFn']
    have : ¬ t < r := by omega
    simp [this])]
  apply xsum_congr
  intro t ht
  rw [get_ofFn', upperFactor_get, unitUpper_get]
  simp only [nrows_ofFn, ncols_ofFn]
  rw [get_ofFn']
  have h1 : t < S.ncols := by omega
  by_cases hkt : k < t
  · have : k ≤ t := by omega
    simp [hk, ht, h1, hl, hkt, this]
  · by_cases hkt' : t = k
    · subst hkt'
      simp [hk, h1, hl, hdiag t hk]
    · have : ¬ k ≤ t := by omega
      simp [hk, ht, h1, hl, hkt, hkt', this]

/-- **C03, rank statement for PLUQ**: a certificate accepted by `checkPLUQ` determines the rank:
    `A = X·Y` through dimension `r` and `X'·A·Y' = I_r` (by `RankCert_unique` no other `r` has such a certificate). -/
theorem IsPLUQ.rankCert {A S : BMat} {P Q : Array Nat} {r : Nat} (h : IsPLUQ A S P Q r) (hA : A.WF) :
    RankCert A r := by
  obtain ⟨pσ, pτ, hget, hWF, hmat⟩ := applyP_eq_perm hA h.P_size (fun i hi => (h.P_lapack i hi).2)
    h.Q_size (fun i hi => (h.Q_lapack i hi).2)
  obtain ⟨Lp, hLp, dLp1, dLp2, hLL⟩ := lowerFactor_leftInv S r (by rw [h.nrows_eq]; exact h.r_le_nrows)
  obtain ⟨Up, hUp, dUp1, dUp2, hUU⟩ := upperFactor_rightInv S r (by rw [h.ncols_eq]; exact h.r_le_ncols) h.diag
  have sh := (applyPLeft_shape A P).trans (applyPRightTrans_shape _ Q)
  have hfac : ((permMat A.nrows (rowPerm P A.nrows)).mul A).mul (colPermMat A.ncols (rowPerm Q A.ncols))
      = (lowerFactor S r).mul (upperFactor S r) := by
    rw [← hmat]
    apply ext_get hWF (mul_WF _ (upperFactor_WF S r)) (by simp [sh.1, h.nrows_eq]) (by simp [sh.2.1, h.ncols_eq])
    intro i j hi hj
    rw [sh.1] at hi; rw [sh.2.1] at hj
    rw [h.prod i j hi hj, mul_get _ _ _ _ (by simpa [h.nrows_eq] using hi)]
  exact RankCert_of_factor (Pi := permMat A.nrows (rowPermInv P A.nrows))
    (Qi := colPermMat A.ncols (rowPermInv Q A.ncols)) hA (lowerFactor_WF S r) (upperFactor_WF S r) hUp
    (permMat_WF _ _) (colPermMat_WF _ _) (colPermMat_WF _ _) (by simp) (by simp) dLp1 dUp2 (by simp)
    (by simp) (by simp) (by simp) hfac hLL hUU (permMat_inv pσ)
    (colPermMat_inv pτ)

/-- **C03, `A = P·L·U·Q` entry by entry**: with the permutations `σ' = rowPermInv P m`, `τ' = rowPermInv Q n`
    (inverses of the row / column permutations the library applies), `A[i,j] = (L·U)[σ' i, τ' j]`. -/
theorem IsPLUQ.reconstruct {A S : BMat} {P Q : Array Nat} {r : Nat} (h : IsPLUQ A S P Q r) (hA : A.WF)
    (i j : Nat) (hi : i < A.nrows) (hj : j < A.ncols) :
    A.get i j = dotSpec_T (S.lowerFactor r) (S.upperFactor r) (rowPermInv P A.nrows i) (rowPermInv Q A.ncols j) := by
  obtain ⟨pσ, pτ, hget, _, _⟩ := applyP_eq_perm hA h.P_size (fun i hi => (h.P_lapack i hi).2)
    h.Q_size (fun i hi => (h.Q_lapack i hi).2)
  rw [← h.prod _ _ (pσ.1 i hi).2 (pτ.1 j hj).2, hget _ _ (pσ.1 i hi).2, (pσ.2.1 i).1, (pτ.2.1 j).1]

/-! ### 9. PLE -/

theorem applyPLeft_eq_perm {A : BMat} {P : Array Nat} (hA : A.WF)
    (hPs : P.size = A.nrows) (hP : ∀ i, i < A.nrows → P.getD i 0 < A.nrows) :
    PermOn A.nrows (rowPerm P A.nrows) (rowPermInv P A.nrows) ∧
    (∀ i j, (A.applyPLeft P).get i j = A.get (rowPerm P A.nrows i) j) ∧
    (A.applyPLeft P).WF ∧
    A.applyPLeft P = (permMat A.nrows (rowPerm P A.nrows)).mul A := by
  have pσ := rowPerm_permOn P A.nrows A.nrows (Nat.le_refl _) hP
  have sh := applyPLeft_shape A P
  have hget : ∀ i j, (A.applyPLeft P).get i j = A.get (rowPerm P A.nrows i) j := by
    intro i j
    rw [applyPLeft_get _ _ hA.1 (fun t ht => hP t (by omega)), hPs, Nat.min_self]
  have hWF : (A.applyPLeft P).WF := by
    apply WF_of_get
    · rw [sh.2.2, sh.1]; exact hA.1
    · intro i j hj
      rw [sh.2.1] at hj
      rw [hget i j]
      exact get_of_ge_ncols hA _ _ hj
  refine ⟨pσ, hget, hWF, ?_⟩
  apply ext_get hWF (mul_WF _ hA) (by simp [sh.1]) (by simp [sh.2.1])
  intro i j hi hj
  rw [sh.1] at hi
  rw [hget i j, permMat_mul_get _ _ _ i _ hi (pσ.1 i hi).1]

theorem echelonFactor_WF (S : BMat) (Q : Array Nat) (r : Nat) (hQ : ∀ i, i < r → Q.getD i 0 < S.ncols) :
    (echelonFactor S Q r).WF := by
  apply WF_of_get
  · simp [echelonFactor]
  · intro i j hj
    rw [echelonFactor_get]
    simp only [echelonFactor_ncols] at hj
    by_cases hi : i < r
    · have h1 : ¬ j < S.ncols := by omega
      have h2 := hQ i hi
      generalize Q.getD i 0 = q at h2 ⊢
      have h3 : ¬ j = q := by omega
      simp [h1, h3]
    · simp [hi]

/-- a right inverse of `E = echelonFactor S Q r`: select the pivot columns (that gives a unit upper
    triangular `r × r` matrix) and invert -/
theorem echelonFactor_rightInv (S : BMat) (Q : Array Nat) (r : Nat)
    (hQ : ∀ i, i < r → Q.getD i 0 < S.ncols) (hmono : ∀ i j, i < j → j < r → Q.getD i 0 < Q.getD j 0) :
    ∃ Up : BMat, Up.WF ∧ Up.nrows = S.ncols ∧ Up.ncols = r ∧ (echelonFactor S Q r).mul Up = identity r := by
  obtain ⟨q, hq⟩ : ∃ q : Nat → Nat, ∀ k, q k = Q.getD k 0 := ⟨fun k => Q.getD k 0, fun _ => rfl⟩
  obtain ⟨T, hT⟩ : ∃ T : BMat, T = ofFn r r (fun i k => S.get i (q k)) := ⟨_, rfl⟩
  obtain ⟨C, hC⟩ : ∃ C : BMat, C = ofFn S.ncols r (fun j k => decide (j = q k)) := ⟨_, rfl⟩
  have hTr : T.nrows = r := by rw [hT]; rfl
  have hTc : T.ncols = r := by rw [hT]; rfl
  have hTget : ∀ i k, T.get i k = (decide (i < r ∧ k < r) && S.get i (q k)) := by
    intro i k; rw [hT]; exact get_ofFn' _ _ _ _ _
  have hCWF : C.WF := by rw [hC]; exact WF_ofFn _ _ _
  have hCr : C.nrows = S.ncols := by rw [hC]; rfl
  have hCc : C.ncols = r := by rw [hC]; rfl
  have hCget : ∀ j k, C.get j k = (decide (j < S.ncols ∧ k < r) && decide (j = q k)) := by
    intro j k; rw [hC]; exact get_ofFn' _ _ _ _ _
  have hW : (unitUpper T).mul (triInv T) = identity r := by
    have := mul_triInv T (by rw [hTr, hTc]); rwa [hTr] at this
  have hEC : (echelonFactor S Q r).mul C = unitUpper T := by
    apply ext_get (mul_WF _ hCWF) (unitUpper_WF T (by omega)) (by simp [hTr]) (by simp [hTc, hCc])
    intro i k hi hk
    simp only [mul_nrows, mul_ncols, echelonFactor_nrows, hCc] at hi hk
    have hqk : q k < S.ncols := by rw [hq]; exact hQ k hk
    rw [mul_get _ _ _ _ (by simpa using hi), dotSpec_T, echelonFactor_ncols]
    rw [xsum_single (q k) hqk (fun t ht hne => by rw [hCget]; simp [hne])]
    rw [hCget, echelonFactor_get, unitUpper_get, hTget, hTr, hTc, ← hq i]
    by_cases hik : i < k
    · have := hmono i k hik hk
      rw [← hq, ← hq] at this
      have h3 : ¬ q k = q i := by omega
      simp [hi, hk, hqk, hik, this, h3]
    · by_cases hik' : k = i
      · subst hik'; simp [hi, hqk]
      · have h1 := hmono k i (by omega) hi
        rw [← hq, ← hq] at h1
        have h2 : ¬ q i < q k := by omega
        have h3 : ¬ q k = q i := by omega
        simp [hi, hk, hqk, hik, hik', h2, h3]
  refine ⟨C.mul (triInv T), mul_WF _ (triInv_WF T), by simp [hCr], by simp [hTr], ?_⟩
  rw [← mul_assoc _ hCWF (triInv_WF T), hEC, hW]

/-- **C03, rank statement for PLE** -/
theorem IsPLE.rankCert {A S : BMat} {P Q : Array Nat} {r : Nat} (h : IsPLE A S P Q r) (hA : A.WF) :
    RankCert A r := by
  obtain ⟨pσ, hget, hWF, hmat⟩ := applyPLeft_eq_perm hA h.P_size (fun i hi => (h.P_lapack i hi).2)
  have hQ : ∀ i, i < r → Q.getD i 0 < S.ncols := fun i hi => by rw [h.ncols_eq]; exact (h.pivot_range i hi).2
  obtain ⟨Lp, hLp, dLp1, dLp2, hLL⟩ := lowerFactor_leftInv S r (by rw [h.nrows_eq]; exact h.r_le_nrows)
  obtain ⟨Up, hUp, dUp1, dUp2, hUU⟩ := echelonFactor_rightInv S Q r hQ h.pivot_mono
  have sh := applyPLeft_shape A P
  have hE := echelonFactor_WF S Q r hQ
  have hfac : ((permMat A.nrows (rowPerm P A.nrows)).mul A).mul (identity A.ncols)
      = (lowerFactor S r).mul (echelonFactor S Q r) := by
    have e := mul_identity (mul_WF (permMat A.nrows (rowPerm P A.nrows)) hA)
    rw [mul_ncols] at e
    rw [e, ← hmat]
    apply ext_get hWF (mul_WF _ hE) (by simp [sh.1, h.nrows_eq]) (by simp [sh.2.1, h.ncols_eq])
    intro i j hi hj
    rw [sh.1] at hi; rw [sh.2.1] at hj
    rw [h.prod i j hi hj, mul_get _ _ _ _ (by simpa [h.nrows_eq] using hi)]
  have hII : (identity A.ncols).mul (identity A.ncols) = identity A.ncols :=
    mul_identity (A := identity A.ncols) (identity_WF _)
  exact RankCert_of_factor (Pi := permMat A.nrows (rowPermInv P A.nrows)) (Qi := identity A.ncols)
    hA (lowerFactor_WF S r) hE hUp (permMat_WF _ _) (identity_WF _) (identity_WF _) (by simp) (by simp)
    dLp1 dUp2 (by simp) (by simp) (by simp) (by simp) hfac hLL hUU (permMat_inv pσ) hII

/-- non-vacuity: a 2×3 matrix of rank 2 with its PLUQ and PLE certificates -/
example : checkPLUQ ⟨2, 3, #[6, 3]⟩ ⟨2, 3, #[3, 6]⟩ #[1, 1] #[0, 1, 2] 2 = true := by decide +kernel
example : checkPLE ⟨3, 4, #[12, 4, 10]⟩ ⟨3, 4, #[9, 2, 6]⟩ #[2, 1, 2] #[1, 2, 3, 3] 3 = true := by decide +kernel

/-! ### 10. square matrices: a one-sided inverse is two-sided -/

theorem rowVec_mul_row0 (c v : Nat) (M : BMat) : ((rowVec c v).mul M).row 0 = comb v M.rows c := by
  simp [mul, rowVec, row]

theorem rowVec_mul_injective {G H : BMat} {ρ : Nat} (hG : G.WF) (hH : H.WF) (hGH : G.mul H = identity ρ)
    {v v' : Nat} (hv : v < 2 ^ ρ) (hv' : v' < 2 ^ ρ)
    (h0 : ((rowVec ρ v).mul G).row 0 = ((rowVec ρ v').mul G).row 0) : v = v' := by
  have e : (rowVec ρ v).mul G = (rowVec ρ v').mul G := by
    apply ext_get (mul_WF (rowVec ρ v) hG) (mul_WF (rowVec ρ v') hG) rfl rfl
    intro i j hi _
    have : i = 0 := by simp only [mul_nrows, rowVec] at hi; omega
    subst this
    unfold get; rw [h0]
  have e2 : ∀ w, w < 2 ^ ρ → ((rowVec ρ w).mul G).mul H = rowVec ρ w := by
    intro w hw
    rw [mul_assoc _ hG hH, hGH]
    exact mul_identity (A := rowVec ρ w) (rowVec_WF ρ w hw)
  have : rowVec ρ v = rowVec ρ v' := by rw [← e2 v hv, ← e2 v' hv', e]
  have := congrArg (fun B => BMat.row B 0) this
  simpa [rowVec, row] using this

/-- for square matrices over GF(2) a right inverse is also a left inverse -/
theorem square_inv_comm {G H : BMat} {ρ : Nat} (hG : G.WF) (hH : H.WF)
    (hGc : G.ncols = ρ) (hHr : H.nrows = ρ) (hHc : H.ncols = ρ)
    (hGH : G.mul H = identity ρ) : H.mul G = identity ρ := by
  let f : Fin (2 ^ ρ) → Fin (2 ^ ρ) := fun v =>
    ⟨((rowVec ρ v.1).mul G).row 0, by
      have := (mul_WF (rowVec ρ v.1) hG).2 0
      simpa [hGc] using this⟩
  have hinj : Function.Injective f := by
    intro v v' hvv
    have h0 : ((rowVec ρ v.1).mul G).row 0 = ((rowVec ρ v'.1).mul G).row 0 := by
      have := congrArg Fin.val hvv
      simpa [f] using this
    exact Fin.ext (rowVec_mul_injective hG hH hGH v.2 v'.2 h0)
  have : Finite (Fin (2 ^ ρ)) := Finite.intro (Equiv.refl _)
  have hsurj : Function.Surjective f := Finite.injective_iff_surjective.mp hinj
  -- for every unit vector `e_i` a preimage `u i`
  have hex : ∀ i, ∃ u, u < 2 ^ ρ ∧ (i < ρ → ((rowVec ρ u).mul G).row 0 = 2 ^ i) := by
    intro i
    by_cases hi : i < ρ
    · obtain ⟨v, hv⟩ := hsurj ⟨2 ^ i, Nat.pow_lt_pow_right (by omega) hi⟩
      refine ⟨v.1, v.2, fun _ => ?_⟩
      have := congrArg Fin.val hv
      simpa [f] using this
    · exact ⟨0, Nat.two_pow_pos ρ, fun h => absurd h hi⟩
  choose u hu1 hu2 using hex
  -- the matrix with rows `u i` is a left inverse of `G`, hence equals `H`
  have hU : (⟨ρ, ρ, (Array.range ρ).map u⟩ : BMat).WF := by
    refine ⟨by simp, fun i => ?_⟩
    by_cases hi : i < ρ
    · rw [row_mk_range _ _ _ _ hi]; exact hu1 i
    · rw [row_mk_range_ge _ _ _ _ (by omega)]; exact Nat.two_pow_pos ρ
  have hUG : (⟨ρ, ρ, (Array.range ρ).map u⟩ : BMat).mul G = identity ρ := by
    apply ext_get (mul_WF _ hG) (identity_WF ρ) (by simp) (by simp [hGc])
    intro i j hi _
    simp only [mul_nrows] at hi
    unfold get
    congr 1
    have e1 : ((⟨ρ, ρ, (Array.range ρ).map u⟩ : BMat).mul G).row i = comb (u i) G.rows ρ := by
      unfold mul
      rw [row_mk_range _ _ _ _ hi, row_mk_range _ _ _ _ hi]
    rw [e1, ← rowVec_mul_row0, hu2 i hi]
    unfold identity
    rw [row_mk_range _ _ _ _ hi]
  have hUH : (⟨ρ, ρ, (Array.range ρ).map u⟩ : BMat) = H := by
    have e1 := mul_identity hU
    simp only at e1
    rw [← e1, ← hGH, ← mul_assoc _ hG hH, hUG]
    have := identity_mul hH
    rwa [hHr] at this
  rw [← hUH]; exact hUG

/-! ### 11. glue: a rank certificate from the facts one proves about Gauss–Jordan elimination

  If `R = T·A`, `A = T'·R`, the rows `≥ p` of `R` are zero and the first `p` rows carry pivots
  (`R[i, c k] = δ_ik` for `i, k < p`), then `RankCert A p`. -/

theorem RankCert_of_echelon {A R T T' : BMat} {p : Nat} (c : Nat → Nat)
    (hA : A.WF) (hR : R.WF) (hT : T.WF)
    (hRr : R.nrows = A.nrows) (hRc : R.ncols = A.ncols)
    (hTc : T.ncols = A.nrows) (hT'r : T'.nrows = A.nrows)
    (hTA : T.mul A = R) (hT'R : T'.mul R = A)
    (hp : p ≤ A.nrows) (hc : ∀ k, k < p → c k < A.ncols)
    (hzero : ∀ i j, p ≤ i → i < A.nrows → R.get i j = false)
    (hpiv : ∀ i k, i < p → k < p → R.get i (c k) = decide (i = k)) :
    RankCert A p := by
  -- `J = [I_p; 0]` (`m × p`), `Rt` = the top `p` rows of `R`, `C` = selector of the pivot columns
  let J := ofFn A.nrows p (fun i k => decide (i = k))
  let J' := ofFn p A.nrows (fun k i => decide (i = k))
  let Rt := ofFn p A.ncols R.get
  let C := ofFn A.ncols p (fun j k => decide (j = c k))
  have hJR : J.mul Rt = R := by
    apply ext_get (mul_WF J (WF_ofFn _ _ _)) hR (by simp [J, hRr]) (by simp [hRc])
    intro i j hi hj
    simp only [mul_nrows, mul_ncols, J, nrows_ofFn, ncols_ofFn] at hi hj
    rw [mul_get _ _ _ _ (by simpa [J] using hi), dotSpec_T]
    simp only [J, ncols_ofFn]
    by_cases hip : i < p
    · rw [xsum_single i hip (fun t ht hne => by
        rw [get_ofFn']
        have : ¬ i = t := fun e => hne e.symm
        simp [this])]
      rw [get_ofFn', get_ofFn']; simp [hi, hip, hj]
    · rw [hzero i j (by omega) hi]
      apply xsum_false
      intro t ht
      rw [get_ofFn']
      have : ¬ i = t := by omega
      simp [this]
  have hRtC : Rt.mul C = identity p := by
    apply ext_get (mul_WF Rt (WF_ofFn _ _ _)) (identity_WF p) (by simp [Rt]) (by simp)
    intro i k hi hk
    simp only [mul_nrows, mul_ncols, Rt, nrows_ofFn, ncols_ofFn] at hi hk
    rw [mul_get _ _ _ _ (by simpa [Rt] using hi), dotSpec_T]
    simp only [Rt, ncols_ofFn]
    rw [xsum_single (c k) (hc k hk) (fun t ht hne => by
      rw [get_ofFn' A.ncols]; simp [hne])]
    rw [get_ofFn', get_ofFn', hpiv i k hi hk, identity_get]
    simp [hi, hk, hc k hk]
  have hJ'J : J'.mul J = identity p := by
    apply ext_get (mul_WF J' (WF_ofFn _ _ _)) (identity_WF p) (by simp [J']) (by simp)
    intro k l hk hl
    simp only [mul_nrows, mul_ncols, J', nrows_ofFn, ncols_ofFn] at hk hl
    rw [mul_get _ _ _ _ (by simpa [J'] using hk), dotSpec_T]
    simp only [J', ncols_ofFn]
    rw [xsum_single k (by omega) (fun t ht hne => by
      rw [get_ofFn']; simp [hne])]
    rw [get_ofFn', get_ofFn', identity_get]
    have : k < A.nrows := by omega
    simp [hk, hl, this]
  have hRt : Rt.WF := WF_ofFn _ _ _
  have hJ : J.WF := WF_ofFn _ _ _
  have hC : C.WF := WF_ofFn _ _ _
  refine ⟨T'.mul J, Rt, J'.mul T, C, mul_WF _ hJ, hRt, mul_WF _ hT, hC,
    by simpa using hT'r, by simp [J], by simp [Rt], by simp [Rt], by simp [J'], by simpa using hTc,
    by simp [C], by simp [C], ?_, ?_⟩
  · rw [mul_assoc _ hJ hRt, hJR, hT'R]
  · rw [mul_assoc _ hT hA, hTA, ← hJR, ← mul_assoc _ hJ hRt, hJ'J]
    have e := identity_mul hRt
    have : Rt.nrows = p := by simp [Rt]
    rw [this] at e
    rw [e, hRtC]

/-- **C03**: the rank returned with an accepted PLUQ certificate is the model's `rank A` as soon as the
    latter is known to be the rank (`hrank`, to be supplied from the elimination proofs, e.g. through
    `RankCert_of_echelon`). -/
theorem checkPLUQ_rank {A S : BMat} {P Q : Array Nat} {r : Nat} (hA : A.WF)
    (h : checkPLUQ A S P Q r = true) (hrank : RankCert A A.rank) : r = A.rank :=
  RankCert_unique ((checkPLUQ_sound h).rankCert hA) hrank

theorem checkPLE_rank {A S : BMat} {P Q : Array Nat} {r : Nat} (hA : A.WF)
    (h : checkPLE A S P Q r = true) (hrank : RankCert A A.rank) : r = A.rank :=
  RankCert_unique ((checkPLE_sound h).rankCert hA) hrank

/-! ### 12. C06: solvability of `A·X = B` is `rank [A | B] = rank A` -/

theorem mul_concat (M : BMat) {Y Z : BMat} (hY : Y.WF) (hZ : Z.WF) (hr : Z.nrows = Y.nrows) :
    M.mul (Y.concat Z) = (M.mul Y).concat (M.mul Z) := by
  apply ext_get (mul_WF M (concat_WF Y Z)) (concat_WF (M.mul Y) (M.mul Z)) rfl rfl
  intro i j hi _
  simp only [mul_nrows] at hi
  rw [mul_get _ _ _ _ hi, concat_get, mul_nrows, mul_ncols, mul_get _ _ _ _ hi, mul_get _ _ _ _ hi]
  simp only [hi, decide_true, Bool.true_and]
  unfold dotSpec_T
  by_cases hj : j < Y.ncols
  · rw [if_pos hj]
    apply xsum_congr
    intro t _
    rw [concat_get, if_pos hj]
    by_cases ht : t < Y.nrows
    · simp [ht]
    · rw [get_of_ge_nrows hY t j (by omega)]; simp [ht]
  · rw [if_neg hj, ← xsum_and_left]
    apply xsum_congr
    intro t _
    rw [concat_get, if_neg hj]
    by_cases ht : t < Y.nrows
    · by_cases hz : j - Y.ncols < Z.ncols
      · simp [ht, hz]
      · simp [ht, hz]
    · rw [get_of_ge_nrows hZ t _ (by omega)]; simp [ht]

theorem split_concat {M : BMat} (hM : M.WF) (n k : Nat) (hc : M.ncols = n + k) :
    M = (M.sub 0 0 M.nrows n).concat (M.sub 0 n M.nrows (n + k)) := by
  apply ext_get hM (concat_WF _ _) (by simp [sub]) (by simp [sub, hc])
  intro i j hi hj
  rw [concat_get, sub_get, sub_get]
  have h1 : i < min (M.nrows - 0) (M.nrows - 0) := by omega
  have h2 : (M.sub 0 0 M.nrows n).nrows = M.nrows := by simp [sub]
  have h3 : (M.sub 0 0 M.nrows n).ncols = n := by simp [sub]
  have h4 : (M.sub 0 n M.nrows (n + k)).ncols = k := by simp [sub]
  rw [h2, h3, h4]
  by_cases hjn : j < n
  · simp [hi, hjn]
  · have : j - n < k := by omega
    have e : n + (j - n) = j := by omega
    simp [hi, hjn, this, e]

theorem concat_inj {A A' B B' : BMat} (hA : A.WF) (hA' : A'.WF) (hB : B.WF) (hB' : B'.WF)
    (hr : A'.nrows = A.nrows) (hc : A'.ncols = A.ncols) (hBr : B.nrows = A.nrows) (hB'r : B'.nrows = A.nrows)
    (hBc : B'.ncols = B.ncols) (h : A.concat B = A'.concat B') : A = A' ∧ B = B' := by
  constructor
  · apply ext_get hA hA' hr.symm hc.symm
    intro i j hi hj
    have := congrArg (fun M => BMat.get M i j) h
    simp only [concat_get] at this
    simpa [hi, hj, hr, hc] using this
  · apply ext_get hB hB' (by omega) hBc.symm
    intro i j hi hj
    have := congrArg (fun M => BMat.get M i (A.ncols + j)) h
    simp only [concat_get] at this
    have h1 : ¬ A.ncols + j < A.ncols := by omega
    have h2 : A.ncols + j - A.ncols = j := by omega
    have h3 : i < A.nrows := by omega
    simpa [h1, h2, h3, hr, hc, hj, hBc] using this

/-- **C06 (core)**: for `A` of rank `ρ` (certified), `A·X = B` is solvable iff `[A | B]` still has rank `ρ`. -/
theorem solvable_iff_rankCert {A B : BMat} {ρ : Nat} (hA : A.WF) (hB : B.WF) (hBr : B.nrows = A.nrows)
    (hrA : RankCert A ρ) :
    RankCert (A.concat B) ρ ↔ ∃ X : BMat, X.WF ∧ X.nrows = A.ncols ∧ X.ncols = B.ncols ∧ A.mul X = B := by
  obtain ⟨X1, Y1, X1', Y1', hX1, hY1, hX1', hY1', d1, d2, d3, d4, d5, d6, d7, d8, hXY, hI⟩ := hrA
  constructor
  · rintro ⟨X2, Y2, _, _, hX2, hY2, _, _, c1, c2, c3, c4, _, _, _, _, hXY2, _⟩
    simp only [concat_nrows, concat_ncols] at c1 c4
    -- split `Y2 = [Ya | Yb]`, so `A = X2·Ya`, `B = X2·Yb`
    obtain ⟨Ya, Yb, hYa, hYb, a1, a2, b1, b2, hsplit⟩ : ∃ Ya Yb : BMat, Ya.WF ∧ Yb.WF ∧ Ya.nrows = ρ ∧
        Ya.ncols = A.ncols ∧ Yb.nrows = ρ ∧ Yb.ncols = B.ncols ∧ Y2 = Ya.concat Yb :=
      ⟨_, _, sub_WF Y2 0 0 Y2.nrows A.ncols, sub_WF Y2 0 A.ncols Y2.nrows (A.ncols + B.ncols),
        by simp [sub, c3], by simp [sub], by simp [sub, c3], by simp [sub],
        split_concat hY2 A.ncols B.ncols c4⟩
    rw [hsplit, mul_concat X2 hYa hYb (by omega)] at hXY2
    obtain ⟨eA, eB⟩ := concat_inj (mul_WF X2 hYa) hA (mul_WF X2 hYb) hB (by simpa using c1.symm)
      (by simpa using a2.symm) (by simp) (by simpa using hBr.trans c1.symm) (by simpa using b2.symm) hXY2
    -- `G·H = I` for the square `G = X1'·X2`, `H = Ya·Y1'`, hence `H·G = I`
    have hGH : (X1'.mul X2).mul (Ya.mul Y1') = identity ρ := by
      rw [← hI, ← eA, mul_assoc X1' hX2 (mul_WF _ hY1'), mul_assoc X1' (mul_WF X2 hYa) hY1',
        mul_assoc X2 hYa hY1']
    have hHG := square_inv_comm (mul_WF X1' hX2) (mul_WF _ hY1') (by simpa using c2)
      (by simpa using a1) (by simpa using d8) hGH
    refine ⟨Y1'.mul ((X1'.mul X2).mul Yb), mul_WF _ (mul_WF _ hYb), by simpa using d7, by simpa using b2, ?_⟩
    -- `A·X = X2·(H·G)·Yb = X2·Yb = B`
    have e1 : (X2.mul Ya).mul (Y1'.mul ((X1'.mul X2).mul Yb))
        = X2.mul (((Ya.mul Y1').mul (X1'.mul X2)).mul Yb) := by
      rw [mul_assoc X2 hYa (mul_WF Y1' (mul_WF _ hYb)),
        mul_assoc _ (mul_WF X1' hX2) hYb, mul_assoc _ hY1' (mul_WF _ hYb)]
    have e2 := identity_mul hYb
    rw [b1] at e2
    rw [← eA, e1, hHG, e2, eB]
  · rintro ⟨X, hX, hXr, hXc, hAX⟩
    -- `[A | B] = X1·[Y1 | Y1·X]`, and `X1'·[A | B]·[Y1'; 0] = X1'·A·Y1' = I`
    let Z := ofFn (A.ncols + B.ncols) ρ (fun j l => decide (j < A.ncols) && Y1'.get j l)
    have hZ : Z.WF := WF_ofFn _ _ _
    have hABZ : (A.concat B).mul Z = A.mul Y1' := by
      apply ext_get (mul_WF _ hZ) (mul_WF _ hY1') (by simp) (by simp [Z, d8])
      intro i l hi _
      simp only [mul_nrows, concat_nrows] at hi
      rw [mul_get _ _ _ _ (by simpa using hi), mul_get _ _ _ _ hi]
      unfold dotSpec_T
      rw [concat_ncols, xsum_extend (Nat.le_add_right A.ncols B.ncols) (fun t h1 h2 => by
        simp only [Z]
        rw [get_ofFn']
        have : ¬ t < A.ncols := by omega
        simp [this])]
      apply xsum_congr
      intro t ht
      simp only [Z]
      rw [concat_get, get_ofFn']
      by_cases hl : l < ρ
      · have : t < A.ncols + B.ncols := by omega
        simp [hi, ht, hl, this]
      · rw [get_of_ge_ncols hY1' t l (by omega)]; simp
    refine ⟨X1, Y1.concat (Y1.mul X), X1', Z, hX1, concat_WF _ _, hX1', hZ, by simpa using d1, d2,
      by simpa using d3, by simp [d4, hXc], d5, by simpa using d6, by simp [Z], by simp [Z], ?_, ?_⟩
    · rw [mul_concat X1 hY1 (mul_WF Y1 hX) (by simp), ← mul_assoc X1 hY1 hX, hXY, hAX]
    · rw [mul_assoc X1' (concat_WF A B) hZ, hABZ, ← mul_assoc X1' hA hY1', hI]

/-- the zero-padded `A` of `solvable` (`max(m,n)` rows) -/
def padRows (A : BMat) : BMat :=
  ⟨max A.nrows A.ncols, A.ncols,
    (Array.range (max A.nrows A.ncols)).map fun i => if i < A.nrows then A.row i % 2 ^ A.ncols else 0⟩

theorem solvable_eq (A B : BMat) :
    solvable A B = decide (((padRows A).concat B).rank = (padRows A).rank) := rfl

theorem padRows_WF (A : BMat) : (padRows A).WF := by
  refine ⟨by simp [padRows], fun i => ?_⟩
  unfold padRows
  by_cases hi : i < max A.nrows A.ncols
  · rw [row_mk_range _ _ _ _ hi]
    split
    · exact Nat.mod_lt _ (Nat.two_pow_pos _)
    · exact Nat.two_pow_pos _
  · rw [row_mk_range_ge _ _ _ _ (by omega)]; exact Nat.two_pow_pos _

/-- **C06**: the verdict of `solvable` is right — relative to the two facts `hr1`, `hr2` that the model's
    `rank` (number of pivots found by `gaussDelayed`) is the rank of the padded `A` and of `[Apad | B]`. -/
theorem solvable_spec {A B : BMat} (hB : B.WF) (hBr : B.nrows = max A.nrows A.ncols)
    (hr1 : RankCert (padRows A) (padRows A).rank)
    (hr2 : RankCert ((padRows A).concat B) ((padRows A).concat B).rank) :
    solvable A B = true ↔
      ∃ X : BMat, X.WF ∧ X.nrows = A.ncols ∧ X.ncols = B.ncols ∧ (padRows A).mul X = B := by
  rw [solvable_eq, decide_eq_true_eq]
  have key := solvable_iff_rankCert (padRows_WF A) hB (by simpa [padRows] using hBr) hr1
  constructor
  · intro h
    rw [← h] at key
    exact key.mp hr2
  · intro h
    exact RankCert_unique hr2 (key.mpr h)

/-- non-vacuity of `RankCert` -/
example : RankCert (identity 2) 2 := by
  have e : (identity 2).mul (identity 2) = identity 2 := mul_identity (A := identity 2) (identity_WF 2)
  exact ⟨identity 2, identity 2, identity 2, identity 2, identity_WF 2, identity_WF 2, identity_WF 2,
    identity_WF 2, rfl, rfl, rfl, rfl, rfl, rfl, rfl, rfl, e, by rw [e, e]⟩

/-! ### 13. a rank certificate from `isRREF`

  With `R = T·A`, `A = T'·R` and `R.isRREF = true` the number of non-zero rows of `R`
  (`(R.leads.filterMap id).length`, for `R = A.rref` this is `A.rankProfile.length`) is the rank of `A`. -/

/-- shape of a list of leading columns accepted by the echelon test: strictly increasing `some`s
    followed by `none`s -/
theorem go_shape (l : List (Option Nat)) (prev : Option Nat) (sz : Bool)
    (h : isRowEchelon.go l prev sz = true) :
    ∃ (cs : List Nat) (z : Nat), l = cs.map some ++ List.replicate z none ∧ cs.Pairwise (· < ·) ∧
      (∀ p, prev = some p → ∀ c, c ∈ cs → p < c) ∧ (sz = true → cs = []) := by
  induction l generalizing prev sz with
  | nil => exact ⟨[], 0, rfl, List.Pairwise.nil, (fun _ _ _ hc => by cases hc), fun _ => rfl⟩
  | cons a rest ih =>
    cases a with
    | none =>
      unfold isRowEchelon.go at h
      obtain ⟨cs, z, e, _, _, h4⟩ := ih prev true h
      have hcs := h4 rfl
      subst hcs
      refine ⟨[], z + 1, ?_, List.Pairwise.nil, (fun _ _ _ hc => by cases hc), fun _ => rfl⟩
      rw [e]; simp [List.replicate_succ]
    | some c =>
      unfold isRowEchelon.go at h
      simp only [Bool.and_eq_true, Bool.not_eq_true'] at h
      obtain ⟨⟨hsz, hp⟩, hrest⟩ := h
      obtain ⟨cs, z, e, h2, h3, _⟩ := ih (some c) false hrest
      refine ⟨c :: cs, z, by rw [e]; rfl, List.Pairwise.cons (fun c' hc' => h3 c rfl c' hc') h2, ?_,
        fun hh => by rw [hsz] at hh; cases hh⟩
      intro p hprev c' hc'
      subst hprev
      simp only [decide_eq_true_eq] at hp
      rcases List.mem_cons.mp hc' with rfl | hmem
      · exact hp
      · exact Nat.lt_trans hp (h3 c rfl c' hmem)

/-- the structure of a well-formed matrix accepted by `isRREF`: `p` pivot rows with strictly increasing
    pivot columns `c 0 < … < c (p-1)`, each pivot column a unit vector, and zero rows below -/
theorem isRREF_structure {R : BMat} (hR : R.WF) (h : R.isRREF = true) :
    ∃ c : Nat → Nat, (R.leads.filterMap id).length ≤ R.nrows ∧
      (∀ k, k < (R.leads.filterMap id).length → c k < R.ncols) ∧
      (∀ i j, (R.leads.filterMap id).length ≤ i → i < R.nrows → R.get i j = false) ∧
      (∀ i k, i < (R.leads.filterMap id).length → k < (R.leads.filterMap id).length →
        R.get i (c k) = decide (i = k)) ∧
      (∀ i k, i < k → k < (R.leads.filterMap id).length → c i < c k) ∧
      (∀ k j, k < (R.leads.filterMap id).length → j < c k → R.get k j = false) ∧
      R.leads.filterMap id = (List.range (R.leads.filterMap id).length).map c := by
  unfold isRREF at h
  rw [Bool.and_eq_true] at h
  obtain ⟨h1, h2⟩ := h
  unfold isRowEchelon at h1
  simp only at h1
  obtain ⟨cs, z, e, hpw, _, _⟩ := go_shape _ _ _ h1
  have hlen : R.leads.length = R.nrows := by simp [leads]
  have hfm : R.leads.filterMap id = cs := by
    rw [e, List.filterMap_append, List.filterMap_replicate_of_none rfl, List.filterMap_map]
    simp
  rw [hfm]
  have hlen2 : cs.length + z = R.nrows := by rw [← hlen, e]; simp
  have hmod : ∀ i, R.row i % 2 ^ R.ncols = R.row i := fun i => Nat.mod_eq_of_lt (hR.2 i)
  -- the lead of row `i`
  have hlead : ∀ i (hi : i < R.nrows), lowBit (R.row i) R.ncols = R.leads[i]'(by rw [hlen]; exact hi) := by
    intro i hi
    simp [leads, hmod]
  have hsome : ∀ i (hi : i < cs.length), lowBit (R.row i) R.ncols = some cs[i] := by
    intro i hi
    rw [hlead i (by omega)]
    simp only [e]
    rw [List.getElem_append_left (by simpa using hi)]
    simp
  have hnone : ∀ i, cs.length ≤ i → i < R.nrows → lowBit (R.row i) R.ncols = none := by
    intro i hi1 hi2
    rw [hlead i hi2]
    simp only [e]
    rw [List.getElem_append_right (by simpa using hi1)]
    simp
  have hclean : ∀ i (hi : i < cs.length) i', i' < R.nrows → i' ≠ i → R.get i' cs[i] = false := by
    intro i hi i' hi' hne
    rw [List.all_eq_true] at h2
    have := h2 i (List.mem_range.mpr (by omega))
    rw [hmod, hsome i hi] at this
    simp only [List.all_eq_true] at this
    have := this i' (List.mem_range.mpr hi')
    simpa [hne] using this
  refine ⟨fun k => cs.getD k 0, by omega, ?_, ?_, ?_, ?_, ?_, ?_⟩
  · intro k hk
    have := (lowBit_some _ _ _ (hsome k hk)).1
    simpa [List.getD, hk] using this
  · intro i j hi1 hi2
    by_cases hj : j < R.ncols
    · exact lowBit_none _ _ (hnone i hi1 hi2) j hj
    · exact get_of_ge_ncols hR i j (by omega)
  · intro i k hi hk
    have e1 : cs.getD k 0 = cs[k] := by simp [List.getD, hk]
    simp only [e1]
    by_cases hik : i = k
    · subst hik
      have := (lowBit_some _ _ _ (hsome i hi)).2.1
      simpa [get] using this
    · rw [hclean k hk i (by omega) hik]; simp [hik]
  · intro i k hik hk
    have e1 : cs.getD k 0 = cs[k] := by simp [List.getD, hk]
    have e2 : cs.getD i 0 = cs[i] := by simp [List.getD, (by omega : i < cs.length)]
    simp only [e1, e2]
    exact (List.pairwise_iff_getElem.mp hpw) i k (by omega) hk hik
  · intro k j hk hj
    have e1 : cs.getD k 0 = cs[k] := by simp [List.getD, hk]
    simp only [e1] at hj
    exact (lowBit_some _ _ _ (hsome k hk)).2.2 j hj
  · apply List.ext_getElem
    · simp
    · intro k h1 h2
      simp [List.getD, h1]

/-- **rank from Gauss–Jordan**: if `R` is row-equivalent to `A` (in both directions) and `R` passes `isRREF`,
    the number of non-zero rows of `R` is the rank of `A`. -/
theorem RankCert_of_isRREF {A R T T' : BMat} (hA : A.WF) (hT : T.WF)
    (hTc : T.ncols = A.nrows) (hTr : T.nrows = A.nrows) (hT'r : T'.nrows = A.nrows)
    (hTA : T.mul A = R) (hT'R : T'.mul R = A) (hrref : R.isRREF = true) :
    RankCert A (R.leads.filterMap id).length := by
  have hR : R.WF := by rw [← hTA]; exact mul_WF T hA
  have hRr : R.nrows = A.nrows := by rw [← hTA]; simpa using hTr
  have hRc : R.ncols = A.ncols := by rw [← hTA]; rfl
  obtain ⟨c, hp, hc, hzero, hpiv, _⟩ := isRREF_structure hR hrref
  exact RankCert_of_echelon c hA hR hT hRr hRc hTc hT'r hTA hT'R (by omega)
    (fun k hk => by rw [← hRc]; exact hc k hk)
    (fun i j h1 h2 => hzero i j h1 (by omega)) hpiv

/-- the three facts about `gaussDelayed M 0 true` on which the rank statements rest (to be supplied by the
    elimination proofs): its result is reached by invertible row operations, it passes `isRREF`, and the
    returned pivot count is the number of non-zero rows of the result -/
def GaussOK (M : BMat) : Prop :=
  RowEquiv M M.rref ∧ M.rref.isRREF = true ∧ M.rank = M.rankProfile.length

/-- under `GaussOK`, the model's `rank` is the rank (in the sense of `RankCert`) -/
theorem RankCert_rank {M : BMat} (hM : M.WF) (h : GaussOK M) : RankCert M M.rank := by
  obtain ⟨⟨T, T', hT, hT', hTr, hTc, hT'r, hT'c, hTM, hTT'⟩, hrref, hcount⟩ := h
  have hT'T := square_inv_comm hT hT' hTc hT'r hT'c hTT'
  have hT'R : T'.mul M.rref = M := by
    rw [← hTM, ← mul_assoc T' hT hM, hT'T]
    exact identity_mul hM
  rw [hcount]
  exact RankCert_of_isRREF hM hT hTc hTr hT'r hTM hT'R hrref

/-- **C03 (rank)**: an accepted PLUQ / PLE certificate carries `r = rank A` (the model's `rank`), given `GaussOK A` -/
theorem checkPLUQ_rank' {A S : BMat} {P Q : Array Nat} {r : Nat} (hA : A.WF)
    (h : checkPLUQ A S P Q r = true) (hg : GaussOK A) : r = A.rank :=
  checkPLUQ_rank hA h (RankCert_rank hA hg)

theorem checkPLE_rank' {A S : BMat} {P Q : Array Nat} {r : Nat} (hA : A.WF)
    (h : checkPLE A S P Q r = true) (hg : GaussOK A) : r = A.rank :=
  checkPLE_rank hA h (RankCert_rank hA hg)

/-- **C06**, with the elimination facts in the form `GaussOK` -/
theorem solvable_spec' {A B : BMat} (hB : B.WF) (hBr : B.nrows = max A.nrows A.ncols)
    (hg1 : GaussOK (padRows A)) (hg2 : GaussOK ((padRows A).concat B)) :
    solvable A B = true ↔
      ∃ X : BMat, X.WF ∧ X.nrows = A.ncols ∧ X.ncols = B.ncols ∧ (padRows A).mul X = B :=
  solvable_spec hB hBr (RankCert_rank (padRows_WF A) hg1) (RankCert_rank (concat_WF _ _) hg2)

/-- non-vacuity of `GaussOK` (and hence of the primed theorems): it holds for the 2×2 identity -/
example : GaussOK (identity 2) := by
  have hr : (identity 2).rref = identity 2 := by decide +kernel
  refine ⟨⟨identity 2, identity 2, identity_WF 2, identity_WF 2, rfl, rfl, rfl, rfl, ?_, ?_⟩, ?_, ?_⟩
  · rw [hr]; exact mul_identity (A := identity 2) (identity_WF 2)
  · exact mul_identity (A := identity 2) (identity_WF 2)
  · decide +kernel
  · decide +kernel

/-! ### 14. C03: the pivot columns of a PLE certificate are the column rank profile -/

theorem exists_first_true (p : Nat) (f : Nat → Bool) (h : ∃ k, k < p ∧ f k = true) :
    ∃ k0, k0 < p ∧ f k0 = true ∧ ∀ k, k < k0 → f k = false := by
  induction p with
  | zero => obtain ⟨k, hk, _⟩ := h; omega
  | succ p ih =>
    by_cases h' : ∃ k, k < p ∧ f k = true
    · obtain ⟨k0, h1, h2, h3⟩ := ih h'
      exact ⟨k0, by omega, h2, h3⟩
    · obtain ⟨k, hk, hf⟩ := h
      have hkp : k = p := by
        by_cases hk' : k < p
        · exact absurd ⟨k, hk', hf⟩ h'
        · omega
      subst hkp
      refine ⟨k, by omega, hf, fun j hj => ?_⟩
      cases hfj : f j with
      | false => rfl
      | true => exact absurd ⟨j, hj, hfj⟩ h'

/-- the leading column of a row of `F·R`, `R` in reduced row echelon form: it is the pivot column of the
    first row of `R` that the row of `F` selects -/
theorem lead_of_mul_rref {F R : BMat} {p : Nat} (c : Nat → Nat) (hFc : F.ncols = R.nrows) (hp : p ≤ R.nrows)
    (hzero : ∀ i j, p ≤ i → i < R.nrows → R.get i j = false)
    (hpiv : ∀ i k, i < p → k < p → R.get i (c k) = decide (i = k))
    (hmono : ∀ i k, i < k → k < p → c i < c k)
    (hbefore : ∀ k j, k < p → j < c k → R.get k j = false)
    (i q : Nat) (hi : i < F.nrows) (hq1 : (F.mul R).get i q = true) (hq2 : ∀ j, j < q → (F.mul R).get i j = false) :
    ∃ k0, k0 < p ∧ q = c k0 := by
  have hdot : ∀ j, (F.mul R).get i j = xsum p (fun k => F.get i k && R.get k j) := by
    intro j
    rw [mul_get _ _ _ _ hi, dotSpec_T, hFc]
    exact xsum_extend hp (fun t h1 h2 => by rw [hzero t j h1 h2]; simp)
  -- some row `k < p` is selected
  have hex : ∃ k, k < p ∧ F.get i k = true := by
    rw [hdot q] at hq1
    obtain ⟨t, ht, hft⟩ := xsum_true_exists hq1
    simp only [Bool.and_eq_true] at hft
    exact ⟨t, ht, hft.1⟩
  obtain ⟨k0, hk0, hf0, hfirst⟩ := exists_first_true p (fun k => F.get i k) hex
  -- the row of `F·R` vanishes left of `c k0` and has a one there
  have hleft : ∀ j, j < c k0 → (F.mul R).get i j = false := by
    intro j hj
    rw [hdot j]
    apply xsum_false
    intro t ht
    by_cases htk : t < k0
    · rw [hfirst t htk]; simp
    · have : c k0 ≤ c t := by
        by_cases e : t = k0
        · subst e; exact Nat.le_refl _
        · exact Nat.le_of_lt (hmono k0 t (by omega) ht)
      rw [hbefore t j ht (by omega)]; simp
  have hat : (F.mul R).get i (c k0) = true := by
    rw [hdot (c k0), xsum_single k0 hk0 (fun t ht hne => by rw [hpiv t k0 ht hk0]; simp [hne])]
    rw [hpiv k0 k0 hk0 hk0, hf0]; simp
  refine ⟨k0, hk0, ?_⟩
  -- two leading positions of the same row coincide
  by_cases h1 : q < c k0
  · rw [hleft q h1] at hq1; cases hq1
  · by_cases h2 : c k0 < q
    · rw [hq2 _ h2] at hat; cases hat
    · omega

/-- **C03, column rank profile**: the pivot columns `Q[0..r)` of an accepted PLE certificate are exactly the
    column rank profile of `A` (pivot columns of its RREF), given `GaussOK A`. -/
theorem IsPLE.profile {A S : BMat} {P Q : Array Nat} {r : Nat} (h : IsPLE A S P Q r) (hA : A.WF)
    (hg : GaussOK A) : (List.range r).map (fun i => Q.getD i 0) = A.rankProfile := by
  have hrk := RankCert_rank hA hg
  obtain ⟨⟨T, T', hT, hT', hTr, hTc, hT'r, hT'c, hTM, hTT'⟩, hrref, hcount⟩ := hg
  have hT'T := square_inv_comm hT hT' hTc hT'r hT'c hTT'
  have hT'R : T'.mul A.rref = A := by
    rw [← hTM, ← mul_assoc T' hT hA, hT'T]; exact identity_mul hA
  have hR : A.rref.WF := by rw [← hTM]; exact mul_WF T hA
  have hRr : A.rref.nrows = A.nrows := by rw [← hTM]; simpa using hTr
  obtain ⟨c, hp, hc, hzero, hpiv, hmono, hbefore, hprof⟩ := isRREF_structure hR hrref
  -- `r` is the number of pivots of the RREF
  have hrp : r = (A.rref.leads.filterMap id).length := by
    have := RankCert_unique (h.rankCert hA) hrk
    rw [this, hcount]; rfl
  -- `E = F·R`
  obtain ⟨pσ, hget, hWF, hmat⟩ := applyPLeft_eq_perm hA h.P_size (fun i hi => (h.P_lapack i hi).2)
  have hQ : ∀ i, i < r → Q.getD i 0 < S.ncols := fun i hi => by rw [h.ncols_eq]; exact (h.pivot_range i hi).2
  obtain ⟨Lp, hLp, dLp1, dLp2, hLL⟩ := lowerFactor_leftInv S r (by rw [h.nrows_eq]; exact h.r_le_nrows)
  have hE := echelonFactor_WF S Q r hQ
  have sh := applyPLeft_shape A P
  have hfac : (permMat A.nrows (rowPerm P A.nrows)).mul A = (lowerFactor S r).mul (echelonFactor S Q r) := by
    rw [← hmat]
    apply ext_get hWF (mul_WF _ hE) (by simp [sh.1, h.nrows_eq]) (by simp [sh.2.1, h.ncols_eq])
    intro i j hi hj
    rw [sh.1] at hi; rw [sh.2.1] at hj
    rw [h.prod i j hi hj, mul_get _ _ _ _ (by simpa [h.nrows_eq] using hi)]
  obtain ⟨F, hFdef⟩ : ∃ F : BMat, F = Lp.mul ((permMat A.nrows (rowPerm P A.nrows)).mul T') := ⟨_, rfl⟩
  have hFr : F.nrows = r := by rw [hFdef]; simpa using dLp1
  have hFc : F.ncols = A.rref.nrows := by rw [hFdef, hRr]; simpa using hT'c
  have hFR : F.mul A.rref = echelonFactor S Q r := by
    rw [hFdef, mul_assoc Lp (mul_WF _ hT') hR, mul_assoc _ hT' hR, hT'R, hfac,
      ← mul_assoc Lp (lowerFactor_WF S r) hE, hLL]
    have := identity_mul hE
    simpa using this
  -- every pivot column of `E` is a pivot column of the RREF
  have hsub : ∀ i, i < r → ∃ k, k < (A.rref.leads.filterMap id).length ∧ Q.getD i 0 = c k := by
    intro i hi
    refine lead_of_mul_rref (F := F) (R := A.rref) c hFc hp hzero hpiv hmono hbefore i (Q.getD i 0)
      (by omega) ?_ ?_
    · rw [hFR, echelonFactor_get]; simp [hi]
    · intro j hj
      rw [hFR, echelonFactor_get]
      generalize Q.getD i 0 = q at hj ⊢
      have h1 : ¬ q < j := by omega
      have h2 : ¬ j = q := by omega
      simp [h1, h2]
  choose! σ hσ1 hσ2 using hsub
  have hσmono : ∀ i j, i < j → j < r → σ i < σ j := by
    intro i j hij hj
    have hlt := h.pivot_mono i j hij hj
    rw [hσ2 i (by omega), hσ2 j hj] at hlt
    by_cases hs : σ i < σ j
    · exact hs
    · by_cases he : σ i = σ j
      · rw [he] at hlt; omega
      · have := hmono (σ j) (σ i) (by omega) (hσ1 i (by omega))
        omega
  have hσid : ∀ i, i < r → σ i = i :=
    strictMono_fin_id r σ (fun i hi => by rw [hrp]; exact hσ1 i hi) hσmono
  show _ = A.rref.leads.filterMap id
  rw [hprof, ← hrp]
  apply List.map_congr_left
  intro i hi
  have hi' := List.mem_range.mp hi
  rw [hσ2 i hi', hσid i hi']

/-- **C03 (PLE)**, all claims together, from the Boolean check -/
theorem checkPLE_profile {A S : BMat} {P Q : Array Nat} {r : Nat} (hA : A.WF)
    (h : checkPLE A S P Q r = true) (hg : GaussOK A) :
    r = A.rank ∧ (List.range r).map (fun i => Q.getD i 0) = A.rankProfile :=
  ⟨checkPLE_rank' hA h hg, (checkPLE_sound h).profile hA hg⟩

end BMat
end M4ri
