/-
  Tie between the mechanically generated memory-model functions of `M4ri/Gen/CFuns.lean`
  (mzd.h / mzd.c accessors, row kernels and observers, translated from the clang AST) and the
  hand-written word-level model `M4ri/Mzd.lean`.

  Abstraction: `memOf M` is the 2-dimensional word memory (row index, word index) of a model matrix.

  Main theorems (generated function on `memOf M` = model function):
    readers    `mzdReadBits_eq`, `mzdReadBit_eq`                                   (no hypotheses needed)
    writers    `mzdXorBits_eq`, `mzdAndBits_eq`, `mzdClearBits_eq`, `mzdWriteBit_eq`  (WF, indices in range)
    row kernels `mzdRowSwap_eq`, `mzdRowClearOffset_eq`, `mzdCopyRow_eq`, `mzdRowAddOffset_eq`
    observers  `mzdIsZero_eq`, `mzdEqual_eq`, `mzdEqual_eq_same`, `mzdCmp_eq`, `mzdFirstZeroRow_eq`  (`1 ≤ ncols`)
  Loop rules: `scan_loop` (early-exit scanning loop = `List.findSome?`), `for_loop` (counting loop invariant),
  and their equational forms `scan_loop_eq`, `for_loop_eq`.
-/
import M4ri.Gen.CFuns
import M4ri.Mzd
import M4riProofs.Basic
import M4riProofs.W.RowCol
namespace M4ri.GenTieMem
open M4ri M4ri.Gen

/-- memory image of a model matrix -/
def memOf (M : Mzd) : Int → Int → BitVec 64 :=
  fun r i => if r < 0 ∨ i < 0 then 0 else (M.row r.toNat).w i.toNat

/-! ### generic lemmas: memory image -/

theorem memOf_nat (M : Mzd) (x k : Nat) : memOf M (x : Int) (k : Int) = (M.row x).w k := by
  unfold memOf
  have h : ¬ ((x : Int) < 0 ∨ (k : Int) < 0) := by omega
  simp [h]

theorem memOf_nat' (M : Mzd) (x k : Nat) (z : Int) (h : z = (k : Int)) :
    memOf M (x : Int) z = (M.row x).w k := by
  subst h; exact memOf_nat M x k

theorem memOf_neg (M : Mzd) (r z : Int) (h : z < 0) : memOf M r z = 0 := by
  unfold memOf; simp [h]

theorem memOf_setRow (M : Mzd) (x : Nat) (r : Row) (hx : x < M.rows.size) (r' i' : Int) :
    memOf (M.setRow x r) r' i' =
      if r' = (x : Int) then (if i' < 0 then 0 else r.w i'.toNat) else memOf M r' i' := by
  unfold memOf
  by_cases h1 : r' < 0
  · have : ¬ r' = (x : Int) := by omega
    simp [h1, this]
  by_cases h2 : i' < 0
  · simp [h2]
  · rw [Mzd.row_setRow _ _ _ _ hx]
    by_cases h3 : r' = (x : Int)
    · subst h3; simp [h1, h2]
    · have : ¬ x = r'.toNat := by omega
      simp [h1, h2, h3, this]

/-- pointwise characterisation of `memOf (M.setRow x r)` against a memory `m` -/
theorem eq_memOf_setRow (M : Mzd) (x : Nat) (r : Row) (hx : x < M.rows.size)
    (m : Int → Int → BitVec 64)
    (hrow : ∀ k : Nat, m (x : Int) (k : Int) = r.w k)
    (hneg : ∀ z : Int, z < 0 → m (x : Int) z = 0)
    (hoth : ∀ r' i' : Int, r' ≠ (x : Int) → m r' i' = memOf M r' i') :
    m = memOf (M.setRow x r) := by
  funext r' i'
  rw [memOf_setRow _ _ _ hx]
  by_cases h : r' = (x : Int)
  · subst h
    by_cases h2 : i' < 0
    · simp [h2, hneg _ h2]
    · have : i' = ((i'.toNat : Nat) : Int) := by omega
      rw [if_pos rfl, if_neg h2]
      conv => lhs; rw [this]
      exact hrow _
  · rw [if_neg h]; exact hoth _ _ h

/-! ### generic lemmas: `Int.tdiv`, `Int.tmod` on naturals -/

theorem tdiv_nat (y : Nat) : Int.tdiv (y : Int) 64 = ((y / 64 : Nat) : Int) := by
  rw [Int.tdiv_eq_ediv_of_nonneg (by omega)]; omega

theorem tmod_nat (y : Nat) : Int.tmod (y : Int) 64 = ((y % 64 : Nat) : Int) := by
  rw [Int.tmod_eq_emod_of_nonneg (by omega)]; omega

/-! ### generic lemmas: `CLoop.loop` -/

theorem loop_zero {σ : Type} (cond : σ → Bool) (body : σ → σ) (s : σ) :
    CLoop.loop 0 cond body s = s := rfl

theorem loop_succ {σ : Type} (n : Nat) (cond : σ → Bool) (body : σ → σ) (s : σ) :
    CLoop.loop (n + 1) cond body s = if cond s then CLoop.loop n cond body (body s) else s := rfl

theorem loop_of_false {σ : Type} (fuel : Nat) (cond : σ → Bool) (body : σ → σ) (s : σ)
    (h : cond s = false) : CLoop.loop fuel cond body s = s := by
  cases fuel with
  | zero => rfl
  | succ n => rw [loop_succ, h]; simp

/-- The scanning-loop rule.  `P k s` says "`s` is the state at the head of iteration `k`, no early
    return so far"; `g k` is the value returned early by iteration `k`, if any.  With enough fuel the
    loop returns the first `some` of `g` over `0..n-1` in `ret`, or ends in a state satisfying `P n`. -/
theorem scan_loop_aux {σ α : Type} (cond : σ → Bool) (body : σ → σ) (ret : σ → Option α) (n : Nat)
    (g : Nat → Option α) (P : Nat → σ → Prop)
    (hcond : ∀ k s, k ≤ n → P k s → cond s = decide (k < n))
    (hret : ∀ s v, ret s = some v → cond s = false)
    (hsome : ∀ k s v, k < n → P k s → g k = some v → ret (body s) = some v)
    (hnone : ∀ k s, k < n → P k s → g k = none → P (k + 1) (body s)) :
    ∀ (fuel k : Nat) (s : σ), k ≤ n → P k s → n - k ≤ fuel →
      (∀ v, (List.range' k (n - k)).findSome? g = some v → ret (CLoop.loop fuel cond body s) = some v) ∧
      ((List.range' k (n - k)).findSome? g = none → P n (CLoop.loop fuel cond body s)) := by
  intro fuel
  induction fuel with
  | zero =>
    intro k s hk hP hf
    have : n - k = 0 := by omega
    have hkn : k = n := by omega
    subst hkn
    simp [this, loop_zero, hP]
  | succ f ih =>
    intro k s hk hP hf
    by_cases hkn : k < n
    · have hc : cond s = true := by rw [hcond k s hk hP]; simp [hkn]
      rw [loop_succ, hc]
      simp only [if_true]
      have hnk : n - k = (n - (k + 1)) + 1 := by omega
      rw [hnk, List.range'_succ, List.findSome?_cons]
      cases hg : g k with
      | some v =>
        have hr := hsome k s v hkn hP hg
        have hstop := loop_of_false f cond body (body s) (hret _ _ hr)
        rw [hstop]
        refine ⟨?_, ?_⟩
        · intro v' hv'; cases hv'; exact hr
        · intro hh; cases hh
      | none =>
        have hP' := hnone k s hkn hP hg
        exact ih (k + 1) (body s) (by omega) hP' (by omega)
    · have hkn' : k = n := by omega
      subst hkn'
      have hc : cond s = false := by rw [hcond k s hk hP]; simp
      rw [loop_of_false _ _ _ _ hc]
      simp [hP]

theorem scan_loop {σ α : Type} (cond : σ → Bool) (body : σ → σ) (ret : σ → Option α) (n : Nat)
    (g : Nat → Option α) (P : Nat → σ → Prop)
    (hcond : ∀ k s, k ≤ n → P k s → cond s = decide (k < n))
    (hret : ∀ s v, ret s = some v → cond s = false)
    (hsome : ∀ k s v, k < n → P k s → g k = some v → ret (body s) = some v)
    (hnone : ∀ k s, k < n → P k s → g k = none → P (k + 1) (body s))
    (fuel : Nat) (s : σ) (h0 : P 0 s) (hf : n ≤ fuel) :
    (∀ v, (List.range n).findSome? g = some v → ret (CLoop.loop fuel cond body s) = some v) ∧
    ((List.range n).findSome? g = none → P n (CLoop.loop fuel cond body s)) := by
  have := scan_loop_aux cond body ret n g P hcond hret hsome hnone fuel 0 s (by omega) h0 (by omega)
  rw [List.range_eq_range']
  simpa using this

/-- The counting-loop rule (no early exit). -/
theorem for_loop {σ : Type} (cond : σ → Bool) (body : σ → σ) (n : Nat) (P : Nat → σ → Prop)
    (hcond : ∀ k s, k ≤ n → P k s → cond s = decide (k < n))
    (hbody : ∀ k s, k < n → P k s → P (k + 1) (body s))
    (fuel : Nat) (s : σ) (h0 : P 0 s) (hf : n ≤ fuel) :
    P n (CLoop.loop fuel cond body s) := by
  have h := scan_loop (α := Unit) cond body (fun _ => none) n (fun _ => none) P hcond
    (by intro s v h; cases h) (by intro k s v _ _ h; cases h) (by intro k s hk hP _; exact hbody k s hk hP)
    fuel s h0 hf
  exact h.2 (by simp)


/-! ### 1-2. readers -/

theorem mzdReadBits_eq' (M : Mzd) (x y n : Nat) :
    Gen.C.mzdReadBits x y n (memOf M) = M.readBits x y n := by
  unfold Gen.C.mzdReadBits Mzd.readBits Mzd.readBitsRow
  simp only [tdiv_nat, tmod_nat, Int.zero_add]
  rw [memOf_nat, memOf_nat' M x (y / 64 + 1) _ (by omega)]
  have e1 : ((64 : Int) - (n : Int)).toNat = 64 - n := by omega
  rw [e1]
  by_cases h : y % 64 + n ≤ 64
  · have hd : (((y % 64 : Nat) : Int) + (n : Int) - 64 ≤ 0) := by omega
    have e2 : (-(((y % 64 : Nat) : Int) + (n : Int) - 64)).toNat = 64 - (y % 64 + n) := by omega
    simp only [hd, h, decide_true, if_true, e2]
  · have hd : ¬ (((y % 64 : Nat) : Int) + (n : Int) - 64 ≤ 0) := by omega
    have e2 : ((64 : Int) - (((y % 64 : Nat) : Int) + (n : Int) - 64)).toNat = 64 - (y % 64 + n - 64) := by omega
    have e3 : (((y % 64 : Nat) : Int) + (n : Int) - 64).toNat = y % 64 + n - 64 := by omega
    simp only [hd, h, decide_false, if_false, e2, e3]
    rfl

/-- `mzd_read_bits` (no in-range hypothesis is needed: both sides read 0 outside the matrix) -/
theorem mzdReadBits_eq (M : Mzd) (x y n : Nat) (_hn : 1 ≤ n) (_hn' : n ≤ 64) :
    Gen.C.mzdReadBits x y n (memOf M) = M.readBits x y n := mzdReadBits_eq' M x y n

theorem toInt_bit (w : BitVec 64) (k : Nat) :
    BitVec.toInt (BitVec.setWidth 32 ((w >>> k) &&& (1#64))) = if w.getLsbD k then 1 else 0 := by
  have h : BitVec.setWidth 32 ((w >>> k) &&& (1#64)) = if w.getLsbD k then 1#32 else 0#32 := by
    apply BitVec.eq_of_getLsbD_eq
    intro i hi
    by_cases hi0 : i = 0
    · subst hi0
      cases hb : w.getLsbD k <;> simp [hb]
    · cases hb : w.getLsbD k <;> simp [hi0] <;> omega
  rw [h]
  cases w.getLsbD k <;> rfl

/-- `mzd_read_bit` -/
theorem mzdReadBit_eq (M : Mzd) (r c : Nat) :
    Gen.C.mzdReadBit r c (memOf M) = if M.readBit r c then 1 else 0 := by
  unfold Gen.C.mzdReadBit Mzd.readBit Mzd.bit
  simp only [tdiv_nat, tmod_nat, Int.zero_add, Int.toNat_natCast]
  rw [memOf_nat, toInt_bit]


/-! ### 3. writers -/

theorem upd2_apply (m : Int → Int → BitVec 64) (r i : Int) (v : BitVec 64) (r' i' : Int) :
    CLoop.upd2 m r i v r' i' = if r' = r ∧ i' = i then v else m r' i' := rfl

/-- one word of row `x` rewritten through `f0` -/
theorem write1 (M : Mzd) (x b : Nat) (f0 : Word → Word) (hwf : M.WF) (hx : x < M.nrows)
    (hb0 : b < M.width) :
    CLoop.upd2 (memOf M) x b (f0 (memOf M x b)) = memOf (M.setRow x ((M.row x).modify b f0)) := by
  have hsz : (M.row x).size = M.width := hwf.2 x hx
  apply eq_memOf_setRow _ _ _ (by rw [hwf.1]; exact hx)
  · intro k
    rw [upd2_apply, Row.w_modify', memOf_nat, memOf_nat, hsz]
    by_cases h1 : k = b
    · subst h1; simp [hb0]
    · have h2 : ¬ b = k := fun e => h1 e.symm
      have h3 : ¬ (k : Int) = (b : Int) := by omega
      simp [h2, h3]
  · intro z hz
    have h1 : ¬ z = (b : Int) := by omega
    rw [upd2_apply, memOf_neg _ _ _ hz]; simp [h1]
  · intro r' i' hr
    rw [upd2_apply]; simp [hr]

/-- two consecutive words of row `x` rewritten through `f0`, `f1` -/
theorem write2 (M : Mzd) (x b : Nat) (f0 f1 : Word → Word) (hwf : M.WF) (hx : x < M.nrows)
    (hb1 : b + 1 < M.width) :
    CLoop.upd2 (CLoop.upd2 (memOf M) x b (f0 (memOf M x b))) x ((b : Int) + 1)
        (f1 (CLoop.upd2 (memOf M) x b (f0 (memOf M x b)) x ((b : Int) + 1)))
      = memOf (M.setRow x (((M.row x).modify b f0).modify (b + 1) f1)) := by
  have hsz : (M.row x).size = M.width := hwf.2 x hx
  have hne : ¬ ((b : Int) + 1 = (b : Int)) := by omega
  apply eq_memOf_setRow _ _ _ (by rw [hwf.1]; exact hx)
  · intro k
    simp only [upd2_apply, Row.w_modify', memOf_nat, Array.size_modify, hsz, hne, and_false, if_false]
    rw [memOf_nat' M x (b + 1) _ (by omega)]
    by_cases h1 : k = b
    · subst h1
      have h2 : ¬ ((k : Int) = (k : Int) + 1) := by omega
      have h3 : ¬ (k + 1 = k) := by omega
      have h4 : k < M.width := by omega
      simp [h2, h4]
    · by_cases h2 : k = b + 1
      · subst h2
        have h3 : ¬ (b = b + 1) := by omega
        have h4 : ((b + 1 : Nat) : Int) = (b : Int) + 1 := by omega
        simp [h4, hb1]
      · have h3 : ¬ (k : Int) = (b : Int) + 1 := by omega
        have h4 : ¬ (k : Int) = (b : Int) := by omega
        have h5 : ¬ b + 1 = k := by omega
        have h6 : ¬ b = k := by omega
        simp [h3, h4, h5, h6]
  · intro z hz
    have h1 : ¬ z = (b : Int) := by omega
    have h2 : ¬ z = (b : Int) + 1 := by omega
    simp [upd2_apply, h1, h2, memOf_neg _ _ _ hz]
  · intro r' i' hr
    simp [upd2_apply, hr]

/-- `mzd_xor_bits` -/
theorem mzdXorBits_eq (M : Mzd) (x y n : Nat) (v : BitVec 64) (hwf : M.WF) (hx : x < M.nrows)
    (hn : 1 ≤ n) (hy : y + n ≤ 64 * M.width) :
    Gen.C.mzdXorBits x y n v (memOf M) = memOf (M.xorBits x y n v) := by
  unfold Gen.C.mzdXorBits Mzd.xorBits Mzd.xorBitsRow
  simp only [tdiv_nat, tmod_nat, Int.zero_add, Int.toNat_natCast]
  have e1 : ((64 : Int) - ((y % 64 : Nat) : Int)).toNat = 64 - y % 64 := by omega
  rw [e1]
  by_cases hc : n > 64 - y % 64
  · have hd : ((n : Int) > 64 - ((y % 64 : Nat) : Int)) := by omega
    simp only [hc, hd, decide_true, if_true]
    exact write2 M x (y / 64) (fun w => w ^^^ (v <<< (y % 64))) (fun w => w ^^^ (v >>> (64 - y % 64)))
      hwf hx (by omega)
  · have hd : ¬ ((n : Int) > 64 - ((y % 64 : Nat) : Int)) := by omega
    simp only [hc, hd, decide_false, Bool.false_eq_true, if_false]
    exact write1 M x (y / 64) (fun w => w ^^^ (v <<< (y % 64))) hwf hx (by omega)

/-- `mzd_and_bits` -/
theorem mzdAndBits_eq (M : Mzd) (x y n : Nat) (v : BitVec 64) (hwf : M.WF) (hx : x < M.nrows)
    (hn : 1 ≤ n) (hy : y + n ≤ 64 * M.width) :
    Gen.C.mzdAndBits x y n v (memOf M) = memOf (M.andBits x y n v) := by
  unfold Gen.C.mzdAndBits Mzd.andBits Mzd.andBitsRow
  simp only [tdiv_nat, tmod_nat, Int.zero_add, Int.toNat_natCast]
  have e1 : ((64 : Int) - ((y % 64 : Nat) : Int)).toNat = 64 - y % 64 := by omega
  have e2 : ((64 : Int) - (n : Int)).toNat = 64 - n := by omega
  rw [e1, e2]
  by_cases hc : n > 64 - y % 64
  · have hd : ((n : Int) > 64 - ((y % 64 : Nat) : Int)) := by omega
    simp only [hc, hd, decide_true, if_true]
    exact write2 M x (y / 64)
      (fun w => w &&& ((v >>> (64 - n) <<< (y % 64)) ||| ~~~(ffff >>> (64 - n) <<< (y % 64))))
      (fun w => w &&& ((v >>> (64 - n) >>> (64 - y % 64)) ||| ~~~(ffff >>> (64 - n) >>> (64 - y % 64))))
      hwf hx (by omega)
  · have hd : ¬ ((n : Int) > 64 - ((y % 64 : Nat) : Int)) := by omega
    simp only [hc, hd, decide_false, Bool.false_eq_true, if_false]
    exact write1 M x (y / 64)
      (fun w => w &&& ((v >>> (64 - n) <<< (y % 64)) ||| ~~~(ffff >>> (64 - n) <<< (y % 64)))) hwf hx (by omega)

/-- `mzd_clear_bits` -/
theorem mzdClearBits_eq (M : Mzd) (x y n : Nat) (hwf : M.WF) (hx : x < M.nrows)
    (hn : 1 ≤ n) (hy : y + n ≤ 64 * M.width) :
    Gen.C.mzdClearBits x y n (memOf M) = memOf (M.clearBits x y n) := by
  unfold Gen.C.mzdClearBits Mzd.clearBits Mzd.clearBitsRow
  simp only [tdiv_nat, tmod_nat, Int.zero_add, Int.toNat_natCast]
  have e1 : ((64 : Int) - ((y % 64 : Nat) : Int)).toNat = 64 - y % 64 := by omega
  have e2 : ((64 : Int) - (n : Int)).toNat = 64 - n := by omega
  rw [e1, e2]
  by_cases hc : n > 64 - y % 64
  · have hd : ((n : Int) > 64 - ((y % 64 : Nat) : Int)) := by omega
    simp only [hc, hd, decide_true, if_true]
    exact write2 M x (y / 64)
      (fun w => w &&& ~~~(ffff >>> (64 - n) <<< (y % 64)))
      (fun w => w &&& ~~~(ffff >>> (64 - n) >>> (64 - y % 64))) hwf hx (by omega)
  · have hd : ¬ ((n : Int) > 64 - ((y % 64 : Nat) : Int)) := by omega
    simp only [hc, hd, decide_false, Bool.false_eq_true, if_false]
    exact write1 M x (y / 64) (fun w => w &&& ~~~(ffff >>> (64 - n) <<< (y % 64))) hwf hx (by omega)

/-- `mzd_write_bit` -/
theorem mzdWriteBit_eq (M : Mzd) (r c : Nat) (b : Bool) (hwf : M.WF) (hr : r < M.nrows)
    (hc : c < 64 * M.width) :
    Gen.C.mzdWriteBit r c (if b then 1 else 0) (memOf M) = memOf (M.writeBit r c b) := by
  unfold Gen.C.mzdWriteBit Mzd.writeBit Mzd.writeBitRow
  simp only [tdiv_nat, tmod_nat, Int.zero_add, Int.toNat_natCast]
  have e : BitVec.ofInt 64 (if b then 1 else 0) = if b then 1#64 else 0#64 := by
    cases b <;> rfl
  rw [e]
  exact write1 M r (c / 64)
    (fun w => (w &&& ~~~((1#64) <<< (c % 64))) ||| ((if b then 1#64 else 0#64) <<< (c % 64))) hwf hr (by omega)


/-! ### loop rules in equational form (the loop term is picked up from a `generalize` hypothesis) -/

theorem scan_loop_eq {σ α : Type} {cond : σ → Bool} {body : σ → σ} {fuel : Nat} {s res : σ}
    (hres : CLoop.loop fuel cond body s = res)
    (ret : σ → Option α) (n : Nat) (g : Nat → Option α) (P : Nat → σ → Prop)
    (hf : n ≤ fuel) (h0 : P 0 s)
    (hcond : ∀ k s, k ≤ n → P k s → cond s = decide (k < n))
    (hret : ∀ s v, ret s = some v → cond s = false)
    (hsome : ∀ k s v, k < n → P k s → g k = some v → ret (body s) = some v)
    (hnone : ∀ k s, k < n → P k s → g k = none → P (k + 1) (body s)) :
    (∀ v, (List.range n).findSome? g = some v → ret res = some v) ∧
    ((List.range n).findSome? g = none → P n res) := by
  subst hres
  exact scan_loop cond body ret n g P hcond hret hsome hnone fuel s h0 hf

theorem for_loop_eq {σ : Type} {cond : σ → Bool} {body : σ → σ} {fuel : Nat} {s res : σ}
    (hres : CLoop.loop fuel cond body s = res)
    (n : Nat) (P : Nat → σ → Prop) (hf : n ≤ fuel) (h0 : P 0 s)
    (hcond : ∀ k s, k ≤ n → P k s → cond s = decide (k < n))
    (hbody : ∀ k s, k < n → P k s → P (k + 1) (body s)) :
    P n res := by
  subst hres
  exact for_loop cond body n P hcond hbody fuel s h0 hf

theorem findSome_all {α : Type} (l : List Nat) (rz : Nat → Bool) (c : α) :
    l.findSome? (fun k => if rz k then none else some c) = if l.all rz then none else some c := by
  induction l with
  | nil => rfl
  | cons a t ih =>
    rw [List.findSome?_cons, List.all_cons]
    cases h : rz a <;> simp [ih]

/-! ### 6. observers -/

/-- the row test shared by `mzd_is_zero` and `mzd_first_zero_row` -/
def rowZero (A : Mzd) (i : Nat) : Bool :=
  (List.range (A.width - 1)).all (fun j => (A.row i).w j == 0) &&
    (((A.row i).w (A.width - 1)) &&& A.hb) == 0

theorem or_eq_zero' (a b : BitVec 64) : a ||| b = 0 ↔ a = 0 ∧ b = 0 := BitVec.or_eq_zero_iff

/-- the inner OR-accumulation loop of `mzd_is_zero` / `mzd_first_zero_row` -/
theorem orLoop_spec (A : Mzd) (i : Nat) {cond : BitVec 64 × Int → Bool} {body : BitVec 64 × Int → BitVec 64 × Int}
    {fuel : Nat} {res : BitVec 64 × Int}
    (hres : CLoop.loop fuel cond body (0#64, 0) = res) (hf : A.width - 1 ≤ fuel)
    (hcond : ∀ st, cond st = decide (st.2 < (A.width : Int) - 1))
    (hbody : ∀ st, body st = (st.1 ||| memOf A i (0 + st.2), st.2 + 1)) (h1 : 1 ≤ A.width) :
    res.2 = ((A.width - 1 : Nat) : Int) ∧
      (res.1 = 0 ↔ (List.range (A.width - 1)).all (fun j => (A.row i).w j == 0) = true) := by
  have := for_loop_eq hres (A.width - 1)
    (fun k st => st.2 = (k : Int) ∧ (st.1 = 0 ↔ (List.range k).all (fun j => (A.row i).w j == 0) = true))
    hf (by simp) ?_ ?_
  · exact this
  · intro k st hk hP
    rw [hcond, hP.1]
    congr 1
    apply propext
    omega
  · intro k st hk hP
    rw [hbody]
    refine ⟨by simp only [hP.1]; omega, ?_⟩
    simp only [hP.1, Int.zero_add, memOf_nat, List.range_succ, List.all_append, List.all_cons, List.all_nil,
      Bool.and_true, Bool.and_eq_true, beq_iff_eq, or_eq_zero']
    rw [hP.2]


theorem isZero_eq_all (A : Mzd) : A.isZero = (List.range A.nrows).all (rowZero A) := rfl

theorem and_eq_zero_iff_beq (a : BitVec 64) : (a == 0) = true ↔ a = 0#64 := by simp

/-- one row of `mzd_is_zero` / `mzd_first_zero_row`: accumulated status is nonzero iff the row is -/
theorem rowStatus (A : Mzd) (k : Nat) (h1 : 1 ≤ A.width) (res2 : BitVec 64 × Int)
    {cond : BitVec 64 × Int → Bool} {body : BitVec 64 × Int → BitVec 64 × Int} {fuel : Nat}
    (hres : CLoop.loop fuel cond body (0#64, 0) = res2) (hf : A.width - 1 ≤ fuel)
    (hcond : ∀ st, cond st = decide (st.2 < (A.width : Int) - 1))
    (hbody : ∀ st, body st = (st.1 ||| memOf A k (0 + st.2), st.2 + 1)) (m : BitVec 64) (hm : m = A.hb) :
    (res2.1 ||| memOf A k (0 + ((A.width : Int) - 1)) &&& m = 0#64) ↔ rowZero A k = true := by
  have h := orLoop_spec A k hres hf hcond hbody h1
  subst hm
  rw [memOf_nat' A k (A.width - 1) _ (by omega)]
  unfold rowZero
  rw [Bool.and_eq_true, ← h.2]
  show _ ||| _ = (0 : BitVec 64) ↔ _
  rw [or_eq_zero']
  simp

theorem mzdIsZero_eq (A : Mzd) (h1 : 1 ≤ A.ncols) :
    Gen.C.mzdIsZero A.hb A.nrows (memOf A) A.width = if A.isZero then 1 else 0 := by
  have hw : 1 ≤ A.width := by unfold Mzd.width widthOf; omega
  unfold Gen.C.mzdIsZero
  dsimp only
  generalize hres : CLoop.loop _ _ _ _ = res
  have key := scan_loop_eq hres (fun st => st.2.2) A.nrows
    (fun k => if rowZero A k then none else some (0 : Int))
    (fun k st => st = (0#64, (k : Int), none)) (by simp) rfl ?_ ?_ ?_ ?_
  · rw [findSome_all, ← isZero_eq_all] at key
    obtain ⟨k1, k2⟩ := key
    cases hz : A.isZero
    · have := k1 0 (by simp [hz])
      obtain ⟨a, b, c⟩ := res
      simp at this
      subst this
      simp
    · have := k2 (by simp [hz])
      subst this
      simp
  · intro k st hk hP
    subst hP
    simp
  · intro st v hv
    obtain ⟨a, b, c⟩ := st
    simp at hv
    subst hv
    simp
  · intro k st v hk hP hg
    subst hP
    clear hres
    dsimp only
    generalize hres2 : CLoop.loop _ _ _ _ = res2
    have hrow := rowStatus A k hw res2 hres2 (by simp) (fun _ => rfl) (fun _ => rfl) _ rfl
    by_cases hz : rowZero A k = true
    · simp [hz] at hg
    · simp [hz] at hg
      subst hg
      have : (res2.1 ||| memOf A k (0 + ((A.width : Int) - 1)) &&& A.hb ≠ 0#64) := fun e => hz (hrow.1 e)
      rw [if_pos (decide_eq_true this)]
  · intro k st hk hP hg
    subst hP
    clear hres
    dsimp only
    generalize hres2 : CLoop.loop _ _ _ _ = res2
    have hrow := rowStatus A k hw res2 hres2 (by simp) (fun _ => rfl) (fun _ => rfl) _ rfl
    by_cases hz : rowZero A k = true
    · have := hrow.2 hz
      rw [if_neg (by rw [decide_eq_true_eq]; exact fun h => h this), this]
      simp
    · simp [hz] at hg


/-- the generated spelling of `__M4RI_LEFT_BITMASK(ncols % m4ri_radix)` is the model's `hb` -/
theorem leftmask_gen (n : Nat) :
    (BitVec.allOnes 64) >>> ((Int.tmod ((64 : Int) - (Int.tmod (n : Int) (64 : Int))) (64 : Int))).toNat
      = leftMask (n % 64) := by
  unfold leftMask ffff
  rw [tmod_nat, Int.tmod_eq_emod_of_nonneg (by omega)]
  congr 1
  omega

theorem findSome_map_find {α : Type} (l : List Nat) (f : Nat → Nat) (p : Nat → Bool) (c : Nat → α) :
    l.findSome? (fun k => if p (f k) then some (c (f k)) else none) = ((l.map f).find? p).map c := by
  induction l with
  | nil => rfl
  | cons a t ih =>
    rw [List.findSome?_cons, List.map_cons, List.find?_cons]
    cases h : p (f a) <;> simp [ih]

theorem reverse_range (n : Nat) : (List.range n).reverse = (List.range n).map (fun k => n - 1 - k) := by
  have h := List.reverse_range' (s := 0) (n := n)
  rw [← List.range_eq_range'] at h
  simpa using h

theorem nz_eq_not_rowZero (A : Mzd) (i : Nat) :
    ((List.range (A.width - 1)).any (fun j => (A.row i).w j != 0) ||
      (((A.row i).w (A.width - 1)) &&& A.hb) != 0) = !(rowZero A i) := by
  unfold rowZero
  rw [Bool.not_and, List.not_all_eq_any_not]
  rfl

theorem mzdFirstZeroRow_eq (A : Mzd) (h1 : 1 ≤ A.ncols) :
    Gen.C.mzdFirstZeroRow A.ncols A.width A.nrows (memOf A) = (A.firstZeroRow : Int) := by
  have hw : 1 ≤ A.width := by unfold Mzd.width widthOf; omega
  unfold Gen.C.mzdFirstZeroRow
  dsimp only
  generalize hres : CLoop.loop _ _ _ _ = res
  have key := scan_loop_eq hres (fun st => st.2) A.nrows
    (fun k => if !(rowZero A (A.nrows - 1 - k)) then some (((A.nrows - 1 - k : Nat) : Int) + 1) else none)
    (fun k st => st = ((A.nrows : Int) - 1 - (k : Int), none)) (by simp) (by simp) ?_ ?_ ?_ ?_
  · rw [findSome_map_find (List.range A.nrows) (fun k => A.nrows - 1 - k) (fun i => !(rowZero A i))
      (fun i => ((i : Nat) : Int) + 1), ← reverse_range] at key
    unfold Mzd.firstZeroRow
    simp only [nz_eq_not_rowZero]
    obtain ⟨k1, k2⟩ := key
    cases hf : (List.range A.nrows).reverse.find? (fun i => !(rowZero A i)) with
    | none =>
      have := k2 (by simp [hf])
      subst this
      simp
    | some i =>
      have := k1 _ (by simp [hf]; rfl)
      obtain ⟨a, b⟩ := res
      simp at this
      subst this
      simp
  · intro k st hk hP
    subst hP
    simp
    omega
  · intro st v hv
    obtain ⟨a, b⟩ := st
    simp at hv
    subst hv
    simp
  · intro k st v hk hP hg
    subst hP
    clear hres
    dsimp only
    generalize hres2 : CLoop.loop _ _ _ _ = res2
    have e : (A.nrows : Int) - 1 - (k : Int) = ((A.nrows - 1 - k : Nat) : Int) := by omega
    rw [e] at hres2 ⊢
    have hrow := rowStatus A (A.nrows - 1 - k) hw res2 hres2 (by simp) (fun _ => rfl) (fun _ => rfl) _
      (leftmask_gen A.ncols)
    by_cases hz : rowZero A (A.nrows - 1 - k) = true
    · simp [hz] at hg
    · simp [hz] at hg
      subst hg
      rw [if_pos]
      exact decide_eq_true (mt hrow.1 hz)
  · intro k st hk hP hg
    subst hP
    clear hres
    dsimp only
    generalize hres2 : CLoop.loop _ _ _ _ = res2
    have e : (A.nrows : Int) - 1 - (k : Int) = ((A.nrows - 1 - k : Nat) : Int) := by omega
    rw [e] at hres2 ⊢
    have hrow := rowStatus A (A.nrows - 1 - k) hw res2 hres2 (by simp) (fun _ => rfl) (fun _ => rfl) _
      (leftmask_gen A.ncols)
    by_cases hz : rowZero A (A.nrows - 1 - k) = true
    · have := hrow.2 hz
      rw [if_neg (by rw [decide_eq_true_eq]; exact fun h => h this)]
      simp
      omega
    · simp [hz] at hg


def rowEq (A B : Mzd) (i : Nat) : Bool :=
  (List.range (A.width - 1)).all (fun j => (A.row i).w j == (B.row i).w j) &&
    ((((A.row i).w (A.width - 1)) ^^^ ((B.row i).w (A.width - 1))) &&& A.hb) == 0

/-- inner loop of `mzd_equal` -/
theorem eqInner (A B : Mzd) (i : Nat) {cond : Int × Option Int → Bool} {body : Int × Option Int → Int × Option Int}
    {fuel : Nat} {res : Int × Option Int}
    (hres : CLoop.loop fuel cond body (0, none) = res) (hf : A.width - 1 ≤ fuel)
    (hcond : ∀ st, cond st = (st.2.isNone && decide (st.1 < (A.width : Int) - 1)))
    (hbody : ∀ st, body st = if decide (memOf A i (0 + st.1) ≠ memOf B i (0 + st.1)) = true then (st.1, some 0)
        else (st.1 + 1, st.2)) :
    if (List.range (A.width - 1)).all (fun j => (A.row i).w j == (B.row i).w j) then
      res = (((A.width - 1 : Nat) : Int), none) else res.2 = some 0 := by
  have key := scan_loop_eq hres (fun st => st.2) (A.width - 1)
    (fun j => if (A.row i).w j == (B.row i).w j then none else some (0 : Int))
    (fun j st => st = ((j : Int), none)) hf rfl ?_ ?_ ?_ ?_
  · rw [findSome_all] at key
    obtain ⟨k1, k2⟩ := key
    cases h : (List.range (A.width - 1)).all (fun j => (A.row i).w j == (B.row i).w j)
    · simpa using k1 0 (by simp [h])
    · simpa using k2 (by simp [h])
  · intro k st hk hP
    subst hP
    rw [hcond]
    simp
    omega
  · intro st v hv
    rw [hcond, hv]; rfl
  · intro k st v hk hP hg
    subst hP
    rw [hbody]
    dsimp only
    rw [Int.zero_add, memOf_nat, memOf_nat]
    by_cases he : (A.row i).w k = (B.row i).w k
    · simp [he] at hg
    · simp [he] at hg
      subst hg
      simp [he]
  · intro k st hk hP hg
    subst hP
    rw [hbody]
    dsimp only
    rw [Int.zero_add, memOf_nat, memOf_nat]
    by_cases he : (A.row i).w k = (B.row i).w k
    · simp [he]
    · simp [he] at hg

theorem equal_eq_all (A B : Mzd) (hr : A.nrows = B.nrows) (hc : A.ncols = B.ncols) :
    A.equal B = (List.range A.nrows).all (rowEq A B) := by
  unfold Mzd.equal
  simp [hr, hc]
  rfl

/-- `mzd_equal`, distinct objects -/
theorem mzdEqual_eq (A B : Mzd) (h1 : 1 ≤ A.ncols) :
    Gen.C.mzdEqual A.nrows B.nrows A.ncols B.ncols false A.width A.hb (memOf A) (memOf B) =
      if A.equal B then 1 else 0 := by
  have hw : 1 ≤ A.width := by unfold Mzd.width widthOf; omega
  unfold Gen.C.mzdEqual
  by_cases hr' : ¬ A.nrows = B.nrows
  · have hr := hr'
    have : ¬ ((A.nrows : Int) = (B.nrows : Int)) := by omega
    simp [this, Mzd.equal, hr]
  have hr : A.nrows = B.nrows := Decidable.not_not.mp hr'
  by_cases hc' : ¬ A.ncols = B.ncols
  · have hc := hc'
    have : ¬ ((A.ncols : Int) = (B.ncols : Int)) := by omega
    simp [this, Mzd.equal, hc]
  have hc : A.ncols = B.ncols := Decidable.not_not.mp hc'
  rw [equal_eq_all A B hr hc]
  rw [if_neg (by simp [hr]), if_neg (by simp [hc]), if_neg (by simp)]
  dsimp only
  generalize hres : CLoop.loop _ _ _ _ = res
  have key := scan_loop_eq hres (fun st => st.2) A.nrows
    (fun k => if rowEq A B k then none else some (0 : Int))
    (fun k st => st = ((k : Int), none)) (by simp) rfl ?_ ?_ ?_ ?_
  · rw [findSome_all] at key
    obtain ⟨k1, k2⟩ := key
    cases hz : (List.range A.nrows).all (rowEq A B)
    · have := k1 0 (by simp [hz])
      obtain ⟨a, b⟩ := res
      simp at this
      subst this
      simp
    · have := k2 (by simp [hz])
      subst this
      simp
  · intro k st hk hP
    subst hP
    simp
  · intro st v hv
    obtain ⟨a, b⟩ := st
    simp at hv
    subst hv
    simp
  · intro k st v hk hP hg
    subst hP
    clear hres
    dsimp only
    generalize hres2 : CLoop.loop _ _ _ _ = res2
    have hin := eqInner A B k hres2 (by simp) (fun _ => rfl) (fun _ => rfl)
    by_cases hz : rowEq A B k = true
    · simp [hz] at hg
    · simp [hz] at hg
      subst hg
      by_cases hall : (List.range (A.width - 1)).all (fun j => (A.row k).w j == (B.row k).w j) = true
      · rw [if_pos hall] at hin
        subst hin
        have hl : ¬ ((((A.row k).w (A.width - 1)) ^^^ ((B.row k).w (A.width - 1))) &&& A.hb) = 0#64 := by
          intro e; apply hz; unfold rowEq; rw [hall]; simp [e]
        rw [memOf_nat' A k (A.width - 1) _ (by omega), memOf_nat' B k (A.width - 1) _ (by omega)]
        simp [hl]
      · rw [if_neg hall] at hin
        simp [hin]
  · intro k st hk hP hg
    subst hP
    clear hres
    dsimp only
    generalize hres2 : CLoop.loop _ _ _ _ = res2
    have hin := eqInner A B k hres2 (by simp) (fun _ => rfl) (fun _ => rfl)
    by_cases hz : rowEq A B k = true
    · unfold rowEq at hz
      rw [Bool.and_eq_true] at hz
      rw [if_pos hz.1] at hin
      subst hin
      have hl : ((((A.row k).w (A.width - 1)) ^^^ ((B.row k).w (A.width - 1))) &&& A.hb) = 0#64 := by
        simpa using hz.2
      rw [memOf_nat' A k (A.width - 1) _ (by omega), memOf_nat' B k (A.width - 1) _ (by omega)]
      simp [hl]
    · simp [hz] at hg

theorem rowEq_self (A : Mzd) (i : Nat) : rowEq A A i = true := by
  unfold rowEq
  simp

/-- `mzd_equal`, same object -/
theorem mzdEqual_eq_same (A B : Mzd) (h : A = B) :
    Gen.C.mzdEqual A.nrows B.nrows A.ncols B.ncols true A.width A.hb (memOf A) (memOf B) =
      if A.equal B then 1 else 0 := by
  subst h
  unfold Gen.C.mzdEqual
  rw [equal_eq_all A A rfl rfl]
  simp [rowEq_self]


/-- "first nonzero" folds are `findSome?` -/
def nzSome (c : Nat → Int) (j : Nat) : Option Int := if c j = 0 then none else some (c j)

theorem foldl_firstNonzero (c : Nat → Int) (l : List Nat) (acc : Int) :
    l.foldl (fun acc j => if acc ≠ 0 then acc else c j) acc =
      if acc ≠ 0 then acc else (l.findSome? (nzSome c)).getD 0 := by
  induction l generalizing acc with
  | nil => by_cases h : acc = 0 <;> simp [h]
  | cons a t ih =>
    rw [List.foldl_cons, ih, List.findSome?_cons]
    by_cases h : acc = 0
    · subst h
      unfold nzSome
      by_cases h2 : c a = 0
      · simp [h2]
      · simp [h2]
    · simp [h]

/-- word comparison of `mzd_cmp` -/
def cmpWord (A B : Mzd) (i j : Nat) : Int :=
  if (A.row i).w j < (B.row i).w j then -1 else if (A.row i).w j > (B.row i).w j then 1 else 0

theorem cmpRow_eq (A B : Mzd) (i : Nat) :
    Mzd.cmpRow (A.row i) (B.row i) (A.width - 1) A.hb =
      if (A.row i).w (A.width - 1) &&& A.hb < (B.row i).w (A.width - 1) &&& A.hb then -1
      else if (A.row i).w (A.width - 1) &&& A.hb > (B.row i).w (A.width - 1) &&& A.hb then 1
      else ((List.range (A.width - 1)).reverse.findSome? (nzSome (cmpWord A B i))).getD 0 := by
  unfold Mzd.cmpRow
  dsimp only
  have h := foldl_firstNonzero (cmpWord A B i) (List.range (A.width - 1)).reverse 0
  simp only [cmpWord] at h
  rw [h]
  simp

/-- inner (descending) loop of `mzd_cmp` -/
theorem cmpInner (A B : Mzd) (i : Nat) {cond : Int × Option Int → Bool} {body : Int × Option Int → Int × Option Int}
    {fuel : Nat} {res : Int × Option Int}
    (hres : CLoop.loop fuel cond body ((A.width : Int) - 1 - 1, none) = res) (hf : A.width - 1 ≤ fuel)
    (hw : 1 ≤ A.width)
    (hcond : ∀ st, cond st = (st.2.isNone && decide (st.1 ≥ 0)))
    (hbody : ∀ st, body st =
        if decide (memOf A i (0 + st.1) < memOf B i (0 + st.1)) = true then (st.1, some (-1))
        else if decide (memOf A i (0 + st.1) > memOf B i (0 + st.1)) = true then (st.1, some 1)
        else (st.1 - 1, st.2)) :
    match (List.range (A.width - 1)).reverse.findSome? (nzSome (cmpWord A B i)) with
    | some v => res.2 = some v
    | none => res.2 = none := by
  have key := scan_loop_eq hres (fun st => st.2) (A.width - 1)
    (fun k => nzSome (cmpWord A B i) (A.width - 1 - 1 - k))
    (fun k st => st = ((A.width : Int) - 1 - 1 - (k : Int), none)) hf (by simp) ?_ ?_ ?_ ?_
  · have e : (fun k => nzSome (cmpWord A B i) (A.width - 1 - 1 - k)) =
        (nzSome (cmpWord A B i)) ∘ (fun k => A.width - 1 - 1 - k) := rfl
    rw [e, ← List.findSome?_map, ← reverse_range] at key
    obtain ⟨k1, k2⟩ := key
    cases h : (List.range (A.width - 1)).reverse.findSome? (nzSome (cmpWord A B i)) with
    | none => have := k2 h; subst this; rfl
    | some v => exact k1 v h
  · intro k st hk hP
    subst hP
    rw [hcond]
    simp
    omega
  · intro st v hv
    rw [hcond, hv]; rfl
  · intro k st v hk hP hg
    subst hP
    rw [hbody]
    dsimp only
    have e : (0 : Int) + ((A.width : Int) - 1 - 1 - (k : Int)) = ((A.width - 1 - 1 - k : Nat) : Int) := by omega
    rw [e, memOf_nat, memOf_nat]
    unfold nzSome cmpWord at hg
    by_cases h1 : (A.row i).w (A.width - 1 - 1 - k) < (B.row i).w (A.width - 1 - 1 - k)
    · simp [h1] at hg ⊢; omega
    · by_cases h2 : (A.row i).w (A.width - 1 - 1 - k) > (B.row i).w (A.width - 1 - 1 - k)
      · simp [h1, h2] at hg ⊢; omega
      · simp [h1, h2] at hg
  · intro k st hk hP hg
    subst hP
    rw [hbody]
    dsimp only
    have e : (0 : Int) + ((A.width : Int) - 1 - 1 - (k : Int)) = ((A.width - 1 - 1 - k : Nat) : Int) := by omega
    rw [e, memOf_nat, memOf_nat]
    unfold nzSome cmpWord at hg
    by_cases h1 : (A.row i).w (A.width - 1 - 1 - k) < (B.row i).w (A.width - 1 - 1 - k)
    · simp [h1] at hg
    · by_cases h2 : (A.row i).w (A.width - 1 - 1 - k) > (B.row i).w (A.width - 1 - 1 - k)
      · simp [h1, h2] at hg
      · simp [h1, h2]; omega

theorem cmp_eq_findSome (A B : Mzd) (hr : A.nrows = B.nrows) (hc : A.ncols = B.ncols) :
    A.cmp B = ((List.range A.nrows).findSome?
      (nzSome (fun i => Mzd.cmpRow (A.row i) (B.row i) (A.width - 1) A.hb))).getD 0 := by
  unfold Mzd.cmp
  rw [foldl_firstNonzero (fun i => Mzd.cmpRow (A.row i) (B.row i) (A.width - 1) A.hb)]
  simp [hr, hc]

/-- `mzd_cmp` -/
theorem mzdCmp_eq (A B : Mzd) (h1 : 1 ≤ A.ncols) :
    Gen.C.mzdCmp A.nrows B.nrows A.ncols B.ncols A.hb A.width (memOf A) (memOf B) = A.cmp B := by
  have hw : 1 ≤ A.width := by unfold Mzd.width widthOf; omega
  unfold Gen.C.mzdCmp
  by_cases hr1 : A.nrows < B.nrows
  · simp [hr1, Mzd.cmp]
  by_cases hr2 : B.nrows < A.nrows
  · simp [hr1, hr2, Mzd.cmp]
  by_cases hc1 : A.ncols < B.ncols
  · simp [hr1, hr2, hc1, Mzd.cmp]
  by_cases hc2 : B.ncols < A.ncols
  · simp [hr1, hr2, hc1, hc2, Mzd.cmp]
  rw [cmp_eq_findSome A B (by omega) (by omega)]
  rw [if_neg (by simp [hr1]), if_neg (by simp [hr2]), if_neg (by simp [hc1]), if_neg (by simp [hc2])]
  dsimp only
  generalize hres : CLoop.loop _ _ _ _ = res
  have key := scan_loop_eq hres (fun st => st.2) A.nrows
    (nzSome (fun i => Mzd.cmpRow (A.row i) (B.row i) (A.width - 1) A.hb))
    (fun k st => st = ((k : Int), none)) (by simp) rfl ?_ ?_ ?_ ?_
  · obtain ⟨k1, k2⟩ := key
    cases hz : (List.range A.nrows).findSome? (nzSome (fun i => Mzd.cmpRow (A.row i) (B.row i) (A.width - 1) A.hb)) with
    | some v =>
      have := k1 v hz
      obtain ⟨a, b⟩ := res
      simp at this
      subst this
      simp
    | none =>
      have := k2 hz
      subst this
      simp
  · intro k st hk hP
    subst hP
    simp
  · intro st v hv
    obtain ⟨a, b⟩ := st
    simp at hv
    subst hv
    simp
  · intro k st v hk hP hg
    subst hP
    clear hres
    dsimp only
    rw [memOf_nat' A k (A.width - 1) _ (by omega), memOf_nat' B k (A.width - 1) _ (by omega)]
    replace hg : (if Mzd.cmpRow (A.row k) (B.row k) (A.width - 1) A.hb = 0 then none
      else some (Mzd.cmpRow (A.row k) (B.row k) (A.width - 1) A.hb)) = some v := hg
    rw [cmpRow_eq] at hg
    by_cases hl1 : (A.row k).w (A.width - 1) &&& A.hb < (B.row k).w (A.width - 1) &&& A.hb
    · simp [hl1] at hg ⊢; omega
    by_cases hl2 : (A.row k).w (A.width - 1) &&& A.hb > (B.row k).w (A.width - 1) &&& A.hb
    · simp [hl1, hl2] at hg ⊢; omega
    rw [if_neg (by simpa using hl1), if_neg (by simpa using hl2)]
    rw [if_neg hl1, if_neg hl2] at hg
    generalize hres2 : CLoop.loop _ _ _ _ = res2
    have hin := cmpInner A B k hres2 (by simp) hw (fun _ => rfl) (fun _ => rfl)
    cases hf : (List.range (A.width - 1)).reverse.findSome? (nzSome (cmpWord A B k)) with
    | none => simp [hf] at hg
    | some u =>
      rw [hf] at hin
      simp [hf] at hg
      simp [hin, hg.2]
  · intro k st hk hP hg
    subst hP
    clear hres
    dsimp only
    rw [memOf_nat' A k (A.width - 1) _ (by omega), memOf_nat' B k (A.width - 1) _ (by omega)]
    replace hg : (if Mzd.cmpRow (A.row k) (B.row k) (A.width - 1) A.hb = 0 then none
      else some (Mzd.cmpRow (A.row k) (B.row k) (A.width - 1) A.hb)) = none := hg
    rw [cmpRow_eq] at hg
    by_cases hl1 : (A.row k).w (A.width - 1) &&& A.hb < (B.row k).w (A.width - 1) &&& A.hb
    · simp [hl1] at hg
    by_cases hl2 : (A.row k).w (A.width - 1) &&& A.hb > (B.row k).w (A.width - 1) &&& A.hb
    · simp [hl1, hl2] at hg
    rw [if_neg (by simpa using hl1), if_neg (by simpa using hl2)]
    rw [if_neg hl1, if_neg hl2] at hg
    generalize hres2 : CLoop.loop _ _ _ _ = res2
    have hin := cmpInner A B k hres2 (by simp) hw (fun _ => rfl) (fun _ => rfl)
    cases hf : (List.range (A.width - 1)).reverse.findSome? (nzSome (cmpWord A B k)) with
    | none =>
      rw [hf] at hin
      simp [hin]
    | some u =>
      exfalso
      have hu : u ≠ 0 := by
        have := List.exists_of_findSome?_eq_some hf
        obtain ⟨j, _, hj⟩ := this
        unfold nzSome at hj
        by_cases h0 : cmpWord A B k j = 0
        · simp [h0] at hj
        · simp [h0] at hj; omega
      simp [hf, hu] at hg


/-! ### 4-5. row kernels -/

/-- pointwise characterisation of a memory against a matrix with two rows replaced -/
theorem eq_memOf_setRow2 (M : Mzd) (a b : Nat) (ra rb : Row) (ha : a < M.rows.size) (hb : b < M.rows.size)
    (_hab : a ≠ b) (m : Int → Int → BitVec 64)
    (hrowa : ∀ k : Nat, m (a : Int) (k : Int) = ra.w k)
    (hrowb : ∀ k : Nat, m (b : Int) (k : Int) = rb.w k)
    (hnega : ∀ z : Int, z < 0 → m (a : Int) z = 0)
    (hnegb : ∀ z : Int, z < 0 → m (b : Int) z = 0)
    (hoth : ∀ r' i' : Int, r' ≠ (a : Int) → r' ≠ (b : Int) → m r' i' = memOf M r' i') :
    m = memOf ((M.setRow a ra).setRow b rb) := by
  apply eq_memOf_setRow _ _ _ (by rw [Mzd.size_rows_setRow]; exact hb) _ hrowb hnegb
  intro r' i' hr
  rw [memOf_setRow _ _ _ ha]
  by_cases h : r' = (a : Int)
  · subst h
    rw [if_pos rfl]
    by_cases h2 : i' < 0
    · rw [if_pos h2]; exact hnega _ h2
    · rw [if_neg h2]
      have : i' = ((i'.toNat : Nat) : Int) := by omega
      conv => lhs; rw [this]
      exact hrowa _
  · rw [if_neg h]; exact hoth _ _ h hr

/-- memory after `k` iterations of the word-swapping loop of `_mzd_row_swap` -/
def swapMem (M : Mzd) (a b sb k : Nat) : Int → Int → BitVec 64 :=
  fun r i =>
    if r = (a : Int) ∧ (sb : Int) ≤ i ∧ i < (sb : Int) + (k : Int) then memOf M b i
    else if r = (b : Int) ∧ (sb : Int) ≤ i ∧ i < (sb : Int) + (k : Int) then memOf M a i
    else memOf M r i

theorem swapMem_zero (M : Mzd) (a b sb : Nat) : swapMem M a b sb 0 = memOf M := by
  funext r i
  unfold swapMem
  have h1 : ¬ (r = (a : Int) ∧ (sb : Int) ≤ i ∧ i < (sb : Int) + ((0 : Nat) : Int)) := by omega
  have h2 : ¬ (r = (b : Int) ∧ (sb : Int) ≤ i ∧ i < (sb : Int) + ((0 : Nat) : Int)) := by omega
  rw [if_neg h1, if_neg h2]

theorem swapMem_succ (M : Mzd) (a b sb k : Nat) (hab : a ≠ b) :
    CLoop.upd2 (CLoop.upd2 (swapMem M a b sb k) a ((0 : Int) + (sb : Int) + (k : Int))
        (swapMem M a b sb k b ((0 : Int) + (sb : Int) + (k : Int)))) b ((0 : Int) + (sb : Int) + (k : Int))
        (swapMem M a b sb k a ((0 : Int) + (sb : Int) + (k : Int)))
      = swapMem M a b sb (k + 1) := by
  funext r i
  simp only [upd2_apply, swapMem, Int.zero_add]
  by_cases hi : i = (sb : Int) + (k : Int)
  · subst hi
    repeat' split
    all_goals first | rfl | (exfalso; omega)
  · repeat' split
    all_goals first | rfl | (exfalso; omega)


theorem xor_merge_l (x y m : Word) : x ^^^ ((x ^^^ y) &&& m) = merge x y m := rfl
theorem xor_merge_r (x y m : Word) : y ^^^ ((x ^^^ y) &&& m) = merge y x m := by
  unfold merge; rw [BitVec.xor_comm x y]

/-- `_mzd_row_swap` -/
theorem mzdRowSwap_eq (M : Mzd) (a b sb : Nat) (hwf : M.WF) (ha : a < M.nrows) (hb : b < M.nrows) :
    Gen.C.mzdRowSwap a b sb (memOf M) M.width M.hb = memOf (M.rowSwapFrom a b sb) := by
  unfold Gen.C.mzdRowSwap Mzd.rowSwapFrom
  by_cases hc : a = b ∨ sb ≥ M.width
  · have : (decide ((a : Int) = (b : Int)) || decide ((sb : Int) ≥ (M.width : Int))) = true := by
      rcases hc with h | h
      · simp [h]
      · have : (sb : Int) ≥ (M.width : Int) := by omega
        simp [this]
    rw [if_pos this, if_pos hc]
  have hab : a ≠ b := fun e => hc (Or.inl e)
  have hsb : sb < M.width := by omega
  have : ¬ ((decide ((a : Int) = (b : Int)) || decide ((sb : Int) ≥ (M.width : Int))) = true) := by
    have h1 : ¬ ((a : Int) = (b : Int)) := by omega
    have h2 : ¬ ((sb : Int) ≥ (M.width : Int)) := by omega
    simp [h1, h2]
  rw [if_neg this, if_neg hc]
  dsimp only
  generalize hres : CLoop.loop _ _ _ _ = res
  have hsza : (M.row a).size = M.width := hwf.2 a ha
  have hszb : (M.row b).size = M.width := hwf.2 b hb
  have key := for_loop_eq hres (M.width - sb - 1)
    (fun k st => st.2.2 = (k : Int) ∧ st.2.1 = swapMem M a b sb k) (by simp; omega)
    ⟨rfl, (swapMem_zero M a b sb).symm⟩ ?_ ?_
  · obtain ⟨tmp, L, i⟩ := res
    obtain ⟨k1, k2⟩ := key
    dsimp only at k1 k2 ⊢
    subst k1 k2
    clear hres
    have e : (0 : Int) + (sb : Int) + ((M.width : Int) - (sb : Int) - 1) = ((M.width - 1 : Nat) : Int) := by omega
    rw [e]
    have hLa : swapMem M a b sb (M.width - sb - 1) a ((M.width - 1 : Nat) : Int) = (M.row a).w (M.width - 1) := by
      unfold swapMem
      rw [if_neg (by omega), if_neg (by omega), memOf_nat]
    have hLb : swapMem M a b sb (M.width - sb - 1) b ((M.width - 1 : Nat) : Int) = (M.row b).w (M.width - 1) := by
      unfold swapMem
      rw [if_neg (by omega), if_neg (by omega), memOf_nat]
    have hne : ¬ ((b : Int) = (a : Int) ∧ ((M.width - 1 : Nat) : Int) = ((M.width - 1 : Nat) : Int)) := by omega
    rw [upd2_apply _ _ _ _ (b : Int), if_neg hne, hLa, hLb, xor_merge_l, xor_merge_r]
    apply eq_memOf_setRow2 _ _ _ _ _ (by rw [hwf.1]; exact ha) (by rw [hwf.1]; exact hb) hab
    · intro k
      simp only [upd2_apply, swapMem, Mzd.rowSwapWords, Row.w_mapIdx', hsza, memOf_nat, true_and]
      by_cases hk : k < M.width
      · by_cases hkw : k = M.width - 1
        · subst hkw
          repeat' split
          all_goals first | rfl | (exfalso; omega)
        repeat' split
        all_goals first | rfl | (exfalso; omega)
      · rw [Row.w_of_ge (M.row a) k (by omega)]
        repeat' split
        all_goals first | rfl | (exfalso; omega)
    · intro k
      simp only [upd2_apply, swapMem, Mzd.rowSwapWords, Row.w_mapIdx', hszb, memOf_nat, true_and]
      by_cases hk : k < M.width
      · by_cases hkw : k = M.width - 1
        · subst hkw
          repeat' split
          all_goals first | rfl | (exfalso; omega)
        repeat' split
        all_goals first | rfl | (exfalso; omega)
      · rw [Row.w_of_ge (M.row b) k (by omega)]
        repeat' split
        all_goals first | rfl | (exfalso; omega)
    · intro z hz
      simp only [upd2_apply, swapMem, true_and]
      rw [memOf_neg _ _ _ hz]
      repeat' split
      all_goals first | rfl | (exfalso; omega) | (rw [memOf_neg _ _ _ hz])
    · intro z hz
      simp only [upd2_apply, swapMem, true_and]
      rw [memOf_neg _ _ _ hz]
      repeat' split
      all_goals first | rfl | (exfalso; omega) | (rw [memOf_neg _ _ _ hz])
    · intro r' i' h1 h2
      simp only [upd2_apply, swapMem]
      repeat' split
      all_goals first | rfl | (exfalso; omega)
  · intro k st hk hP
    rw [hP.1]
    congr 1
    apply propext
    omega
  · intro k st hk hP
    obtain ⟨tmp, L, i⟩ := st
    obtain ⟨k1, k2⟩ := hP
    dsimp only at k1 k2 ⊢
    subst k1 k2
    refine ⟨by omega, ?_⟩
    exact swapMem_succ M a b sb k hab


/-- memory with the words `lo .. lo+k-1` of row `x` zeroed -/
def zeroMem (m0 : Int → Int → BitVec 64) (x lo k : Nat) : Int → Int → BitVec 64 :=
  fun r i => if r = (x : Int) ∧ (lo : Int) ≤ i ∧ i < (lo : Int) + (k : Int) then 0#64 else m0 r i

theorem zeroMem_zero (m0 : Int → Int → BitVec 64) (x lo : Nat) : zeroMem m0 x lo 0 = m0 := by
  funext r i
  unfold zeroMem
  rw [if_neg (by omega)]

theorem zeroMem_succ (m0 : Int → Int → BitVec 64) (x lo k : Nat) :
    CLoop.upd2 (zeroMem m0 x lo k) x ((0 : Int) + ((lo : Int) + (k : Int))) (0#64) = zeroMem m0 x lo (k + 1) := by
  funext r i
  simp only [upd2_apply, zeroMem, Int.zero_add]
  repeat' split
  all_goals first | rfl | (exfalso; omega)

theorem and_or_and (w p q : BitVec 64) : (w &&& p) ||| (w &&& q) = w &&& (p ||| q) := by
  apply BitVec.eq_of_getLsbD_eq
  intro i hi
  simp only [BitVec.getLsbD_or, BitVec.getLsbD_and]
  cases w.getLsbD i <;> simp

/-- `mzd_row_clear_offset` -/
theorem mzdRowClearOffset_eq (M : Mzd) (row coloffset : Nat) (hwf : M.WF) (hr : row < M.nrows)
    (hc : coloffset < 64 * M.width) :
    Gen.C.mzdRowClearOffset row coloffset (memOf M) M.hb M.width = memOf (M.rowClearOffset row coloffset) := by
  have hsz : (M.row row).size = M.width := hwf.2 row hr
  have hsb : coloffset / 64 < M.width := by omega
  unfold Gen.C.mzdRowClearOffset Mzd.rowClearOffset Mzd.rowClearOffsetWords
  dsimp only
  rw [leftmask_gen, tdiv_nat, tmod_nat, Int.zero_add, memOf_nat]
  generalize hT : (if decide (((coloffset % 64 : Nat) : Int) ≠ 0) = true then
      (M.row row).w (coloffset / 64) &&& leftMask (coloffset % 64) else 0#64) = T
  have hT' : T = (M.row row).w (coloffset / 64) &&&
      (if coloffset / 64 = coloffset / 64 ∧ coloffset % 64 ≠ 0 then leftMask (coloffset % 64) else 0) := by
    subst hT
    by_cases h0 : coloffset % 64 = 0
    · rw [if_neg (by rw [decide_eq_true_eq]; omega), if_neg (by omega)]; simp
    · rw [if_pos (by rw [decide_eq_true_eq]; omega), if_pos ⟨rfl, h0⟩]
  by_cases hlast : coloffset / 64 + 1 = M.width
  · have : ((coloffset / 64 : Nat) : Int) = (M.width : Int) - 1 := by omega
    rw [if_pos (decide_eq_true this)]
    apply eq_memOf_setRow _ _ _ (by rw [hwf.1]; exact hr)
    · intro k
      simp only [upd2_apply, memOf_nat, Row.w_mapIdx', hsz, true_and]
      by_cases hk : k = coloffset / 64
      · subst hk
        rw [if_pos rfl, if_pos hsb, if_neg (by omega), if_pos hlast, hT', and_or_and]
      · rw [if_neg (by omega)]
        by_cases hk2 : k < M.width
        · rw [if_pos hk2, if_pos (by omega)]
        · rw [if_neg hk2, Row.w_of_ge _ _ (by omega)]
    · intro z hz
      rw [upd2_apply, if_neg (by omega), memOf_neg _ _ _ hz]
    · intro r' i' hr'
      rw [upd2_apply, if_neg (by omega)]
  · have : ¬ ((coloffset / 64 : Nat) : Int) = (M.width : Int) - 1 := by omega
    rw [if_neg (by rw [decide_eq_true_eq]; exact this)]
    generalize hres : CLoop.loop _ _ _ _ = res
    have key := for_loop_eq hres (M.width - 1 - (coloffset / 64 + 1))
      (fun k st => st.2 = ((coloffset / 64 + 1 : Nat) : Int) + (k : Int) ∧
        st.1 = zeroMem (CLoop.upd2 (memOf M) row ((coloffset / 64 : Nat) : Int) T) row (coloffset / 64 + 1) k)
      (by simp; omega) ⟨by simp, (zeroMem_zero _ _ _).symm⟩ ?_ ?_
    · obtain ⟨L, i⟩ := res
      obtain ⟨k1, k2⟩ := key
      dsimp only at k1 k2 ⊢
      subst k1 k2
      clear hres
      apply eq_memOf_setRow _ _ _ (by rw [hwf.1]; exact hr)
      · intro k
        simp only [upd2_apply, zeroMem, memOf_nat, Row.w_mapIdx', hsz, true_and, Int.zero_add]
        by_cases hk : k = coloffset / 64
        · subst hk
          rw [if_neg (by omega), if_neg (by omega), if_pos rfl, if_pos hsb, if_neg (by omega), if_neg hlast, hT']
        · by_cases hk2 : k < M.width
          · by_cases hk3 : k + 1 = M.width
            · have : (k : Int) = (M.width : Int) - 1 := by omega
              rw [if_pos this, if_neg (by omega), if_neg (by omega), if_pos hk2]
              have e : (M.width : Int) - 1 = ((M.width - 1 : Nat) : Int) := by omega
              rw [e, memOf_nat, if_neg (by omega), if_pos hk3, if_neg (by omega)]
              have : k = M.width - 1 := by omega
              subst this
              simp
            · rw [if_neg (by omega), if_pos hk2]
              by_cases hk4 : k < coloffset / 64
              · rw [if_neg (by omega), if_neg (by omega), if_pos (Or.inl hk4)]
              · rw [if_pos (by omega), if_neg (by omega), if_neg hk3, if_neg (by omega)]
                simp
          · rw [if_neg (by omega), if_neg (by omega), if_neg (by omega), if_neg hk2, Row.w_of_ge _ _ (by omega)]
      · intro z hz
        simp only [upd2_apply, zeroMem, true_and, Int.zero_add]
        rw [if_neg (by omega), if_neg (by omega), if_neg (by omega), memOf_neg _ _ _ hz]
      · intro r' i' hr'
        simp only [upd2_apply, zeroMem]
        rw [if_neg (by omega), if_neg (by omega), if_neg (by omega)]
    · intro k st hk hP
      rw [hP.1]
      congr 1
      apply propext
      omega
    · intro k st hk hP
      obtain ⟨L, i⟩ := st
      obtain ⟨k1, k2⟩ := hP
      dsimp only at k1 k2 ⊢
      subst k1 k2
      refine ⟨by omega, ?_⟩
      exact zeroMem_succ _ _ _ _


/-- memory `mB` with the words `0 .. k-1` of row `i` replaced by those of row `j` of `mA` -/
def copyMem (mB mA : Int → Int → BitVec 64) (i j k : Nat) : Int → Int → BitVec 64 :=
  fun r z => if r = (i : Int) ∧ 0 ≤ z ∧ z < (k : Int) then mA j z else mB r z

theorem copyMem_zero (mB mA : Int → Int → BitVec 64) (i j : Nat) : copyMem mB mA i j 0 = mB := by
  funext r z
  unfold copyMem
  rw [if_neg (by omega)]

theorem copyMem_succ (mB mA : Int → Int → BitVec 64) (i j k : Nat) :
    CLoop.upd2 (copyMem mB mA i j k) i ((0 : Int) + (k : Int)) (mA j ((0 : Int) + (k : Int)))
      = copyMem mB mA i j (k + 1) := by
  funext r z
  simp only [upd2_apply, copyMem, Int.zero_add]
  by_cases hz : z = (k : Int)
  · subst hz
    repeat' split
    all_goals first | rfl | (exfalso; omega)
  · repeat' split
    all_goals first | rfl | (exfalso; omega)

/-- `mzd_copy_row` -/
theorem mzdCopyRow_eq (B A : Mzd) (i j : Nat) (hwf : B.WF) (hi : i < B.nrows)
    (hB : 1 ≤ B.ncols) (hA : 1 ≤ A.ncols) :
    Gen.C.mzdCopyRow i j (memOf B) B.width A.width (memOf A) A.ncols = memOf (B.copyRow i A j) := by
  have hsz : (B.row i).size = B.width := hwf.2 i hi
  have hBw : 1 ≤ B.width := by unfold Mzd.width widthOf; omega
  have hAw : 1 ≤ A.width := by unfold Mzd.width widthOf; omega
  unfold Gen.C.mzdCopyRow Mzd.copyRow
  dsimp only
  rw [leftmask_gen]
  have hwd : (if decide ((B.width : Int) < (A.width : Int)) = true then (B.width : Int) else (A.width : Int)) - 1
      = ((min B.width A.width - 1 : Nat) : Int) := by
    split <;> rename_i h <;> rw [decide_eq_true_eq] at h <;> omega
  rw [hwd]
  generalize hn : min B.width A.width - 1 = n
  have hnB : n < B.width := by omega
  by_cases h0 : n = 0
  · subst h0
    rw [if_neg (by simp)]
    apply eq_memOf_setRow _ _ _ (by rw [hwf.1]; exact hi)
    · intro k
      simp only [upd2_apply, memOf_nat, Row.w_mapIdx', hsz, true_and, Int.zero_add]
      by_cases hk : k = 0
      · subst hk
        have e1 : memOf A (j : Int) 0 = (A.row j).w 0 := memOf_nat' A j 0 _ rfl
        have e2 : memOf B (i : Int) 0 = (B.row i).w 0 := memOf_nat' B i 0 _ rfl
        simp [hnB, merge', e1, e2, BitVec.or_comm]
      · by_cases hk2 : k < B.width
        · repeat' split
          all_goals first | rfl | (exfalso; omega)
        · rw [Row.w_of_ge (B.row i) k (by omega)]
          repeat' split
          all_goals first | rfl | (exfalso; omega)
    · intro z hz
      rw [upd2_apply, if_neg (by omega), memOf_neg _ _ _ hz]
    · intro r' i' hr'
      rw [upd2_apply, if_neg (by omega)]
  · have : ((n : Nat) : Int) ≠ 0 := by omega
    rw [if_pos (decide_eq_true this)]
    generalize hres : CLoop.loop _ _ _ _ = res
    have key := for_loop_eq hres n
      (fun k st => st.2 = (k : Int) ∧ st.1 = copyMem (memOf B) (memOf A) i j k)
      (by simp; omega) ⟨rfl, (copyMem_zero _ _ _ _).symm⟩ ?_ ?_
    · obtain ⟨L, kk⟩ := res
      obtain ⟨k1, k2⟩ := key
      dsimp only at k1 k2 ⊢
      subst k1 k2
      clear hres
      apply eq_memOf_setRow _ _ _ (by rw [hwf.1]; exact hi)
      · intro k
        simp only [upd2_apply, copyMem, memOf_nat, Row.w_mapIdx', hsz, true_and, Int.zero_add]
        by_cases hk : k = n
        · subst hk
          rw [if_pos rfl, if_pos hnB, if_neg (by omega), if_pos rfl, if_neg (by omega)]
          rfl
        · rw [if_neg (by omega)]
          by_cases hk2 : k < n
          · rw [if_pos (by omega), if_pos (by omega), if_pos hk2]
          · rw [if_neg (by omega)]
            by_cases hk3 : k < B.width
            · rw [if_pos hk3, if_neg hk2, if_neg hk]
            · rw [if_neg hk3, Row.w_of_ge _ _ (by omega)]
      · intro z hz
        simp only [upd2_apply, copyMem, true_and, Int.zero_add]
        rw [if_neg (by omega), if_neg (by omega), memOf_neg _ _ _ hz]
      · intro r' i' hr'
        simp only [upd2_apply, copyMem]
        rw [if_neg (by omega), if_neg (by omega)]
    · intro k st hk hP
      rw [hP.1]
      congr 1
      apply propext
      omega
    · intro k st hk hP
      obtain ⟨L, kk⟩ := st
      obtain ⟨k1, k2⟩ := hP
      dsimp only at k1 k2 ⊢
      subst k1 k2
      refine ⟨by omega, ?_⟩
      exact copyMem_succ _ _ _ _ _


/-- decide the conditions of `if`s by linear arithmetic, outermost first -/
macro "ifs_omega" : tactic =>
  `(tactic| repeat (first | rw [if_pos (by omega)] | rw [if_neg (by omega)]))

/-- memory `m1` with the words `lo .. lo+k-1` of row `dst` XOR-ed with `srcw` -/
def addMem (m1 : Int → Int → BitVec 64) (srcw : Int → BitVec 64) (dst lo k : Nat) : Int → Int → BitVec 64 :=
  fun r z => if r = (dst : Int) ∧ (lo : Int) ≤ z ∧ z < (lo : Int) + (k : Int) then m1 r z ^^^ srcw z else m1 r z

theorem addMem_zero (m1 : Int → Int → BitVec 64) (srcw : Int → BitVec 64) (dst lo : Nat) :
    addMem m1 srcw dst lo 0 = m1 := by
  funext r z
  unfold addMem
  rw [if_neg (by omega)]

theorem addMem_succ (m1 : Int → Int → BitVec 64) (src dst sb k : Nat) (hne : dst ≠ src) :
    CLoop.upd2 (addMem m1 (m1 src) dst (sb + 1) k) dst ((sb : Int) + 1 + (k : Int))
        (addMem m1 (m1 src) dst (sb + 1) k dst ((sb : Int) + 1 + (k : Int)) ^^^
          addMem m1 (m1 src) dst (sb + 1) k src ((sb : Int) + 1 + (k : Int)))
      = addMem m1 (m1 src) dst (sb + 1) (k + 1) := by
  have hne' : (src : Int) ≠ (dst : Int) := fun h => hne (Int.natCast_inj.mp h).symm
  funext r z
  simp only [upd2_apply, addMem]
  by_cases hr : r = (dst : Int)
  · subst hr
    by_cases hz : z = (sb : Int) + 1 + (k : Int)
    · subst hz
      ifs_omega
    · repeat' split
      all_goals first | rfl | (exfalso; omega)
  · ifs_omega

/-- `mzd_row_add_offset` (scalar path) -/
theorem mzdRowAddOffset_eq (M : Mzd) (dstrow srcrow coloffset : Nat) (hwf : M.WF) (hd : dstrow < M.nrows)
    (hne : dstrow ≠ srcrow) (hc : coloffset < 64 * M.width) :
    Gen.C.mzdRowAddOffset dstrow srcrow coloffset (memOf M) M.width M.hb =
      memOf (M.rowAddOffset dstrow srcrow coloffset) := by
  have hsz : (M.row dstrow).size = M.width := hwf.2 dstrow hd
  have hsb : coloffset / 64 < M.width := by omega
  unfold Gen.C.mzdRowAddOffset Mzd.rowAddOffset Mzd.rowAddOffsetWords
  dsimp only
  rw [tdiv_nat, tmod_nat, Int.zero_add, memOf_nat, memOf_nat]
  have emb : BitVec.allOnes 64 <<< ((64 : Int) - (64 - ((coloffset % 64 : Nat) : Int))).toNat
      = rightMask (64 - coloffset % 64) := by
    unfold rightMask ffff
    congr 1
    omega
  rw [emb]
  generalize hsbv : coloffset / 64 = sb at *
  generalize hm1 : CLoop.upd2 (memOf M) (dstrow : Int) (sb : Int)
    ((M.row dstrow).w sb ^^^ (M.row srcrow).w sb &&& rightMask (64 - coloffset % 64)) = m1
  have hm1s : ∀ z, m1 srcrow z = memOf M srcrow z := by
    intro z; subst hm1; rw [upd2_apply, if_neg (by omega)]
  have hm1d : ∀ k : Nat, m1 dstrow k = if k = sb then
      (M.row dstrow).w sb ^^^ (M.row srcrow).w sb &&& rightMask (64 - coloffset % 64) else (M.row dstrow).w k := by
    intro k; subst hm1; rw [upd2_apply, memOf_nat]
    by_cases hk : k = sb
    · subst hk; rw [if_pos ⟨rfl, rfl⟩, if_pos rfl]
    · rw [if_neg (by omega), if_neg hk]
  have hm1neg : ∀ z : Int, z < 0 → m1 dstrow z = 0 := by
    intro z hz; subst hm1; rw [upd2_apply, if_neg (by omega), memOf_neg _ _ _ hz]
  have hm1o : ∀ r' i' : Int, r' ≠ (dstrow : Int) → m1 r' i' = memOf M r' i' := by
    intro r' i' hr; subst hm1; rw [upd2_apply, if_neg (by omega)]
  clear hm1
  generalize hres : CLoop.loop _ _ _ _ = res
  have key := for_loop_eq hres (M.width - sb - 1)
    (fun k st => st.2 = (k : Int) ∧ st.1 = addMem m1 (m1 srcrow) dstrow (sb + 1) k)
    (by simp; omega) ⟨rfl, (addMem_zero _ _ _ _).symm⟩ ?_ ?_
  · obtain ⟨L, kk⟩ := res
    obtain ⟨k1, k2⟩ := key
    dsimp only at k1 k2 ⊢
    subst k1 k2
    clear hres
    have e : (sb : Int) + 1 + (((M.width - sb - 1 : Nat) : Int) - 1) = ((M.width - 1 : Nat) : Int) := by omega
    rw [e]
    apply eq_memOf_setRow _ _ _ (by rw [hwf.1]; exact hd)
    · intro k
      simp only [upd2_apply, addMem, Row.w_mapIdx', hsz, true_and, hm1s, hm1d, memOf_nat]
      by_cases hk2 : k < M.width
      · by_cases hkw : k = M.width - 1
        · subst hkw
          by_cases hks : M.width - 1 = sb
          · subst hks
            ifs_omega
          · ifs_omega
        · by_cases hks : k = sb
          · subst hks
            ifs_omega
          · by_cases hlt : k < sb
            · ifs_omega
            · ifs_omega
      · rw [Row.w_of_ge (M.row dstrow) k (by omega)]
        ifs_omega
    · intro z hz
      simp only [upd2_apply, addMem, true_and]
      rw [if_neg (by omega), if_neg (by omega), hm1neg _ hz]
    · intro r' i' hr'
      simp only [upd2_apply, addMem]
      rw [if_neg (by omega), if_neg (by omega), hm1o _ _ hr']
  · intro k st hk hP
    rw [hP.1]
    congr 1
    apply propext
    omega
  · intro k st hk hP
    obtain ⟨L, kk⟩ := st
    obtain ⟨k1, k2⟩ := hP
    dsimp only at k1 k2 ⊢
    subst k1 k2
    refine ⟨by omega, ?_⟩
    exact addMem_succ _ _ _ _ _ hne

end M4ri.GenTieMem
