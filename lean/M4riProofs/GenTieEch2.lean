/-
  GenTieEch2: `mzd_echelonize_pluq` (generated text `Gen.C.echelonizePluq`) with its callee `mzd_trsm_upper_left`
  bound to the CLOSED generated recursion `cTrsmUL ulRuss addmulM rsB rsU mtU` (GenTieClose: the generated
  `_mzd_trsm_upper_left` bound to itself, any depth `mtU`), in ALL three `r mod 64` cases of the back substitution.

  Why it works: at each of its four call sites (`segCase1`: window `B` of `A`; `segCase2`: the local copy `B0` =
  `mzd_submatrix(NULL, A, 0, r_radix, r, r_radix+64)` and the window `B1`; `segCase3`: the local copy `B`) the callee
  gets canonical records `r × r`, `r × nb` (`nb ≥ 1`) and its result is at once written back through
  `CLoop.unview … r ⌈nb/64⌉`, where `GenTieTop.unview_cTrsmUL` (ARBITRARY memories) says the closed recursion and
  the lifted substitution form cannot be told apart.  For the local copies the record is the header recomputed from
  `ncols` (`hdr_w`, `hdr_hb`), `nrows = min r A.nrows = r`.  No well-formedness is needed.

  Main theorems
    `segSolve_closed`              the three cases, arbitrary memory / `mzd_copy`
    `echelonizePluq_closed_gen`    arbitrary memory, `full`, `mzd_pluq`, `mzd_ple`, `mzd_copy`, `mzd_apply_p_right`
                                   (only: `mzd_pluq` returns `r ≤ nrows, ncols` when `full ≠ 0`)
    `echelonizePluq_closed_congr`  … for `liftPle fact`
    `echelonizePluq_closed`        both `full`: = the lifted version ∧ = the model `PN.echelonizePluq fact`
    `c_echelonize_pluq_closed_eq`, `c_echelonize_pluq_closed` (`_rs`: `rsB = rsU = rs`)  end to end (rank, RREF)
  Row strides `rsB rsU` of the closed recursion are arbitrary (the result does not depend on them).
-/
import M4riProofs.GenTieTop
set_option linter.unusedVariables false
namespace M4ri.GenTieEch2
open M4ri M4ri.Gen M4ri.GenTieMem M4ri.GenTieView M4ri.BMat M4ri.GenTieAlg M4ri.GenTieRec M4ri.GenTieClose
  M4ri.GenTieGlue M4ri.GenTieClose2 M4ri.GenTieClose4 M4ri.GenTiePle M4ri.GenTieTab M4ri.BMat.PN M4ri.GenTieEch
  M4ri.GenTieTop

macro "nw" loc:(Lean.Parser.Tactic.location)? : tactic =>
  `(tactic| simp (config := {etaStruct := .none}) only [Int.zero_add, Nat.sub_zero, Nat.zero_div, Int.natCast_zero,
    Int.toNat_natCast, Int.toNat_zero, BMat.nrows_sub, BMat.ncols_sub, hdr_w, hdr_hb, Mzd.nrows_toB, nrows_ofView] $[$loc]?)

/-! ### 1. the three cases, callee `cTrsmUL` vs. the lifted substitution form, on ARBITRARY memories -/

theorem segCase1_closed (m : Mem) (r nr nc : Nat) (rs rsB rsU : Int) (mtU : Nat) (hr1 : r ≤ nr) (hr2 : r < nc)
    (h64 : r % 64 = 0) :
    segCase1 m r nc nr rs 0 0 r r (((r + 63) / 64 : Nat) : Int) (leftMask (r % 64))
        (cTrsmUL ulRuss addmulM rsB rsU mtU)
      = segCase1 m r nc nr rs 0 0 r r (((r + 63) / 64 : Nat) : Int) (leftMask (r % 64))
        (fun U B _ => liftM2 trsmUpperLeft U B) := by
  unfold segCase1
  rw [mzdInitWindow_in 0 r r nc nr rs 0 r r nc nr rfl rfl rfl rfl rfl h64 (by omega) (by omega) hr1]
  dsimp_m
  nw
  simp only [unview_cTrsmUL rsB rsU mtU r (nc - r) (by omega)]

theorem segCase3_closed (m : Mem) (r rr nr nc : Nat) (rs w rsB rsU : Int) (hb : BitVec 64) (mtU : Nat)
    (fcopy : CLoop.MView → CLoop.MView → Mem) (hr1 : r ≤ nr) (hr2 : r < nc) (h64 : rr % 64 = 0) (hrr : rr ≤ r) :
    segCase3 m r rr nc nr rs w hb 0 0 r r (((r + 63) / 64 : Nat) : Int) (leftMask (r % 64))
        (cTrsmUL ulRuss addmulM rsB rsU mtU) liftSubNew fcopy
      = segCase3 m r rr nc nr rs w hb 0 0 r r (((r + 63) / 64 : Nat) : Int) (leftMask (r % 64))
        (fun U B _ => liftM2 trsmUpperLeft U B) liftSubNew fcopy := by
  unfold segCase3 liftSubNew
  rw [mzdInitWindow_in 0 rr r nc nr rs 0 rr r nc nr rfl rfl rfl rfl rfl h64 (by omega) (by omega) hr1]
  dsimp_m
  nw
  simp_m [Nat.min_eq_left hr1]
  simp only [unview_cTrsmUL rsB rsU mtU r (nc - rr) (by omega)]

theorem segCase2_closed (m : Mem) (r rr nr nc : Nat) (rs w rsB rsU : Int) (hb : BitVec 64) (mtU : Nat)
    (fcopy : CLoop.MView → CLoop.MView → Mem) (hr1 : r ≤ nr) (hr2 : r ≤ nc) (h64 : rr % 64 = 0) (hrr : rr ≤ r)
    (hc64 : rr + 64 < nc) :
    segCase2 m r rr nc nr rs w hb 0 0 r r (((r + 63) / 64 : Nat) : Int) (leftMask (r % 64))
        (cTrsmUL ulRuss addmulM rsB rsU mtU) liftSubNew fcopy
      = segCase2 m r rr nc nr rs w hb 0 0 r r (((r + 63) / 64 : Nat) : Int) (leftMask (r % 64))
        (fun U B _ => liftM2 trsmUpperLeft U B) liftSubNew fcopy := by
  have e64 : ((rr : Nat) : Int) + 64 = ((rr + 64 : Nat) : Int) := by omega
  unfold segCase2 liftSubNew
  rw [e64,
    mzdInitWindow_in 0 rr r (rr + 64 : Nat) nr rs 0 rr r (rr + 64) nr rfl rfl rfl rfl rfl h64 (by omega)
      (by omega) hr1,
    mzdInitWindow_in 0 (rr + 64 : Nat) r nc nr rs 0 (rr + 64) r nc nr rfl rfl rfl rfl rfl
      (by omega) (by omega) (by omega) hr1]
  dsimp_m
  nw
  simp_m [Nat.min_eq_left hr1]
  simp only [unview_cTrsmUL rsB rsU mtU r (rr + 64 - rr) (by omega),
    unview_cTrsmUL rsB rsU mtU r (nc - (rr + 64)) (by omega)]

/-- **the three cases together**: on every memory, `segSolve` cannot tell the closed generated recursion from the
    lifted substitution form -/
theorem segSolve_closed (m : Mem) (r nr nc : Nat) (rs w rsB rsU : Int) (hb : BitVec 64) (mtU : Nat)
    (fcopy : CLoop.MView → CLoop.MView → Mem) (hr1 : r ≤ nr) (hr2 : r ≤ nc) :
    segSolve m r ((64 : Int) * Int.tdiv (r : Int) 64) nc nr rs w hb 0 0 r r (((r + 63) / 64 : Nat) : Int)
        (leftMask (r % 64)) (cTrsmUL ulRuss addmulM rsB rsU mtU) liftSubNew fcopy
      = segSolve m r ((64 : Int) * Int.tdiv (r : Int) 64) nc nr rs w hb 0 0 r r (((r + 63) / 64 : Nat) : Int)
        (leftMask (r % 64)) (fun U B _ => liftM2 trsmUpperLeft U B) liftSubNew fcopy := by
  unfold segSolve
  rw [radix_eq]
  by_cases h0 : r = nc
  · have d1 : ¬ ((decide (((64 * (r / 64) : Nat) : Int) = (r : Int)) && decide ((r : Int) ≠ (nc : Int))) = true) := by
      simp only [Bool.and_eq_true, decide_eq_true_eq]; omega
    rw [if_neg d1, if_neg d1]
    dsimp_m
    have d2 : ¬ ((decide (((64 * (r / 64) : Nat) : Int) ≠ (r : Int)) && decide ((r : Int) ≠ (nc : Int))) = true) := by
      simp only [Bool.and_eq_true, decide_eq_true_eq]; omega
    rw [if_neg d2, if_neg d2]
  · by_cases h64 : r % 64 = 0
    · have d1 : (decide (((64 * (r / 64) : Nat) : Int) = (r : Int)) && decide ((r : Int) ≠ (nc : Int))) = true := by
        simp only [Bool.and_eq_true, decide_eq_true_eq]; omega
      rw [if_pos d1, if_pos d1]
      exact segCase1_closed m r nr nc rs rsB rsU mtU hr1 (by omega) h64
    · have d1 : ¬ ((decide (((64 * (r / 64) : Nat) : Int) = (r : Int)) && decide ((r : Int) ≠ (nc : Int))) = true) := by
        simp only [Bool.and_eq_true, decide_eq_true_eq]; omega
      rw [if_neg d1, if_neg d1]
      dsimp_m
      have d2 : (decide (((64 * (r / 64) : Nat) : Int) ≠ (r : Int)) && decide ((r : Int) ≠ (nc : Int))) = true := by
        simp only [Bool.and_eq_true, decide_eq_true_eq]; omega
      rw [if_pos d2, if_pos d2]
      by_cases hc : 64 * (r / 64) + 64 < nc
      · have d3 : decide ((nc : Int) > ((64 * (r / 64) : Nat) : Int) + 64) = true := by
          simp only [decide_eq_true_eq]; omega
        rw [if_pos d3, if_pos d3]
        exact segCase2_closed m r (64 * (r / 64)) nr nc rs w rsB rsU hb mtU fcopy hr1 hr2 (by omega) (by omega) hc
      · have d3 : ¬ (decide ((nc : Int) > ((64 * (r / 64) : Nat) : Int) + 64) = true) := by
          simp only [decide_eq_true_eq]; omega
        rw [if_neg d3, if_neg d3]
        exact segCase3_closed m r (64 * (r / 64)) nr nc rs w rsB rsU hb mtU fcopy hr1 (by omega) (by omega)
          (by omega)

/-! ### 2. the whole generated function -/

/-- **`Gen.C.echelonizePluq` in its callee `mzd_trsm_upper_left`, general form**: arbitrary memory, arbitrary
    factorisation callees; all that is asked is that `mzd_pluq` (called when `full ≠ 0`) returns a rank
    `r ≤ nrows`, `r ≤ ncols` -/
theorem echelonizePluq_closed_gen (full : Int) (mA : Mem) (nr nc : Nat) (w : Int) (hb : BitVec 64) (fpluq fple : PleFn)
    (rs rsB rsU : Int) (mtU : Nat) (fcopy : CLoop.MView → CLoop.MView → Mem) (fapr : CLoop.MView → (Int → Int) → Mem)
    (hr : full ≠ 0 → ∃ r : Nat,
      (fpluq ⟨mA, (nr : Int), (nc : Int), w, hb⟩ (fun i : Int => 0 + i) (fun i : Int => 0 + i) 0).1 = (r : Int) ∧
        r ≤ nr ∧ r ≤ nc) :
    Gen.C.echelonizePluq full mA nr nc w hb fpluq rs (cTrsmUL ulRuss addmulM rsB rsU mtU) liftSubNew fcopy fapr fple
      = Gen.C.echelonizePluq full mA nr nc w hb fpluq rs (fun U B _ => liftM2 trsmUpperLeft U B) liftSubNew fcopy
          fapr fple := by
  rw [echelonizePluq_split, echelonizePluq_split]
  dsimp_m
  by_cases hfull : full = 0
  · have hd : ¬ decide (full ≠ 0) = true := by simp only [decide_eq_true_eq]; omega
    rw [if_neg hd, if_neg hd]
  · have hd : decide (full ≠ 0) = true := by simp only [decide_eq_true_eq]; omega
    rw [if_pos hd, if_pos hd]
    obtain ⟨r, hr0, h1, h2⟩ := hr hfull
    generalize fpluq ⟨mA, (nr : Int), (nc : Int), w, hb⟩ (fun i : Int => 0 + i) (fun i : Int => 0 + i) 0 = o at hr0 ⊢
    obtain ⟨r', m1, P1, Q1⟩ := o
    dsimp only at hr0
    subst hr0
    dsimp_m
    rw [mzdInitWindow_in 0 0 r r nr rs 0 0 r r nr rfl rfl rfl rfl rfl rfl (by omega) (by omega) h1]
    dsimp_m
    nw
    rw [segSolve_closed m1 r nr nc rs w rsB rsU hb mtU fcopy h1 h2]

/-- **the generated `mzd_echelonize_pluq` with `mzd_trsm_upper_left` bound to the CLOSED generated recursion**
    `cTrsmUL … mtU` (any depth, any row strides) returns what it returns with the lifted substitution form — all
    three `r mod 64` cases, every value of `full` -/
theorem echelonizePluq_closed_congr (fact : BMat → Rec.Out) (A : Mzd) (full : Int) (rs rsB rsU : Int) (mtU : Nat)
    (hA : A.WF) (hr1 : (fact A.toB).2.2.2 ≤ A.nrows) (hr2 : (fact A.toB).2.2.2 ≤ A.ncols) (fple : PleFn)
    (fcopy : CLoop.MView → CLoop.MView → Mem) (fapr : CLoop.MView → (Int → Int) → Mem) :
    Gen.C.echelonizePluq full (memOf A) A.nrows A.ncols A.width A.hb (liftPle fact) rs
        (cTrsmUL ulRuss addmulM rsB rsU mtU) liftSubNew fcopy fapr fple
      = Gen.C.echelonizePluq full (memOf A) A.nrows A.ncols A.width A.hb (liftPle fact) rs
        (fun U B _ => liftM2 trsmUpperLeft U B) liftSubNew fcopy fapr fple := by
  apply echelonizePluq_closed_gen
  intro _
  refine ⟨(fact A.toB).2.2.2, ?_, hr1, hr2⟩
  unfold GenTiePle.liftPle
  rw [ofView_whole A hA]

/-- **the tie theorem for `mzd_echelonize_pluq(A, full)` over the closed generated `_mzd_trsm_upper_left`**, both
    values of `full`, all three `r mod 64` cases: = the model `PN.echelonizePluq fact` -/
theorem echelonizePluq_closed (fact : BMat → Rec.Out) (A : Mzd) (full : Bool) (rs rsB rsU : Int) (mtU : Nat)
    (hA : A.WF) (hc : 1 ≤ A.ncols)
    (hS : Shaped (fact A.toB).1 A.nrows A.ncols) (hr1 : (fact A.toB).2.2.2 ≤ A.nrows)
    (hr2 : (fact A.toB).2.2.2 ≤ A.ncols) (hQs : (fact A.toB).2.2.1.size = A.ncols)
    (hQ : ∀ i, i < (fact A.toB).2.2.2 → (fact A.toB).2.2.1.getD i 0 < A.ncols) :
    Gen.C.echelonizePluq (if full then 1 else 0) (memOf A) A.nrows A.ncols A.width A.hb (liftPle fact) rs
        (cTrsmUL ulRuss addmulM rsB rsU mtU) liftSubNew liftCopy liftApplyPRight (liftPle fact)
      = Gen.C.echelonizePluq (if full then 1 else 0) (memOf A) A.nrows A.ncols A.width A.hb (liftPle fact) rs
          (fun U B _ => liftM2 trsmUpperLeft U B) liftSubNew liftCopy liftApplyPRight (liftPle fact) ∧
      Gen.C.echelonizePluq (if full then 1 else 0) (memOf A) A.nrows A.ncols A.width A.hb (liftPle fact) rs
        (cTrsmUL ulRuss addmulM rsB rsU mtU) liftSubNew liftCopy liftApplyPRight (liftPle fact)
      = ((((fact A.toB).2.2.2 : Nat) : Int), memOf (A.putB (PN.echelonizePluq fact A.toB full).1)) := by
  have h := echelonizePluq_closed_congr fact A (if full then 1 else 0) rs rsB rsU mtU hA hr1 hr2 (liftPle fact)
    liftCopy liftApplyPRight
  exact ⟨h, h.trans (echelonizePluq_eq fact A full rs hA hc hS hr1 hr2 hQs hQ)⟩

/-! ### 3. end to end -/

/-- `c_echelonize_pluq` with the closed `_mzd_trsm_upper_left`: equality of the two generated texts -/
theorem c_echelonize_pluq_closed_eq (base : BMat → Rec.Out) (hbase : Rec.GoodBase base)
    (hbx : ∀ A : BMat, A.WF → G2.Extra A (base A)) (baseRows : Nat) (rs rsB rsU : Int) (mt n mtU : Nat) (full : Int)
    (A : Mzd) (hA : A.WF) (hc : 1 ≤ A.ncols) (fple : PleFn)
    (fcopy : CLoop.MView → CLoop.MView → Mem) (fapr : CLoop.MView → (Int → Int) → Mem) :
    Gen.C.echelonizePluq full (memOf A) A.nrows A.ncols A.width A.hb (cPluq base baseRows rs mt n) rs
        (cTrsmUL ulRuss addmulM rsB rsU mtU) liftSubNew fcopy fapr fple
      = Gen.C.echelonizePluq full (memOf A) A.nrows A.ncols A.width A.hb (cPluq base baseRows rs mt n) rs
        (fun U B _ => liftM2 trsmUpperLeft U B) liftSubNew fcopy fapr fple := by
  have hple : G2.GoodPle (pleM base baseRows n) := G2.goodPle_pleRec hbase hbx 64 524288 baseRows n
  obtain ⟨hS, hP, hQs, hQ, hr1, hr2⟩ := pluqOfPle_facts hple (Mzd.WF_toB hA)
  rw [Mzd.nrows_toB] at hr1
  rw [Mzd.ncols_toB] at hr2
  have hf := cPluq_agree base hbase hbx baseRows rs mt n 0 A hA hc (fun i : Int => 0 + i) (fun i : Int => 0 + i)
  rw [echelonizePluq_congr (cPluq base baseRows rs mt n) (liftPle (pluqM base baseRows n)) fple fple full (memOf A)
      A.nrows A.ncols A.width A.hb rs _ _ _ _ hf (CallAgree.refl _ _ _),
    echelonizePluq_congr (cPluq base baseRows rs mt n) (liftPle (pluqM base baseRows n)) fple fple full (memOf A)
      A.nrows A.ncols A.width A.hb rs _ _ _ _ hf (CallAgree.refl _ _ _)]
  exact echelonizePluq_closed_congr (pluqM base baseRows n) A full rs rsB rsU mtU hA hr1 hr2 fple fcopy fapr

/-- **C02 ON THE GENERATED TEXT, triangular solve included — `mzd_echelonize_pluq(A, 1)`**: the generated function
    over the generated `_mzd_pluq` over the closed generated `_mzd_ple`, with `mzd_trsm_upper_left` := the closed
    generated `_mzd_trsm_upper_left` (any depth `mtU`), returns `rank A` and leaves in `A` THE reduced row echelon
    form of `A` (all three `r mod 64` cases) -/
theorem c_echelonize_pluq_closed (base : BMat → Rec.Out) (hbase : Rec.GoodBase base)
    (hbx : ∀ A : BMat, A.WF → G2.Extra A (base A)) (baseRows : Nat) (rs rsB rsU : Int) (mt n mtU : Nat)
    (A : Mzd) (hA : A.WF) (hc : 1 ≤ A.ncols) (fple : PleFn) :
    Gen.C.echelonizePluq 1 (memOf A) A.nrows A.ncols A.width A.hb (cPluq base baseRows rs mt n) rs
        (cTrsmUL ulRuss addmulM rsB rsU mtU) liftSubNew liftCopy liftApplyPRight fple
      = ((A.toB.rank : Int), memOf (A.putB A.toB.rref)) := by
  rw [c_echelonize_pluq_closed_eq base hbase hbx baseRows rs rsB rsU mt n mtU 1 A hA hc fple]
  exact c_echelonize_pluq base hbase hbx baseRows rs mt n A hA hc fple

/-- the instance named in the task: both row strides of the closed recursion := the row stride of `A` -/
theorem c_echelonize_pluq_closed_rs (base : BMat → Rec.Out) (hbase : Rec.GoodBase base)
    (hbx : ∀ A : BMat, A.WF → G2.Extra A (base A)) (baseRows : Nat) (rs : Int) (mt n mtU : Nat)
    (A : Mzd) (hA : A.WF) (hc : 1 ≤ A.ncols) (fple : PleFn) :
    Gen.C.echelonizePluq 1 (memOf A) A.nrows A.ncols A.width A.hb (cPluq base baseRows rs mt n) rs
        (cTrsmUL ulRuss addmulM rs rs mtU) liftSubNew liftCopy liftApplyPRight fple
      = ((A.toB.rank : Int), memOf (A.putB A.toB.rref)) :=
  c_echelonize_pluq_closed base hbase hbx baseRows rs rs rs mt n mtU A hA hc fple

#print axioms segSolve_closed
#print axioms echelonizePluq_closed_gen
#print axioms echelonizePluq_closed_congr
#print axioms echelonizePluq_closed
#print axioms c_echelonize_pluq_closed_eq
#print axioms c_echelonize_pluq_closed
#print axioms c_echelonize_pluq_closed_rs

end M4ri.GenTieEch2
