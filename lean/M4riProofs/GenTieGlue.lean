/-
  GenTieGlue: ties of three generated glue functions of `M4ri/Gen/CFuns.lean` with their models.

  §3  `Gen.C.trtriUpperRec` = C `mzd_trtri_upper(U)` (triangular.c) against `BMat.Rec.trtriRec (2 * 56623104) 2048 64 2048 true`:
        `trtriUpperRec_step`   one step at `fuel + 1`: base routine := `liftM1` of the substitution form, the two recursive
                               calls := `liftM1 (trtriRec … fuel)`, the callees of the two TRANSLATED routines
                               `Gen.C.trsmUpperLeftRec` / `Gen.C.trsmUpperRightRec` (applied to views, cutoff 0) as in
                               GenTieRec (`…_window` forms; their own recursive calls at ANY fuel `g`: the model's TRSM
                               recursions do not depend on the fuel, `Rec.trsm…Rec_eq`).
                               Hypotheses: `U.WF`, `U.ncols = U.nrows`, `U.nrows * U.ncols < 2 ^ 64` (the `size_t` product
                               is exact; implied by `rci_t = int`).
        `regime_eq`            the `BitVec 64` regime test = the test on naturals (exact product)
        `regime_overflow`      … and NOT otherwise: `n = 2^32` gives product `0` in C (base regime), recursion in the model
        `trtriSplit_eq`        the generated split (SSE2 rounding) = `Rec.trtriSplit n true`
        `trtriSplit_lt`        inside the regime `n·n ≥ 2·L3` (`n ≥ 10642`) the split satisfies `0 < n2 < n`, `64 ∣ n2`:
                               the C `assert(n2 < n)` holds and the model's branch `¬ n2 < n` is dead
                               (`trtriRec_succ_of_regime`); the generated code has NO test there (assert compiled out)
        `shaped_trtriRec`      shape of the model's result on any well-formed square matrix (no triangularity needed)
  §1  `Gen.C.pluqFromPle` = C `_mzd_pluq` (ple.c) against `BMat.G2.pluqOfPle` (M4ri/Glue2.lean):
        `pluqFromPle_eq`       `_mzd_ple` := `GenTiePle.liftPle ple` (any model `ple`), `mzd_apply_p_right_trans_tri` :=
                               `liftTri` (`BMat.applyPRightTransTri` on ALL rows of the record it is given, `Q` read as
                               the first `ncols` entries of the permutation memory).  Contract on `ple A`: storage
                               well-formed of the shape of `A`, `Q[i] < ncols` for `i < ncols`.  (`r ≤ nrows`,
                               `Q.size = ncols` are not needed.)
        `paste_tri_eq`         window form = row-bounded form of the model (as `Top.paste_tri_eq`)
  §2  `Gen.C.solveLeftTop` = C `_mzd_solve_left` (solve.c) against `BMat.SV.solveLeft` (M4ri/Glue.lean):
        `solveLeftTop_eq`      `_mzd_pluq` := `liftPle fact`, `mzd_pluq_solve_left` := `liftSolve` (`BMat.pluqSolveLeft`;
                               `P`, `Q` read as arrays of lengths `A->nrows`, `A->ncols`); the padding-row test is the
                               TRANSLATED `Gen.C.mzdIsZero` on the view of `Bpad`.  Contract on `fact A`: storage of the
                               shape of `A`, `P.size = nrows`, `Q.size = ncols`.  `1 ≤ B.ncols` (`mzd_is_zero` reads
                               `row[width - 1]`).
        `solveLeftTop_gen`     any `_mzd_pluq` that agrees with the lift at the call site
        `solveLeftTop_pluqFromPle`  `_mzd_pluq` := the translated `Gen.C.pluqFromPle` (composition with §1)
  Core Lean tactics only.
-/
import M4riProofs.GenTieRec
import M4riProofs.GenTieSolve
import M4riProofs.GenTiePle
import M4riProofs.Glue2
set_option linter.unusedVariables false
namespace M4ri.GenTieGlue
open M4ri M4ri.Gen M4ri.GenTieMem M4ri.GenTieView M4ri.BMat M4ri.GenTieAlg M4ri.GenTieRec

/-! ### 0. one-matrix callees -/

/-- a callee `f(U)` that overwrites its argument -/
def liftM1 (op : BMat → BMat) (U : CLoop.MView) : Int → Int → BitVec 64 :=
  memOf ((Mzd.ofView U).putB (op (Mzd.ofView U).toB))

theorem liftM1_of (op : BMat → BMat) (U : Mzd) (hU : U.WF) :
    liftM1 op ⟨memOf U, (U.nrows : Int), (U.ncols : Int), (U.width : Int), U.hb⟩ = memOf (U.putB (op U.toB)) := by
  have eU := ofView_of U hU
  unfold CLoop.MView.of at eU
  unfold liftM1
  rw [eU]

theorem call1_window (op : BMat → BMat) (M : Mzd) (hM : M.WF) (lr lc hr hc : Nat) (hW : InWin M lr lc hr hc)
    (hXr : (op (M.toB.sub lr lc hr hc)).nrows = hr - lr) (hXc : (op (M.toB.sub lr lc hr hc)).ncols = hc - lc) :
    CLoop.unview (memOf M) (lr : Int) ((lc / 64 : Nat) : Int) ((hr - lr : Nat) : Int)
        (((hc - lc + 63) / 64 : Nat) : Int) (liftM1 op (winView (memOf M) lr lc hr hc))
      = memOf (M.putB (M.toB.paste lr lc (op (M.toB.sub lr lc hr hc)))) := by
  have e : liftM1 op (winView (memOf M) lr lc hr hc)
      = memOf ((M.window lr lc hr hc).putB (op (M.window lr lc hr hc).toB)) := rfl
  rw [e, window_toB M _ _ _ _ hW.lc hW.hr hW.hc]
  exact unview_window_putB M hM lr lc hr hc hW.lc hW.hr hW.hc _ hXr hXc

/-! ### 3. `mzd_trtri_upper` -/

/-- the regime test in `size_t` arithmetic is the test on naturals as long as the product is exact -/
theorem regime_eq (n m : Nat) (h : n * m < 2 ^ 64) :
    decide (((BitVec.ofInt 64 (n : Int)) * (BitVec.ofInt 64 (m : Int))) < ((2#64) * (56623104#64)))
      = decide (n * m < 2 * 56623104) := by
  rw [decide_eq_decide, BitVec.ofInt_natCast, BitVec.ofInt_natCast, BitVec.lt_def, BitVec.toNat_mul,
    BitVec.toNat_ofNat, BitVec.toNat_ofNat, ← Nat.mul_mod, Nat.mod_eq_of_lt h]
  rfl

/-- the split of the generated code -/
theorem trtriSplit_eq (n : Nat) :
    (if (decide ((Int.tmod (((Int.tdiv ((n : Int) - (1 : Int)) (64 : Int)) + (1 : Int)) >>> ((1 : Int)).toNat) (2 : Int)) ≠ (0 : Int)))
      then (((Int.tdiv ((n : Int) - (1 : Int)) (64 : Int)) + (1 : Int)) >>> ((1 : Int)).toNat) + (1 : Int)
      else (((Int.tdiv ((n : Int) - (1 : Int)) (64 : Int)) + (1 : Int)) >>> ((1 : Int)).toNat)) * (64 : Int)
      = ((Rec.trtriSplit n true : Nat) : Int) := by
  have h : (((Int.tdiv ((n : Int) - (1 : Int)) (64 : Int)) + (1 : Int)) >>> ((1 : Int)).toNat)
      = (((((n - 1) / 64 + 1) >>> 1 : Nat)) : Int) := by
    rcases n with _ | n
    · decide
    · have : (((n + 1 : Nat) : Int) - 1) = (n : Int) := by omega
      rw [this, show (64 : Int) = ((64 : Nat) : Int) from rfl, GenTie.tdiv_nat]
      have : ((n / 64 : Nat) : Int) + 1 = ((n / 64 + 1 : Nat) : Int) := by omega
      rw [this, show ((1 : Int)).toNat = 1 from rfl, GenTie.int_shiftRight_one]
      simp only [Nat.add_sub_cancel]
  rw [h]
  unfold Rec.trtriSplit
  generalize ((n - 1) / 64 + 1) >>> 1 = k
  rw [show (2 : Int) = ((2 : Nat) : Int) from rfl, GenTie.tmod_nat]
  by_cases hk : k % 2 = 0
  · rw [if_neg (by simp; omega)]
    simp [hk]
  · rw [if_pos (by simp; omega)]
    simp [hk]

/-- inside the regime `n·n ≥ 2·L3` the split is a proper one (the C `assert(n2 < n)` holds) -/
theorem trtriSplit_lt (n : Nat) (h : ¬ n * n < 2 * 56623104) :
    Rec.trtriSplit n true < n ∧ Rec.trtriSplit n true % 64 = 0 ∧ 0 < Rec.trtriSplit n true := by
  have hn : 10642 ≤ n := by
    apply Classical.byContradiction
    intro hc
    have h1 : n ≤ 10641 := by omega
    have := Nat.mul_le_mul h1 h1
    omega
  unfold Rec.trtriSplit
  simp only [true_and, Nat.shiftRight_eq_div_pow]
  split <;> omega

/-- without exactness the two regime tests differ: `n = 2^32` (outside `rci_t`) has `size_t` product `0` -/
theorem regime_overflow :
    decide (((BitVec.ofInt 64 ((2 ^ 32 : Nat) : Int)) * (BitVec.ofInt 64 ((2 ^ 32 : Nat) : Int)))
      < ((2#64) * (56623104#64))) = true ∧ ¬ ((2 ^ 32) * (2 ^ 32) < 2 * 56623104) := by
  decide

/-- inside the regime the model's branch `¬ n2 < n` is dead: the step of the model is the recursive one -/
theorem trtriRec_succ_of_regime (fuel : Nat) (U : BMat) (hsq : U.ncols = U.nrows)
    (h : ¬ U.nrows * U.ncols < 2 * 56623104) :
    Rec.trtriRec (2 * 56623104) 2048 64 2048 true (fuel + 1) U =
      (let n := U.nrows
       let n2 := Rec.trtriSplit n true
       let U00 := U.sub 0 0 n2 n2
       let U01 := U.sub 0 n2 n2 n
       let U11 := U.sub n2 n2 n n
       let U01 := Rec.trsmUpperLeftRec 2048 fuel U00 U01
       let U01 := Rec.trsmUpperRightRec 64 2048 fuel U11 U01
       let U00 := Rec.trtriRec (2 * 56623104) 2048 64 2048 true fuel U00
       let U11 := Rec.trtriRec (2 * 56623104) 2048 64 2048 true fuel U11
       ((U.paste 0 0 U00).paste 0 n2 U01).paste n2 n2 U11) := by
  rw [Rec.trtriRec]
  have hk := (trtriSplit_lt U.nrows (by rw [hsq] at h; exact h)).1
  simp only []
  rw [if_neg h, if_neg (by omega)]

theorem shaped_trtriRec (fuel : Nat) {U : BMat} {n : Nat} (hU : Shaped U n n) :
    Shaped (Rec.trtriRec (2 * 56623104) 2048 64 2048 true fuel U) n n := by
  induction fuel generalizing U n with
  | zero =>
    refine ⟨trsmUpperRight_WF U (identity_WF _), ?_, ?_⟩ <;> simp [Rec.trtriRec, hU.nr]
  | succ fuel ih =>
    have hbase : Shaped (trsmUpperRight U (identity U.nrows)) n n := by
      refine ⟨trsmUpperRight_WF U (identity_WF _), ?_, ?_⟩ <;> simp [hU.nr]
    rw [Rec.trtriRec]
    simp only []
    split
    · exact hbase
    · split
      · exact hbase
      · rename_i _ hn2
        rw [hU.nr] at hn2 ⊢
        have hn2' : Rec.trtriSplit n true < n := by omega
        generalize Rec.trtriSplit n true = k at *
        have h00 := ih (hU.sub 0 0 k k (by omega))
        have h11 := ih (hU.sub k k n n (Nat.le_refl _))
        have h01 := shaped_urRec 64 2048 fuel (U := U.sub k k n n)
          (shaped_ulRec 2048 fuel (U := U.sub 0 0 k k) (hU.sub 0 k k n (by omega)) (by simp [hU.nr]; omega))
          (by simp [hU.nr])
        exact ((hU.paste _ 0 0 (by rw [h00.nc]; omega)).paste _ 0 k (by rw [h01.nc]; omega)).paste _ k k
          (by rw [h11.nc]; omega)

/-- **one step of `mzd_trtri_upper`**: with the base routine instantiated by the substitution form, the two
    recursive calls by the model's recursion at `fuel`, the callees of the two translated TRSM routines by the model's
    operations (their recursive calls at any fuel `g`) the generated function computes the model's step -/
theorem trtriUpperRec_step (fuel g : Nat) (rsU : Int) (U : Mzd) (hU : U.WF) (hsq : U.ncols = U.nrows)
    (hex : U.nrows * U.ncols < 2 ^ 64) :
    Gen.C.trtriUpperRec (memOf U) U.nrows U.ncols U.width U.hb
      (fun U _ => liftM1 (fun U => trsmUpperRight U (identity U.nrows)) U) rsU
      (fun U B _ => liftM2 trsmUpperLeft U B)
      (fun U B _ => liftM2 (Rec.trsmUpperLeftRec 2048 g) U B)
      (fun C A B _ => liftM3 (fun C A B => C.add (A.mul B)) C A B)
      (liftM2 trsmUpperRight) (liftM2 fun U B => B.mul (trsmUpperRight U (identity U.nrows)))
      (fun U B _ => liftM2 (Rec.trsmUpperRightRec 64 2048 g) U B)
      (fun C A B _ => liftM3 (fun C A B => C.add (A.mul B)) C A B)
      (liftM1 (Rec.trtriRec (2 * 56623104) 2048 64 2048 true fuel))
    = memOf (U.putB (Rec.trtriRec (2 * 56623104) 2048 64 2048 true (fuel + 1) U.toB)) := by
  unfold Gen.C.trtriUpperRec
  rw [Rec.trtriRec]
  dsimp_m
  simp_m [regime_eq _ _ hex, Mzd.nrows_toB, Mzd.ncols_toB, trtriSplit_eq]
  by_cases hreg : U.nrows * U.ncols < 2 * 56623104
  · rw [if_pos (by simpa using hreg), if_pos hreg]
    exact liftM1_of _ U hU
  · rw [if_neg (by simpa using hreg), if_neg hreg]
    obtain ⟨hk, hk64, hk0⟩ := trtriSplit_lt U.nrows (by rw [hsq] at hreg; exact hreg)
    rw [if_neg (by omega)]
    generalize Rec.trtriSplit U.nrows true = n2 at *
    generalize hn : U.nrows = n at *
    rw [mzdInitWindow_in 0 0 n2 n2 n rsU 0 0 n2 n2 n rfl rfl rfl rfl rfl (by omega) (by omega) (by omega)
        (by omega),
      mzdInitWindow_in 0 n2 n2 n n rsU 0 n2 n2 n n rfl rfl rfl rfl rfl hk64 (by omega) (by omega) (by omega),
      mzdInitWindow_in n2 n2 n n n rsU n2 n2 n n n rfl rfl rfl rfl rfl hk64 (by omega) (by omega) (by omega)]
    dsimp_m
    norm_win
    have hUs : Shaped U.toB n n := ⟨Mzd.WF_toB hU, hn, hsq⟩
    have hS00 := hUs.sub 0 0 n2 n2 (by omega)
    have hS01 := hUs.sub 0 n2 n2 n (by omega)
    have hS11 := hUs.sub n2 n2 n n (Nat.le_refl _)
    have w00 : InWin U 0 0 n2 n2 := ⟨rfl, by omega, by omega⟩
    have w01 : InWin U 0 n2 n2 n := ⟨hk64, by omega, by omega⟩
    -- U01 = U00⁻¹ U01
    have s1 := trsmUpperLeftRec_window g 0 rsU rsU U U hU 0 n2 n2 n 0 0 n2 n2 w01 w00 rfl rfl (by omega)
    norm_win at s1
    have e1 : Rec.trsmUpperLeftRec 2048 (g + 1) (U.toB.sub 0 0 n2 n2) (U.toB.sub 0 n2 n2 n)
        = Rec.trsmUpperLeftRec 2048 fuel (U.toB.sub 0 0 n2 n2) (U.toB.sub 0 n2 n2 n) := by
      rw [Rec.trsmUpperLeftRec_eq 2048 (g + 1) hS01.wf (by rw [hS00.nr, hS01.nr]),
        Rec.trsmUpperLeftRec_eq 2048 fuel hS01.wf (by rw [hS00.nr, hS01.nr])]
    rw [s1, e1]
    have hX1 : Shaped (Rec.trsmUpperLeftRec 2048 fuel (U.toB.sub 0 0 n2 n2) (U.toB.sub 0 n2 n2 n)) (n2 - 0) (n - n2) :=
      shaped_ulRec 2048 fuel hS01 (by rw [hS00.nr])
    generalize hX1' : Rec.trsmUpperLeftRec 2048 fuel (U.toB.sub 0 0 n2 n2) (U.toB.sub 0 n2 n2 n) = X1 at hX1 ⊢
    have hY1 : Shaped (U.toB.paste 0 n2 X1) n n := shaped_paste_win hUs 0 n2 n2 n hX1 (by omega) (Nat.le_refl _)
    obtain ⟨M1W, M1B, M1r, M1c⟩ := putB_state hU hY1.wf (by rw [hY1.nr, hn]) (by rw [hY1.nc, hsq])
    generalize hM1 : U.putB (U.toB.paste 0 n2 X1) = M1 at M1W M1B M1r M1c ⊢
    -- U01 = U01 U11⁻¹
    have s2 := trsmUpperRightRec_window g 0 rsU rsU M1 M1 M1W 0 n2 n2 n n2 n2 n n ⟨hk64, by omega, by omega⟩
      ⟨hk64, by omega, by omega⟩ rfl rfl
    norm_win at s2
    have e2 : Rec.trsmUpperRightRec 64 2048 (g + 1) (U.toB.sub n2 n2 n n) X1
        = Rec.trsmUpperRightRec 64 2048 fuel (U.toB.sub n2 n2 n n) X1 := by
      rw [Rec.trsmUpperRightRec_eq 64 2048 (g + 1) hX1.wf (by rw [hS11.nr, hX1.nc]),
        Rec.trsmUpperRightRec_eq 64 2048 fuel hX1.wf (by rw [hS11.nr, hX1.nc])]
    rw [s2, M1B, sub_paste_disj hUs 0 n2 n2 n hX1 (by omega) (by omega) (Nat.le_refl _) n2 n2 n n (Nat.le_refl _)
        (Or.inr (Or.inl (Nat.le_refl _))),
      sub_paste_self hUs 0 n2 n2 n hX1 (by omega) (by omega) (Nat.le_refl _), e2]
    have hX2 : Shaped (Rec.trsmUpperRightRec 64 2048 fuel (U.toB.sub n2 n2 n n) X1) (n2 - 0) (n - n2) :=
      shaped_urRec 64 2048 fuel hX1 (by rw [hS11.nr])
    generalize hX2' : Rec.trsmUpperRightRec 64 2048 fuel (U.toB.sub n2 n2 n n) X1 = X2 at hX2 ⊢
    have hY2 : Shaped ((U.toB.paste 0 n2 X1).paste 0 n2 X2) n n :=
      shaped_paste_win hY1 0 n2 n2 n hX2 (by omega) (Nat.le_refl _)
    obtain ⟨M2W, M2B, M2r, M2c⟩ := putB_state M1W hY2.wf (by rw [hY2.nr, M1r, hn]) (by rw [hY2.nc, M1c, hsq])
    generalize hM2 : M1.putB ((U.toB.paste 0 n2 X1).paste 0 n2 X2) = M2 at M2W M2B M2r M2c ⊢
    -- U00 = U00⁻¹
    have hZ0 : Shaped (Rec.trtriRec (2 * 56623104) 2048 64 2048 true fuel (M2.toB.sub 0 0 n2 n2)) (n2 - 0) (n2 - 0) := by
      rw [M2B]; exact shaped_trtriRec fuel (hY2.sub 0 0 n2 n2 (by omega))
    have s3 := call1_window (Rec.trtriRec (2 * 56623104) 2048 64 2048 true fuel) M2 M2W 0 0 n2 n2 ⟨rfl, by omega, by omega⟩ hZ0.nr hZ0.nc
    norm_win at s3
    rw [s3]
    rw [M2B, sub_paste_disj hY1 0 n2 n2 n hX2 (by omega) (by omega) (Nat.le_refl _) 0 0 n2 n2 (by omega)
        (Or.inr (Or.inr (Or.inl (Nat.le_refl _)))),
      sub_paste_disj hUs 0 n2 n2 n hX1 (by omega) (by omega) (Nat.le_refl _) 0 0 n2 n2 (by omega)
        (Or.inr (Or.inr (Or.inl (Nat.le_refl _))))] at hZ0 ⊢
    generalize hZ0' : Rec.trtriRec (2 * 56623104) 2048 64 2048 true fuel (U.toB.sub 0 0 n2 n2) = Z0 at hZ0 ⊢
    have hY3 : Shaped (((U.toB.paste 0 n2 X1).paste 0 n2 X2).paste 0 0 Z0) n n :=
      shaped_paste_win hY2 0 0 n2 n2 hZ0 (by omega) (by omega)
    obtain ⟨M3W, M3B, M3r, M3c⟩ := putB_state M2W hY3.wf (by rw [hY3.nr, M2r, M1r, hn])
      (by rw [hY3.nc, M2c, M1c, hsq])
    generalize hM3 : M2.putB (((U.toB.paste 0 n2 X1).paste 0 n2 X2).paste 0 0 Z0) = M3 at M3W M3B M3r M3c ⊢
    -- U11 = U11⁻¹
    have hZ1 : Shaped (Rec.trtriRec (2 * 56623104) 2048 64 2048 true fuel (M3.toB.sub n2 n2 n n)) (n - n2) (n - n2) := by
      rw [M3B]; exact shaped_trtriRec fuel (hY3.sub n2 n2 n n (Nat.le_refl _))
    have s4 := call1_window (Rec.trtriRec (2 * 56623104) 2048 64 2048 true fuel) M3 M3W n2 n2 n n ⟨hk64, by omega, by omega⟩ hZ1.nr hZ1.nc
    norm_win at s4
    rw [s4]
    rw [M3B, sub_paste_disj hY2 0 0 n2 n2 hZ0 (by omega) (by omega) (by omega) n2 n2 n n (Nat.le_refl _)
        (Or.inr (Or.inl (Nat.le_refl _))),
      sub_paste_disj hY1 0 n2 n2 n hX2 (by omega) (by omega) (Nat.le_refl _) n2 n2 n n (Nat.le_refl _)
        (Or.inr (Or.inl (Nat.le_refl _))),
      sub_paste_disj hUs 0 n2 n2 n hX1 (by omega) (by omega) (Nat.le_refl _) n2 n2 n n (Nat.le_refl _)
        (Or.inr (Or.inl (Nat.le_refl _)))] at hZ1 ⊢
    rw [← hM3, ← hM2, ← hM1, Mzd.putB_putB hU, Mzd.putB_putB hU, Mzd.putB_putB hU,
      paste_paste_self hUs 0 n2 n2 n hX1 hX2 (by omega) (by omega) (Nat.le_refl _),
      paste_comm_disj hUs 0 n2 n2 n hX2 (by omega) (by omega) (Nat.le_refl _) 0 0 n2 n2 hZ0 (by omega) (by omega)
        (by omega) (Or.inr (Or.inr (Or.inl (Nat.le_refl _))))]


/-! ### 1. `_mzd_pluq` -/

/-- the first `n` entries of a permutation memory as an array -/
def permOfMem (q : Int → Int) (n : Nat) : Array Nat := (Array.range n).map fun (i : Nat) => (q (i : Int)).toNat

theorem permOfMem_arrOf (Q : Array Nat) (n i : Nat) (hi : i < n) :
    (permOfMem (GenTieTab.arrOf Q) n).getD i 0 = Q.getD i 0 := by
  unfold permOfMem GenTieTab.arrOf
  simp [Array.getD, hi]

/-- `mzd_apply_p_right_trans_tri(A, Q)` as the model operation (all rows of the record it is given; it reads
    `Q->values[i]` for `i < A->ncols`) -/
def liftTri (V : CLoop.MView) (q : Int → Int) : Int → Int → BitVec 64 :=
  memOf ((Mzd.ofView V).putB ((Mzd.ofView V).toB.applyPRightTransTri (permOfMem q V.ncols.toNat)))

theorem liftTri_of (M : Mzd) (hM : M.WF) (q : Int → Int) :
    liftTri ⟨memOf M, (M.nrows : Int), (M.ncols : Int), (M.width : Int), M.hb⟩ q
      = memOf (M.putB (M.toB.applyPRightTransTri (permOfMem q M.ncols))) := by
  have e := ofView_of M hM
  unfold CLoop.MView.of at e
  unfold liftTri
  rw [e]
  rfl

/-- the routine only reads `Q[i]` for `i < ncols` -/
theorem tri_congr (M : BMat) (Q Q' : Array Nat) (h : ∀ i, i < M.ncols → Q.getD i 0 = Q'.getD i 0) :
    M.applyPRightTransTri Q = M.applyPRightTransTri Q' := by
  unfold BMat.applyPRightTransTri
  have key : ∀ (l : List Nat) (X : BMat), (∀ i, i ∈ l → i < M.ncols) →
      l.foldl (fun M i => M.swapColsInRows i (Q.getD i 0) 0 (min M.nrows i)) X =
        l.foldl (fun M i => M.swapColsInRows i (Q'.getD i 0) 0 (min M.nrows i)) X := by
    intro l
    induction l with
    | nil => intro X _; rfl
    | cons a l ih =>
      intro X hl
      simp only [List.foldl_cons]
      rw [h a (hl a List.mem_cons_self)]
      exact ih _ (fun i hi => hl i (List.mem_cons_of_mem _ hi))
  exact key _ M (fun i hi => List.mem_range.mp hi)

theorem tri_shape (M : BMat) (Q : Array Nat) :
    (M.applyPRightTransTri Q).nrows = M.nrows ∧ (M.applyPRightTransTri Q).ncols = M.ncols := by
  rw [← G2.applyPRightTransTriRows_nrows]
  obtain ⟨sh, -⟩ := G2.tri_get M Q M.nrows
  exact ⟨sh.1, sh.2.1⟩

open PN in
/-- `mzd_apply_p_right_trans_tri` on the window of the first `r` rows, written back, is the row-bounded form of the
    model (`Top.paste_tri_eq`, reproved here to keep the imports light) -/
theorem paste_tri_eq {S : BMat} (hS : S.WF) {Q : Array Nat} (hQ : ∀ i, i < S.ncols → Q.getD i 0 < S.ncols)
    {r : Nat} (hr : r ≤ S.nrows) :
    S.paste 0 0 ((S.sub 0 0 r S.ncols).applyPRightTransTri Q) = G2.applyPRightTransTriRows S Q r := by
  have eW : (S.sub 0 0 r S.ncols).applyPRightTransTri Q =
      G2.applyPRightTransTriRows (S.sub 0 0 r S.ncols) Q (S.sub 0 0 r S.ncols).nrows :=
    (G2.applyPRightTransTriRows_nrows _ Q).symm
  have enr : (S.sub 0 0 r S.ncols).nrows = r := by rw [nrows_sub]; omega
  have enc : (S.sub 0 0 r S.ncols).ncols = S.ncols := by rw [ncols_sub]; omega
  rw [eW, enr]
  obtain ⟨shW, gW⟩ := G2.tri_get (S.sub 0 0 r S.ncols) Q r
  obtain ⟨shS, gS⟩ := G2.tri_get S Q r
  rw [enc] at gW
  generalize G2.applyPRightTransTriRows (S.sub 0 0 r S.ncols) Q r = W' at shW gW
  have sP : Shaped (S.paste 0 0 W') S.nrows S.ncols :=
    (Shaped.of hS).paste W' 0 0 (by rw [shW.2.1, enc]; omega)
  apply ext_get sP.wf (G2.tri_WF hS hQ r) (by rw [shS.1]; rfl) (by rw [shS.2.1]; rfl)
  intro i j hi hj
  have hi' : i < S.nrows := hi
  have hj' : j < S.ncols := hj
  rw [get_paste, gS, shW.1, shW.2.1, enr, enc, hS.1]
  by_cases hir : i < r
  · rw [if_pos ⟨hi', Nat.zero_le _, by omega, Nat.zero_le _, by omega⟩, if_pos hir, Nat.sub_zero, Nat.sub_zero, gW,
      if_pos hir, get_sub]
    have hlt : rowPermInv Q (min (i + 1) S.ncols) (rowPerm Q S.ncols j) < S.ncols := by
      have p1 := rowPerm_permOn Q S.ncols S.ncols (Nat.le_refl _) hQ
      have p2 := rowPerm_permOn Q S.ncols (min (i + 1) S.ncols) (Nat.min_le_right _ _)
        (fun t ht => hQ t (by omega))
      exact (p2.1 _ (p1.1 j hj').1).2
    have : i < min (r - 0) (S.nrows - 0) ∧ rowPermInv Q (min (i + 1) S.ncols) (rowPerm Q S.ncols j) < S.ncols - 0 :=
      ⟨by omega, by omega⟩
    simp only [this, decide_true, Bool.true_and, Nat.zero_add, and_self]
  · rw [if_neg (by omega), if_neg hir]

/-- **`_mzd_pluq`** (`Gen.C.pluqFromPle`): with `_mzd_ple` instantiated by the lift of any model `ple` whose result
    on `A` has the shape of `A` and a `Q` with entries `< ncols`, and `mzd_apply_p_right_trans_tri` by the lift of the
    model operation on the record it is given, the generated function returns what `G2.pluqOfPle ple` returns -/
theorem pluqFromPle_eq (ple : BMat → Rec.Out) (cutoff rs : Int) (A : Mzd) (hA : A.WF) (p0 q0 : Int → Int)
    (hS : Shaped (ple A.toB).1 A.nrows A.ncols)
    (hQ : ∀ i, i < A.ncols → (ple A.toB).2.2.1.getD i 0 < A.ncols) :
    Gen.C.pluqFromPle cutoff (memOf A) p0 q0 A.nrows A.ncols A.width A.hb (GenTiePle.liftPle ple) rs liftTri
      = ((((G2.pluqOfPle ple A.toB).2.2.2 : Nat) : Int), memOf (A.putB (G2.pluqOfPle ple A.toB).1),
          GenTieTab.arrOf (G2.pluqOfPle ple A.toB).2.1, GenTieTab.arrOf (G2.pluqOfPle ple A.toB).2.2.1) := by
  unfold Gen.C.pluqFromPle G2.pluqOfPle GenTiePle.liftPle
  have eA := ofView_of A hA
  unfold CLoop.MView.of at eA
  dsimp_m
  rw [eA]
  generalize ple A.toB = o at hS hQ
  obtain ⟨S, P, Q, r⟩ := o
  dsimp_m at hS hQ ⊢
  obtain ⟨M1W, M1B, M1r, M1c⟩ := putB_state hA hS.wf hS.nr hS.nc
  have hQ' : ∀ i, i < S.ncols → Q.getD i 0 < S.ncols := by rw [hS.nc]; exact hQ
  congr 2
  by_cases c : 0 < r ∧ r < A.nrows
  · rw [if_pos (by simp; omega), if_pos (by rw [hS.nr]; exact c)]
    rw [mzdInitWindow_in 0 0 r A.ncols A.nrows rs 0 0 r A.ncols A.nrows rfl rfl rfl rfl rfl rfl (by omega) (by omega)
      (by omega)]
    dsimp_m
    have e : liftTri ⟨CLoop.view (memOf (A.putB S)) ((0 : Int) + ((0 : Nat) : Int)) ((0 : Int) + ((0 / 64 : Nat) : Int)),
          ((r - 0 : Nat) : Int), ((A.ncols - 0 : Nat) : Int), (((A.ncols - 0 + 63) / 64 : Nat) : Int),
          leftMask ((A.ncols - 0) % 64)⟩ (GenTieTab.arrOf Q)
        = memOf (((A.putB S).window 0 0 r A.ncols).putB
            (((A.putB S).window 0 0 r A.ncols).toB.applyPRightTransTri
              (permOfMem (GenTieTab.arrOf Q) (A.ncols - 0)))) := by
      unfold liftTri
      simp only [Int.zero_add, Int.toNat_natCast]
      rfl
    rw [e, window_toB (A.putB S) 0 0 r A.ncols rfl (by rw [M1r]; omega) (Nat.le_of_eq M1c.symm), M1B,
      tri_congr _ _ Q (fun i hi => permOfMem_arrOf Q _ i (by simpa using hi))]
    have hX := tri_shape (S.sub 0 0 r A.ncols) Q
    have h := unview_window_putB (A.putB S) M1W 0 0 r A.ncols rfl (by rw [M1r]; omega) (Nat.le_of_eq M1c.symm)
      ((S.sub 0 0 r A.ncols).applyPRightTransTri Q) (by rw [hX.1, nrows_sub, hS.nr]; omega)
      (by rw [hX.2, ncols_sub])
    simp only [Int.zero_add]
    rw [h, M1B, Mzd.putB_putB hA, ← hS.nc, paste_tri_eq hS.wf hQ' (by rw [hS.nr]; omega)]
  · rw [if_neg (by simp; omega), if_neg (by rw [hS.nr]; exact c)]
    have h := liftTri_of (A.putB S) M1W (GenTieTab.arrOf Q)
    simp only [Mzd.nrows_putB, Mzd.ncols_putB, Mzd.width_putB, Mzd.hb_putB] at h
    rw [h, M1B, Mzd.putB_putB hA, tri_congr _ _ Q (fun i hi => permOfMem_arrOf Q _ i (by rw [hS.nc] at hi; exact hi)),
      G2.applyPRightTransTriRows_nrows]

/-! ### 2. `_mzd_solve_left` -/

/-- `mzd_pluq_solve_left(A, rank, P, Q, B, cutoff, check)` as the model operation: `P`, `Q` are read as arrays of
    the lengths `A->nrows`, `A->ncols` (`mzp_init(A->nrows)`, `mzp_init(A->ncols)` in `_mzd_solve_left`) -/
def liftSolve (VA : CLoop.MView) (rank : Int) (p q : Int → Int) (VB : CLoop.MView) (_cutoff check : Int) :
    Int × (Int → Int → BitVec 64) :=
  ((BMat.pluqSolveLeft (Mzd.ofView VA).toB rank.toNat (permOfMem p VA.nrows.toNat) (permOfMem q VA.ncols.toNat)
      (Mzd.ofView VB).toB (decide (check ≠ 0))).1,
    memOf ((Mzd.ofView VB).putB
      (BMat.pluqSolveLeft (Mzd.ofView VA).toB rank.toNat (permOfMem p VA.nrows.toNat) (permOfMem q VA.ncols.toNat)
        (Mzd.ofView VB).toB (decide (check ≠ 0))).2))

/-- what the write-back of a complete permutation into a fresh one leaves: the array itself -/
theorem permOfMem_fresh (P : Array Nat) (n : Nat) (hP : P.size = n) :
    permOfMem (fun i : Int => if (0 : Int) ≤ 0 + i ∧ 0 + i < (0 : Int) + ((n : Int) - (0 : Int)) then
      GenTieTab.arrOf P (0 + i - (0 : Int)) else 0 + i) n = P := by
  unfold permOfMem
  apply Array.ext
  · simp [hP]
  · intro i h1 h2
    have hi : i < n := by simpa using h1
    simp only [Array.getElem_map, Array.getElem_range]
    rw [if_pos (by omega)]
    unfold GenTieTab.arrOf
    have e : ((0 : Int) + (i : Int) - 0).toNat = i := by omega
    rw [e, Int.toNat_natCast]
    simp [Array.getD, h2]

/-- **`_mzd_solve_left`** (`Gen.C.solveLeftTop`), general form: `fpluq` is any callee that, on the record of `A` and the
    two fresh identity permutations, returns what the lift of the model factorisation `fact` returns -/
theorem solveLeftTop_gen (fpluq : CLoop.MView → (Int → Int) → (Int → Int) → Int →
      Int × (Int → Int → BitVec 64) × (Int → Int) × (Int → Int))
    (fact : BMat → Rec.Out) (cutoff check rsB : Int) (A B : Mzd) (hA : A.WF) (hB : B.WF)
    (hc : 1 ≤ B.ncols)
    (hf : fpluq ⟨memOf A, (A.nrows : Int), (A.ncols : Int), (A.width : Int), A.hb⟩ (fun i : Int => 0 + i)
        (fun i : Int => 0 + i) cutoff
      = GenTiePle.liftPle fact ⟨memOf A, (A.nrows : Int), (A.ncols : Int), (A.width : Int), A.hb⟩
        (fun i : Int => 0 + i) (fun i : Int => 0 + i) cutoff)
    (hS : Shaped (fact A.toB).1 A.nrows A.ncols) (hP : (fact A.toB).2.1.size = A.nrows)
    (hQ : (fact A.toB).2.2.1.size = A.ncols) :
    Gen.C.solveLeftTop cutoff check (memOf A) (memOf B) B.nrows A.nrows B.ncols rsB A.ncols A.width A.hb
        fpluq B.width B.hb liftSolve
      = ((SV.solveLeft fact A.toB B.toB (decide (check ≠ 0))).1,
          memOf (A.putB (SV.solveLeft fact A.toB B.toB (decide (check ≠ 0))).2.1),
          memOf (B.putB (SV.solveLeft fact A.toB B.toB (decide (check ≠ 0))).2.2)) := by
  unfold Gen.C.solveLeftTop SV.solveLeft
  dsimp_m
  rw [hf]
  unfold GenTiePle.liftPle liftSolve
  dsimp_m
  have eA := ofView_of A hA
  have eB := ofView_of B hB
  unfold CLoop.MView.of at eA eB
  rw [eA, eB]
  generalize fact A.toB = o at *
  obtain ⟨S, P, Q, r⟩ := o
  dsimp_m at hS hP hQ ⊢
  obtain ⟨M1W, M1B, M1r, M1c⟩ := putB_state hA hS.wf hS.nr hS.nc
  have eS := ofView_of (A.putB S) M1W
  unfold CLoop.MView.of at eS
  simp only [Mzd.nrows_putB, Mzd.ncols_putB, Mzd.width_putB, Mzd.hb_putB] at eS
  rw [eS, M1B]
  simp only [Int.toNat_natCast]
  rw [permOfMem_fresh P _ hP, permOfMem_fresh Q _ hQ]
  simp only [Mzd.nrows_toB, Mzd.ncols_toB]
  by_cases h1 : check ≠ 0 ∧ A.nrows < B.nrows
  · rw [if_pos (by simp; exact ⟨h1.1, by omega⟩)]
    rw [mzdInitWindow_in A.nrows 0 B.nrows B.ncols B.nrows rsB A.nrows 0 B.nrows B.ncols B.nrows rfl rfl rfl rfl rfl
      rfl (by omega) (by omega) (Nat.le_refl _)]
    dsimp_m
    have hz := GenTieSolve.mzdIsZero_window B A.nrows 0 B.nrows B.ncols rfl (Nat.le_refl _) (Nat.le_refl _)
      (by omega)
    simp only [Int.zero_add, Nat.sub_zero] at hz ⊢
    rw [hz]
    by_cases h2 : (B.toB.sub A.nrows 0 B.nrows B.ncols).eqM (zero (B.nrows - A.nrows) B.ncols) = true
    · rw [if_neg (by simp [h2]), if_neg (by simp [h2])]
    · have h2' : (B.toB.sub A.nrows 0 B.nrows B.ncols).eqM (zero (B.nrows - A.nrows) B.ncols) = false := by
        simpa using h2
      rw [if_pos (by simp [h2']), if_pos ⟨by simpa using h1.1, h1.2, h2'⟩]
      dsimp_m
      rw [Mzd.putB_toB hA, Mzd.putB_toB hB]
  · rw [if_neg (by simp; intro hh; have := h1; omega), if_neg (by intro hh; exact h1 ⟨by simpa using hh.1, hh.2.1⟩)]

/-- **`_mzd_solve_left`** with `_mzd_pluq` := the lift of `fact`, `mzd_pluq_solve_left` := the lift of
    `BMat.pluqSolveLeft`: return value and the two memories are the model's -/
theorem solveLeftTop_eq (fact : BMat → Rec.Out) (cutoff check rsB : Int) (A B : Mzd) (hA : A.WF) (hB : B.WF)
    (hc : 1 ≤ B.ncols)
    (hS : Shaped (fact A.toB).1 A.nrows A.ncols) (hP : (fact A.toB).2.1.size = A.nrows)
    (hQ : (fact A.toB).2.2.1.size = A.ncols) :
    Gen.C.solveLeftTop cutoff check (memOf A) (memOf B) B.nrows A.nrows B.ncols rsB A.ncols A.width A.hb
        (GenTiePle.liftPle fact) B.width B.hb liftSolve
      = ((SV.solveLeft fact A.toB B.toB (decide (check ≠ 0))).1,
          memOf (A.putB (SV.solveLeft fact A.toB B.toB (decide (check ≠ 0))).2.1),
          memOf (B.putB (SV.solveLeft fact A.toB B.toB (decide (check ≠ 0))).2.2)) :=
  solveLeftTop_gen _ fact cutoff check rsB A B hA hB hc rfl hS hP hQ

/-- **`_mzd_solve_left` over the TRANSLATED `_mzd_pluq`** (`Gen.C.pluqFromPle`, its callees `_mzd_ple` := the lift of
    `ple`, `mzd_apply_p_right_trans_tri` := `liftTri`): the model is `SV.solveLeft (G2.pluqOfPle ple)` -/
theorem solveLeftTop_pluqFromPle (ple : BMat → Rec.Out) (cutoff check rsA rsB : Int) (A B : Mzd) (hA : A.WF)
    (hB : B.WF) (hc : 1 ≤ B.ncols)
    (hS : Shaped (ple A.toB).1 A.nrows A.ncols) (hP : (ple A.toB).2.1.size = A.nrows)
    (hQ : (ple A.toB).2.2.1.size = A.ncols) (hQr : ∀ i, i < A.ncols → (ple A.toB).2.2.1.getD i 0 < A.ncols) :
    Gen.C.solveLeftTop cutoff check (memOf A) (memOf B) B.nrows A.nrows B.ncols rsB A.ncols A.width A.hb
        (fun V p q c => Gen.C.pluqFromPle c V.mem p q V.nrows V.ncols V.width V.hb (GenTiePle.liftPle ple) rsA liftTri)
        B.width B.hb liftSolve
      = ((SV.solveLeft (G2.pluqOfPle ple) A.toB B.toB (decide (check ≠ 0))).1,
          memOf (A.putB (SV.solveLeft (G2.pluqOfPle ple) A.toB B.toB (decide (check ≠ 0))).2.1),
          memOf (B.putB (SV.solveLeft (G2.pluqOfPle ple) A.toB B.toB (decide (check ≠ 0))).2.2)) := by
  have hQr' : ∀ i, i < (ple A.toB).1.ncols → (ple A.toB).2.2.1.getD i 0 < (ple A.toB).1.ncols := by
    rw [hS.nc]; exact hQr
  have hS' : Shaped (G2.pluqOfPle ple A.toB).1 A.nrows A.ncols := by
    unfold G2.pluqOfPle
    obtain ⟨sh, -⟩ := G2.tri_get (ple A.toB).1 (ple A.toB).2.2.1
      (if 0 < (ple A.toB).2.2.2 ∧ (ple A.toB).2.2.2 < (ple A.toB).1.nrows then (ple A.toB).2.2.2 else (ple A.toB).1.nrows)
    exact ⟨G2.tri_WF hS.wf hQr' _, by rw [sh.1, hS.nr], by rw [sh.2.1, hS.nc]⟩
  apply solveLeftTop_gen _ (G2.pluqOfPle ple) cutoff check rsB A B hA hB hc _ hS' hP hQ
  dsimp_m
  rw [pluqFromPle_eq ple cutoff rsA A hA _ _ hS hQr]
  have eA := ofView_of A hA
  unfold CLoop.MView.of at eA
  unfold GenTiePle.liftPle
  rw [eA]

end M4ri.GenTieGlue

#print axioms M4ri.GenTieGlue.trtriUpperRec_step
#print axioms M4ri.GenTieGlue.trtriSplit_lt
#print axioms M4ri.GenTieGlue.regime_overflow
#print axioms M4ri.GenTieGlue.trtriRec_succ_of_regime
#print axioms M4ri.GenTieGlue.pluqFromPle_eq
#print axioms M4ri.GenTieGlue.solveLeftTop_eq
#print axioms M4ri.GenTieGlue.solveLeftTop_gen
#print axioms M4ri.GenTieGlue.solveLeftTop_pluqFromPle
