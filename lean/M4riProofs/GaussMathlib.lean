/-
  Connection of `M4riProofs.Gauss` (elementary, core Lean) with Mathlib's linear algebra over `ZMod 2`:
    * `InSpan` is membership in `Submodule.span (ZMod 2)` of the row vectors,
      `SameSpan` is equality of the row spaces of the matrices;
    * `isRowEchelon` / `isRREF` imply Mathlib's `Matrix.IsRowEchelon` / `Matrix.IsReducedRowEchelon`;
    * `BMat.rank` (the number of pivots found by `mzd_gauss_delayed`) is `Matrix.rank`.
-/
import M4riProofs.Gauss
import Mathlib.LinearAlgebra.Matrix.Echelon.Pivot
import Mathlib.Algebra.Field.ZMod
import Mathlib.Data.Fintype.Fin

namespace M4ri
namespace BMat
open Matrix

/-- the GF(2) row vector of width `n` of a `Nat` row -/
def toVec (n : Nat) (v : Nat) : Fin n → ZMod 2 := fun j => if v.testBit j then 1 else 0

theorem toVec_apply (n v : Nat) (j : Fin n) : toVec n v j = if v.testBit j then 1 else 0 := rfl

theorem toVec_zero (n : Nat) : toVec n 0 = 0 := by
  funext j; simp [toVec]

theorem toVec_xor (n a b : Nat) : toVec n (a ^^^ b) = toVec n a + toVec n b := by
  funext j
  simp only [toVec, Nat.testBit_xor, Pi.add_apply]
  cases a.testBit j <;> cases b.testBit j <;> decide

theorem toVec_eq_zero_iff {n v : Nat} {j : Fin n} : toVec n v j = 0 ↔ v.testBit j = false := by
  rw [toVec_apply]
  cases v.testBit j <;> decide

theorem toVec_eq_one_iff {n v : Nat} {j : Fin n} : toVec n v j = 1 ↔ v.testBit j = true := by
  rw [toVec_apply]
  cases v.testBit j <;> decide

theorem toVec_inj {n a b : Nat} (ha : a < 2 ^ n) (hb : b < 2 ^ n) (h : toVec n a = toVec n b) : a = b := by
  apply Nat.eq_of_testBit_eq
  intro j
  by_cases hj : j < n
  · have := congrFun h ⟨j, hj⟩
    rw [toVec_apply, toVec_apply] at this
    revert this
    show (if a.testBit j = true then (1 : ZMod 2) else 0) = (if b.testBit j = true then 1 else 0) → _
    cases a.testBit j <;> cases b.testBit j <;> decide
  · rw [Nat.testBit_lt_two_pow (Nat.lt_of_lt_of_le ha (Nat.pow_le_pow_right (by omega) (Nat.le_of_not_lt hj))),
      Nat.testBit_lt_two_pow (Nat.lt_of_lt_of_le hb (Nat.pow_le_pow_right (by omega) (Nat.le_of_not_lt hj)))]

/-- **`InSpan` is membership in the Mathlib span** of the row vectors -/
theorem inSpan_iff_mem_span {n : Nat} {l : List Nat} (hl : ∀ x, x ∈ l → x < 2 ^ n) {v : Nat}
    (hv : v < 2 ^ n) :
    InSpan l v ↔ toVec n v ∈ Submodule.span (ZMod 2) (toVec n '' {x | x ∈ l}) := by
  constructor
  · intro h
    clear hv
    induction h with
    | zero => rw [toVec_zero]; exact Submodule.zero_mem _
    | add hr _ ih =>
      rw [toVec_xor]
      exact Submodule.add_mem _ ih (Submodule.subset_span ⟨_, hr, rfl⟩)
  · intro h
    have key : ∀ w, w ∈ Submodule.span (ZMod 2) (toVec n '' {x | x ∈ l}) →
        ∃ u, InSpan l u ∧ toVec n u = w := by
      intro w hw
      induction hw using Submodule.span_induction with
      | mem x hx =>
        obtain ⟨u, hu, rfl⟩ := hx
        exact ⟨u, InSpan.of_mem hu, rfl⟩
      | zero => exact ⟨0, InSpan.zero, toVec_zero n⟩
      | add x y _ _ ihx ihy =>
        obtain ⟨u, hu, rfl⟩ := ihx
        obtain ⟨u', hu', rfl⟩ := ihy
        exact ⟨u ^^^ u', hu.xor hu', toVec_xor n u u'⟩
      | smul a x _ ih =>
        obtain ⟨u, hu, rfl⟩ := ih
        have ha : a = 0 ∨ a = 1 := by revert a; decide
        rcases ha with rfl | rfl
        · exact ⟨0, InSpan.zero, by rw [toVec_zero, zero_smul]⟩
        · exact ⟨u, hu, by rw [one_smul]⟩
    obtain ⟨u, hu, e⟩ := key _ h
    have := toVec_inj (InSpan.lt_two_pow hl hu) hv e
    rwa [this] at hu

/-- the matrix over `ZMod 2` (of width `n`) of a `BMat` -/
def toMatrix (n : Nat) (A : BMat) : Matrix (Fin A.nrows) (Fin n) (ZMod 2) := fun i => toVec n (A.row i)

theorem toMatrix_apply (n : Nat) (A : BMat) (i : Fin A.nrows) (j : Fin n) :
    toMatrix n A i j = if A.get i j then 1 else 0 := rfl

theorem range_toMatrix (n : Nat) (A : BMat) :
    Set.range (toMatrix n A).row = toVec n '' {x | x ∈ A.rowList} := by
  ext w
  constructor
  · rintro ⟨i, rfl⟩
    exact ⟨A.row i, mem_rowList.mpr ⟨i, i.2, rfl⟩, rfl⟩
  · rintro ⟨x, hx, rfl⟩
    obtain ⟨i, hi, rfl⟩ := mem_rowList.mp hx
    exact ⟨⟨i, hi⟩, rfl⟩

/-- the row space of a matrix, as a Mathlib submodule -/
noncomputable def rowSpace (n : Nat) (A : BMat) : Submodule (ZMod 2) (Fin n → ZMod 2) :=
  Submodule.span (ZMod 2) (Set.range (toMatrix n A).row)

theorem inSpan_iff_mem_rowSpace {A : BMat} (hA : A.WF) {v : Nat} (hv : v < 2 ^ A.ncols) :
    InSpan A.rowList v ↔ toVec A.ncols v ∈ rowSpace A.ncols A := by
  unfold rowSpace
  rw [range_toMatrix]
  exact inSpan_iff_mem_span (rowList_lt hA) hv

/-- **`SameSpan` is equality of the row spaces** -/
theorem sameSpan_iff_rowSpace_eq {A B : BMat} (hA : A.WF) (hB : B.WF) (hc : B.ncols = A.ncols) :
    SameSpan A B ↔ rowSpace A.ncols A = rowSpace A.ncols B := by
  have hlB : ∀ x, x ∈ B.rowList → x < 2 ^ A.ncols := by rw [← hc]; exact rowList_lt hB
  constructor
  · intro h
    unfold rowSpace
    apply le_antisymm
    · rw [Submodule.span_le]
      rintro w ⟨i, rfl⟩
      show toVec A.ncols (A.row i) ∈ _
      rw [SetLike.mem_coe, range_toMatrix, ← inSpan_iff_mem_span hlB (hA.2 i)]
      exact (h _).mp (row_inSpan A i i.2)
    · rw [Submodule.span_le]
      rintro w ⟨i, rfl⟩
      show toVec A.ncols (B.row i) ∈ _
      rw [SetLike.mem_coe, range_toMatrix, ← inSpan_iff_mem_span (rowList_lt hA) (by rw [← hc]; exact hB.2 i)]
      exact (h _).mpr (row_inSpan B i i.2)
  · intro h v
    unfold rowSpace at h
    rw [range_toMatrix, range_toMatrix] at h
    constructor
    · intro hv
      have hlt := InSpan.lt_two_pow (rowList_lt hA) hv
      rw [inSpan_iff_mem_span hlB hlt, ← h, ← inSpan_iff_mem_span (rowList_lt hA) hlt]
      exact hv
    · intro hv
      have hlt := InSpan.lt_two_pow hlB hv
      rw [inSpan_iff_mem_span (rowList_lt hA) hlt, h, ← inSpan_iff_mem_span hlB hlt]
      exact hv

/-! ### echelon forms -/

theorem toMatrix_eq_zero_iff {n : Nat} {A : BMat} {i : Fin A.nrows} {j : Fin n} :
    toMatrix n A i j = 0 ↔ A.get i j = false := toVec_eq_zero_iff

/-- `isRowEchelon` implies Mathlib's `Matrix.IsRowEchelon` -/
theorem toMatrix_isRowEchelon {R : BMat} (hR : R.WF) (h : R.isRowEchelon = true) :
    (toMatrix R.ncols R).IsRowEchelon := by
  rw [isRowEchelon_iff_rows hR] at h
  intro i₁ i₂ hlt j₂ hz
  rw [toMatrix_eq_zero_iff]
  have hE := h i₁ i₂ hlt i₂.2
  by_cases h0 : R.row i₁ = 0
  · show (R.row i₂).testBit j₂ = false
    rw [hE.1 h0]; exact Nat.zero_testBit _
  · obtain ⟨c, hcn, hc⟩ := exists_isLead (hR.2 i₁) h0
    apply hE.2 c hc j₂
    apply Nat.le_of_not_lt
    intro hlt'
    have := hz ⟨c, hcn⟩ hlt'
    rw [toMatrix_eq_zero_iff] at this
    have h1 : R.get i₁ c = true := hc.1
    rw [h1] at this; cases this

theorem isLeadingEntry_iff {R : BMat} {i : Fin R.nrows} {c : Fin R.ncols} :
    (toMatrix R.ncols R).IsLeadingEntry i c ↔ IsLead (R.row i) c := by
  unfold Matrix.IsLeadingEntry IsLead
  constructor
  · rintro ⟨h1, h2⟩
    refine ⟨?_, fun j hj => ?_⟩
    · rw [Ne, toMatrix_eq_zero_iff] at h2
      show R.get i c = true
      simpa using h2
    · have := h1 ⟨j, by omega⟩ hj
      rwa [toMatrix_eq_zero_iff] at this
  · rintro ⟨h1, h2⟩
    refine ⟨fun j hj => ?_, ?_⟩
    · rw [toMatrix_eq_zero_iff]; exact h2 j hj
    · rw [Ne, toMatrix_eq_zero_iff]
      show ¬ (R.row i).testBit c = false
      rw [h1]; simp

/-- `isRREF` implies Mathlib's `Matrix.IsReducedRowEchelon` -/
theorem toMatrix_isReducedRowEchelon {R : BMat} (hR : R.WF) (h : R.isRREF = true) :
    (toMatrix R.ncols R).IsReducedRowEchelon := by
  refine ⟨toMatrix_isRowEchelon hR (isRowEchelon_of_isRREF h), ?_, ?_⟩
  · intro i c hl
    rw [isLeadingEntry_iff] at hl
    exact toVec_eq_one_iff.mpr hl.1
  · intro i₁ i₂ c hlt hl
    rw [isLeadingEntry_iff] at hl
    rw [toMatrix_eq_zero_iff]
    exact ((isRREF_iff_rows hR).mp h i₁ i₂ hlt i₂.2).2 c hl

/-! ### rank -/

/-- pivot column of row `i` (`⊤` for a zero row) -/
def pivotOf (R : BMat) (i : Fin R.nrows) : WithTop (Fin R.ncols) :=
  match lowBit (R.row i) R.ncols with
  | none => ⊤
  | some c => if h : c < R.ncols then ((⟨c, h⟩ : Fin R.ncols) : WithTop (Fin R.ncols)) else ⊤

theorem toMatrix_isPivotedBy {R : BMat} (hR : R.WF) (h : R.isRowEchelon = true) :
    (toMatrix R.ncols R).IsPivotedBy (pivotOf R) := by
  refine ⟨toMatrix_isRowEchelon hR h, fun i => ?_⟩
  unfold pivotOf
  cases hl : lowBit (R.row i) R.ncols with
  | none =>
    refine ⟨fun j _ => ?_, fun c hc => ?_⟩
    · rw [toMatrix_eq_zero_iff]; exact lowBit_eq_none.mp hl j j.2
    · exact absurd hc (WithTop.top_ne_coe)
  | some c =>
    obtain ⟨hcn, hc⟩ := lowBit_eq_some.mp hl
    simp only [dif_pos hcn]
    refine ⟨fun j hj => ?_, fun c' hc' => ?_⟩
    · rw [toMatrix_eq_zero_iff]
      have : j < (⟨c, hcn⟩ : Fin R.ncols) := WithTop.coe_lt_coe.mp hj
      exact hc.2 j this
    · have e : (⟨c, hcn⟩ : Fin R.ncols) = c' := WithTop.coe_injective hc'
      subst e
      exact (isLeadingEntry_iff.mpr hc).2

theorem row_eq_zero_iff_toMatrix {R : BMat} (hR : R.WF) (i : Fin R.nrows) :
    toMatrix R.ncols R i = 0 ↔ R.row i = 0 := by
  constructor
  · intro h
    apply toVec_inj (hR.2 i) (Nat.two_pow_pos _)
    rw [toVec_zero]; exact h
  · intro h
    show toVec R.ncols (R.row i) = 0
    rw [h, toVec_zero]

/-- **`Matrix.rank` of the matrix of `A` is `BMat.rank A`**, the number of pivots found by the naive
    elimination `mzd_gauss_delayed(A, 0, 1)` -/
theorem rank_toMatrix {A : BMat} (hA : A.WF) : (toMatrix A.ncols A).rank = A.rank := by
  have hW := rref_WF hA
  have hc := rref_ncols hA
  -- same row space, hence same rank
  have h1 : (toMatrix A.ncols A).rank = (toMatrix A.ncols A.rref).rank := by
    rw [rank_eq_finrank_span_row, rank_eq_finrank_span_row]
    have := (sameSpan_iff_rowSpace_eq hA hW hc).mp (rref_sameSpan hA)
    unfold rowSpace at this
    rw [this]
  rw [h1]
  -- the RREF is pivoted, its rank is the number of non-zero rows
  have hP := toMatrix_isPivotedBy hW (isRowEchelon_of_isRREF (rref_isRREF hA))
  have h2 := hP.rank_eq
  have hset : (Finset.univ.filter fun i : Fin A.rref.nrows => pivotOf A.rref i ≠ ⊤) =
      Finset.univ.filter fun i : Fin A.rref.nrows => (i : Nat) < A.rank := by
    apply Finset.filter_congr
    intro i _
    rw [Ne, hP.eq_top_iff, row_eq_zero_iff_toMatrix hW]
    constructor
    · intro hne
      apply Nat.lt_of_not_le
      intro hle
      exact hne (rref_row_eq_zero hA i hle)
    · intro hlt
      exact rref_row_ne_zero hA i hlt
  rw [hset, Fin.card_filter_val_lt] at h2
  have e : (toMatrix A.ncols A.rref).rank = (toMatrix A.rref.ncols A.rref).rank := by rw [hc]
  rw [e, h2, rref_nrows hA]
  exact Nat.min_eq_right (rank_le_nrows hA)

/-- the value returned by `mzd_echelonize_naive(A, full)` is the rank of `A`, for both values of `full` -/
theorem rank_toMatrix_gauss {A : BMat} (hA : A.WF) (full : Bool) :
    (toMatrix A.ncols A).rank = (gaussDelayed A 0 full).2 := by
  rw [rank_toMatrix hA, gauss_rank_eq_rank hA full]

/-- what `checkEchelon` certifies, in Mathlib terms: `r` is the rank of the input and the output has the
    same row space and is in (reduced) row echelon form -/
theorem checkEchelon_sound_mathlib {A R : BMat} (hA : A.WF) (hR : R.WF) (r : Nat) (full : Bool)
    (h : checkEchelon A R r full = true) :
    (toMatrix A.ncols A).rank = r ∧ rowSpace A.ncols A = rowSpace A.ncols R ∧
    (toMatrix R.ncols R).IsRowEchelon ∧ (full = true → (toMatrix R.ncols R).IsReducedRowEchelon) := by
  obtain ⟨_, hc, hr, hs, he, _, _, hf⟩ := checkEchelon_sound hA hR r full h
  refine ⟨by rw [rank_toMatrix hA, hr], (sameSpan_iff_rowSpace_eq hA hR hc).mp hs,
    toMatrix_isRowEchelon hR he, fun hfull => toMatrix_isReducedRowEchelon hR (hf hfull).1⟩

end BMat
end M4ri
